/-
  Proofs/PlainForeign.lean — C12 for SOFT language changes, END TO END on the model with
  `multi = true`: documents that consist of inert text and insertions
  `\foreignlanguage{name}{text}` of package babel.

  Model facts used (`packages/babel.py`: `Macro(parms, '\\foreignlanguage', args='OAA',
  repl=h_foreignlanguage)`, `foreignlang_break = False`; `parser.py: expand_sequence`;
  `utils.py: get_txt_pos_ml`, `ml_check_lang_section`, `ml_append_placeholder`).
  * The scanner yields the macro token, `{`, the tokens of the name, `}`, `{`, the tokens of the
    text, `}`.  `expandMacro` collects the three arguments (the optional one is absent: `{` follows
    the macro name), the handler expands the name to text, strips it, looks it up in
    `language_map` and returns  `LanguageToken(pos, lang=code, brk=False)`, the TOKENS OF THE TEXT,
    `LanguageToken(pos of the last token of the text, back=True)`; `expand_arguments` puts an Action
    token in front.  All is pushed back.  The loop copies the Action token, copies the opening
    language token and PUSHES the language (`change_parser_lang`), copies the tokens of the text —
    read with the settings (active characters) of the foreign language —, copies the closing language
    token and POPS the language: the parser state behind the insertion is the one in front of it.
  * `remove_pure_action_lines`: the Action token would make the line of the insertion a "pure
    action line" if the line held nothing but white space; the text of the insertion has a visible
    character on its first line (`visFirst`), so NO line is deleted (`delLines_doc`).
  * `get_txt_pos_ml`: see Proofs/PlainForeignML.lean (`refOut`).

  (1) `callHandler_foreign`   (2) `collectArgs_foreign`, `expandArguments_foreign`,
  `expandMacro_foreign`   (3) `seq_frn_step`, `Piece`, `PiecesOk`, `outMain`, `cost`, `seq_frns`
  `frnOk`, `segsOk`, `segMarks`, `scanSteps_segs`, `scan_segs`, `okGo`, `delLines_doc`,
  `parserWork_frn`, `parse_frn`, `tex2txt_frn_record`, `tex2txt_foreignlanguage`

  The end-to-end statement.  `tex2txt … multi := true thresh` succeeds and
  `r.parts = refParts T o.lang thresh (mainRepl lc o.lang) segs` with `lc` = the language-change
  collections of the parser state after initialisation:
    `refOut`      the pieces of text, see there: text is appended to the current piece of the main
                  language; an insertion is a piece of its own under the code of its name, every
                  character at its own source position; a SHORT insertion
                  (`(splitWs body).length ≤ thresh`, i.e. `len(txt.split()) <= ml_continue_thresh`)
                  behind a non-empty piece of main text leaves ONE placeholder in that piece, which
                  continues behind the insertion: the collection `lang_change_repl` of the settings
                  of the MAIN language is rotated by one FIRST and its new head is taken (the k-th
                  short insertion of the document gets entry `k mod length`, counted from 0: the
                  first one gets the SECOND entry); every character of the placeholder is mapped to
                  the position of the first visible character of the insertion; if the insertion
                  starts (ends) with white space, that one character is copied in front of (behind)
                  the placeholder with its own position (issue 117).  Any other insertion ends the
                  piece; a new piece of the main language starts behind it.
    `groupSecs`   the pieces are grouped by code: codes in the order of their first piece — the
                  piece of a short insertion is produced BEFORE the surrounding piece is complete, so
                  the foreign code may come first —, the pieces of one code in the order of `refOut`;
    `shiftParts`  positions are reported 1-based.
  `r.unknowns = []`, `r.diags = st1.diags`.

  Side conditions (reasons)
    options       no `--defs`, `--extr`, `--repl`
    `hfb : T.foreignBrk = false`   `foreignlang_break`; otherwise no insertion is ever joined
    `hinit`, `hml`   `st1` = state after `Parser.__init__` with `multi = true`; its multi-language flag
                  is set
    `hstk : st1.langStack ≠ []`   the pop behind the insertion undoes the push
    `hlc : mainRepl (lcOf st1) o.lang ≠ []`   the settings of the main language have a non-empty
                  `lang_change_repl` (else Python raises in `ml_append_placeholder`)
    `segsOk T st1 o.lang segs`   (computable)
      text segments: `PlainFootnote.textOk` (inert for the settings of the main language); what
        follows a text segment does not start with white space (merge the segments);
      `frnOk`: no special sequence matches at the backslash, `\foreignlanguage` is no accent macro;
        it is declared with argument codes `OAA`, the handler `h_foreignlanguage`, no extraction
        text (babel is loaded); the four braces are scanned as brace tokens; the name is not empty
        and inert in front of `}` (for the main language); `translate_lang` finds a code and the
        code DIFFERS from the main language `o.lang` (else the insertion is no section of its own and
        its text is part of the surrounding piece — not covered); the text is inert for the
        settings of the FOREIGN language (e.g. no `"` in German text), in front of `}`; its first
        line has a visible character (`visFirst`; the text may contain line breaks behind it); the
        empty string is no active character of the main language (the Action token the insertion
        leaves would be sent to `expand_short_macro`);
      `behindOk`: behind an insertion the document ends or a NON-EMPTY text segment follows (two
        adjacent insertions are not covered: the joining heuristic then compares a foreign section
        with a foreign section, see "not covered").
    fuel   `(render segs).length + 2 ≤ fuel`.
  Not covered: the optional argument of `\foreignlanguage`, white space between the arguments,
  adjacent insertions, nested insertions, insertions in the main language, blank insertions,
  `\selectlanguage` in the same document, `otherlanguage`, `--repl`, text with macros / maths.

  Behaviour of the model (= of the Python code, checked on examples) that one may not expect
    * a short insertion at the very BEGINNING of the document (no main-language text in front of
      it) is NOT replaced by a placeholder: `\foreignlanguage{german}{x} c` gives the parts
      `de-DE: "x"`, `en-GB: " c"`;
    * the FIRST placeholder used is the SECOND entry of the collection (`L-L-L`, not `K-K-K`);
    * the order of the language codes in the result depends on whether the first insertion is short.
-/
import YalafiVerif.Proofs.PlainForeignML
namespace Yalafi
namespace PlainForeign

open M
open PlainFootnote (CopyTok BraceTok argBuffer_braced skipSpace_brace skippedLangs_brace TextRun braceAt)
open LinesLang (Item Mark ch isLg tokItems itemsOf delLines marksOf delGo)
open PlainMacro (tokChars tokChars_fst)
open PlainLang (codeOfName langOf codeOf seq_lang_multi simple_of_copy marksOf_copy charsOf_of_txtpos
  shiftParts groupSecs)

/-! ### the declaration of `\foreignlanguage` -/

/-- the declaration `Macro(parms, '\\foreignlanguage', args='OAA', repl=h_foreignlanguage)` of
    `packages/babel.py` as far as the expander looks at it -/
def frnDeclOk (m : MacroDef) : Bool :=
  m.args == ['O', 'A', 'A'] && m.handler == Handler.foreignlanguage && m.extract.isEmpty

structure DeclFacts (m : MacroDef) : Prop where
  args : m.args = ['O', 'A', 'A']
  handler : m.handler = .foreignlanguage
  extract : m.extract = []

theorem declFacts {m : MacroDef} (h : frnDeclOk m = true) : DeclFacts m := by
  simp only [frnDeclOk, Bool.and_eq_true, beq_iff_eq, List.isEmpty_iff] at h
  exact ⟨h.1.1, h.1.2, h.2⟩

/-- `Parameters.change_parser_lang(lang)` (soft): the language is pushed -/
def pushLang (T : PTables) (st : PState) (code : Str) : PState := changeParserLang T st code false false

theorem pushLang_eq (T : PTables) (st : PState) (code : Str) :
    pushLang T st code = { st with langStack := (checkLang T code, code) :: st.langStack } := by
  simp [pushLang, changeParserLang]

@[simp] theorem pushLang_multi (T : PTables) (st : PState) (code : Str) :
    (pushLang T st code).multiLanguage = st.multiLanguage := by rw [pushLang_eq]

/-- the pop behind the insertion undoes the push -/
theorem pop_push (T : PTables) (st : PState) (code : Str) (h : st.langStack ≠ []) :
    changeParserLang T (pushLang T st code) [] true false = st := by
  rw [pushLang_eq]
  have : 1 < st.langStack.length + 1 := by
    have := List.length_pos_iff.mpr h; omega
  simp [changeParserLang, this]

/-! ### (1) the handler -/

/-- **(1) the handler step.**  `h_foreignlanguage` expands its first mandatory argument to text,
    strips it, looks it up in the language map and returns the opening language token, the tokens
    of the second argument, and the closing language token; the state is unchanged. -/
theorem callHandler_foreign (T : PTables) (fuel : Nat) (buf : Buf) (mac : MacroDef)
    (d name body : List Tok) (last : Tok) (pos : Nat) (st : PState) (code : Str)
    (hb : ∀ t ∈ name, CopyTok T st t)
    (hc : translateLang T (strip (getTxtPos name).1) = some code)
    (hlast : body.getLast? = some last) (hf : name.length + 3 ≤ fuel) :
    callHandler T fuel .foreignlanguage buf mac [d, name, body] pos st
      = .ok (openTok T pos code :: body ++ [backTok last.pos], st) := by
  obtain ⟨f, rfl⟩ : ∃ f, fuel = f + 1 := ⟨fuel - 1, by omega⟩
  rw [callHandler.eq_13]
  simp only [List.getElem?_cons_succ, List.getElem?_cons_zero]
  refine (M.bind_ok _ _ _ _ _ (rfl : (pure name : M (List Tok)) st = _)).trans ?_
  refine (M.bind_ok _ _ _ _ _ (rfl : (pure body : M (List Tok)) st = _)).trans ?_
  refine (M.bind_ok _ _ _ _ _ (PlainHeading.getTextExpanded_copy T st name f hb (by omega))).trans ?_
  simp only [hc, hlast]
  rfl

/-! ### (2) `collectArgs`, `expandArguments`, `expandMacro` -/

/-- the value `collectArgs` stores for the missing optional argument (never used) -/
def optDflt (mac : MacroDef) (start : Nat) : List Tok :=
  match mac.defaults[0]? with
  | some d => d.map (fun t => { t with pos := start, fix := true })
  | none => []

/-- `OAA` on `{name}{body}`: the tokens between the braces -/
theorem collectArgs_foreign (T : PTables) (mac : MacroDef) (lb1 rb1 lb2 rb2 : Tok)
    (name body : List Tok) (rest : Buf) (start : Nat) (st : PState)
    (hlb1 : BraceTok '{' lb1) (hrb1 : BraceTok '}' rb1) (hlb2 : BraceTok '{' lb2)
    (hrb2 : BraceTok '}' rb2)
    (hn : ∀ t ∈ name, PlainTok t) (hnne : name ≠ [])
    (hb : ∀ t ∈ body, PlainTok t) (hbne : body ≠ []) :
    collectArgs T mac ['O', 'A', 'A'] 0 (lb1 :: (name ++ rb1 :: lb2 :: (body ++ rb2 :: rest))) start {} st
      = .ok (({ args := [optDflt mac start, name, body], extr := [[], name, body], langs := [] },
              rest), st) := by
  have h1 : txtIsNV lb1 "[" = false := by simp [txtIsNV, hlb1.txt]
  have h2 : txtIsNV lb1 "}" = false := by simp [txtIsNV, hlb1.txt]
  have h3 : txtIsNV lb2 "}" = false := by simp [txtIsNV, hlb2.txt]
  simp only [collectArgs, skipSpace_brace lb1 _ hlb1, skippedLangs_brace lb1 _ hlb1, List.head?_cons,
    h1, h2, show ('O' == '*') = false by decide, show ('O' == 'O') = true by decide,
    show ('A' == '*') = false by decide, show ('A' == 'O') = false by decide,
    show ('A' == 'A') = true by decide, Bool.false_eq_true, if_false, if_true, List.append_nil,
    List.nil_append]
  refine (M.bind_ok _ _ _ _ _ (argBuffer_braced T.toTables lb1 rb1 name _ lb1.pos st hlb1 hrb1 hn
    hnne)).trans ?_
  simp only [skipSpace_brace lb2 _ hlb2, skippedLangs_brace lb2 _ hlb2, List.head?_cons, h3,
    Bool.false_eq_true, if_false]
  refine (M.bind_ok _ _ _ _ _ (argBuffer_braced T.toTables lb2 rb2 body rest lb2.pos st hlb2 hrb2 hb
    hbne)).trans ?_
  rfl

/-- what `expand_arguments` returns for `\foreignlanguage{name}{body}` at `start` -/
def frnOut (T : PTables) (start : Nat) (code : Str) (body : List Tok) (lastPos : Nat) : List Tok :=
  mkAction start :: openTok T start code :: (body ++ [backTok lastPos])

/-- **(2) `expand_arguments` for `\foreignlanguage{name}{body}`** -/
theorem expandArguments_foreign (T : PTables) (fuel : Nat) (mac : MacroDef) (lb1 rb1 lb2 rb2 : Tok)
    (name body : List Tok) (last : Tok) (rest : Buf) (start : Nat) (st : PState) (code : Str)
    (hm : DeclFacts mac)
    (hlb1 : BraceTok '{' lb1) (hrb1 : BraceTok '}' rb1) (hlb2 : BraceTok '{' lb2)
    (hrb2 : BraceTok '}' rb2)
    (hn : ∀ t ∈ name, CopyTok T st t) (hnne : name ≠ [])
    (hb : ∀ t ∈ body, PlainTok t) (hlast : body.getLast? = some last)
    (hc : translateLang T (strip (getTxtPos name).1) = some code)
    (hf : name.length + 4 ≤ fuel) :
    expandArguments T fuel (lb1 :: (name ++ rb1 :: lb2 :: (body ++ rb2 :: rest))) mac start st
      = .ok ((frnOut T start code body last.pos, rest), st) := by
  obtain ⟨f, rfl⟩ : ∃ f, fuel = f + 1 := ⟨fuel - 1, by omega⟩
  have hbne : body ≠ [] := by
    intro e; rw [e] at hlast; cases hlast
  rw [expandArguments.eq_2, hm.args]
  refine (M.bind_ok _ _ _ _ _ (collectArgs_foreign T mac lb1 rb1 lb2 rb2 name body rest start st
    hlb1 hrb1 hlb2 hrb2 (fun x hx => (hn x hx).plain) hnne hb hbne)).trans ?_
  simp only [hm.extract, hm.handler, List.isEmpty_nil, Bool.not_true, Bool.false_eq_true, if_false,
    show (Handler.foreignlanguage != Handler.none) = true by decide, if_true]
  refine (M.bind_ok _ _ _ _ _
    (callHandler_foreign T f rest mac _ name body last start st code hn hc hlast (by omega))).trans ?_
  show Outcome.ok _ = _
  simp [frnOut]

theorem expandMacro_foreign (T : PTables) (fuel : Nat) (mac : MacroDef) (hd lb1 rb1 lb2 rb2 : Tok)
    (name body : List Tok) (last : Tok) (rest : Buf) (st : PState) (code : Str)
    (hmac : lookupMacro st hd.txt = some mac) (hm : DeclFacts mac)
    (hlb1 : BraceTok '{' lb1) (hrb1 : BraceTok '}' rb1) (hlb2 : BraceTok '{' lb2)
    (hrb2 : BraceTok '}' rb2)
    (hn : ∀ t ∈ name, CopyTok T st t) (hnne : name ≠ [])
    (hb : ∀ t ∈ body, PlainTok t) (hlast : body.getLast? = some last)
    (hc : translateLang T (strip (getTxtPos name).1) = some code)
    (hf : name.length + 5 ≤ fuel) :
    expandMacro T fuel (lb1 :: (name ++ rb1 :: lb2 :: (body ++ rb2 :: rest))) hd false st
      = .ok ((frnOut T hd.pos code body last.pos, rest), st) := by
  obtain ⟨f, rfl⟩ : ∃ f, fuel = f + 1 := ⟨fuel - 1, by omega⟩
  have hsk : skipSpaceStopLangAct (lb1 :: (name ++ rb1 :: lb2 :: (body ++ rb2 :: rest)))
      = lb1 :: (name ++ rb1 :: lb2 :: (body ++ rb2 :: rest)) := by
    simp [skipSpaceStopLangAct, hlb1.notSpace]
  rw [expandMacro.eq_2]
  show M.bind' M.get _ st = _
  simp only [M.bind', M.get, hmac, hsk]
  exact expandArguments_foreign T f mac lb1 rb1 lb2 rb2 name body last rest hd.pos st code hm hlb1 hrb1
    hlb2 hrb2 hn hnne hb hlast hc (by omega)

/-! ### (3) the loop -/

/-- the macro token of a declared `\foreignlanguage` -/
structure FrnTok (st : PState) (t : Tok) : Prop where
  kind : t.kind = .xmacro
  nDef : txtIs t "\\def" = false
  decl : ∃ m, lookupMacro st t.txt = some m ∧ frnDeclOk m = true

theorem FrnTok.congr {st st' : PState} (hm : st'.macros = st.macros) {t : Tok} (h : FrnTok st t) :
    FrnTok st' t := by
  obtain ⟨m, h1, h2⟩ := h.decl
  exact ⟨h.kind, h.nDef, m, by simpa [lookupMacro, hm] using h1, h2⟩

/-- one insertion in the loop: the macro token, the Action token, the opening language token (push),
    the tokens of the text (copied with the settings of the foreign language), the closing language
    token (pop): `|text tokens| + 4` iterations; the handler needs `|name tokens| + 5` units below
    the first one -/
theorem seq_frn_step (T : PTables) (fuel : Nat) (hd lb1 rb1 lb2 rb2 : Tok) (name body : List Tok)
    (last : Tok) (code : Str) (rest : Buf) (envStop : Option Str) (out : List Tok) (st : PState)
    (hhd : FrnTok st hd) (hml : st.multiLanguage = true) (hstk : st.langStack ≠ [])
    (hnea : noEmptyActive T st = true)
    (hlb1 : BraceTok '{' lb1) (hrb1 : BraceTok '}' rb1) (hlb2 : BraceTok '{' lb2)
    (hrb2 : BraceTok '}' rb2)
    (hn : ∀ t ∈ name, CopyTok T st t) (hnne : name ≠ [])
    (hb : ∀ t ∈ body, CopyTok T (pushLang T st code) t) (hlast : body.getLast? = some last)
    (hc : translateLang T (strip (getTxtPos name).1) = some code)
    (hf : name.length + 2 ≤ fuel) :
    expandSequence T (fuel + body.length + 4)
        (hd :: lb1 :: (name ++ rb1 :: lb2 :: (body ++ rb2 :: rest))) envStop out st
      = expandSequence T fuel rest envStop (out ++ frnOut T hd.pos code body last.pos) st := by
  obtain ⟨mac, hmac, hmok⟩ := hhd.decl
  have hm := declFacts hmok
  have e4 : fuel + body.length + 4 = (fuel + body.length + 3) + 1 := by omega
  rw [e4, expandSequence.eq_3]
  show M.bind' M.get _ st = _
  simp only [M.bind', M.get]
  simp only [hhd.kind, hhd.nDef, Bool.false_eq_true, if_false, if_true, reduceCtorEq, beq_iff_eq,
    beq_self_eq_true]
  refine (M.bind_ok _ _ _ _ _ (expandMacro_foreign T (fuel + body.length + 3) mac hd lb1 rb1 lb2 rb2
    name body last rest st code hmac hm hlb1 hrb1 hlb2 hrb2 hn hnne (fun t ht => (hb t ht).plain)
    hlast hc (by omega))).trans ?_
  simp only [frnOut, List.cons_append]
  rw [seq_action_step T (fuel + body.length + 2) hd.pos _ envStop out st hnea]
  unfold openTok
  rw [seq_lang_multi T (fuel + body.length + 1) hd.pos code false false T.foreignBrk _ envStop _ st hml]
  have e1 : fuel + body.length + 1 = (fuel + 1) + body.length := by omega
  rw [e1]
  have hcp := PlainFootnote.seq_copy_prefix T (pushLang T st code) envStop (backTok last.pos :: rest)
    body (fuel + 1) (out ++ [mkAction hd.pos] ++ [mkLang hd.pos code false false T.foreignBrk]) hb
  have hbk := seq_lang_multi T fuel last.pos [] true false false rest envStop
    (out ++ [mkAction hd.pos] ++ [mkLang hd.pos code false false T.foreignBrk] ++ body)
    (pushLang T st code) (by simpa using hml)
  rw [pop_push T st code hstk] at hbk
  rw [show body ++ [backTok last.pos] ++ rest = body ++ (backTok last.pos :: rest) by simp]
  change expandSequence T (fuel + 1 + body.length) (body ++ (backTok last.pos :: rest)) envStop _
    (pushLang T st code) = _
  rw [hcp]
  unfold backTok
  rw [hbk]
  simp [mkLang]

/-- the pieces of a token buffer: a token that is copied, or `\foreignlanguage{name}{body}` -/
inductive Piece where
  | tok (t : Tok)
  | frn (hd lb1 : Tok) (name : List Tok) (rb1 lb2 : Tok) (body : List Tok) (rb2 : Tok)

def Piece.toks : Piece → List Tok
  | .tok t => [t]
  | .frn hd lb1 n rb1 lb2 b rb2 => hd :: lb1 :: (n ++ rb1 :: lb2 :: (b ++ [rb2]))

/-- the token buffer -/
def flat : List Piece → List Tok
  | [] => []
  | p :: ps => p.toks ++ flat ps

/-- position of the last token (0 for the empty list) -/
def lastPos (b : List Tok) : Nat := (b.getLast?.map (·.pos)).getD 0

/-- well-formed buffers (the parser state is the same in front of every piece) -/
def PiecesOk (T : PTables) (st : PState) : List Piece → Prop
  | [] => True
  | .tok t :: rest => CopyTok T st t ∧ PiecesOk T st rest
  | .frn hd lb1 n rb1 lb2 b rb2 :: rest =>
    FrnTok st hd ∧ BraceTok '{' lb1 ∧ BraceTok '}' rb1 ∧ BraceTok '{' lb2 ∧ BraceTok '}' rb2 ∧
    n ≠ [] ∧ (∀ t ∈ n, CopyTok T st t) ∧
    (translateLang T (strip (getTxtPos n).1)).isSome = true ∧ noEmptyActive T st = true ∧
    b ≠ [] ∧ (∀ t ∈ b, CopyTok T (pushLang T st (codeOf T n)) t) ∧ PiecesOk T st rest

/-- what the loop emits before the blank-line removal -/
def outMain (T : PTables) : List Piece → List Tok
  | [] => []
  | .tok t :: rest => t :: outMain T rest
  | .frn hd _ n _ _ b _ :: rest => frnOut T hd.pos (codeOf T n) b (lastPos b) ++ outMain T rest

/-- fuel: one unit per copied token; an insertion is charged `|name tokens| + |text tokens| + 6` -/
def cost : List Piece → Nat
  | [] => 0
  | .tok _ :: rest => 1 + cost rest
  | .frn _ _ n _ _ b _ :: rest => n.length + b.length + 6 + cost rest

theorem pushLang_congr (T : PTables) (st st' : PState) (code : Str) (hl : st'.langStack = st.langStack) :
    (pushLang T st' code).langStack = (pushLang T st code).langStack := by
  rw [pushLang_eq, pushLang_eq]; simp [hl]

theorem PiecesOk.congr {T : PTables} {st st' : PState} (hm : st'.macros = st.macros)
    (hl : st'.langStack = st.langStack) : ∀ {ps : List Piece}, PiecesOk T st ps → PiecesOk T st' ps
  | [], _ => trivial
  | .tok _ :: _, h => ⟨h.1.congr hl, PiecesOk.congr hm hl h.2⟩
  | .frn _ _ n _ _ _ _ :: _, h =>
    ⟨h.1.congr hm, h.2.1, h.2.2.1, h.2.2.2.1, h.2.2.2.2.1, h.2.2.2.2.2.1,
      fun t ht => (h.2.2.2.2.2.2.1 t ht).congr hl, h.2.2.2.2.2.2.2.1,
      (noEmptyActive_congr T st st' hl).trans h.2.2.2.2.2.2.2.2.1, h.2.2.2.2.2.2.2.2.2.1,
      fun t ht => (h.2.2.2.2.2.2.2.2.2.2.1 t ht).congr (pushLang_congr T st st' (codeOf T n) hl),
      PiecesOk.congr hm hl h.2.2.2.2.2.2.2.2.2.2.2⟩

/-- **(3) the loop on a buffer of copied tokens and insertions**: the output is the blank-line
    removal applied to `outMain`; the state is unchanged. -/
theorem seq_frns (T : PTables) (envStop : Option Str) (st : PState) (hml : st.multiLanguage = true)
    (hstk : st.langStack ≠ []) :
    ∀ (ps : List Piece) (fuel : Nat) (out : List Tok),
      cost ps + 1 ≤ fuel → PiecesOk T st ps →
      expandSequence T fuel (flat ps) envStop out st
        = match removeLines (out ++ outMain T ps) with
          | some r => .ok ((r, []), st)
          | none => .outOfFuel := by
  intro ps
  induction ps with
  | nil =>
    intro fuel out hf _
    obtain ⟨f, rfl⟩ : ∃ f, fuel = f + 1 := ⟨fuel - 1, by omega⟩
    simp only [flat, outMain, List.append_nil]
    rw [expandSequence.eq_2]
    cases removeLines out <;> rfl
  | cons p ps ih =>
    intro fuel out hf hok
    cases p with
    | tok t =>
      simp only [cost] at hf
      obtain ⟨f, rfl⟩ : ∃ f, fuel = f + 1 := ⟨fuel - 1, by omega⟩
      show expandSequence T (f + 1) (t :: flat ps) envStop out st = _
      rw [seq_plain_step T f t (flat ps) envStop out st hok.1.plain (Or.inl hok.1.nact),
        ih f (out ++ [t]) (by omega) hok.2]
      simp only [outMain, List.append_assoc, List.singleton_append]
    | frn hd lb1 n rb1 lb2 b rb2 =>
      obtain ⟨hhd, hlb1, hrb1, hlb2, hrb2, hnne, hn, hsome, hnea, hbne, hb, hrest⟩ := hok
      simp only [cost] at hf
      obtain ⟨code, hc⟩ : ∃ code, translateLang T (strip (getTxtPos n).1) = some code :=
        Option.isSome_iff_exists.mp hsome
      have hcode : codeOf T n = code := by simp [codeOf, hc]
      obtain ⟨last, hlast⟩ : ∃ last, b.getLast? = some last := by
        cases h : b.getLast? with
        | none => exact absurd (List.getLast?_eq_none_iff.mp h) hbne
        | some l => exact ⟨l, rfl⟩
      have hlp : lastPos b = last.pos := by simp [lastPos, hlast]
      obtain ⟨f, rfl⟩ : ∃ f, fuel = f + b.length + 4 := ⟨fuel - b.length - 4, by omega⟩
      have hflat : flat (Piece.frn hd lb1 n rb1 lb2 b rb2 :: ps)
          = hd :: lb1 :: (n ++ rb1 :: lb2 :: (b ++ rb2 :: flat ps)) := by
        simp [flat, Piece.toks]
      rw [hflat, seq_frn_step T f hd lb1 rb1 lb2 rb2 n b last code (flat ps) envStop out st hhd hml hstk
        hnea hlb1 hrb1 hlb2 hrb2 hn hnne (by rw [← hcode]; exact hb) hlast hc (by omega),
        ih _ _ (by omega) hrest]
      simp only [outMain, hcode, hlp, List.append_assoc]

/-! ### the documents -/

/-- the first line of the text has a visible character -/
def visFirst : Str → Bool
  | [] => false
  | c :: cs => if c == nl then false else if isSpace c then visFirst cs else true

/-- `\foreignlanguage{name}{body}`, followed by `R`, read in the parser state `st` whose main
    language is `main` (see the file header) -/
def frnOk (T : PTables) (st : PState) (main name body R : Str) : Bool :=
  (matchSpecial T.toTables ('\\' :: (frnName ++ '{' :: (name ++ '}' :: '{' :: (body ++ '}' :: R))))).isNone &&
  !T.toTables.isAccent ('\\' :: frnName) &&
  (match lookupMacro st ('\\' :: frnName) with | some m => frnDeclOk m | none => false) &&
  braceAt T '{' (name ++ '}' :: '{' :: (body ++ '}' :: R)) && braceAt T '}' ('{' :: (body ++ '}' :: R)) &&
  braceAt T '{' (body ++ '}' :: R) && braceAt T '}' R &&
  PlainFootnote.textOk T st name ('}' :: '{' :: (body ++ '}' :: R)) && !name.isEmpty &&
  (langOf T name).isSome && (codeOfName T name != main) &&
  PlainFootnote.textOk T (pushLang T st (codeOfName T name)) body ('}' :: R) && visFirst body &&
  noEmptyActive T st

/-- well-formed documents, read in the parser state `st` with main language `main` -/
def segsOk (T : PTables) (st : PState) (main : Str) : List Seg → Bool
  | [] => true
  | .txt s :: rest =>
    PlainFootnote.textOk T st s (render rest) && (render rest).head?.all (fun d => !isSpace d) &&
    segsOk T st main rest
  | .frn name body :: rest =>
    frnOk T st main name body (render rest) && behindOk rest && segsOk T st main rest

/-- the marks of a document that starts at position `p`: every text character with its (0-based)
    source position; an insertion leaves an Action mark, its opening language token, the characters
    of its text and its closing language token -/
def segMarks (T : PTables) : Nat → List Seg → List Mark
  | _, [] => []
  | p, .txt s :: rest => (ch (posText p s)).map some ++ segMarks T (p + s.length) rest
  | p, .frn n b :: rest =>
    none :: some (.inr (openTok T p (codeOfName T n))) :: ((ch (posText (p + bodyOff n) b)).map some ++
      some (.inr (backTok (p + bodyOff n + PlainFootnote.lastTokOff b))) ::
        segMarks T (p + frnLen n b) rest)

/-! ### the scanner at `\foreignlanguage` -/

structure FrnFacts (T : PTables) (st : PState) (main name body R : Str) : Prop where
  special : matchSpecial T.toTables ('\\' :: (frnName ++ '{' :: (name ++ '}' :: '{' :: (body ++ '}' :: R)))) = none
  nAccent : T.toTables.isAccent ('\\' :: frnName) = false
  decl : ∃ m, lookupMacro st ('\\' :: frnName) = some m ∧ frnDeclOk m = true
  lb1 : braceAt T '{' (name ++ '}' :: '{' :: (body ++ '}' :: R)) = true
  rb1 : braceAt T '}' ('{' :: (body ++ '}' :: R)) = true
  lb2 : braceAt T '{' (body ++ '}' :: R) = true
  rb2 : braceAt T '}' R = true
  text : PlainFootnote.textOk T st name ('}' :: '{' :: (body ++ '}' :: R)) = true
  ne : name ≠ []
  code : (langOf T name).isSome = true
  other : codeOfName T name ≠ main
  btext : PlainFootnote.textOk T (pushLang T st (codeOfName T name)) body ('}' :: R) = true
  vis : visFirst body = true
  nea : noEmptyActive T st = true

theorem frnFacts {T : PTables} {st : PState} {main name body R : Str}
    (h : frnOk T st main name body R = true) : FrnFacts T st main name body R := by
  simp only [frnOk, Bool.and_eq_true, Bool.not_eq_true', Option.isNone_iff_eq_none, bne_iff_ne,
    ne_eq] at h
  obtain ⟨⟨⟨⟨⟨⟨⟨⟨⟨⟨⟨⟨⟨h1, h2⟩, h3⟩, h4⟩, h5⟩, h6⟩, h7⟩, h8⟩, h9⟩, h10⟩, h11⟩, h12⟩, h13⟩, h14⟩ := h
  refine ⟨h1, h2, ?_, h4, h5, h6, h7, h8, by simpa using h9, h10, h11, h12, h13, h14⟩
  cases hm : lookupMacro st ('\\' :: frnName) with
  | none => rw [hm] at h3; cases h3
  | some m => rw [hm] at h3; exact ⟨m, rfl, h3⟩

theorem visFirst_ne {b : Str} (h : visFirst b = true) : b ≠ [] := by
  intro e; rw [e] at h; cases h

/-- the scanner turns `\foreignlanguage` in front of `{` into one macro token -/
theorem nextToken_frn (T : PTables) (src : Str) (pos : Nat) (X : Str)
    (hs : matchSpecial T.toTables ('\\' :: (frnName ++ '{' :: X)) = none)
    (ha : T.toTables.isAccent ('\\' :: frnName) = false) :
    nextToken T.toTables src pos ('\\' :: (frnName ++ '{' :: X))
      = { tok := cwTok pos frnName, len := 16 } := by
  have facts : CwFacts T ({ macros := [] } : PState) frnName ('{' :: X) :=
    ⟨by decide, takeWhile_append_stop _ _ _ (by decide) rfl, hs, by decide, by decide,
      by decide, by decide, ha, by decide, rfl⟩
  exact nextToken_cw T _ src pos frnName _ facts

theorem frnTok_cwTok {T : PTables} {st : PState} {main name body R : Str}
    (h : FrnFacts T st main name body R) (pos : Nat) : FrnTok st (cwTok pos frnName) :=
  ⟨rfl, (by decide : (('\\' :: frnName) == "\\def".toList) = false), h.decl⟩

/-! ### pieces of copied tokens -/

def tokPieces (toks : List Tok) : List Piece := toks.map Piece.tok

theorem flat_tokPieces (ps : List Piece) : ∀ toks : List Tok, flat (tokPieces toks ++ ps) = toks ++ flat ps
  | [] => rfl
  | t :: ts => by
    show [t] ++ flat (tokPieces ts ++ ps) = _
    rw [flat_tokPieces ps ts]; rfl

theorem outMain_tokPieces (T : PTables) (ps : List Piece) : ∀ toks : List Tok,
    outMain T (tokPieces toks ++ ps) = toks ++ outMain T ps
  | [] => rfl
  | t :: ts => by
    show t :: outMain T (tokPieces ts ++ ps) = _
    rw [outMain_tokPieces T ps ts]; rfl

theorem cost_tokPieces (ps : List Piece) : ∀ toks : List Tok,
    cost (tokPieces toks ++ ps) = toks.length + cost ps
  | [] => by simp [tokPieces]
  | t :: ts => by
    show 1 + cost (tokPieces ts ++ ps) = _
    rw [cost_tokPieces ps ts, List.length_cons]; omega

theorem PiecesOk_tokPieces {T : PTables} {st : PState} (ps : List Piece) (hps : PiecesOk T st ps) :
    ∀ toks : List Tok, (∀ t ∈ toks, CopyTok T st t) → PiecesOk T st (tokPieces toks ++ ps)
  | [], _ => hps
  | t :: ts, h =>
    ⟨h t (List.mem_cons_self ..),
      PiecesOk_tokPieces ps hps ts (fun x hx => h x (List.mem_cons_of_mem _ hx))⟩

/-! ### the scanner loop on a document -/

/-- what the scanner loop yields on a well-formed document that starts at `pos` -/
structure PieceFacts (T : PTables) (st : PState) (pos : Nat) (segs : List Seg) (ps : List Piece) :
    Prop where
  ok : PiecesOk T st ps
  marks : marksOf (outMain T ps) = segMarks T pos segs
  simple : ∀ t ∈ outMain T ps, LinesLang.Simple t
  cost : cost ps ≤ (render segs).length

theorem PieceFacts_nil (T : PTables) (st : PState) (pos : Nat) : PieceFacts T st pos [] [] where
  ok := trivial
  marks := rfl
  simple := by intro t ht; cases ht
  cost := Nat.le_refl _

theorem PieceFacts_txt {T : PTables} {st : PState} {pos : Nat} {s : Str} {rest : List Seg}
    {steps : List ScanStep} {ps : List Piece} (B : TextRun T st pos s steps)
    (I : PieceFacts T st (pos + s.length) rest ps) :
    PieceFacts T st pos (.txt s :: rest) (tokPieces (steps.map (·.tok)) ++ ps) := by
  have hc : ∀ t ∈ steps.map (·.tok), CopyTok T st t := by
    intro t ht
    obtain ⟨x, hx, rfl⟩ := List.mem_map.mp ht
    exact (B.ok x hx).2.2
  refine ⟨PiecesOk_tokPieces ps I.ok _ hc, ?_, ?_, ?_⟩
  · rw [outMain_tokPieces, LinesLang.marksOf, List.flatMap_append]
    show marksOf _ ++ marksOf _ = _
    rw [marksOf_copy _ hc, charsOf_of_txtpos _ s pos B.txt, I.marks]
    rfl
  · intro t ht
    rw [outMain_tokPieces] at ht
    rcases List.mem_append.mp ht with ht | ht
    · exact (simple_of_copy (hc t ht)).1
    · exact I.simple t ht
  · have h1 := B.len
    have h2 := I.cost
    rw [cost_tokPieces]
    simp only [render, Seg.render, List.length_append, List.length_map]
    omega

theorem render_frn (n b : Str) (rest : List Seg) :
    render (.frn n b :: rest)
      = '\\' :: (frnName ++ '{' :: (n ++ '}' :: '{' :: (b ++ '}' :: render rest))) := by
  simp [render, Seg.render]

theorem frnName_length : frnName.length = 15 := by decide

theorem render_frn_length (n b : Str) (rest : List Seg) :
    (render (.frn n b :: rest)).length = frnLen n b + (render rest).length := by
  rw [render_frn]
  simp only [List.length_cons, List.length_append, frnName_length, frnLen]
  omega

theorem marksOf_append (a b : List Tok) : marksOf (a ++ b) = marksOf a ++ marksOf b := by
  simp [LinesLang.marksOf]

theorem marksOf_cons (t : Tok) (b : List Tok) : marksOf (t :: b) = LinesLang.tokMarks t ++ marksOf b := by
  simp [LinesLang.marksOf]

theorem PieceFacts_frn {T : PTables} {st : PState} {main : Str} {pos : Nat} {n b : Str} {rest : List Seg}
    {nsteps bsteps : List ScanStep} {ps : List Piece} (k1 k2 k3 k4 : Kind)
    (hk1 : k1 = Kind.special ∨ k1 = Kind.text) (hk2 : k2 = Kind.special ∨ k2 = Kind.text)
    (hk3 : k3 = Kind.special ∨ k3 = Kind.text) (hk4 : k4 = Kind.special ∨ k4 = Kind.text)
    (F : FrnFacts T st main n b (render rest))
    (N : TextRun T st (pos + 17) n nsteps)
    (B : TextRun T (pushLang T st (codeOfName T n)) (pos + bodyOff n) b bsteps)
    (I : PieceFacts T st (pos + frnLen n b) rest ps) :
    PieceFacts T st pos (.frn n b :: rest)
      (.frn (cwTok pos frnName)
             { kind := k1, pos := pos + 16, txt := ['{'] } (nsteps.map (·.tok))
             { kind := k2, pos := pos + 17 + n.length, txt := ['}'] }
             { kind := k3, pos := pos + 18 + n.length, txt := ['{'] } (bsteps.map (·.tok))
             { kind := k4, pos := pos + bodyOff n + b.length, txt := ['}'] } :: ps) := by
  have hcn : ∀ t ∈ nsteps.map (·.tok), CopyTok T st t := by
    intro t ht
    obtain ⟨x, hx, rfl⟩ := List.mem_map.mp ht
    exact (N.ok x hx).2.2
  have hcb : ∀ t ∈ bsteps.map (·.tok), CopyTok T (pushLang T st (codeOfName T n)) t := by
    intro t ht
    obtain ⟨x, hx, rfl⟩ := List.mem_map.mp ht
    exact (B.ok x hx).2.2
  have hnne : nsteps.map (·.tok) ≠ [] := by
    intro e
    exact F.ne (N.nil_iff (by simpa using e))
  have hbne : bsteps.map (·.tok) ≠ [] := by
    intro e
    exact visFirst_ne F.vis (B.nil_iff (by simpa using e))
  have htxt : (getTxtPos (nsteps.map (·.tok))).1 = n := by rw [N.txt]
  have hcode : codeOf T (nsteps.map (·.tok)) = codeOfName T n := by
    simp [codeOf, PlainLang.codeOfName, langOf, htxt]
  have hsome : (translateLang T (strip (getTxtPos (nsteps.map (·.tok))).1)).isSome = true := by
    rw [htxt]; exact F.code
  obtain ⟨last, hlast⟩ : ∃ last, (bsteps.map (·.tok)).getLast? = some last := by
    cases h : (bsteps.map (·.tok)).getLast? with
    | none => exact absurd (List.getLast?_eq_none_iff.mp h) hbne
    | some l => exact ⟨l, rfl⟩
  have hlp : lastPos (bsteps.map (·.tok)) = pos + bodyOff n + PlainFootnote.lastTokOff b := by
    simp [lastPos, hlast, B.last last hlast]
  refine ⟨?_, ?_, ?_, ?_⟩
  · exact ⟨frnTok_cwTok F pos, ⟨hk1, rfl⟩, ⟨hk2, rfl⟩, ⟨hk3, rfl⟩, ⟨hk4, rfl⟩, hnne, hcn, hsome, F.nea,
      hbne, by rw [hcode]; exact hcb, I.ok⟩
  · simp only [outMain, segMarks, hcode, hlp, cwTok, frnOut, List.cons_append, List.append_assoc,
      List.nil_append]
    rw [marksOf_cons, marksOf_cons, marksOf_append, marksOf_cons, I.marks,
      LinesLang.tokMarks_action _ rfl, LinesLang.tokMarks_lang _ rfl rfl,
      LinesLang.tokMarks_lang _ rfl rfl, marksOf_copy _ hcb,
      charsOf_of_txtpos _ b (pos + bodyOff n) B.txt]
    rfl
  · intro t ht
    simp only [outMain, frnOut, List.cons_append, List.append_assoc, List.mem_cons,
      List.mem_append, List.nil_append] at ht
    rcases ht with rfl | rfl | ht | rfl | ht
    · exact LinesLang.Simple_of_nil _ rfl
    · exact LinesLang.Simple_of_nil _ rfl
    · exact (simple_of_copy (hcb t ht)).1
    · exact LinesLang.Simple_of_nil _ rfl
    · exact I.simple t ht
  · have h1 := N.len
    have h2 := B.len
    have h3 := I.cost
    rw [render_frn_length]
    simp only [cost, List.length_map, frnLen]
    omega

open PlainHeading (scanSteps_step)

/-- the scanner loop on a well-formed document: complete, no diagnostics, the token buffer
    consists of copied tokens and insertions -/
theorem scanSteps_segs (T : PTables) (src : Str) (st : PState) (main : Str) :
    ∀ (segs : List Seg) (fuel pos : Nat), (render segs).length ≤ fuel →
      segsOk T st main segs = true →
      ∃ steps ps, scanSteps T.toTables src fuel pos (render segs) = (steps, true) ∧
        (∀ x ∈ steps, x.diag = none ∧ x.extra = []) ∧ steps.map (·.tok) = flat ps ∧
        PieceFacts T st pos segs ps := by
  intro segs
  induction segs with
  | nil =>
    intro fuel pos _ _
    exact ⟨[], [], by simp [render, scanSteps], by simp, rfl, PieceFacts_nil T st pos⟩
  | cons sg rest ih =>
    intro fuel pos hf hok
    cases sg with
    | txt s =>
      simp only [segsOk, Bool.and_eq_true] at hok
      obtain ⟨⟨htext, hhead⟩, hrest⟩ := hok
      have hlen : (render (.txt s :: rest)).length = s.length + (render rest).length := by
        simp [render, Seg.render]
      rw [hlen] at hf
      obtain ⟨bsteps, B, hrun⟩ := PlainFootnote.scanSteps_textrun T st src (render rest) hhead
        s.length s pos fuel (Nat.le_refl _) (by omega) htext
      have hBl := B.len
      obtain ⟨steps', ps', hsc, hok', hflat, I⟩ := ih (fuel - bsteps.length) (pos + s.length)
        (by omega) hrest
      refine ⟨bsteps ++ steps', tokPieces (bsteps.map (·.tok)) ++ ps', ?_, ?_, ?_, PieceFacts_txt B I⟩
      · show scanSteps T.toTables src fuel pos (s ++ render rest) = _
        rw [hrun, hsc]
      · intro x hx
        rcases List.mem_append.mp hx with hx | hx
        · exact ⟨(B.ok x hx).1, (B.ok x hx).2.1⟩
        · exact hok' x hx
      · rw [List.map_append, flat_tokPieces, hflat]
    | frn n b =>
      simp only [segsOk, Bool.and_eq_true] at hok
      obtain ⟨⟨hfrn, _⟩, hrest⟩ := hok
      have F := frnFacts hfrn
      rw [render_frn_length] at hf
      rw [render_frn]
      simp only [frnLen] at hf
      have hn1 := nextToken_frn T src pos (n ++ '}' :: '{' :: (b ++ '}' :: render rest)) F.special F.nAccent
      obtain ⟨k1, hk1, hn2⟩ := PlainFootnote.nextToken_brace T src (pos + 16) '{'
        (n ++ '}' :: '{' :: (b ++ '}' :: render rest)) (Or.inl rfl) F.lb1
      obtain ⟨k2, hk2, hn3⟩ := PlainFootnote.nextToken_brace T src
        (pos + 17 + n.length) '}' ('{' :: (b ++ '}' :: render rest)) (Or.inr rfl) F.rb1
      obtain ⟨k3, hk3, hn4⟩ := PlainFootnote.nextToken_brace T src
        (pos + 18 + n.length) '{' (b ++ '}' :: render rest) (Or.inl rfl) F.lb2
      obtain ⟨k4, hk4, hn5⟩ := PlainFootnote.nextToken_brace T src
        (pos + bodyOff n + b.length) '}' (render rest) (Or.inr rfl) F.rb2
      obtain ⟨f, rfl⟩ : ∃ f, fuel = f + 2 := ⟨fuel - 2, by omega⟩
      -- the name
      obtain ⟨nsteps, N, hrunN⟩ := PlainFootnote.scanSteps_textrun T st src
        ('}' :: '{' :: (b ++ '}' :: render rest)) (by simp; decide) n.length n (pos + 17) f
        (Nat.le_refl _) (by omega) F.text
      have hNl := N.len
      obtain ⟨g, hg⟩ : ∃ g, f - nsteps.length = g + 2 := ⟨f - nsteps.length - 2, by omega⟩
      -- the text
      obtain ⟨bsteps, B, hrunB⟩ := PlainFootnote.scanSteps_textrun T (pushLang T st (codeOfName T n)) src
        ('}' :: render rest) (by simp; decide) b.length b (pos + bodyOff n) g
        (Nat.le_refl _) (by omega) F.btext
      have hBl := B.len
      obtain ⟨g', hg'⟩ : ∃ g', g - bsteps.length = g' + 1 := ⟨g - bsteps.length - 1, by omega⟩
      obtain ⟨steps', ps', hsc, hok', hflat, I⟩ := ih g' (pos + frnLen n b) (by omega) hrest
      have hd1 : ('\\' :: (frnName ++ '{' :: (n ++ '}' :: '{' :: (b ++ '}' :: render rest)))).drop 16
          = '{' :: (n ++ '}' :: '{' :: (b ++ '}' :: render rest)) := by
        have h16 : (16 : Nat) = frnName.length + 1 := by decide
        rw [h16, List.drop_succ_cons, List.drop_left]
      have hp1 : pos + 16 + 1 = pos + 17 := by omega
      have hp2 : pos + 17 + n.length + 1 = pos + 18 + n.length := by omega
      have hp3 : pos + 18 + n.length + 1 = pos + bodyOff n := by simp only [bodyOff]; omega
      have hp4 : pos + bodyOff n + b.length + 1 = pos + frnLen n b := by
        simp only [bodyOff, frnLen]; omega
      have hsteps : scanSteps T.toTables src (f + 2) pos
            ('\\' :: (frnName ++ '{' :: (n ++ '}' :: '{' :: (b ++ '}' :: render rest))))
          = ({ tok := cwTok pos frnName, len := 16 } ::
              { tok := { kind := k1, pos := pos + 16, txt := ['{'] }, len := 1 } ::
              (nsteps ++
                { tok := { kind := k2, pos := pos + 17 + n.length, txt := ['}'] }, len := 1 } ::
                { tok := { kind := k3, pos := pos + 18 + n.length, txt := ['{'] }, len := 1 } ::
                (bsteps ++
                  { tok := { kind := k4, pos := pos + bodyOff n + b.length, txt := ['}'] }, len := 1 } ::
                  steps')), true) := by
        rw [scanSteps_step T.toTables src (f + 1) pos _ _ _ hn1 (by simp)]
        simp only [hd1]
        rw [scanSteps_step T.toTables src f _ _ _ _ hn2 (by simp)]
        simp only [List.drop_succ_cons, List.drop_zero]
        rw [hp1, hrunN, hg]
        have hn3' := scanSteps_step T.toTables src (g + 1) _ _ _ _ hn3 (by simp)
        simp only [List.drop_succ_cons, List.drop_zero, hp2] at hn3'
        have hn4' := scanSteps_step T.toTables src g _ _ _ _ hn4 (by simp)
        simp only [List.drop_succ_cons, List.drop_zero, hp3, hrunB, hg'] at hn4'
        have hn5' := scanSteps_step T.toTables src g' _ _ _ _ hn5 (by simp)
        simp only [List.drop_succ_cons, List.drop_zero, hp4, hsc] at hn5'
        rw [hn3', hn4', hn5']
      refine ⟨_, .frn (cwTok pos frnName) { kind := k1, pos := pos + 16, txt := ['{'] }
            (nsteps.map (·.tok))
            { kind := k2, pos := pos + 17 + n.length, txt := ['}'] }
            { kind := k3, pos := pos + 18 + n.length, txt := ['{'] }
            (bsteps.map (·.tok))
            { kind := k4, pos := pos + bodyOff n + b.length, txt := ['}'] } :: ps',
        hsteps, ?_, ?_, ?_⟩
      · intro x hx
        simp only [List.mem_cons, List.mem_append] at hx
        rcases hx with rfl | rfl | hx | rfl | rfl | hx | rfl | hx
        · exact ⟨rfl, rfl⟩
        · exact ⟨rfl, rfl⟩
        · exact ⟨(N.ok x hx).1, (N.ok x hx).2.1⟩
        · exact ⟨rfl, rfl⟩
        · exact ⟨rfl, rfl⟩
        · exact ⟨(B.ok x hx).1, (B.ok x hx).2.1⟩
        · exact ⟨rfl, rfl⟩
        · exact hok' x hx
      · simp [flat, Piece.toks, hflat]
      · exact PieceFacts_frn k1 k2 k3 k4 hk1 hk2 hk3 hk4 F N B I

/-! ### the blank-line removal deletes nothing -/

/-- no line of the mark list is deleted by `delGo` (started with the flags `b`, `act`) -/
def okGo : Bool → Bool → List Mark → Bool
  | b, act, [] => !(b && act)
  | b, _, none :: xs => okGo b true xs
  | b, act, some (.inr _) :: xs => okGo b act xs
  | b, act, some (.inl cp) :: xs =>
    if cp.1 == nl then !(b && act) && okGo true false xs else okGo (b && isSpace cp.1) act xs

theorem delGo_keep : ∀ (ms : List Mark) (cur : List Item) (b act : Bool), okGo b act ms = true →
    delGo cur b act ms = cur ++ ms.filterMap id
  | [], cur, b, act, h => by
    simp only [okGo, Bool.not_eq_true'] at h
    simp [delGo, h]
  | none :: xs, cur, b, act, h => by
    simp only [okGo] at h
    rw [delGo, delGo_keep xs cur b true h]
    simp
  | some (.inr t) :: xs, cur, b, act, h => by
    simp only [okGo] at h
    rw [delGo, delGo_keep xs _ b act h]
    simp
  | some (.inl cp) :: xs, cur, b, act, h => by
    simp only [okGo] at h
    rw [delGo]
    by_cases hn : (cp.1 == nl) = true
    · simp only [hn, if_true, Bool.and_eq_true, Bool.not_eq_true'] at h
      simp only [hn, if_true, h.1, Bool.false_eq_true, if_false]
      rw [delGo_keep xs [] true false h.2]
      simp
    · simp only [hn, Bool.false_eq_true, if_false] at h
      simp only [hn, Bool.false_eq_true, if_false]
      rw [delGo_keep xs _ _ act h]
      simp

theorem okGo_false_act : ∀ (ms : List Mark) (act : Bool), okGo false act ms = okGo false false ms
  | [], act => by simp [okGo]
  | none :: xs, act => by simp only [okGo]
  | some (.inr t) :: xs, act => by simp only [okGo]; exact okGo_false_act xs act
  | some (.inl cp) :: xs, act => by
    simp only [okGo, Bool.false_and, Bool.not_false, Bool.true_and]
    split
    · rfl
    · exact okGo_false_act xs act

theorem okGo_chars (Y : List Mark) (hY : ∀ b, okGo b false Y = true) :
    ∀ (l : List (Char × Nat)) (b : Bool), okGo b false ((ch l).map some ++ Y) = true
  | [], b => by simpa using hY b
  | cp :: l, b => by
    simp only [LinesLang.ch_cons, List.map_cons, List.cons_append, okGo, Bool.and_false,
      Bool.not_false, Bool.true_and]
    split
    · exact okGo_chars Y hY l true
    · exact okGo_chars Y hY l _

theorem okGo_body (Y : List Mark) (hY : ∀ b, okGo b false Y = true) :
    ∀ (l : Str) (q : Nat) (b : Bool), visFirst l = true →
      okGo b true ((ch (posText q l)).map some ++ Y) = true
  | [], _, _, h => by cases h
  | c :: cs, q, b, h => by
    simp only [visFirst] at h
    simp only [posText, LinesLang.ch_cons, List.map_cons, List.cons_append, okGo]
    by_cases hn : (c == nl) = true
    · simp [hn] at h
    · simp only [hn, Bool.false_eq_true, if_false] at h ⊢
      by_cases hs : isSpace c = true
      · simp only [hs, if_true] at h
        simp only [hs, Bool.and_true]
        exact okGo_body Y hY cs (q + 1) b h
      · have hs' : isSpace c = false := by simpa using hs
        simp only [hs', Bool.and_false]
        rw [okGo_false_act]
        exact okGo_chars Y hY _ false

/-- the texts of all insertions have a visible character on their first line -/
def visOk : List Seg → Bool
  | [] => true
  | .txt _ :: rest => visOk rest
  | .frn _ b :: rest => visFirst b && visOk rest

theorem okGo_doc (T : PTables) : ∀ (segs : List Seg) (p : Nat) (b : Bool), visOk segs = true →
    okGo b false (segMarks T p segs) = true
  | [], _, b, _ => by simp [segMarks, okGo]
  | .txt s :: rest, p, b, h => by
    simp only [segMarks]
    exact okGo_chars _ (fun b' => okGo_doc T rest _ b' h) _ b
  | .frn n bd :: rest, p, b, h => by
    simp only [visOk, Bool.and_eq_true] at h
    simp only [segMarks, okGo]
    apply okGo_body _ _ bd _ b h.1
    intro b'
    simp only [okGo]
    exact okGo_doc T rest _ b' h.2

theorem filterMap_id_map_some {α} (l : List α) : (l.map some).filterMap id = l := by
  induction l with
  | nil => rfl
  | cons a l ih => simp

theorem segMarks_items (T : PTables) : ∀ (segs : List Seg) (p : Nat),
    (segMarks T p segs).filterMap id = docItems T p segs
  | [], _ => rfl
  | .txt s :: rest, p => by
    simp only [segMarks, docItems, List.filterMap_append, filterMap_id_map_some,
      segMarks_items T rest]
  | .frn n b :: rest, p => by
    have h1 : ∀ (x : Item) (l : List Mark), (some x :: l).filterMap id = x :: l.filterMap id := by
      intro x l; rfl
    simp only [segMarks, docItems]
    rw [List.filterMap_cons_none rfl, h1, List.filterMap_append, h1, filterMap_id_map_some,
      segMarks_items T rest]

/-- **the blank-line removal deletes nothing**: the line of an insertion is never blank -/
theorem delLines_doc (T : PTables) (segs : List Seg) (h : visOk segs = true) :
    delLines (segMarks T 0 segs) = docItems T 0 segs := by
  unfold delLines
  rw [delGo_keep _ [] true false (okGo_doc T segs 0 true h), segMarks_items]
  rfl

theorem segsOk_vis (T : PTables) (st : PState) (main : Str) : ∀ (segs : List Seg),
    segsOk T st main segs = true → visOk segs = true
  | [], _ => rfl
  | .txt _ :: rest, h => by
    simp only [segsOk, Bool.and_eq_true] at h
    exact segsOk_vis T st main rest h.2
  | .frn n b :: rest, h => by
    simp only [segsOk, Bool.and_eq_true] at h
    simp only [visOk, Bool.and_eq_true]
    exact ⟨(frnFacts h.1.1).vis, segsOk_vis T st main rest h.2⟩

/-! ### `scan`, `parserWork`, `parse`, `tex2txt` -/

theorem PiecesOk.notComment {T : PTables} {st : PState} : ∀ {ps : List Piece}, PiecesOk T st ps →
    ∀ t ∈ flat ps, t.kind ≠ .comment
  | [], _, _, h => by simp [flat] at h
  | .tok t :: rest, hok, x, hx => by
    simp only [flat, Piece.toks, List.singleton_append, List.mem_cons] at hx
    rcases hx with rfl | hx
    · exact hok.1.plain.notComment
    · exact PiecesOk.notComment hok.2 x hx
  | .frn hd lb1 n rb1 lb2 b rb2 :: rest, hok, x, hx => by
    obtain ⟨h1, h2, h3, h4, h5, _, hn, _, _, _, hb, hrest⟩ := hok
    simp only [flat, Piece.toks, List.cons_append, List.append_assoc, List.mem_cons,
      List.mem_append, List.nil_append] at hx
    rcases hx with rfl | rfl | hx | rfl | rfl | hx | rfl | hx
    · rw [h1.kind]; simp
    · rcases h2.kind with k | k <;> simp [k]
    · exact (hn x hx).plain.notComment
    · rcases h3.kind with k | k <;> simp [k]
    · rcases h4.kind with k | k <;> simp [k]
    · exact (hb x hx).plain.notComment
    · rcases h5.kind with k | k <;> simp [k]
    · exact PiecesOk.notComment hrest x hx

/-- `scan` on a well-formed document: no diagnostics; the token buffer consists of copied tokens
    and insertions -/
theorem scan_segs (T : PTables) (st : PState) (main : Str) (segs : List Seg)
    (hok : segsOk T st main segs = true) :
    (scan T.toTables (render segs)).diags = [] ∧
    ∃ ps, (scan T.toTables (render segs)).toks = flat ps ∧ PieceFacts T st 0 segs ps := by
  obtain ⟨steps, ps, hsc, hok', hflat, F⟩ := scanSteps_segs T (render segs) st main segs
    (render segs).length 0 (Nat.le_refl _) hok
  have he := flatten_tok_extra steps (fun s hs => (hok' s hs).2)
  have hd := flatten_diag_nil steps (fun s hs => (hok' s hs).1)
  simp only [scan, hsc]
  rw [he, hd]
  exact ⟨rfl, ps, hflat, F⟩

theorem frnOk_congr (T : PTables) (st st' : PState) (hm : st'.macros = st.macros)
    (hl : st'.langStack = st.langStack) (main name body R : Str) :
    frnOk T st' main name body R = frnOk T st main name body R := by
  simp only [frnOk, lookupMacro, hm, PlainFootnote.textOk_congr T st st' hl,
    noEmptyActive_congr T st st' hl,
    PlainFootnote.textOk_congr T (pushLang T st (codeOfName T name)) (pushLang T st' (codeOfName T name))
      (pushLang_congr T st st' _ hl)]

theorem segsOk_congr (T : PTables) (st st' : PState) (main : Str) (hm : st'.macros = st.macros)
    (hl : st'.langStack = st.langStack) : ∀ (segs : List Seg),
    segsOk T st' main segs = segsOk T st main segs
  | [] => rfl
  | .txt s :: rest => by
    simp only [segsOk, PlainFootnote.textOk_congr T st st' hl, segsOk_congr T st st' main hm hl rest]
  | .frn n b :: rest => by
    simp only [segsOk, frnOk_congr T st st' hm hl, segsOk_congr T st st' main hm hl rest]

/-- **`parserWork` on a well-formed document** in multi-language mode: the items of the result
    tokens are the items of the document; the state is unchanged. -/
theorem parserWork_frn (T : PTables) (st : PState) (main : Str) (segs : List Seg) (fuel : Nat)
    (hf : (render segs).length + 2 ≤ fuel) (hml : st.multiLanguage = true)
    (hstk : st.langStack ≠ []) (hok : segsOk T st main segs = true) :
    ∃ r, parserWork T fuel (render segs) st = .ok (r, st) ∧ itemsOf r = docItems T 0 segs := by
  obtain ⟨f, rfl⟩ : ∃ f, fuel = f + 1 := ⟨fuel - 1, by omega⟩
  obtain ⟨hd, ps, hflat, F⟩ := scan_segs T st main segs hok
  obtain ⟨r, hr, hitems⟩ := LinesLang.removeLines_items (outMain T ps) F.simple
  rw [F.marks, delLines_doc T segs (segsOk_vis T st main segs hok)] at hitems
  have hcost := F.cost
  refine ⟨r, ?_, hitems⟩
  have hseq := seq_frns T none { st with latex := render segs, nest := st.nest + 1 } hml hstk ps f []
    (by omega)
    (PiecesOk.congr (st := st) (st' := { st with latex := render segs, nest := st.nest + 1 }) rfl rfl F.ok)
  rw [List.nil_append, hr] at hseq
  simp only [] at hseq
  rw [parserWork.eq_2]
  refine (M.bind_ok _ _ _ _ _ (rfl : M.get st = _)).trans ?_
  refine (M.bind_ok _ _ _ _ _ (rfl : M.modify _ _ = _)).trans ?_
  refine (M.bind_ok _ _ _ _ _ (rfl : M.modify _ _ = _)).trans ?_
  refine (M.bind_ok _ _ _ _ _ (rfl : M.get _ = _)).trans ?_
  simp only [hd, List.append_nil]
  rw [skipPass_nocomment _ _ _ (fun t ht' => F.ok.notComment t (by rw [← hflat]; exact ht'))]
  simp only []
  refine (M.bind_ok _ _ _ _ _ (rfl : (pure _ : M (List Tok)) _ = _)).trans ?_
  rw [hflat]
  refine (M.bind_ok _ _ _ _ _ hseq).trans ?_
  refine (M.bind_ok _ _ _ _ _ (rfl : M.modify _ _ = _)).trans ?_
  show Outcome.ok _ = _
  simp only [Nat.add_sub_cancel]

/-- **`parse` on a well-formed document** (no `--defs`, no `--extr`), multi-language mode -/
theorem parse_frn (T : PTables) (st : PState) (main : Str) (segs : List Seg) (fuel : Nat)
    (hf : (render segs).length + 2 ≤ fuel) (hml : st.multiLanguage = true)
    (hstk : st.langStack ≠ []) (hok : segsOk T st main segs = true) :
    ∃ r, parse T fuel (render segs) [] [] st
        = .ok (r, { st with extracted := [], unknowns := [], foreign := false, nest := 0 }) ∧
      itemsOf r = docItems T 0 segs := by
  have hok' : segsOk T { st with extracted := [], unknowns := [], foreign := false, nest := 0 } main segs
      = true :=
    (segsOk_congr T st { st with extracted := [], unknowns := [], foreign := false, nest := 0 } main
      rfl rfl segs).trans hok
  obtain ⟨r, hw, hitems⟩ := parserWork_frn T
    { st with extracted := [], unknowns := [], foreign := false, nest := 0 } main segs fuel hf hml hstk
    hok'
  refine ⟨r, ?_, hitems⟩
  unfold parse
  simp only [List.isEmpty_nil, Bool.not_true, Bool.false_eq_true, if_false, if_true]
  refine (M.bind_ok _ _ _ _ _ (rfl : M.modify _ _ = _)).trans ?_
  refine (M.bind_ok _ _ _ _ _ (rfl : (pure _ : M (List Tok)) _ = _)).trans ?_
  refine (M.bind_ok _ _ _ _ _ (rfl : M.modify _ _ = _)).trans ?_
  refine (M.bind_ok _ _ _ _ _ hw).trans ?_
  refine (M.bind_ok _ _ _ _ _ (rfl : M.get _ = _)).trans ?_
  show Outcome.ok _ = _
  simp

/-! ### the end-to-end theorem -/

/-- the language-change collections of a parser state (`lang_change_repl` of every settings code) -/
def lcOf (st : PState) : LangChange := st.rots.map (fun r => (r.code, r.chg))

theorem segsOk_sep (T : PTables) (st : PState) (main : Str) : ∀ (segs : List Seg),
    segsOk T st main segs = true → sepOk segs = true ∧ frnsOk T main segs = true ∧ bodiesOk segs = true
  | [], _ => ⟨rfl, rfl, rfl⟩
  | .txt _ :: rest, h => by
    simp only [segsOk, Bool.and_eq_true] at h
    exact segsOk_sep T st main rest h.2
  | .frn n b :: rest, h => by
    simp only [segsOk, Bool.and_eq_true] at h
    obtain ⟨i1, i2, i3⟩ := segsOk_sep T st main rest h.2
    have F := frnFacts h.1.1
    have hne := visFirst_ne F.vis
    have hnb : isBlank b = false := by
      have hv := F.vis
      clear F hne h
      induction b with
      | nil => cases hv
      | cons c cs ih =>
        simp only [visFirst] at hv
        simp only [isBlank, List.all_cons, Bool.and_eq_false_iff]
        by_cases hn : (c == nl) = true
        · simp [hn] at hv
        · simp only [hn, Bool.false_eq_true, if_false] at hv
          by_cases hs : isSpace c = true
          · simp only [hs, if_true] at hv
            exact Or.inr (ih hv)
          · exact Or.inl (by simpa using hs)
    refine ⟨?_, ?_, ?_⟩
    · simp only [sepOk, Bool.and_eq_true]; exact ⟨h.1.2, i1⟩
    · simp only [frnsOk, Bool.and_eq_true, bne_iff_ne, ne_eq, Bool.not_eq_true',
        List.isEmpty_eq_false_iff]
      exact ⟨⟨F.other, hne⟩, i2⟩
    · simp only [bodiesOk, Bool.and_eq_true, Bool.not_eq_true']
      exact ⟨hnb, i3⟩

/-- the result record of `tex2txt` on a well-formed document in multi-language mode -/
theorem tex2txt_frn_record (T : PTables) (o : Options) (fs : FS) (thresh : Nat) (segs : List Seg)
    (fuel : Nat) (st1 : PState)
    (hdefs : o.defs = []) (hextr : o.extr = []) (hrepl : o.hasRepl = false)
    (hfb : T.foreignBrk = false)
    (hinit : initParser T fuel o (initialState T o true fs) = .ok ((), st1))
    (hml : st1.multiLanguage = true) (hstk : st1.langStack ≠ [])
    (hlc : mainRepl (lcOf st1) o.lang ≠ [])
    (hok : segsOk T st1 o.lang segs = true)
    (hf : (render segs).length + 2 ≤ fuel) :
    ∃ toks, itemsOf toks = docItems T 0 segs ∧
      tex2txt T fuel (render segs) o true thresh fs
        = .ok { toks := toks, txt := [], pos := [],
                parts := refParts T o.lang thresh (mainRepl (lcOf st1) o.lang) segs, unknowns := [],
                diags := st1.diags, foreign := false } := by
  obtain ⟨r, hp, hitems⟩ := parse_frn T st1 o.lang segs fuel hf hml hstk hok
  refine ⟨r, hitems, ?_⟩
  have hrun : (initParser T fuel o >>= fun _ => parse T fuel (render segs) o.defs
        (if o.extr.isEmpty then [] else (splitOn ',' o.extr []).map (fun s => '\\' :: s)))
        (initialState T o true fs)
      = .ok (r, { st1 with extracted := [], unknowns := [], foreign := false, nest := 0 }) := by
    refine (M.bind_ok _ _ _ _ _ hinit).trans ?_
    rw [hdefs, hextr]
    exact hp
  obtain ⟨hsep, hfr, hbo⟩ := segsOk_sep T st1 o.lang segs hok
  obtain ⟨lc', hml'⟩ := getTxtPosML_doc T o.lang thresh (lcOf st1) segs r hfb hitems hsep hfr hbo hlc
  unfold tex2txt
  simp only []
  rw [hrun]
  simp only [Bool.not_true, Bool.false_eq_true, if_false]
  rw [show (List.map (fun r => (r.code, r.chg)) st1.rots) = lcOf st1 from rfl, hml']
  simp only [hrepl, Bool.false_and, Bool.false_eq_true, if_false, List.map_id']
  rfl

/-- **C12 for `\foreignlanguage`, end to end.**  The document is a sequence of inert text segments
    and insertions `\foreignlanguage{name}{text}` (`segsOk`); package babel is loaded, `st1` is the
    parser state after `Parser.__init__` in multi-language mode; no `--defs`, `--extr`, `--repl`;
    `foreignlang_break` is not set.  With one unit of fuel per source character plus two, `tex2txt`
    succeeds; the parts are `refParts`, nothing is reported as unknown and no diagnostic is
    added. -/
theorem tex2txt_foreignlanguage (T : PTables) (o : Options) (fs : FS) (thresh : Nat) (segs : List Seg)
    (fuel : Nat) (st1 : PState)
    (hdefs : o.defs = []) (hextr : o.extr = []) (hrepl : o.hasRepl = false)
    (hfb : T.foreignBrk = false)
    (hinit : initParser T fuel o (initialState T o true fs) = .ok ((), st1))
    (hml : st1.multiLanguage = true) (hstk : st1.langStack ≠ [])
    (hlc : mainRepl (lcOf st1) o.lang ≠ [])
    (hok : segsOk T st1 o.lang segs = true)
    (hf : (render segs).length + 2 ≤ fuel) :
    ∃ r, tex2txt T fuel (render segs) o true thresh fs = .ok r ∧
      r.parts = refParts T o.lang thresh (mainRepl (lcOf st1) o.lang) segs ∧ r.unknowns = [] ∧
      r.diags = st1.diags ∧ r.foreign = false := by
  obtain ⟨toks, _, ht⟩ := tex2txt_frn_record T o fs thresh segs fuel st1 hdefs hextr hrepl hfb hinit
    hml hstk hlc hok hf
  exact ⟨_, ht, rfl, rfl, rfl, rfl⟩

end PlainForeign
end Yalafi
