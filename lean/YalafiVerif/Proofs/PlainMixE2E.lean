/-
  Proofs/PlainMixE2E.lean — C03 "hidden material never leaks" / C05 "text flow is preserved", end to
  end on the model, for a UNION grammar: documents whose segments are drawn from SEVEN kinds at once
  (files: Proofs/PlainMix.lean = token level, Proofs/PlainMixSrc.lean = documents and scanner,
  this file = lifts, end-to-end theorem, readings; statements: Properties/PlainMixStmt.lean).

  Kinds that are in (`PlainMix.Seg`)
    `txt s`        inert text
    `spc k`        a special sequence of the table (`--`, `---`, `` `` ``, `''`, `~`, `&`, `\%`, `\&`, `\$`,
                   `\#`, `\_`, `\{`, `\}`, `\,`, `\ `, `\!` …): every key that reaches the `.special`
                   branch of `expand_sequence`, with any value (also blank or empty)
    `cw name sp`   an undeclared control word `\name` + the white space `sp` the model skips behind it
    `van name key` a call `\name{key}` of a vanishing macro (`\label`, `\index`, `\pagestyle`, …)
    `com body`     a comment `%body` — `body` is everything the scanner takes: the text up to the line
                   break and, unless a blank line follows, the line break and the indentation of the
                   next line (so `%text⏎  ` with the next line starting behind the blanks, `%text` in
                   front of a blank line, `%text` at the end of the source are all instances)
    `verb d s`     `\verb d s d`
    `math body`    a simple inline formula `$body$` (as in Proofs/PlainMath.lean)

  Structure (the advice of the task)
    `PlainMix.seq_mix`        ONE loop lemma by induction over the pieces of the token buffer; it
                              dispatches to the step lemmas of the single-construct files:
                              `seq_plain_step`, `seq_special_step`, `seq_cw_step`,
                              `PlainVanish.seq_van_step`, `Comment.seq_com_step`, `seq_verb_step`,
                              `PlainMath.seq_dollar_step` + `PlainMath.inlineMath_simple`
    `PlainMix.scanSteps_mix`  ONE scanner lemma by induction over the source (`OkSrc`), from
                              `nextToken_text`, `nextToken_spc`, `nextToken_cw`, `nextToken_sp`,
                              `nextToken_brace`, `PlainVanish.scanSteps_key`, `nextToken_com`,
                              `nextToken_verb`, `PlainMath.nextToken_dollar`,
                              `PlainMath.scanSteps_bodyrun`; it yields the common invariant
                              `ScanFacts`: "the token buffer is `flat ps`, `PiecesOk ps`, its output
                              tokens spell the marks of the source and are `Simple`"
    `PlainMacro.removeLines_simple`   the blank-line removal on the output tokens is `delLines`
    `parserWork_mix`, `parse_mix`, `tex2txt_mix_src`, `tex2txt_mix`   the lifts

  The end-to-end statement `tex2txt_mix`.  `tex2txt` succeeds; text and (1-based) positions are
  `delLines (marks T repls 0 0 segs)` (`marks`: Proofs/PlainMixSrc.lean):
    * a text character is copied with its own position;
    * a special sequence leaves a text-less mark (the model emits an Action token for EVERY special
      token) and its table value at the positions `p, p+1, …` from the first character of the
      sequence on;
    * an undeclared control word (with the white space skipped behind it), a vanishing call: one
      text-less mark each; a comment: nothing at all (NO Action token — its line break is simply gone);
    * `\verb d s d`: a mark and the content `s`, every character at its own position;
    * the `k`-th formula: a mark, the placeholder `PlainMath.placeholder repls k` (entry `k mod
      length` of the inline collection of the language) and the closing punctuation of the body, all
      pinned to the first character of the body that is no white space, and another mark;
    * then (`delLines` = `remove_pure_action_lines`, exactly) every line is deleted, with its line
      break, that consists of white space only and holds at least one text-less mark; every other
      character survives; no line break is ever added;
    * `unknowns` = the control words, each once, in order of first use; no diagnostic is added.

  Side conditions (all in `SegsOk T st1 repls segs`, decidable; `st1` = state after `Parser.__init__`)
    `noEmptyActive T st1`   the empty string is no active character (else text-less tokens would go
                            to `expand_short_macro`)
    `txt`   `textOkU`: every character is white space or an ordinary character (none of `% # \ $ { }`)
            at which no special sequence matches — in its FULL right context (the whole rest of the
            source) —, and it is no active character of the language, or forms no short macro with the
            token behind it, whatever kind that is (`firstTokTxtU`: white space, comment, special
            sequence, control word, content of a `\verb`, `$`, character)
    `spc`   `spcOk`: the scanner matches exactly `k` here; `plainSpecialKey` (reaches the `.special`
            branch: does not start with white space / `%` / `#`, none of `$ \( $$ \[ \\ { }`, has a
            value); the value has no line break or is blank
    `cw`    `cwOkU`: `cwOk` of PlainUnknown (one macro token, undeclared, none of `\begin \end \item
            \verb \def`, no accent); `sp` white space with at most one line break; what follows
            does not start with white space — except `\name⏎⏎…` (`sp` empty, a paragraph token
            follows, which is NOT skipped); comments may follow directly (`skip_space` drops them
            as well; `commentLen_rest`: a comment never leaves droppable white space behind it)
    `van`   `PlainVanish.vanOk` (declared with `A`, no handler, ≤ 2 void tokens; key without
            `% # \ { }`, special sequences in it are not empty and swallow no `}`)
    `com`   `comOk`: `scan_comment` takes exactly `%body`; `comTokOk` of PlainComment (not the marker
            `%%% LT-SKIP-BEGIN`, no active character)
    `verb`  `verbOkU` = `verbOk` of PlainVerb (delimiter no letter / `@` / line break, content
            without delimiter and line break, no special sequence at the backslash)
    `math`  `PlainMath.mathOk` (body characters: no white space run with two line breaks, none of
            `% # \ $ { }`, not in `math_ignore` / `math_space`, no special sequence; not only white
            space; both `$` scanned as `$` — two formulas must not touch); and, ONLY IF the
            document has a formula, `mathReady`: the inline collection of the current language is
            `repls`, not empty, the language settings exist, no placeholder has a line break
            (unless blank)
    options                 no --defs, --extr, --repl, --unkn; single-language mode
    fuel                    `(render segs).length + 2 ≤ fuel`

  NOT covered: everything outside the seven kinds (braces / groups, environments, `\item`, macros
  with other signatures, `\def`, displayed maths, accents, `\\`, `#`); white space or a line break
  between the name of a vanishing macro and `{`;
  unterminated `\verb`; formulas with macros, groups or `\( \)`; multi-language mode.

  Model behaviour worth knowing (seen with `#eval`, implied by the theorem): EVERY special token
  leaves an Action token, so a line that consists only of white space and special sequences with
  blank value (`~` — U+00A0 counts as white space —, `&`, `\ `, `\,` …), e.g. a line `~` or
  `\index{k}~`, is deleted with its line break; `\verb` with blank content likewise.
-/
import YalafiVerif.Proofs.PlainMixSrc
namespace Yalafi
namespace PlainMix

open M
open PlainMacro

/-! ### `scan`, `parserWork`, `parse`, `tex2txt` -/

/-- `scan` on a well-formed source: no diagnostics; the token buffer consists of pieces, and its
    output tokens spell the marks of the source -/
theorem scan_mix (T : PTables) (st : PState) (src : Str) (ms : List Str → List Mark) (nms : List Str)
    (nf : Nat) (h : OkSrc T st 0 src ms nms nf) :
    (scan T.toTables src).diags = [] ∧
    ∃ ps, (scan T.toTables src).toks = flat ps ∧ PiecesOk T st ps ∧
      (∀ l, marksOf (outP T l ps) = ms l) ∧
      (∀ l, (∀ r ∈ l, ReplOk r) → ∀ t ∈ outP T l ps, Simple t) ∧
      cost ps ≤ src.length ∧ names ps = nms ∧ nMath ps = nf := by
  obtain ⟨_, F⟩ := scanSteps_mix T st src src.length src.length 0 src ms nms nf (Nat.le_refl _)
    (Nat.le_refl _) h
  have he := flatten_tok_extra (scanSteps T.toTables src src.length 0 src).1 (fun s hs => (F.ok s hs).2)
  have hd := flatten_diag_nil (scanSteps T.toTables src src.length 0 src).1 (fun s hs => (F.ok s hs).1)
  obtain ⟨ps, h1, h2, h3, h4, h5, h6, h7⟩ := F.pieces
  simp only [scan]
  rw [he, hd]
  exact ⟨rfl, ps, h1, h2, h3, h4, h5, h6, h7⟩

/-- **`parserWork` on a well-formed source.**  The characters of the result tokens, with their
    positions, are the reference output: the marks of the document with the pure Action lines
    deleted.  The undeclared control words are recorded, the rotation records change (if there
    are formulas); nothing else in the state changes. -/
theorem parserWork_mix (T : PTables) (st : PState) (src : Str) (fuel : Nat)
    (ms : List Str → List Mark) (nms : List Str) (nf : Nat) (rot : Rot) (ls : LangSettings)
    (hf : src.length + 2 ≤ fuel) (ha : noEmptyActive T st = true)
    (h : OkSrc T st 0 src ms nms nf) (hm : nf ≠ 0 → MathSt T st rot ls)
    (hr : ∀ r ∈ rot.inl, ReplOk r) :
    ∃ r rots', parserWork T fuel src st
        = .ok (r, { st with unknowns := nms.foldl addU st.unknowns, rots := rots' }) ∧
      charsOf r = delLines (ms rot.inl) := by
  obtain ⟨f, rfl⟩ : ∃ f, fuel = f + 1 := ⟨fuel - 1, by omega⟩
  obtain ⟨hd, ps, hflat, hpok, hmarks, hsimple, hcost, hnames, hnf⟩ := scan_mix T st src ms nms nf h
  let st' : PState := { st with latex := src, nest := st.nest + 1 }
  have hpok' : PiecesOk T st' ps := PiecesOk.congr (st := st) (st' := st') rfl rfl rfl hpok
  obtain ⟨st2, hs, hst2⟩ := seq_mix T none ls ps.length ps (Nat.le_refl _) f [] st' rot (by omega) hpok'
    ((noEmptyActive_congr T st st' rfl).trans ha) (fun h0 => hm (by rw [← hnf]; exact h0))
  rw [List.nil_append] at hs
  obtain ⟨r, hr', hchars⟩ := removeLines_simple _ (hsimple rot.inl hr)
  rw [hr'] at hs
  simp only [] at hs
  rw [hmarks] at hchars
  refine ⟨r, st2.rots, ?_, hchars⟩
  rw [parserWork.eq_2]
  refine (M.bind_ok _ _ _ _ _ (rfl : M.get st = _)).trans ?_
  refine (M.bind_ok _ _ _ _ _ (rfl : M.modify _ _ = _)).trans ?_
  refine (M.bind_ok _ _ _ _ _ (rfl : M.modify _ _ = _)).trans ?_
  refine (M.bind_ok _ _ _ _ _ (rfl : M.get _ = _)).trans ?_
  simp only [hd, List.append_nil]
  rw [Comment.skipPass_nobegin { st with latex := src, nest := st.nest + 1 } _ _
    (fun t ht' => hpok'.nobegin t (by rw [← hflat]; exact ht'))]
  simp only []
  refine (M.bind_ok _ _ _ _ _ (rfl : (pure _ : M (List Tok)) _ = _)).trans ?_
  rw [hflat]
  refine (M.bind_ok _ _ _ _ _ hs).trans ?_
  refine (M.bind_ok _ _ _ _ _ (rfl : M.modify _ _ = _)).trans ?_
  show Outcome.ok _ = _
  rw [hst2]
  simp only [st', Nat.add_sub_cancel, hnames]

theorem MathSt.congr {T : PTables} {st st' : PState} {rot : Rot} {ls : LangSettings}
    (hl : st'.langStack = st.langStack) (hr : st'.rots = st.rots) (h : MathSt T st rot ls) :
    MathSt T st' rot ls := by
  obtain ⟨h1, h2, h3⟩ := h
  refine ⟨?_, h2, ?_⟩
  · simpa [rotOf, curSettings, hl, hr] using h1
  · simpa [curSettings, hl] using h3

theorem parse_mix (T : PTables) (st : PState) (src : Str) (fuel : Nat)
    (ms : List Str → List Mark) (nms : List Str) (nf : Nat) (rot : Rot) (ls : LangSettings)
    (hf : src.length + 2 ≤ fuel) (ha : noEmptyActive T st = true)
    (h : OkSrc T st 0 src ms nms nf) (hm : nf ≠ 0 → MathSt T st rot ls)
    (hr : ∀ r ∈ rot.inl, ReplOk r) :
    ∃ r rots', parse T fuel src [] [] st
        = .ok (r, { st with extracted := [], unknowns := nms.eraseDups, foreign := false, nest := 0,
                            rots := rots' }) ∧
      charsOf r = delLines (ms rot.inl) := by
  have h' : OkSrc T { st with extracted := [], unknowns := [], foreign := false, nest := 0 } 0 src ms nms nf :=
    OkSrc.congr (st := st)
      (st' := { st with extracted := [], unknowns := [], foreign := false, nest := 0 }) rfl rfl rfl h
  obtain ⟨r, rots', hw, hc⟩ := parserWork_mix T
    { st with extracted := [], unknowns := [], foreign := false, nest := 0 } src fuel ms nms nf rot ls hf
    ((noEmptyActive_congr T st _ rfl).trans ha) h'
    (fun h0 => MathSt.congr (st := st) rfl rfl (hm h0)) hr
  refine ⟨r, rots', ?_, hc⟩
  unfold parse
  simp only [List.isEmpty_nil, Bool.not_true, Bool.false_eq_true, if_false, if_true]
  refine (M.bind_ok _ _ _ _ _ (rfl : M.modify _ _ = _)).trans ?_
  refine (M.bind_ok _ _ _ _ _ (rfl : (pure _ : M (List Tok)) _ = _)).trans ?_
  refine (M.bind_ok _ _ _ _ _ (rfl : M.modify _ _ = _)).trans ?_
  refine (M.bind_ok _ _ _ _ _ hw).trans ?_
  refine (M.bind_ok _ _ _ _ _ (rfl : M.get _ = _)).trans ?_
  show Outcome.ok _ = _
  simp [foldl_addU_nil]

/-- the result record of `tex2txt` on a well-formed source (no `--defs`, `--extr`, `--repl`,
    `--unkn`; single-language mode) -/
theorem tex2txt_mix_src (T : PTables) (o : Options) (fs : FS) (thresh : Nat) (src : Str) (fuel : Nat)
    (st1 : PState) (ms : List Str → List Mark) (nms : List Str) (nf : Nat) (rot : Rot)
    (ls : LangSettings)
    (hdefs : o.defs = []) (hextr : o.extr = []) (hrepl : o.hasRepl = false) (hunkn : o.unkn = false)
    (hinit : initParser T fuel o (initialState T o false fs) = .ok ((), st1))
    (ha : noEmptyActive T st1 = true) (h : OkSrc T st1 0 src ms nms nf)
    (hm : nf ≠ 0 → MathSt T st1 rot ls) (hr : ∀ r ∈ rot.inl, ReplOk r)
    (hf : src.length + 2 ≤ fuel) :
    ∃ toks, tex2txt T fuel src o false thresh fs
        = .ok { toks := toks, txt := (delLines (ms rot.inl)).map (·.1),
                pos := (delLines (ms rot.inl)).map (·.2 + 1), parts := [],
                unknowns := nms.eraseDups, diags := st1.diags, foreign := false } := by
  obtain ⟨r, rots', hp, hc⟩ := parse_mix T st1 src fuel ms nms nf rot ls hf ha h hm hr
  refine ⟨r, ?_⟩
  have hrun : (initParser T fuel o >>= fun _ => parse T fuel src o.defs
        (if o.extr.isEmpty then [] else (splitOn ',' o.extr []).map (fun s => '\\' :: s)))
        (initialState T o false fs)
      = .ok (r, { st1 with extracted := [], unknowns := nms.eraseDups, foreign := false, nest := 0,
                           rots := rots' }) := by
    refine (M.bind_ok _ _ _ _ _ hinit).trans ?_
    rw [hdefs, hextr]
    exact hp
  unfold tex2txt
  simp only []
  rw [hrun]
  simp only [hrepl, hunkn, Bool.not_false, if_true, Bool.false_eq_true, if_false,
    getTxtPos_charsOf, hc, List.map_map]
  rfl

/-! ### the side conditions of the formulas -/

/-- what the formulas need (only if there is one): the inline collection of the current language
    is `repls`, not empty; the language settings exist; no placeholder has a line break (or it is
    blank) -/
def mathReady (T : PTables) (st : PState) (repls : List Str) : Bool :=
  (rotOf st (curSettings st)).map (·.inl) == some repls && !repls.isEmpty &&
  (settingsOf T (curSettings st)).isSome && repls.all (fun r => !hasNl r || isBlank r)

/-- all side conditions on the tables, the initialised parser state and the document -/
def SegsOk (T : PTables) (st : PState) (repls : List Str) (segs : List Seg) : Prop :=
  noEmptyActive T st = true ∧ segsOk T st segs = true ∧
  (nFormulas segs = 0 ∨ mathReady T st repls = true)

instance (T : PTables) (st : PState) (repls : List Str) (segs : List Seg) :
    Decidable (SegsOk T st repls segs) := by
  unfold SegsOk; infer_instance

theorem mathReady_facts {T : PTables} {st : PState} {repls : List Str}
    (h : mathReady T st repls = true) :
    ∃ rot ls, MathSt T st rot ls ∧ rot.inl = repls ∧ ∀ r ∈ repls, ReplOk r := by
  simp only [mathReady, Bool.and_eq_true, beq_iff_eq, Bool.not_eq_true', List.isEmpty_eq_false_iff,
    List.all_eq_true, Bool.or_eq_true] at h
  obtain ⟨⟨⟨h1, h2⟩, h3⟩, h4⟩ := h
  obtain ⟨ls, hls⟩ := Option.isSome_iff_exists.mp h3
  cases hrot : rotOf st (curSettings st) with
  | none => rw [hrot] at h1; simp at h1
  | some rot =>
    rw [hrot] at h1
    have hinl : rot.inl = repls := by simpa using h1
    refine ⟨rot, ls, ⟨hrot, by rw [hinl]; exact h2, hls⟩, hinl, ?_⟩
    intro r hr hn
    rcases h4 r hr with h | h
    · rw [hn] at h; cases h
    · exact h

/-- **the end-to-end theorem for the union grammar** -/
theorem tex2txt_mix (T : PTables) (o : Options) (fs : FS) (thresh : Nat) (segs : List Seg)
    (fuel : Nat) (st1 : PState) (repls : List Str)
    (hdefs : o.defs = []) (hextr : o.extr = []) (hrepl : o.hasRepl = false) (hunkn : o.unkn = false)
    (hinit : initParser T fuel o (initialState T o false fs) = .ok ((), st1))
    (hok : SegsOk T st1 repls segs) (hf : (render segs).length + 2 ≤ fuel) :
    ∃ r, tex2txt T fuel (render segs) o false thresh fs = .ok r ∧
      r.txt = (delLines (marks T repls 0 0 segs)).map (·.1) ∧
      r.pos = (delLines (marks T repls 0 0 segs)).map (·.2 + 1) ∧
      r.unknowns = (cwNames segs).eraseDups ∧ r.diags = st1.diags ∧ r.parts = [] := by
  obtain ⟨ha, hsegs, hmath⟩ := hok
  have hsrc := OkSrc_of_segsOk T st1 segs 0 hsegs
  rcases hmath with h0 | hmr
  · -- no formula: the collection does not matter
    let rot0 : Rot := { code := [], inl := [], disp := [], chg := [] }
    obtain ⟨toks, ht⟩ := tex2txt_mix_src T o fs thresh (render segs) fuel st1 _ _ _ rot0 default
      hdefs hextr hrepl hunkn hinit ha hsrc (fun h => absurd h0 h) (by simp [rot0]) hf
    simp only [rot0, marksL_nomath T [] repls segs 0 0 h0] at ht
    exact ⟨_, ht, rfl, rfl, rfl, rfl, rfl⟩
  · obtain ⟨rot, ls, hst, hinl, hro⟩ := mathReady_facts hmr
    obtain ⟨toks, ht⟩ := tex2txt_mix_src T o fs thresh (render segs) fuel st1 _ _ _ rot ls
      hdefs hextr hrepl hunkn hinit ha hsrc (fun _ => hst) (by rw [hinl]; exact hro) hf
    have hne : repls ≠ [] := by rw [← hinl]; exact hst.2.1
    have hm := marksL_eq T repls hne segs 0 0
    simp only [PlainMath.rotN] at hm
    simp only [hinl, hm] at ht
    exact ⟨_, ht, rfl, rfl, rfl, rfl, rfl⟩

end PlainMix
end Yalafi
