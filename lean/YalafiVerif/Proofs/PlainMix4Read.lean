/-
  Proofs/PlainMix4Read.lean — readings of the reference `delLines (marks …) ++ flows …` of the third
  union grammar (Proofs/PlainMix4E2E.lean).  The general facts about `PlainMacro.delLines`
  (`delLines_sublist`, `delLines_words`, `delLines_mid`, `delLines_end`, `pureLine`) are those of
  Proofs/PlainMixRead.lean.

  `plain`, `marks_chars`    the characters of the marks of a document: text, special values, `\verb`
                            contents, placeholders of formulas / references / citations, notes,
                            titles with their full stops, the values of accent calls, the
                            EXPANSION of the uses (body of the definition in force with the
                            arguments substituted, surplus groups), the two blanks / placeholder /
                            punctuation of the displayed equations, the labels of the items with
                            their blanks, the paragraph breaks of list environments with `add_pars`
                            — nothing of keys, labels, comments, control-word names, formula and
                            equation bodies, footnote bodies, definitions, environment names
  `flows_vis`               the visible characters of the flows are those of the footnote bodies
-/
import YalafiVerif.Proofs.PlainMix4E2E
namespace Yalafi
namespace PlainMix4

open M
open PlainMacro hiding useSt useBody userMacro defSt Rel_init Rel
open PlainMix (filterMap_map_some')
open PlainFootnote (lastTokOff flowOut)
open PlainMacroArgs (bodyStr argSpans startCur defOf argsLen bodyChars groupChars bodyMarks_chars
  groupMarks_chars)
open PlainMathRich (mtoks fTxt anchor)

/-- the output characters of the main flow before the blank-line removal, with their positions;
    `env` = the definitions in force, `k` / `k2` = the number of formulas / displayed equations in
    front -/
def plain (T : PTables) (st : PState) (repls drepls : List Str) :
    Env → List ItemGen → Nat → Nat → Nat → List Seg → List (Char × Nat)
  | _, _, _, _, _, [] => []
  | env, stk, k, k2, p, .txt s :: rest => posText p s ++ plain T st repls drepls env stk k k2 (p + s.length) rest
  | env, stk, k, k2, p, .spc key :: rest =>
    posText p (specialValD T.toTables key) ++ plain T st repls drepls env stk k k2 (p + (Seg.spc key).len) rest
  | env, stk, k, k2, p, .opn :: rest => plain T st repls drepls env stk k k2 (p + Seg.opn.len) rest
  | env, stk, k, k2, p, .cls :: rest => plain T st repls drepls env stk k k2 (p + Seg.cls.len) rest
  | env, stk, k, k2, p, .cw name sp :: rest => plain T st repls drepls env stk k k2 (p + (Seg.cw name sp).len) rest
  | env, stk, k, k2, p, .van name key :: rest => plain T st repls drepls env stk k k2 (p + (Seg.van name key).len) rest
  | env, stk, k, k2, p, .com body :: rest => plain T st repls drepls env stk k k2 (p + (Seg.com body).len) rest
  | env, stk, k, k2, p, .verb d s :: rest =>
    posText (p + 6) s ++ plain T st repls drepls env stk k k2 (p + (Seg.verb d s).len) rest
  | env, stk, k, k2, p, .math par body :: rest =>
    (fTxt T (PlainMath.placeholder repls (k + 1)) (mtoks T (p + (PlainMathRich.opn par).length) body)).map
        (fun c => (c, anchor (mtoks T (p + (PlainMathRich.opn par).length) body)))
      ++ plain T st repls drepls env stk (k + 1) k2 (p + (Seg.math par body).len) rest
  | env, stk, k, k2, p, .ref name key :: rest =>
    PlainRef.fixChars p (PlainRef.phOf st name) ++ plain T st repls drepls env stk k k2 (p + (Seg.ref name key).len) rest
  | env, stk, k, k2, p, .cite name key :: rest =>
    PlainRef.fixChars p "[0]".toList ++ plain T st repls drepls env stk k k2 (p + (Seg.cite name key).len) rest
  | env, stk, k, k2, p, .citeN name note key :: rest =>
    PlainRef.fixChars p "[0, ".toList ++ (posText (p + name.length + 2) note ++
      (']', p + name.length + 2 + lastTokOff note) ::
        plain T st repls drepls env stk k k2 (p + (Seg.citeN name note key).len) rest)
  | env, stk, k, k2, p, .foot body :: rest => plain T st repls drepls env stk k k2 (p + (Seg.foot body).len) rest
  | env, stk, k, k2, p, .head name title :: rest =>
    posText (p + name.length + 2) title ++
      ((if PlainHeading.needsDot T title then [('.', p + name.length + 2 + lastTokOff title)] else [])
        ++ plain T st repls drepls env stk k k2 (p + (Seg.head name title).len) rest)
  | env, stk, k, k2, p, .acc name ws bo l :: rest =>
    (PlainAccent.accVal T name l).map (fun x => (x, p))
      ++ plain T st repls drepls env stk k k2 (p + (Seg.acc name ws bo l).len) rest
  | env, stk, k, k2, p, .defn name n body :: rest =>
    plain T st repls drepls ((name, n, body) :: env) stk k k2 (p + (Seg.defn name n body).len) rest
  | env, stk, k, k2, p, .ddef name n body :: rest =>
    plain T st repls drepls ((name, n, body) :: env) stk k k2 (p + (Seg.ddef name n body).len) rest
  | env, stk, k, k2, p, .ppar ws :: rest =>
    (nl, p) :: (nl, p) :: plain T st repls drepls env stk k k2 (p + (Seg.ppar ws).len) rest
  | env, stk, k, k2, p, .pbeg name arg :: rest =>
    (nl, p) :: (nl, p) :: plain T st repls drepls env stk k k2 (p + (Seg.pbeg name arg).len) rest
  | env, stk, k, k2, p, .pen name :: rest =>
    (nl, p) :: (nl, p) :: plain T st repls drepls env stk k k2 (p + (Seg.pen name).len) rest
  | env, stk, k, k2, p, .call name body :: rest =>
    plain T st repls drepls env stk k k2 (p + (Seg.call name body).len) rest
  | env, stk, k, k2, p, .callO name opt body :: rest =>
    plain T st repls drepls env stk k k2 (p + (Seg.callO name opt body).len) rest
  | env, stk, k, k2, p, .fen name :: rest =>
    plain T st repls drepls env stk k k2 (p + (Seg.fen name).len) rest
  | env, stk, k, k2, p, .fbegN name note :: rest =>
    plain T st repls drepls env stk k k2 (p + (Seg.fbegN name note).len) rest
  | env, stk, k, k2, p, .fbeg name ws :: rest =>
    plain T st repls drepls env stk k k2 (p + (Seg.fbeg name ws).len) rest
  | env, stk, k, k2, p, .use name args :: rest =>
    bodyChars (argSpans (p + name.length + 1) args)
        (startCur (argSpans (p + name.length + 1) args) p (defOf env name).2) (defOf env name).2
      ++ (groupChars ((argSpans (p + name.length + 1) args).drop (defOf env name).1)
      ++ plain T st repls drepls env stk k k2 (p + (Seg.use name args).len) rest)
  | env, stk, k, k2, p, .disp body :: rest =>
    (' ', p) :: (' ', p) ::
      ((PlainMath.placeholder drepls (k2 + 1)).map
          (fun c => (c, p + 2 + PlainDisplay.elemOff T st.mathOperators body)) ++
        ((PlainMath.punctOf T body).map (fun c => (c, p + 2 + PlainMath.leadBlanks body))
          ++ plain T st repls drepls env stk k (k2 + 1) (p + (Seg.disp body).len) rest))
  | env, stk, k, k2, p, .denv name body :: rest =>
    (' ', p) :: (' ', p) ::
      ((PlainMath.placeholder drepls (k2 + 1)).map
          (fun c => (c, p + (name.length + 8) + PlainDisplay.elemOff T st.mathOperators body)) ++
        ((PlainMath.punctOf T body).map (fun c => (c, p + (name.length + 8) + PlainMath.leadBlanks body))
          ++ plain T st repls drepls env stk k (k2 + 1) (p + (Seg.denv name body).len) rest))
  | env, stk, k, k2, p, .beg name :: rest =>
    (PlainItem.envMarks (PlainItem.envOf st name) p).filterMap id
      ++ plain T st repls drepls env (PlainItem.begStk st stk name) k k2 (p + (Seg.beg name).len) rest
  | env, stk, k, k2, p, .item ws :: rest =>
    (' ', p) :: ((PlainItem.labOf T stk).map (fun c => (c, p)) ++ (' ', p) ::
      plain T st repls drepls env (PlainItem.itemStk stk) k k2 (p + (Seg.item ws).len) rest)
  | env, stk, k, k2, p, .itemL ws label pc :: rest =>
    (itemLMarks p ws label pc).filterMap id
      ++ plain T st repls drepls env stk k k2 (p + (Seg.itemL ws label pc).len) rest
  | env, stk, k, k2, p, .ubeg name :: rest =>
    plain T st repls drepls env stk k k2 (p + (Seg.ubeg name).len) rest
  | env, stk, k, k2, p, .uen name :: rest =>
    plain T st repls drepls env stk k k2 (p + (Seg.uen name).len) rest
  | env, stk, k, k2, p, .en name :: rest =>
    (PlainItem.envMarks (PlainItem.envOf st name) p).filterMap id
      ++ plain T st repls drepls env (PlainItem.endStk stk) k k2 (p + (Seg.en name).len) rest

theorem filterMap_dotMarks (T : PTables) (q : Nat) (title : Str) :
    (dotMarks T q title).filterMap id
      = if PlainHeading.needsDot T title then [('.', q + lastTokOff title)] else [] := by
  unfold dotMarks
  split <;> rfl

theorem marks_chars (T : PTables) (st : PState) (repls drepls : List Str) :
    ∀ (segs : List Seg) (env : Env) (stk : List ItemGen) (k k2 p : Nat),
      (marks T st repls drepls env stk k k2 p segs).filterMap id
        = plain T st repls drepls env stk k k2 p segs
  | [], _, _, _, _, _ => rfl
  | .txt s :: rest, env, stk, k, k2, p => by
    simp only [marks, plain, List.filterMap_append, filterMap_map_some, marks_chars T st repls drepls rest]
  | .spc key :: rest, env, stk, k, k2, p => by
    simp only [marks, plain, fixOf, List.cons_append, List.filterMap_cons, id, List.filterMap_append,
      filterMap_map_some, marks_chars T st repls drepls rest]
  | .opn :: rest, env, stk, k, k2, p => by
    simp only [marks, plain, fixOf, List.cons_append, List.nil_append, List.filterMap_cons, id,
      marks_chars T st repls drepls rest]
  | .cls :: rest, env, stk, k, k2, p => by
    simp only [marks, plain, fixOf, List.cons_append, List.nil_append, List.filterMap_cons, id,
      marks_chars T st repls drepls rest]
  | .cw name sp :: rest, env, stk, k, k2, p => by
    simp only [marks, plain, List.filterMap_cons, id, marks_chars T st repls drepls rest]
  | .van name key :: rest, env, stk, k, k2, p => by
    simp only [marks, plain, fixOf, List.cons_append, List.nil_append, List.filterMap_cons, id,
      marks_chars T st repls drepls rest]
  | .com body :: rest, env, stk, k, k2, p => by
    simp only [marks, plain, fixOf, List.nil_append, marks_chars T st repls drepls rest]
  | .verb d s :: rest, env, stk, k, k2, p => by
    simp only [marks, plain, fixOf, List.cons_append, List.filterMap_cons, id, List.filterMap_append,
      filterMap_map_some, marks_chars T st repls drepls rest]
  | .math par body :: rest, env, stk, k, k2, p => by
    simp only [marks, plain, mathMarksR, List.cons_append, List.filterMap_cons, id,
      List.filterMap_append, List.append_assoc, List.nil_append, List.filterMap_nil,
      marks_chars T st repls drepls rest, filterMap_map_some']
  | .ref name key :: rest, env, stk, k, k2, p => by
    simp only [marks, plain, fixOf, List.cons_append, List.filterMap_cons, id, List.filterMap_append,
      PlainRef.filterMap_fixMarks, marks_chars T st repls drepls rest]
  | .cite name key :: rest, env, stk, k, k2, p => by
    simp only [marks, plain, fixOf, List.cons_append, List.append_assoc, List.nil_append,
      List.filterMap_cons, id, List.filterMap_append, PlainRef.filterMap_fixMarks,
      marks_chars T st repls drepls rest]
  | .citeN name note key :: rest, env, stk, k, k2, p => by
    simp only [marks, plain, fixOf, List.cons_append, List.append_assoc, List.nil_append,
      List.filterMap_cons, id, List.filterMap_append, PlainRef.filterMap_fixMarks, filterMap_map_some,
      marks_chars T st repls drepls rest]
  | .foot body :: rest, env, stk, k, k2, p => by
    simp only [marks, plain, List.filterMap_cons, id, marks_chars T st repls drepls rest]
  | .head name title :: rest, env, stk, k, k2, p => by
    simp only [marks, plain, fixOf, List.cons_append, List.append_assoc, List.filterMap_cons, id,
      List.filterMap_append, filterMap_map_some, filterMap_dotMarks, marks_chars T st repls drepls rest]
  | .acc name ws bo l :: rest, env, stk, k, k2, p => by
    simp only [marks, plain, fixOf, List.filterMap_append, filterMap_map_some',
      marks_chars T st repls drepls rest]
  | .defn name n body :: rest, env, stk, k, k2, p => by
    simp only [marks, plain, List.filterMap_cons, id, marks_chars T st repls drepls rest]
  | .ddef name n body :: rest, env, stk, k, k2, p => by
    simp only [marks, plain, List.filterMap_cons, id, marks_chars T st repls drepls rest]
  | .ppar ws :: rest, env, stk, k, k2, p => by
    simp [marks, plain, fixOf, PlainRef.fixMarks, marks_chars T st repls drepls rest]
  | .pbeg name arg :: rest, env, stk, k, k2, p => by
    simp [marks, plain, fixOf, PlainRef.fixMarks, marks_chars T st repls drepls rest]
  | .pen name :: rest, env, stk, k, k2, p => by
    simp [marks, plain, fixOf, PlainRef.fixMarks, marks_chars T st repls drepls rest]
  | .call name body :: rest, env, stk, k, k2, p => by
    simp only [marks, plain, List.filterMap_cons, id, marks_chars T st repls drepls rest]
  | .callO name opt body :: rest, env, stk, k, k2, p => by
    simp only [marks, plain, List.filterMap_cons, id, marks_chars T st repls drepls rest]
  | .fen name :: rest, env, stk, k, k2, p => by
    simp only [marks, plain, fixOf, List.cons_append, List.nil_append, List.filterMap_cons, id,
      marks_chars T st repls drepls rest]
  | .fbegN name note :: rest, env, stk, k, k2, p => by
    simp only [marks, plain, fixOf, List.cons_append, List.nil_append, List.filterMap_cons, id,
      marks_chars T st repls drepls rest]
  | .fbeg name ws :: rest, env, stk, k, k2, p => by
    simp only [marks, plain, fixOf, List.cons_append, List.nil_append, List.filterMap_cons, id,
      marks_chars T st repls drepls rest]
  | .use name args :: rest, env, stk, k, k2, p => by
    simp only [marks, plain, List.filterMap_cons, id, List.filterMap_append, bodyMarks_chars,
      groupMarks_chars, marks_chars T st repls drepls rest]
  | .disp body :: rest, env, stk, k, k2, p => by
    simp only [marks, plain, dispMarks, List.cons_append, List.filterMap_cons, id,
      List.filterMap_append, List.append_assoc, List.nil_append, List.filterMap_nil,
      marks_chars T st repls drepls rest, filterMap_map_some']
  | .denv name body :: rest, env, stk, k, k2, p => by
    simp only [marks, plain, dispMarks, List.cons_append, List.filterMap_cons, id,
      List.filterMap_append, List.append_assoc, List.nil_append, List.filterMap_nil,
      marks_chars T st repls drepls rest, filterMap_map_some']
  | .beg name :: rest, env, stk, k, k2, p => by
    simp only [marks, plain, List.filterMap_append, List.filterMap_cons, id,
      marks_chars T st repls drepls rest]
  | .item ws :: rest, env, stk, k, k2, p => by
    simp only [marks, plain, itemMarks, List.cons_append, List.filterMap_cons, id,
      List.filterMap_append, List.append_assoc, List.nil_append, List.filterMap_nil,
      marks_chars T st repls drepls rest, filterMap_map_some']
  | .itemL ws label pc :: rest, env, stk, k, k2, p => by
    simp only [marks, plain, List.filterMap_append, marks_chars T st repls drepls rest]
  | .ubeg name :: rest, env, stk, k, k2, p => by
    simp only [marks, plain, List.filterMap_cons, id, marks_chars T st repls drepls rest]
  | .uen name :: rest, env, stk, k, k2, p => by
    simp only [marks, plain, fixOf, List.cons_append, List.nil_append, List.filterMap_cons, id,
      marks_chars T st repls drepls rest]
  | .en name :: rest, env, stk, k, k2, p => by
    simp only [marks, plain, List.filterMap_append, marks_chars T st repls drepls rest]

/-- the footnote bodies with their positions, in order -/
def footBodies : Nat → List Seg → List (Char × Nat)
  | _, [] => []
  | p, .call name body :: rest =>
    posText (p + name.length + 2) body ++ footBodies (p + (Seg.call name body).len) rest
  | p, .callO name opt body :: rest =>
    posText (p + name.length + opt.length + 4) body ++ footBodies (p + (Seg.callO name opt body).len) rest
  | p, .foot body :: rest => posText (p + 10) body ++ footBodies (p + (Seg.foot body).len) rest
  | p, s :: rest => footBodies (p + s.len) rest

/-- the characters of the flows that are no white space are those of the footnote bodies: the
    separators are line breaks -/
theorem flows_vis : ∀ (segs : List Seg) (p : Nat),
    (flows p segs).filter PlainMix.vis = (footBodies p segs).filter PlainMix.vis
  | [], _ => rfl
  | .foot body :: rest, p => by
    have hnl : ∀ q, PlainMix.vis (nl, q) = false := by
      intro q; simp [PlainMix.vis, show isSpace nl = true by decide]
    simp only [flows, footBodies, flowOut, List.filter_append, List.cons_append, List.nil_append,
      List.filter_cons, hnl, Bool.false_eq_true, if_false, List.filter_nil, List.append_nil,
      flows_vis rest]
  | .txt _ :: rest, p => by simp only [flows, footBodies, flows_vis rest]
  | .spc _ :: rest, p => by simp only [flows, footBodies, flows_vis rest]
  | .opn :: rest, p => by simp only [flows, footBodies, flows_vis rest]
  | .cls :: rest, p => by simp only [flows, footBodies, flows_vis rest]
  | .cw _ _ :: rest, p => by simp only [flows, footBodies, flows_vis rest]
  | .van _ _ :: rest, p => by simp only [flows, footBodies, flows_vis rest]
  | .com _ :: rest, p => by simp only [flows, footBodies, flows_vis rest]
  | .verb _ _ :: rest, p => by simp only [flows, footBodies, flows_vis rest]
  | .math _ _ :: rest, p => by simp only [flows, footBodies, flows_vis rest]
  | .ref _ _ :: rest, p => by simp only [flows, footBodies, flows_vis rest]
  | .cite _ _ :: rest, p => by simp only [flows, footBodies, flows_vis rest]
  | .citeN _ _ _ :: rest, p => by simp only [flows, footBodies, flows_vis rest]
  | .head _ _ :: rest, p => by simp only [flows, footBodies, flows_vis rest]
  | .acc _ _ _ _ :: rest, p => by simp only [flows, footBodies, flows_vis rest]
  | .defn _ _ _ :: rest, p => by simp only [flows, footBodies, flows_vis rest]
  | .ddef _ _ _ :: rest, p => by simp only [flows, footBodies, flows_vis rest]
  | .ppar _ :: rest, p => by simp only [flows, footBodies, flows_vis rest]
  | .pbeg _ _ :: rest, p => by simp only [flows, footBodies, flows_vis rest]
  | .pen _ :: rest, p => by simp only [flows, footBodies, flows_vis rest]
  | .call name body :: rest, p => by
    have hnl : ∀ q, PlainMix.vis (nl, q) = false := by
      intro q; simp [PlainMix.vis, show isSpace nl = true by decide]
    simp only [flows, footBodies, flowOut, List.filter_append, List.cons_append, List.nil_append,
      List.filter_cons, hnl, Bool.false_eq_true, if_false, List.filter_nil, List.append_nil,
      flows_vis rest]
  | .callO name opt body :: rest, p => by
    have hnl : ∀ q, PlainMix.vis (nl, q) = false := by
      intro q; simp [PlainMix.vis, show isSpace nl = true by decide]
    simp only [flows, footBodies, flowOut, List.filter_append, List.cons_append, List.nil_append,
      List.filter_cons, hnl, Bool.false_eq_true, if_false, List.filter_nil, List.append_nil,
      flows_vis rest]
  | .fen _ :: rest, p => by simp only [flows, footBodies, flows_vis rest]
  | .fbegN _ _ :: rest, p => by simp only [flows, footBodies, flows_vis rest]
  | .fbeg _ _ :: rest, p => by simp only [flows, footBodies, flows_vis rest]
  | .use _ _ :: rest, p => by simp only [flows, footBodies, flows_vis rest]
  | .disp _ :: rest, p => by simp only [flows, footBodies, flows_vis rest]
  | .beg _ :: rest, p => by simp only [flows, footBodies, flows_vis rest]
  | .denv _ _ :: rest, p => by simp only [flows, footBodies, flows_vis rest]
  | .item _ :: rest, p => by simp only [flows, footBodies, flows_vis rest]
  | .itemL _ _ _ :: rest, p => by simp only [flows, footBodies, flows_vis rest]
  | .ubeg _ :: rest, p => by simp only [flows, footBodies, flows_vis rest]
  | .uen _ :: rest, p => by simp only [flows, footBodies, flows_vis rest]
  | .en _ :: rest, p => by simp only [flows, footBodies, flows_vis rest]

end PlainMix4
end Yalafi
