/-
  Proofs/SystemInclude.lean — C18, second half, composed from the filter and the shell:
  "Built on this [the extraction], --include checks exactly the files reachable from the given ones
  through \input/\include (adding .tex where missing), each once, in discovery order, without
  files matching --skip, and terminates on cyclic inclusion."

  The Python (yalafi/shell/shell.py, l. 264–295):

      opts = tex2txt.Options(extr='include,input', repl=cmdline.replace, defs=cmdline.define,
                             lang=cmdline.language[:2], dcls=…, pack=…, nosp=…)
      todo = cmdline.file;  done = []
      while todo:
          f = todo.pop(0)
          if f in done or skip_file(f): continue
          done.append(f)
          fp = tex2txt.myopen(f, …); tex = fp.read()          # fatal exit if `f` cannot be opened
          (plain, _) = tex2txt.tex2txt(tex, opts)
          for f in plain.split():
              if not f.endswith('.tex'): f += '.tex'
              if f not in done + todo and not skip_file(f): todo.append(f)

  The model.  The loop is `includeLoop includes skip fuel todo done` (Model/Shell.lean) for a
  function `includes : Str → List Str`; Properties/C18.lean and Proofs/SystemIncludeLoop.lean are
  about an ABSTRACT `includes`.  Here the CONCRETE function is defined on the model of the filter:

    `inclOpts o`          the options of the scan: those of the command line with
                          `extr := "include,input"` (no `--seqs`, no `--unkn`)
    `readFile fs f`       the file system is the association list `fs : FS` that the filter itself
                          reads from (`\LTinput`): first entry with name `f`
    `includesOf? T fuel o fs f`   read `f` (`none` = the fatal exit of `myopen`), run `tex2txt`
                          of the model with `inclOpts o` in single-language mode (`none` if it does
                          not return a result), split `r.txt` at white space (`splitWs` =
                          `str.split()`), `addTex` every part
    `includesOf …`        the same as a total function (`[]` in the fatal cases) — the argument of
                          `includeLoop`.  The theorems below show that the fatal case does not
                          occur for any file the loop opens (`opened`).

  (B) `includesOf?_document`: for a file whose content is a document `PlainExtract.render segs` of
  the class of `C18_extract_e2e` (inert text, calls `\input{…}` / `\include{…}` — `.call`, the listed
  macros —, calls of declared macros that are not listed — `.skip`: `\label`, `\section`, … —,
  comment lines with arbitrary text — `.com`: `% \input{hidden}`):

      includesOf? … f = some (inclNames segs),
      inclNames segs = ((bodies segs).flatMap splitWs).map addTex

  i.e. exactly the arguments of the `\input`/`\include` calls, in source order, with `.tex` added
  where missing; nothing from text, from other macros or from comments.  The statement follows the
  code for arguments that contain white space: `\input{my file}` is taken for TWO files `my.tex`
  and `file.tex` (`plain.split()`); for arguments without white space (`namesOk`)
  `inclNames segs = (bodies segs).map addTex` (`inclNames_of_namesOk`).

  (C) `include_system`: a finite file system `docs : List (Str × List Seg)` (name, document; a
  later entry with the name of an earlier one is shadowed), every document well formed (`docsOk`),
  every root and every included name that is not skipped present (`closedOk`: the fatal exit is
  not taken).  With `n ≥ |roots| + |docs|` iterations the loop terminates — cyclic inclusion or
  not — and its result `out`
    * `opened`:  every `f ∈ out` is a file of `docs`, and the scan of it succeeds;
    * has no duplicates and contains no skipped file;
    * `f ∈ out ↔ ReachNS (docIncludes docs) skip roots f`: exactly the files reachable from a root
      that is not skipped through `\input`/`\include` calls in files that are not skipped (what a
      skipped file includes is not followed: it is never opened);
    * `out = firstNew skip [] (roots ++ out.flatMap (docIncludes docs))`: breadth-first discovery
      order — the first occurrences of the non-skipped names in the sequence "roots, then what
      out[0] includes, then what out[1] includes, …";
    * `Causal`: every member is a root or is included by an earlier member.

  Side conditions (all computable, reasons):
    `o.defs = []`, `o.hasRepl = false`   no `--define`, no `--replace` (as in `C18_extract_e2e`);
    `hinit`    `st1` = state after `Parser.__init__` for `inclOpts o` and the file system;
    `stateOk`, `segsOk` for `initExtractions T st1 ["\\include", "\\input"]`  see Proofs/PlainExtract.lean;
    `fuel`     filter fuel: one unit per source character of the longest file plus four;
    `closedOk` see above.
  Not covered: everything `C18_extract_e2e` does not cover (arguments with macros or braces,
  `\input file` without braces — TeX's own syntax; the filter then takes the next TOKEN, i.e. the
  single character `f` —, white space between name and brace, `%%% LT-SKIP-BEGIN`), relative
  paths / directories (names are compared as strings, as in the Python code: `a.tex` and
  `./a.tex` are different files; `addTex` compares with `.tex` exactly, `a.TEX` becomes
  `a.TEX.tex`), files outside the class, missing files (fatal exit of the real program;
  `includesOf?` is `none`), `--define` / `--replace` together with `--include`.
-/
import YalafiVerif.Proofs.PlainExtract
import YalafiVerif.Proofs.SystemIncludeLoop
namespace Yalafi
namespace SystemInclude

open PlainExtract (extrList)
open IncludeLoop

/-! ### (A) the concrete inclusion function of the shell -/

/-- `inclusion_macros = 'include,input'` (shell.py l. 75) -/
def inclusionMacros : Str := "include,input".toList

/-- the options of the inclusion scan (shell.py l. 267): language, document class, packages,
    `--no-specials`, definitions and replacements of the command line; extraction list
    `include,input`; `seqs` and `unkn` keep their default `False` -/
def inclOpts (o : Options) : Options :=
  { o with extr := inclusionMacros, seqs := false, unkn := false }

/-- the extraction list of the scan -/
def inclList : List Str := extrList inclusionMacros

theorem inclList_eq : inclList = ["\\include".toList, "\\input".toList] := by decide

/-- `open(f).read()` on the association list -/
def readFile (fs : FS) (f : Str) : Option Str := (fs.find? (·.1 == f)).map (·.2)

/-- the names one file contributes to the work list, `none` = fatal exit (the file cannot be
    opened, or the filter does not return) -/
def includesOf? (T : PTables) (fuel : Nat) (o : Options) (fs : FS) (f : Str) : Option (List Str) :=
  match readFile fs f with
  | none => none
  | some tex =>
    match tex2txt T fuel tex (inclOpts o) false 0 fs with
    | .ok r => some ((splitWs r.txt).map addTex)
    | _ => none

/-- the argument of `includeLoop` -/
def includesOf (T : PTables) (fuel : Nat) (o : Options) (fs : FS) (f : Str) : List Str :=
  (includesOf? T fuel o fs f).getD []

/-! ### `str.split()` of the extraction output -/

theorem splitWsAux_acc : ∀ (s cur : Str) (acc : List Str),
    splitWsAux s cur acc = acc.reverse ++ splitWsAux s cur []
  | [], cur, acc => by
    simp only [splitWsAux]
    split <;> simp
  | c :: cs, cur, acc => by
    simp only [splitWsAux]
    split
    · rw [splitWsAux_acc cs [] (if cur.isEmpty then acc else cur.reverse :: acc),
        splitWsAux_acc cs [] (if cur.isEmpty then [] else [cur.reverse])]
      split <;> simp
    · exact splitWsAux_acc cs (c :: cur) acc

theorem splitWsAux_sep (c : Char) (hc : isSpace c = true) (b : Str) : ∀ (a cur : Str),
    splitWsAux (a ++ c :: b) cur [] = splitWsAux a cur [] ++ splitWs b
  | [], cur => by
    simp only [List.nil_append, splitWsAux, hc, if_true]
    rw [splitWsAux_acc]
    rfl
  | x :: a, cur => by
    simp only [List.cons_append, splitWsAux]
    split
    · rw [splitWsAux_acc, splitWsAux_sep c hc b a [], splitWsAux_acc a [] (if cur.isEmpty then [] else [cur.reverse])]
      simp
    · exact splitWsAux_sep c hc b a (x :: cur)

/-- white space separates -/
theorem splitWs_sep (c : Char) (hc : isSpace c = true) (a b : Str) :
    splitWs (a ++ c :: b) = splitWs a ++ splitWs b :=
  splitWsAux_sep c hc b a []

theorem splitWs_lead (c : Char) (hc : isSpace c = true) (b : Str) : splitWs (c :: b) = splitWs b := by
  have := splitWs_sep c hc [] b
  simpa [splitWs, splitWsAux] using this

theorem splitWsAux_word : ∀ (w cur : Str), (∀ c ∈ w, isSpace c = false) →
    splitWsAux w cur [] = if (w.reverse ++ cur).isEmpty then [] else [(w.reverse ++ cur).reverse]
  | [], cur, _ => by
    simp only [splitWsAux, List.reverse_nil, List.nil_append]
    split <;> simp_all
  | c :: w, cur, h => by
    have hc := h c List.mem_cons_self
    simp only [splitWsAux, hc, Bool.false_eq_true, if_false]
    rw [splitWsAux_word w (c :: cur) (fun d hd => h d (List.mem_cons_of_mem _ hd))]
    simp

/-- a non-empty string without white space is one word -/
theorem splitWs_word (w : Str) (hne : w ≠ []) (h : ∀ c ∈ w, isSpace c = false) : splitWs w = [w] := by
  rw [splitWs, splitWsAux_word w [] h]
  simp [hne]

/-- what the filter makes of one extracted argument -/
def wrap (b : Str) : Str := [nl, nl, nl] ++ b ++ [nl]

theorem splitWs_wraps : ∀ bs : List Str, splitWs (bs.map wrap).flatten = bs.flatMap splitWs
  | [] => rfl
  | b :: bs => by
    have hnl : isSpace nl = true := by decide
    have e : ((b :: bs).map wrap).flatten = nl :: nl :: nl :: (b ++ nl :: (bs.map wrap).flatten) := by
      simp [wrap]
    rw [e, splitWs_lead nl hnl, splitWs_lead nl hnl, splitWs_lead nl hnl, splitWs_sep nl hnl,
      splitWs_wraps bs, List.flatMap_cons]

/-- `plain.split()` of the output of the scan: the words of the arguments, in order -/
theorem splitWs_flowsText (segs : List PlainExtract.Seg) :
    splitWs (PlainExtract.flowsText segs) = (PlainExtract.bodies segs).flatMap splitWs :=
  splitWs_wraps (PlainExtract.bodies segs)

/-! ### (B) the scan of one document -/

/-- the arguments of the `\input`/`\include` calls, split at white space as `plain.split()` does -/
def inclArgs (segs : List PlainExtract.Seg) : List Str := (PlainExtract.bodies segs).flatMap splitWs

/-- the names a document contributes: `.tex` added where missing -/
def inclNames (segs : List PlainExtract.Seg) : List Str := (inclArgs segs).map addTex

/-- no argument of an `\input`/`\include` call contains white space -/
def namesOk (segs : List PlainExtract.Seg) : Bool := (PlainExtract.bodies segs).all (fun b => !b.any isSpace)

theorem flatMap_splitWs_words : ∀ bs : List Str,
    bs.all (fun b => !b.any isSpace) = true → bs.all (fun b => !b.isEmpty) = true →
    bs.flatMap splitWs = bs
  | [], _, _ => rfl
  | b :: bs, hn, hne => by
    simp only [List.all_cons, Bool.and_eq_true, Bool.not_eq_true', List.isEmpty_eq_false_iff] at hn hne
    rw [List.flatMap_cons, flatMap_splitWs_words bs hn.2 hne.2, splitWs_word b hne.1]
    · rfl
    · intro c hc
      have := hn.1
      simp only [List.any_eq_false] at this
      simpa using this c hc

/-- for arguments without white space: one name per call -/
theorem inclNames_of_namesOk (T : PTables) (st : PState) (segs : List PlainExtract.Seg)
    (hok : PlainExtract.segsOk T st segs = true) (hn : namesOk segs = true) :
    inclNames segs = (PlainExtract.bodies segs).map addTex := by
  have hne := PlainExtract.bodiesNonEmpty_of_segsOk T st segs hok
  unfold inclNames inclArgs
  rw [flatMap_splitWs_words _ hn hne]

/-- **(B) the names the shell takes from one file.**  The file `f` contains the document
    `render segs`; hypotheses of `C18_extract_e2e` for the options of the scan.  Then the scan
    succeeds and delivers exactly the (white-space separated parts of the) arguments of the
    `\input` / `\include` calls in source order, `.tex` added where missing. -/
theorem includesOf?_document (T : PTables) (o : Options) (fs : FS) (f : Str) (segs : List PlainExtract.Seg)
    (fuel : Nat) (st1 : PState)
    (hfile : readFile fs f = some (PlainExtract.render segs))
    (hdefs : o.defs = []) (hrepl : o.hasRepl = false)
    (hinit : initParser T fuel (inclOpts o) (initialState T (inclOpts o) false fs) = .ok ((), st1))
    (hst : PlainExtract.stateOk T (initExtractions T st1 inclList) = true)
    (hok : PlainExtract.segsOk T (initExtractions T st1 inclList) segs = true)
    (hf : (PlainExtract.render segs).length + 4 ≤ fuel) :
    includesOf? T fuel o fs f = some (inclNames segs) := by
  have hextr : (inclOpts o).extr ≠ [] := by
    show inclusionMacros ≠ []
    decide
  have hunkn : (inclOpts o).unkn = false := rfl
  obtain ⟨r, hr, ht, _⟩ := PlainExtract.tex2txt_extract T (inclOpts o) fs 0 segs fuel st1 hdefs
    hextr hrepl hunkn hinit hst hok hf
  simp only [includesOf?, hfile, hr, ht, splitWs_flowsText]
  rfl

/-! ### (C) file systems of documents -/

/-- a finite file system: names with their documents -/
abbrev Docs := List (Str × List PlainExtract.Seg)

/-- the file system the filter and the shell read -/
def fsOf (docs : Docs) : FS := docs.map (fun d => (d.1, PlainExtract.render d.2))

/-- the document stored under a name (first entry) -/
def docOf (docs : Docs) (f : Str) : Option (List PlainExtract.Seg) := (docs.find? (·.1 == f)).map (·.2)

/-- the inclusion relation of the file system, read off the documents: `g ∈ docIncludes docs f`
    iff the file `f` contains a call `\input{b}` or `\include{b}` and `g` is (a white-space
    separated part of) `b` with `.tex` added where missing -/
def docIncludes (docs : Docs) (f : Str) : List Str :=
  match docOf docs f with
  | some segs => inclNames segs
  | none => []

def hasFile (docs : Docs) (f : Str) : Bool := docs.any (·.1 == f)

/-- every document is in the class of `C18_extract_e2e` and short enough for the fuel of the filter -/
def docsOk (T : PTables) (st : PState) (fuel : Nat) (docs : Docs) : Bool :=
  docs.all (fun d => PlainExtract.segsOk T st d.2 && decide ((PlainExtract.render d.2).length + 4 ≤ fuel))

/-- no fatal exit: every root and every included name that is not skipped is a file -/
def closedOk (skip : Str → Bool) (docs : Docs) (roots : List Str) : Bool :=
  roots.all (fun r => skip r || hasFile docs r) &&
  docs.all (fun d => (inclNames d.2).all (fun g => skip g || hasFile docs g))

theorem readFile_fsOf (docs : Docs) (f : Str) : readFile (fsOf docs) f = (docOf docs f).map PlainExtract.render := by
  simp only [readFile, fsOf, docOf, List.find?_map, Option.map_map]
  rfl

theorem docOf_mem (docs : Docs) (f : Str) (segs : List PlainExtract.Seg) (h : docOf docs f = some segs) :
    (f, segs) ∈ docs := by
  simp only [docOf, Option.map_eq_some_iff] at h
  obtain ⟨d, hd, rfl⟩ := h
  have h1 := List.mem_of_find?_eq_some hd
  have h2 := List.find?_some hd
  simp only [beq_iff_eq] at h2
  rw [← h2]
  exact h1

theorem docOf_of_hasFile (docs : Docs) (f : Str) (h : hasFile docs f = true) :
    ∃ segs, docOf docs f = some segs := by
  simp only [hasFile, List.any_eq_true] at h
  obtain ⟨d, hd, hf⟩ := h
  cases hfind : docs.find? (·.1 == f) with
  | none =>
    rw [List.find?_eq_none] at hfind
    exact absurd hf (hfind d hd)
  | some e => exact ⟨e.2, by simp [docOf, hfind]⟩

/-- on a file system of well-formed documents the concrete inclusion function of the shell is the
    inclusion relation read off the documents -/
theorem includesOf_docs (T : PTables) (o : Options) (docs : Docs) (fuel : Nat) (st1 : PState)
    (hdefs : o.defs = []) (hrepl : o.hasRepl = false)
    (hinit : initParser T fuel (inclOpts o) (initialState T (inclOpts o) false (fsOf docs)) = .ok ((), st1))
    (hst : PlainExtract.stateOk T (initExtractions T st1 inclList) = true)
    (hdocs : docsOk T (initExtractions T st1 inclList) fuel docs = true) (f : Str) :
    (∀ segs, docOf docs f = some segs →
      includesOf? T fuel o (fsOf docs) f = some (inclNames segs)) ∧
    includesOf T fuel o (fsOf docs) f = docIncludes docs f := by
  have h1 : ∀ segs, docOf docs f = some segs →
      includesOf? T fuel o (fsOf docs) f = some (inclNames segs) := by
    intro segs hseg
    have hm := docOf_mem docs f segs hseg
    simp only [docsOk, List.all_eq_true, Bool.and_eq_true, decide_eq_true_eq] at hdocs
    obtain ⟨hok, hf⟩ := hdocs _ hm
    exact includesOf?_document T o (fsOf docs) f segs fuel st1
      (by rw [readFile_fsOf, hseg]; rfl) hdefs hrepl hinit hst hok hf
  refine ⟨h1, ?_⟩
  unfold includesOf docIncludes
  cases hseg : docOf docs f with
  | some segs => rw [h1 segs hseg]; rfl
  | none =>
    have : readFile (fsOf docs) f = none := by rw [readFile_fsOf, hseg]; rfl
    simp [includesOf?, this]

theorem docIncludes_hasFile (skip : Str → Bool) (docs : Docs) (roots : List Str)
    (hclosed : closedOk skip docs roots = true) (f g : Str) (hg : g ∈ docIncludes docs f)
    (hs : skip g = false) : hasFile docs g = true := by
  unfold docIncludes at hg
  cases hseg : docOf docs f with
  | none => simp [hseg] at hg
  | some segs =>
    simp only [hseg] at hg
    have hm := docOf_mem docs f segs hseg
    simp only [closedOk, Bool.and_eq_true, List.all_eq_true, Bool.or_eq_true] at hclosed
    rcases hclosed.2 _ hm g hg with h | h
    · rw [hs] at h; exact absurd h (by simp)
    · exact h

theorem mem_keys_of_hasFile (docs : Docs) (g : Str) (h : hasFile docs g = true) :
    g ∈ docs.map (·.1) := by
  simp only [hasFile, List.any_eq_true, beq_iff_eq] at h
  obtain ⟨d, hd, rfl⟩ := h
  exact List.mem_map.mpr ⟨d, hd, rfl⟩

/-- **(C) the work list of `--include` on a file system of documents** (see the file header) -/
theorem include_system (T : PTables) (o : Options) (docs : Docs) (roots : List Str)
    (skip : Str → Bool) (fuel n : Nat) (st1 : PState)
    (hdefs : o.defs = []) (hrepl : o.hasRepl = false)
    (hinit : initParser T fuel (inclOpts o) (initialState T (inclOpts o) false (fsOf docs)) = .ok ((), st1))
    (hst : PlainExtract.stateOk T (initExtractions T st1 inclList) = true)
    (hdocs : docsOk T (initExtractions T st1 inclList) fuel docs = true)
    (hclosed : closedOk skip docs roots = true)
    (hn : roots.length + docs.length ≤ n) :
    ∃ out, includeLoop (includesOf T fuel o (fsOf docs)) skip n roots [] = some out ∧
      (∀ f ∈ out, ∃ segs, docOf docs f = some segs ∧
        includesOf? T fuel o (fsOf docs) f = some (inclNames segs)) ∧
      out.Nodup ∧ (∀ f ∈ out, skip f = false) ∧
      (∀ f, f ∈ out ↔ ReachNS (docIncludes docs) skip roots f) ∧
      out = firstNew skip [] (roots ++ out.flatMap (docIncludes docs)) ∧
      Causal (docIncludes docs) roots out := by
  have hfun : includesOf T fuel o (fsOf docs) = docIncludes docs :=
    funext (fun f => (includesOf_docs T o docs fuel st1 hdefs hrepl hinit hst hdocs f).2)
  rw [hfun]
  have hU : ∀ f g, g ∈ docIncludes docs f → skip g = false → g ∈ docs.map (·.1) :=
    fun f g hg hs => mem_keys_of_hasFile docs g (docIncludes_hasFile skip docs roots hclosed f g hg hs)
  obtain ⟨out, h, hnd, hreach, hord, hcaus⟩ := includeLoop_bfs (docIncludes docs) skip (docs.map (·.1))
    roots hU n (by simpa using hn)
  have hskip := (includeLoop_nodup (docIncludes docs) skip n roots [] out List.nodup_nil (by simp) h).2.1
  refine ⟨out, h, ?_, hnd, hskip, hreach, hord, hcaus⟩
  intro f hf
  have hr := (hreach f).mp hf
  have hfile : hasFile docs f = true := by
    cases hr with
    | root r hr hs =>
      simp only [closedOk, Bool.and_eq_true, List.all_eq_true, Bool.or_eq_true] at hclosed
      rcases hclosed.1 f hr with h' | h'
      · rw [hs] at h'; exact absurd h' (by simp)
      · exact h'
    | step f' g _ hg hs => exact docIncludes_hasFile skip docs roots hclosed f' f hg hs
  obtain ⟨segs, hseg⟩ := docOf_of_hasFile docs f hfile
  exact ⟨segs, hseg, (includesOf_docs T o docs fuel st1 hdefs hrepl hinit hst hdocs f).1 segs hseg⟩

end SystemInclude
end Yalafi
