/-
  Proofs/PlainDispRowsE2E.lean — C11 for the row / section structure of displayed equations: the
  scanner on whole documents, the lifts through `parserWork`, `parse`, `tex2txt`, the end-to-end
  theorem `tex2txt_display_rows` and what its reference output says.
  (Documents, side conditions, reference output, header with all explanations:
  Proofs/PlainDispRows.lean; token level: Proofs/PlainDispRowsTok.lean.)
-/
import YalafiVerif.Proofs.PlainDispRows
namespace Yalafi
namespace PlainDispRows

open M
open PlainMath (rotN VisibleRepls hasNl_single placeholder punctOf leadBlanks)
open PlainDisplay (openAt closeAt sOpen sClose nextToken_open nextToken_close okAtD textOkD defEnvOk
  equEnvAt endSrc firstTokTxtD okAtD_snd firstTokTxtD_of_text getTxtPos_action_cons elemChar elemOff
  OpenTok CloseTok)
open PlainMacro (lbr rbr braceAt nextToken_brace scanSteps_step)
open PlainItem (begTok endTok NameToks nBegin nEnd nextToken_begin nextToken_end nameToks_of_bodyRun)

/-! ### the scanner on a well-formed source -/

theorem Run.step {T : Tables} {src : Str} {fuel pos : Nat} {s1 s2 R : Str} {st2 : List ScanStep}
    (step : ScanStep) (hn : nextToken T src pos (s1 ++ (s2 ++ R)) = step) (hl : step.len = s1.length)
    (hs : s1 ≠ []) (hd : step.diag = none) (he : step.extra = []) (hf : 1 ≤ fuel)
    (h2 : Run T src (fuel - 1) (pos + s1.length) s2 R st2) :
    Run T src fuel pos (s1 ++ s2) R (step :: st2) :=
  Run.append (st1 := [step]) (Run.one step hn hl hs hd he hf) h2

/-- what the scanner loop yields on a well-formed source -/
structure ScanFacts (T : PTables) (st : PState) (ls : LangSettings) (d : Str) (repls : List Str)
    (rest : Str) (items : List Item) (steps : List ScanStep) : Prop where
  ok : ∀ s ∈ steps, s.diag = none ∧ s.extra = []
  pieces : ∃ ps, steps.map (·.tok) = flat ps ∧ PiecesOk T st ps ∧
    (∀ k, getTxtPos (outD T st.mathOperators ls.opText d (rotN k repls) ps)
        = ((refItems T st.mathOperators ls repls k items).map (·.1),
           (refItems T st.mathOperators ls repls k items).map (·.2))) ∧
    cost ps ≤ rest.length
  first : ∀ s ss, steps = s :: ss → s.tok.txt = firstTokTxtD rest
  len : steps.length ≤ rest.length

structure EnvFacts (T : PTables) (st : PState) (name : Str) (b : Rows) (R : Str) : Prop where
  nea : noEmptyActive T st = true
  special : matchSpecial T.toTables ('\\' :: (nBegin ++ '{' :: (name ++ '}' :: (rowsSrc b ++ endSrc name R)))) = none
  noverb : startsWith ('{' :: (name ++ '}' :: (rowsSrc b ++ endSrc name R))) sVerbatimArg = false
  b1 : braceAt T '{' (name ++ '}' :: (rowsSrc b ++ endSrc name R)) = true
  ne : name ≠ []
  inert : ∀ c ∈ name, inertChar T st c = true
  b2 : braceAt T '}' (rowsSrc b ++ endSrc name R) = true
  env : equEnvAt st name = true
  rows : rowsOk T b ('\\' :: (nEnd ++ '{' :: (name ++ '}' :: R))) = true
  vis : eqnVis T st.mathOperators b = true
  special2 : matchSpecial T.toTables ('\\' :: (nEnd ++ '{' :: (name ++ '}' :: R))) = none
  b3 : braceAt T '{' (name ++ '}' :: R) = true
  b4 : braceAt T '}' R = true
  n1 : name ≠ "$".toList
  n2 : name ≠ "\\(".toList

theorem envFacts {T : PTables} {st : PState} {name : Str} {b : Rows} {R : Str}
    (h : envOk T st name b R = true) : EnvFacts T st name b R := by
  simp only [envOk, Bool.and_eq_true, Bool.not_eq_true', Option.isNone_iff_eq_none,
    List.all_eq_true] at h
  obtain ⟨⟨⟨⟨⟨⟨⟨⟨⟨⟨⟨⟨h0, h1⟩, h2⟩, h3⟩, h4⟩, h5⟩, h6⟩, h7⟩, h8⟩, h9⟩, h11⟩, h12⟩, h13⟩ := h
  have hne : name ≠ [] := by simpa using h4
  refine ⟨h0, h1, h2, h3, hne, h5, h6, h7, h8, h9, h11, h12, h13, ?_, ?_⟩
  · intro e
    have := h5 '$' (by rw [e]; simp)
    simp [inertChar, structuralChar, isSpace] at this
  · intro e
    have := h5 '\\' (by rw [e]; simp)
    simp [inertChar, structuralChar, isSpace] at this

theorem run_scan {T : Tables} {src : Str} {fuel pos : Nat} {s R : Str} {steps : List ScanStep}
    (h : Run T src fuel pos s R steps) :
    scanSteps T src fuel pos (s ++ R)
      = (steps ++ (scanSteps T src (fuel - steps.length) (pos + s.length) R).1,
         (scanSteps T src (fuel - steps.length) (pos + s.length) R).2) := h.2.2

theorem scanSteps_doc (T : PTables) (st : PState) (ls : LangSettings) (d : Str) (repls : List Str)
    (hd : ls.opDefault = some d) (hne : repls ≠ []) (src : Str) :
    ∀ (n fuel pos : Nat) (rest : Str) (items : List Item),
    rest.length ≤ n → rest.length ≤ fuel → OkSrc T st pos rest items →
    (scanSteps T.toTables src fuel pos rest).2 = true ∧
    ScanFacts T st ls d repls rest items (scanSteps T.toTables src fuel pos rest).1 := by
  intro n
  induction n with
  | zero =>
    intro fuel pos rest items hn _ hok
    cases rest with
    | nil =>
      cases hok
      exact ⟨by simp [scanSteps], by simp [scanSteps], ⟨[], by simp [scanSteps, flat], trivial,
        fun k => rfl, by simp [cost]⟩, by simp [scanSteps], by simp [scanSteps]⟩
    | cons c cs => simp at hn
  | succ n ih =>
    intro fuel pos rest items hn hf hok
    cases rest with
    | nil =>
      cases hok
      exact ⟨by simp [scanSteps], by simp [scanSteps], ⟨[], by simp [scanSteps, flat], trivial,
        fun k => rfl, by simp [cost]⟩, by simp [scanSteps], by simp [scanSteps]⟩
    | cons c cs =>
      have hok0 := hok
      cases hok with
      | chr _ _ _ items' hat hsub0 =>
        obtain ⟨fuel, rfl⟩ : ∃ f, fuel = f + 1 := ⟨fuel - 1, by simp at hf; omega⟩
        have hsnd := okAtD_snd hat
        obtain ⟨hp, hone⟩ := nextToken_text T src pos c cs hsnd
        generalize hs : nextToken T.toTables src pos (c :: cs) = s at hp hone
        have h1 := hp.len_pos
        have h2 := hp.len_le
        have hsub : ∃ items1, Item.chr c pos :: items' = chrItems pos ((c :: cs).take s.len) ++ items1 ∧
            OkSrc T st (pos + s.len) ((c :: cs).drop s.len) items1 := by
          by_cases hsp : isSpace c = true
          · refine OkSrc_drop_space T st s.len pos (c :: cs) _ h2 hok0 ?_
            intro x hx
            rw [← hp.txt, hp.first] at hx
            simp only [firstTokTxt, hsp, if_true] at hx
            exact mem_takeWhile_imp _ _ _ hx
          · have := (hone (by simpa using hsp)).1
            rw [this]
            exact ⟨items', rfl, hsub0⟩
        obtain ⟨items1, hitems1, hsub⟩ := hsub
        simp only [scanSteps, hs]
        rw [if_neg (by simp; omega)]
        have hl : ((c :: cs).drop s.len).length ≤ fuel := by
          simp only [List.length_drop]; simp only [List.length_cons] at hf h2 ⊢; omega
        have hl' : ((c :: cs).drop s.len).length ≤ n := by
          simp only [List.length_drop]; simp only [List.length_cons] at hn h2 ⊢; omega
        obtain ⟨i1, I⟩ := ih fuel (pos + s.len) ((c :: cs).drop s.len) items1 hl' hl hsub
        obtain ⟨ps', hflat, hpok, hout, hcost⟩ := I.pieces
        refine ⟨i1, ?_, ?_, ?_, ?_⟩
        · intro x hx
          rcases List.mem_cons.mp hx with rfl | hx
          · exact ⟨hp.diag, hp.extra⟩
          · exact I.ok x hx
        · refine ⟨.tok s.tok :: ps', by simp [flat, Piece.toks, hflat], ⟨hp.tok, ?_, ?_, hpok⟩, ?_, ?_⟩
          · -- the short-macro branch
            rw [← hflat]
            have hact := hat
            simp only [okAtD, Bool.and_eq_true, Bool.or_eq_true, Bool.not_eq_true'] at hact
            rcases hact.1 with hna | ⟨hns, hk⟩
            · left
              have : s.tok.txt = c :: (cs.take (s.len - 1)) := by
                rw [hp.txt]
                obtain ⟨k, hk⟩ : ∃ k, s.len = k + 1 := ⟨s.len - 1, by omega⟩
                rw [hk]; simp
              rw [this]
              exact not_active_cons T st c _ hna
            · right
              have hlen := (hone hns).1
              have htxt : s.tok.txt = [c] := by rw [hp.txt, hlen]; rfl
              have i4 := I.first
              rw [hlen] at i4 ⊢
              simp only [List.drop_succ_cons, List.drop_zero] at i4 ⊢
              cases hr : (scanSteps T.toTables src fuel (pos + 1) cs).1 with
              | nil => rfl
              | cons s2 ss =>
                simp only [List.map_cons]
                apply expandShortMacro_none
                rw [htxt, i4 s2 ss hr]
                rcases hk with hk | hk
                · cases cs with
                  | nil => cases fuel <;> simp [scanSteps] at hr
                  | cons => simp at hk
                · simpa using hk
          · -- the shape of the token
            refine ⟨?_, ?_⟩
            · rw [hp.txt]
              intro h0
              have := congrArg List.length h0
              simp only [List.length_take, List.length_nil] at this
              omega
            · by_cases hsp : isSpace c = true
              · right
                refine ⟨?_, ?_⟩
                · have hs' : s = scanSpace pos (c :: cs) := by
                    rw [← hs]; simp [nextToken, hsp]
                  rw [hs']
                  simp only [scanSpace]; split
                  · exact Or.inl rfl
                  · exact Or.inr rfl
                · rw [hp.first]
                  simp only [firstTokTxt, hsp, if_true, isBlank, List.all_eq_true]
                  exact fun x hx => mem_takeWhile_imp _ _ _ hx
              · left
                have hsp' : isSpace c = false := by simpa using hsp
                have := hone hsp'
                refine ⟨this.2, ?_⟩
                rw [hp.txt, this.1]
                exact hasNl_single c hsp'
          · intro k
            rw [hitems1, refItems_chrItems]
            simp only [outD]
            rw [getTxtPos_cons_plain _ _ hp.fix, hout k, hp.pos, hp.txt]
            simp only [List.map_append, posText_fst, posText_snd]
          · simp only [cost, List.length_drop, List.length_cons] at hcost h2 ⊢
            omega
        · intro s' ss' he
          simp only [List.cons.injEq] at he
          rw [← he.1, hp.first]
          refine (firstTokTxtD_of_text c cs ?_).symm
          rcases hsnd with h | h
          · exact Or.inl h
          · exact Or.inr h.1
        · have := I.len
          simp only [List.length_cons, List.length_drop] at this h2 ⊢
          omega
      | disp _ b R items' hm hsub =>
        simp only [dispOk, Bool.and_eq_true] at hm
        obtain ⟨⟨⟨⟨hdef, hopen⟩, hrows⟩, hvis⟩, hclose⟩ := hm
        have hsrc : '\\' :: '[' :: (rowsSrc b ++ '\\' :: ']' :: R)
            = (['\\', '['] ++ (rowsSrc b ++ ['\\', ']'])) ++ R := by simp
        rw [hsrc] at hf hn ⊢
        simp only [List.length_append, List.length_cons, List.length_nil] at hf hn
        obtain ⟨k2, hk2, hn2⟩ := nextToken_close T src (pos + 2 + (rowsSrc b).length) R hclose
        obtain ⟨st2, tr, hcorr, htoks, hcost2, hheads, hrun2⟩ := scanSteps_rows T src (']' :: R) b (pos + 2)
          (fuel - 1) (by omega) hrows
        have hl2 := hrun2.1
        have hrun3 : Run T.toTables src (fuel - 1 - st2.length) (pos + 2 + (rowsSrc b).length) ['\\', ']'] R
            [{ tok := { kind := k2, pos := pos + 2 + (rowsSrc b).length, txt := sClose }, len := 2 }] :=
          Run.one _ hn2 rfl (by simp) rfl rfl (by omega)
        have hrun : Run T.toTables src fuel pos (['\\', '['] ++ (rowsSrc b ++ ['\\', ']'])) R
            ({ tok := { kind := .special, pos := pos, txt := sOpen }, len := 2 } ::
              (st2 ++ [{ tok := { kind := k2, pos := pos + 2 + (rowsSrc b).length, txt := sClose }, len := 2 }])) := by
          refine Run.step _ ?_ rfl (by simp) rfl rfl (by omega) (Run.append ?_ hrun3)
          · simpa using nextToken_open T src pos (rowsSrc b ++ '\\' :: ']' :: R) hopen
          · simpa using hrun2
        rw [run_scan hrun]
        generalize hst : ({ tok := { kind := Kind.special, pos := pos, txt := sOpen }, len := 2 } ::
              (st2 ++ [{ tok := { kind := k2, pos := pos + 2 + (rowsSrc b).length, txt := sClose }, len := 2 }])
              : List ScanStep) = steps at hrun ⊢
        have hlen := hrun.1
        simp only [List.length_append, List.length_cons, List.length_nil] at hlen
        have hpos2 : pos + (['\\', '['] ++ (rowsSrc b ++ ['\\', ']'])).length
            = pos + ((rowsSrc b).length + 4) := by simp
        rw [hpos2]
        clear hpos2
        obtain ⟨i1, I⟩ := ih (fuel - steps.length) (pos + ((rowsSrc b).length + 4)) R items' (by omega)
          (by omega) hsub
        obtain ⟨ps', hflat, hpok, hout, hcost⟩ := I.pieces
        refine ⟨i1, ?_, ?_, ?_, ?_⟩
        · intro x hx
          rcases List.mem_append.mp hx with hx | hx
          · exact hrun.2.1 x hx
          · exact I.ok x hx
        · refine ⟨.disp { kind := .special, pos := pos, txt := sOpen } tr
              { kind := k2, pos := pos + 2 + (rowsSrc b).length, txt := sClose } :: ps', ?_, ?_, ?_, ?_⟩
          · rw [List.map_append, hflat, ← hst]
            simp [flat, Piece.toks, htoks]
          · exact ⟨hdef, ⟨rfl, rfl⟩, hcorr.ok hheads, eqnVis_corr T _ _ b tr hcorr hvis, ⟨hk2, rfl⟩, hpok⟩
          · intro k
            simp only [outD, refItems]
            obtain ⟨g1, g2⟩ := getTxtPos_eqnToks T st.mathOperators ls d repls hd hne k pos 2 b tr hcorr
              (outD T st.mathOperators ls.opText d
                (eqnNew T st.mathOperators ls.opText d (rotN k repls) pos tr).2.r ps')
            rw [g1, g2, hout]
            simp only [List.map_append]
          · simp only [cost, List.length_append, List.length_cons, List.length_nil]
            omega
        · intro s' ss' he
          rw [← hst] at he
          simp only [List.cons_append, List.cons.injEq] at he
          rw [← he.1]
          simp [firstTokTxtD, sOpen, startsWith]
        · have := I.len
          simp only [List.length_append, List.length_cons, List.length_nil]
          omega
      | env _ name b R items' hm hsub =>
        have D := envFacts hm
        have hname := List.length_pos_iff.mpr D.ne
        have hsrc : '\\' :: (nBegin ++ '{' :: (name ++ '}' :: (rowsSrc b ++ endSrc name R)))
            = (('\\' :: nBegin) ++ (['{'] ++ (name ++ (['}'] ++ (rowsSrc b ++ (('\\' :: nEnd) ++
                (['{'] ++ (name ++ ['}'])))))))) ++ R := by
          simp [endSrc]
        have hlenP : (('\\' :: nBegin) ++ (['{'] ++ (name ++ (['}'] ++ (rowsSrc b ++ (('\\' :: nEnd) ++
                (['{'] ++ (name ++ ['}'])))))))).length = 2 * name.length + (rowsSrc b).length + 14 := by
          simp [nBegin, nEnd]; omega
        rw [hsrc] at hf hn ⊢
        rw [List.length_append, hlenP] at hf hn
        -- the single steps
        have hn1 := nextToken_begin T src pos _ D.special D.noverb
        have hn2 := nextToken_brace T src (pos + 6) '{' _ (Or.inl rfl) D.b1
        obtain ⟨s1, B1, hrun1⟩ := PlainMacro.scanSteps_body T st src (rowsSrc b ++ endSrc name R) name.length
          name (pos + 6 + 1) (fuel - 1 - 1) (Nat.le_refl _) (by omega) D.inert
        have hB1 := B1.len
        have hn3 := nextToken_brace T src (pos + 6 + 1 + name.length) '}' _ (Or.inr rfl) D.b2
        obtain ⟨st2, tr, hcorr, htoks, hcost2, hheads, hrun2⟩ := scanSteps_rows T src
          (nEnd ++ '{' :: (name ++ '}' :: R)) b (pos + 6 + 1 + name.length + 1) (fuel - 1 - 1 - s1.length - 1)
          (by omega) D.rows
        have hl2 := hrun2.1
        have hn4 := nextToken_end T src (pos + 6 + 1 + name.length + 1 + (rowsSrc b).length) _ D.special2
        have hn5 := nextToken_brace T src (pos + 6 + 1 + name.length + 1 + (rowsSrc b).length + 4) '{' _
          (Or.inl rfl) D.b3
        obtain ⟨s2, B2, hrunN2⟩ := PlainMacro.scanSteps_body T st src R name.length name
          (pos + 6 + 1 + name.length + 1 + (rowsSrc b).length + 4 + 1)
          (fuel - 1 - 1 - s1.length - 1 - st2.length - 1 - 1) (Nat.le_refl _) (by omega) D.inert
        have hB2 := B2.len
        have hn6 := nextToken_brace T src
          (pos + 6 + 1 + name.length + 1 + (rowsSrc b).length + 4 + 1 + name.length) '}' R (Or.inr rfl) D.b4
        -- the runs, from the end
        have rI : Run T.toTables src (fuel - 1 - 1 - s1.length - 1 - st2.length - 1 - 1 - s2.length)
            (pos + 6 + 1 + name.length + 1 + (rowsSrc b).length + 4 + 1 + name.length) ['}'] R
            [{ tok := { kind := .special,
                        pos := pos + 6 + 1 + name.length + 1 + (rowsSrc b).length + 4 + 1 + name.length,
                        txt := ['}'] }, len := 1 }] :=
          Run.one _ hn6 rfl (by simp) rfl rfl (by omega)
        have rH : Run T.toTables src (fuel - 1 - 1 - s1.length - 1 - st2.length - 1 - 1)
            (pos + 6 + 1 + name.length + 1 + (rowsSrc b).length + 4 + 1) name (['}'] ++ R) s2 :=
          ⟨B2.len, fun x hx => ⟨(B2.ok x hx).1, (B2.ok x hx).2.1⟩, hrunN2⟩
        have rHI := Run.append rH rI
        have rG := Run.step (T := T.toTables) (src := src)
          (fuel := fuel - 1 - 1 - s1.length - 1 - st2.length - 1)
          (pos := pos + 6 + 1 + name.length + 1 + (rowsSrc b).length + 4) (s1 := ['{'])
          _ (by simpa using hn5) rfl (by simp) rfl rfl (by omega) rHI
        have rF := Run.step (T := T.toTables) (src := src)
          (fuel := fuel - 1 - 1 - s1.length - 1 - st2.length)
          (pos := pos + 6 + 1 + name.length + 1 + (rowsSrc b).length) (s1 := '\\' :: nEnd)
          _ (by simpa using hn4) rfl (by simp) rfl rfl (by omega) rG
        have rE : Run T.toTables src (fuel - 1 - 1 - s1.length - 1) (pos + 6 + 1 + name.length + 1) (rowsSrc b)
            ((('\\' :: nEnd) ++ (['{'] ++ (name ++ ['}']))) ++ R) st2 := by
          simpa using hrun2
        have rEF := Run.append rE rF
        have rD := Run.step (T := T.toTables) (src := src)
          (fuel := fuel - 1 - 1 - s1.length) (pos := pos + 6 + 1 + name.length) (s1 := ['}'])
          _ (by simpa [endSrc] using hn3) rfl (by simp) rfl rfl (by omega) rEF
        have rC : Run T.toTables src (fuel - 1 - 1) (pos + 6 + 1) name
            ((['}'] ++ (rowsSrc b ++ (('\\' :: nEnd) ++ (['{'] ++ (name ++ ['}']))))) ++ R) s1 :=
          ⟨B1.len, fun x hx => ⟨(B1.ok x hx).1, (B1.ok x hx).2.1⟩, by simpa [endSrc] using hrun1⟩
        have rCD := Run.append rC rD
        have rB := Run.step (T := T.toTables) (src := src) (fuel := fuel - 1) (pos := pos + 6) (s1 := ['{'])
          _ (by simpa [endSrc] using hn2) rfl (by simp) rfl rfl (by omega) rCD
        have rA := Run.step (T := T.toTables) (src := src) (fuel := fuel) (pos := pos) (s1 := '\\' :: nBegin)
          _ (by simpa [endSrc] using hn1) rfl (by simp) rfl rfl (by omega) rB
        rw [run_scan rA, hlenP]
        generalize hst : ({ tok := begTok pos, len := 6 } :: _ : List ScanStep) = steps at rA ⊢
        have hlen := rA.1
        rw [hlenP] at hlen
        obtain ⟨i1, I⟩ := ih (fuel - steps.length) (pos + (2 * name.length + (rowsSrc b).length + 14)) R items'
          (by omega) (by omega) hsub
        obtain ⟨ps', hflat, hpok, hout, hcost⟩ := I.pieces
        have hbt1 : PlainMacro.bodyTxt (s1.map (·.tok)) = name := B1.txt
        have hbt2 : PlainMacro.bodyTxt (s2.map (·.tok)) = name := B2.txt
        have hcorr' : RowsCorr T (pos + (name.length + 8)) b tr := by
          rw [show pos + (name.length + 8) = pos + 6 + 1 + name.length + 1 by omega]; exact hcorr
        refine ⟨i1, ?_, ?_, ?_, ?_⟩
        · intro x hx
          rcases List.mem_append.mp hx with hx | hx
          · exact rA.2.1 x hx
          · exact I.ok x hx
        · refine ⟨.env pos (pos + 6) (pos + 6 + 1 + name.length) (s1.map (·.tok)) tr
              (pos + 6 + 1 + name.length + 1 + (rowsSrc b).length)
              (pos + 6 + 1 + name.length + 1 + (rowsSrc b).length + 4)
              (pos + 6 + 1 + name.length + 1 + (rowsSrc b).length + 4 + 1 + name.length) (s2.map (·.tok)) :: ps',
              ?_, ?_, ?_, ?_⟩
          · rw [List.map_append, hflat, ← hst]
            simp [flat, Piece.toks, htoks, lbr, rbr]
          · refine ⟨D.nea, nameToks_of_bodyRun B1 D.ne, nameToks_of_bodyRun B2 D.ne, by rw [hbt1, hbt2],
              by rw [hbt1]; exact D.env, by rw [hbt1]; exact D.n1, by rw [hbt1]; exact D.n2,
              hcorr.ok hheads, eqnVis_corr T _ _ b tr hcorr D.vis, hpok⟩
          · intro k
            simp only [outD, refItems]
            obtain ⟨g1, g2⟩ := getTxtPos_eqnToks T st.mathOperators ls d repls hd hne k pos (name.length + 8)
              b tr hcorr'
              (outD T st.mathOperators ls.opText d
                (eqnNew T st.mathOperators ls.opText d (rotN k repls) pos tr).2.r ps')
            rw [getTxtPos_action_cons, getTxtPos_action_cons, g1, g2, hout]
            simp only [List.map_append]
          · rw [List.length_append, hlenP]
            simp only [cost, List.length_map]
            omega
        · intro s' ss' he
          rw [← hst] at he
          simp only [List.cons_append, List.cons.injEq] at he
          rw [← he.1]
          have htw : (nBegin ++ '{' :: (name ++ '}' :: (rowsSrc b ++ endSrc name R))).takeWhile macroChar
              = nBegin := takeWhile_append_stop _ _ _ (by decide) rfl
          simp [firstTokTxtD, sOpen, startsWith, nBegin, firstTokTxtM, begTok,
            show sBegin = ['\\', 'b', 'e', 'g', 'i', 'n'] from rfl, macroChar, isSpace]
        · have := I.len
          rw [List.length_append, List.length_append, hlenP]
          omega

theorem rowBuf_notComment {T : PTables} {r : RowT} (h : RowOk T r) :
    ∀ t ∈ rowBuf r, t.kind ≠ .comment := by
  intro t ht
  have hitem : ∀ u : Tok, SItem T u → u.kind ≠ .comment := by
    intro u hu
    rcases hu with k | k
    · rw [k.body.kind]; simp
    · rw [k.1]; simp
  simp only [rowBuf, moreBuf, List.mem_append, List.mem_flatMap, List.mem_cons] at ht
  rcases ht with ht | ⟨x, hx, rfl | ht⟩
  · exact hitem t (h.1 t ht)
  · rw [(h.2 x hx).1.kind]; simp
  · exact hitem t ((h.2 x hx).2 t ht)

theorem rowsBuf_notComment {T : PTables} {tr : RowsT} (h : RowsOk T tr) :
    ∀ t ∈ rowsBuf tr, t.kind ≠ .comment := by
  intro t ht
  simp only [rowsBuf, moreRowsBuf, List.mem_append, List.mem_flatMap, List.mem_cons] at ht
  rcases ht with ht | ⟨x, hx, rfl | ht⟩
  · exact rowBuf_notComment h.1 t ht
  · rw [(h.2 x hx).1.kind]; simp
  · exact rowBuf_notComment (h.2 x hx).2.1 t ht

theorem PiecesOk.notComment {T : PTables} {st : PState} : ∀ {ps : List Piece}, PiecesOk T st ps →
    ∀ t ∈ flat ps, t.kind ≠ .comment
  | [], _, _, h => by simp [flat] at h
  | .tok t :: rest, hok, x, hx => by
    simp only [flat, Piece.toks, List.singleton_append, List.mem_cons] at hx
    rcases hx with rfl | hx
    · exact hok.1.notComment
    · exact PiecesOk.notComment hok.2.2.2 x hx
  | .disp d1 tr d2 :: rest, hok, x, hx => by
    obtain ⟨_, h1, htr, _, h2, hrest⟩ := hok
    simp only [flat, Piece.toks, List.cons_append, List.append_assoc, List.mem_cons,
      List.mem_append, List.nil_append] at hx
    rcases hx with rfl | hx | rfl | hx
    · rw [h1.kind]; simp
    · exact rowsBuf_notComment htr x hx
    · rcases h2.kind with k | k | k <;> simp [k]
    · exact PiecesOk.notComment hrest x hx
  | .env p q1 q2 nt tr p' q1' q2' nt' :: rest, hok, x, hx => by
    obtain ⟨_, h1, h2, _, _, _, _, htr, _, hrest⟩ := hok
    simp only [flat, Piece.toks, List.cons_append, List.append_assoc, List.mem_cons,
      List.mem_append, List.nil_append] at hx
    rcases hx with rfl | rfl | hx | rfl | hx | rfl | rfl | hx | rfl | hx
    · simp [begTok]
    · simp [lbr]
    · exact (h1.2 x hx).1.notComment
    · simp [rbr]
    · exact rowsBuf_notComment htr x hx
    · simp [endTok]
    · simp [lbr]
    · exact (h2.2 x hx).1.notComment
    · simp [rbr]
    · exact PiecesOk.notComment hrest x hx

/-- `scan` on a well-formed source: no diagnostics; the token buffer consists of plain tokens and
    equations; what the expander loop emits for it spells the reference output -/
theorem scan_doc (T : PTables) (st : PState) (ls : LangSettings) (d : Str) (repls : List Str)
    (hd : ls.opDefault = some d) (hne : repls ≠ []) (src : Str) (items : List Item)
    (h : OkSrc T st 0 src items) :
    (scan T.toTables src).diags = [] ∧
    ∃ ps, (scan T.toTables src).toks = flat ps ∧ PiecesOk T st ps ∧
      (∀ k, getTxtPos (outD T st.mathOperators ls.opText d (rotN k repls) ps)
          = ((refItems T st.mathOperators ls repls k items).map (·.1),
             (refItems T st.mathOperators ls repls k items).map (·.2))) ∧
      cost ps ≤ src.length := by
  obtain ⟨_, F⟩ := scanSteps_doc T st ls d repls hd hne src src.length src.length 0 src items
    (Nat.le_refl _) (Nat.le_refl _) h
  have he := flatten_tok_extra (scanSteps T.toTables src src.length 0 src).1 (fun s hs => (F.ok s hs).2)
  have hdg := flatten_diag_nil (scanSteps T.toTables src src.length 0 src).1 (fun s hs => (F.ok s hs).1)
  obtain ⟨ps, h1, h2, h3, h5⟩ := F.pieces
  simp only [scan]
  rw [he, hdg]
  exact ⟨rfl, ps, h1, h2, h3, h5⟩

/-! ### `parserWork`, `parse`, `tex2txt` -/

/-- **C11 (rows and sections) on `parserWork`.** -/
theorem parserWork_rows (T : PTables) (st : PState) (src : Str) (fuel : Nat) (items : List Item)
    (rot : Rot) (ls : LangSettings) (d : Str)
    (hf : src.length + 2 ≤ fuel) (h : OkSrc T st 0 src items) (hst : st.displayedSimple = false)
    (hrot : rotOf st (curSettings st) = some rot) (hne : rot.disp ≠ []) (hvis : VisibleRepls rot.disp)
    (hls : settingsOf T (curSettings st) = some ls) (hd : ls.opDefault = some d)
    (hw : VisWords ls.opText d) :
    ∃ toks rots', parserWork T fuel src st = .ok (toks, { st with rots := rots' }) ∧
      getTxtPos toks = ((refItems T st.mathOperators ls rot.disp 0 items).map (·.1),
                        (refItems T st.mathOperators ls rot.disp 0 items).map (·.2)) := by
  obtain ⟨f, rfl⟩ : ∃ f, fuel = f + 1 := ⟨fuel - 1, by omega⟩
  obtain ⟨hdg, ps, hflat, hpok, hout, hlen⟩ := scan_doc T st ls d rot.disp hd hne src items h
  have hpok' : PiecesOk T { st with latex := src, nest := st.nest + 1 } ps :=
    PiecesOk.congr (st := st) (st' := { st with latex := src, nest := st.nest + 1 }) rfl rfl rfl hpok
  obtain ⟨st', h1, h2, _⟩ := seq_rows T none ls d hd ps f []
    { st with latex := src, nest := st.nest + 1 } rot (by omega) hpok' hrot hne hls hst
  rw [List.nil_append, removeLines_outD T _ ls.opText d hw ps rot.disp hpok' hvis hne] at h1
  simp only [] at h1
  refine ⟨(outD T st.mathOperators ls.opText d rot.disp ps).filter keepOut, st'.rots, ?_, ?_⟩
  · rw [parserWork.eq_2]
    refine (M.bind_ok _ _ _ _ _ (rfl : M.get st = _)).trans ?_
    refine (M.bind_ok _ _ _ _ _ (rfl : M.modify _ _ = _)).trans ?_
    refine (M.bind_ok _ _ _ _ _ (rfl : M.modify _ _ = _)).trans ?_
    refine (M.bind_ok _ _ _ _ _ (rfl : M.get _ = _)).trans ?_
    simp only [hdg, List.append_nil]
    rw [skipPass_nocomment _ _ _ (fun t ht' => hpok.notComment t (by rw [← hflat]; exact ht'))]
    simp only []
    refine (M.bind_ok _ _ _ _ _ (rfl : (pure _ : M (List Tok)) _ = _)).trans ?_
    rw [hflat]
    refine (M.bind_ok _ _ _ _ _ h1).trans ?_
    refine (M.bind_ok _ _ _ _ _ (rfl : M.modify _ _ = _)).trans ?_
    show Outcome.ok _ = _
    rw [h2]
    simp only [Nat.add_sub_cancel]
  · rw [getTxtPos_filter_keepOut]
    exact hout 0

theorem parse_rows (T : PTables) (st : PState) (src : Str) (fuel : Nat) (items : List Item)
    (rot : Rot) (ls : LangSettings) (d : Str)
    (hf : src.length + 2 ≤ fuel) (h : OkSrc T st 0 src items) (hst : st.displayedSimple = false)
    (hrot : rotOf st (curSettings st) = some rot) (hne : rot.disp ≠ []) (hvis : VisibleRepls rot.disp)
    (hls : settingsOf T (curSettings st) = some ls) (hd : ls.opDefault = some d)
    (hw : VisWords ls.opText d) :
    ∃ toks rots', parse T fuel src [] [] st
        = .ok (toks, { st with extracted := [], unknowns := [], foreign := false, nest := 0,
                               rots := rots' }) ∧
      getTxtPos toks = ((refItems T st.mathOperators ls rot.disp 0 items).map (·.1),
                        (refItems T st.mathOperators ls rot.disp 0 items).map (·.2)) := by
  have h' : OkSrc T { st with extracted := [], unknowns := [], foreign := false, nest := 0 } 0 src items :=
    OkSrc.congr (st := st)
      (st' := { st with extracted := [], unknowns := [], foreign := false, nest := 0 }) rfl rfl rfl h
  obtain ⟨toks, rots', hw', ht⟩ := parserWork_rows T
    { st with extracted := [], unknowns := [], foreign := false, nest := 0 } src fuel items rot ls d hf h'
    hst hrot hne hvis hls hd hw
  refine ⟨toks, rots', ?_, ht⟩
  unfold parse
  simp only [List.isEmpty_nil, Bool.not_true, Bool.false_eq_true, if_false, if_true]
  refine (M.bind_ok _ _ _ _ _ (rfl : M.modify _ _ = _)).trans ?_
  refine (M.bind_ok _ _ _ _ _ (rfl : (pure _ : M (List Tok)) _ = _)).trans ?_
  refine (M.bind_ok _ _ _ _ _ (rfl : M.modify _ _ = _)).trans ?_
  refine (M.bind_ok _ _ _ _ _ hw').trans ?_
  refine (M.bind_ok _ _ _ _ _ (rfl : M.get _ = _)).trans ?_
  show Outcome.ok _ = _
  simp

/-- the result record of `tex2txt` on a well-formed source -/
theorem tex2txt_rows_src (T : PTables) (o : Options) (fs : FS) (thresh : Nat) (src : Str) (fuel : Nat)
    (st1 : PState) (items : List Item) (rot : Rot) (ls : LangSettings) (d : Str)
    (hdefs : o.defs = []) (hextr : o.extr = []) (hrepl : o.hasRepl = false) (hunkn : o.unkn = false)
    (hinit : initParser T fuel o (initialState T o false fs) = .ok ((), st1))
    (h : OkSrc T st1 0 src items) (hst : st1.displayedSimple = false)
    (hrot : rotOf st1 (curSettings st1) = some rot) (hne : rot.disp ≠ []) (hvis : VisibleRepls rot.disp)
    (hls : settingsOf T (curSettings st1) = some ls) (hd : ls.opDefault = some d)
    (hw : VisWords ls.opText d)
    (hf : src.length + 2 ≤ fuel) :
    ∃ toks, tex2txt T fuel src o false thresh fs
        = .ok { toks := toks, txt := (refItems T st1.mathOperators ls rot.disp 0 items).map (·.1),
                pos := ((refItems T st1.mathOperators ls rot.disp 0 items).map (·.2)).map (· + 1),
                parts := [], unknowns := [], diags := st1.diags, foreign := false } := by
  obtain ⟨toks, rots', hp, ht⟩ := parse_rows T st1 src fuel items rot ls d hf h hst hrot hne hvis hls hd hw
  refine ⟨toks, ?_⟩
  have hrun : (initParser T fuel o >>= fun _ => parse T fuel src o.defs
        (if o.extr.isEmpty then [] else (splitOn ',' o.extr []).map (fun s => '\\' :: s)))
        (initialState T o false fs)
      = .ok (toks, { st1 with extracted := [], unknowns := [], foreign := false, nest := 0,
                              rots := rots' }) := by
    refine (M.bind_ok _ _ _ _ _ hinit).trans ?_
    rw [hdefs, hextr]
    exact hp
  unfold tex2txt
  simp only []
  rw [hrun]
  simp only [hrepl, hunkn, Bool.not_false, if_true, Bool.false_eq_true, if_false, ht]

/-! ### the end-to-end theorem -/

/-- well-formedness of a document as a proposition -/
def SegsOk (T : PTables) (st : PState) (segs : List Seg) : Prop :=
  st.displayedSimple = false ∧ segsOk T st segs = true

instance (T : PTables) (st : PState) (segs : List Seg) : Decidable (SegsOk T st segs) := by
  unfold SegsOk; infer_instance

/-- the operator words of the language are visible one-line texts, computable -/
def visWords (ls : LangSettings) : Bool :=
  match ls.opDefault with
  | some d => !hasNl d && !isBlank d && ls.opText.all (fun x => !hasNl x.2 && !isBlank x.2)
  | none => false

theorem visWords_iff (ls : LangSettings) (h : visWords ls = true) :
    ∃ d, ls.opDefault = some d ∧ VisWords ls.opText d := by
  unfold visWords at h
  cases hd : ls.opDefault with
  | none => rw [hd] at h; cases h
  | some d =>
    rw [hd] at h
    simp only [Bool.and_eq_true, Bool.not_eq_true', List.all_eq_true] at h
    exact ⟨d, rfl, ⟨h.1.1, h.1.2⟩, fun x hx => ⟨(h.2 x hx).1, (h.2 x hx).2⟩⟩

/-- **C11 end to end, rows and sections.**  The document is a sequence of inert text segments and
    displayed equations `\[body\]` / `\begin{name}body\end{name}` whose body consists of rows
    (separated by `\\`) of sections (separated by `&`) of simple maths material (`SegsOk`); `st1` is
    the state after `Parser.__init__`; no `--defs`, `--extr`, `--repl`, `--unkn`, `--seqs`;
    single-language mode; `repls` is the display collection of the current language, not empty,
    every entry a visible one-line text; `ls` are the language settings, with visible operator
    words (`visWords`).  With one unit of fuel per source character plus two, `tex2txt` succeeds and

    * output text and position map are `refOut T st1.mathOperators ls repls 0 0 segs` (positions
      reported 1-based);
    * nothing is reported as unknown and no diagnostic is added. -/
theorem tex2txt_display_rows (T : PTables) (o : Options) (fs : FS) (thresh : Nat)
    (segs : List Seg) (fuel : Nat) (st1 : PState) (rot : Rot) (repls : List Str) (ls : LangSettings)
    (hdefs : o.defs = []) (hextr : o.extr = []) (hrepl : o.hasRepl = false) (hunkn : o.unkn = false)
    (hinit : initParser T fuel o (initialState T o false fs) = .ok ((), st1))
    (hok : SegsOk T st1 segs)
    (hrot : rotOf st1 (curSettings st1) = some rot) (hrepls : rot.disp = repls)
    (hne : repls ≠ []) (hvis : VisibleRepls repls)
    (hls : settingsOf T (curSettings st1) = some ls) (hw : visWords ls = true)
    (hf : (render segs).length + 2 ≤ fuel) :
    ∃ r, tex2txt T fuel (render segs) o false thresh fs = .ok r ∧
      r.txt = (refOut T st1.mathOperators ls repls 0 0 segs).map (·.1) ∧
      r.pos = (refOut T st1.mathOperators ls repls 0 0 segs).map (·.2 + 1) ∧
      r.unknowns = [] ∧ r.diags = st1.diags := by
  subst hrepls
  obtain ⟨d, hd, hvw⟩ := visWords_iff ls hw
  obtain ⟨toks, ht⟩ := tex2txt_rows_src T o fs thresh (render segs) fuel st1 (itemsOf 0 segs) rot ls d
    hdefs hextr hrepl hunkn hinit (OkSrc_of_segsOk T st1 segs 0 hok.2) hok.1 hrot hne hvis hls hd hvw hf
  rw [refItems_itemsOf] at ht
  refine ⟨_, ht, rfl, ?_, rfl, rfl⟩
  simp only [List.map_map]
  rfl

/-! ### what the reference output says -/

/-- the output text of the pieces -/
def txtOf (pcs : List (Str × Nat)) : Str := (spread pcs).map (·.1)

theorem txtOf_nil : txtOf [] = [] := rfl

theorem txtOf_cons (x : Str × Nat) (l : List (Str × Nat)) : txtOf (x :: l) = x.1 ++ txtOf l := by
  simp [txtOf, spread, Function.comp_def]

theorem txtOf_append (a b : List (Str × Nat)) : txtOf (a ++ b) = txtOf a ++ txtOf b := by
  simp [txtOf, spread]

theorem eqnOut_txt (T : PTables) (ops : List Str) (ls : LangSettings) (repls : List Str) (k p o : Nat)
    (b : Rows) : (eqnOut T ops ls repls k p o b).map (·.1) = txtOf (eqnRef T ops ls repls k p o b).1 := rfl

/-- (structure) an equation is two blanks followed by its rows; the rows are joined by line break
    and indentation, the sections of a row by one blank -/
theorem eqnRef_eq (T : PTables) (ops : List Str) (ls : LangSettings) (repls : List Str) (k p o : Nat)
    (b : Rows) :
    (eqnRef T ops ls repls k p o b).1
      = ([' ', ' '], p) :: (rowsRef T ops ls repls { nr := true, k := k, last := p } (p + o) b).1 := rfl

theorem moreRowsRef_cons (T : PTables) (ops : List Str) (ls : LangSettings) (repls : List Str)
    (σ : RefSt) (q : Nat) (r : Row) (m : List Row) :
    (moreRowsRef T ops ls repls σ q (r :: m)).1
      = ([nl, ' ', ' '], σ.last) :: (rowRef T ops ls repls σ (q + 2) r).1
          ++ (moreRowsRef T ops ls repls (rowRef T ops ls repls σ (q + 2) r).2
                (q + 2 + (rowSrc r).length) m).1 := rfl

theorem moreRef_cons (T : PTables) (ops : List Str) (ls : LangSettings) (repls : List Str)
    (σ : RefSt) (q : Nat) (s : Str) (more : List Str) :
    (moreRef T ops ls repls σ q (s :: more)).1
      = ([' '], σ.last) :: (secRef T ops ls repls false σ (q + 1) s).1
          ++ (moreRef T ops ls repls (secRef T ops ls repls false σ (q + 1) s).2 (q + 1 + s.length) more).1 :=
  rfl

theorem count_nl_of_hasNl {s : Str} (h : hasNl s = false) : s.count nl = 0 := by
  rw [List.count_eq_zero]
  intro hm
  simp [hasNl, hm] at h

theorem punctOf_count_nl (T : PTables) (s : Str) : (punctOf T s).count nl = 0 := by
  rw [List.count_eq_zero]
  intro hm
  unfold punctOf at hm
  cases hp : PlainMath.punctChar T (s.filter (fun c => !isSpace c)) with
  | none => rw [hp] at hm; simp at hm
  | some c =>
    rw [hp] at hm
    simp only [Option.toList_some, List.mem_singleton] at hm
    have hc := PlainMath.punctChar_mem T _ c hp
    have := (List.mem_filter.mp hc).2
    rw [← hm] at this
    exact absurd this (by decide)

theorem placeholder_vis (repls : List Str) (hv : VisibleRepls repls) (hne : repls ≠ []) (k : Nat) :
    hasNl (placeholder repls k) = false := by
  have hpos : 0 < repls.length := List.length_pos_iff.mpr hne
  have hm : k % repls.length < repls.length := Nat.mod_lt _ hpos
  have : placeholder repls k ∈ repls := by
    unfold placeholder
    rw [List.getD_eq_getElem?_getD, List.getElem?_eq_getElem hm]
    exact List.getElem_mem hm
  exact (hv _ this).1

theorem opW_vis (ls : LangSettings) (hw : visWords ls = true) (x : Str) : hasNl (opW ls x) = false := by
  obtain ⟨d, hd, hvw⟩ := visWords_iff ls hw
  unfold opW
  rw [hd]
  exact (opWord_vis hvw x).1

/-- a section generates no line break -/
theorem secRef_nl (T : PTables) (ops : List Str) (ls : LangSettings) (repls : List Str)
    (hv : VisibleRepls repls) (hne : repls ≠ []) (hw : visWords ls = true)
    (fs : Bool) (σ : RefSt) (q : Nat) (s : Str) :
    (txtOf (secRef T ops ls repls fs σ q s).1).count nl = 0 := by
  unfold secRef
  split
  · rfl
  · have h1 := count_nl_of_hasNl (opW_vis ls hw (leadChar s).toList)
    have h2 := fun k => count_nl_of_hasNl (placeholder_vis repls hv hne k)
    have h3 := punctOf_count_nl T s
    have hb : ([' '] : Str).count nl = 0 := by decide
    have e1 : ∀ (c : Bool) (f : Nat), (txtOf (if c = true then
        [([' '], f), (opW ls (leadChar s).toList, f), ([' '], f)] else [])).count nl = 0 := by
      intro c f
      cases c
      · rfl
      · simp only [if_true, txtOf_cons, txtOf_nil, List.count_append, h1, hb, List.append_nil]
    have e2 : ∀ (c : Bool) (k f : Nat), (txtOf (if c = true then
        [(placeholder repls k, f)] else [])).count nl = 0 := by
      intro c k f
      cases c
      · rfl
      · simp only [if_true, txtOf_cons, txtOf_nil, List.append_nil, h2]
    have e3 : ∀ f : Nat, (txtOf (if (punctOf T s).isEmpty = true then [] else
        [(punctOf T s, f)])).count nl = 0 := by
      intro f
      split
      · rfl
      · simp only [txtOf_cons, txtOf_nil, List.append_nil, h3]
    simp only [txtOf_append, List.count_append, e1, e2, e3]

theorem moreRef_nl (T : PTables) (ops : List Str) (ls : LangSettings) (repls : List Str)
    (hv : VisibleRepls repls) (hne : repls ≠ []) (hw : visWords ls = true) :
    ∀ (more : List Str) (σ : RefSt) (q : Nat),
      (txtOf (moreRef T ops ls repls σ q more).1).count nl = 0
  | [], _, _ => rfl
  | s :: more, σ, q => by
    rw [moreRef_cons, List.cons_append, txtOf_cons, txtOf_append, List.count_append, List.count_append,
      secRef_nl T ops ls repls hv hne hw, moreRef_nl T ops ls repls hv hne hw more]
    show List.count nl [' '] + (0 + 0) = 0
    decide

theorem rowRef_nl (T : PTables) (ops : List Str) (ls : LangSettings) (repls : List Str)
    (hv : VisibleRepls repls) (hne : repls ≠ []) (hw : visWords ls = true) (σ : RefSt) (q : Nat) (r : Row) :
    (txtOf (rowRef T ops ls repls σ q r).1).count nl = 0 := by
  simp only [rowRef, txtOf_append, List.count_append, secRef_nl T ops ls repls hv hne hw,
    moreRef_nl T ops ls repls hv hne hw]

theorem moreRowsRef_nl (T : PTables) (ops : List Str) (ls : LangSettings) (repls : List Str)
    (hv : VisibleRepls repls) (hne : repls ≠ []) (hw : visWords ls = true) :
    ∀ (m : List Row) (σ : RefSt) (q : Nat),
      (txtOf (moreRowsRef T ops ls repls σ q m).1).count nl = m.length
  | [], _, _ => rfl
  | r :: m, σ, q => by
    rw [moreRowsRef_cons, List.cons_append, txtOf_cons, txtOf_append, List.count_append, List.count_append,
      rowRef_nl T ops ls repls hv hne hw, moreRowsRef_nl T ops ls repls hv hne hw m]
    simp only [List.length_cons]
    have : ([nl, ' ', ' '] : Str).count nl = 1 := by decide
    omega

/-- (a) **one output line per row**: the rendering of an equation contains exactly one line break
    per row but the first — `nRows b` lines -/
theorem eqnOut_lines (T : PTables) (ops : List Str) (ls : LangSettings) (repls : List Str)
    (hv : VisibleRepls repls) (hne : repls ≠ []) (hw : visWords ls = true) (k p o : Nat) (b : Rows) :
    countNl ((eqnOut T ops ls repls k p o b).map (·.1)) + 1 = nRows b := by
  rw [eqnOut_txt, eqnRef_eq, txtOf_cons]
  simp only [rowsRef, txtOf_append, countNl, List.count_append, rowRef_nl T ops ls repls hv hne hw,
    moreRowsRef_nl T ops ls repls hv hne hw, nRows]
  have : ([' ', ' '] : Str).count nl = 0 := by decide
  omega

/-! #### positions -/

/-- the position lies in the equation: on the `\` of the opening command (`p`) or on a character of
    the body (`[lo, hi)`) -/
def InEqn (p lo hi x : Nat) : Prop := x = p ∨ (lo ≤ x ∧ x < hi)

theorem InEqn.mono {p lo hi lo' hi' x : Nat} (h : InEqn p lo' hi' x) (h1 : lo ≤ lo') (h2 : hi' ≤ hi) :
    InEqn p lo hi x := by
  rcases h with h | h
  · exact Or.inl h
  · exact Or.inr ⟨by omega, by omega⟩

theorem lastP_mem (d : Nat) (pcs : List (Str × Nat)) :
    lastP d pcs = d ∨ ∃ pc ∈ pcs, lastP d pcs = pc.2 := by
  unfold lastP
  cases h : pcs.getLast? with
  | none => exact Or.inl rfl
  | some x => exact Or.inr ⟨x, List.mem_of_getLast? h, rfl⟩

theorem leadBlanks_lt_of_not_blank : ∀ s : Str, s.all isSpace = false → leadBlanks s < s.length
  | [], h => by simp at h
  | c :: cs, h => by
    by_cases hc : isSpace c = true
    · have h' : cs.all isSpace = false := by simpa [hc] using h
      have := leadBlanks_lt_of_not_blank cs h'
      simp only [leadBlanks, List.takeWhile_cons, hc, if_true, List.length_cons] at this ⊢
      omega
    · simp [leadBlanks, hc]

/-- a section maps into its own source span (or keeps the last position) -/
theorem secRef_span (T : PTables) (ops : List Str) (ls : LangSettings) (repls : List Str)
    (fs : Bool) (σ : RefSt) (q : Nat) (s : Str) :
    (∀ pc ∈ (secRef T ops ls repls fs σ q s).1, q ≤ pc.2 ∧ pc.2 < q + s.length) ∧
    ((secRef T ops ls repls fs σ q s).2.last = σ.last ∨
      (q ≤ (secRef T ops ls repls fs σ q s).2.last ∧ (secRef T ops ls repls fs σ q s).2.last < q + s.length)) := by
  unfold secRef
  by_cases hb : s.all isSpace = true
  · simp [hb]
  · have hb' : s.all isSpace = false := by simpa using hb
    have hf := leadBlanks_lt_of_not_blank s hb'
    simp only [hb', Bool.false_eq_true, if_false]
    have hall : ∀ pc ∈ ((if (leadOp ops s && !fs) = true then
          [([' '], q + leadBlanks s), (opW ls (leadChar s).toList, q + leadBlanks s), ([' '], q + leadBlanks s)]
          else []) ++
        (if s.any (elemChar T ops) = true then
          [(placeholder repls (if ((σ.nr || leadOp ops s && !fs) && s.any (elemChar T ops)) = true
              then σ.k + 1 else σ.k), q + elemOff T ops s)] else []) ++
        (if (punctOf T s).isEmpty = true then [] else [(punctOf T s, q + leadBlanks s)])),
        q ≤ pc.2 ∧ pc.2 < q + s.length := by
      intro pc hpc
      simp only [List.mem_append] at hpc
      rcases hpc with (hpc | hpc) | hpc
      · split at hpc
        · simp only [List.mem_cons, List.not_mem_nil, or_false] at hpc
          rcases hpc with rfl | rfl | rfl <;> exact ⟨by simp, by simp; omega⟩
        · simp at hpc
      · split at hpc
        · rename_i hel
          simp only [List.mem_singleton] at hpc
          subst hpc
          have := PlainDisplay.elemOff_lt T ops s hel
          exact ⟨by simp, by simp; omega⟩
        · simp at hpc
      · split at hpc
        · simp at hpc
        · simp only [List.mem_singleton] at hpc
          subst hpc
          exact ⟨by simp, by simp; omega⟩
    refine ⟨hall, ?_⟩
    rcases lastP_mem σ.last _ with h | ⟨pc, hpc, h⟩
    · exact Or.inl h
    · right
      rw [h]
      exact hall pc hpc

theorem moreSrc_cons_length (s : Str) (more : List Str) :
    (moreSrc (s :: more)).length = 1 + s.length + (moreSrc more).length := by
  simp [moreSrc]; omega

theorem moreRef_span (T : PTables) (ops : List Str) (ls : LangSettings) (repls : List Str) (p lo hi : Nat) :
    ∀ (more : List Str) (σ : RefSt) (q : Nat), lo ≤ q → q + (moreSrc more).length ≤ hi →
      InEqn p lo hi σ.last →
      (∀ pc ∈ (moreRef T ops ls repls σ q more).1, InEqn p lo hi pc.2) ∧
      InEqn p lo hi (moreRef T ops ls repls σ q more).2.last
  | [], σ, q, _, _, h => ⟨by simp [moreRef], h⟩
  | s :: more, σ, q, h1, h2, h => by
    rw [moreSrc_cons_length] at h2
    obtain ⟨g1, g2⟩ := secRef_span T ops ls repls false σ (q + 1) s
    have hlast : InEqn p lo hi (secRef T ops ls repls false σ (q + 1) s).2.last := by
      rcases g2 with g | g
      · rw [g]; exact h
      · exact Or.inr ⟨by omega, by omega⟩
    obtain ⟨i1, i2⟩ := moreRef_span T ops ls repls p lo hi more _ (q + 1 + s.length) (by omega) (by omega)
      hlast
    refine ⟨?_, i2⟩
    intro pc hpc
    rw [moreRef_cons] at hpc
    simp only [List.cons_append, List.mem_cons, List.mem_append] at hpc
    rcases hpc with rfl | hpc | hpc
    · exact h
    · have := g1 pc hpc
      exact Or.inr ⟨by omega, by omega⟩
    · exact i1 pc hpc

theorem rowRef_span (T : PTables) (ops : List Str) (ls : LangSettings) (repls : List Str) (p lo hi : Nat)
    (σ : RefSt) (q : Nat) (r : Row) (h1 : lo ≤ q) (h2 : q + (rowSrc r).length ≤ hi)
    (h : InEqn p lo hi σ.last) :
    (∀ pc ∈ (rowRef T ops ls repls σ q r).1, InEqn p lo hi pc.2) ∧
    InEqn p lo hi (rowRef T ops ls repls σ q r).2.last := by
  simp only [rowSrc, List.length_append] at h2
  obtain ⟨g1, g2⟩ := secRef_span T ops ls repls true σ q r.1
  have hlast : InEqn p lo hi (secRef T ops ls repls true σ q r.1).2.last := by
    rcases g2 with g | g
    · rw [g]; exact h
    · exact Or.inr ⟨by omega, by omega⟩
  obtain ⟨i1, i2⟩ := moreRef_span T ops ls repls p lo hi r.2 _ (q + r.1.length) (by omega) (by omega) hlast
  refine ⟨?_, i2⟩
  intro pc hpc
  simp only [rowRef, List.mem_append] at hpc
  rcases hpc with hpc | hpc
  · have := g1 pc hpc
    exact Or.inr ⟨by omega, by omega⟩
  · exact i1 pc hpc

theorem moreRowsSrc_cons_length (r : Row) (m : List Row) :
    (moreRowsSrc (r :: m)).length = 2 + (rowSrc r).length + (moreRowsSrc m).length := by
  simp [moreRowsSrc]; omega

theorem moreRowsRef_span (T : PTables) (ops : List Str) (ls : LangSettings) (repls : List Str)
    (p lo hi : Nat) :
    ∀ (m : List Row) (σ : RefSt) (q : Nat), lo ≤ q → q + (moreRowsSrc m).length ≤ hi →
      InEqn p lo hi σ.last →
      (∀ pc ∈ (moreRowsRef T ops ls repls σ q m).1, InEqn p lo hi pc.2) ∧
      InEqn p lo hi (moreRowsRef T ops ls repls σ q m).2.last
  | [], σ, q, _, _, h => ⟨by simp [moreRowsRef], h⟩
  | r :: m, σ, q, h1, h2, h => by
    rw [moreRowsSrc_cons_length] at h2
    obtain ⟨g1, g2⟩ := rowRef_span T ops ls repls p lo hi σ (q + 2) r (by omega) (by omega) h
    obtain ⟨i1, i2⟩ := moreRowsRef_span T ops ls repls p lo hi m _ (q + 2 + (rowSrc r).length) (by omega)
      (by omega) g2
    refine ⟨?_, i2⟩
    intro pc hpc
    rw [moreRowsRef_cons] at hpc
    simp only [List.cons_append, List.mem_cons, List.mem_append] at hpc
    rcases hpc with rfl | hpc | hpc
    · exact h
    · exact g1 pc hpc
    · exact i1 pc hpc

/-- (b) **every position generated for an equation lies in the equation**: it is the position `p`
    of the `\` of the opening command, or the position of a character of the body (which occupies
    `[p + o, p + o + |body|)`) -/
theorem eqnOut_span (T : PTables) (ops : List Str) (ls : LangSettings) (repls : List Str) (k p o : Nat)
    (b : Rows) :
    ∀ cq ∈ eqnOut T ops ls repls k p o b,
      cq.2 = p ∨ (p + o ≤ cq.2 ∧ cq.2 < p + o + (rowsSrc b).length) := by
  have hrows : ∀ pc ∈ (eqnRef T ops ls repls k p o b).1, InEqn p (p + o) (p + o + (rowsSrc b).length) pc.2 := by
    intro pc hpc
    rw [eqnRef_eq] at hpc
    simp only [List.mem_cons] at hpc
    rcases hpc with rfl | hpc
    · exact Or.inl rfl
    · have hl : (rowsSrc b).length = (rowSrc b.1).length + (moreRowsSrc b.2).length := by
        simp [rowsSrc]
      obtain ⟨g1, g2⟩ := rowRef_span T ops ls repls p (p + o) (p + o + (rowsSrc b).length)
        { nr := true, k := k, last := p } (p + o) b.1 (Nat.le_refl _) (by omega) (Or.inl rfl)
      obtain ⟨i1, _⟩ := moreRowsRef_span T ops ls repls p (p + o) (p + o + (rowsSrc b).length) b.2 _
        (p + o + (rowSrc b.1).length) (by omega) (by omega) g2
      simp only [rowsRef, List.mem_append] at hpc
      rcases hpc with hpc | hpc
      · exact g1 pc hpc
      · exact i1 pc hpc
  intro cq hcq
  simp only [eqnOut, spread, List.mem_flatMap, List.mem_map] at hcq
  obtain ⟨pc, hpc, c, _, rfl⟩ := hcq
  exact hrows pc hpc

/-! #### punctuation, operator words, no source text -/

theorem not_blank_of_elem (T : PTables) (ops : List Str) (s : Str) (h : s.any (elemChar T ops) = true) :
    s.all isSpace = false := by
  obtain ⟨c, hc, hcs⟩ := List.any_eq_true.mp h
  simp only [elemChar, Bool.and_eq_true, Bool.not_eq_true'] at hcs
  rw [List.all_eq_false]
  exact ⟨c, hc, by simp [hcs.1.1]⟩

theorem not_blank_of_leadOp (ops : List Str) (s : Str) (h : leadOp ops s = true) : s.all isSpace = false := by
  cases hb : s.all isSpace with
  | false => rfl
  | true =>
    have h3 : s.dropWhile isSpace = [] := by
      clear h
      induction s with
      | nil => rfl
      | cons c cs ih =>
        simp only [List.all_cons, Bool.and_eq_true] at hb
        simp only [List.dropWhile_cons, hb.1, if_true]
        exact ih hb.2
    simp [leadOp, leadChar, h3] at h

/-- (c) **punctuation is kept directly behind its placeholder**: a section with an element character
    whose last character that is no white space is a punctuation mark ends with its placeholder
    (mapped to the first element character) followed by this mark (mapped to the first character
    that is no white space) -/
theorem secRef_punct (T : PTables) (ops : List Str) (ls : LangSettings) (repls : List Str) (fs : Bool)
    (σ : RefSt) (q : Nat) (s : Str) (hel : s.any (elemChar T ops) = true) (hp : punctOf T s ≠ []) :
    ∃ pre, (secRef T ops ls repls fs σ q s).1
      = pre ++ [(placeholder repls (secRef T ops ls repls fs σ q s).2.k, q + elemOff T ops s),
                (punctOf T s, q + leadBlanks s)] := by
  have hb := not_blank_of_elem T ops s hel
  have hpe : (punctOf T s).isEmpty = false := by
    cases h : punctOf T s with
    | nil => exact absurd h hp
    | cons => rfl
  unfold secRef
  simp only [hb, Bool.false_eq_true, if_false, hel, if_true, hpe, Bool.and_true, List.append_assoc,
    List.singleton_append]
  exact ⟨_, rfl⟩

/-- (d) **a relation or operator that leads a section which is not the first of its row becomes the
    language's word for it**, between two blanks, all mapped to the operator -/
theorem secRef_opword (T : PTables) (ops : List Str) (ls : LangSettings) (repls : List Str)
    (σ : RefSt) (q : Nat) (s : Str) (hop : leadOp ops s = true) :
    ∃ rest, (secRef T ops ls repls false σ q s).1
      = ([' '], q + leadBlanks s) :: (opW ls (leadChar s).toList, q + leadBlanks s)
          :: ([' '], q + leadBlanks s) :: rest := by
  have hb := not_blank_of_leadOp ops s hop
  unfold secRef
  simp only [hb, Bool.false_eq_true, if_false, hop, Bool.not_false, Bool.and_true, if_true,
    List.cons_append, List.nil_append]
  exact ⟨_, rfl⟩

/-- … and in the first section of a row no word is written -/
theorem secRef_first_noword (T : PTables) (ops : List Str) (ls : LangSettings) (repls : List Str)
    (σ : RefSt) (q : Nat) (s : Str) :
    ∀ pc ∈ (secRef T ops ls repls true σ q s).1,
      pc.1 = placeholder repls (secRef T ops ls repls true σ q s).2.k ∨ pc.1 = punctOf T s := by
  unfold secRef
  split
  · simp
  · intro pc hpc
    simp only [Bool.not_true, Bool.and_false, Bool.false_eq_true, if_false, List.nil_append,
      Bool.or_false, List.mem_append] at hpc ⊢
    rcases hpc with hpc | hpc
    · split at hpc
      · simp only [List.mem_singleton] at hpc; subst hpc; exact Or.inl rfl
      · simp at hpc
    · split at hpc
      · simp at hpc
      · simp only [List.mem_singleton] at hpc; subst hpc; exact Or.inr rfl

/-- what a piece of output text can be: indentation, separator, an operator word, a placeholder, or
    a closing punctuation mark -/
def PieceKind (T : PTables) (ls : LangSettings) (repls : List Str) (t : Str) : Prop :=
  t = [' ', ' '] ∨ t = [' '] ∨ t = [nl, ' ', ' '] ∨ (∃ x, t = opW ls x) ∨
    (∃ j, t = placeholder repls j) ∨ (∃ s, t = punctOf T s)

theorem secRef_kind (T : PTables) (ops : List Str) (ls : LangSettings) (repls : List Str) (fs : Bool)
    (σ : RefSt) (q : Nat) (s : Str) :
    ∀ pc ∈ (secRef T ops ls repls fs σ q s).1, PieceKind T ls repls pc.1 := by
  unfold secRef
  split
  · simp
  · intro pc hpc
    simp only [List.mem_append] at hpc
    rcases hpc with (hpc | hpc) | hpc
    · split at hpc
      · simp only [List.mem_cons, List.not_mem_nil, or_false] at hpc
        rcases hpc with rfl | rfl | rfl
        · exact Or.inr (Or.inl rfl)
        · exact Or.inr (Or.inr (Or.inr (Or.inl ⟨_, rfl⟩)))
        · exact Or.inr (Or.inl rfl)
      · simp at hpc
    · split at hpc
      · simp only [List.mem_singleton] at hpc; subst hpc
        exact Or.inr (Or.inr (Or.inr (Or.inr (Or.inl ⟨_, rfl⟩))))
      · simp at hpc
    · split at hpc
      · simp at hpc
      · simp only [List.mem_singleton] at hpc; subst hpc
        exact Or.inr (Or.inr (Or.inr (Or.inr (Or.inr ⟨_, rfl⟩))))

theorem moreRef_kind (T : PTables) (ops : List Str) (ls : LangSettings) (repls : List Str) :
    ∀ (more : List Str) (σ : RefSt) (q : Nat),
      ∀ pc ∈ (moreRef T ops ls repls σ q more).1, PieceKind T ls repls pc.1
  | [], _, _ => by simp [moreRef]
  | s :: more, σ, q => by
    intro pc hpc
    rw [moreRef_cons] at hpc
    simp only [List.cons_append, List.mem_cons, List.mem_append] at hpc
    rcases hpc with rfl | hpc | hpc
    · exact Or.inr (Or.inl rfl)
    · exact secRef_kind T ops ls repls false σ (q + 1) s pc hpc
    · exact moreRef_kind T ops ls repls more _ _ pc hpc

theorem rowRef_kind (T : PTables) (ops : List Str) (ls : LangSettings) (repls : List Str)
    (σ : RefSt) (q : Nat) (r : Row) :
    ∀ pc ∈ (rowRef T ops ls repls σ q r).1, PieceKind T ls repls pc.1 := by
  intro pc hpc
  simp only [rowRef, List.mem_append] at hpc
  rcases hpc with hpc | hpc
  · exact secRef_kind T ops ls repls true σ q r.1 pc hpc
  · exact moreRef_kind T ops ls repls r.2 _ _ pc hpc

theorem moreRowsRef_kind (T : PTables) (ops : List Str) (ls : LangSettings) (repls : List Str) :
    ∀ (m : List Row) (σ : RefSt) (q : Nat),
      ∀ pc ∈ (moreRowsRef T ops ls repls σ q m).1, PieceKind T ls repls pc.1
  | [], _, _ => by simp [moreRowsRef]
  | r :: m, σ, q => by
    intro pc hpc
    rw [moreRowsRef_cons] at hpc
    simp only [List.cons_append, List.mem_cons, List.mem_append] at hpc
    rcases hpc with rfl | hpc | hpc
    · exact Or.inr (Or.inr (Or.inl rfl))
    · exact rowRef_kind T ops ls repls σ (q + 2) r pc hpc
    · exact moreRowsRef_kind T ops ls repls m _ _ pc hpc

/-- (e) **no maths source text appears in the output**: the rendering of an equation consists of the
    indentation, the separators (blank; line break and indentation), operator words of the language,
    placeholders of the display collection and closing punctuation marks — nothing else of the body -/
theorem eqnRef_kind (T : PTables) (ops : List Str) (ls : LangSettings) (repls : List Str) (k p o : Nat)
    (b : Rows) : ∀ pc ∈ (eqnRef T ops ls repls k p o b).1, PieceKind T ls repls pc.1 := by
  intro pc hpc
  rw [eqnRef_eq] at hpc
  simp only [List.mem_cons, rowsRef, List.mem_append] at hpc
  rcases hpc with rfl | hpc | hpc
  · exact Or.inl rfl
  · exact rowRef_kind T ops ls repls _ _ b.1 pc hpc
  · exact moreRowsRef_kind T ops ls repls b.2 _ _ pc hpc

/-- (f) **the placeholders advance exactly at the documented points**: a section that is only white
    space changes nothing; any other section advances the rotation count iff it holds an element
    character and either `next_repl` is set or it writes an operator word; behind it `next_repl` is
    set iff it ends with a punctuation mark, or starts with an operator and holds no element -/
theorem secRef_state (T : PTables) (ops : List Str) (ls : LangSettings) (repls : List Str) (fs : Bool)
    (σ : RefSt) (q : Nat) (s : Str) :
    (s.all isSpace = true → secRef T ops ls repls fs σ q s = ([], σ)) ∧
    (s.all isSpace = false →
      (secRef T ops ls repls fs σ q s).2.k
        = (if (σ.nr || (leadOp ops s && !fs)) && s.any (elemChar T ops) then σ.k + 1 else σ.k) ∧
      (secRef T ops ls repls fs σ q s).2.nr
        = (!(punctOf T s).isEmpty || (leadOp ops s && !s.any (elemChar T ops)))) := by
  unfold secRef
  refine ⟨fun h => by simp [h], fun h => by simp [h]⟩

end PlainDispRows
end Yalafi
