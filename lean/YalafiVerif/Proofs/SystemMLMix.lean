/-
  Proofs/SystemMLMix.lean — SYSTEM LEVEL, multi-language mode, for the documents of
  `C12_mixed_languages_e2e` (inert text, `\selectlanguage`, `\foreignlanguage{..}{..}`, the
  `otherlanguage[*]` environments, package babel): the filter's theorem `PlainLangMix.tex2txt_mix`
  (`r.parts = refParts …`, the rendering of the plan `refPlan`) composed with the shell's assembly of
  the pieces (Proofs/SystemML.lean) and its report pipeline.  First part: the word in a piece.

  A flagged word `w` stands in a HOST segment `sg`: a text segment (`hostOff = 0`) or the text of an
  insertion `\foreignlanguage{n}{…}` (`hostOff = bodyOff n`): `segs = pre ++ sg :: post`,
  `hostText sg = a ++ w ++ b`, `q = |render pre| + hostOff sg + |a|` its offset in the file.

  (a) `marks_word`       the marks of `w` are consecutive in `segMarks`
  (b) `SystemML.delLines_word`   (reused) a word with visible ends survives the blank-line removal as a
                         block of the items
  (c) `secsItems_block`  a block of characters lies in ONE section of the section loop
  (d) `fold_block`, `renderFrom_block`   a section that is a VERBATIM component of a piece of the plan is
                         a block of the rendered piece (placeholders in front of it and behind it do not
                         disturb it); an inclusion (a short section that was cut out) is a piece as it is
  (e) `renderFrom_len`, `refParts_lengths`   every piece has a map as long as its text — also with
                         placeholders
  (f) `word_in_piece`    hence the shell's requests on `refParts` contain a request with the run
                         `RunAt pos off |w| (q+1)` that spells `w`, and its language code is
                         `langAt T [main] 0 segs q`
  (g) `host_not_backslash`   a visible character of a host text is no backslash
-/
import YalafiVerif.Proofs.SystemMLLang
import YalafiVerif.Proofs.PlainLangMixCor
namespace Yalafi
namespace PlainLangMix
namespace Sys

open SystemWord Reports Html SystemML PlainLangMix
open LinesLang (Item Mark ch isLg delLines)
open PlainLang (groupSecs shiftParts groupSecs_perm groupSecs_mem mem_shiftParts zip_fst_snd)
open PlainForeign (secsItems secsItems_ch emitSec mkSec stepStack bodyOff frnLen shiftTp lcOf partOf
  partOf_groupSecs partOf_shiftParts frnName frnName_length)

/-! ### the host of a word -/

/-- the offset of the text inside the rendering of a segment that holds text: a text segment, or the
    text of `\foreignlanguage{n}{text}` -/
def hostOff : Seg → Option Nat
  | .txt _ => some 0
  | .frn n _ => some (bodyOff n)
  | _ => none

/-- the text of such a segment -/
def hostText : Seg → Str
  | .txt s => s
  | .frn _ b => b
  | _ => []

theorem renderMix_append : ∀ (pre rest : List Seg), render (pre ++ rest) = render pre ++ render rest
  | [], _ => rfl
  | s :: pre, rest => by simp [render, renderMix_append pre rest]

theorem segMarksMix_append (T : PTables) (rest : List Seg) : ∀ (pre : List Seg) (p : Nat),
    segMarks T p (pre ++ rest) = segMarks T p pre ++ segMarks T (p + (render pre).length) rest
  | [], p => by simp [segMarks, render]
  | sg :: pre, p => by
    have hl : p + (render (sg :: pre)).length = p + sg.len + (render pre).length := by
      rw [render_cons_length]; omega
    rw [hl]
    cases sg <;>
      simp only [List.cons_append, segMarks, List.append_assoc, Seg.len, segMarksMix_append T rest pre]

theorem host_render (sg : Seg) (d : Nat) (h : hostOff sg = some d) :
    ∃ X Z, sg.render = X ++ (hostText sg ++ Z) ∧ X.length = d := by
  cases sg with
  | txt s =>
    simp only [hostOff, Option.some.injEq] at h
    exact ⟨[], [], by simp [Seg.render, hostText], by simpa using h⟩
  | frn n b =>
    simp only [hostOff, Option.some.injEq] at h
    refine ⟨'\\' :: (frnName ++ '{' :: (n ++ ['}', '{'])), ['}'], by simp [Seg.render, hostText], ?_⟩
    rw [← h]
    simp only [List.length_cons, List.length_append, frnName_length, bodyOff, List.length_nil]
    omega
  | sel _ => simp [hostOff] at h
  | beg _ _ => simp [hostOff] at h
  | fin _ _ => simp [hostOff] at h

theorem segMarks_host (T : PTables) (sg : Seg) (post : List Seg) (p d : Nat) (h : hostOff sg = some d) :
    ∃ A B, segMarks T p (sg :: post) = A ++ ((ch (posText (p + d) (hostText sg))).map some ++ B) := by
  cases sg with
  | txt s =>
    simp only [hostOff, Option.some.injEq] at h
    subst h
    exact ⟨[], segMarks T (p + s.length) post, by
      simp only [segMarks, hostText, Nat.add_zero, List.nil_append]⟩
  | frn n b =>
    simp only [hostOff, Option.some.injEq] at h
    subst h
    exact ⟨[none, some (.inr (PlainForeign.openTok T p (PlainLang.codeOfName T n)))],
      some (.inr (PlainForeign.backTok (p + bodyOff n + PlainFootnote.lastTokOff b))) ::
        segMarks T (p + frnLen n b) post, by
      simp only [segMarks, hostText, List.cons_append, List.nil_append]⟩
  | sel _ => simp [hostOff] at h
  | beg _ _ => simp [hostOff] at h
  | fin _ _ => simp [hostOff] at h

/-- **(a) the marks of the word are consecutive** -/
theorem marks_word (T : PTables) (segs pre post : List Seg) (sg : Seg) (d : Nat) (a w b : Str)
    (hsegs : segs = pre ++ sg :: post) (hd : hostOff sg = some d) (ht : hostText sg = a ++ (w ++ b)) :
    ∃ A B, segMarks T 0 segs
      = A ++ ((ch (posText ((render pre).length + d + a.length) w)).map some ++ B) := by
  obtain ⟨A, B, h⟩ := segMarks_host T sg post (0 + (render pre).length) d hd
  rw [hsegs, segMarksMix_append T _ pre 0, h, ht]
  simp only [Nat.zero_add, posText_append, LinesLang.ch_append, List.map_append, List.append_assoc]
  exact ⟨segMarks T 0 pre ++ (A ++ (ch (posText ((render pre).length + d) a)).map some),
    (ch (posText ((render pre).length + d + a.length + w.length) b)).map some ++ B, by
    simp only [List.append_assoc]⟩

/-- the word in the source -/
theorem word_source (segs pre post : List Seg) (sg : Seg) (d : Nat) (a w b : Str)
    (hsegs : segs = pre ++ sg :: post) (hd : hostOff sg = some d) (ht : hostText sg = a ++ (w ++ b)) :
    ∃ L R, render segs = L ++ (w ++ R) ∧ L.length = (render pre).length + d + a.length := by
  obtain ⟨X, Z, hr, hx⟩ := host_render sg d hd
  refine ⟨render pre ++ (X ++ a), b ++ (Z ++ render post), ?_, by simp [hx]; omega⟩
  rw [hsegs, renderMix_append]
  simp only [render, hr, ht, List.append_assoc]

/-! ### (c) a block of characters lies in one section -/

theorem secsItems_acc : ∀ (items : List Item) (stk : List Str) (back brk : Bool) (acc : List (Char × Nat)),
    acc ≠ [] → ∃ l D rest, secsItems stk back brk acc items = mkSec l back brk (acc ++ D) :: rest
  | [], stk, back, brk, acc, h => by
    have : acc.isEmpty = false := by cases acc with | nil => exact absurd rfl h | cons _ _ => rfl
    exact ⟨stackTop stk, [], [], by simp [secsItems, emitSec, this]⟩
  | .inl cp :: xs, stk, back, brk, acc, _ => by
    obtain ⟨l, D, rest, h⟩ := secsItems_acc xs stk back brk (acc ++ [cp]) (by simp)
    exact ⟨l, cp :: D, rest, by simp only [secsItems]; rw [h]; simp⟩
  | .inr t :: xs, stk, back, brk, acc, hne => by
    simp only [secsItems]
    split
    · split
      · exact secsItems_acc xs _ back brk acc hne
      · have : acc.isEmpty = false := by cases acc with | nil => exact absurd rfl hne | cons _ _ => rfl
        rw [show emitSec (stackTop stk) back brk acc = [mkSec (stackTop stk) back brk acc] by
          simp [emitSec, this]]
        exact ⟨_, [], _, by rw [List.append_nil]; rfl⟩
    · exact secsItems_acc xs stk back brk acc hne

theorem secsItems_block : ∀ (X : List Item) (stk : List Str) (back brk : Bool) (acc W : List (Char × Nat))
    (Y : List Item), W ≠ [] → ∃ s ∈ secsItems stk back brk acc (X ++ (ch W ++ Y)), ∃ C D,
      s.txt = (C ++ (W ++ D)).map (·.1) ∧ s.pos = (C ++ (W ++ D)).map (·.2)
  | [], stk, back, brk, acc, W, Y, hW => by
    rw [List.nil_append, secsItems_ch]
    obtain ⟨l, D, rest, h⟩ := secsItems_acc Y stk back brk (acc ++ W) (by simp [hW])
    rw [h]
    exact ⟨_, List.mem_cons_self .., acc, D, by simp [mkSec], by simp [mkSec]⟩
  | .inl cp :: X, stk, back, brk, acc, W, Y, hW => by
    simp only [List.cons_append, secsItems]
    exact secsItems_block X stk back brk _ W Y hW
  | .inr t :: X, stk, back, brk, acc, W, Y, hW => by
    simp only [List.cons_append, secsItems]
    split
    · split
      · exact secsItems_block X _ back brk _ W Y hW
      · obtain ⟨s, hs, h⟩ := secsItems_block X _ _ _ [] W Y hW
        exact ⟨s, List.mem_append_right _ hs, h⟩
    · exact secsItems_block X stk back brk _ W Y hW

/-! ### (d) a verbatim component is a block of the rendered piece -/

theorem fold_prefix (lang : Str) : ∀ (comps : List Comp) (a : Acc), a.pos.length = a.txt.length →
    (∀ c ∈ comps, CompWf c) → ∃ E, accChars (comps.foldl (addComp lang) a) = accChars a ++ E
  | [], a, _, _ => ⟨[], by simp⟩
  | c :: cs, a, ha, hw => by
    obtain ⟨h1, extra, h2, _⟩ := addComp_chars lang a c ha (hw c (List.mem_cons_self ..))
    obtain ⟨E, hE⟩ := fold_prefix lang cs (addComp lang a c) h1 (fun x hx => hw x (List.mem_cons_of_mem _ hx))
    exact ⟨extra ++ E, by simp only [List.foldl_cons]; rw [hE, h2, List.append_assoc]⟩

theorem fold_len (lang : Str) : ∀ (comps : List Comp) (a : Acc), a.pos.length = a.txt.length →
    (∀ c ∈ comps, CompWf c) →
    (comps.foldl (addComp lang) a).pos.length = (comps.foldl (addComp lang) a).txt.length :=
  fun comps a ha hw => (fold_chars lang comps a ha hw).1

theorem fold_block (lang : Str) : ∀ (comps : List Comp) (a : Acc), a.pos.length = a.txt.length →
    (∀ c ∈ comps, CompWf c) → ∀ s, Comp.own s ∈ comps →
    ∃ P Q, accChars (comps.foldl (addComp lang) a) = P ++ (secChars s ++ Q)
  | [], _, _, _, s, hs => by cases hs
  | c :: cs, a, ha, hw, s, hs => by
    obtain ⟨h1, extra, h2, h3⟩ := addComp_chars lang a c ha (hw c (List.mem_cons_self ..))
    rcases List.mem_cons.mp hs with h | hs
    · subst h
      obtain ⟨E, hE⟩ := fold_prefix lang cs (addComp lang a (.own s)) h1
        (fun x hx => hw x (List.mem_cons_of_mem _ hx))
      exact ⟨accChars a, E, by simp only [List.foldl_cons]; rw [hE, h2, h3 s rfl, List.append_assoc]⟩
    · exact fold_block lang cs (addComp lang a c) h1 (fun x hx => hw x (List.mem_cons_of_mem _ hx)) s hs

/-- **an `own` component of a group is a block of the rendered piece of the group** -/
theorem renderFrom_block : ∀ (gs : List Group) (a : Acc), a.pos.length = a.txt.length →
    (∀ g ∈ gs, GroupWf g) → ∀ g ∈ gs, ∀ s, Comp.own s ∈ g.comps →
    ∃ sec ∈ renderFrom a gs, sec.lang = g.lang ∧ ∃ P Q, secChars sec = P ++ (secChars s ++ Q)
  | [], _, _, _ => by intro g hg; cases hg
  | g0 :: gs, a, ha, hw => by
    intro g hg s hs
    rcases List.mem_cons.mp hg with rfl | hg
    · obtain ⟨P, Q, h⟩ := fold_block g.lang g.comps a ha (hw g (List.mem_cons_self ..)) s hs
      refine ⟨accSec g.lang (g.comps.foldl (addComp g.lang) a), ?_, rfl, P, Q, h⟩
      simp only [renderFrom, List.mem_append, List.mem_cons]
      exact Or.inr (Or.inl trivial)
    · obtain ⟨sec, h1, h2, h3⟩ := renderFrom_block gs ⟨[], [], (g0.comps.foldl (addComp g0.lang) a).lc⟩ rfl
        (fun x hx => hw x (List.mem_cons_of_mem _ hx)) g hg s hs
      refine ⟨sec, ?_, h2, h3⟩
      simp only [renderFrom, List.mem_append, List.mem_cons]
      exact Or.inr (Or.inr h1)

/-! ### (e) lengths -/

theorem renderFrom_len : ∀ (gs : List Group) (a : Acc), a.pos.length = a.txt.length →
    (∀ g ∈ gs, GroupWf g) → (∀ g ∈ gs, ∀ s ∈ g.incls, SecWf s) →
    ∀ sec ∈ renderFrom a gs, sec.pos.length = sec.txt.length
  | [], _, _, _, _ => by intro sec h; cases h
  | g0 :: gs, a, ha, hw, hi => by
    intro sec hsec
    simp only [renderFrom, List.mem_append, List.mem_cons] at hsec
    rcases hsec with h | rfl | h
    · exact (hi g0 (List.mem_cons_self ..) sec h).len
    · exact fold_len g0.lang g0.comps a ha (hw g0 (List.mem_cons_self ..))
    · exact renderFrom_len gs _ rfl (fun x hx => hw x (List.mem_cons_of_mem _ hx))
        (fun x hx => hi x (List.mem_cons_of_mem _ hx)) sec h

theorem planOf_incl_mem (thresh : Nat) (secs : List Sec) :
    ∀ g ∈ planOf thresh secs, ∀ s ∈ g.incls, s ∈ secs := by
  intro g hg s hs
  cases secs with
  | nil => simp [planOf] at hg
  | cons s0 rest =>
    simp only [planOf] at hg
    rcases mem_consHead hg with ⟨g0, gs', hg0, rfl⟩ | hg
    · simp only [List.nil_append] at hs
      exact List.mem_cons_of_mem _ ((joinPlan_comp_mem thresh rest.length rest (Nat.le_refl _) s0.lang g0
          (by rw [hg0]; exact List.mem_cons_self ..)).2 s hs)
    · exact List.mem_cons_of_mem _ ((joinPlan_comp_mem thresh rest.length rest (Nat.le_refl _) s0.lang g
        (List.mem_of_mem_tail hg)).2 s hs)

theorem refPlan_incl_wf (T : PTables) (main : Str) (thresh : Nat) (segs : List Seg) :
    ∀ g ∈ refPlan T main thresh segs, ∀ s ∈ g.incls, SecWf s := by
  intro g hg s hs
  exact secsItems_wf _ _ _ _ _ _ (planOf_incl_mem thresh _ g hg s hs)

theorem renderGroups_len (T : PTables) (main : Str) (thresh : Nat) (lc : LangChange) (segs : List Seg) :
    ∀ sec ∈ renderGroups lc (refPlan T main thresh segs), sec.pos.length = sec.txt.length :=
  renderFrom_len _ ⟨[], [], lc⟩ rfl (refPlan_wf T main thresh segs) (refPlan_incl_wf T main thresh segs)

/-- every piece of the reference has a map as long as its text -/
theorem refParts_lengths (T : PTables) (main : Str) (thresh : Nat) (lc : LangChange) (segs : List Seg) :
    ∀ e ∈ refParts T main thresh lc segs, ∀ tp ∈ e.2, tp.1.length = tp.2.length := by
  intro e he tp htp
  obtain ⟨e0, he0, _, h2⟩ := mem_shiftParts _ e he
  rw [h2] at htp
  obtain ⟨tp0, htp0, rfl⟩ := List.mem_map.mp htp
  obtain ⟨s, hs, _, rfl⟩ := groupSecs_mem _ e0 he0 tp0 htp0
  simp only [PlainLang.shiftTp, List.length_map]
  exact (renderGroups_len T main thresh lc segs s hs).symm

/-! ### (f) the word in a piece -/

theorem partOf_mem (ps : Parts) (k : Str) (tp : Str × List Nat) (h : tp ∈ partOf ps k) :
    ∃ e ∈ ps, e.1 = k ∧ tp ∈ e.2 := by
  unfold partOf at h
  cases hf : ps.find? (·.1 == k) with
  | none => rw [hf] at h; simp at h
  | some e =>
    rw [hf] at h
    have := List.find?_some hf
    exact ⟨e, List.mem_of_find?_eq_some hf, by simpa using this, by simpa using h⟩

/-- a section of the document is — as a block — part of a rendered piece of its language -/
theorem sec_in_rendered (T : PTables) (main : Str) (thresh : Nat) (lc : LangChange) (segs : List Seg)
    (s : Sec) (hs : s ∈ refSecs T main segs) :
    ∃ sec ∈ renderGroups lc (refPlan T main thresh segs), sec.lang = s.lang ∧
      ∃ P Q, secChars sec = P ++ (secChars s ++ Q) := by
  have hperm := planOf_perm thresh (refSecs T main segs)
  have hsp : s ∈ planSecs (refPlan T main thresh segs) := (hperm.mem_iff).mpr hs
  simp only [planSecs, List.mem_flatMap, groupOwn, List.mem_append] at hsp
  obtain ⟨g, hg, hsg⟩ := hsp
  have hwf := refPlan_wf T main thresh segs
  rcases hsg with ⟨cmp, hcmp, hown⟩ | hin
  · cases cmp with
    | ph x => simp [compOwn] at hown
    | own x =>
      simp only [compOwn, List.mem_singleton] at hown
      subst hown
      obtain ⟨sec, h1, h2, h3⟩ := renderFrom_block (refPlan T main thresh segs) ⟨[], [], lc⟩ rfl hwf g hg s hcmp
      exact ⟨sec, h1, by rw [h2, planOf_own_lang thresh _ g hg s hcmp], h3⟩
  · obtain ⟨j1, _⟩ := renderFrom_own (refPlan T main thresh segs) ⟨[], [], lc⟩ rfl hwf g hg
    exact ⟨s, j1 s hin, rfl, [], [], by simp⟩

/-- **(f) every word of a text segment or of the text of an insertion gives a run in a request of the
    shell, submitted under the language in force at the word** (reference level) -/
theorem word_in_piece (T : PTables) (main : Str) (thresh : Nat) (lc : LangChange)
    (segs pre post : List Seg) (sg : Seg) (d : Nat) (a w b : Str)
    (hsegs : segs = pre ++ sg :: post) (hd : hostOff sg = some d) (ht : hostText sg = a ++ (w ++ b))
    (hw : wordEnds w = true) :
    ∃ pc ∈ shellPieces (refParts T main thresh lc segs), ∃ off, off + w.length ≤ pc.2.1.length ∧
      RunAt pc.2.2 off w.length ((render pre).length + d + a.length + 1) ∧
      (pc.2.1.drop off).take w.length = w ∧
      pc.1 = langAt T [main] 0 segs ((render pre).length + d + a.length) := by
  obtain ⟨hW, hlast⟩ := posText_word ((render pre).length + d + a.length) hw
  obtain ⟨A, B, hm⟩ := marks_word T segs pre post sg d a w b hsegs hd ht
  obtain ⟨X, Y, hdl⟩ := SystemML.delLines_word A B (posText ((render pre).length + d + a.length) w) hW hlast
  rw [← hm] at hdl
  have hne : posText ((render pre).length + d + a.length) w ≠ [] := by
    obtain ⟨w0, W', h0, _⟩ := hW
    rw [h0]; simp
  obtain ⟨s, hs, C, D, hst, hsp⟩ := secsItems_block X [main] false false [] _ Y hne
  rw [← hdl] at hs
  have hs' : s ∈ refSecs T main segs := hs
  have hsc : secChars s = C ++ (posText ((render pre).length + d + a.length) w ++ D) := by
    simp only [secChars, hst, hsp, zip_fst_snd]
  obtain ⟨w0, W', h0, hv⟩ := hW
  -- the language of the section
  have hlang : s.lang = langAt T [main] 0 segs ((render pre).length + d + a.length) := by
    have hmem : w0 ∈ secChars s := by rw [hsc, h0]; simp
    have := (refSecs_lang T main segs s hs' w0 hmem).2
    have h2 : w0.2 = (render pre).length + d + a.length := by
      have hh : (posText ((render pre).length + d + a.length) w).head? = some w0 := by rw [h0]; rfl
      obtain ⟨⟨c, cs, hc, _⟩, _⟩ := wordEnds_facts hw
      rw [hc] at hh
      simp only [posText, List.head?_cons, Option.some.injEq] at hh
      rw [← hh]
    rw [this, h2]
  obtain ⟨sec, hsec, hsl, P, Q, hPQ⟩ := sec_in_rendered T main thresh lc segs s hs'
  have hlen := renderGroups_len T main thresh lc segs sec hsec
  have hout : secChars sec
      = (P ++ C) ++ (posText ((render pre).length + d + a.length) w ++ (D ++ Q)) := by
    rw [hPQ, hsc]; simp only [List.append_assoc]
  have htxt : sec.txt = (secChars sec).map (·.1) := by
    simp only [secChars]
    exact (List.map_fst_zip (Nat.le_of_eq hlen.symm)).symm
  have hpos : sec.pos = (secChars sec).map (·.2) := by
    simp only [secChars]
    exact (List.map_snd_zip (Nat.le_of_eq hlen)).symm
  have hlw : (posText ((render pre).length + d + a.length) w).length = w.length := by
    rw [← List.length_map (f := (·.1)), posText_fst]
  obtain ⟨b1, b2, b3⟩ := run_of_decomp _ (P ++ C) _ (D ++ Q) ((render pre).length + d + a.length) hout
    (by rw [posText_snd, hlw])
  rw [hlw] at b1 b2 b3
  rw [posText_fst] at b3
  have hpos' : (shiftTp (sec.txt, sec.pos)).2 = (secChars sec).map (·.2 + 1) := by
    simp only [shiftTp]
    rw [hpos, List.map_map]; rfl
  have hmem : shiftTp (sec.txt, sec.pos) ∈ partOf (refParts T main thresh lc segs) sec.lang := by
    unfold refParts
    rw [partOf_shiftParts, partOf_groupSecs]
    refine List.mem_map.mpr ⟨(sec.txt, sec.pos), ?_, rfl⟩
    refine List.mem_map.mpr ⟨sec, ?_, rfl⟩
    exact List.mem_filter.mpr ⟨hsec, by simp⟩
  obtain ⟨e, he, hk, htp⟩ := partOf_mem _ _ _ hmem
  refine ⟨(sec.lang, shiftTp (sec.txt, sec.pos)), ?_, (P ++ C).length, ?_, ?_, ?_, ?_⟩
  · refine mem_shellPieces.mpr ⟨e, he, hk, htp, ?_⟩
    show isBlank sec.txt = false
    rw [htxt, hout, h0]
    simp [isBlank, hv]
  · show (P ++ C).length + w.length ≤ sec.txt.length
    rw [htxt]; simpa using b1
  · show RunAt (shiftTp (sec.txt, sec.pos)).2 _ _ _
    rw [hpos']; exact b2
  · show (sec.txt.drop _).take _ = w
    rw [htxt]; exact b3
  · show sec.lang = _
    rw [hsl, hlang]

/-! ### (g) a visible character of a host text is no backslash -/

theorem segsOkMix_drop (T : PTables) (rest : List Seg) : ∀ (pre : List Seg) (st : PState),
    segsOk T st (pre ++ rest) = true → ∃ st', segsOk T st' rest = true
  | [], st, h => ⟨st, h⟩
  | .txt s :: pre, st, h => by
    simp only [List.cons_append, segsOk, Bool.and_eq_true] at h
    exact segsOkMix_drop T rest pre st h.2
  | .sel name :: pre, st, h => by
    simp only [List.cons_append, segsOk, Bool.and_eq_true] at h
    exact segsOkMix_drop T rest pre _ h.2
  | .frn n b :: pre, st, h => by
    simp only [List.cons_append, segsOk, Bool.and_eq_true] at h
    exact segsOkMix_drop T rest pre _ h.2
  | .beg star n :: pre, st, h => by
    simp only [List.cons_append, segsOk, Bool.and_eq_true] at h
    exact segsOkMix_drop T rest pre _ h.2
  | .fin star sp :: pre, st, h => by
    simp only [List.cons_append, segsOk, Bool.and_eq_true] at h
    exact segsOkMix_drop T rest pre _ h.2

theorem host_not_backslash (T : PTables) (st : PState) (pre post : List Seg) (sg : Seg) (d : Nat)
    (a cs : Str) (c : Char) (h : segsOk T st (pre ++ sg :: post) = true) (hd : hostOff sg = some d)
    (ht : hostText sg = a ++ c :: cs) (hc : isSpace c = false) : c ≠ '\\' := by
  obtain ⟨st', h1⟩ := segsOkMix_drop T _ pre st h
  have key : ∃ st'' R, PlainFootnote.textOk T st'' (a ++ c :: cs) R = true := by
    cases sg with
    | txt s =>
      simp only [segsOk, Bool.and_eq_true] at h1
      simp only [hostText] at ht
      subst ht
      exact ⟨_, _, h1.1.1⟩
    | frn n b =>
      simp only [segsOk, frnOk, Bool.and_eq_true] at h1
      simp only [hostText] at ht
      subst ht
      exact ⟨_, _, h1.1.1.1.2⟩
    | sel _ => simp [hostOff] at hd
    | beg _ _ => simp [hostOff] at hd
    | fin _ _ => simp [hostOff] at hd
  obtain ⟨st'', R, hk⟩ := key
  have h2 := SystemML.textOk_mid T st'' c cs R a hk
  simp only [PlainFootnote.chrOk, Bool.and_eq_true, Bool.or_eq_true, hc, Bool.false_eq_true, false_or,
    Bool.not_eq_true'] at h2
  intro he
  subst he
  have := h2.2.1
  revert this
  decide

end Sys
end PlainLangMix
end Yalafi
