/-
  Proofs/Inv/StepWork.lean — step lemmas of the range-invariant bundle: each shows the
  specification of one function at `fuel + 1` from all specifications at `fuel`.
-/
import YalafiVerif.Proofs.Inv.Basic
namespace Yalafi

variable (T : PTables)

theorem work_step (hw : T.WFInv) (nroot fuel : Nat) (IH : AllSpecs T nroot fuel) :
    SpecWork T nroot (fuel + 1) := by
  sorry

theorem init_step (hw : T.WFInv) (nroot fuel : Nat) (IH : AllSpecs T nroot fuel) :
    SpecInit T nroot (fuel + 1) := by
  sorry

theorem modParams_step (hw : T.WFInv) (nroot fuel : Nat) (IH : AllSpecs T nroot fuel) :
    SpecModParams T nroot (fuel + 1) := by
  sorry

theorem keyvals_step (hw : T.WFInv) (nroot fuel : Nat) (IH : AllSpecs T nroot fuel) :
    SpecKeyvals T nroot (fuel + 1) := by
  sorry

theorem value_step (hw : T.WFInv) (nroot fuel : Nat) (IH : AllSpecs T nroot fuel) :
    SpecValue T nroot (fuel + 1) := by
  sorry

theorem expandKv_step (hw : T.WFInv) (nroot fuel : Nat) (IH : AllSpecs T nroot fuel) :
    SpecExpandKv T nroot (fuel + 1) := by
  sorry

theorem modDesc_step (hw : T.WFInv) (nroot fuel : Nat) (IH : AllSpecs T nroot fuel) :
    SpecModDesc T nroot (fuel + 1) := by
  sorry

end Yalafi
