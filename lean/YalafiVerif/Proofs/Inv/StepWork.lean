/-
  Proofs/Inv/StepWork.lean — step lemmas of the range-invariant bundle: each shows the
  specification of one function at `fuel + 1` from all specifications at `fuel`.
-/
import YalafiVerif.Proofs.Inv.Basic
namespace Yalafi
set_option linter.unusedVariables false

variable (T : PTables)

/-! ### generic helpers (in namespace `StepWork` to avoid clashes with the other step files) -/
namespace StepWork

theorem Good_refl {T : PTables} {nroot : Nat} {st : PState} (h : G T nroot st) : Good T nroot st st :=
  ⟨h, rfl, rfl⟩

theorem Good_trans {T : PTables} {nroot : Nat} {a b c : PState}
    (h1 : Good T nroot a b) (h2 : Good T nroot b c) : Good T nroot a c :=
  ⟨h2.1, h2.2.1.trans h1.2.1, h2.2.2.trans h1.2.2⟩

theorem Good_len {T : PTables} {nroot : Nat} {a b : PState} (h : Good T nroot a b) :
    b.latex.length = a.latex.length := by rw [h.2.1]

/-- `Post_bind` with implicit arguments -/
theorem pbind {α β} {x : M α} {f : α → M β} {st : PState} {R : β → PState → Prop}
    (Q : α → PState → Prop) (hx : Post (x st) Q) (hf : ∀ a s, Q a s → Post (f a s) R) :
    Post ((x >>= f) st) R := Post_bind x f st Q R hx hf

theorem ppure {α} {a : α} {st : PState} {Q : α → PState → Prop} (h : Q a st) :
    Post ((pure a : M α) st) Q := Post_pure a st Q h

theorem pmono {α} {x : Outcome (α × PState)} {Q R : α → PState → Prop}
    (h : Post x Q) (hi : ∀ a s, Q a s → R a s) : Post x R := Post_mono x Q R h hi

/-! ### `cap_first` -/

theorem BTok_upperTok (n : Nat) (t : Tok) (txt : Str) (h : BTok T n t) (hk : t.kind = .text) :
    BTok T n (upperTok t txt) := by
  obtain ⟨⟨hp, he, hc, hm⟩, hmath⟩ := h
  refine ⟨⟨hp, ?_, ?_, ?_⟩, ?_⟩
  · intro hf
    simp only [upperTok] at hf ⊢
    split at hf
    · cases hf
    · rename_i hl
      have hl' : txt.length = t.txt.length := by simpa using hl
      have := he hf
      simp only [extent, hk] at this ⊢
      omega
  · simp [ctlEmpty, upperTok, hk]
  · simp [mbOk, upperTok, hk]
  · simp [isMathTok, upperTok, hk]

theorem capFirst_BL (n : Nat) (toks ts : List Tok) (h : BL T n toks) (hc : capFirst T toks = some ts) :
    BL T n ts := by
  unfold capFirst at hc
  split at hc
  · cases hc; exact h
  · rename_i i hi
    split at hc
    · cases hc; exact h
    · rename_i t ht
      split at hc
      · cases hc
      · cases hc
        intro x hx
        rcases List.mem_or_eq_of_mem_set hx with hx | hx
        · exact h x hx
        · subst hx
          have hmem : t ∈ toks := List.mem_of_getElem? ht
          apply BTok_upperTok T n t _ (h t hmem)
          rw [List.findIdx?_eq_some_iff_getElem] at hi
          obtain ⟨hlt, hp, _⟩ := hi
          rw [List.getElem?_eq_getElem hlt] at ht
          cases ht
          simpa using hp
/-! ### `parseValue` helpers -/

theorem Good_of_diags {T : PTables} {nroot : Nat} {st st' : PState} (hg : G T nroot st)
    (h : st' = { st with diags := st'.diags }) : Good T nroot st st' := by
  rw [h]; exact ⟨G_diags T nroot st _ hg, rfl, rfl⟩

theorem BTok_special (hw : T.WFInv) (n p : Nat) (k : Str) (hk : k ∈ [['{'], ['}'], ['\\', ';']])
    (hp : p < n) : BTok T n (mkTok .special p k) := by
  obtain ⟨v, hv, hl⟩ := hw.special_small k hk
  refine ⟨⟨hp, ?_, rfl, ?_⟩, rfl⟩
  · intro _
    simp only [extent, mkTok, hv, Option.getD_some]
    omega
  · simp [mbOk, mkTok, hv]

theorem BL_cons {T : PTables} {n : Nat} {t : Tok} {ts : List Tok} :
    BL T n (t :: ts) ↔ BTok T n t ∧ BL T n ts := by
  simp [BL]

theorem BL_nil {T : PTables} {n : Nat} : BL T n [] := by simp [BL]

theorem parseValue_seq_BL (hw : T.WFInv) (n : Nat) (t : Tok) (a : List Tok) (ht : t.pos < n)
    (ha : BL T n a) :
    BL T n (match (generalizing := false) a with
      | [v] => if v.kind == .void then [] else
          [mkTok .special t.pos ['{'], v, mkTok .special v.pos ['}']]
      | s => [mkTok .special t.pos ['{']] ++ s ++ [mkTok .special ((s.getLast?.map (·.pos)).getD 0) ['}']]) := by
  have h0 : 0 < n := by omega
  have hS := fun p k hk hp => BTok_special T hw n p k hk hp
  rcases a with _ | ⟨v, _ | ⟨w, tl⟩⟩
  · simp only [BL_cons, List.append_nil, List.nil_append, List.cons_append, List.getLast?_nil,
      Option.map_none, Option.getD_none]
    exact ⟨hS _ _ (by simp) ht, hS _ _ (by simp) h0, BL_nil⟩
  · have hv := ha v (by simp)
    dsimp only
    split
    · exact BL_nil
    · simp only [BL_cons]
      exact ⟨hS _ _ (by simp) ht, hv, hS _ _ (by simp) hv.1.1, BL_nil⟩
  · dsimp only
    rw [BL_append, BL_append]
    refine ⟨⟨?_, ha⟩, ?_⟩
    · simp only [BL_cons]; exact ⟨hS _ _ (by simp) ht, BL_nil⟩
    · simp only [BL_cons]
      refine ⟨hS _ _ (by simp) ?_, BL_nil⟩
      cases hl : (v :: w :: tl).getLast? with
      | none => simpa using h0
      | some l => simpa using (ha l (List.mem_of_getLast? hl)).1.1

/-! ### `parseKeyvals` helpers -/

theorem BL_sub {T : PTables} {n : Nat} {a b : List Tok} (hb : BL T n b) (h : a.Sublist b) : BL T n a :=
  fun t ht => hb t (h.subset ht)

theorem kvOk_snoc {T : PTables} {n : Nat} {acc : List (Str × Option (List Tok))} {k : Str}
    {v : Option (List Tok)} (ha : kvOk T n acc) (hv : ∀ ts, v = some ts → BL T n ts) :
    kvOk T n (acc ++ [(k, v)]) := by
  intro kv hkv ts hts
  rcases List.mem_append.1 hkv with h | h
  · exact ha kv h ts hts
  · simp only [List.mem_singleton] at h
    subst h
    exact hv ts hts

/-! ### state helpers -/

theorem pget {st : PState} : Post (M.get st) (fun a s => st = a ∧ st = s) :=
  Post_get st _ ⟨rfl, rfl⟩

theorem pmodify {f : PState → PState} {st : PState} : Post (M.modify f st) (fun _ s => s = f st) :=
  Post_modify f st _ rfl

theorem G0_congr {T : PTables} {nroot : Nat} {st st' : PState} (h : G0 T nroot st)
    (hf : st'.foreign = st.foreign) (he : st'.extracted = st.extracted) (hm : st'.macros = st.macros)
    (hv : st'.envs = st.envs) (hgl : st'.glossary = st.glossary)
    (hi : st'.itemStack = st.itemStack) (hl : st'.langStack = st.langStack) (hr : st'.rots = st.rots)
    (hu : st'.unknowns = st.unknowns) :
    G0 T nroot st' := by
  refine ⟨?_, ?_, ?_, ?_, ?_, ?_, ?_, ?_⟩
  · rw [hf, he]; exact h.flows
  · rw [hm, hv]; exact h.macros
  · rw [hv]; exact h.envs
  · rw [hgl]; exact h.gloss
  · rw [hi]; exact h.items
  · rw [hl]; exact h.langs
  · unfold rotOf; rw [hr]; exact h.rots
  · rw [hu]; exact h.unk

/-! ### `getTextExpanded` on the empty list (no token to take the position of) -/

theorem getTextExpanded_nil (T : PTables) (fuel : Nat) (st : PState) :
    Post (getTextExpanded T fuel [] st) (fun txt s => txt = [] ∧ s = st) := by
  cases fuel with
  | zero => rw [getTextExpanded.eq_1]; exact Post_outOfFuel _ _
  | succ fuel =>
    rw [getTextExpanded.eq_2]
    refine pbind (fun r s => r.1 = [] ∧ s = st) ?_ ?_
    · cases fuel with
      | zero => rw [expandSequence.eq_1]; exact Post_outOfFuel _ _
      | succ fuel =>
        rw [expandSequence.eq_2]
        have : removeLines [] = some [] := by decide
        rw [this]
        exact ppure ⟨rfl, rfl⟩
    · rintro r s ⟨hr, rfl⟩
      refine ppure ⟨?_, rfl⟩
      rw [hr]; rfl

/-! ### `modifyParameters` / `initPackage` -/

section
variable (nroot : Nat)

theorem mem_setMacro {ms : List MacroDef} {x m : MacroDef} (h : m ∈ setMacro ms x) : m ∈ ms ∨ m = x := by
  unfold setMacro at h
  split at h
  · obtain ⟨y, hy, rfl⟩ := List.mem_map.1 h
    split
    · exact Or.inr rfl
    · exact Or.inl hy
  · rcases List.mem_append.1 h with h | h
    · exact Or.inl h
    · exact Or.inr (by simpa using h)

theorem mem_foldl_setMacro {xs ms : List MacroDef} {m : MacroDef} (h : m ∈ xs.foldl setMacro ms) :
    m ∈ ms ∨ m ∈ xs := by
  induction xs generalizing ms with
  | nil => exact Or.inl h
  | cons x xs ih =>
    rcases ih h with h | h
    · rcases mem_setMacro h with h | h
      · exact Or.inl h
      · exact Or.inr (by simp [h])
    · exact Or.inr (by simp [h])

theorem injOk_babel (opts : List KeyVal) : injOk (babelLanguageToken T opts) := by
  unfold babelLanguageToken
  split
  · intro t ht
    simp only [List.mem_singleton] at ht
    subst ht
    exact Or.inl ⟨rfl, rfl⟩
  · intro t ht; cases ht

/-- an error mark consists of pinned text tokens -/
theorem injOk_latexErrorToks (T' : Tables) (err : Str) (pos n : Nat) : injOk (latexErrorToks T' err pos n) := by
  unfold latexErrorToks
  intro t ht
  dsimp only at ht
  split at ht
  · simp only [List.mem_cons, List.not_mem_nil, or_false] at ht
    rcases ht with rfl | rfl <;> exact Or.inr ⟨rfl, rfl⟩
  · simp only [List.mem_singleton] at ht
    subst ht
    exact Or.inr ⟨rfl, rfl⟩

theorem injOk_nil : injOk [] := by intro t ht; cases ht

theorem injOk_append {a b : List Tok} (ha : injOk a) (hb : injOk b) : injOk (a ++ b) := by
  intro t ht
  rcases List.mem_append.1 ht with h | h
  · exact ha t h
  · exact hb t h

theorem G_of_G0_Same {T : PTables} {nroot : Nat} {st st' : PState} (hg : G T nroot st) (h0 : G0 T nroot st')
    (hs : Same st st') : Good T nroot st st' := by
  refine ⟨⟨h0, ?_, ?_⟩, hs⟩
  · rw [hs.1, hs.2]; exact hg.root
  · rw [hs.2]; exact hg.inFrame

theorem modParams_core (fuel : Nat) (IHwork : SpecWork T nroot fuel) :
    SpecModParams T nroot (fuel + 1) := by
  intro md options position st hg hm he
  rw [modifyParameters.eq_2]
  split
  · exact Post_crash _ _ _ (by simp [allowedCrash])
  · refine pbind _ pget ?_
    rintro _ _ ⟨rfl, rfl⟩
    dsimp only
    have hinj0 : injOk (if md.babelInject = true then babelLanguageToken T (st.globalOptions ++ options) else []) := by
      split
      · exact injOk_babel T _
      · exact injOk_nil
    generalize (if md.babelInject = true then babelLanguageToken T (st.globalOptions ++ options) else []) = inject0
      at hinj0 ⊢
    -- cleveref's warning: an error mark, only the diagnostics change
    refine pbind (fun c s => Good T nroot st s ∧ injOk c) ?_ ?_
    · split
      · exact ⟨⟨G_diags T nroot st _ hg, rfl, rfl⟩, injOk_latexErrorToks _ _ _ _⟩
      · exact ppure ⟨Good_refl hg, injOk_nil⟩
    intro cinj s0 ⟨hgood0, hcinj⟩
    have hg0 := hgood0.1
    have hinj : injOk (inject0 ++ cinj) := injOk_append hinj0 hcinj
    generalize inject0 ++ cinj = inject at hinj ⊢
    refine pbind _ pmodify ?_
    intro _ s1 hs1
    have hgood1 : Good T nroot s0 s1 := by
      refine ⟨⟨⟨?_, ?_, ?_, ?_, ?_, ?_, ?_, ?_⟩, ?_, ?_⟩, ?_, ?_⟩ <;> rw [hs1]
      · exact hg0.flows
      · intro m hmem
        rcases List.mem_append.1 hmem with h | h
        · rcases mem_foldl_setMacro h with h | h
          · exact hg0.macros m (by simp [h])
          · exact hm m (by simp [h])
        · rcases mem_foldl_setMacro h with h | h
          · exact hg0.macros m (by simp [h])
          · exact hm m (by simp [h])
      · intro e hmem
        rcases mem_foldl_setMacro hmem with h | h
        · exact hg0.envs e h
        · exact he e h
      · exact hg0.gloss
      · exact hg0.items
      · exact hg0.langs
      · exact hg0.rots
      · exact hg0.unk
      · exact hg0.root
      · exact hg0.inFrame
    clear hs1
    split
    · have hw1 := IHwork md.macrosLatex s1 hgood1.1.toG0 (fun h => absurd h hgood1.1.inFrame) hgood1.1.root
      refine pbind _ hw1 ?_
      intro _ s2 ⟨g0, hs, _⟩
      exact ppure ⟨Good_trans hgood0 (Good_trans hgood1 (G_of_G0_Same hgood1.1 g0 hs)), hinj⟩
    · exact ppure ⟨Good_trans hgood0 hgood1, hinj⟩
theorem Post_foldlM {α β} (f : β → α → M β) (I : β → PState → Prop) (l : List α) (b : β) (st : PState)
    (hI : I b st) (hf : ∀ b a s, a ∈ l → I b s → Post (f b a s) I) : Post (l.foldlM f b st) I := by
  induction l generalizing b st with
  | nil => rw [List.foldlM_nil]; exact ppure hI
  | cons a l ih =>
    rw [List.foldlM_cons]
    refine pbind I (hf b a st (by simp) hI) ?_
    intro b' s' h'
    exact ih b' s' h' (fun b a s ha => hf b a s (by simp [ha]))

theorem init_core (P : ModuleDef → Prop) (fuel : Nat)
    (hfound : ∀ requ, P ((findModule T false requ).getD (emptyModule requ)))
    (IHmod : ∀ (md : ModuleDef) (options : List KeyVal) (position : Nat) (st : PState), G T nroot st → P md →
      Post (modifyParameters T fuel md options position st) (fun r st' => Good T nroot st st' ∧ injOk r))
    (IHinit : ∀ (name : Str) (md : ModuleDef) (builtin : Bool) (options : List KeyVal) (position : Nat)
      (st : PState), G T nroot st → P md →
      Post (initPackage T fuel name md builtin options position st) (fun r st' => Good T nroot st st' ∧ injOk r))
    (name : Str) (md : ModuleDef) (builtin : Bool) (options : List KeyVal) (position : Nat) (st : PState)
    (hg : G T nroot st) (hmd : P md) :
    Post (initPackage T (fuel + 1) name md builtin options position st)
      (fun r st' => Good T nroot st st' ∧ injOk r) := by
  rw [initPackage.eq_2]
  refine pbind _ pget ?_
  rintro _ _ ⟨rfl, rfl⟩
  split
  · exact ppure ⟨Good_refl hg, injOk_nil⟩
  · apply Post_catchAll
    refine pbind (fun acc s => Good T nroot st s ∧ injOk acc) ?_ ?_
    · apply Post_foldlM
      · exact ⟨Good_refl hg, injOk_nil⟩
      · intro acc requ s _ ⟨hgood, hacc⟩
        refine pbind _ pget ?_
        rintro _ _ ⟨rfl, rfl⟩
        dsimp only
        split
        · refine pbind _ (IHinit requ _ false options position s hgood.1 (hfound requ)) ?_
          intro o s' ⟨g', ho⟩
          exact ppure ⟨Good_trans hgood g', injOk_append hacc ho⟩
        · exact ppure ⟨hgood, hacc⟩
    · intro reqOut s ⟨hgood, hacc⟩
      dsimp only
      have hjp : ∀ s1, Good T nroot st s1 →
          Post ((do let o ← modifyParameters T fuel md options position; pure (reqOut ++ o)) s1)
            (fun r st' => Good T nroot st st' ∧ injOk r) := by
        intro s1 hgood1
        refine pbind _ (IHmod md options position s1 hgood1.1 hmd) ?_
        intro o s' ⟨g', ho⟩
        exact ppure ⟨Good_trans hgood1 g', injOk_append hacc ho⟩
      split
      · refine pbind _ pmodify ?_
        intro _ s1 hs1
        refine hjp s1 ?_
        rw [hs1]
        exact Good_trans hgood ⟨⟨G0_congr hgood.1.toG0 rfl rfl rfl rfl rfl rfl rfl rfl rfl, hgood.1.root, hgood.1.inFrame⟩, rfl, rfl⟩
      · exact hjp s hgood
theorem findModule_mem {cls : Bool} {name : Str} {m : ModuleDef} (h : findModule T cls name = some m) :
    m ∈ T.packageModules ++ T.classModules := by
  unfold findModule at h
  split at h
  · cases h
  · have := List.mem_of_find?_eq_some h
    split at this
    · exact List.mem_append.2 (Or.inr this)
    · exact List.mem_append.2 (Or.inl this)

theorem found_macrosOk (hw : T.WFInv) (cls : Bool) (requ : Str) :
    ∀ m ∈ ((findModule T cls requ).getD (emptyModule requ)).macros ++
      ((findModule T cls requ).getD (emptyModule requ)).envs, macroToksOk T m = true := by
  cases h : findModule T cls requ with
  | none => intro m hm; simp [emptyModule] at hm
  | some md => exact hw.modules_ok md (findModule_mem T h)

theorem found_envsOk (hw : T.WFInv) (cls : Bool) (requ : Str) :
    ∀ e ∈ ((findModule T cls requ).getD (emptyModule requ)).envs, envOk T e = true := by
  cases h : findModule T cls requ with
  | none => intro m hm; simp [emptyModule] at hm
  | some md =>
    intro e he
    refine hw.envs_ok e ?_
    unfold allTableEnvs
    exact List.mem_append.2 (Or.inr (List.mem_flatMap.2 ⟨md, findModule_mem T h, he⟩))

end

end StepWork
open StepWork

theorem work_step (hw : T.WFInv) (nroot fuel : Nat) (IH : AllSpecs T nroot fuel) :
    SpecWork T nroot (fuel + 1) := by
  intro latex st hg h0 h1
  rw [parserWork.eq_2]
  refine pbind _ pget ?_
  rintro _ _ ⟨rfl, rfl⟩
  refine pbind _ pmodify ?_
  intro _ s1 hs1
  refine pbind _ pmodify ?_
  intro _ s2 hs2
  rw [hs1] at hs2
  clear hs1 s1
  have hl2 : s2.latex = latex := by rw [hs2]
  have hn2 : s2.nest = st.nest + 1 := by rw [hs2]
  have hG2 : G T nroot s2 := by
    refine ⟨G0_congr hg (by rw [hs2]) (by rw [hs2]) (by rw [hs2]) (by rw [hs2]) (by rw [hs2])
      (by rw [hs2]) (by rw [hs2]) (by rw [hs2]) (by rw [hs2]), ?_, ?_⟩
    · rw [hn2, hl2]; intro h; exact h0 (by omega)
    · rw [hn2]; omega
  clear hs2
  refine pbind _ pget ?_
  rintro _ _ ⟨rfl, rfl⟩
  dsimp only
  refine pbind (fun toks s3 => BL T latex.length toks ∧ s3 = { s2 with diags := s3.diags }) ?_ ?_
  · have hsp := skipPass_BL T latex.length s2 ((scan T.toTables latex).toks.length + 1)
      (scan T.toTables latex).toks [] (scan_BL T hw latex) BL_nil
    generalize skipPass s2 _ _ _ = sp at hsp ⊢
    obtain ⟨p1, p2, p3⟩ := hsp
    cases hb : sp.2.1 with
    | none => exact ppure ⟨p1, rfl⟩
    | some bpos =>
      dsimp only
      have hlt := p3 bpos hb
      refine pbind _ (latexError_spec T hw _ bpos s2 (by rw [hl2]; exact hlt)) ?_
      intro er s3 ⟨he, hs3⟩
      rw [hl2] at he
      exact ppure ⟨by rw [BL_append, BL_append]; exact ⟨⟨p1, OL_BL T _ _ he⟩, p2⟩, hs3⟩
  · intro toks s3 ⟨ht, hs3⟩
    have hgood3 := Good_of_diags hG2 hs3
    have hl3 : s3.latex = latex := by rw [hgood3.2.1, hl2]
    refine pbind _ (IH.seq toks none [] s3 hgood3.1 (by rw [hl3]; exact ht) (by intro x hx; cases hx)) ?_
    intro r s4 ⟨g4, _, _, ho⟩
    refine pbind _ pmodify ?_
    intro _ s5 hs5
    refine ppure ⟨?_, ⟨?_, ?_⟩, ?_⟩
    · rw [hs5]; exact G0_congr g4.1.toG0 rfl rfl rfl rfl rfl rfl rfl rfl rfl
    · rw [hs5]
    · rw [hs5]; show s4.nest - 1 = st.nest; rw [g4.2.2, hgood3.2.2, hn2]; omega
    · have := ho rfl; rw [hl3] at this; exact this


theorem init_step (hw : T.WFInv) (nroot fuel : Nat) (IH : AllSpecs T nroot fuel) :
    SpecInit T nroot (fuel + 1) := by
  intro name md builtin options position st hg hm he
  exact init_core T nroot
    (fun md => (∀ m ∈ md.macros ++ md.envs, macroToksOk T m = true) ∧ (∀ e ∈ md.envs, envOk T e = true)) fuel
    (fun requ => ⟨found_macrosOk T hw false requ, found_envsOk T hw false requ⟩)
    (fun md o p st hg hp => IH.modParams md o p st hg hp.1 hp.2)
    (fun nm md b o p st hg hp => IH.init nm md b o p st hg hp.1 hp.2)
    name md builtin options position st hg ⟨hm, he⟩

theorem modParams_step (hw : T.WFInv) (nroot fuel : Nat) (IH : AllSpecs T nroot fuel) :
    SpecModParams T nroot (fuel + 1) := by
  exact modParams_core T nroot fuel IH.work

theorem keyvals_step (hw : T.WFInv) (nroot fuel : Nat) (IH : AllSpecs T nroot fuel) :
    SpecKeyvals T nroot (fuel + 1) := by
  intro buf acc st hg hb ha
  rw [parseKeyvals.eq_2]
  have hsk := BL_skipSpace T _ _ hb
  cases hb' : skipSpace buf with
  | nil => exact ppure ⟨Good_refl hg, ha⟩
  | cons t0 l0 =>
    rw [hb'] at hsk
    dsimp only
    generalize t0 :: l0 = b at hsk
    refine pbind (fun _ s => Good T nroot st s)
      (IH.text _ st hg (BL_sub hsk (List.takeWhile_sublist _))) ?_
    intro key s hgood
    have hlen := Good_len hgood
    have hb1 := BL_skipSpace T _ _ (BL_sub hsk (List.drop_sublist
      (List.takeWhile (fun t => t.kind == Kind.text && !(txtIs t "=" || txtIs t ",")) b).length b))
    have hnone : kvOk T st.latex.length (acc ++ [(key, none)]) :=
      kvOk_snoc ha (by intro ts h; cases h)
    cases hb1' : skipSpace (List.drop
      (List.takeWhile (fun t => t.kind == Kind.text && !(txtIs t "=" || txtIs t ",")) b).length b) with
    | nil => exact ppure ⟨hgood, hnone⟩
    | cons t rest =>
      rw [hb1'] at hb1
      have hrest : BL T st.latex.length rest := fun x hx => hb1 x (by simp [hx])
      dsimp only
      split
      · refine pmono (IH.keyvals rest _ s hgood.1 (by rw [hlen]; exact hrest) (by rw [hlen]; exact hnone)) ?_
        intro a s' ⟨g, k⟩
        rw [hlen] at k
        exact ⟨Good_trans hgood g, k⟩
      · refine pbind _ (IH.value (skipSpace rest) [] s hgood.1
          (by rw [hlen]; exact BL_skipSpace T _ _ hrest) BL_nil) ?_
        intro r s2 ⟨g2, r1, r2⟩
        rw [hlen] at r1 r2
        have hgood2 := Good_trans hgood g2
        have hlen2 := Good_len hgood2
        refine pmono (IH.keyvals _ _ s2 hgood2.1 (by rw [hlen2]; exact BL_sub r2 (List.drop_sublist 1 _))
          (by
            rw [hlen2]
            refine kvOk_snoc ha ?_
            intro ts hts
            cases hts
            split
            · split
              · exact BL_sub r1 (List.dropLast_sublist _)
              · exact r1
            · exact r1)) ?_
        intro a s' ⟨g, k⟩
        rw [hlen2] at k
        exact ⟨Good_trans hgood2 g, k⟩


theorem value_step (hw : T.WFInv) (nroot fuel : Nat) (IH : AllSpecs T nroot fuel) :
    SpecValue T nroot (fuel + 1) := by
  intro buf val st hg hb hv
  cases buf with
  | nil => rw [parseValue.eq_2]; exact ppure ⟨Good_refl hg, hv, BL_nil⟩
  | cons t rest =>
    rw [parseValue.eq_3]
    have ht := (hb t (by simp)).1.1
    split
    · exact ppure ⟨Good_refl hg, hv, hb⟩
    · split
      · refine pbind _ (argBuffer_spec T hw (t :: rest) 0 true st hb (by omega)) ?_
        intro r s ⟨h1, _, h2, hs⟩
        have hgood := Good_of_diags hg hs
        have hlen := Good_len hgood
        split
        · -- no closing brace: the brace is an ordinary token of the value
          refine pmono (IH.value (r.2.drop 1) _ s hgood.1
            (by rw [hlen]; exact BL_sub h2 (List.drop_sublist 1 _)) ?_) ?_
          · rw [hlen, BL_append]
            exact ⟨hv, by simp only [BL_cons]; exact ⟨hb t (by simp), BL_nil⟩⟩
          · intro a s' ⟨g, b1, b2⟩
            rw [hlen] at b1 b2
            exact ⟨Good_trans hgood g, b1, b2⟩
        · refine pmono (IH.value r.2 _ s hgood.1 (by rw [hlen]; exact h2) ?_) ?_
          · rw [hlen, BL_append]
            exact ⟨hv, parseValue_seq_BL T hw _ t r.1 ht h1⟩
          · intro a s' ⟨g, b1, b2⟩
            rw [hlen] at b1 b2
            exact ⟨Good_trans hgood g, b1, b2⟩
      · refine IH.value rest _ st hg ?_ ?_
        · exact fun x hx => hb x (by simp [hx])
        · rw [BL_append]; exact ⟨hv, by simp only [BL_cons]; exact ⟨hb t (by simp), BL_nil⟩⟩


theorem expandKv_step (hw : T.WFInv) (nroot fuel : Nat) (IH : AllSpecs T nroot fuel) :
    SpecExpandKv T nroot (fuel + 1) := by
  intro kvs st hg hk
  cases kvs with
  | nil => rw [expandKeyvals.eq_2]; exact Post_pure _ _ _ (Good_refl hg)
  | cons kv kvs =>
    obtain ⟨k, v⟩ := kv
    have hrest : ∀ s, Good T nroot st s →
        Post (expandKeyvals T fuel kvs s) (fun _ s' => Good T nroot st s') := by
      intro s h
      have := IH.expandKv kvs s h.1 (by rw [h.2.1]; intro kv hkv; exact hk kv (by simp [hkv]))
      exact Post_mono _ _ _ this (fun a s' h' => Good_trans h h')
    cases v with
    | none =>
      rw [expandKeyvals.eq_3]
      refine pbind (fun _ s => Good T nroot st s) (ppure (Good_refl hg)) ?_
      intro a s h
      refine pbind (fun _ s' => Good T nroot st s') (hrest s h) ?_
      intro a s h; exact ppure h
    | some toks =>
      rw [expandKeyvals.eq_4]
      refine pbind (fun _ s => Good T nroot st s) ?_ ?_
      · refine pbind (fun _ s => Good T nroot st s) ?_ ?_
        · exact IH.text toks st hg (hk (k, some toks) (by simp) _ rfl)
        · intro a s h; exact ppure h
      · intro a s h
        refine pbind (fun _ s' => Good T nroot st s') (hrest s h) ?_
        intro a s h; exact ppure h

theorem modDesc_step (hw : T.WFInv) (nroot fuel : Nat) (IH : AllSpecs T nroot fuel) :
    SpecModDesc T nroot (fuel + 1) := by
  intro toks st hg hb
  rw [modifyDescription.eq_2]
  cases hc : capFirst T toks with
  | none => exact Post_crash _ _ _ (by simp [allowedCrash])
  | some ts =>
    dsimp only
    have hts := capFirst_BL T _ _ _ hb hc
    by_cases hnil : ts = []
    · -- `toks[-1]` is never evaluated: the expanded text of no tokens is empty
      subst hnil
      refine pbind _ (getTextExpanded_nil T fuel st) ?_
      rintro txt s ⟨rfl, rfl⟩
      exact ppure ⟨Good_refl hg, hts⟩
    refine pbind (fun _ s => Good T nroot st s) (IH.text ts st hg hts) ?_
    intro txt s h
    cases txt.getLast? with
    | none => exact ppure ⟨h, hts⟩
    | some c =>
      dsimp only
      split
      · exact ppure ⟨h, hts⟩
      · cases hl : ts.getLast? with
        | none => exact absurd (List.getLast?_eq_none_iff.1 hl) hnil
        | some l =>
          refine ppure ⟨h, ?_⟩
          rw [BL_append]
          refine ⟨hts, ?_⟩
          intro x hx
          simp only [List.mem_singleton] at hx
          subst hx
          have hlm : l ∈ ts := List.mem_of_getLast? hl
          exact OTok_BTok T _ _ (OTok_mkFix T _ _ _ _ (hts l hlm).1.1 (Or.inl rfl))

end Yalafi
