/-
  Proofs/Inv/StepEnv.lean — step lemmas of the range-invariant bundle: each shows the
  specification of one function at `fuel + 1` from all specifications at `fuel`.
-/
import YalafiVerif.Proofs.Inv.Basic
namespace Yalafi

variable (T : PTables)

theorem text_step (hw : T.WFInv) (nroot fuel : Nat) (IH : AllSpecs T nroot fuel) :
    SpecText T nroot (fuel + 1) := by
  sorry

theorem envName_step (hw : T.WFInv) (nroot fuel : Nat) (IH : AllSpecs T nroot fuel) :
    SpecEnvName T nroot (fuel + 1) := by
  sorry

theorem begin_step (hw : T.WFInv) (nroot fuel : Nat) (IH : AllSpecs T nroot fuel) :
    SpecBegin T nroot (fuel + 1) := by
  sorry

theorem end_step (hw : T.WFInv) (nroot fuel : Nat) (IH : AllSpecs T nroot fuel) :
    SpecEnd T nroot (fuel + 1) := by
  sorry

theorem macro_step (hw : T.WFInv) (nroot fuel : Nat) (IH : AllSpecs T nroot fuel) :
    SpecMacro T nroot (fuel + 1) := by
  sorry

theorem args_step (hw : T.WFInv) (nroot fuel : Nat) (IH : AllSpecs T nroot fuel) :
    SpecArgs T nroot (fuel + 1) := by
  sorry

theorem item_step (hw : T.WFInv) (nroot fuel : Nat) (IH : AllSpecs T nroot fuel) :
    SpecItem T nroot (fuel + 1) := by
  sorry

theorem accent_step (hw : T.WFInv) (nroot fuel : Nat) (IH : AllSpecs T nroot fuel) :
    SpecAccent T nroot (fuel + 1) := by
  sorry

end Yalafi
