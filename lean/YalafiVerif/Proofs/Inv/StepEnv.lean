/-
  Proofs/Inv/StepEnv.lean — step lemmas of the range-invariant bundle: each shows the
  specification of one function at `fuel + 1` from all specifications at `fuel`.
-/
import YalafiVerif.Proofs.Inv.Basic
import YalafiVerif.Proofs.Inv.NcEnv
namespace Yalafi
open NcEnv

variable (T : PTables)

/-! ### frame helpers (all helpers are `private`: no clashes with the other step files) -/

private theorem Good_refl (nroot : Nat) (st : PState) (h : G T nroot st) : Good T nroot st st :=
  ⟨h, rfl, rfl⟩

private theorem Good_trans (nroot : Nat) (a b c : PState) (h1 : Good T nroot a b) (h2 : Good T nroot b c) :
    Good T nroot a c :=
  ⟨h2.1, h2.2.1.trans h1.2.1, h2.2.2.trans h1.2.2⟩

private theorem Good_len (nroot : Nat) (a b : PState) (h : Good T nroot a b) : b.latex.length = a.latex.length := by
  rw [h.2.1]

private theorem Good_diags (nroot : Nat) (st st' : PState) (h : G T nroot st)
    (he : st' = { st with diags := st'.diags }) : Good T nroot st st' := by
  rw [he]
  exact ⟨G_diags T nroot st _ h, rfl, rfl⟩

private theorem Post_get_bind {β} (f : PState → M β) (st : PState) (R : β → PState → Prop)
    (h : Post (f st st) R) : Post ((M.get >>= f) st) R := by
  apply Post_bind _ _ _ (Q := fun a s => st = a ∧ st = s)
  · exact Post_get _ _ ⟨rfl, rfl⟩
  · rintro _ _ ⟨rfl, rfl⟩
    exact h

private theorem G_congr (nroot : Nat) (st st' : PState) (h : G T nroot st)
    (h1 : st'.foreign = st.foreign) (h2 : st'.extracted = st.extracted) (h3 : st'.macros = st.macros)
    (h4 : st'.envs = st.envs) (h5 : st'.glossary = st.glossary) (h6 : st'.nest = st.nest)
    (h7 : st'.latex = st.latex) (h8 : st'.itemStack ≠ []) (h9 : st'.langStack = st.langStack)
    (h10 : st'.rots = st.rots) (h11 : st'.unknowns.Nodup) : G T nroot st' := by
  refine ⟨⟨?_, ?_, ?_, ?_, h8, ?_, ?_, h11⟩, ?_, ?_⟩
  · rw [h1, h2]; exact h.flows
  · rw [h3, h4]; exact h.macros
  · rw [h4]; exact h.envs
  · rw [h5]; exact h.gloss
  · rw [h9]; exact h.langs
  · have hr := h.rots
    unfold rotOf at hr ⊢
    rw [h10]; exact hr
  · rw [h6, h7]; exact h.root
  · rw [h6]; exact h.inFrame

private theorem Good_congr (nroot : Nat) (st st' : PState) (h : G T nroot st)
    (h1 : st'.foreign = st.foreign) (h2 : st'.extracted = st.extracted) (h3 : st'.macros = st.macros)
    (h4 : st'.envs = st.envs) (h5 : st'.glossary = st.glossary) (h6 : st'.nest = st.nest)
    (h7 : st'.latex = st.latex) (h8 : st'.itemStack ≠ []) (h9 : st'.langStack = st.langStack)
    (h10 : st'.rots = st.rots) (h11 : st'.unknowns.Nodup) : Good T nroot st st' :=
  ⟨G_congr T nroot st st' h h1 h2 h3 h4 h5 h6 h7 h8 h9 h10 h11, h7, h6⟩

private theorem addUnknown_spec (nroot : Nat) (name : Str) (math : Bool) (st : PState) (h : G T nroot st) :
    Post (addUnknown name math st) (fun _ s => Good T nroot st s) := by
  unfold addUnknown
  apply Post_modify
  split
  · exact Good_refl T nroot st h
  · rename_i hc
    refine Good_congr T nroot st _ h rfl rfl rfl rfl rfl rfl rfl h.items rfl rfl ?_
    show (st.unknowns ++ [name]).Nodup
    have hn : name ∉ st.unknowns := by
      intro hmem
      apply hc
      simp [hmem]
    exact List.nodup_append.2 ⟨h.unk, (by simp), by
      intro a ha b hb; simp only [List.mem_singleton] at hb; subst hb; intro e; exact hn (e ▸ ha)⟩

private theorem lookupEnv_mem (st : PState) (name : Str) (env : MacroDef) (h : lookupEnv st name = some env) :
    env ∈ st.envs ∧ env.name = name := by
  unfold lookupEnv at h
  exact ⟨List.mem_of_find?_eq_some h, by simpa using List.find?_some h⟩

private theorem lookupMacro_mem (st : PState) (name : Str) (m : MacroDef) (h : lookupMacro st name = some m) :
    m ∈ st.macros := by
  unfold lookupMacro at h
  exact List.mem_of_find?_eq_some h

theorem text_step (hw : T.WFInv) (nroot fuel : Nat) (IH : AllSpecs T nroot fuel) :
    SpecText T nroot (fuel + 1) := by
  intro toks st hg hb
  simp only [getTextExpanded]
  apply Post_bind _ _ _ (Q := fun _ s => Good T nroot st s)
  · exact Post_mono _ _ _ (IH.seq toks none [] st hg hb (by intro t ht; cases ht)) (fun a s h => h.1)
  · intro a s h
    exact Post_pure _ _ _ h

theorem envName_step (hw : T.WFInv) (nroot fuel : Nat) (IH : AllSpecs T nroot fuel) :
    SpecEnvName T nroot (fuel + 1) := by
  intro buf tok st hg hb ht
  simp only [getEnvironmentName]
  apply Post_bind _ _ _ (Q := fun r s => Good T nroot st s ∧ BL T st.latex.length r.1 ∧ BL T st.latex.length r.2)
  · refine Post_mono _ _ _ (argBuffer_spec T hw buf tok.pos true st hb ht.1.1) ?_
    intro a s h
    exact ⟨Good_diags T nroot st s hg h.2.2.2, h.1, h.2.2.1⟩
  · intro r s h
    have hl := Good_len T nroot _ _ h.1
    apply Post_bind _ _ _ (Q := fun _ s' => Good T nroot st s')
    · refine Post_mono _ _ _ (IH.text r.1 s h.1.1 (by rw [hl]; exact h.2.1)) ?_
      intro a s' h'
      exact Good_trans T nroot _ _ _ h.1 h'
    · intro a s' h'
      exact Post_pure _ _ _ ⟨h', h.2.2⟩

private theorem BL_nil (n : Nat) : BL T n [] := by intro t ht; cases ht
private theorem OL_nil (n : Nat) : OL T n [] := by intro t ht; cases ht
private theorem BL_cons (n : Nat) (a : Tok) (l : List Tok) : BL T n (a :: l) ↔ BTok T n a ∧ BL T n l := by
  simp [BL]
private theorem OL_cons (n : Nat) (a : Tok) (l : List Tok) : OL T n (a :: l) ↔ OTok T n a ∧ OL T n l := by
  simp [OL]

private theorem OL_out0 (n : Nat) (b : Bool) (p : Nat) (hp : p < n) :
    OL T n (if b = true then [mkFix Kind.par p [nl, nl]] else [mkAction p]) := by
  split
  · exact (OL_cons T _ _ _).2 ⟨OTok_mkFix T n p _ _ hp (by simp), OL_nil T n⟩
  · exact (OL_cons T _ _ _).2 ⟨OTok_mkAction T n p hp, OL_nil T n⟩

private theorem BTok_mathBegin (n p : Nat) (b : Bool) (name : Str) (hp : p < n)
    (hn : (endFuncNames T).contains name = false) :
    BTok T n { kind := .mathBegin b, pos := p, txt := name } := by
  have hn' : name ∉ endFuncNames T := by simpa using hn
  simp [BTok, TokOk, extent, ctlEmpty, mbOk, isMathTok, hn']
  omega

private theorem envOk_equ (e : MacroDef) (h : envOk T e = true) (hq : e.isEqu = true) :
    (endFuncNames T).contains e.name = false := by
  simp [envOk, hq] at h
  simpa using h.1.1

private theorem envOk_endFunc (e : MacroDef) (h : envOk T e = true) (hn : (endFuncNames T).contains e.name = false) :
    e.endFunc = .none := by
  have hn' : e.name ∉ endFuncNames T := by simpa using hn
  simp [envOk, hn'] at h
  exact h.1

private def beginTail (T : PTables) (fuel : Nat) (r : Str × Buf) (env : MacroDef) (tok : Tok) : M (List Tok × Buf) := do
  let out0 := if env.addPars then [mkFix .par tok.pos [nl, nl]] else [mkAction tok.pos]
  let a ← expandArguments T fuel r.2 env tok.pos
  if env.isEqu then
    pure (out0 ++ a.1 ++ [{ kind := .mathBegin env.remove, pos := tok.pos, txt := r.1 }], a.2)
  else if env.remove then do
    let s ← expandSequence T fuel a.2 (some r.1) []
    pure (out0 ++ a.1 ++ s.1, s.2)
  else pure (out0 ++ a.1, a.2)

private theorem beginTail_spec (nroot fuel : Nat) (IH : AllSpecs T nroot fuel) (st s : PState) (r : Str × Buf)
    (env : MacroDef) (tok : Tok) (hs : Good T nroot st s) (hr : BL T st.latex.length r.2)
    (ht : BTok T st.latex.length tok) (hmac : macroToksOk T env = true) (henv : envOk T env = true)
    (hname : env.name = r.1) :
    Post (beginTail T fuel r env tok s) (fun r st' =>
      Good T nroot st st' ∧ BL T st.latex.length r.1 ∧ BL T st.latex.length r.2) := by
  have hl : s.latex = st.latex := hs.2.1
  rw [← hl] at hr ht ⊢
  have hout := OL_BL T _ _ (OL_out0 T s.latex.length env.addPars tok.pos ht.1.1)
  simp only [beginTail]
  apply Post_bind _ _ _ (Q := fun a s' => Good T nroot s s' ∧ BL T s.latex.length a.1 ∧ BL T s.latex.length a.2)
  · exact IH.args r.2 env tok.pos s hs.1 hr hmac ht.1.1
  · intro a s' ha
    have hl' : s'.latex = s.latex := ha.1.2.1
    split
    · rename_i hequ
      apply Post_pure
      refine ⟨Good_trans T nroot _ _ _ hs ha.1, ?_, ha.2.2⟩
      rw [BL_append, BL_append]
      refine ⟨⟨hout, ha.2.1⟩, (BL_cons T _ _ _).2 ⟨?_, BL_nil T _⟩⟩
      apply BTok_mathBegin T _ _ _ _ ht.1.1
      rw [← hname]
      exact envOk_equ T env henv hequ
    · split
      · apply Post_bind _ _ _ (Q := fun q s'' => Good T nroot s' s'' ∧ BL T s'.latex.length q.1 ∧ BL T s'.latex.length q.2)
        · refine Post_mono _ _ _ (IH.seq a.2 (some r.1) [] s' ha.1.1 (by rw [hl']; exact ha.2.2) (OL_nil T _)) ?_
          intro q s'' hq
          exact ⟨hq.1, hq.2.1, hq.2.2.1⟩
        · intro q s'' hq
          rw [hl'] at hq
          apply Post_pure
          refine ⟨Good_trans T nroot _ _ _ hs (Good_trans T nroot _ _ _ ha.1 hq.1), ?_, hq.2.2⟩
          rw [BL_append, BL_append]
          exact ⟨⟨hout, ha.2.1⟩, hq.2.1⟩
      · apply Post_pure
        refine ⟨Good_trans T nroot _ _ _ hs ha.1, ?_, ha.2.2⟩
        rw [BL_append]
        exact ⟨hout, ha.2.1⟩

theorem begin_step (hw : T.WFInv) (nroot fuel : Nat) (IH : AllSpecs T nroot fuel) :
    SpecBegin T nroot (fuel + 1) := by
  intro buf tok math st hg hb ht
  simp only [beginEnvironment]
  apply Post_bind _ _ _ (Q := fun r s => Good T nroot st s ∧ BL T st.latex.length r.2)
  · exact IH.envName buf tok st hg hb ht
  · intro r s h
    apply Post_get_bind
    · cases henv : lookupEnv s r.1 with
      | none =>
        apply Post_bind _ _ _ (Q := fun _ s' => Good T nroot st s')
        · exact Post_mono _ _ _ (addUnknown_spec T nroot _ _ _ h.1.1) (fun _ s' h' => Good_trans T nroot _ _ _ h.1 h')
        · intro _ s' hs'
          apply Post_pure
          exact ⟨hs', (BL_cons T _ _ _).2 ⟨OTok_BTok T _ _ (OTok_mkAction T _ _ ht.1.1), BL_nil T _⟩, h.2⟩
      | some env =>
        have hm := lookupEnv_mem _ _ _ henv
        dsimp only
        have hmac : macroToksOk T env = true := h.1.1.macros env (List.mem_append_right _ hm.1)
        have heok : envOk T env = true := h.1.1.envs env hm.1
        cases hit : env.items with
        | some style =>
          dsimp only
          apply Post_bind _ _ _ (Q := fun _ s' => Good T nroot st s')
          · apply Post_modify
            exact Good_trans T nroot _ _ _ h.1 (Good_congr T nroot _ _ h.1.1 rfl rfl rfl rfl rfl rfl rfl
              (by simp) rfl rfl h.1.1.unk)
          · intro _ s' hs'
            exact beginTail_spec T nroot fuel IH st s' r env tok hs' h.2 ht hmac heok hm.2
        | none =>
          exact beginTail_spec T nroot fuel IH st _ r env tok h.1 h.2 ht hmac heok hm.2

private def endTail (T : PTables) (fuel : Nat) (r : Str × Buf) (env : MacroDef) (tok : Tok) (stop : Bool) :
    M ((List Tok × Bool) × Buf) := do
  let out0 := if env.addPars then [mkFix .par tok.pos [nl, nl]] else [mkAction tok.pos]
  if env.endFunc == .none then pure ((out0, stop), r.2)
  else do
    let h ← callHandler T fuel env.endFunc r.2 env [] tok.pos
    pure ((out0 ++ h, stop), r.2)

private theorem endTail_spec (nroot fuel : Nat) (IH : AllSpecs T nroot fuel) (st s : PState) (r : Str × Buf)
    (env : MacroDef) (tok : Tok) (envStop : Option Str) (hs : Good T nroot st s) (hr : BL T st.latex.length r.2)
    (ht : BTok T st.latex.length tok) (henv : envOk T env = true) (hname : env.name = r.1) :
    Post (endTail T fuel r env tok (envStop == some r.1) s) (fun r st' =>
      Good T nroot st st' ∧ BL T st.latex.length r.1.1 ∧ BL T st.latex.length r.2 ∧
      (r.1.2 = true → (∀ nm, envStop = some nm → (endFuncNames T).contains nm = false) →
        OL T st.latex.length r.1.1)) := by
  have hl : s.latex = st.latex := hs.2.1
  rw [← hl] at hr ht ⊢
  have hout := OL_out0 T s.latex.length env.addPars tok.pos ht.1.1
  simp only [endTail]
  split
  · apply Post_pure
    exact ⟨hs, OL_BL T _ _ hout, hr, fun _ _ => hout⟩
  · rename_i hef
    apply Post_bind _ _ _ (Q := fun a s' => Good T nroot s s' ∧ BL T s.latex.length a)
    · exact IH.handler env.endFunc r.2 env [] tok.pos s hs.1 hr (by intro a ha; cases ha) ht.1.1
        (HandlerArgs_nil _ (envOk_arity T env henv))
    · intro a s' ha
      apply Post_pure
      refine ⟨Good_trans T nroot _ _ _ hs ha.1, ?_, hr, ?_⟩
      · rw [BL_append]; exact ⟨OL_BL T _ _ hout, ha.2⟩
      · intro hstop hnm
        exfalso
        apply hef
        have h1 : envStop = some r.1 := by simpa using hstop
        have h2 := envOk_endFunc T env henv (by rw [hname]; exact hnm _ h1)
        simp [h2]

theorem end_step (hw : T.WFInv) (nroot fuel : Nat) (IH : AllSpecs T nroot fuel) :
    SpecEnd T nroot (fuel + 1) := by
  intro buf tok envStop st hg hb ht
  simp only [endEnvironment]
  apply Post_bind _ _ _ (Q := fun r s => Good T nroot st s ∧ BL T st.latex.length r.2)
  · exact IH.envName buf tok st hg hb ht
  · intro r s h
    apply Post_get_bind
    cases henv : lookupEnv s r.1 with
    | none =>
      apply Post_pure
      have ho : OL T st.latex.length [mkAction tok.pos] :=
        (OL_cons T _ _ _).2 ⟨OTok_mkAction T _ _ ht.1.1, OL_nil T _⟩
      exact ⟨h.1, OL_BL T _ _ ho, h.2, fun _ _ => ho⟩
    | some env =>
      have hm := lookupEnv_mem _ _ _ henv
      have heok : envOk T env = true := h.1.1.envs env hm.1
      dsimp only
      by_cases hc : (env.items.isSome && decide (s.itemStack.length > 1)) = true
      · rw [if_pos hc]
        apply Post_bind _ _ _ (Q := fun _ s' => Good T nroot st s')
        · apply Post_modify
          refine Good_trans T nroot _ _ _ h.1 (Good_congr T nroot _ _ h.1.1 rfl rfl rfl rfl rfl rfl rfl
            ?_ rfl rfl h.1.1.unk)
          have hlen : s.itemStack.length > 1 := by
            simp only [Bool.and_eq_true, decide_eq_true_eq] at hc
            exact hc.2
          show s.itemStack.tail ≠ []
          intro he
          have := congrArg List.length he
          simp at this
          omega
        · intro _ s' hs'
          exact endTail_spec T nroot fuel IH st s' r env tok envStop hs' h.2 ht heok hm.2
      · rw [if_neg hc]
        exact endTail_spec T nroot fuel IH st s r env tok envStop h.1 h.2 ht heok hm.2

theorem macro_step (hw : T.WFInv) (nroot fuel : Nat) (IH : AllSpecs T nroot fuel) :
    SpecMacro T nroot (fuel + 1) := by
  intro buf tok math st hg hb ht
  simp only [expandMacro]
  apply Post_get_bind
  have hb' := BL_skipSpaceStopLangAct T _ _ hb
  cases hmac : lookupMacro st tok.txt with
  | none =>
    dsimp only
    apply Post_bind _ _ _ (Q := fun _ s' => Good T nroot st s')
    · exact addUnknown_spec T nroot _ _ _ hg
    · intro _ s' hs'
      apply Post_pure
      exact ⟨hs', (BL_cons T _ _ _).2 ⟨OTok_BTok T _ _ (OTok_mkAction T _ _ ht.1.1), BL_nil T _⟩, hb'⟩
  | some mac =>
    dsimp only
    have hm := lookupMacro_mem _ _ _ hmac
    exact IH.args _ mac tok.pos st hg hb' (hg.macros mac (List.mem_append_left _ hm)) ht.1.1

private theorem macroToksOk_repl (m : MacroDef) (h : macroToksOk T m = true) : ∀ t ∈ m.repl, storedOk T t = true := by
  simp only [macroToksOk, Bool.and_eq_true, List.all_eq_true] at h
  exact h.1.1.1

private theorem macroToksOk_extract (m : MacroDef) (h : macroToksOk T m = true) :
    ∀ t ∈ m.extract, storedOk T t = true := by
  simp only [macroToksOk, Bool.and_eq_true, List.all_eq_true] at h
  exact h.1.2

private theorem G_extract (nroot : Nat) (s : PState) (e : List Tok) (h : G T nroot s) (he : OL T s.latex.length e) :
    G T nroot { s with extracted := s.extracted ++ [e], foreign := s.foreign || s.nest != 1 } := by
  refine ⟨⟨?_, h.macros, h.envs, h.gloss, h.items, h.langs, h.rots, h.unk⟩, h.root, h.inFrame⟩
  intro hf x hx
  have hf' : s.foreign = false ∧ s.nest = 1 := by simpa using hf
  rcases List.mem_append.1 hx with hx | hx
  · exact h.flows hf'.1 x hx
  · have : x = e := by simpa using hx
    subst this
    rw [← h.root hf'.2]
    exact he

private def argsTail (T : PTables) (fuel : Nat) (mac : MacroDef) (r : Args × Buf) (start : Nat) : M (List Tok × Buf) :=
  if mac.handler != .none then do
    let h ← callHandler T fuel mac.handler r.2 mac r.1.args start
    pure (mkAction start :: h ++ r.1.langs, r.2)
  else
    match generateReplacements r.1.args mac.repl start with
    | none => M.crash "parser.py:generate_replacements:arguments[tok.arg-1]"
    | some g => pure (mkAction start :: g ++ r.1.langs, r.2)

private theorem argsTail_spec (nroot fuel : Nat) (IH : AllSpecs T nroot fuel) (st s : PState) (mac : MacroDef)
    (r : Args × Buf) (start : Nat) (hs : Good T nroot st s) (hmac : macroToksOk T mac = true)
    (ha : ∀ a ∈ r.1.args, BL T st.latex.length a) (hr : BL T st.latex.length r.2)
    (hst : start < st.latex.length) (hlg : BL T st.latex.length r.1.langs)
    (hlen : r.1.args.length = mac.args.length)
    (hA : ∀ i : Nat, mac.args[i]? = some 'A' → ∃ a, r.1.args[i]? = some a ∧ a ≠ []) :
    Post (argsTail T fuel mac r start s) (fun r st' =>
      Good T nroot st st' ∧ BL T st.latex.length r.1 ∧ BL T st.latex.length r.2) := by
  have hl : s.latex = st.latex := hs.2.1
  rw [← hl] at ha hr hst hlg ⊢
  have hact := OTok_BTok T _ _ (OTok_mkAction T _ _ hst)
  simp only [argsTail]
  by_cases hc : (mac.handler != Handler.none) = true
  · rw [if_pos hc]
    apply Post_bind _ _ _ (Q := fun a s' => Good T nroot s s' ∧ BL T s.latex.length a)
    · exact IH.handler mac.handler r.2 mac r.1.args start s hs.1 hr ha hst
        (HandlerArgs_of_shape mac r.1.args (macroToksOk_arity T mac hmac) hlen hA)
    · intro a s' h'
      apply Post_pure
      exact ⟨Good_trans T nroot _ _ _ hs h'.1,
        (BL_cons T _ _ _).2 ⟨hact, (BL_append T _ _ _).2 ⟨h'.2, hlg⟩⟩, hr⟩
  · rw [if_neg hc]
    cases hg : generateReplacements r.1.args mac.repl start with
    | none =>
      exfalso
      refine generateReplacements_ne_none r.1.args mac.repl start ?_ hg
      intro t ht k hk
      rw [hlen]
      exact arityOk_refs mac (macroToksOk_arity T mac hmac) t (List.mem_append_left _ ht) k hk
    | some g =>
      apply Post_pure
      exact ⟨hs, (BL_cons T _ _ _).2 ⟨hact, (BL_append T _ _ _).2
        ⟨generateReplacements_BL T _ _ _ _ _ ha (macroToksOk_repl T mac hmac) hst hg, hlg⟩⟩, hr⟩

theorem args_step (hw : T.WFInv) (nroot fuel : Nat) (IH : AllSpecs T nroot fuel) :
    SpecArgs T nroot (fuel + 1) := by
  intro buf mac start st hg hb hmac hst
  simp only [expandArguments]
  apply Post_bind _ _ _ (Q := fun r s => (Good T nroot st s ∧ (∀ a ∈ r.1.args, BL T st.latex.length a) ∧
    (∀ a ∈ r.1.extr, BL T st.latex.length a) ∧ BL T st.latex.length r.2 ∧ BL T st.latex.length r.1.langs) ∧
    (r.1.args.length = mac.args.length ∧ r.1.extr.length = mac.args.length ∧
      ∀ i : Nat, mac.args[i]? = some 'A' → ∃ a, r.1.args[i]? = some a ∧ a ≠ []))
  · refine Post_mono _ _ _ (Post_and _ _ _
      (collectArgs_spec T hw mac mac.args 0 buf start {} st hmac hb hst
        ⟨(by intro a ha; cases ha), (by intro a ha; cases ha)⟩ (by intro a ha; cases ha))
      (collectArgs_shape0 T mac mac.args 0 buf start st)) ?_
    intro r s h
    exact ⟨⟨Good_diags T nroot st s hg h.1.2.2.2.1, h.1.1, h.1.2.1, h.1.2.2.1, h.1.2.2.2.2⟩, h.2⟩
  · intro r s hh
    obtain ⟨h, hlen, hlenE, hA⟩ := hh
    by_cases hc : (!mac.extract.isEmpty) = true
    · rw [if_pos hc]
      apply Post_get_bind
      cases hgen : generateReplacements r.1.extr mac.extract start with
      | none =>
        dsimp only
        exfalso
        refine generateReplacements_ne_none r.1.extr mac.extract start ?_ hgen
        intro t ht k hk
        rw [hlenE]
        exact arityOk_refs mac (macroToksOk_arity T mac hmac) t (List.mem_append_right _ ht) k hk
      | some g =>
        dsimp only
        have hl : s.latex = st.latex := h.1.2.1
        have hgb : BL T s.latex.length g := by
          rw [hl]
          exact generateReplacements_BL T _ _ _ _ _ h.2.2.1 (macroToksOk_extract T mac hmac) hst hgen
        apply Post_bind _ _ _ (Q := fun e s' => Good T nroot s s' ∧ OL T s.latex.length e.1)
        · refine Post_mono _ _ _ (IH.seq (mkLang start (curLang s) false true true :: g) none [] s h.1.1
            ((BL_cons T _ _ _).2 ⟨OTok_BTok T _ _ (OTok_mkLang T _ _ _ _ _ _ (by rw [hl]; exact hst)), hgb⟩)
            (OL_nil T _)) ?_
          intro e s' he
          exact ⟨he.1, he.2.2.2 rfl⟩
        · intro e s' he
          apply Post_bind _ _ _ (Q := fun _ s'' => Good T nroot st s'')
          · apply Post_modify
            have hl' : s'.latex = s.latex := he.1.2.1
            refine Good_trans T nroot _ _ _ h.1 (Good_trans T nroot _ _ _ he.1 ⟨?_, rfl, rfl⟩)
            exact G_extract T nroot s' e.1 he.1.1 (by rw [hl']; exact he.2)
          · intro _ s'' hs''
            exact argsTail_spec T nroot fuel IH st s'' mac r start hs'' hmac h.2.1 h.2.2.2.1 hst h.2.2.2.2 hlen hA
    · rw [if_neg hc]
      exact argsTail_spec T nroot fuel IH st s mac r start h.1 hmac h.2.1 h.2.2.2.1 hst h.2.2.2.2 hlen hA

private theorem lastPos_lt (n start : Nat) (l : List Tok) (hl : BL T n l) (hs : start < n) :
    (Option.map (fun x => x.pos) l.getLast?).getD start < n := by
  cases h : l.getLast? with
  | none => simpa using hs
  | some x =>
    have hx : x ∈ l := List.mem_of_getLast? h
    simpa using (hl x hx).1.1

private theorem BTok_space (n p : Nat) (hp : p < n) : BTok T n (mkFix Kind.space p [' ']) :=
  OTok_BTok T _ _ (OTok_mkFix T n p _ _ hp (by simp))

private theorem BTok_text (n p : Nat) (txt : Str) (hp : p < n) : BTok T n (mkFix Kind.text p txt) :=
  OTok_BTok T _ _ (OTok_mkFix T n p _ _ hp (by simp))

private theorem item_wrap (n start : Nat) (X : List Tok) (hX : BL T n X) (hs : start < n) :
    BL T n (mkFix Kind.space start [' '] ::
      (X ++ [mkFix Kind.space ((Option.map (fun x => x.pos) X.getLast?).getD start) [' ']])) := by
  rw [BL_cons, BL_append, BL_cons]
  exact ⟨BTok_space T _ _ hs, hX, BTok_space T _ _ (lastPos_lt T n start X hX hs), BL_nil T _⟩

private theorem itemLabel_ne_none (dflt : List Str) (g : ItemGen) (hd : dflt ≠ []) : itemLabel dflt g ≠ none := by
  unfold itemLabel
  cases dflt with
  | nil => exact absurd rfl hd
  | cons d ds =>
    split
    · simp
    · intro he
      rw [List.getElem?_eq_none_iff] at he
      simp only [List.length_cons] at he
      omega
    · simp

theorem item_step (hw : T.WFInv) (nroot fuel : Nat) (IH : AllSpecs T nroot fuel) :
    SpecItem T nroot (fuel + 1) := by
  intro buf tok outSoFar st hg hb ht
  simp only [expandItem]
  apply Post_bind _ _ _ (Q := fun r s => Good T nroot st s ∧ BL T st.latex.length r.1 ∧ BL T st.latex.length r.2)
  · exact IH.args buf _ tok.pos st hg hb (by simp [macroToksOk, storedOk, isMathTok, ctlEmpty, mbOk, arityOk, handlerArity, handlerNeedsA, argRef]) ht.1.1
  · intro r s h
    by_cases hc : (r.1.all (fun t => t.kind == .action || isLangK t)) = true
    · rw [if_pos hc]
      apply Post_get_bind
      cases his : s.itemStack with
      | nil => exact absurd his h.1.1.items
      | cons g gs =>
        dsimp only
        cases hlab : itemLabel T.itemDefaultLabel g with
        | none => exact absurd hlab (itemLabel_ne_none _ g hw.item_labels)
        | some lab =>
          dsimp only
          apply Post_bind _ _ _ (Q := fun _ s' => Good T nroot st s')
          · apply Post_modify
            exact Good_trans T nroot _ _ _ h.1 (Good_congr T nroot _ _ h.1.1 rfl rfl rfl rfl rfl rfl rfl
              (by simp) rfl rfl h.1.1.unk)
          · intro _ s' hs'
            apply Post_pure
            refine ⟨hs', ?_, h.2.2⟩
            rw [BL_append, BL_cons, BL_cons, BL_cons]
            exact ⟨h.2.1, BTok_space T _ _ ht.1.1, BTok_text T _ _ _ ht.1.1, BTok_space T _ _ ht.1.1, BL_nil T _⟩
    · rw [if_neg hc]
      apply Post_pure
      refine ⟨h.1, ?_, h.2.2⟩
      apply item_wrap T _ _ _ ?_ ht.1.1
      split
      · split
        · split
          · rw [BL_append, BL_cons]
            exact ⟨h.2.1, BTok_text T _ _ _ (lastPos_lt T _ _ _ h.2.1 ht.1.1), BL_nil T _⟩
          · exact h.2.1
        · exact h.2.1
      · exact h.2.1

private theorem OTok_accentU (n : Nat) (tok : Tok) (txt : Str) (ht : BTok T n tok) (hk : tok.kind = .accent)
    (hlen : tok.txt.length = 2) (hu : txt.length ≤ 2) :
    OTok T n { kind := .text, pos := tok.pos, txt := txt, fix := tok.fix || decide (1 < txt.length) } := by
  obtain ⟨⟨h1, h2, _, _⟩, _⟩ := ht
  simp only [extent, hk] at h2
  simp only [OTok, TokOk, extent, ctlEmpty, mbOk, outKind, h1, true_and, and_true]
  intro hf
  simp only [Bool.or_eq_false_iff, decide_eq_false_iff_not] at hf
  have := h2 hf.1
  omega

private theorem OTok_shorten (n : Nat) (t : Tok) (c : Char) (cs : Str) (h : OTok T n t) (ht : t.txt = c :: cs) :
    OTok T n { kind := t.kind, pos := t.pos, txt := cs, fix := t.fix } := by
  obtain ⟨k, p, x, f⟩ := t
  simp only at ht
  subst ht
  obtain ⟨⟨h1, h2, h3, h4⟩, h5⟩ := h
  cases f <;> cases k <;> simp_all [OTok, TokOk, extent, ctlEmpty, mbOk, outKind] <;> omega

private theorem accent_err (hw : T.WFInv) (nroot : Nat) (st s : PState) (err : Str) (pos : Nat) (a2 : Buf)
    (hs : Good T nroot st s) (hp : pos < st.latex.length) (ha2 : BL T st.latex.length a2) :
    Post ((latexError T.toTables err pos >>= fun er => (pure (er, a2) : M (List Tok × Buf))) s) (fun r st' =>
      Good T nroot st st' ∧ OL T st.latex.length r.1 ∧ BL T st.latex.length r.2) := by
  have hl : s.latex = st.latex := hs.2.1
  rw [← hl] at hp ha2 ⊢
  apply Post_bind _ _ _ (Q := fun er s' => Good T nroot st s' ∧ OL T s.latex.length er)
  · refine Post_mono _ _ _ (latexError_spec T hw err pos s hp) ?_
    intro er s' h
    exact ⟨Good_trans T nroot _ _ _ hs (Good_diags T nroot s s' hs.1 h.2), h.1⟩
  · intro er s' h
    exact Post_pure _ _ _ ⟨h.1, h.2, ha2⟩

private def accentEmit (T : PTables) (tok : Tok) (a2 : Buf) (rest : List Tok) (nm : Str) : M (List Tok × Buf) :=
  match T.unicodeNames.find? (·.1 == nm) with
  | some u => pure ({ kind := .text, pos := tok.pos, txt := u.2, fix := tok.fix || decide (1 < u.2.length) } :: rest, a2)
  | none => do
    let er ← latexError T.toTables ("could not find UTF-8 character \"".toList ++ nm ++ ['"']) tok.pos
    pure (er, a2)

private def accentTail (T : PTables) (tok : Tok) (a2 : Buf) (names : List Str) (c : Option Char) (rest : List Tok) :
    M (List Tok × Buf) :=
  let blank := match c with | none => true | some ch => isSpace ch
  if blank then accentEmit T tok a2 rest (strJoin [' '] names)
  else
    match c with
    | none => M.crash "unreachable"
    | some ch =>
      if !isAsciiLetter ch then do
        let er ← latexError T.toTables "text-mode accent for non-letter".toList tok.pos
        pure (er, a2)
      else
        match names.head? with
        | none => M.crash "parser.py:expand_accent:accent_macros[tok.txt][0]"
        | some n0 =>
          let lower := 'a' ≤ ch && ch ≤ 'z'
          let up : Char := if lower then Char.ofNat (ch.toNat - 32) else ch
          accentEmit T tok a2 rest ("LATIN ".toList ++ (if lower then "SMALL".toList else "CAPITAL".toList)
                      ++ " LETTER ".toList ++ [up] ++ " WITH ".toList ++ n0)

private theorem accentEmit_spec (hw : T.WFInv) (nroot : Nat) (st s : PState) (tok : Tok) (a2 : Buf)
    (rest : List Tok) (nm : Str) (hs : Good T nroot st s) (ht : BTok T st.latex.length tok)
    (hk : tok.kind = .accent) (hlen : tok.txt.length = 2) (ha2 : BL T st.latex.length a2)
    (hrest : OL T st.latex.length rest) :
    Post (accentEmit T tok a2 rest nm s) (fun r st' =>
      Good T nroot st st' ∧ OL T st.latex.length r.1 ∧ BL T st.latex.length r.2) := by
  simp only [accentEmit]
  cases hu : List.find? (fun x => x.1 == nm) T.unicodeNames with
  | some u =>
    refine Post_pure _ _ _ ⟨hs, ?_, ha2⟩
    exact (OL_cons T _ _ _).2 ⟨OTok_accentU T _ tok u.2 ht hk hlen
      (hw.unicode_len u (List.mem_of_find?_eq_some hu)), hrest⟩
  | none => exact accent_err T hw nroot st s _ _ a2 hs ht.1.1 ha2

private theorem accentTail_spec (hw : T.WFInv) (nroot : Nat) (st s : PState) (tok : Tok) (a2 : Buf) (names : List Str)
    (c : Option Char) (rest : List Tok) (hs : Good T nroot st s) (ht : BTok T st.latex.length tok)
    (hk : tok.kind = .accent) (hlen : tok.txt.length = 2) (ha2 : BL T st.latex.length a2)
    (hrest : OL T st.latex.length rest) (hnames : names ≠ []) :
    Post (accentTail T tok a2 names c rest s) (fun r st' =>
      Good T nroot st st' ∧ OL T st.latex.length r.1 ∧ BL T st.latex.length r.2) := by
  have hE := fun nm => accentEmit_spec T hw nroot st s tok a2 rest nm hs ht hk hlen ha2 hrest
  cases c with
  | none =>
    simp only [accentTail]
    exact hE _
  | some ch =>
    simp only [accentTail]
    by_cases hb : isSpace ch = true
    · rw [if_pos hb]; exact hE _
    · rw [if_neg hb]
      by_cases hl : (!isAsciiLetter ch) = true
      · rw [if_pos hl]
        exact accent_err T hw nroot st s _ _ a2 hs ht.1.1 ha2
      · rw [if_neg hl]
        cases hn : names.head? with
        | none => exact absurd (List.head?_eq_none_iff.1 hn) hnames
        | some n0 => exact hE _

theorem accent_step (hw : T.WFInv) (nroot fuel : Nat) (IH : AllSpecs T nroot fuel) :
    SpecAccent T nroot (fuel + 1) := by
  intro buf tok st hg hb ht hk
  simp only [expandAccent]
  apply Post_bind _ _ _ (Q := fun a s => Good T nroot st s ∧ BL T st.latex.length a.1 ∧ BL T st.latex.length a.2)
  · refine Post_mono _ _ _ (argBuffer_spec T hw buf tok.pos true st hb ht.1.1) ?_
    intro a s h
    exact ⟨Good_diags T nroot st s hg h.2.2.2, h.1, h.2.2.1⟩
  · intro a s ha
    have hl : s.latex = st.latex := ha.1.2.1
    apply Post_bind _ _ _ (Q := fun e s' => Good T nroot st s' ∧ OL T st.latex.length e.1)
    · refine Post_mono _ _ _ (IH.seq a.1 none [] s ha.1.1 (by rw [hl]; exact ha.2.1) (OL_nil T _)) ?_
      intro e s' he
      rw [hl] at he
      exact ⟨Good_trans T nroot _ _ _ ha.1 he.1, he.2.2.2 rfl⟩
    · intro e s' he
      cases hacc : T.accents.find? (·.1 == tok.txt) with
      | none =>
        exfalso
        have hmb := ht.1.2.2.2
        simp [mbOk, hk, accentOk, hacc] at hmb
      | some ac =>
        have hnames : ac.2 ≠ [] := hw.accent_names ac (List.mem_of_find?_eq_some hacc)
        have hlen : tok.txt.length = 2 := by
          have h1 := hw.accent_len ac (List.mem_of_find?_eq_some hacc)
          have h2 : ac.1 = tok.txt := by simpa using List.find?_some hacc
          rw [← h2]; exact h1
        simp only [Option.map_some]
        cases he1 : e.1 with
        | nil =>
          exact accentTail_spec T hw nroot st s' tok a.2 ac.2 none [] he.1 ht hk hlen ha.2.2 (OL_nil T _) hnames
        | cons t ts =>
          have hts : OL T st.latex.length (t :: ts) := he1 ▸ he.2
          have hts' := (OL_cons T _ _ _).1 hts
          obtain ⟨k, p, x, f⟩ := t
          dsimp only
          cases x with
          | nil =>
            exact accentTail_spec T hw nroot st s' tok a.2 ac.2 none _ he.1 ht hk hlen ha.2.2 hts hnames
          | cons c cs =>
            cases cs with
            | nil =>
              exact accentTail_spec T hw nroot st s' tok a.2 ac.2 (some c) ts he.1 ht hk hlen ha.2.2 hts'.2 hnames
            | cons c' cs' =>
              exact accentTail_spec T hw nroot st s' tok a.2 ac.2 (some c) _ he.1 ht hk hlen ha.2.2
                ((OL_cons T _ _ _).2 ⟨OTok_shorten T _ _ c (c' :: cs') hts'.1 rfl, hts'.2⟩) hnames

end Yalafi
