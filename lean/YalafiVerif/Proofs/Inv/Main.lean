/-
  Proofs/Inv/Main.lean — the induction on fuel and its consequences for `parse`/`tex2txt`.
-/
import YalafiVerif.Proofs.Inv.StepSeq
import YalafiVerif.Proofs.Inv.StepEnv
import YalafiVerif.Proofs.Inv.StepWork
import YalafiVerif.Proofs.Inv.StepHandler
import YalafiVerif.Proofs.Inv.StepMath
import YalafiVerif.Proofs.Utils
import YalafiVerif.Proofs.Replace
namespace Yalafi

variable (T : PTables)

/-- with no fuel every function of the expander answers `outOfFuel` -/
theorem allSpecs_zero (nroot : Nat) : AllSpecs T nroot 0 := by
  sorry

/-- the bundle: every function of the expander keeps the range invariant, for every fuel -/
theorem allSpecs (hw : T.WFInv) (nroot : Nat) : ∀ fuel, AllSpecs T nroot fuel := by
  intro fuel
  induction fuel with
  | zero => exact allSpecs_zero T nroot
  | succ fuel IH =>
    exact {
      seq := seq_step T hw nroot fuel IH, text := text_step T hw nroot fuel IH,
      envName := envName_step T hw nroot fuel IH, begin_ := begin_step T hw nroot fuel IH,
      end_ := end_step T hw nroot fuel IH, macro_ := macro_step T hw nroot fuel IH,
      args := args_step T hw nroot fuel IH, item := item_step T hw nroot fuel IH,
      accent := accent_step T hw nroot fuel IH, work := work_step T hw nroot fuel IH,
      init := init_step T hw nroot fuel IH, modParams := modParams_step T hw nroot fuel IH,
      keyvals := keyvals_step T hw nroot fuel IH, value := value_step T hw nroot fuel IH,
      expandKv := expandKv_step T hw nroot fuel IH, modDesc := modDesc_step T hw nroot fuel IH,
      handler := handler_step T hw nroot fuel IH, mathSec := mathSec_step T hw nroot fuel IH,
      inline := inline_step T hw nroot fuel IH, dispLoop := dispLoop_step T hw nroot fuel IH,
      display := display_step T hw nroot fuel IH }

/-- `Parser.__init__` followed by `Parser.parse`: unless a text flow was extracted outside
    the root document (ghost flag `foreign`), every token of the result that carries text is
    in range of the root document -/
theorem parse_inRange (hw : T.WFInv) (fuel : Nat) (latex : Str) (o : Options) (multi : Bool) (fs : FS)
    (extr : List Str) :
    Post ((do initParser T fuel o; parse T fuel latex o.defs extr) (initialState T o multi fs))
      (fun toks st' => st'.foreign = false → ∀ t ∈ toks, t.txt ≠ [] → TokInRange latex.length t) := by
  sorry

end Yalafi
