/-
  Proofs/Inv/Main.lean — the induction on fuel and its consequences for `parse`/`tex2txt`.
-/
import YalafiVerif.Proofs.Inv.StepSeq
import YalafiVerif.Proofs.Inv.StepEnv
import YalafiVerif.Proofs.Inv.StepWork
import YalafiVerif.Proofs.Inv.StepHandler
import YalafiVerif.Proofs.Inv.StepMath
import YalafiVerif.Proofs.Utils
import YalafiVerif.Proofs.Replace
namespace Yalafi

variable (T : PTables)

/-- with no fuel every function of the expander answers `outOfFuel` -/
theorem allSpecs_zero (nroot : Nat) : AllSpecs T nroot 0 := by
  refine { seq := ?_, text := ?_, envName := ?_, begin_ := ?_, end_ := ?_, macro_ := ?_, args := ?_,
           item := ?_, accent := ?_, work := ?_, init := ?_, modParams := ?_, keyvals := ?_, value := ?_,
           expandKv := ?_, modDesc := ?_, handler := ?_, mathSec := ?_, inline := ?_, dispLoop := ?_,
           display := ?_ }
  · unfold SpecSeq; intros; rw [expandSequence.eq_1]; exact Post_outOfFuel _ _
  · unfold SpecText; intros; rw [getTextExpanded.eq_1]; exact Post_outOfFuel _ _
  · unfold SpecEnvName; intros; rw [getEnvironmentName.eq_1]; exact Post_outOfFuel _ _
  · unfold SpecBegin; intros; rw [beginEnvironment.eq_1]; exact Post_outOfFuel _ _
  · unfold SpecEnd; intros; rw [endEnvironment.eq_1]; exact Post_outOfFuel _ _
  · unfold SpecMacro; intros; rw [expandMacro.eq_1]; exact Post_outOfFuel _ _
  · unfold SpecArgs; intros; rw [expandArguments.eq_1]; exact Post_outOfFuel _ _
  · unfold SpecItem; intros; rw [expandItem.eq_1]; exact Post_outOfFuel _ _
  · unfold SpecAccent; intros; rw [expandAccent.eq_1]; exact Post_outOfFuel _ _
  · unfold SpecWork; intros; rw [parserWork.eq_1]; exact Post_outOfFuel _ _
  · unfold SpecInit; intros; rw [initPackage.eq_1]; exact Post_outOfFuel _ _
  · unfold SpecModParams; intros; rw [modifyParameters.eq_1]; exact Post_outOfFuel _ _
  · unfold SpecKeyvals; intros; rw [parseKeyvals.eq_1]; exact Post_outOfFuel _ _
  · unfold SpecValue; intros; rw [parseValue.eq_1]; exact Post_outOfFuel _ _
  · unfold SpecExpandKv; intros; rw [expandKeyvals.eq_1]; exact Post_outOfFuel _ _
  · unfold SpecModDesc; intros; rw [modifyDescription.eq_1]; exact Post_outOfFuel _ _
  · unfold SpecHandler; intros; rw [callHandler.eq_1]; exact Post_outOfFuel _ _
  · unfold SpecMathSec; intros; rw [expandMathSection.eq_1]; exact Post_outOfFuel _ _
  · unfold SpecInline; intros; rw [expandInlineMath.eq_1]; exact Post_outOfFuel _ _
  · unfold SpecDispLoop; intros; rw [displayLoop.eq_1]; exact Post_outOfFuel _ _
  · unfold SpecDisplay; intros; rw [expandDisplayMath.eq_1]; exact Post_outOfFuel _ _

/-- the bundle: every function of the expander keeps the range invariant, for every fuel -/
theorem allSpecs (hw : T.WFInv) (nroot : Nat) : ∀ fuel, AllSpecs T nroot fuel := by
  intro fuel
  induction fuel with
  | zero => exact allSpecs_zero T nroot
  | succ fuel IH =>
    exact {
      seq := seq_step T hw nroot fuel IH, text := text_step T hw nroot fuel IH,
      envName := envName_step T hw nroot fuel IH, begin_ := begin_step T hw nroot fuel IH,
      end_ := end_step T hw nroot fuel IH, macro_ := macro_step T hw nroot fuel IH,
      args := args_step T hw nroot fuel IH, item := item_step T hw nroot fuel IH,
      accent := accent_step T hw nroot fuel IH, work := work_step T hw nroot fuel IH,
      init := init_step T hw nroot fuel IH, modParams := modParams_step T hw nroot fuel IH,
      keyvals := keyvals_step T hw nroot fuel IH, value := value_step T hw nroot fuel IH,
      expandKv := expandKv_step T hw nroot fuel IH, modDesc := modDesc_step T hw nroot fuel IH,
      handler := handler_step T hw nroot fuel IH, mathSec := mathSec_step T hw nroot fuel IH,
      inline := inline_step T hw nroot fuel IH, dispLoop := dispLoop_step T hw nroot fuel IH,
      display := display_step T hw nroot fuel IH }

/-! ### helpers for `parse_inRange` -/

theorem findModule_mem (cls : Bool) (name : Str) (md : ModuleDef) (h : findModule T cls name = some md) :
    md ∈ T.packageModules ++ T.classModules := by
  unfold findModule at h
  split at h
  · cases h
  · have := List.mem_of_find?_eq_some h
    cases cls <;> simp_all

theorem moduleOk_getD (hw : T.WFInv) (cls : Bool) (name : Str) :
    ∀ m ∈ ((findModule T cls name).getD (emptyModule name)).macros ++
          ((findModule T cls name).getD (emptyModule name)).envs, macroToksOk T m = true := by
  cases h : findModule T cls name with
  | none => simp [emptyModule]
  | some md => exact hw.modules_ok md (findModule_mem T cls name md h)

theorem tableEnv_mem (md : ModuleDef) (hmd : md ∈ T.packageModules ++ T.classModules) (e : MacroDef)
    (he : e ∈ md.envs) : e ∈ allTableEnvs T := by
  unfold allTableEnvs
  exact List.mem_append_right _ (List.mem_flatMap.2 ⟨md, hmd, he⟩)

theorem moduleEnvOk_getD (hw : T.WFInv) (cls : Bool) (name : Str) :
    ∀ e ∈ ((findModule T cls name).getD (emptyModule name)).envs, envOk T e = true := by
  cases h : findModule T cls name with
  | none => simp [emptyModule]
  | some md =>
    intro e he
    exact hw.envs_ok e (tableEnv_mem T md (findModule_mem T cls name md h) e he)

theorem getPackages_envOk (hw : T.WFInv) (cls : Bool) (packs : Str) :
    ∀ nm ∈ getPackages T cls packs, ∀ e ∈ nm.2.envs, envOk T e = true := by
  intro nm hnm
  unfold getPackages at hnm
  split at hnm
  · cases hnm
  · simp only [List.mem_flatten, List.mem_map] at hnm
    obtain ⟨l, ⟨p, _, rfl⟩, hl⟩ := hnm
    split at hl
    · simp only [List.mem_map] at hl
      obtain ⟨m, _, rfl⟩ := hl
      exact moduleEnvOk_getD T hw cls m
    · simp only [List.mem_singleton] at hl
      subst hl
      exact moduleEnvOk_getD T hw cls p

theorem builtin_envOk (hw : T.WFInv) (o : Options) :
    ∀ e ∈ (builtinModule T o).envs, envOk T e = true := by
  intro e he
  apply hw.envs_ok
  unfold builtinModule at he
  unfold allTableEnvs
  exact List.mem_append_left _ he


theorem getPackages_ok (hw : T.WFInv) (cls : Bool) (packs : Str) :
    ∀ nm ∈ getPackages T cls packs, ∀ m ∈ nm.2.macros ++ nm.2.envs, macroToksOk T m = true := by
  intro nm hnm
  unfold getPackages at hnm
  split at hnm
  · cases hnm
  · simp only [List.mem_flatten, List.mem_map] at hnm
    obtain ⟨l, ⟨p, _, rfl⟩, hl⟩ := hnm
    split at hl
    · simp only [List.mem_map] at hl
      obtain ⟨m, _, rfl⟩ := hl
      exact moduleOk_getD T hw cls m
    · simp only [List.mem_singleton] at hl
      subst hl
      exact moduleOk_getD T hw cls p

theorem builtin_ok (hw : T.WFInv) (o : Options) :
    ∀ m ∈ (builtinModule T o).macros ++ (builtinModule T o).envs, macroToksOk T m = true := by
  intro m hm
  apply hw.macros_ok
  unfold builtinModule at hm
  simp only [List.mem_append] at hm ⊢
  rcases hm with (hm | hm) | hm
  · exact Or.inl (Or.inl hm)
  · split at hm
    · exact Or.inl (Or.inr hm)
    · cases hm
  · exact Or.inr hm

theorem forM_init_G (nroot fuel : Nat) (A : AllSpecs T nroot fuel) (mods : List (Str × ModuleDef))
    (hm : ∀ nm ∈ mods, ∀ m ∈ nm.2.macros ++ nm.2.envs, macroToksOk T m = true)
    (he : ∀ nm ∈ mods, ∀ e ∈ nm.2.envs, envOk T e = true) (st : PState)
    (hg : G T nroot st) :
    Post (mods.forM (fun nm => (do let _ ← initPackage T fuel nm.1 nm.2 false [] 0; pure () : M Unit)) st)
      (fun _ s => G T nroot s) := by
  induction mods generalizing st with
  | nil => exact Post_pure (α := PUnit) _ _ _ hg
  | cons nm rest ih =>
    apply Post_bind (β := PUnit) _ (fun _ => rest.forM _) _ (Q := fun _ s => G T nroot s)
    · apply Post_bind _ _ _ (Q := fun _ s => G T nroot s)
      · exact Post_mono _ _ _ (A.init nm.1 nm.2 false [] 0 st hg (hm nm (List.mem_cons_self ..))
            (he nm (List.mem_cons_self ..)))
          (fun a s h => h.1.1)
      · intro a s h; exact Post_pure _ _ _ h
    · intro _ s h
      exact ih (fun nm' h' => hm nm' (List.mem_cons_of_mem _ h')) (fun nm' h' => he nm' (List.mem_cons_of_mem _ h')) s h

theorem initParser_G (nroot fuel : Nat) (A : AllSpecs T nroot fuel) (o : Options)
    (hb : ∀ m ∈ (builtinModule T o).macros ++ (builtinModule T o).envs, macroToksOk T m = true)
    (hm : ∀ cls packs, ∀ nm ∈ getPackages T cls packs, ∀ m ∈ nm.2.macros ++ nm.2.envs, macroToksOk T m = true)
    (hbe : ∀ e ∈ (builtinModule T o).envs, envOk T e = true)
    (hme : ∀ cls packs, ∀ nm ∈ getPackages T cls packs, ∀ e ∈ nm.2.envs, envOk T e = true)
    (st : PState) (hg : G T nroot st) :
    Post (initParser T fuel o st) (fun _ s => G T nroot s) := by
  unfold initParser
  apply Post_bind _ _ _ (Q := fun _ s => G T nroot s)
  · exact Post_mono _ _ _ (A.init [] (builtinModule T o) true [] 0 st hg hb hbe) (fun a s h => h.1.1)
  · intro _ s h
    apply forM_init_G T nroot fuel A _ _ _ s h
    · intro nm hnm
      rcases List.mem_append.1 hnm with h' | h'
      · exact hm _ _ nm h'
      · exact hm _ _ nm h'
    · intro nm hnm
      rcases List.mem_append.1 hnm with h' | h'
      · exact hme _ _ nm h'
      · exact hme _ _ nm h'

theorem initialState_G (hw : T.WFInv) (nroot : Nat) (o : Options) (multi : Bool) (fs : FS) :
    G T nroot (initialState T o multi fs) := by
  have hflows : (initialState T o multi fs).foreign = false →
      ∀ e ∈ (initialState T o multi fs).extracted, OL T nroot e := by
    intro _ e he; simp [initialState] at he
  have hmac : ∀ m ∈ (initialState T o multi fs).macros ++ (initialState T o multi fs).envs,
      macroToksOk T m = true := by
    intro m hm; simp [initialState] at hm
  have henv : ∀ e ∈ (initialState T o multi fs).envs, envOk T e = true := by
    intro m hm; simp [initialState] at hm
  have hgl : glossOk T (initialState T o multi fs).glossary := by
    intro e he; simp [initialState] at he
  have hitems : (initialState T o multi fs).itemStack ≠ [] := by simp [initialState]
  have hlangs : ∀ e ∈ (initialState T o multi fs).langStack, (settingsOf T e.1).isSome = true := by
    intro e he
    simp only [initialState, List.mem_cons, List.not_mem_nil, or_false] at he
    rw [he]
    exact settingsOf_checkLang T hw _
  have hrots1 : ∀ l ∈ T.langs, (rotOf (initialState T o multi fs) l.code).isSome = true := by
    intro l hl
    simp only [rotOf, initialState, List.find?_map, Option.isSome_map, List.find?_isSome]
    exact ⟨l, hl, by simp [Function.comp]⟩
  have hrots2 : ∀ r ∈ (initialState T o multi fs).rots, r.inl ≠ [] ∧ r.disp ≠ [] ∧ r.chg ≠ [] := by
    intro r hr
    simp only [initialState, List.mem_map] at hr
    obtain ⟨l, hl, rfl⟩ := hr
    have h := hw.langs_ok l hl
    exact ⟨h.1, h.2.1, h.2.2.1⟩
  exact { flows := hflows, macros := hmac, envs := henv, gloss := hgl, items := hitems, langs := hlangs,
          rots := ⟨hrots1, hrots2⟩, unk := (by simp [initialState]),
          root := fun h => by simp [initialState] at h,
          inFrame := by simp [initialState] }

theorem filterSetToks_lang_txt (m p : Nat) (ts : List Tok) (h : OL T m ts) :
    ∀ t ∈ filterSetToks ts p true, t.txt = [] := by
  intro t ht
  simp only [filterSetToks, List.mem_map, List.mem_filter] at ht
  obtain ⟨t', ⟨ht', hl⟩, rfl⟩ := ht
  have hc := (h t' ht').1.2.2.1
  simp only [Bool.not_true, Bool.false_or] at hl
  unfold isLang at hl
  unfold ctlEmpty at hc
  split at hl
  · simp_all
  · cases hl

theorem flow_inRange (n : Nat) (e : List Tok) (he : OL T n e) :
    ∀ t ∈ (match e.head?, e.getLast? with
      | some h, some l => [mkFix .par h.pos [nl, nl, nl]] ++ e ++ [mkFix .space l.pos [nl]]
      | _, _ => []), TokInRange n t := by
  intro t ht
  split at ht
  · rename_i h l hh hl
    have hh' : h ∈ e := List.mem_of_head? hh
    have hl' : l ∈ e := List.mem_of_getLast? hl
    simp only [List.mem_append, List.mem_singleton] at ht
    rcases ht with (rfl | ht) | rfl
    · exact OTok_inRange T n _ (OTok_mkFix T n _ _ _ (he h hh').1.1 (Or.inr (Or.inr rfl)))
    · exact OTok_inRange T n _ (he t ht)
    · exact OTok_inRange T n _ (OTok_mkFix T n _ _ _ (he l hl').1.1 (Or.inr (Or.inl rfl)))
  · cases ht

/-- `parse` after the optional `init_extractions` -/
def parseRest (T : PTables) (fuel : Nat) (latex define : Str) (extract : List Str) : M (List Tok) := do
  M.modify (fun s => { s with extracted := [], unknowns := [] })
  let main0 ← (if define.isEmpty then pure [] else do
    let t ← parserWork T fuel define
    pure (filterSetToks t 0 true))
  M.modify (fun s => { s with extracted := [], foreign := false, nest := 0 })
  let body ← parserWork T fuel latex
  let st ← M.get
  let main := if extract.isEmpty then main0 ++ body else []
  let flows := st.extracted.map (fun e =>
    match e.head?, e.getLast? with
    | some h, some l => [mkFix .par h.pos [nl, nl, nl]] ++ e ++ [mkFix .space l.pos [nl]]
    | _, _ => [])
  pure (main ++ flows.flatten)

theorem parse_eq (fuel : Nat) (latex define : Str) (extract : List Str) :
    parse T fuel latex define extract =
      if !extract.isEmpty then (M.modify (fun s => initExtractions T s extract) >>= fun _ => parseRest T fuel latex define extract)
      else parseRest T fuel latex define extract := by
  rfl

theorem parseRest_G (fuel : Nat) (latex define : Str) (A : AllSpecs T latex.length fuel)
    (extr : List Str) (s1 : PState) (hg1 : G T latex.length s1) :
    Post (parseRest T fuel latex define extr s1)
      (fun toks st' => (st'.foreign = false → ∀ t ∈ toks, t.txt ≠ [] → TokInRange latex.length t) ∧
        G0 T latex.length st') := by
  unfold parseRest
  apply Post_bind _ _ _ (Q := fun _ s => G T latex.length s)
  · apply Post_modify
    exact { flows := fun _ e he => (by cases he), macros := hg1.macros, envs := hg1.envs, gloss := hg1.gloss,
            items := hg1.items, langs := hg1.langs, rots := hg1.rots, unk := List.nodup_nil,
            root := hg1.root, inFrame := hg1.inFrame }
  intro _ s2 hg2
  apply Post_bind _ _ _ (Q := fun m0 s => G0 T latex.length s ∧ ∀ t ∈ m0, t.txt = [])
  · split
    · apply Post_pure
      exact ⟨hg2.toG0, fun t ht => by cases ht⟩
    · apply Post_bind _ _ _ (Q := fun r s => G0 T latex.length s ∧ OL T define.length r)
      · exact Post_mono _ _ _ (A.work define s2 hg2.toG0 (fun h => absurd h hg2.inFrame) hg2.root)
          (fun a s h => ⟨h.1, h.2.2⟩)
      · intro r s h
        apply Post_pure
        exact ⟨h.1, filterSetToks_lang_txt T _ _ _ h.2⟩
  intro main0 s3 ⟨hg3, hm0⟩
  apply Post_bind _ _ _ (Q := fun _ s => G0 T latex.length s ∧ s.nest = 0)
  · apply Post_modify
    exact ⟨{ flows := fun _ e he => (by cases he), macros := hg3.macros, envs := hg3.envs, gloss := hg3.gloss,
             items := hg3.items, langs := hg3.langs, rots := hg3.rots, unk := hg3.unk }, rfl⟩
  intro _ s4 ⟨hg4, hn4⟩
  apply Post_bind _ _ _ (Q := fun r s => G0 T latex.length s ∧ OL T latex.length r)
  · exact Post_mono _ _ _ (A.work latex s4 hg4 (fun _ => rfl) (fun h => by omega))
      (fun a s h => ⟨h.1, h.2.2⟩)
  intro body s5 ⟨hg5, hbody⟩
  apply Post_bind _ _ _ (Q := fun r s => r = s ∧ s = s5)
  · exact Post_get _ _ ⟨rfl, rfl⟩
  intro st5 s6 ⟨h1, h2⟩
  subst h1; subst h2
  apply Post_pure
  refine ⟨?_, hg5⟩
  intro hf t ht hne
  rcases List.mem_append.1 ht with ht | ht
  · split at ht
    · rcases List.mem_append.1 ht with ht | ht
      · exact absurd (hm0 t ht) hne
      · exact OTok_inRange T _ _ (hbody t ht)
    · cases ht
  · simp only [List.mem_flatten, List.mem_map] at ht
    obtain ⟨l, ⟨e, he, rfl⟩, hl⟩ := ht
    exact flow_inRange T _ e (hg5.flows hf e he) t hl

theorem parse_G (hw : T.WFInv) (fuel : Nat) (latex define : Str) (A : AllSpecs T latex.length fuel)
    (extr : List Str) (st : PState) (hg : G T latex.length st) :
    Post (parse T fuel latex define extr st)
      (fun toks st' => (st'.foreign = false → ∀ t ∈ toks, t.txt ≠ [] → TokInRange latex.length t) ∧
        G0 T latex.length st') := by
  rw [parse_eq]
  split
  · apply Post_bind _ _ _ (Q := fun _ s => G T latex.length s)
    · apply Post_modify
      exact { toG0 := initExtractions_G0 T hw hw.decimal_ascii _ _ _ hg.toG0, root := hg.root, inFrame := hg.inFrame }
    · intro _ s1 hg1
      exact parseRest_G T fuel latex define A extr s1 hg1
  · exact parseRest_G T fuel latex define A extr st hg

/-- `Parser.__init__` followed by `Parser.parse`: unless a text flow was extracted outside
    the root document (ghost flag `foreign`), every token of the result that carries text is
    in range of the root document -/
theorem parse_inRange (hw : T.WFInv) (fuel : Nat) (latex : Str) (o : Options) (multi : Bool) (fs : FS)
    (extr : List Str) :
    Post ((do initParser T fuel o; parse T fuel latex o.defs extr) (initialState T o multi fs))
      (fun toks st' => (st'.foreign = false → ∀ t ∈ toks, t.txt ≠ [] → TokInRange latex.length t) ∧
        G0 T latex.length st') := by
  have A := allSpecs T hw latex.length fuel
  apply Post_bind _ _ _ (Q := fun _ s => G T latex.length s)
  · exact initParser_G T latex.length fuel A o (builtin_ok T hw o) (getPackages_ok T hw)
      (builtin_envOk T hw o) (getPackages_envOk T hw) _
      (initialState_G T hw latex.length o multi fs)
  · intro _ s hg
    exact parse_G T hw fuel latex o.defs A extr s hg

end Yalafi
