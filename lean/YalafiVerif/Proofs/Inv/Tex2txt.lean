/-
  Proofs/Inv/Tex2txt.lean — C01 for `tex2txt` as a whole, from the bundle.
-/
import YalafiVerif.Proofs.Inv.Main
namespace Yalafi

variable (T : PTables)

/-- every part of a result: equal lengths and positions in `1 … n` -/
def PartOk (n : Nat) (tp : Str × List Nat) : Prop :=
  tp.1.length = tp.2.length ∧ ∀ p ∈ tp.2, 1 ≤ p ∧ p ≤ n

theorem partOk_shift (n : Nat) (txt : Str) (pos : List Nat) (hl : txt.length = pos.length)
    (hr : ∀ p ∈ pos, p < n) : PartOk n (txt, pos.map (· + 1)) := by
  refine ⟨by simpa using hl, ?_⟩
  intro p hp
  simp only [List.mem_map] at hp
  obtain ⟨q, hq, rfl⟩ := hp
  have := hr q hq
  omega

theorem filter_inRange (n : Nat) (toks : List Tok)
    (h : ∀ t ∈ toks, t.txt ≠ [] → TokInRange n t) :
    ∀ t ∈ toks.filter (fun t => !isLangTok t), t.txt ≠ [] → TokInRange n t :=
  fun t ht => h t (List.mem_filter.1 ht).1

/-- C01 on the model of the whole filter, for every source text, option record, file system
    and fuel: whenever `tex2txt` returns (and no text flow was extracted outside the root
    document — ghost flag, never set with the bundled modules), text and position list have
    equal length and every position lies in `1 … len(source)`; with `--unkn` only the
    lengths are claimed. -/
theorem tex2txt_inRange (hw : T.WFInv) (fuel : Nat) (latex : Str) (o : Options) (multi : Bool)
    (thresh : Nat) (fs : FS) :
    match tex2txt T fuel latex o multi thresh fs with
    | .ok r =>
      r.txt.length = r.pos.length ∧
      (r.foreign = false → o.unkn = false → PartOk latex.length (r.txt, r.pos)) ∧
      (r.foreign = false → ∀ tp ∈ allParts r.parts, PartOk latex.length tp)
    | _ => True := by
  have hp := parse_inRange T hw fuel latex o multi fs
    (if o.extr.isEmpty then [] else (splitOn ',' o.extr []).map (fun s => '\\' :: s))
  unfold tex2txt
  dsimp only
  revert hp
  generalize ((initParser T fuel o >>= fun _ => parse T fuel latex o.defs
    (if o.extr.isEmpty then [] else (splitOn ',' o.extr []).map (fun s => '\\' :: s)))
      (initialState T o multi fs)) = out
  intro hp
  rcases out with ⟨toks, st⟩ | m | c | _
  case fatal => trivial
  case crash => trivial
  case outOfFuel => trivial
  simp only [Post] at hp
  dsimp only
  cases multi with
  | false =>
    simp only [Bool.not_false, if_true]
    have hl := getTxtPos_length toks
    have hrp := replacePhrases_ok T.toTables _ _ o.repl hl
    refine ⟨?_, ?_, ?_⟩
    · cases o.unkn <;> cases o.hasRepl <;> simp [hl, hrp.1]
    · intro hf hu
      have hr := getTxtPos_range latex.length toks (hp.1 hf)
      simp only [hu, Bool.false_eq_true, if_false]
      cases o.hasRepl with
      | false => exact partOk_shift _ _ _ hl hr
      | true => exact partOk_shift _ _ _ hrp.1 (fun p h => hr p (hrp.2 p h))
    · intro _ tp htp
      simp [allParts] at htp
  | true =>
    simp only [Bool.not_true, Bool.false_eq_true, if_false]
    cases hml : getTxtPosML toks o.lang thresh (List.map (fun r => (r.code, r.chg)) st.rots) with
    | none => trivial
    | some pr =>
      obtain ⟨parts, lc'⟩ := pr
      dsimp only
      refine ⟨rfl, fun _ _ => ⟨rfl, fun p hp => by cases hp⟩, ?_⟩
      intro hf tp htp
      have hparts := getTxtPosML_parts toks o.lang thresh _ lc' parts hml
      have hr := getTxtPos_range latex.length _ (filter_inRange latex.length toks (hp.1 hf))
      simp only [allParts, List.map_map, List.mem_flatten, List.mem_map, Function.comp] at htp
      obtain ⟨l, ⟨e, he, rfl⟩, hl⟩ := htp
      simp only [List.mem_map] at hl
      obtain ⟨tp0, htp0, rfl⟩ := hl
      split at htp0
      · simp only [List.mem_map] at htp0
        obtain ⟨tp1, htp1, rfl⟩ := htp0
        have h1 := hparts tp1 (by
          simp only [allParts, List.mem_flatten, List.mem_map]
          exact ⟨e.2, ⟨e, he, rfl⟩, htp1⟩)
        have hrp := replacePhrases_ok T.toTables tp1.1 tp1.2 o.repl h1.1
        exact partOk_shift _ _ _ hrp.1 (fun p h => hr p (h1.2 p (hrp.2 p h)))
      · have h1 := hparts tp0 (by
          simp only [allParts, List.mem_flatten, List.mem_map]
          exact ⟨e.2, ⟨e, he, rfl⟩, htp0⟩)
        exact partOk_shift _ _ _ h1.1 (fun p h => hr p (h1.2 p h))

/-- the `lang_change` table handed to the splitter is well formed: one entry per language,
    non-empty, 'en' present -/
theorem langChangeOk_of_G0 (hw : T.WFInv) (nroot : Nat) (st : PState) (h : G0 T nroot st) :
    LangChangeOk (st.rots.map (fun r => (r.code, r.chg))) := by
  refine ⟨?_, ?_⟩
  · intro e he
    simp only [List.mem_map] at he
    obtain ⟨r, hr, rfl⟩ := he
    exact (h.rots.2 r hr).2.2
  · have hen := hw.lang_en
    unfold settingsOf at hen
    rw [List.find?_isSome] at hen
    obtain ⟨ls, hls, hc⟩ := hen
    have h1 := h.rots.1 ls hls
    unfold rotOf at h1
    rw [List.find?_isSome] at h1
    obtain ⟨r, hr, hrc⟩ := h1
    simp only [List.map_map, List.mem_map, Function.comp]
    refine ⟨r, hr, ?_⟩
    have e1 : r.code = ls.code := by simpa using hrc
    have e2 : ls.code = "en".toList := by simpa using hc
    rw [e1, e2]

/-- C07 on the model: whatever the source, options, files and fuel, the filter model never ends
    in a Python exception outside the listed sites (`allowedCrash`: code that is not modelled, and
    the sites whose unreachability is not proved). -/
theorem tex2txt_crashSites (hw : T.WFInv) (fuel : Nat) (latex : Str) (o : Options) (multi : Bool)
    (thresh : Nat) (fs : FS) (site : String)
    (h : tex2txt T fuel latex o multi thresh fs = .crash site) : site ∈ allowedCrash := by
  have hp := parse_inRange T hw fuel latex o multi fs
    (if o.extr.isEmpty then [] else (splitOn ',' o.extr []).map (fun s => '\\' :: s))
  unfold tex2txt at h
  dsimp only at h
  revert hp h
  generalize ((initParser T fuel o >>= fun _ => parse T fuel latex o.defs
    (if o.extr.isEmpty then [] else (splitOn ',' o.extr []).map (fun s => '\\' :: s)))
      (initialState T o multi fs)) = out
  intro h hp
  rcases out with ⟨toks, st⟩ | m | c | _
  case fatal => cases h
  case crash => cases h; exact hp
  case outOfFuel => cases h
  cases multi with
  | false => simp at h
  | true =>
    simp only [Bool.not_true, Bool.false_eq_true, if_false] at h
    have htot := getTxtPosML_total toks o.lang thresh _ (langChangeOk_of_G0 T hw _ st hp.2)
    split at h
    · rename_i hnone; rw [hnone] at htot; cases htot
    · simp at h

/-- C19 on the model: the list of unknowns returned by the filter never names a macro or
    environment twice, whatever the input -/
theorem tex2txt_unknowns_nodup (hw : T.WFInv) (fuel : Nat) (latex : Str) (o : Options) (multi : Bool)
    (thresh : Nat) (fs : FS) (r : T2TResult)
    (h : tex2txt T fuel latex o multi thresh fs = .ok r) : r.unknowns.Nodup := by
  have hp := parse_inRange T hw fuel latex o multi fs
    (if o.extr.isEmpty then [] else (splitOn ',' o.extr []).map (fun s => '\\' :: s))
  unfold tex2txt at h
  dsimp only at h
  revert hp h
  generalize ((initParser T fuel o >>= fun _ => parse T fuel latex o.defs
    (if o.extr.isEmpty then [] else (splitOn ',' o.extr []).map (fun s => '\\' :: s)))
      (initialState T o multi fs)) = out
  intro h hp
  rcases out with ⟨toks, st⟩ | m | c | _
  case fatal => cases h
  case crash => cases h
  case outOfFuel => cases h
  have hu : st.unknowns.Nodup := hp.2.unk
  cases multi with
  | false =>
    simp only [Bool.not_false, if_true, Outcome.ok.injEq] at h
    rw [← h]; exact hu
  | true =>
    simp only [Bool.not_true, Bool.false_eq_true, if_false] at h
    split at h
    · cases h
    · simp only [Outcome.ok.injEq] at h
      rw [← h]; exact hu

end Yalafi
