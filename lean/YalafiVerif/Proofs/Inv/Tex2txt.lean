/-
  Proofs/Inv/Tex2txt.lean — C01 for `tex2txt` as a whole, from the bundle.
-/
import YalafiVerif.Proofs.Inv.Main
namespace Yalafi

variable (T : PTables)

/-- every part of a result: equal lengths and positions in `1 … n` -/
def PartOk (n : Nat) (tp : Str × List Nat) : Prop :=
  tp.1.length = tp.2.length ∧ ∀ p ∈ tp.2, 1 ≤ p ∧ p ≤ n

/-- C01 on the model of the whole filter, for every source text, option record, file system
    and fuel: whenever `tex2txt` returns (and no text flow was extracted outside the root
    document — ghost flag, never set with the bundled modules), text and position list have
    equal length and every position lies in `1 … len(source)`; with `--unkn` only the
    lengths are claimed. -/
theorem tex2txt_inRange (hw : T.WFInv) (fuel : Nat) (latex : Str) (o : Options) (multi : Bool)
    (thresh : Nat) (fs : FS) :
    match tex2txt T fuel latex o multi thresh fs with
    | .ok r =>
      r.txt.length = r.pos.length ∧
      (r.foreign = false → o.unkn = false → PartOk latex.length (r.txt, r.pos)) ∧
      (r.foreign = false → ∀ tp ∈ allParts r.parts, PartOk latex.length tp)
    | _ => True := by
  sorry

end Yalafi
