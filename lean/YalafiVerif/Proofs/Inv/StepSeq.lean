/-
  Proofs/Inv/StepSeq.lean — step lemmas of the range-invariant bundle: each shows the
  specification of one function at `fuel + 1` from all specifications at `fuel`.
-/
import YalafiVerif.Proofs.Inv.Basic
namespace Yalafi

variable (T : PTables)

/-! ### the postcondition of `expandSequence` relative to the entry state -/

/-- postcondition of `SpecSeq` for entry state `st` -/
def SeqQ (nroot : Nat) (st : PState) (envStop : Option Str) (r : List Tok × Buf) (st' : PState) : Prop :=
  Good T nroot st st' ∧ BL T st.latex.length r.1 ∧ BL T st.latex.length r.2 ∧
    (envStop = none → OL T st.latex.length r.1)

theorem Post_ite {α} (c : Prop) [Decidable c] (x y : M α) (st : PState) (Q : α → PState → Prop)
    (h1 : c → Post (x st) Q) (h2 : ¬ c → Post (y st) Q) : Post ((if c then x else y) st) Q := by
  by_cases h : c
  · rw [if_pos h]; exact h1 h
  · rw [if_neg h]; exact h2 h

theorem Good_refl (nroot : Nat) (st : PState) (hg : G T nroot st) : Good T nroot st st :=
  ⟨hg, rfl, rfl⟩

/-- the recursive call of the loop, from a state reached by a `Good` step -/
theorem seq_cont {nroot fuel : Nat} (IH : SpecSeq T nroot fuel) {st st1 : PState}
    (hg : Good T nroot st st1) (buf : Buf) (envStop : Option Str) (out : List Tok)
    (hb : BL T st.latex.length buf) (ho : OL T st.latex.length out) :
    Post (expandSequence T fuel buf envStop out st1) (SeqQ T nroot st envStop) := by
  have h1 : st1.latex.length = st.latex.length := by rw [hg.2.1]
  have h := IH buf envStop out st1 hg.1 (h1 ▸ hb) (h1 ▸ ho)
  refine Post_mono _ _ _ h ?_
  rintro r s ⟨⟨g, sm⟩, a, b, c⟩
  rw [h1] at a b c
  exact ⟨⟨g, sm.1.trans hg.2.1, sm.2.trans hg.2.2⟩, a, b, c⟩

theorem OL_snoc (n : Nat) (out : List Tok) (t : Tok) (ho : OL T n out) (ht : OTok T n t) :
    OL T n (out ++ [t]) := by
  refine (OL_append T n out [t]).2 ⟨ho, ?_⟩
  intro x hx
  rw [List.mem_singleton] at hx
  exact hx ▸ ht

theorem OL_snoc2 (n : Nat) (out : List Tok) (t u : Tok) (ho : OL T n out) (ht : OTok T n t) (hu : OTok T n u) :
    OL T n (out ++ [t, u]) := by
  refine (OL_append T n out [t, u]).2 ⟨ho, ?_⟩
  intro x hx
  simp only [List.mem_cons, List.mem_nil_iff, or_false] at hx
  rcases hx with h | h
  · exact h ▸ ht
  · exact h ▸ hu

theorem G_of_diags (nroot : Nat) (st st' : PState) (hg : G T nroot st)
    (h : st' = { st with diags := st'.diags }) : Good T nroot st st' := by
  refine ⟨?_, ?_, ?_⟩
  · rw [h]; exact G_diags T nroot st _ hg
  · rw [h]
  · rw [h]

theorem G_langStack (nroot : Nat) (st : PState) (l : List (Str × Str)) (hg : G T nroot st)
    (hl : ∀ e ∈ l, (settingsOf T e.1).isSome = true) :
    G T nroot { st with langStack := l } :=
  ⟨⟨hg.flows, hg.macros, hg.envs, hg.gloss, hg.items, hl, hg.rots, hg.unk⟩, hg.root, hg.inFrame⟩

/-- `check_parser_lang` always names existing settings (falls back to 'en') -/
theorem settingsOf_checkLang (hw : T.WFInv) (l : Str) :
    (settingsOf T (checkLang T l)).isSome = true := by
  simp only [checkLang]
  split
  · next h =>
    unfold settingsOf
    rw [List.find?_isSome]
    simpa using h
  · exact hw.lang_en

theorem Good_changeParserLang (hw : T.WFInv) (nroot : Nat) (st : PState) (l : Str) (back hard : Bool)
    (hg : G T nroot st) :
    Good T nroot st (changeParserLang T st l back hard) := by
  have htail : ∀ e ∈ st.langStack.tail, (settingsOf T e.1).isSome = true :=
    fun e he => hg.langs e (List.mem_of_mem_tail he)
  have hcons : ∀ (tl : List (Str × Str)), (∀ e ∈ tl, (settingsOf T e.1).isSome = true) →
      ∀ e ∈ (checkLang T l, l) :: tl, (settingsOf T e.1).isSome = true := by
    intro tl htl e he
    rcases List.mem_cons.1 he with h | h
    · rw [h]; exact settingsOf_checkLang T hw l
    · exact htl e h
  unfold changeParserLang
  split
  · split
    · exact ⟨G_langStack T nroot st _ hg htail, rfl, rfl⟩
    · exact Good_refl T nroot st hg
  · split
    · exact ⟨G_langStack T nroot st _ hg (hcons _ htail), rfl, rfl⟩
    · exact ⟨G_langStack T nroot st _ hg (hcons _ hg.langs), rfl, rfl⟩

theorem lookupEnv_mem (st : PState) (name : Str) (env : MacroDef) (h : lookupEnv st name = some env) :
    env ∈ st.envs :=
  List.mem_of_find?_eq_some h

/-! ### one lemma per branch of the loop -/

section
variable {nroot fuel : Nat}

theorem br_nil (st : PState) (hg : G T nroot st) (envStop : Option Str) (out : List Tok)
    (ho : OL T st.latex.length out) :
    Post ((match removeLines out with
           | some r => (pure (r, []) : M (List Tok × Buf))
           | none => M.outOfFuel) st) (SeqQ T nroot st envStop) := by
  cases hr : removeLines out with
  | none => exact Post_outOfFuel _ _
  | some r =>
    have h := removeLines_OL T _ out r ho hr
    apply Post_pure
    exact ⟨Good_refl T nroot st hg, OL_BL T _ _ h, fun t ht => (nomatch ht), fun _ => h⟩

theorem br_begin (IH : AllSpecs T nroot fuel) (st : PState) (hg : G T nroot st)
    (tok : Tok) (rest : Buf) (envStop : Option Str) (out : List Tok)
    (ht : BTok T st.latex.length tok) (hr : BL T st.latex.length rest) (ho : OL T st.latex.length out) :
    Post ((do let r ← beginEnvironment T fuel rest tok false
              expandSequence T fuel (r.1 ++ r.2) envStop out) st) (SeqQ T nroot st envStop) := by
  refine Post_bind _ _ _ _ _ (IH.begin_ rest tok false st hg hr ht) ?_
  rintro r s ⟨g, a, b⟩
  exact seq_cont T IH.seq g _ _ _ ((BL_append T _ _ _).2 ⟨a, b⟩) ho

theorem br_end (IH : AllSpecs T nroot fuel) (st : PState) (hg : G T nroot st)
    (tok : Tok) (rest : Buf) (envStop : Option Str) (out : List Tok)
    (ht : BTok T st.latex.length tok) (hr : BL T st.latex.length rest) (ho : OL T st.latex.length out) :
    Post ((do let r ← endEnvironment T fuel rest tok envStop
              if r.1.2 then pure (r.1.1, r.2)
              else expandSequence T fuel (r.1.1 ++ r.2) envStop out) st) (SeqQ T nroot st envStop) := by
  refine Post_bind _ _ _ _ _ (IH.end_ rest tok envStop st hg hr ht) ?_
  rintro r s ⟨g, a, b, c⟩
  split
  · next hstop =>
    apply Post_pure
    refine ⟨g, a, b, ?_⟩
    intro hn
    apply c hstop
    intro nm hnm
    rw [hn] at hnm
    cases hnm
  · exact seq_cont T IH.seq g _ _ _ ((BL_append T _ _ _).2 ⟨a, b⟩) ho

theorem br_item (IH : AllSpecs T nroot fuel) (st : PState) (hg : G T nroot st)
    (tok : Tok) (rest : Buf) (envStop : Option Str) (out : List Tok)
    (ht : BTok T st.latex.length tok) (hr : BL T st.latex.length rest) (ho : OL T st.latex.length out) :
    Post ((do let r ← expandItem T fuel rest tok out
              expandSequence T fuel (r.1 ++ r.2) envStop out) st) (SeqQ T nroot st envStop) := by
  refine Post_bind _ _ _ _ _ (IH.item rest tok out st hg hr ht) ?_
  rintro r s ⟨g, a, b⟩
  exact seq_cont T IH.seq g _ _ _ ((BL_append T _ _ _).2 ⟨a, b⟩) ho

theorem br_def (hw : T.WFInv) (IH : AllSpecs T nroot fuel) (st : PState) (hg : G T nroot st)
    (tok : Tok) (rest : Buf) (envStop : Option Str) (out : List Tok)
    (ht : BTok T st.latex.length tok) (hr : BL T st.latex.length rest) (ho : OL T st.latex.length out) :
    Post ((do let r ← parseDefMacro T rest tok.pos
              expandSequence T fuel r.2 envStop (out ++ r.1)) st) (SeqQ T nroot st envStop) := by
  refine Post_bind _ _ _ _ _ (parseDefMacro_spec T hw nroot rest tok.pos st hg hr ht.1.1) ?_
  rintro r s ⟨g, a, b⟩
  exact seq_cont T IH.seq g _ _ _ b ((OL_append T _ _ _).2 ⟨ho, a⟩)

theorem br_macro (IH : AllSpecs T nroot fuel) (st : PState) (hg : G T nroot st)
    (tok : Tok) (rest : Buf) (envStop : Option Str) (out : List Tok)
    (ht : BTok T st.latex.length tok) (hr : BL T st.latex.length rest) (ho : OL T st.latex.length out) :
    Post ((do let r ← expandMacro T fuel rest tok false
              expandSequence T fuel (r.1 ++ r.2) envStop out) st) (SeqQ T nroot st envStop) := by
  refine Post_bind _ _ _ _ _ (IH.macro_ rest tok false st hg hr ht) ?_
  rintro r s ⟨g, a, b⟩
  exact seq_cont T IH.seq g _ _ _ ((BL_append T _ _ _).2 ⟨a, b⟩) ho

theorem br_inline (IH : AllSpecs T nroot fuel) (st : PState) (hg : G T nroot st)
    (tok : Tok) (rest : Buf) (envStop : Option Str) (out : List Tok)
    (ht : BTok T st.latex.length tok) (hr : BL T st.latex.length rest) (ho : OL T st.latex.length out) :
    Post ((do let r ← expandInlineMath T fuel rest tok
              expandSequence T fuel r.2 envStop (out ++ r.1)) st) (SeqQ T nroot st envStop) := by
  refine Post_bind _ _ _ _ _ (IH.inline rest tok st hg hr ht) ?_
  rintro r s ⟨g, a, b⟩
  exact seq_cont T IH.seq g _ _ _ b ((OL_append T _ _ _).2 ⟨ho, a⟩)

theorem br_display (IH : AllSpecs T nroot fuel) (st : PState) (hg : G T nroot st)
    (tok : Tok) (rest : Buf) (envStop : Option Str) (out : List Tok) (name : Str) (rem : Bool)
    (ht : BTok T st.latex.length tok) (hr : BL T st.latex.length rest) (ho : OL T st.latex.length out)
    (hn : (endFuncNames T).contains name = false) :
    Post ((do let r ← expandDisplayMath T fuel rest tok name rem
              expandSequence T fuel r.2 envStop (out ++ r.1)) st) (SeqQ T nroot st envStop) := by
  refine Post_bind _ _ _ _ _ (IH.display rest tok name rem st hg hr ht hn) ?_
  rintro r s ⟨g, a, b⟩
  exact seq_cont T IH.seq g _ _ _ b ((OL_append T _ _ _).2 ⟨ho, a⟩)

theorem mathBegin_name (n : Nat) (tok : Tok) (ht : BTok T n tok)
    (hk : (match tok.kind with | .mathBegin _ => true | _ => false) = true) :
    (endFuncNames T).contains tok.txt = false := by
  have h := ht.1.2.2.2
  unfold mbOk at h
  cases hkk : tok.kind <;> simp only [hkk] at hk h <;> first | (exact absurd hk (by decide)) | skip
  simpa using h

theorem br_dollars (IH : AllSpecs T nroot fuel) (st : PState) (hg : G T nroot st)
    (tok : Tok) (rest : Buf) (envStop : Option Str) (out : List Tok)
    (ht : BTok T st.latex.length tok) (hr : BL T st.latex.length rest) (ho : OL T st.latex.length out) :
    Post ((match lookupEnv st T.mathDefaultEnv with
        | none => (M.fatal "no environment for '$$' or '\\['".toList : M (List Tok × Buf))
        | some env =>
          if !env.isEqu then M.fatal (reprStr env.name ++ " is not an EquEnv".toList)
          else do
            let r ← expandDisplayMath T fuel rest tok env.name env.remove
            expandSequence T fuel r.2 envStop (out ++ r.1)) st) (SeqQ T nroot st envStop) := by
  cases henv : lookupEnv st T.mathDefaultEnv with
  | none => exact Post_fatal _ _ _
  | some env =>
    show Post ((if !env.isEqu then M.fatal (reprStr env.name ++ " is not an EquEnv".toList)
          else do
            let r ← expandDisplayMath T fuel rest tok env.name env.remove
            expandSequence T fuel r.2 envStop (out ++ r.1)) st) (SeqQ T nroot st envStop)
    split
    · exact Post_fatal _ _ _
    · next hequ =>
      have hm := hg.envs env (lookupEnv_mem st _ env henv)
      have hn : (endFuncNames T).contains env.name = false := by
        unfold envOk at hm
        simp at hequ
        simp [hequ] at hm
        simpa using hm.1.1
      exact br_display T IH st hg tok rest envStop out env.name env.remove ht hr ho hn

theorem br_accent (IH : AllSpecs T nroot fuel) (st : PState) (hg : G T nroot st)
    (tok : Tok) (rest : Buf) (envStop : Option Str) (out : List Tok)
    (ht : BTok T st.latex.length tok) (hr : BL T st.latex.length rest) (ho : OL T st.latex.length out)
    (hk : tok.kind = .accent) :
    Post ((do let r ← expandAccent T fuel rest tok
              expandSequence T fuel r.2 envStop (out ++ r.1)) st) (SeqQ T nroot st envStop) := by
  refine Post_bind _ _ _ _ _ (IH.accent rest tok st hg hr ht hk) ?_
  rintro r s ⟨g, a, b⟩
  exact seq_cont T IH.seq g _ _ _ b ((OL_append T _ _ _).2 ⟨ho, a⟩)

theorem br_newline (hw : T.WFInv) (IH : AllSpecs T nroot fuel) (st : PState) (hg : G T nroot st)
    (tok : Tok) (rest : Buf) (envStop : Option Str) (out : List Tok)
    (ht : BTok T st.latex.length tok) (hr : BL T st.latex.length rest) (ho : OL T st.latex.length out) :
    Post ((do let b ← parseNewlineOption T rest true
              expandSequence T fuel b envStop (out ++ [mkAction tok.pos, mkTok .space tok.pos [' ']])) st)
      (SeqQ T nroot st envStop) := by
  refine Post_bind _ _ _ _ _ (parseNewlineOption_spec T hw rest true st hr) ?_
  rintro r s ⟨a, b⟩
  exact seq_cont T IH.seq (G_of_diags T nroot st s hg b) _ _ _ a
    (OL_snoc2 T _ _ _ _ ho (OTok_mkAction T _ _ ht.1.1) (OTok_mkTok1 T _ _ _ _ ht.1.1 (Or.inr rfl)))

/-- a plain recursive call from the entry state -/
theorem br_plain (IH : AllSpecs T nroot fuel) (st : PState) (hg : G T nroot st)
    (buf : Buf) (envStop : Option Str) (out : List Tok)
    (hr : BL T st.latex.length buf) (ho : OL T st.latex.length out) :
    Post (expandSequence T fuel buf envStop out st) (SeqQ T nroot st envStop) :=
  seq_cont T IH.seq (Good_refl T nroot st hg) _ _ _ hr ho

/-- the text token that replaces a special / `\verb` token -/
theorem OTok_text (n : Nat) (tok : Tok) (v : Str) (ht : TokOk T n tok) (he : extent T tok = v.length) :
    OTok T n { kind := .text, pos := tok.pos, txt := v, fix := tok.fix } := by
  refine ⟨⟨ht.1, ?_, rfl, rfl⟩, rfl⟩
  intro hf
  have := ht.2.1 hf
  rw [he] at this
  exact this

theorem br_special (IH : AllSpecs T nroot fuel) (st : PState) (hg : G T nroot st)
    (tok : Tok) (rest : Buf) (envStop : Option Str) (out : List Tok)
    (ht : BTok T st.latex.length tok) (hr : BL T st.latex.length rest) (ho : OL T st.latex.length out)
    (hk : tok.kind = .special) :
    Post ((match T.toTables.specialVal tok.txt with
        | none => (M.crash "parser.py:expand_sequence:special_tokens[tok.txt]" : M (List Tok × Buf))
        | some v =>
          expandSequence T fuel rest envStop
            (out ++ [mkAction tok.pos, { kind := .text, pos := tok.pos, txt := v, fix := tok.fix }])) st)
      (SeqQ T nroot st envStop) := by
  cases hv : T.toTables.specialVal tok.txt with
  | none =>
    exfalso
    have h := ht.1.2.2.2
    unfold mbOk at h
    simp only [hk] at h
    rw [hv] at h
    exact absurd h (by decide)
  | some v =>
    refine br_plain T IH st hg _ _ _ hr (OL_snoc2 T _ _ _ _ ho (OTok_mkAction T _ _ ht.1.1) ?_)
    apply OTok_text T _ tok v ht.1
    simp only [extent, hk, hv, Option.getD_some]

theorem br_verb (hw : T.WFInv) (IH : AllSpecs T nroot fuel) (st : PState) (hg : G T nroot st)
    (tok : Tok) (rest : Buf) (envStop : Option Str) (out : List Tok)
    (ht : BTok T st.latex.length tok) (hr : BL T st.latex.length rest) (ho : OL T st.latex.length out)
    (hk : (match tok.kind with | .verb _ => true | _ => false) = true) :
    Post ((if tok.kind == .verb true then
          expandSequence T fuel (expandVerbEnvToken tok ++ rest) envStop out
        else
          expandSequence T fuel rest envStop
            (out ++ [mkAction tok.pos, { kind := .text, pos := tok.pos, txt := tok.txt, fix := tok.fix }])) st)
      (SeqQ T nroot st envStop) := by
  split
  · next h =>
    have h' : tok.kind = .verb true := by simpa using h
    exact br_plain T IH st hg _ _ _ ((BL_append T _ _ _).2 ⟨expandVerbEnvToken_BL T hw _ tok ht h', hr⟩) ho
  · next h =>
    refine br_plain T IH st hg _ _ _ hr (OL_snoc2 T _ _ _ _ ho (OTok_mkAction T _ _ ht.1.1) ?_)
    apply OTok_text T _ tok tok.txt ht.1
    have h' : tok.kind ≠ .verb true := by simpa using h
    cases hkk : tok.kind <;> simp only [hkk] at hk <;> first | (exact absurd hk (by decide)) | skip
    next b =>
      cases b
      · simp only [extent, hkk]
      · exact absurd hkk h'

theorem lang_outKind (tok : Tok) (hk : (match tok.kind with | .lang .. => true | _ => false) = true) :
    outKind tok = true := by
  unfold outKind
  cases hkk : tok.kind <;> simp only [hkk] at hk ⊢ <;> exact absurd hk (by decide)

theorem br_lang (hw : T.WFInv) (IH : AllSpecs T nroot fuel) (st : PState) (hg : G T nroot st)
    (tok : Tok) (rest : Buf) (envStop : Option Str) (out : List Tok)
    (ht : BTok T st.latex.length tok) (hr : BL T st.latex.length rest) (ho : OL T st.latex.length out)
    (hk : (match tok.kind with | .lang .. => true | _ => false) = true) :
    Post ((if st.multiLanguage then do
          match tok.kind with
          | .lang l back hard _ => M.modify (fun s => changeParserLang T s l back hard)
          | _ => pure ()
          expandSequence T fuel rest envStop (out ++ [tok])
        else expandSequence T fuel rest envStop out) st)
      (SeqQ T nroot st envStop) := by
  have hot : OL T st.latex.length (out ++ [tok]) := OL_snoc T _ _ _ ho ⟨ht.1, lang_outKind tok hk⟩
  split
  · split
    · next l back hard brk hkk =>
      refine Post_bind _ _ _ (fun _ s => Good T nroot st s) _ ?_ ?_
      · apply Post_modify
        exact Good_changeParserLang T hw nroot st l back hard hg
      · intro _ s g
        exact seq_cont T IH.seq g _ _ _ hr hot
    · exact br_plain T IH st hg _ _ _ hr hot
  · exact br_plain T IH st hg _ _ _ hr ho

theorem br_active (IH : AllSpecs T nroot fuel) (st : PState) (hg : G T nroot st)
    (tok : Tok) (rest : Buf) (envStop : Option Str) (out : List Tok)
    (ht : BTok T st.latex.length tok) (hr : BL T st.latex.length rest) (ho : OL T st.latex.length out)
    (hk : outKind tok = true) :
    Post (expandSequence T fuel (expandShortMacro T st tok rest).2 envStop
            (out ++ [(expandShortMacro T st tok rest).1]) st)
      (SeqQ T nroot st envStop) := by
  have h := expandShortMacro_spec T _ st tok rest ht hk hr
  exact br_plain T IH st hg _ _ _ h.2 (OL_snoc T _ _ _ ho h.1)

/-- after the branches for the consumed classes, the token is of an output class -/
theorem outKind_of_not (tok : Tok) (hm : isMathTok tok = false)
    (h1 : ¬ (tok.kind == .xbegin) = true) (h2 : ¬ (tok.kind == .xend) = true)
    (h3 : ¬ (tok.kind == .item) = true) (h4 : ¬ (tok.kind == .xmacro) = true)
    (h5 : ¬ (match tok.kind with | .mathBegin _ => true | _ => false) = true)
    (h6 : ¬ (tok.kind == .accent) = true) (h7 : ¬ (tok.kind == .special) = true)
    (h8 : ¬ (match tok.kind with | .verb _ => true | _ => false) = true) :
    outKind tok = true := by
  unfold outKind
  unfold isMathTok at hm
  cases hkk : tok.kind <;> simp_all

end

/-! ### the main loop -/

theorem seq_step (hw : T.WFInv) (nroot fuel : Nat) (IH : AllSpecs T nroot fuel) :
    SpecSeq T nroot (fuel + 1) := by
  intro buf envStop out st hg hb ho
  show Post _ (SeqQ T nroot st envStop)
  cases buf with
  | nil =>
    rw [expandSequence.eq_2]
    exact br_nil T st hg envStop out ho
  | cons tok rest =>
    have ht : BTok T st.latex.length tok := hb tok (List.mem_cons_self ..)
    have hr : BL T st.latex.length rest := fun t h => hb t (List.mem_cons_of_mem _ h)
    rw [expandSequence.eq_3]
    refine Post_bind _ _ _ (fun a s => a = st ∧ s = st) _ (Post_get _ _ ⟨rfl, rfl⟩) ?_
    rintro _ _ ⟨rfl, rfl⟩
    refine Post_ite _ _ _ _ _ (fun _ => br_begin T IH _ hg tok rest envStop out ht hr ho) (fun h1 => ?_)
    refine Post_ite _ _ _ _ _ (fun _ => br_end T IH _ hg tok rest envStop out ht hr ho) (fun h2 => ?_)
    refine Post_ite _ _ _ _ _ (fun _ => br_item T IH _ hg tok rest envStop out ht hr ho) (fun h3 => ?_)
    refine Post_ite _ _ _ _ _ (fun _ => Post_ite _ _ _ _ _
      (fun _ => br_def T hw IH _ hg tok rest envStop out ht hr ho)
      (fun _ => br_macro T IH _ hg tok rest envStop out ht hr ho)) (fun h4 => ?_)
    refine Post_ite _ _ _ _ _ (fun hk => br_verb T hw IH _ hg tok rest envStop out ht hr ho hk) (fun h8 => ?_)
    refine Post_ite _ _ _ _ _ (fun _ => br_inline T IH _ hg tok rest envStop out ht hr ho) (fun _ => ?_)
    refine Post_ite _ _ _ _ _ (fun hk =>
      br_display T IH _ hg tok rest envStop out _ _ ht hr ho (mathBegin_name T _ tok ht hk)) (fun h5 => ?_)
    refine Post_ite _ _ _ _ _ (fun _ => br_dollars T IH _ hg tok rest envStop out ht hr ho) (fun _ => ?_)
    refine Post_ite _ _ _ _ _ (fun hk =>
      br_accent T IH _ hg tok rest envStop out ht hr ho (by simpa using hk)) (fun h6 => ?_)
    refine Post_ite _ _ _ _ _ (fun _ => br_newline T hw IH _ hg tok rest envStop out ht hr ho) (fun _ => ?_)
    refine Post_ite _ _ _ _ _ (fun _ =>
      br_plain T IH _ hg _ _ _ hr (OL_snoc T _ _ _ ho (OTok_mkAction T _ _ ht.1.1))) (fun _ => ?_)
    refine Post_ite _ _ _ _ _ (fun hk =>
      br_special T IH _ hg tok rest envStop out ht hr ho (by simpa using hk)) (fun h7 => ?_)
    refine Post_ite _ _ _ _ _ (fun hk => br_lang T hw IH _ hg tok rest envStop out ht hr ho hk) (fun _ => ?_)
    have hok : outKind tok = true := outKind_of_not tok ht.2 h1 h2 h3 h4 h5 h6 h7 h8
    refine Post_ite _ _ _ _ _ (fun _ => br_active T IH _ hg tok rest envStop out ht hr ho hok) (fun _ => ?_)
    refine Post_ite _ _ _ _ _ (fun _ => br_plain T IH _ hg _ _ _ hr ho) (fun _ => ?_)
    exact br_plain T IH _ hg _ _ _ hr (OL_snoc T _ _ _ ho ⟨ht.1, hok⟩)

end Yalafi
