/-
  Proofs/Inv/StepMath.lean — step lemmas of the range-invariant bundle: each shows the
  specification of one function at `fuel + 1` from all specifications at `fuel`.
-/
import YalafiVerif.Proofs.Inv.Basic
namespace Yalafi

variable (T : PTables)

/-! ### pure lemmas: `detectMathParts`, `replaceStep`, `replaceSection` -/

/-- token of a maths section's output: in range, maths class or output class -/
def MTok (n : Nat) (t : Tok) : Prop := TokOk T n t ∧ (isMathTok t = true ∨ outKind t = true)

def ItemOk (n : Nat) : SecItem → Prop
  | .tok t => OTok T n t
  | .part ts => ∀ t ∈ ts, t.pos < n

theorem detect_ok (n : Nat) : ∀ (ts cur : List Tok), (∀ t ∈ ts, MTok T n t) → (∀ t ∈ cur, t.pos < n) →
    ∀ it ∈ detectMathParts ts cur, ItemOk T n it := by
  intro ts
  induction ts with
  | nil =>
    intro cur _ hc it hit
    simp only [detectMathParts] at hit
    split at hit
    · simp at hit
    · simp at hit; subst hit; simpa [ItemOk] using hc
  | cons t ts ih =>
    intro cur hts hc it hit
    have ht := hts t (by simp)
    have hts' : ∀ t ∈ ts, MTok T n t := fun u hu => hts u (by simp [hu])
    simp only [detectMathParts] at hit
    split at hit
    · exact ih (t :: cur) hts' (by intro u hu; simp at hu; rcases hu with rfl | hu; exact ht.1.1; exact hc u hu) it hit
    · rename_i hm
      simp only [List.mem_append, List.mem_cons] at hit
      rcases hit with hit | rfl | hit
      · split at hit
        · simp at hit
        · simp at hit; subst hit; simpa [ItemOk] using hc
      · refine ⟨ht.1, ?_⟩
        rcases ht.2 with h | h
        · exact absurd h hm
        · exact h
      · exact ih [] hts' (by simp) it hit

theorem OL_nil (n : Nat) : OL T n [] := by intro t h; simp at h
theorem OL_snoc (n : Nat) (a : List Tok) (t : Tok) (ha : OL T n a) (ht : OTok T n t) : OL T n (a ++ [t]) := by
  intro u hu; simp at hu; rcases hu with hu | rfl; exact ha u hu; exact ht
theorem OTok_mathSp (n p : Nat) (h : p < n) : OTok T n (mathSp p) := OTok_mkFix T n p .space _ h (by simp)
theorem OTok_fixText (n p : Nat) (txt : Str) (h : p < n) : OTok T n (mkFix .text p txt) := OTok_mkFix T n p .text _ h (by simp)

theorem find_pos_lt (n : Nat) (ts : List Tok) (p : Tok → Bool) (d : Nat) (h : ∀ t ∈ ts, t.pos < n) (hd : d < n) :
    ((ts.find? p).map (·.pos)).getD d < n := by
  cases hf : ts.find? p with
  | none => simpa using hd
  | some t => simpa using h t (List.mem_of_find?_eq_some hf)

theorem replaceStep_OL (n : Nat) (opText : List (Str × Str)) (opDefault : Option Str) (inline : Bool)
    (s s' : RsState) (it : SecItem) (hs : OL T n s.out) (hi : ItemOk T n it)
    (h : replaceStep T opText opDefault inline s it = some s') : OL T n s'.out := by
  cases it with
  | tok t =>
    simp only [replaceStep, Option.some.injEq] at h
    subst h
    split <;> exact OL_snoc T n _ _ hs hi
  | part ts =>
    simp only [replaceStep] at h
    have hi' : ∀ t ∈ ts, t.pos < n := hi
    split at h
    · rename_i t0 tl h0 hl
      have ht0 : t0.pos < n := hi' t0 (List.mem_of_head? h0)
      have hout1 : OL T n (if (t0.kind == Kind.mathSpace) = true then s.out ++ [mathSp t0.pos] else s.out) := by
        split
        · exact OL_snoc T n _ _ hs (OTok_mathSp T n _ ht0)
        · exact hs
      split at h
      · simp only [Option.some.injEq] at h; subst h
        exact OL_snoc T n _ _ hs (OTok_mathSp T n _ ht0)
      · split at h
        · exact absurd h (by simp)
        · rename_i out2 h2
          have hout2 : OL T n out2 := by
            split at h2
            · rename_i o ho
              have hop : o.pos < n := by
                split at ho
                · rename_i t hf
                  split at ho
                  · simp only [Option.some.injEq] at ho; subst ho
                    exact hi' _ (List.mem_of_find?_eq_some hf)
                  · exact absurd ho (by simp)
                · exact absurd ho (by simp)
              split at h2
              · split at h2
                · exact absurd h2 (by simp)
                · simp only [Option.some.injEq] at h2; subst h2
                  rw [show ∀ (a : List Tok) x y z, a ++ [x, y, z] = a ++ [x] ++ [y] ++ [z] by simp]
                  exact OL_snoc T n _ _ (OL_snoc T n _ _ (OL_snoc T n _ _ hout1 (OTok_mathSp T n _ ht0))
                    (OTok_fixText T n _ _ hop)) (OTok_mathSp T n _ hop)
              · simp only [Option.some.injEq] at h2; subst h2; exact hout1
            · simp only [Option.some.injEq] at h2; subst h2; exact hout1
          split at h
          · exact absurd h (by simp)
          · simp only [Option.some.injEq] at h; subst h
            have hpp : (if inline = true then t0.pos else
                (Option.map (fun x => x.pos) (List.find?
                  (fun t => t.kind == Kind.mathElem && !T.mathPunctuation.contains t.txt) ts)).getD t0.pos) < n := by
              split
              · exact ht0
              · exact find_pos_lt n ts _ _ hi' ht0
            simp only
            repeat' (first | assumption | with_reducible apply OL_snoc | with_reducible apply OTok_mathSp | with_reducible apply OTok_fixText | split)
    · exact absurd h (by simp)

theorem foldlM_replaceStep_OL (n : Nat) (opText : List (Str × Str)) (opDefault : Option Str) (inline : Bool) :
    ∀ (items : List SecItem) (s s' : RsState), OL T n s.out → (∀ it ∈ items, ItemOk T n it) →
    items.foldlM (replaceStep T opText opDefault inline) s = some s' → OL T n s'.out := by
  intro items
  induction items with
  | nil => intro s s' hs _ h; simp at h; subst h; exact hs
  | cons it items ih =>
    intro s s' hs hi h
    simp only [List.foldlM_cons, Option.bind_eq_bind, Option.bind_eq_some_iff] at h
    obtain ⟨s1, h1, h2⟩ := h
    exact ih s1 s' (replaceStep_OL T n _ _ _ s s1 it hs (hi it (by simp)) h1) (fun j hj => hi j (by simp [hj])) h2

theorem replaceSection_OL (n : Nat) (opText : List (Str × Str)) (opDefault : Option Str) (inline : Bool)
    (sec : List Tok) (fs nr : Bool) (repls : List Str) (rs : RsState) (h : ∀ t ∈ sec, MTok T n t)
    (hr : replaceSection T opText opDefault inline (detectMathParts sec []) fs nr repls = some rs) :
    OL T n rs.out := by
  unfold replaceSection at hr
  exact foldlM_replaceStep_OL T n _ _ _ _ _ rs (OL_nil T n) (detect_ok T n sec [] h (by simp)) hr

/-! ### no-crash facts: `special_tokens[t.txt]`, `lang_context`, `replace_section`, `setRot` -/

theorem ncMath_rotL (l : List Str) (h : l ≠ []) : rotL l ≠ [] := by
  cases l with
  | nil => exact absurd rfl h
  | cons a t => simp [rotL]

def ncMath_ItemNE : SecItem → Prop
  | .tok _ => True
  | .part ts => ts ≠ []

theorem ncMath_detect_NE : ∀ (ts cur : List Tok), ∀ it ∈ detectMathParts ts cur, ncMath_ItemNE it := by
  intro ts
  induction ts with
  | nil =>
    intro cur it hit
    simp only [detectMathParts] at hit
    split at hit
    · simp at hit
    · rename_i hc
      simp only [List.mem_singleton] at hit; subst hit
      simp only [ncMath_ItemNE, ne_eq, List.reverse_eq_nil_iff]
      simpa using hc
  | cons t ts ih =>
    intro cur it hit
    simp only [detectMathParts] at hit
    split at hit
    · exact ih _ it hit
    · simp only [List.mem_append, List.mem_cons] at hit
      rcases hit with hit | rfl | hit
      · split at hit
        · simp at hit
        · rename_i hc
          simp only [List.mem_singleton] at hit; subst hit
          simp only [ncMath_ItemNE, ne_eq, List.reverse_eq_nil_iff]
          simpa using hc
      · trivial
      · exact ih _ it hit

theorem ncMath_replaceStep (opText : List (Str × Str)) (d : Str) (inline : Bool)
    (s : RsState) (it : SecItem) (hs : s.repls ≠ []) (hi : ncMath_ItemNE it) :
    ∃ s', replaceStep T opText (some d) inline s it = some s' ∧ s'.repls ≠ [] := by
  cases it with
  | tok t =>
    simp only [replaceStep]
    split <;> exact ⟨_, rfl, hs⟩
  | part ts =>
    cases ts with
    | nil => exact absurd rfl hi
    | cons t0 r =>
      obtain ⟨tl, htl⟩ : ∃ tl, (t0 :: r).getLast? = some tl := ⟨_, List.getLast?_eq_some_getLast (by simp)⟩
      simp only [replaceStep, List.head?_cons, htl]
      have key : ∀ c : Bool, (if c = true then rotL s.repls else s.repls) ≠ [] := by
        intro c; split
        · exact ncMath_rotL _ hs
        · exact hs
      split
      · exact ⟨_, rfl, hs⟩
      · split
        · rename_i heq
          exfalso
          split at heq
          · split at heq <;> simp at heq
          · simp at heq
        · rename_i out2 _
          split
          · rename_i heq
            exfalso
            split at heq
            · exact key _ (List.head?_eq_none_iff.mp heq)
            · simp at heq
          · exact ⟨_, rfl, key _⟩

theorem ncMath_foldlM_replaceStep (opText : List (Str × Str)) (d : Str) (inline : Bool) :
    ∀ (items : List SecItem) (s : RsState), s.repls ≠ [] → (∀ it ∈ items, ncMath_ItemNE it) →
    ∃ s', items.foldlM (replaceStep T opText (some d) inline) s = some s' ∧ s'.repls ≠ [] := by
  intro items
  induction items with
  | nil => intro s hs _; exact ⟨s, rfl, hs⟩
  | cons it items ih =>
    intro s hs hi
    obtain ⟨s1, h1, h2⟩ := ncMath_replaceStep T opText d inline s it hs (hi it (by simp))
    obtain ⟨s2, h3, h4⟩ := ih s1 h2 (fun j hj => hi j (by simp [hj]))
    refine ⟨s2, ?_, h4⟩
    simp only [List.foldlM_cons, Option.bind_eq_bind, h1, Option.bind_some, h3]

/-- `replace_section` cannot raise: every part is non-empty, the default operator text exists,
    and the placeholder list is (and stays) non-empty -/
theorem replaceSection_total (opText : List (Str × Str)) (opDefault : Option Str) (inline : Bool)
    (toks : List Tok) (first next : Bool) (repls : List Str)
    (hd : opDefault.isSome = true) (hr : repls ≠ []) :
    ∃ rs, replaceSection T opText opDefault inline (detectMathParts toks []) first next repls = some rs ∧
      rs.repls ≠ [] := by
  obtain ⟨d, rfl⟩ := Option.isSome_iff_exists.mp hd
  unfold replaceSection
  exact ncMath_foldlM_replaceStep T opText d inline _ _ hr (ncMath_detect_NE toks [])

theorem ncMath_special (n : Nat) (tok : Tok) (h : TokOk T n tok) : ∃ txt, mathSpecialTxt T tok = some txt := by
  unfold mathSpecialTxt
  split
  · rename_i hk
    have hm := h.2.2.2
    simp only [beq_iff_eq] at hk
    simp only [mbOk, hk] at hm
    exact Option.isSome_iff_exists.mp hm
  · exact ⟨_, rfl⟩

theorem ncMath_settings (hw : T.WFInv) (nroot : Nat) (st : PState) (h : G0 T nroot st) :
    ∃ ls, settingsOf T (curSettings st) = some ls := by
  apply Option.isSome_iff_exists.mp
  unfold curSettings
  cases hs : st.langStack with
  | nil => simpa using hw.lang_en
  | cons e r => simpa using h.langs e (by simp [hs])

theorem ncMath_rot (nroot : Nat) (st : PState) (h : G0 T nroot st) (code : Str) (ls : LangSettings)
    (hs : settingsOf T code = some ls) :
    ∃ rot, rotOf st code = some rot ∧ rot ∈ st.rots ∧ rot.inl ≠ [] ∧ rot.disp ≠ [] ∧ rot.chg ≠ [] := by
  unfold settingsOf at hs
  have hc := List.find?_some hs
  have hm := List.mem_of_find?_eq_some hs
  simp only [beq_iff_eq] at hc
  subst hc
  obtain ⟨rot, hr⟩ := Option.isSome_iff_exists.mp (h.rots.1 ls hm)
  have hmem : rot ∈ st.rots := List.mem_of_find?_eq_some hr
  exact ⟨rot, hr, hmem, h.rots.2 rot hmem⟩


theorem ncMath_rotOf_setRot (st : PState) (r : Rot) (code : Str) :
    (rotOf (setRot st r) code).isSome = (rotOf st code).isSome := by
  unfold rotOf setRot
  simp only [List.find?_map, Option.isSome_map]
  congr 2
  funext x
  simp only [Function.comp]
  split
  · rename_i hx
    simp only [beq_iff_eq] at hx
    rw [hx]
  · rfl

theorem ncMath_G_setRot (nroot : Nat) (st : PState) (r : Rot) (h : G T nroot st)
    (hr : r.inl ≠ [] ∧ r.disp ≠ [] ∧ r.chg ≠ []) : G T nroot (setRot st r) := by
  refine ⟨⟨h.flows, h.macros, h.envs, h.gloss, h.items, h.langs, ⟨?_, ?_⟩, h.unk⟩, h.root, h.inFrame⟩
  · intro l hl
    rw [ncMath_rotOf_setRot]
    exact h.rots.1 l hl
  · intro x hx
    simp only [setRot, List.mem_map] at hx
    obtain ⟨y, hy, rfl⟩ := hx
    split
    · exact hr
    · exact h.rots.2 y hy

/-! ### frame lemmas -/

theorem Good_refl (nroot : Nat) (st : PState) (h : G T nroot st) : Good T nroot st st := ⟨h, rfl, rfl⟩

theorem Good_trans (nroot : Nat) (a b c : PState) (h1 : Good T nroot a b) (h2 : Good T nroot b c) :
    Good T nroot a c :=
  ⟨h2.1, h2.2.1.trans h1.2.1, h2.2.2.trans h1.2.2⟩

theorem Good_diags (nroot : Nat) (st st' : PState) (h : G T nroot st)
    (hd : st' = { st with diags := st'.diags }) : Good T nroot st st' := by
  rw [hd]; exact ⟨G_diags T nroot st _ h, rfl, rfl⟩

theorem Good_setRot (nroot : Nat) (st : PState) (r : Rot) (h : G T nroot st)
    (hr : r.inl ≠ [] ∧ r.disp ≠ [] ∧ r.chg ≠ []) : Good T nroot st (setRot st r) :=
  ⟨ncMath_G_setRot T nroot st r h hr, rfl, rfl⟩

theorem MTok_of_OTok (n : Nat) (t : Tok) (h : OTok T n t) : MTok T n t := ⟨h.1, Or.inr h.2⟩

theorem TokOk_mkMath (n p : Nat) (k : Kind) (txt : Str) (hp : p < n)
    (hk : k = .mathSpace ∨ k = .mathOper ∨ k = .mathElem) : TokOk T n (mkTok k p txt) := by
  rcases hk with rfl | rfl | rfl <;> simp [TokOk, mkTok, extent, ctlEmpty, mbOk, hp, Nat.le_of_lt hp]

theorem MTok_mkMath (n p : Nat) (k : Kind) (txt : Str) (hp : p < n)
    (hk : k = .mathSpace ∨ k = .mathOper ∨ k = .mathElem) : MTok T n (mkTok k p txt) := by
  refine ⟨TokOk_mkMath T n p k txt hp hk, Or.inl ?_⟩
  rcases hk with rfl | rfl | rfl <;> rfl

theorem MathBuf_of_BL (n : Nat) (b : Buf) (h : BL T n b) : MathBuf T n b :=
  ⟨[], b, rfl, by simp, by intro t ht; simp at ht, h⟩

theorem skipSpace_MathBuf (n : Nat) (buf : Buf) (tok : Tok) (rest : Buf) (h : MathBuf T n buf)
    (hs : skipSpace buf = tok :: rest) : TokOk T n tok ∧ BL T n rest := by
  obtain ⟨pre, rest0, rfl, hl, hp, hr⟩ := h
  have key : ∀ b : Buf, BL T n b → skipSpace b = tok :: rest → TokOk T n tok ∧ BL T n rest := by
    intro b hb hsb
    have := BL_skipSpace T n b hb
    rw [hsb] at this
    exact ⟨(this tok (by simp)).1, fun u hu => this u (by simp [hu])⟩
  match pre, hl, hp with
  | [], _, _ => exact key rest0 hr hs
  | [p], _, hp =>
    simp only [skipSpace, List.cons_append, List.nil_append, List.dropWhile_cons] at hs
    split at hs
    · exact key rest0 hr hs
    · simp only [List.cons.injEq] at hs
      obtain ⟨rfl, rfl⟩ := hs
      exact ⟨hp _ (by simp), hr⟩
  | _ :: _ :: _, hl, _ => simp at hl

/-- the postcondition of `expandMathSection` relative to the state at entry -/
def MathPost (nroot : Nat) (st : PState) (r : MathSec) (st' : PState) : Prop :=
  Good T nroot st st' ∧ BL T st.latex.length r.buf ∧
    (∀ t ∈ r.out, TokOk T st.latex.length t ∧ (isMathTok t = true ∨ outKind t = true)) ∧
    (∀ t, r.term = some t → t.pos < st.latex.length)

/-- recursive call of `expandMathSection` from a later state of the same frame -/
theorem mathSec_rec (nroot fuel : Nat) (IH : AllSpecs T nroot fuel) (st st1 : PState)
    (hgood : Good T nroot st st1) (buf : Buf) (start : Nat) (toksStop : List Str) (envStop : Option Str)
    (out : List Tok) (hb : MathBuf T st.latex.length buf) (hs : start < st.latex.length)
    (he : ∀ nm, envStop = some nm → (endFuncNames T).contains nm = false)
    (ho : ∀ t ∈ out, MTok T st.latex.length t) :
    Post (expandMathSection T fuel buf start toksStop envStop out st1) (MathPost T nroot st) := by
  have hl : st1.latex = st.latex := hgood.2.1
  have := IH.mathSec buf start toksStop envStop out st1 hgood.1 (by rw [hl]; exact hb) (by rw [hl]; exact hs) he
    (by rw [hl]; exact ho)
  rw [hl] at this
  refine Post_mono _ _ _ this ?_
  intro r s ⟨h1, h2, h3, h4⟩
  exact ⟨Good_trans T nroot _ _ _ hgood h1, h2, h3, h4⟩

theorem fin_MTok (n : Nat) (p : Tok → Bool) (o : List Tok) (h : ∀ t ∈ o, MTok T n t) :
    ∀ t ∈ o.filter p, TokOk T n t ∧ (isMathTok t = true ∨ outKind t = true) :=
  fun t ht => h t (List.mem_filter.mp ht).1

theorem MTok_append (n : Nat) (a b : List Tok) (ha : ∀ t ∈ a, MTok T n t) (hb : ∀ t ∈ b, MTok T n t) :
    ∀ t ∈ a ++ b, MTok T n t := by
  intro t ht; rcases List.mem_append.mp ht with h | h; exact ha t h; exact hb t h

theorem MTok_OL (n : Nat) (a : List Tok) (ha : OL T n a) : ∀ t ∈ a, MTok T n t :=
  fun t ht => MTok_of_OTok T n t (ha t ht)

/-! ### `expandMathSection` -/

theorem Post_ite {α} (c : Prop) [Decidable c] (a b : M α) (st : PState) (Q : α → PState → Prop)
    (ha : c → Post (a st) Q) (hb : ¬c → Post (b st) Q) : Post ((if c then a else b) st) Q := by
  by_cases h : c
  · rw [if_pos h]; exact ha h
  · rw [if_neg h]; exact hb h

theorem mathSec_step (hw : T.WFInv) (nroot fuel : Nat) (IH : AllSpecs T nroot fuel) :
    SpecMathSec T nroot (fuel + 1) := by
  intro buf start toksStop envStop out st hg hmb hstart henv hout
  change Post _ (MathPost T nroot st)
  have hout' : ∀ t ∈ out, MTok T st.latex.length t := hout
  rw [expandMathSection.eq_2]
  cases hsk : skipSpace buf with
  | nil =>
    -- end of buffer
    dsimp only
    refine Post_bind _ _ _ _ _ (latexError_spec T hw _ start st hstart) ?_
    intro e st1 ⟨he, hst1⟩
    apply Post_pure
    exact ⟨Good_diags T nroot st st1 hg hst1, by intro t ht; simp at ht,
      fin_MTok T _ _ _ (MTok_append T _ _ _ (MTok_OL T _ _ he) hout'), by intro t ht; simp at ht⟩
  | cons tok rest =>
    dsimp only
    obtain ⟨htok, hrest⟩ := skipSpace_MathBuf T _ buf tok rest hmb hsk
    refine Post_ite _ _ _ _ _ (fun hk => ?_) (fun _ => ?_)
    · -- paragraph
      refine Post_bind _ _ _ _ _ (latexError_spec T hw _ start st hstart) ?_
      intro e st1 ⟨he, hst1⟩
      apply Post_pure
      refine ⟨Good_diags T nroot st st1 hg hst1, hrest,
        fin_MTok T _ _ _ (MTok_append T _ _ _ (MTok_OL T _ _ he) hout'), ?_⟩
      intro t ht; simp only [Option.some.injEq] at ht; subst ht; exact htok.1
    refine Post_ite _ _ _ _ _ (fun hk => ?_) (fun _ => ?_)
    · -- verbatim token: a maths element (its text is no markup)
      exact mathSec_rec T nroot fuel IH st st (Good_refl T nroot st hg) _ start toksStop envStop _
        (MathBuf_of_BL T _ _ hrest) hstart henv
        (MTok_append T _ _ _ hout' (by
          intro u hu; simp only [List.mem_singleton] at hu; subst hu
          exact MTok_mkMath T _ _ _ _ htok.1 (by simp)))
    refine Post_ite _ _ _ _ _ (fun hk => ?_) (fun _ => ?_)
    · -- stop token
      apply Post_pure
      refine ⟨Good_refl T nroot st hg, hrest, fin_MTok T _ _ _ hout', ?_⟩
      intro t ht; simp only [Option.some.injEq] at ht; subst ht; exact htok.1
    refine Post_ite _ _ _ _ _ (fun hk => ?_) (fun _ => ?_)
    · -- \begin
      have hbt : BTok T st.latex.length tok := ⟨htok, by simp only [beq_iff_eq] at hk; simp [isMathTok, hk]⟩
      refine Post_bind _ _ _ _ _ (IH.begin_ rest tok true st hg hrest hbt) ?_
      intro r st1 ⟨hgood, h1, h2⟩
      exact mathSec_rec T nroot fuel IH st st1 hgood _ start toksStop envStop out
        (MathBuf_of_BL T _ _ ((BL_append T _ _ _).mpr ⟨h1, h2⟩)) hstart henv hout'
    refine Post_ite _ _ _ _ _ (fun hk => ?_) (fun _ => ?_)
    · -- \end
      have hbt : BTok T st.latex.length tok := ⟨htok, by simp only [beq_iff_eq] at hk; simp [isMathTok, hk]⟩
      refine Post_bind _ _ _ _ _ (IH.end_ rest tok envStop st hg hrest hbt) ?_
      intro r st1 ⟨hgood, h1, h2, h3⟩
      refine Post_ite _ _ _ _ _ (fun hk => ?_) (fun _ => ?_)
      · apply Post_pure
        refine ⟨hgood, h2, fin_MTok T _ _ _ (MTok_append T _ _ _ hout' (MTok_OL T _ _ (h3 hk henv))), ?_⟩
        intro t ht; simp only [Option.some.injEq] at ht; subst ht; exact htok.1
      · exact mathSec_rec T nroot fuel IH st st1 hgood _ start toksStop envStop out
          (MathBuf_of_BL T _ _ ((BL_append T _ _ _).mpr ⟨h1, h2⟩)) hstart henv hout'
    refine Post_ite _ _ _ _ _ (fun hk => ?_) (fun _ => ?_)
    · -- macro
      have hbt : BTok T st.latex.length tok := ⟨htok, by simp only [beq_iff_eq] at hk; simp [isMathTok, hk]⟩
      refine Post_bind _ _ _ _ _ (Post_get st (fun a s => st = a ∧ st = s) ⟨rfl, rfl⟩) ?_
      rintro _ _ ⟨rfl, rfl⟩
      refine Post_ite _ _ _ _ _ (fun hk => ?_) (fun _ => ?_)
      · -- text macro
        refine Post_bind _ _ _ _ _ (argBuffer_spec T hw rest tok.pos true st hrest htok.1) ?_
        intro a st1 ⟨ha1, _, ha2, hst1⟩
        have hgood1 := Good_diags T nroot st st1 hg hst1
        have hl1 : st1.latex = st.latex := hgood1.2.1
        have hseq := IH.seq a.1 none [] st1 hgood1.1 (by rw [hl1]; exact ha1) (by intro t ht; simp at ht)
        rw [hl1] at hseq
        refine Post_bind _ _ _ _ _ hseq ?_
        intro e st2 ⟨hgood2, he1, _, he3⟩
        exact mathSec_rec T nroot fuel IH st st2 (Good_trans T nroot _ _ _ hgood1 hgood2) _ start toksStop envStop _
          (MathBuf_of_BL T _ _ ha2) hstart henv (MTok_append T _ _ _ hout' (MTok_OL T _ _ (he3 rfl)))
      · -- other macro
        refine Post_bind _ _ _ _ _ (IH.macro_ rest tok true st hg hrest hbt) ?_
        intro r st1 ⟨hgood, h1, h2⟩
        refine Post_bind _ _ _ _ _ (Post_get st1 (fun a s => st1 = a ∧ st1 = s) ⟨rfl, rfl⟩) ?_
        rintro _ _ ⟨rfl, rfl⟩
        refine mathSec_rec T nroot fuel IH st st1 hgood _ start toksStop envStop out ?_ hstart henv hout'
        refine ⟨_, r.1 ++ r.2, List.append_assoc _ _ _, ?_, ?_, (BL_append T _ _ _).mpr ⟨h1, h2⟩⟩
        · split; simp; split; simp; split; simp; simp
        · intro t ht
          split at ht
          · simp only [List.mem_singleton] at ht; subst ht; exact TokOk_mkMath T _ _ _ _ htok.1 (by simp)
          split at ht
          · simp only [List.mem_singleton] at ht; subst ht; exact TokOk_mkMath T _ _ _ _ htok.1 (by simp)
          split at ht
          · simp only [List.mem_singleton] at ht; subst ht; exact TokOk_mkMath T _ _ _ _ htok.1 (by simp)
          · simp at ht
    · -- other tokens
      refine Post_bind _ _ _ _ _ (Post_get st (fun a s => st = a ∧ st = s) ⟨rfl, rfl⟩) ?_
      rintro _ _ ⟨rfl, rfl⟩
      have hmr := MathBuf_of_BL T _ _ hrest
      have hgr := Good_refl T nroot st hg
      have snoc : ∀ t, MTok T st.latex.length t → ∀ u ∈ out ++ [t], MTok T st.latex.length u :=
        fun t ht => MTok_append T _ _ _ hout' (by intro u hu; simp only [List.mem_singleton] at hu; subst hu; exact ht)
      refine Post_ite _ _ _ _ _ (fun hk => ?_) (fun _ => ?_)
      · exact mathSec_rec T nroot fuel IH st st hgr _ start toksStop envStop _ hmr hstart henv (snoc tok ⟨htok, Or.inl hk⟩)
      refine Post_ite _ _ _ _ _ (fun hk => ?_) (fun _ => ?_)
      · exact mathSec_rec T nroot fuel IH st st hgr _ start toksStop envStop _ hmr hstart henv hout'
      refine Post_ite _ _ _ _ _ (fun hk => ?_) (fun _ => ?_)
      · exact mathSec_rec T nroot fuel IH st st hgr _ start toksStop envStop _ hmr hstart henv hout'
      refine Post_ite _ _ _ _ _ (fun hk => ?_) (fun _ => ?_)
      · exact mathSec_rec T nroot fuel IH st st hgr _ start toksStop envStop _ hmr hstart henv
          (snoc _ (MTok_mkMath T _ _ _ _ htok.1 (by simp)))
      obtain ⟨txt, htxt⟩ := ncMath_special T _ tok htok
      rw [htxt]
      dsimp only
      refine Post_ite _ _ _ _ _ (fun hk => ?_) (fun _ => ?_)
      · exact mathSec_rec T nroot fuel IH st st hgr _ start toksStop envStop _ hmr hstart henv
          (snoc _ (MTok_mkMath T _ _ _ _ htok.1 (by simp)))
      · exact mathSec_rec T nroot fuel IH st st hgr _ start toksStop envStop _ hmr hstart henv
          (snoc _ (MTok_mkMath T _ _ _ _ htok.1 (by simp)))

/-! ### `expandInlineMath` -/

theorem lastPos_lt (n d : Nat) (l : List Tok) (hl : ∀ t ∈ l, t.pos < n) (hd : d < n) :
    ((l.getLast?).map (·.pos)).getD d < n := by
  cases h : l.getLast? with
  | none => simpa using hd
  | some t => simpa using hl t (List.mem_of_getLast? h)

theorem OL_pos (n : Nat) (l : List Tok) (h : OL T n l) : ∀ t ∈ l, t.pos < n := fun t ht => (h t ht).1.1

theorem OL_cons (n : Nat) (t : Tok) (l : List Tok) (ht : OTok T n t) (hl : OL T n l) : OL T n (t :: l) := by
  intro u hu; simp only [List.mem_cons] at hu; rcases hu with rfl | hu; exact ht; exact hl u hu

theorem inline_step (hw : T.WFInv) (nroot fuel : Nat) (IH : AllSpecs T nroot fuel) :
    SpecInline T nroot (fuel + 1) := by
  intro buf tok st hg hb ht
  have _ := hw
  have hp : tok.pos < st.latex.length := ht.1.1
  rw [expandInlineMath.eq_2]
  refine Post_bind _ _ _ _ _ (IH.mathSec buf tok.pos _ none [] st hg (MathBuf_of_BL T _ _ hb) hp
    (by intro nm h; cases h) (by intro t h; simp at h)) ?_
  intro sec st1 ⟨hgood, hbuf, hout, _⟩
  refine Post_bind _ _ _ _ _ (Post_get st1 (fun a s => st1 = a ∧ st1 = s) ⟨rfl, rfl⟩) ?_
  rintro _ _ ⟨rfl, rfl⟩
  dsimp only
  obtain ⟨ls, hs⟩ := ncMath_settings T hw nroot st1 hgood.1.toG0
  obtain ⟨rot, hr, _, hri, hrd, hrc⟩ := ncMath_rot T nroot st1 hgood.1.toG0 _ ls hs
  rw [hr, hs]
  dsimp only
  obtain ⟨rs, hrs, hne⟩ := replaceSection_total T ls.opText ls.opDefault true sec.out true true rot.inl
    (hw.langs_ok ls (List.mem_of_find?_eq_some hs)).2.2.2 hri
  rw [hrs]
  dsimp only
  have hro := replaceSection_OL T _ _ _ _ _ _ _ _ rs hout hrs
  refine Post_bind _ _ _ _ _ (Post_modify _ st1 (fun _ s => Good T nroot st s)
    (Good_trans T nroot _ _ _ hgood (Good_setRot T nroot st1 _ hgood.1 ⟨hne, hrd, hrc⟩))) ?_
  intro _ st2 hgood2
  apply Post_pure
  have ho1 : OL T st.latex.length (mkAction tok.pos :: rs.out) := OL_cons T _ _ _ (OTok_mkAction T _ _ hp) hro
  exact ⟨hgood2, OL_snoc T _ _ _ ho1 (OTok_mkAction T _ _ (lastPos_lt _ _ _ (OL_pos T _ _ ho1) hp)), hbuf⟩
/-! ### `displayLoop` -/

/-- recursive call of `displayLoop` from a later state of the same frame -/
theorem dispLoop_rec (nroot fuel : Nat) (IH : AllSpecs T nroot fuel) (st st1 : PState)
    (hgood : Good T nroot st st1) (buf : Buf) (start : Nat) (envName : Str) (first next : Bool)
    (out : List Tok) (hb : BL T st.latex.length buf) (hs : start < st.latex.length)
    (ho : OL T st.latex.length out) (he : (endFuncNames T).contains envName = false) :
    Post (displayLoop T fuel buf start envName first next out st1) (fun r st' =>
      Good T nroot st st' ∧ OL T st.latex.length r.1 ∧ BL T st.latex.length r.2.1 ∧
        OL T st.latex.length r.2.2) := by
  have hl : st1.latex = st.latex := hgood.2.1
  have := IH.dispLoop buf start envName first next out st1 hgood.1 (by rw [hl]; exact hb) (by rw [hl]; exact hs)
    (by rw [hl]; exact ho) he
  rw [hl] at this
  refine Post_mono _ _ _ this ?_
  intro r s ⟨h1, h2, h3, h4⟩
  exact ⟨Good_trans T nroot _ _ _ hgood h1, h2, h3, h4⟩

theorem nextStart_lt (n start : Nat) (b : Buf) (hb : BL T n b) (hs : start < n) :
    (match b.head? with | some t => t.pos | none => start) < n := by
  cases b with
  | nil => exact hs
  | cons t r => exact (hb t (by simp)).1.1

theorem dispLoop_step (hw : T.WFInv) (nroot fuel : Nat) (IH : AllSpecs T nroot fuel) :
    SpecDispLoop T nroot (fuel + 1) := by
  intro buf start envName first next out st hg hb hstart hout henv
  rw [displayLoop.eq_2]
  refine Post_bind _ _ _ _ _ (IH.mathSec buf start _ (some envName) [] st hg (MathBuf_of_BL T _ _ hb) hstart
    (by intro nm h; cases h; exact henv) (by intro t h; simp at h)) ?_
  intro sec st1 ⟨hgood, hbuf, hsout, hterm⟩
  refine Post_bind _ _ _ _ _ (Post_get st1 (fun a s => st1 = a ∧ st1 = s) ⟨rfl, rfl⟩) ?_
  rintro _ _ ⟨rfl, rfl⟩
  dsimp only
  obtain ⟨ls, hs⟩ := ncMath_settings T hw nroot st1 hgood.1.toG0
  obtain ⟨rot, hr, _, hri, hrd, hrc⟩ := ncMath_rot T nroot st1 hgood.1.toG0 _ ls hs
  rw [hr, hs]
  dsimp only
  obtain ⟨rs, hrs, hne⟩ := replaceSection_total T ls.opText ls.opDefault false sec.out first next rot.disp
    (hw.langs_ok ls (List.mem_of_find?_eq_some hs)).2.2.2 hrd
  rw [hrs]
  dsimp only
  have hro := replaceSection_OL T _ _ _ _ _ _ _ _ rs hsout hrs
  refine Post_bind _ _ _ _ _ (Post_modify _ st1 (fun _ s => Good T nroot st s)
    (Good_trans T nroot _ _ _ hgood (Good_setRot T nroot st1 _ hgood.1 ⟨hri, hne, hrc⟩))) ?_
  intro _ st2 hgood2
  have ho1 : OL T st.latex.length (out ++ rs.out) := (OL_append T _ _ _).mpr ⟨hout, hro⟩
  have hlp := lastPos_lt _ _ _ (OL_pos T _ _ ho1) hstart
  have hl1 : st1.latex = st.latex := hgood.2.1
  have hfin : Post ((pure (out ++ rs.out, sec.buf, []) : M (List Tok × Buf × List Tok)) st2) (fun r st' =>
      Good T nroot st st' ∧ OL T st.latex.length r.1 ∧ BL T st.latex.length r.2.1 ∧
        OL T st.latex.length r.2.2) :=
    Post_pure _ _ _ ⟨hgood2, ho1, hbuf, OL_nil T _⟩
  -- an unterminated last section: the error mark is returned as well
  have hfinE : Post ((pure (out ++ rs.out, sec.buf,
        latexErrorToks T.toTables "missing end of maths".toList start st1.latex.length) :
        M (List Tok × Buf × List Tok)) st2) (fun r st' =>
      Good T nroot st st' ∧ OL T st.latex.length r.1 ∧ BL T st.latex.length r.2.1 ∧
        OL T st.latex.length r.2.2) := by
    rw [hl1]
    exact Post_pure _ _ _ ⟨hgood2, ho1, hbuf, latexErrorToks_OL T _ _ _ hstart⟩
  cases hte : sec.term with
  | none => exact hfinE
  | some e =>
    dsimp only
    refine Post_ite _ _ _ _ _ (fun _ => ?_) (fun _ => ?_)
    · exact dispLoop_rec T nroot fuel IH st st2 hgood2 _ _ envName _ _ _ hbuf
        (nextStart_lt T _ _ _ hbuf hstart)
        (OL_snoc T _ _ _ ho1 (OTok_mkFix T _ _ .space _ hlp (by simp))) henv
    refine Post_ite _ _ _ _ _ (fun _ => ?_) (fun _ => ?_)
    · have hl2 : st2.latex = st.latex := hgood2.2.1
      have hpn := parseNewlineOption_spec T hw sec.buf false st2 (by rw [hl2]; exact hbuf)
      refine Post_bind _ _ _ _ _ hpn ?_
      intro b st3 ⟨hb3, hst3⟩
      rw [hl2] at hb3
      exact dispLoop_rec T nroot fuel IH st st3
        (Good_trans T nroot _ _ _ hgood2 (Good_diags T nroot st2 st3 hgood2.1 hst3)) _ _ envName _ _ _ hb3
        (nextStart_lt T _ _ _ hb3 hstart)
        (OL_snoc T _ _ _ ho1 (OTok_mkFix T _ _ .space _ hlp (by simp))) henv
    refine Post_ite _ _ _ _ _ (fun _ => ?_) (fun _ => ?_)
    · exact hfinE
    · exact hfin

/-! ### `expandDisplayMath` -/

theorem OL_of_forall (n : Nat) (l : List Tok) (h : ∀ t ∈ l, OTok T n t) : OL T n l := h

theorem display_step (hw : T.WFInv) (nroot fuel : Nat) (IH : AllSpecs T nroot fuel) :
    SpecDisplay T nroot (fuel + 1) := by
  intro buf tok envName remove st hg hb ht henv
  have _ := hw
  have hp : tok.pos < st.latex.length := ht.1.1
  have hact := OTok_mkAction T _ _ hp
  have hsp2 := OTok_mkFix T st.latex.length tok.pos .space [' ', ' '] hp (by simp)
  rw [expandDisplayMath.eq_2]
  refine Post_bind _ _ _ _ _ (IH.dispLoop buf tok.pos envName true true _ st hg hb hp
    (OL_cons T _ _ _ hact (OL_cons T _ _ _ hsp2 (OL_nil T _))) henv) ?_
  intro r st1 ⟨hgood, hr1, hr2, hr3⟩
  have hlp := lastPos_lt _ _ _ (OL_pos T _ _ hr1) hp
  refine Post_ite _ _ _ _ _ (fun _ => ?_) (fun _ => ?_)
  · have h1 : ∀ c : Char, Post ((pure (r.2.2 ++ [mkFix Kind.text ((Option.map (fun x => x.pos) r.fst.getLast?).getD tok.pos) [c]],
        r.2.1) : M (List Tok × Buf)) st1) (fun r st' =>
          Good T nroot st st' ∧ OL T st.latex.length r.1 ∧ BL T st.latex.length r.2) := fun c =>
      Post_pure _ _ _ ⟨hgood, OL_snoc T _ _ _ hr3 (OTok_mkFix T _ _ .text _ hlp (by simp)), hr2⟩
    have h2 : Post ((pure (r.2.2 ++ [mkAction ((Option.map (fun x => x.pos) r.fst.getLast?).getD tok.pos)],
        r.2.1) : M (List Tok × Buf)) st1) (fun r st' =>
          Good T nroot st st' ∧ OL T st.latex.length r.1 ∧ BL T st.latex.length r.2) :=
      Post_pure _ _ _ ⟨hgood, OL_snoc T _ _ _ hr3 (OTok_mkAction T _ _ hlp), hr2⟩
    repeat' split
    all_goals first | exact h1 _ | exact h2
  · refine Post_bind _ _ _ _ _ (Post_get st1 (fun a s => st1 = a ∧ st1 = s) ⟨rfl, rfl⟩) ?_
    rintro _ _ ⟨rfl, rfl⟩
    refine Post_ite _ _ _ _ _ (fun _ => ?_) (fun _ => ?_)
    · obtain ⟨d0, hd0⟩ : ∃ d0, (rotOf st1 (curSettings st1)).bind (fun x => x.disp.head?) = some d0 := by
        obtain ⟨ls, hs⟩ := ncMath_settings T hw nroot st1 hgood.1.toG0
        obtain ⟨rot, hr, _, _, hrd, _⟩ := ncMath_rot T nroot st1 hgood.1.toG0 _ ls hs
        rw [hr]
        cases hdd : rot.disp with
        | nil => exact absurd hdd hrd
        | cons a t => exact ⟨a, by simp [hdd]⟩
      rw [hd0]
      dsimp only
      apply Post_pure
      refine ⟨hgood, ?_, hr2⟩
      refine OL_snoc T _ _ _ ((OL_append T _ _ _).mpr ⟨?_, ?_⟩) hact
      · exact (OL_append T _ _ _).mpr ⟨(OL_append T _ _ _).mpr
          ⟨OL_cons T _ _ _ hact (OL_cons T _ _ _ hsp2 (OL_nil T _)), hr3⟩,
          OL_cons T _ _ _ (OTok_mkFix T _ _ .text _ hp (by simp)) (OL_nil T _)⟩
      · repeat' split
        all_goals first | exact OL_cons T _ _ _ (OTok_mkFix T _ _ .text _ hp (by simp)) (OL_nil T _) | exact OL_nil T _
    · apply Post_pure
      exact ⟨hgood, OL_snoc T _ _ _ hr1 (OTok_mkAction T _ _ hlp), hr2⟩

end Yalafi
