/-
  Proofs/Inv/StepMath.lean — step lemmas of the range-invariant bundle: each shows the
  specification of one function at `fuel + 1` from all specifications at `fuel`.
-/
import YalafiVerif.Proofs.Inv.Basic
namespace Yalafi

variable (T : PTables)

theorem mathSec_step (hw : T.WFInv) (nroot fuel : Nat) (IH : AllSpecs T nroot fuel) :
    SpecMathSec T nroot (fuel + 1) := by
  sorry

theorem inline_step (hw : T.WFInv) (nroot fuel : Nat) (IH : AllSpecs T nroot fuel) :
    SpecInline T nroot (fuel + 1) := by
  sorry

theorem dispLoop_step (hw : T.WFInv) (nroot fuel : Nat) (IH : AllSpecs T nroot fuel) :
    SpecDispLoop T nroot (fuel + 1) := by
  sorry

theorem display_step (hw : T.WFInv) (nroot fuel : Nat) (IH : AllSpecs T nroot fuel) :
    SpecDisplay T nroot (fuel + 1) := by
  sorry

end Yalafi
