/-
  Proofs/Inv/StepHandler.lean — step lemmas of the range-invariant bundle: each shows the
  specification of one function at `fuel + 1` from all specifications at `fuel`.
-/
import YalafiVerif.Proofs.Inv.Basic
namespace Yalafi

variable (T : PTables)

/- helper lemmas live in their own namespace to avoid clashes with the other step files -/
namespace HandlerStep

/-! ### small token facts -/

theorem BL_nil (n : Nat) : BL T n [] := by
  intro t ht; cases ht

theorem BL_cons (n : Nat) (t : Tok) (ts : List Tok) : BL T n (t :: ts) ↔ BTok T n t ∧ BL T n ts := by
  simp [BL]

theorem BTok_pos {n : Nat} {t : Tok} (h : BTok T n t) : t.pos < n := h.1.1

theorem getLast?_mem {α} {l : List α} {a : α} (h : l.getLast? = some a) : a ∈ l := by
  obtain ⟨ys, rfl⟩ := List.getLast?_eq_some_iff.mp h
  simp

theorem BL_last_pos {n : Nat} {a : List Tok} {l : Tok} (ha : BL T n a) (h : a.getLast? = some l) : l.pos < n :=
  (ha l (getLast?_mem h)).1.1

theorem BL_head_pos {n : Nat} {a : List Tok} {l : Tok} (ha : BL T n a) (h : a.head? = some l) : l.pos < n :=
  (ha l (List.mem_of_mem_head? (by simp [h]))).1.1

theorem BTok_mkFix_text (n p : Nat) (txt : Str) (h : p < n) : BTok T n (mkFix .text p txt) :=
  OTok_BTok T n _ (OTok_mkFix T n p .text txt h (Or.inl rfl))

theorem BTok_mkFix_space (n p : Nat) (txt : Str) (h : p < n) : BTok T n (mkFix .space p txt) :=
  OTok_BTok T n _ (OTok_mkFix T n p .space txt h (Or.inr (Or.inl rfl)))

theorem BTok_mkAction (n p : Nat) (h : p < n) : BTok T n (mkAction p) :=
  OTok_BTok T n _ (OTok_mkAction T n p h)

theorem BTok_mkLang (n p : Nat) (l : Str) (b h k : Bool) (hp : p < n) : BTok T n (mkLang p l b h k) :=
  OTok_BTok T n _ (OTok_mkLang T n p l b h k hp)

theorem BTok_mkTok1_text (n p : Nat) (c : Char) (h : p < n) : BTok T n (mkTok .text p [c]) :=
  OTok_BTok T n _ (OTok_mkTok1 T n p .text c h (Or.inl rfl))

theorem BTok_mkTok1_space (n p : Nat) (c : Char) (h : p < n) : BTok T n (mkTok .space p [c]) :=
  OTok_BTok T n _ (OTok_mkTok1 T n p .space c h (Or.inr rfl))

theorem BTok_mkTok_xmacro (n p : Nat) (txt : Str) (h : p < n) : BTok T n (mkTok .xmacro p txt) := by
  simp [BTok, TokOk, mkTok, extent, ctlEmpty, mbOk, isMathTok, h]
  omega

/-- the three special keys handlers create tokens for -/
theorem BTok_mkTok_special (hw : T.WFInv) (n p : Nat) (k : Str)
    (hk : k ∈ [['{'], ['}'], ['\\', ';']]) (h : p < n) : BTok T n (mkTok .special p k) := by
  obtain ⟨v, hv, hl⟩ := hw.special_small k hk
  simp [BTok, TokOk, mkTok, extent, ctlEmpty, mbOk, isMathTok, hv, h]
  omega

/-! ### frame bookkeeping -/

theorem Good_refl (nroot : Nat) (st : PState) (hg : G T nroot st) : Good T nroot st st := ⟨hg, rfl, rfl⟩

theorem Good_trans {nroot : Nat} {st0 s s' : PState} (h0 : Good T nroot st0 s) (h1 : Good T nroot s s') :
    Good T nroot st0 s' :=
  ⟨h1.1, h1.2.1.trans h0.2.1, h1.2.2.trans h0.2.2⟩

theorem Good_len {nroot : Nat} {st0 s : PState} (h0 : Good T nroot st0 s) : s.latex.length = st0.latex.length := by
  rw [h0.2.1]

/-- the local `arg k` of `callHandler`, bound to a continuation: the index is in range, so the
    `handler:args[k]` crash is unreachable -/
theorem Post_argBind {β} (args : List (List Tok)) (k : Nat) (f : List Tok → M β) (st : PState)
    (R : β → PState → Prop) (hk : k < args.length)
    (h : ∀ a ∈ args, args[k]? = some a → Post (f a st) R) :
    Post (((match args[k]? with
            | some a => pure a
            | none => M.crash "handler:args[k]" : M (List Tok)) >>= f) st) R := by
  apply Post_bind _ _ _ (fun a s => s = st ∧ a ∈ args ∧ args[k]? = some a)
  · rw [List.getElem?_eq_getElem hk]
    exact Post_pure _ _ _ ⟨rfl, List.getElem_mem hk, rfl⟩
  · rintro a s ⟨rfl, ha, he⟩
    exact h a ha he

/-- an index a handler uses is in range -/
theorem arity_lt {h : Handler} {args : List (List Tok)} {k : Nat} (hh : HandlerArgs h args)
    (hk : k < handlerArity h) : k < args.length :=
  Nat.lt_of_lt_of_le hk hh.1

/-- an argument a handler takes the first/last token of is not empty -/
theorem needsA_ne_nil {h : Handler} {args : List (List Tok)} {k : Nat} {a : List Tok} (hh : HandlerArgs h args)
    (hk : k ∈ handlerNeedsA h) (he : args[k]? = some a) : a ≠ [] := by
  obtain ⟨a', h1, h2⟩ := hh.2 k hk
  rw [he] at h1
  cases h1
  exact h2

/-- `translate_lang` falls back to 'english', which `language_map` knows -/
theorem translateLang_ne_none (hw : T.WFInv) (l : Str) : translateLang T l ≠ none := by
  unfold translateLang
  split
  · simp
  · have := hw.babel_english
    cases hf : T.babelMap.find? (·.1 == "english".toList) with
    | none => rw [hf] at this; cases this
    | some e => simp

/-- `h_cite` (biblatex) finds `args[1]`, `args[2]` -/
theorem bibCite_ne_none (args : List (List Tok)) (pos : Nat) (h : 3 ≤ args.length) :
    bibCite T args pos ≠ none := by
  unfold bibCite
  rw [List.getElem?_eq_getElem (show 1 < args.length by omega),
    List.getElem?_eq_getElem (show 2 < args.length by omega)]
  simp

theorem Post_getBind {β} (f : PState → M β) (st : PState) (R : β → PState → Prop)
    (h : Post (f st st) R) : Post ((M.get >>= f) st) R := by
  apply Post_bind _ _ _ (fun a s => a = st ∧ s = st) _ (Post_get _ _ ⟨rfl, rfl⟩)
  rintro a s ⟨rfl, rfl⟩
  exact h

theorem Post_modifyPure {β} (f : PState → PState) (x : β) (st : PState) (R : β → PState → Prop)
    (h : R x (f st)) : Post ((M.modify f >>= fun _ => (pure x : M β)) st) R := by
  apply Post_bind _ _ _ (fun _ s => s = f st) _ (Post_modify _ _ _ rfl)
  rintro _ s rfl
  exact Post_pure _ _ _ h

theorem ite_prop {α} (P : α → Prop) (c : Prop) [Decidable c] (a b : α) (ha : P a) (hb : P b) :
    P (if c then a else b) := by
  split <;> assumption

/-! ### state updates -/

theorem mem_setMacro {ms : List MacroDef} {m x : MacroDef} (h : x ∈ setMacro ms m) : x ∈ ms ∨ x = m := by
  unfold setMacro at h
  split at h
  · rw [List.mem_map] at h
    obtain ⟨y, hy, rfl⟩ := h
    split
    · exact Or.inr rfl
    · exact Or.inl hy
  · simpa using h

theorem G_setMacros {nroot : Nat} {s : PState} (hg : G T nroot s) (m : MacroDef) (hm : macroToksOk T m = true) :
    G T nroot { s with macros := setMacro s.macros m } := by
  refine { flows := hg.flows, macros := ?_, envs := hg.envs, gloss := hg.gloss, root := hg.root,
           inFrame := hg.inFrame, items := hg.items, langs := hg.langs, rots := hg.rots, unk := hg.unk }
  intro x hx
  rcases List.mem_append.mp hx with hx | hx
  · rcases mem_setMacro hx with hx | rfl
    · exact hg.macros x (List.mem_append_left _ hx)
    · exact hm
  · exact hg.macros x (List.mem_append_right _ hx)

theorem G_setEnvs {nroot : Nat} {s : PState} (hg : G T nroot s) (m : MacroDef) (hm : macroToksOk T m = true)
    (he : envOk T m = true) :
    G T nroot { s with envs := setMacro s.envs m } := by
  refine { flows := hg.flows, macros := ?_, envs := ?_, gloss := hg.gloss, root := hg.root,
           inFrame := hg.inFrame, items := hg.items, langs := hg.langs, rots := hg.rots, unk := hg.unk }
  · intro x hx
    rcases List.mem_append.mp hx with hx | hx
    · exact hg.macros x (List.mem_append_left _ hx)
    · rcases mem_setMacro hx with hx | rfl
      · exact hg.macros x (List.mem_append_right _ hx)
      · exact hm
  · intro x hx
    rcases mem_setMacro hx with hx | rfl
    · exact hg.envs x hx
    · exact he

theorem BL_all_storedOk {n : Nat} {ts : List Tok} (h : BL T n ts) : ts.all (storedOk T) = true := by
  rw [List.all_eq_true]
  intro t ht
  exact BTok_storedOk T n t (h t ht)


/-- `\\newcommand` checks every `#k` of the body against the declared number of arguments before it
    defines the macro: the definition is consistent with its argument string -/
theorem arityOk_newcommand (name : Str) (margs : Str) (a4 : List Tok) (defaults : List (List Tok)) (nargs : Nat)
    (hlen : margs.length = nargs)
    (hf : a4.find? (fun t => match argRef t with | some k => decide (k < 1) || decide (k > nargs) | none => false) = none) :
    arityOk { name := name, args := margs, repl := a4, defaults := defaults } = true := by
  simp only [arityOk, handlerArity, handlerNeedsA, List.append_nil, List.all_nil, Nat.zero_le, decide_true,
    Bool.and_true, Bool.true_and, List.all_eq_true]
  intro t ht
  have := List.find?_eq_none.mp hf t ht
  cases hr : argRef t with
  | none => rfl
  | some k =>
    rw [hr] at this
    simp at this
    simp
    omega

/-! ### pure helper functions of the handlers -/

theorem lastPos_lt {n pos : Nat} {l : List Tok} (hl : BL T n l) (hp : pos < n) :
    (Option.map (fun x => x.pos) l.getLast?).getD pos < n := by
  cases h : l.getLast? with
  | none => simpa using hp
  | some t => simpa using BL_last_pos T hl h

theorem BL_bibCite (n : Nat) (args : List (List Tok)) (pos : Nat) (o : List Tok)
    (ha : ∀ a ∈ args, BL T n a) (hp : pos < n) (h : bibCite T args pos = some o) : BL T n o := by
  unfold bibCite at h
  split at h
  · rename_i o1 o2 h1 h2
    have hA1 := ha o1 (List.mem_of_getElem? h1)
    have hA2 := ha o2 (List.mem_of_getElem? h2)
    extract_lets isVoid opt1 pre post out0 lastPos out1 out2 out3 at h
    have hopt1 : BL T n opt1 := ite_prop (BL T n) _ _ _ (BL_nil T n) hA1
    have hpre : BL T n pre := ite_prop (BL T n) _ _ _ (BL_nil T n) hopt1
    have hpost : BL T n post := ite_prop (BL T n) _ _ _ hopt1 (ite_prop (BL T n) _ _ _ (BL_nil T n) hA2)
    have hout0 : BL T n out0 := by simp [out0, BL_cons, BL_nil, BTok_mkFix_text, hp]
    have hlast : ∀ l, BL T n l → lastPos l < n := fun l hl => lastPos_lt T hl hp
    have hout1 : BL T n out1 := by
      apply ite_prop (BL T n) _ _ _ hout0
      have := hlast (out0 ++ pre) ((BL_append T n _ _).mpr ⟨hout0, hpre⟩)
      simp [BL_append, BL_cons, BL_nil, BTok_mkFix_space, hout0, hpre, this]
    have hout2 : BL T n out2 := by
      simp [out2, BL_append, BL_cons, BL_nil, BTok_mkFix_text, hout1, hlast out1 hout1]
    have hout3 : BL T n out3 := by
      apply ite_prop (BL T n) _ _ _ hout2
      simp [BL_append, BL_cons, BTok_mkFix_text, BTok_mkFix_space, hout2, hpost, hlast out2 hout2]
    cases h
    simp [BL_append, BL_cons, BL_nil, BTok_mkFix_text, BTok_mkAction, hout3, hlast out3 hout3]
  · cases h

theorem upperTok_storedOk (t : Tok) (x : Str) (hk : t.kind = .text) : storedOk T (upperTok t x) = true := by
  simp [storedOk, upperTok, isMathTok, ctlEmpty, mbOk, hk]

theorem capFirst_storedOk {ts r : List Tok} (h : ∀ t ∈ ts, storedOk T t = true) (hc : capFirst T ts = some r) :
    ∀ t ∈ r, storedOk T t = true := by
  unfold capFirst at hc
  split at hc
  · cases hc; exact h
  · rename_i i hi
    obtain ⟨hlt, hk, -⟩ := List.findIdx?_eq_some_iff_getElem.mp hi
    split at hc
    · cases hc; exact h
    · rename_i t ht
      have : t = ts[i] := by
        rw [List.getElem?_eq_getElem hlt] at ht; cases ht; rfl
      split at hc
      · cases hc
      · cases hc
        intro x hx
        rcases List.mem_or_eq_of_mem_set hx with hx | rfl
        · exact h x hx
        · apply upperTok_storedOk
          subst this
          simpa using hk

theorem capAll_storedOk {ts : List Tok} (h : ∀ t ∈ ts, storedOk T t = true) :
    ∀ t ∈ capAll T ts, storedOk T t = true := by
  intro x hx
  unfold capAll at hx
  rw [List.mem_map] at hx
  obtain ⟨t, ht, rfl⟩ := hx
  split
  · rename_i hk
    exact upperTok_storedOk T t _ (by simpa using hk)
  · exact h t ht

theorem BL_restamp_map {n p : Nat} {ts : List Tok} (h : ∀ t ∈ ts, storedOk T t = true) (hp : p < n) :
    BL T n (ts.map (fun t => { t with pos := p, fix := true })) := by
  intro x hx
  rw [List.mem_map] at hx
  obtain ⟨t, ht, rfl⟩ := hx
  exact BTok_restamp T n p t (h t ht) hp

theorem gloss_lookup {g : List (Str × List (Str × Option (List Tok)))} (hg : glossOk T g)
    {p : Str × List (Str × Option (List Tok)) → Bool} {q : Str × Option (List Tok) → Bool}
    {k : Str} {toks : List Tok}
    (h : (g.find? p).bind (fun e => e.2.find? q) = some (k, some toks)) :
    ∀ t ∈ toks, storedOk T t = true := by
  obtain ⟨e, he, hq⟩ := Option.bind_eq_some_iff.mp h
  exact hg e (List.mem_of_find?_eq_some he) _ (List.mem_of_find?_eq_some hq) toks rfl

theorem kvOk_description {n : Nat} {kv : List (Str × Option (List Tok))} (h : kvOk T n kv)
    (p : Str × Option (List Tok) → Bool) :
    BL T n (((kv.reverse.find? p).bind (·.2)).getD []) := by
  cases hf : (kv.reverse.find? p).bind (·.2) with
  | none => exact BL_nil T n
  | some ts =>
    obtain ⟨e, he, hq⟩ := Option.bind_eq_some_iff.mp hf
    exact h e (List.mem_reverse.mp (List.mem_of_find?_eq_some he)) ts hq

theorem mem_dedup {α β} [BEq α] (kv acc : List (α × β)) :
    ∀ x ∈ kv.foldl (fun acc e =>
        if acc.any (·.1 == e.1) then acc.map (fun x => if x.1 == e.1 then e else x) else acc ++ [e]) acc,
      x ∈ acc ∨ x ∈ kv := by
  induction kv generalizing acc with
  | nil => intro x hx; exact Or.inl hx
  | cons e kv ih =>
    intro x hx
    rw [List.foldl_cons] at hx
    rcases ih _ x hx with h | h
    · split at h
      · rw [List.mem_map] at h
        obtain ⟨y, hy, rfl⟩ := h
        split
        · exact Or.inr (List.mem_cons_self)
        · exact Or.inl hy
      · rcases List.mem_append.mp h with h | h
        · exact Or.inl h
        · exact Or.inr (by simp at h; simp [h])
    · exact Or.inr (List.mem_cons_of_mem _ h)

theorem G_setGloss {nroot : Nat} {s : PState} (hg : G T nroot s) (label : Str) (e : GlossEntry)
    (he : ∀ kv ∈ e, ∀ ts, kv.2 = some ts → ∀ t ∈ ts, storedOk T t = true) :
    G T nroot { s with glossary := setGloss s.glossary label e } := by
  refine { flows := hg.flows, macros := hg.macros, envs := hg.envs, gloss := ?_, root := hg.root,
           inFrame := hg.inFrame, items := hg.items, langs := hg.langs, rots := hg.rots, unk := hg.unk }
  intro x hx
  simp only [setGloss] at hx
  split at hx
  · rw [List.mem_map] at hx
    obtain ⟨y, hy, rfl⟩ := hx
    split
    · exact he
    · exact hg.gloss y hy
  · rcases List.mem_append.mp hx with hx | hx
    · exact hg.gloss x hx
    · simp at hx; subst hx; exact he


/-! ### cleveref -/

theorem G_foldlSetMacros {nroot : Nat} (ms : List MacroDef) (hm : ∀ m ∈ ms, macroToksOk T m = true) :
    ∀ {s : PState}, G T nroot s → G T nroot { s with macros := ms.foldl setMacro s.macros } := by
  induction ms with
  | nil => intro s hg; exact hg
  | cons m ms ih =>
    intro s hg
    have h1 := G_setMacros T hg m (hm m (by simp))
    exact ih (fun x hx => hm x (by simp [hx])) h1

theorem crefMacros_ok (ls : List Cleveref.SedLine) : ∀ m ∈ crefMacros ls, macroToksOk T m = true := by
  intro m hm
  simp only [crefMacros, List.mem_cons, List.not_mem_nil, or_false] at hm
  rcases hm with rfl | rfl | rfl | rfl <;>
    simp [macroToksOk, arityOk, handlerArity, handlerNeedsA]

/-- the replacement text of a reference, scanned and pinned to the call: only the diagnostics change -/
theorem crefToks_step (hw : T.WFInv) {nroot : Nat} {st0 s : PState} (h0 : Good T nroot st0 s) (str : Str)
    (pos : Nat) (hp : pos < st0.latex.length) :
    Post (crefToks T str pos s) (fun r s' => Good T nroot st0 s' ∧ BL T st0.latex.length r) := by
  simp only [crefToks]
  refine Post_modifyPure _ _ _ _ ⟨⟨G_diags T nroot s _ h0.1, h0.2⟩, BL_restamp_map T ?_ hp⟩
  have := scan_storedOk T hw str
  rw [List.all_eq_true] at this
  exact this

/-- a macro defined by a command line of the sed file: the constructor has checked the argument
    references (`utils.fatal` otherwise), its text consists of scanner tokens -/
theorem defineSedMacro_step (hw : T.WFInv) {nroot : Nat} {st0 s : PState} (h0 : Good T nroot st0 s)
    (m : Cleveref.SedMacro) :
    Post (defineSedMacro T m s) (fun _ s' => Good T nroot st0 s') := by
  simp only [defineSedMacro]
  refine Post_bind _ _ _ (fun _ s1 => s1 = { s with diags := s.diags ++ (scan T.toTables m.repl).diags }) _
    (Post_modify _ _ _ rfl) ?_
  rintro _ s1 rfl
  cases hf : List.find? (fun t => match argRef t with
      | some k => decide (k < 1) || decide (k > m.nargs)
      | none => false) (scan T.toTables m.repl).toks with
  | some bad => exact Post_fatal _ _ _
  | none =>
    refine Post_modify _ _ _ ⟨G_setMacros T (G_diags T nroot s _ h0.1) _ ?_, h0.2⟩
    simp only [macroToksOk, List.all_nil, Bool.and_true, Bool.and_eq_true]
    exact ⟨scan_storedOk T hw m.repl,
      arityOk_newcommand m.name _ _ [] m.nargs (List.length_replicate ..) hf⟩

theorem forM_defineSedMacro_step (hw : T.WFInv) {nroot : Nat} {st0 : PState} (ms : List Cleveref.SedMacro) :
    ∀ {s : PState}, Good T nroot st0 s → Post (ms.forM (defineSedMacro T) s) (fun _ s' => Good T nroot st0 s') := by
  induction ms with
  | nil => intro s h0; exact Post_pure _ _ _ h0
  | cons m ms ih =>
    intro s h0
    show Post ((defineSedMacro T m >>= fun _ => ms.forM (defineSedMacro T)) s) _
    exact Post_bind _ _ _ _ _ (defineSedMacro_step T hw h0 m) (fun _ s1 h1 => ih h1)

theorem readSedText_step (hw : T.WFInv) {nroot : Nat} {st0 s : PState} (h0 : Good T nroot st0 s) (sed : Str) :
    Post (readSedText T sed s) (fun _ s' => Good T nroot st0 s') := by
  simp only [readSedText]
  refine Post_bind _ _ _ _ _ (forM_defineSedMacro_step T hw _ h0) (fun _ s1 h1 => ?_)
  exact Post_modify _ _ _ ⟨G_foldlSetMacros T _ (crefMacros_ok T _) h1.1, h1.2⟩

section steps
variable {T} {nroot fuel : Nat} (IH : AllSpecs T nroot fuel)
include IH

theorem text_step {st0 s : PState} (h0 : Good T nroot st0 s) (toks : List Tok)
    (hb : BL T st0.latex.length toks) :
    Post (getTextExpanded T fuel toks s) (fun _ s' => Good T nroot st0 s') := by
  apply Post_mono _ _ _ (IH.text toks s h0.1 (by rw [Good_len T h0]; exact hb))
  intro _ s' h1
  exact Good_trans T h0 h1

theorem keyvals_step {st0 s : PState} (h0 : Good T nroot st0 s) (buf : Buf)
    (hb : BL T st0.latex.length buf) :
    Post (parseKeyvals T fuel buf [] s) (fun r s' => Good T nroot st0 s' ∧ kvOk T st0.latex.length r) := by
  apply Post_mono _ _ _ (IH.keyvals buf [] s h0.1 (by rw [Good_len T h0]; exact hb)
    (by intro kv hkv; cases hkv))
  intro r s' h1
  exact ⟨Good_trans T h0 h1.1, by rw [← Good_len T h0]; exact h1.2⟩

theorem expandKv_step {st0 s : PState} (h0 : Good T nroot st0 s) (kvs : List (Str × Option (List Tok)))
    (hb : kvOk T st0.latex.length kvs) :
    Post (expandKeyvals T fuel kvs s) (fun _ s' => Good T nroot st0 s') := by
  apply Post_mono _ _ _ (IH.expandKv kvs s h0.1 (by rw [Good_len T h0]; exact hb))
  intro _ s' h1
  exact Good_trans T h0 h1

theorem modDesc_step {st0 s : PState} (h0 : Good T nroot st0 s) (toks : List Tok)
    (hb : BL T st0.latex.length toks) :
    Post (modifyDescription T fuel toks s) (fun r s' => Good T nroot st0 s' ∧ BL T st0.latex.length r) := by
  apply Post_mono _ _ _ (IH.modDesc toks s h0.1 (by rw [Good_len T h0]; exact hb))
  intro r s' h1
  exact ⟨Good_trans T h0 h1.1, by rw [← Good_len T h0]; exact h1.2⟩

theorem loadModule_fold (hw : T.WFInv) (cls : Bool) (options : List KeyVal) (pos : Nat) (st0 : PState)
    (names : List Str) (acc : List Tok) (s : PState) (hs : Good T nroot st0 s) (hacc : injOk acc) :
    Post (names.foldlM (m := M) (fun acc p => do
        let o ← initPackage T fuel p ((findModule T cls p).getD (emptyModule p)) false options pos
        pure (acc ++ o)) acc s) (fun r s' => Good T nroot st0 s' ∧ injOk r) := by
  induction names generalizing acc s with
  | nil => exact Post_pure _ _ _ ⟨hs, hacc⟩
  | cons p names ih =>
    rw [List.foldlM_cons]
    refine Post_bind _ _ _ (fun r s' => Good T nroot st0 s' ∧ injOk r) _ ?_
      (fun r s' h => ih r s' h.1 h.2)
    have hm : ∀ m ∈ ((findModule T cls p).getD (emptyModule p)).macros ++
        ((findModule T cls p).getD (emptyModule p)).envs, macroToksOk T m = true := by
      cases hf : findModule T cls p with
      | none => intro m hm; simp [emptyModule] at hm
      | some md =>
        have hmem : md ∈ T.packageModules ++ T.classModules := by
          unfold findModule at hf
          split at hf
          · cases hf
          · have := List.mem_of_find?_eq_some hf
            split at this
            · exact List.mem_append_right _ this
            · exact List.mem_append_left _ this
        exact hw.modules_ok md hmem
    have he : ∀ e ∈ ((findModule T cls p).getD (emptyModule p)).envs, envOk T e = true := by
      cases hf : findModule T cls p with
      | none => intro e he; simp [emptyModule] at he
      | some md =>
        have hmem : md ∈ T.packageModules ++ T.classModules := by
          unfold findModule at hf
          split at hf
          · cases hf
          · have := List.mem_of_find?_eq_some hf
            split at this
            · exact List.mem_append_right _ this
            · exact List.mem_append_left _ this
        intro e he
        apply hw.envs_ok
        unfold allTableEnvs
        exact List.mem_append_right _ (List.mem_flatMap.2 ⟨md, hmem, he⟩)
    refine Post_bind _ _ _ _ _ (IH.init p _ false options pos s hs.1 hm he) (fun o s' h => ?_)
    refine Post_pure _ _ _ ⟨Good_trans T hs h.1, ?_⟩
    intro t ht
    rcases List.mem_append.mp ht with ht | ht
    · exact hacc t ht
    · exact h.2 t ht

end steps

theorem latexError_step (hw : T.WFInv) {nroot : Nat} {st0 s : PState} (h0 : Good T nroot st0 s) (err : Str)
    (pos : Nat) (hp : pos < st0.latex.length) :
    Post (latexError T.toTables err pos s) (fun r s' => Good T nroot st0 s' ∧ BL T st0.latex.length r) := by
  apply Post_mono _ _ _ (latexError_spec T hw err pos s (by rw [Good_len T h0]; exact hp))
  intro r s' ⟨h1, h2⟩
  refine ⟨?_, by rw [← Good_len T h0]; exact OL_BL T _ _ h1⟩
  rw [h2]
  exact ⟨G_diags T nroot s _ h0.1, h0.2⟩

/-! ### the handlers -/

section handlers
variable {T} (hw : T.WFInv) {nroot fuel : Nat} (IH : AllSpecs T nroot fuel)
  (buf : Buf) (mac : MacroDef) (args : List (List Tok)) (pos : Nat) (st : PState)
  (hg : G T nroot st) (hb : BL T st.latex.length buf) (ha : ∀ a ∈ args, BL T st.latex.length a)
  (hp : pos < st.latex.length)

include hg in
theorem handler_none :
    Post (callHandler T (fuel + 1) .none buf mac args pos st)
      (fun r st' => Good T nroot st st' ∧ BL T st.latex.length r) := by
  simp only [callHandler]
  exact Post_pure _ _ _ ⟨Good_refl T nroot st hg, BL_nil T _⟩

theorem handler_opaqueH (name : Str) :
    Post (callHandler T (fuel + 1) (.opaqueH name) buf mac args pos st)
      (fun r st' => Good T nroot st st' ∧ BL T st.latex.length r) := by
  simp only [callHandler]
  exact Post_crash _ _ _ (by simp [allowedCrash])

include hg ha hp in
theorem handler_theorem (title : Str) (hh : HandlerArgs (.theorem title) args) :
    Post (callHandler T (fuel + 1) (.theorem title) buf mac args pos st)
      (fun r st' => Good T nroot st st' ∧ BL T st.latex.length r) := by
  simp only [callHandler]
  refine Post_argBind args 0 _ st _ (arity_lt hh (by simp [handlerArity])) (fun a0 h0 ea0 => ?_)
  have hA := ha a0 h0
  cases hl : a0.getLast? with
  | some l =>
    dsimp only
    have hlp := BL_last_pos T hA hl
    refine Post_pure _ _ _ ⟨Good_refl T nroot st hg, ?_⟩
    simp [BL_append, BL_cons, BL_nil, BTok_mkFix_text, BTok_mkFix_space, hp, hlp, hA]
  | none =>
    refine Post_pure _ _ _ ⟨Good_refl T nroot st hg, ?_⟩
    simp [BL_cons, BL_nil, BTok_mkFix_text, BTok_mkFix_space, hp]

include hw IH hg ha hp in
theorem handler_phantom (hh : HandlerArgs .phantom args) :
    Post (callHandler T (fuel + 1) .phantom buf mac args pos st)
      (fun r st' => Good T nroot st st' ∧ BL T st.latex.length r) := by
  simp only [callHandler]
  refine Post_argBind args 0 _ st _ (arity_lt hh (by decide)) (fun a h0 ea => ?_)
  refine Post_bind _ _ _ _ _ (text_step IH (Good_refl T nroot st hg) a (ha a h0)) (fun txt s hs => ?_)
  split
  · refine Post_pure _ _ _ ⟨hs, ?_⟩
    simp [BL_cons, BL_nil, BTok_mkTok_special T hw, hp]
  · exact Post_pure _ _ _ ⟨hs, BL_nil T _⟩

include IH hg ha hp in
theorem handler_hspace (hh : HandlerArgs .hspace args) :
    Post (callHandler T (fuel + 1) .hspace buf mac args pos st)
      (fun r st' => Good T nroot st st' ∧ BL T st.latex.length r) := by
  simp only [callHandler]
  refine Post_argBind args 1 _ st _ (arity_lt hh (by decide)) (fun a h0 ea => ?_)
  refine Post_bind _ _ _ _ _ (text_step IH (Good_refl T nroot st hg) a (ha a h0)) (fun txt s hs => ?_)
  split
  · exact Post_pure _ _ _ ⟨hs, BL_nil T _⟩
  · refine Post_pure _ _ _ ⟨hs, ?_⟩
    simp [BL_cons, BL_nil, BTok_mkTok1_space, hp]

include hg ha hp in
theorem handler_cite (hh : HandlerArgs .cite args) :
    Post (callHandler T (fuel + 1) .cite buf mac args pos st)
      (fun r st' => Good T nroot st st' ∧ BL T st.latex.length r) := by
  simp only [callHandler]
  refine Post_argBind args 0 _ st _ (arity_lt hh (by decide)) (fun a0 h0 ea0 => ?_)
  have hA := ha a0 h0
  cases hl : a0.getLast? with
  | some l =>
    dsimp only
    have hlp := BL_last_pos T hA hl
    refine Post_pure _ _ _ ⟨Good_refl T nroot st hg, ?_⟩
    simp [BL_append, BL_cons, BL_nil, BTok_mkFix_text, BTok_mkFix_space, BTok_mkTok1_text, BTok_mkAction,
      hp, hlp, hA]
  | none =>
    refine Post_pure _ _ _ ⟨Good_refl T nroot st hg, ?_⟩
    simp [BL_cons, BL_nil, BTok_mkFix_text, BTok_mkAction, hp]

include IH hg ha in
theorem handler_heading (hh : HandlerArgs .heading args) :
    Post (callHandler T (fuel + 1) .heading buf mac args pos st)
      (fun r st' => Good T nroot st st' ∧ BL T st.latex.length r) := by
  simp only [callHandler]
  refine Post_argBind args 2 _ st _ (arity_lt hh (by decide)) (fun a h0 ea => ?_)
  have hA := ha a h0
  refine Post_bind _ _ _ _ _ (text_step IH (Good_refl T nroot st hg) a hA) (fun txt s hs => ?_)
  cases hc : (strip txt).getLast? with
  | none => exact Post_pure _ _ _ ⟨hs, hA⟩
  | some c =>
    cases hl : a.getLast? with
    | none => exact absurd (List.getLast?_eq_none_iff.mp hl) (needsA_ne_nil hh (by simp [handlerNeedsA]) ea)
    | some l =>
      dsimp only
      have hlp := BL_last_pos T hA hl
      split
      · refine Post_pure _ _ _ ⟨hs, ?_⟩
        simp [BL_append, BL_cons, BL_nil, BTok_mkTok1_text, hlp, hA]
      · exact Post_pure _ _ _ ⟨hs, hA⟩

include hw IH hg ha hp in
theorem handler_foreignlanguage (hh : HandlerArgs .foreignlanguage args) :
    Post (callHandler T (fuel + 1) .foreignlanguage buf mac args pos st)
      (fun r st' => Good T nroot st st' ∧ BL T st.latex.length r) := by
  simp only [callHandler]
  refine Post_argBind args 1 _ st _ (arity_lt hh (by decide)) (fun a1 h1 ea1 => ?_)
  refine Post_argBind args 2 _ st _ (arity_lt hh (by decide)) (fun a2 h2 ea2 => ?_)
  have hA := ha a2 h2
  refine Post_bind _ _ _ _ _ (text_step IH (Good_refl T nroot st hg) a1 (ha a1 h1)) (fun l s hs => ?_)
  cases ht : translateLang T (strip l) with
  | none => exact absurd ht (translateLang_ne_none T hw _)
  | some lt =>
    cases hl : a2.getLast? with
    | none => exact absurd (List.getLast?_eq_none_iff.mp hl) (needsA_ne_nil hh (by simp [handlerNeedsA]) ea2)
    | some last =>
      dsimp only
      have hlp := BL_last_pos T hA hl
      refine Post_pure _ _ _ ⟨hs, ?_⟩
      simp [BL_append, BL_cons, BL_nil, BTok_mkLang, hp, hlp, hA]

include hw IH hg ha hp in
theorem handler_selectlanguage (hh : HandlerArgs .selectlanguage args) :
    Post (callHandler T (fuel + 1) .selectlanguage buf mac args pos st)
      (fun r st' => Good T nroot st st' ∧ BL T st.latex.length r) := by
  simp only [callHandler]
  refine Post_argBind args 0 _ st _ (arity_lt hh (by decide)) (fun a0 h0 ea0 => ?_)
  refine Post_bind _ _ _ _ _ (text_step IH (Good_refl T nroot st hg) a0 (ha a0 h0)) (fun l s hs => ?_)
  cases ht : translateLang T (strip l) with
  | none => exact absurd ht (translateLang_ne_none T hw _)
  | some lt =>
    refine Post_pure _ _ _ ⟨hs, ?_⟩
    simp [BL_cons, BL_nil, BTok_mkLang, hp]

include hw IH hg ha hp in
theorem handler_beginOtherlang (hh : HandlerArgs .beginOtherlang args) :
    Post (callHandler T (fuel + 1) .beginOtherlang buf mac args pos st)
      (fun r st' => Good T nroot st st' ∧ BL T st.latex.length r) := by
  simp only [callHandler]
  refine Post_argBind args 0 _ st _ (arity_lt hh (by decide)) (fun a0 h0 ea0 => ?_)
  refine Post_bind _ _ _ _ _ (text_step IH (Good_refl T nroot st hg) a0 (ha a0 h0)) (fun l s hs => ?_)
  cases ht : translateLang T (strip l) with
  | none => exact absurd ht (translateLang_ne_none T hw _)
  | some lt =>
    refine Post_pure _ _ _ ⟨hs, ?_⟩
    simp [BL_cons, BL_nil, BTok_mkLang, hp]

include hg hp in
theorem handler_endOtherlang :
    Post (callHandler T (fuel + 1) .endOtherlang buf mac args pos st)
      (fun r st' => Good T nroot st st' ∧ BL T st.latex.length r) := by
  simp only [callHandler]
  refine Post_pure _ _ _ ⟨Good_refl T nroot st hg, ?_⟩
  simp [BL_cons, BL_nil, BTok_mkLang, BTok_mkTok_xmacro, hp]

include hg hp in
theorem handler_endOtherlangStar :
    Post (callHandler T (fuel + 1) .endOtherlangStar buf mac args pos st)
      (fun r st' => Good T nroot st st' ∧ BL T st.latex.length r) := by
  simp only [callHandler]
  refine Post_pure _ _ _ ⟨Good_refl T nroot st hg, ?_⟩
  simp [BL_cons, BL_nil, BTok_mkLang, hp]

omit hw IH buf mac args pos st hg hb ha hp in
theorem BL_substackLoop (hw : T.WFInv) (n : Nat) (lev : Int) (ts : List Tok) (h : BL T n ts) :
    BL T n (substackLoop lev ts) := by
  induction ts generalizing lev with
  | nil => simpa [substackLoop] using BL_nil T n
  | cons t ts ih =>
    rw [BL_cons] at h
    simp only [substackLoop]
    rw [BL_cons]
    exact ⟨ite_prop (BTok T n) _ _ _ (BTok_mkTok_special T hw n t.pos _ (by simp) h.1.1.1) h.1, ih _ h.2⟩

include hw hg ha in
theorem handler_substack (hh : HandlerArgs .substack args) :
    Post (callHandler T (fuel + 1) .substack buf mac args pos st)
      (fun r st' => Good T nroot st st' ∧ BL T st.latex.length r) := by
  simp only [callHandler]
  refine Post_argBind args 0 _ st _ (arity_lt hh (by decide)) (fun a0 h0 ea0 => ?_)
  exact Post_pure _ _ _ ⟨Good_refl T nroot st hg, BL_substackLoop hw _ _ _ (ha a0 h0)⟩

include hg ha hp in
theorem handler_proof (hh : HandlerArgs .proof args) :
    Post (callHandler T (fuel + 1) .proof buf mac args pos st)
      (fun r st' => Good T nroot st st' ∧ BL T st.latex.length r) := by
  simp only [callHandler]
  refine Post_argBind args 0 _ st _ (arity_lt hh (by decide)) (fun a0 h0 ea0 => ?_)
  have hA := ha a0 h0
  refine Post_getBind _ st _ ?_
  have hret : BL T st.latex.length (if (!a0.isEmpty) = true then a0
      else [mkFix .text pos (((settingsOf T (curSettings st)).map (·.proofName)).getD [])]) := by
    apply ite_prop (BL T st.latex.length) _ _ _ hA
    simp [BL_cons, BL_nil, BTok_mkFix_text, hp]
  have hne : (if (!a0.isEmpty) = true then a0
      else [mkFix .text pos (((settingsOf T (curSettings st)).map (·.proofName)).getD [])]) ≠ [] := by
    split
    · rename_i h; intro h'; simp [h'] at h
    · simp
  generalize (if (!a0.isEmpty) = true then a0
      else [mkFix .text pos (((settingsOf T (curSettings st)).map (·.proofName)).getD [])]) = ret at hret hne
  cases hl : ret.getLast? with
  | none => exact absurd (List.getLast?_eq_none_iff.mp hl) hne
  | some l =>
    dsimp only
    have hlp := BL_last_pos T hret hl
    refine Post_pure _ _ _ ⟨Good_refl T nroot st hg, ?_⟩
    simp [BL_append, BL_cons, BL_nil, BTok_mkFix_text, BTok_mkFix_space, hlp, hret]

include hg hp in
theorem handler_xspace :
    Post (callHandler T (fuel + 1) .xspace buf mac args pos st)
      (fun r st' => Good T nroot st st' ∧ BL T st.latex.length r) := by
  simp only [callHandler]
  cases hh : buf.head? with
  | none => exact Post_pure _ _ _ ⟨Good_refl T nroot st hg, BL_nil T _⟩
  | some t =>
    dsimp only
    split
    · exact Post_pure _ _ _ ⟨Good_refl T nroot st hg, BL_nil T _⟩
    · refine Post_pure _ _ _ ⟨Good_refl T nroot st hg, ?_⟩
      simp [BL_cons, BL_nil, BTok_mkTok1_space, hp]

include IH hg ha in
theorem handler_newacronym (hh : HandlerArgs .newacronym args) :
    Post (callHandler T (fuel + 1) .newacronym buf mac args pos st)
      (fun r st' => Good T nroot st st' ∧ BL T st.latex.length r) := by
  simp only [callHandler]
  refine Post_argBind args 2 _ st _ (arity_lt hh (by decide)) (fun a2 h2 ea2 => ?_)
  exact modDesc_step IH (Good_refl T nroot st hg) a2 (ha a2 h2)

include hw IH hg ha hp in
theorem handler_newcommand (hh : HandlerArgs .newcommand args) :
    Post (callHandler T (fuel + 1) .newcommand buf mac args pos st)
      (fun r st' => Good T nroot st st' ∧ BL T st.latex.length r) := by
  simp only [callHandler]
  refine Post_argBind args 1 _ st _ (arity_lt hh (by decide)) (fun a1 h1 ea1 => ?_)
  refine Post_argBind args 2 _ st _ (arity_lt hh (by decide)) (fun a2 h2 ea2 => ?_)
  refine Post_argBind args 3 _ st _ (arity_lt hh (by decide)) (fun a3 h3 ea3 => ?_)
  refine Post_argBind args 4 _ st _ (arity_lt hh (by decide)) (fun a4 h4 ea4 => ?_)
  refine Post_getBind _ st _ ?_
  split
  · exact Post_pure _ _ _ ⟨Good_refl T nroot st hg, BL_nil T _⟩
  · refine Post_bind _ _ _ _ _ (text_step IH (Good_refl T nroot st hg) a2 (ha a2 h2)) (fun ns s hs => ?_)
    have hA3 := ha a3 h3
    have hA4 := ha a4 h4
    generalize (if (!List.isEmpty ns && _) = true then _ else 0) = nargs
    split
    · -- more than nine parameters: an error mark at the position of the call
      exact latexError_step T hw hs _ _ hp
    generalize hf : List.find? _ a4 = o
    cases o with
    | some bad =>
      exact latexError_step T hw hs _ _ (BTok_pos T (hA4 bad (List.mem_of_find?_eq_some hf)))
    | none =>
      dsimp only
      split
      · split
        · cases hh' : a1.head? with
          | none => exact absurd (List.head?_eq_none_iff.mp hh') (needsA_ne_nil hh (by simp [handlerNeedsA]) ea1)
          | some t => exact latexError_step T hw hs _ _ (BL_head_pos T (ha a1 h1) hh')
        · refine Post_modifyPure _ _ _ _ ⟨⟨G_setMacros T hs.1 _ ?_, hs.2⟩, BL_nil T _⟩
          simp only [macroToksOk, BL_all_storedOk T hA3, BL_all_storedOk T hA4, List.all_cons, List.all_nil,
            Bool.and_true, Bool.true_and]
          exact arityOk_newcommand _ _ _ _ nargs (by simp; omega) hf
      · refine Post_modifyPure _ _ _ _ ⟨⟨G_setMacros T hs.1 _ ?_, hs.2⟩, BL_nil T _⟩
        simp only [macroToksOk, BL_all_storedOk T hA4, List.all_nil, Bool.and_true, Bool.true_and]
        exact arityOk_newcommand _ _ _ _ nargs (by simp) hf

include IH hg ha in
theorem handler_newtheorem (hh : HandlerArgs .newtheorem args) :
    Post (callHandler T (fuel + 1) .newtheorem buf mac args pos st)
      (fun r st' => Good T nroot st st' ∧ BL T st.latex.length r) := by
  simp only [callHandler]
  refine Post_argBind args 0 _ st _ (arity_lt hh (by decide)) (fun a0 h0 ea0 => ?_)
  refine Post_argBind args 2 _ st _ (arity_lt hh (by decide)) (fun a2 h2 ea2 => ?_)
  refine Post_bind _ _ _ _ _ (text_step IH (Good_refl T nroot st hg) a0 (ha a0 h0)) (fun name s hs => ?_)
  refine Post_bind _ _ _ _ _ (text_step IH hs a2 (ha a2 h2)) (fun title s' hs' => ?_)
  refine Post_modifyPure _ _ _ _ ⟨⟨G_setEnvs T hs'.1 _ ?_ ?_, hs'.2⟩, BL_nil T _⟩
  · simp [macroToksOk, arityOk, handlerArity, handlerNeedsA]
  · simp [envOk, handlerArity]

include hg ha hp in
theorem handler_bibCite (hh : HandlerArgs .bibCite args) :
    Post (callHandler T (fuel + 1) .bibCite buf mac args pos st)
      (fun r st' => Good T nroot st st' ∧ BL T st.latex.length r) := by
  simp only [callHandler]
  cases h : bibCite T args pos with
  | none => exact absurd h (bibCite_ne_none T args pos hh.1)
  | some o => exact Post_pure _ _ _ ⟨Good_refl T nroot st hg, BL_bibCite T _ args pos o ha hp h⟩

include hw hg ha hp in
theorem handler_footcite (hh : HandlerArgs .footcite args) :
    Post (callHandler T (fuel + 1) .footcite buf mac args pos st)
      (fun r st' => Good T nroot st st' ∧ BL T st.latex.length r) := by
  simp only [callHandler]
  cases h : bibCite T args pos with
  | none => exact absurd h (bibCite_ne_none T args pos hh.1)
  | some o =>
    dsimp only
    have ho := BL_bibCite T _ args pos o ha hp h
    have hlp := lastPos_lt T ho hp
    generalize (Option.map _ o.getLast?).getD pos = lp at hlp
    refine Post_pure _ _ _ ⟨Good_refl T nroot st hg, ?_⟩
    simp [BL_append, BL_cons, BL_nil, BTok_mkFix_text, BTok_mkAction, BTok_mkTok_xmacro,
      BTok_mkTok_special T hw, hp, hlp, ho]

include hw IH hg ha hp in
theorem handler_gls (key : Str) (cf ca : Bool) (hh : HandlerArgs (.gls key cf ca) args) :
    Post (callHandler T (fuel + 1) (.gls key cf ca) buf mac args pos st)
      (fun r st' => Good T nroot st st' ∧ BL T st.latex.length r) := by
  simp only [callHandler]
  refine Post_argBind args 1 _ st _ (arity_lt hh (by simp [handlerArity])) (fun a1 h1 ea1 => ?_)
  refine Post_bind _ _ _ _ _ (text_step IH (Good_refl T nroot st hg) a1 (ha a1 h1)) (fun label s hs => ?_)
  refine Post_getBind _ s _ ?_
  generalize he : Option.bind (List.find? _ s.glossary) _ = entry
  match entry, he with
  | none, _ => exact latexError_step T hw hs _ _ hp
  | some (_, none), _ => exact latexError_step T hw hs _ _ hp
  | some (k, some toks), he =>
    dsimp only
    have hst := gloss_lookup T hs.1.gloss he
    generalize hc : (if cf = true then capFirst T toks else some toks) = c
    cases c with
    | none => exact Post_crash _ _ _ (by simp [allowedCrash])
    | some t1 =>
      dsimp only
      have h1 : ∀ t ∈ t1, storedOk T t = true := by
        split at hc
        · exact capFirst_storedOk T hst hc
        · cases hc; exact hst
      refine Post_pure _ _ _ ⟨hs, BL_restamp_map T ?_ hp⟩
      exact ite_prop (fun l => ∀ t ∈ l, storedOk T t = true) _ _ _ (capAll_storedOk T h1) h1

include IH hg ha in
theorem handler_newglossaryentry (hh : HandlerArgs .newglossaryentry args) :
    Post (callHandler T (fuel + 1) .newglossaryentry buf mac args pos st)
      (fun r st' => Good T nroot st st' ∧ BL T st.latex.length r) := by
  simp only [callHandler]
  refine Post_argBind args 1 _ st _ (arity_lt hh (by decide)) (fun a1 h1 ea1 => ?_)
  refine Post_bind _ _ _ _ _ (keyvals_step IH (Good_refl T nroot st hg) a1 (ha a1 h1)) (fun kv s hs => ?_)
  exact modDesc_step IH hs.1 _ (kvOk_description T hs.2 _)

include IH hg ha in
theorem handler_parseGlsdefs (hh : HandlerArgs .parseGlsdefs args) :
    Post (callHandler T (fuel + 1) .parseGlsdefs buf mac args pos st)
      (fun r st' => Good T nroot st st' ∧ BL T st.latex.length r) := by
  simp only [callHandler]
  refine Post_argBind args 0 _ st _ (arity_lt hh (by decide)) (fun a0 h0 ea0 => ?_)
  refine Post_argBind args 1 _ st _ (arity_lt hh (by decide)) (fun a1 h1 ea1 => ?_)
  refine Post_bind _ _ _ _ _ (text_step IH (Good_refl T nroot st hg) a0 (ha a0 h0)) (fun label s hs => ?_)
  refine Post_bind _ _ _ _ _ (keyvals_step IH hs a1 (ha a1 h1)) (fun kv s' hs' => ?_)
  refine Post_modifyPure _ _ _ _ ⟨⟨G_setGloss T hs'.1.1 _ _ ?_, hs'.1.2⟩, BL_nil T _⟩
  intro e he ts hts t ht
  rcases mem_dedup kv [] e he with h | h
  · cases h
  · exact BTok_storedOk T _ t (hs'.2 e h ts hts t ht)

include hw IH hg ha hp in
theorem handler_loadDefs (hh : HandlerArgs .loadDefs args) :
    Post (callHandler T (fuel + 1) .loadDefs buf mac args pos st)
      (fun r st' => Good T nroot st st' ∧ BL T st.latex.length r) := by
  simp only [callHandler]
  refine Post_getBind _ st _ ?_
  split
  · exact Post_pure _ _ _ ⟨Good_refl T nroot st hg, BL_nil T _⟩
  · refine Post_argBind args 0 _ st _ (arity_lt hh (by decide)) (fun a0 h0 ea0 => ?_)
    refine Post_bind _ _ _ _ _ (text_step IH (Good_refl T nroot st hg) a0 (ha a0 h0)) (fun file s hs => ?_)
    refine Post_getBind _ s _ ?_
    cases hf : List.find? (fun x => x.fst == file) s.fs with
    | none => exact latexError_step T hw hs _ _ hp
    | some f =>
      dsimp only
      refine Post_bind _ _ _ (fun _ s1 => s1 = { s with extracted := [] }) _ (Post_modify _ _ _ rfl) ?_
      rintro _ s1 rfl
      have hG0 : G0 T nroot { s with extracted := [] } :=
        { flows := fun _ e he => (by cases he), macros := hs.1.macros, envs := hs.1.envs, gloss := hs.1.gloss,
          items := hs.1.items, langs := hs.1.langs, rots := hs.1.rots, unk := hs.1.unk }
      refine Post_bind _ _ _ _ _ (IH.work f.2 _ hG0 (fun h => absurd h hs.1.inFrame) hs.1.root)
        (fun toks s2 h2 => ?_)
      obtain ⟨hG2, hSame, hOL⟩ := h2
      refine Post_modifyPure _ _ _ _ ⟨⟨?_, ?_⟩, ?_⟩
      · have e1 : s2.nest = s.nest := hSame.2
        have e2 : s2.latex = s.latex := hSame.1
        refine { flows := hs.1.flows, macros := hG2.macros, envs := hG2.envs, gloss := hG2.gloss,
                 items := hG2.items, langs := hG2.langs, rots := hG2.rots, unk := hG2.unk, root := ?_, inFrame := ?_ }
        · intro h
          show s2.latex.length = nroot
          rw [e2]; exact hs.1.root (e1 ▸ h)
        · intro h
          exact hs.1.inFrame (e1 ▸ h)
      · exact ⟨(show s2.latex = s.latex from hSame.1).trans hs.2.1,
               (show s2.nest = s.nest from hSame.2).trans hs.2.2⟩
      · exact BL_filterSetToks_lang T _ _ pos toks hp hOL

include hw IH hg ha hp in
theorem handler_loadModule (cls : Bool) (hh : HandlerArgs (.loadModule cls) args) :
    Post (callHandler T (fuel + 1) (.loadModule cls) buf mac args pos st)
      (fun r st' => Good T nroot st st' ∧ BL T st.latex.length r) := by
  simp only [callHandler]
  refine Post_argBind args 0 _ st _ (arity_lt hh (by simp [handlerArity])) (fun a0 h0 ea0 => ?_)
  refine Post_argBind args 1 _ st _ (arity_lt hh (by simp [handlerArity])) (fun a1 h1 ea1 => ?_)
  refine Post_bind _ _ _ _ _ (keyvals_step IH (Good_refl T nroot st hg) a0 (ha a0 h0)) (fun kv s hs => ?_)
  refine Post_bind _ _ _ _ _ (expandKv_step IH hs.1 kv hs.2) (fun options s2 hs2 => ?_)
  refine Post_bind _ _ _ _ _ (text_step IH hs2 a1 (ha a1 h1)) (fun packs s3 hs3 => ?_)
  refine Post_bind _ _ _ _ _ (loadModule_fold IH hw cls options pos st _ [] s3 hs3 (by intro t ht; cases ht))
    (fun out s4 hs4 => ?_)
  exact Post_pure _ _ _ ⟨hs4.1, BL_filterSetToks T _ pos out hp hs4.2⟩

include hw hg hp in
theorem handler_crefWarn :
    Post (callHandler T (fuel + 1) .crefWarn buf mac args pos st)
      (fun r st' => Good T nroot st st' ∧ BL T st.latex.length r) := by
  simp only [callHandler]
  exact latexError_step T hw (Good_refl T nroot st hg) _ _ hp

include hw hg hp in
theorem handler_cref (plain star : List (Str × Str)) (hh : HandlerArgs (.cref plain star) args) :
    Post (callHandler T (fuel + 1) (.cref plain star) buf mac args pos st)
      (fun r st' => Good T nroot st st' ∧ BL T st.latex.length r) := by
  simp only [callHandler]
  refine Post_argBind args 0 _ st _ (arity_lt hh (by simp [handlerArity])) (fun a0 h0 ea0 => ?_)
  refine Post_argBind args 1 _ st _ (arity_lt hh (by simp [handlerArity])) (fun a1 h1 ea1 => ?_)
  cases Cleveref.lookupLast (if List.isEmpty (getTextDirect a0) = true then plain else star) (getTextDirect a1) with
  | some str => exact crefToks_step T hw (Good_refl T nroot st hg) _ _ hp
  | none => exact latexError_step T hw (Good_refl T nroot st hg) _ _ hp

include hw hg hp in
theorem handler_crefrange (plain star : List ((Str × Str) × Str)) (hh : HandlerArgs (.crefrange plain star) args) :
    Post (callHandler T (fuel + 1) (.crefrange plain star) buf mac args pos st)
      (fun r st' => Good T nroot st st' ∧ BL T st.latex.length r) := by
  simp only [callHandler]
  refine Post_argBind args 0 _ st _ (arity_lt hh (by simp [handlerArity])) (fun a0 h0 ea0 => ?_)
  refine Post_argBind args 1 _ st _ (arity_lt hh (by simp [handlerArity])) (fun a1 h1 ea1 => ?_)
  refine Post_argBind args 2 _ st _ (arity_lt hh (by simp [handlerArity])) (fun a2 h2 ea2 => ?_)
  cases Cleveref.lookupLast (if List.isEmpty (getTextDirect a0) = true then plain else star)
      (getTextDirect a1, getTextDirect a2) with
  | some str => exact crefToks_step T hw (Good_refl T nroot st hg) _ _ hp
  | none => exact latexError_step T hw (Good_refl T nroot st hg) _ _ hp

include hw IH hg ha hp in
theorem handler_readSed (hh : HandlerArgs .readSed args) :
    Post (callHandler T (fuel + 1) .readSed buf mac args pos st)
      (fun r st' => Good T nroot st st' ∧ BL T st.latex.length r) := by
  simp only [callHandler]
  refine Post_getBind _ st _ ?_
  split
  · exact Post_pure _ _ _ ⟨Good_refl T nroot st hg, BL_nil T _⟩
  · refine Post_argBind args 0 _ st _ (arity_lt hh (by decide)) (fun a0 h0 ea0 => ?_)
    refine Post_bind _ _ _ _ _ (text_step IH (Good_refl T nroot st hg) a0 (ha a0 h0)) (fun file s hs => ?_)
    refine Post_getBind _ s _ ?_
    cases hf : List.find? (fun x => x.fst == file) s.fs with
    | none => exact latexError_step T hw hs _ _ hp
    | some f =>
      refine Post_bind _ _ _ _ _ (readSedText_step T hw hs f.2) (fun _ s1 h1 => ?_)
      exact Post_pure _ _ _ ⟨h1, BL_nil T _⟩

end handlers

end HandlerStep

open HandlerStep in
theorem handler_step (hw : T.WFInv) (nroot fuel : Nat) (IH : AllSpecs T nroot fuel) :
    SpecHandler T nroot (fuel + 1) := by
  intro h buf mac args pos st hg _hb ha hp hh
  cases h with
  | none => exact handler_none buf mac args pos st hg
  | newcommand => exact handler_newcommand hw IH buf mac args pos st hg ha hp hh
  | newtheorem => exact handler_newtheorem IH buf mac args pos st hg ha hh
  | «theorem» title => exact handler_theorem buf mac args pos st hg ha hp title hh
  | heading => exact handler_heading IH buf mac args pos st hg ha hh
  | phantom => exact handler_phantom hw IH buf mac args pos st hg ha hp hh
  | hspace => exact handler_hspace IH buf mac args pos st hg ha hp hh
  | cite => exact handler_cite buf mac args pos st hg ha hp hh
  | loadDefs => exact handler_loadDefs hw IH buf mac args pos st hg ha hp hh
  | loadModule cls => exact handler_loadModule hw IH buf mac args pos st hg ha hp cls hh
  | foreignlanguage => exact handler_foreignlanguage hw IH buf mac args pos st hg ha hp hh
  | selectlanguage => exact handler_selectlanguage hw IH buf mac args pos st hg ha hp hh
  | beginOtherlang => exact handler_beginOtherlang hw IH buf mac args pos st hg ha hp hh
  | endOtherlang => exact handler_endOtherlang buf mac args pos st hg hp
  | endOtherlangStar => exact handler_endOtherlangStar buf mac args pos st hg hp
  | substack => exact handler_substack hw buf mac args pos st hg ha hh
  | proof => exact handler_proof buf mac args pos st hg ha hp hh
  | bibCite => exact handler_bibCite buf mac args pos st hg ha hp hh
  | footcite => exact handler_footcite hw buf mac args pos st hg ha hp hh
  | xspace => exact handler_xspace buf mac args pos st hg hp
  | gls key cf ca => exact handler_gls hw IH buf mac args pos st hg ha hp key cf ca hh
  | newacronym => exact handler_newacronym IH buf mac args pos st hg ha hh
  | newglossaryentry => exact handler_newglossaryentry IH buf mac args pos st hg ha hh
  | parseGlsdefs => exact handler_parseGlsdefs IH buf mac args pos st hg ha hh
  | opaqueH name => exact handler_opaqueH buf mac args pos st name
  | readSed => exact handler_readSed hw IH buf mac args pos st hg ha hp hh
  | crefWarn => exact handler_crefWarn hw buf mac args pos st hg hp
  | cref plain star => exact handler_cref hw buf mac args pos st hg hp plain star hh
  | crefrange plain star => exact handler_crefrange hw buf mac args pos st hg hp plain star hh

end Yalafi
