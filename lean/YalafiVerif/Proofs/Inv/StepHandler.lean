/-
  Proofs/Inv/StepHandler.lean — step lemmas of the range-invariant bundle: each shows the
  specification of one function at `fuel + 1` from all specifications at `fuel`.
-/
import YalafiVerif.Proofs.Inv.Basic
namespace Yalafi

variable (T : PTables)

theorem handler_step (hw : T.WFInv) (nroot fuel : Nat) (IH : AllSpecs T nroot fuel) :
    SpecHandler T nroot (fuel + 1) := by
  sorry

end Yalafi
