/-
  Proofs/Inv/Basic.lean — leaf lemmas for the range-invariant bundle (no induction
  hypothesis needed): the monad, token predicates, argument collection, replacement
  generation, error marks, blank-line removal and the scanner w.r.t. `TokOk`/`BL`/`OL`.
-/
import YalafiVerif.Spec.Inv
import YalafiVerif.Proofs.Scanner
import YalafiVerif.Proofs.Lines
namespace Yalafi

/-! ### the monad -/

theorem Post_pure {α} (a : α) (st : PState) (Q : α → PState → Prop) (h : Q a st) :
    Post ((pure a : M α) st) Q := by
  sorry

theorem Post_bind {α β} (x : M α) (f : α → M β) (st : PState) (Q : α → PState → Prop) (R : β → PState → Prop)
    (hx : Post (x st) Q) (hf : ∀ a s, Q a s → Post (f a s) R) : Post ((x >>= f) st) R := by
  sorry

theorem Post_mono {α} (x : Outcome (α × PState)) (Q R : α → PState → Prop)
    (h : Post x Q) (hi : ∀ a s, Q a s → R a s) : Post x R := by
  sorry

theorem Post_get (st : PState) (Q : PState → PState → Prop) (h : Q st st) : Post (M.get st) Q := by
  sorry

theorem Post_modify (f : PState → PState) (st : PState) (Q : Unit → PState → Prop) (h : Q () (f st)) :
    Post (M.modify f st) Q := by
  sorry

theorem Post_crash {α} (site : String) (st : PState) (Q : α → PState → Prop) : Post ((M.crash site : M α) st) Q := by
  sorry

theorem Post_fatal {α} (msg : Str) (st : PState) (Q : α → PState → Prop) : Post ((M.fatal msg : M α) st) Q := by
  sorry

theorem Post_outOfFuel {α} (st : PState) (Q : α → PState → Prop) : Post ((M.outOfFuel : M α) st) Q := by
  sorry

theorem Post_catchAll {α} (x : M α) (msg : Str) (st : PState) (Q : α → PState → Prop) (h : Post (x st) Q) :
    Post (catchAll x msg st) Q := by
  sorry

/-! ### token predicates -/

variable (T : PTables)

theorem OTok_BTok (n : Nat) (t : Tok) (h : OTok T n t) : BTok T n t := by
  sorry

theorem OL_BL (n : Nat) (ts : List Tok) (h : OL T n ts) : BL T n ts := by
  sorry

theorem BL_append (n : Nat) (a b : List Tok) : BL T n (a ++ b) ↔ BL T n a ∧ BL T n b := by
  sorry

theorem OL_append (n : Nat) (a b : List Tok) : OL T n (a ++ b) ↔ OL T n a ∧ OL T n b := by
  sorry

theorem OTok_mkAction (n p : Nat) (h : p < n) : OTok T n (mkAction p) := by
  sorry

theorem OTok_mkVoid (n p : Nat) (h : p < n) : OTok T n (mkVoid p) := by
  sorry

/-- fixed text/space/paragraph tokens anchored inside the text are output tokens -/
theorem OTok_mkFix (n p : Nat) (k : Kind) (txt : Str) (h : p < n)
    (hk : k = .text ∨ k = .space ∨ k = .par) : OTok T n (mkFix k p txt) := by
  sorry

theorem OTok_mkLang (n p : Nat) (l : Str) (b h k : Bool) (hp : p < n) : OTok T n (mkLang p l b h k) := by
  sorry

/-- a one-character position-counting text or space token at an anchor -/
theorem OTok_mkTok1 (n p : Nat) (k : Kind) (c : Char) (h : p < n) (hk : k = .text ∨ k = .space) :
    OTok T n (mkTok k p [c]) := by
  sorry

/-- re-stamping: a stored token pinned to an anchor is a buffer token -/
theorem BTok_restamp (n p : Nat) (t : Tok) (hs : storedOk T t = true) (hp : p < n) :
    BTok T n { t with pos := p, fix := true } := by
  sorry

theorem BTok_storedOk (n : Nat) (t : Tok) (h : BTok T n t) : storedOk T t = true := by
  sorry

/-- an output token with text is in range in the sense of `getTxtPos_range` -/
theorem OTok_inRange (n : Nat) (t : Tok) (h : OTok T n t) : TokInRange n t := by
  sorry

theorem BL_skipSpace (n : Nat) (b : Buf) (h : BL T n b) : BL T n (skipSpace b) := by
  sorry

theorem BL_filterSetToks (n p : Nat) (ts : List Tok) (hp : p < n) (h : ∀ t ∈ ts, isLang t = true ∧ t.txt = []) :
    BL T n (filterSetToks ts p false) := by
  sorry

/-- language tokens of any output list, re-positioned to an anchor -/
theorem BL_filterSetToks_lang (n m p : Nat) (ts : List Tok) (hp : p < n) (h : OL T m ts) :
    BL T n (filterSetToks ts p true) := by
  sorry

/-! ### error marks -/

/-- `latex_error` at a position inside the current text yields fixed output tokens and
    changes only the diagnostics -/
theorem latexError_spec (hw : T.WFInv) (err : Str) (pos : Nat) (st : PState) (hp : pos < st.latex.length) :
    Post (latexError T.toTables err pos st) (fun r st' =>
      OL T st.latex.length r ∧ st' = { st with diags := st'.diags }) := by
  sorry

/-- changing only the diagnostics keeps every invariant -/
theorem G_diags (nroot : Nat) (st : PState) (d : List Diag) (h : G T nroot st) :
    G T nroot { st with diags := d } := by
  sorry

/-! ### argument collection -/

theorem argBuffer_spec (hw : T.WFInv) (buf : Buf) (start : Nat) (endBrace : Bool) (st : PState)
    (hb : BL T st.latex.length buf) (hs : start < st.latex.length) :
    Post (argBuffer T.toTables buf start endBrace st) (fun r st' =>
      BL T st.latex.length r.1 ∧ r.1 ≠ [] ∧ BL T st.latex.length r.2 ∧ st' = { st with diags := st'.diags }) := by
  sorry

theorem parseNewlineOption_spec (hw : T.WFInv) (buf : Buf) (skip : Bool) (st : PState)
    (hb : BL T st.latex.length buf) :
    Post (parseNewlineOption T buf skip st) (fun r st' =>
      BL T st.latex.length r ∧ st' = { st with diags := st'.diags }) := by
  sorry

theorem collectArgs_spec (hw : T.WFInv) (mac : MacroDef) (codes : List Char) (k : Nat) (buf : Buf) (pos : Nat)
    (acc : Args) (st : PState)
    (hm : macroToksOk T mac = true) (hb : BL T st.latex.length buf) (hp : pos < st.latex.length)
    (ha : (∀ a ∈ acc.args, BL T st.latex.length a) ∧ (∀ a ∈ acc.extr, BL T st.latex.length a)) :
    Post (collectArgs T mac codes k buf pos acc st) (fun r st' =>
      (∀ a ∈ r.1.args, BL T st.latex.length a) ∧ (∀ a ∈ r.1.extr, BL T st.latex.length a) ∧
      BL T st.latex.length r.2 ∧ st' = { st with diags := st'.diags }) := by
  sorry

/-- replacement generation: arguments are copied, body tokens are pinned to anchors -/
theorem generateReplacements_BL (n : Nat) (arguments : List (List Tok)) (repls : List Tok) (start : Nat)
    (out : List Tok) (ha : ∀ a ∈ arguments, BL T n a) (hr : ∀ t ∈ repls, storedOk T t = true) (hs : start < n)
    (h : generateReplacements arguments repls start = some out) : BL T n out := by
  sorry

theorem parseDefMacro_spec (hw : T.WFInv) (nroot : Nat) (buf : Buf) (start : Nat) (st : PState)
    (hg : G T nroot st) (hb : BL T st.latex.length buf) (hs : start < st.latex.length) :
    Post (parseDefMacro T buf start st) (fun r st' =>
      Good T nroot st st' ∧ OL T st.latex.length r.1 ∧ BL T st.latex.length r.2) := by
  sorry

theorem expandShortMacro_spec (n : Nat) (st : PState) (tok : Tok) (rest : Buf)
    (ht : BTok T n tok) (hk : outKind tok = true) (hb : BL T n rest) :
    OTok T n (expandShortMacro T st tok rest).1 ∧ BL T n (expandShortMacro T st tok rest).2 := by
  sorry

theorem expandVerbEnvToken_BL (hw : T.WFInv) (n : Nat) (t : Tok) (h : BTok T n t) (hk : t.kind = .verb true) :
    BL T n (expandVerbEnvToken t) := by
  sorry

/-! ### blank-line removal and scanner -/

theorem removeLines_OL (n : Nat) (ts out : List Tok) (h : OL T n ts) (hr : removeLines ts = some out) :
    OL T n out := by
  sorry

/-- every scanner token is a buffer token of the scanned text -/
theorem scan_BL (hw : T.WFInv) (src : Str) : BL T src.length (scan T.toTables src).toks := by
  sorry

/-- `init_extractions` keeps the frame-independent invariant -/
theorem initExtractions_G0 (hw : T.WFInv) (nroot : Nat) (st : PState) (ex : List Str) (h : G0 T nroot st) :
    G0 T nroot (initExtractions T st ex) := by
  sorry

/-- the skip pre-pass only drops tokens -/
theorem skipPass_BL (n : Nat) (st : PState) (fuel : Nat) (toks out : List Tok)
    (ht : BL T n toks) (ho : BL T n out) :
    BL T n (skipPass st fuel toks out).1 ∧ BL T n (skipPass st fuel toks out).2.2 ∧
    (∀ p, (skipPass st fuel toks out).2.1 = some p → p < n) := by
  sorry

end Yalafi
