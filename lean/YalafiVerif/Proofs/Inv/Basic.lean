/-
  Proofs/Inv/Basic.lean — leaf lemmas for the range-invariant bundle (no induction
  hypothesis needed): the monad, token predicates, argument collection, replacement
  generation, error marks, blank-line removal and the scanner w.r.t. `TokOk`/`BL`/`OL`.
-/
import YalafiVerif.Spec.Inv
import YalafiVerif.Proofs.Scanner
import YalafiVerif.Proofs.Lines
namespace Yalafi

/-! ### the monad -/

theorem Post_pure {α} (a : α) (st : PState) (Q : α → PState → Prop) (h : Q a st) :
    Post ((pure a : M α) st) Q := by
  exact h

theorem Post_bind {α β} (x : M α) (f : α → M β) (st : PState) (Q : α → PState → Prop) (R : β → PState → Prop)
    (hx : Post (x st) Q) (hf : ∀ a s, Q a s → Post (f a s) R) : Post ((x >>= f) st) R := by
  show Post (M.bind' x f st) R
  unfold M.bind'
  cases hxs : x st with
  | ok r =>
    obtain ⟨a, s⟩ := r
    rw [hxs] at hx
    exact hf a s hx
  | fatal m => trivial
  | crash c => rw [hxs] at hx; exact hx
  | outOfFuel => trivial

theorem Post_mono {α} (x : Outcome (α × PState)) (Q R : α → PState → Prop)
    (h : Post x Q) (hi : ∀ a s, Q a s → R a s) : Post x R := by
  cases x with
  | ok r => obtain ⟨a, s⟩ := r; exact hi a s h
  | fatal m => trivial
  | crash c => exact h
  | outOfFuel => trivial

theorem Post_get (st : PState) (Q : PState → PState → Prop) (h : Q st st) : Post (M.get st) Q := by
  exact h

theorem Post_modify (f : PState → PState) (st : PState) (Q : Unit → PState → Prop) (h : Q () (f st)) :
    Post (M.modify f st) Q := by
  exact h

theorem Post_crash {α} (site : String) (st : PState) (Q : α → PState → Prop) (h : site ∈ allowedCrash) :
    Post ((M.crash site : M α) st) Q := by
  exact h

theorem Post_fatal {α} (msg : Str) (st : PState) (Q : α → PState → Prop) : Post ((M.fatal msg : M α) st) Q := by
  trivial

theorem Post_outOfFuel {α} (st : PState) (Q : α → PState → Prop) : Post ((M.outOfFuel : M α) st) Q := by
  trivial

theorem Post_catchAll {α} (x : M α) (msg : Str) (st : PState) (Q : α → PState → Prop) (h : Post (x st) Q) :
    Post (catchAll x msg st) Q := by
  unfold catchAll
  cases hxs : x st with
  | ok r => rw [hxs] at h; exact h
  | fatal m => trivial
  | crash c => trivial
  | outOfFuel => trivial

/-! ### token predicates -/

variable (T : PTables)

theorem OTok_BTok (n : Nat) (t : Tok) (h : OTok T n t) : BTok T n t := by
  refine ⟨h.1, ?_⟩
  have := h.2
  unfold outKind at this
  unfold isMathTok
  split <;> simp_all

theorem OL_BL (n : Nat) (ts : List Tok) (h : OL T n ts) : BL T n ts := by
  exact fun t ht => OTok_BTok T n t (h t ht)

theorem BL_append (n : Nat) (a b : List Tok) : BL T n (a ++ b) ↔ BL T n a ∧ BL T n b := by
  unfold BL
  simp only [List.mem_append]
  exact ⟨fun h => ⟨fun t ht => h t (Or.inl ht), fun t ht => h t (Or.inr ht)⟩,
    fun h t ht => ht.elim (h.1 t) (h.2 t)⟩

theorem OL_append (n : Nat) (a b : List Tok) : OL T n (a ++ b) ↔ OL T n a ∧ OL T n b := by
  unfold OL
  simp only [List.mem_append]
  exact ⟨fun h => ⟨fun t ht => h t (Or.inl ht), fun t ht => h t (Or.inr ht)⟩,
    fun h t ht => ht.elim (h.1 t) (h.2 t)⟩

theorem OTok_mkAction (n p : Nat) (h : p < n) : OTok T n (mkAction p) := by
  refine ⟨⟨h, ?_, rfl, rfl⟩, rfl⟩
  intro _; simp [mkAction, extent]; omega

theorem OTok_mkVoid (n p : Nat) (h : p < n) : OTok T n (mkVoid p) := by
  refine ⟨⟨h, ?_, rfl, rfl⟩, rfl⟩
  intro _; simp [mkVoid, extent]; omega

/-- fixed text/space/paragraph tokens anchored inside the text are output tokens -/
theorem OTok_mkFix (n p : Nat) (k : Kind) (txt : Str) (h : p < n)
    (hk : k = .text ∨ k = .space ∨ k = .par) : OTok T n (mkFix k p txt) := by
  rcases hk with rfl | rfl | rfl <;>
    exact ⟨⟨h, fun hf => by simp [mkFix] at hf, rfl, rfl⟩, rfl⟩

theorem OTok_mkLang (n p : Nat) (l : Str) (b h k : Bool) (hp : p < n) : OTok T n (mkLang p l b h k) := by
  refine ⟨⟨hp, ?_, rfl, rfl⟩, rfl⟩
  intro _; simp [mkLang, extent]; omega

/-- a one-character position-counting text or space token at an anchor -/
theorem OTok_mkTok1 (n p : Nat) (k : Kind) (c : Char) (h : p < n) (hk : k = .text ∨ k = .space) :
    OTok T n (mkTok k p [c]) := by
  rcases hk with rfl | rfl <;>
    exact ⟨⟨h, fun _ => by simp [mkTok, extent]; omega, rfl, rfl⟩, rfl⟩

/-- re-stamping: a stored token pinned to an anchor is a buffer token -/
theorem BTok_restamp (n p : Nat) (t : Tok) (hs : storedOk T t = true) (hp : p < n) :
    BTok T n { t with pos := p, fix := true } := by
  simp only [storedOk, Bool.and_eq_true, Bool.not_eq_eq_eq_not, Bool.not_true] at hs
  exact ⟨⟨hp, fun hf => by simp at hf, hs.1.2, hs.2⟩, hs.1.1⟩

theorem BTok_storedOk (n : Nat) (t : Tok) (h : BTok T n t) : storedOk T t = true := by
  simp only [storedOk, Bool.and_eq_true, Bool.not_eq_eq_eq_not, Bool.not_true]
  exact ⟨⟨h.2, h.1.2.2.1⟩, h.1.2.2.2⟩

theorem extent_outKind (t : Tok) (h : outKind t = true) : extent T t = t.txt.length := by
  unfold outKind at h
  unfold extent
  split <;> simp_all

theorem isLang_extent (t : Tok) (h : isLang t = true) : extent T t = t.txt.length := by
  unfold isLang at h
  unfold extent
  split <;> simp_all

theorem isLang_outKind (t : Tok) (h : isLang t = true) : outKind t = true := by
  unfold isLang at h
  unfold outKind
  split <;> simp_all

theorem isLang_notMath (t : Tok) (h : isLang t = true) : isMathTok t = false := by
  unfold isLang at h
  unfold isMathTok
  split <;> simp_all

theorem isLang_mbOk (t : Tok) (h : isLang t = true) : mbOk T t = true := by
  unfold isLang at h
  unfold mbOk
  split <;> simp_all

/-- a language token without text, placed at an anchor -/
theorem OTok_lang_at (n p : Nat) (t : Tok) (hl : isLang t = true) (ht : t.txt = []) (hp : p < n) :
    OTok T n { t with pos := p } := by
  have hl' : isLang { t with pos := p } = true := hl
  refine ⟨⟨hp, fun _ => ?_, ?_, isLang_mbOk T _ hl'⟩, isLang_outKind _ hl'⟩
  · rw [isLang_extent T _ hl']; simp [ht]; omega
  · unfold ctlEmpty; split <;> simp [ht]

theorem BL_sublist (n : Nat) (a b : List Tok) (hs : a.Sublist b) (h : BL T n b) : BL T n a :=
  fun t ht => h t (hs.subset ht)

/-- an output token with text is in range in the sense of `getTxtPos_range` -/
theorem OTok_inRange (n : Nat) (t : Tok) (h : OTok T n t) : TokInRange n t := by
  refine ⟨h.1.1, fun hf => ?_⟩
  have := h.1.2.1 hf
  rw [extent_outKind T t h.2] at this
  exact this

theorem BL_skipSpace (n : Nat) (b : Buf) (h : BL T n b) : BL T n (skipSpace b) := by
  exact BL_sublist T n _ _ (List.dropWhile_sublist _) h

theorem BL_skipSpaceStopLang (n : Nat) (b : Buf) (h : BL T n b) : BL T n (skipSpaceStopLang b) := by
  exact BL_sublist T n _ _ (List.dropWhile_sublist _) h

theorem BL_skipSpaceStopLangAct (n : Nat) (b : Buf) (h : BL T n b) : BL T n (skipSpaceStopLangAct b) := by
  exact BL_sublist T n _ _ (List.dropWhile_sublist _) h

theorem BL_skippedLangs (n : Nat) (b : Buf) (h : BL T n b) : BL T n (skippedLangs b) := by
  exact BL_sublist T n _ _ ((List.filter_sublist (l := b.takeWhile isSpaceTok)).trans
    (List.takeWhile_sublist _)) h

theorem BL_filterSetToks (n p : Nat) (ts : List Tok) (hp : p < n) (h : injOk ts) :
    BL T n (filterSetToks ts p false) := by
  intro t ht
  simp only [filterSetToks, List.mem_map, List.mem_filter] at ht
  obtain ⟨u, ⟨hu, _⟩, rfl⟩ := ht
  rcases h u hu with hl | hf
  · exact OTok_BTok T n _ (OTok_lang_at T n p u hl.1 hl.2 hp)
  · refine ⟨⟨hp, ?_, ?_, ?_⟩, ?_⟩
    · intro hfix; simp [hf.2] at hfix
    · simp [ctlEmpty, hf.1]
    · simp [mbOk, hf.1]
    · simp [isMathTok, hf.1]

/-- language tokens of any output list, re-positioned to an anchor -/
theorem BL_filterSetToks_lang (n m p : Nat) (ts : List Tok) (hp : p < n) (h : OL T m ts) :
    BL T n (filterSetToks ts p true) := by
  intro t ht
  simp only [filterSetToks, List.mem_map, List.mem_filter] at ht
  obtain ⟨u, ⟨hu, hl⟩, rfl⟩ := ht
  have hl' : isLang u = true := by simpa using hl
  have hc := (h u hu).1.2.2.1
  have : u.txt = [] := by
    unfold isLang at hl'
    unfold ctlEmpty at hc
    split at hc <;> simp_all
  exact OTok_BTok T n _ (OTok_lang_at T n p u hl' this hp)

/-! ### error marks -/

theorem Basic_OTok_fixText (n p : Nat) (txt : Str) (h : p < n) :
    OTok T n { kind := .text, pos := p, txt := txt, fix := true } :=
  OTok_mkFix T n p .text txt h (Or.inl rfl)

theorem latexErrorToks_OL (err : Str) (pos n : Nat) (hp : pos < n) :
    OL T n (latexErrorToks T.toTables err pos n) := by
  intro t ht
  unfold latexErrorToks at ht
  simp only [] at ht
  split at ht
  · rename_i hlt
    simp only [List.mem_cons, List.not_mem_nil, or_false] at ht
    rcases ht with rfl | rfl
    · exact Basic_OTok_fixText T n pos _ hp
    · exact Basic_OTok_fixText T n _ _ (by omega)
  · simp only [List.mem_cons, List.not_mem_nil, or_false] at ht
    subst ht
    exact Basic_OTok_fixText T n pos _ hp

/-- `latex_error` at a position inside the current text yields fixed output tokens and
    changes only the diagnostics -/
theorem latexError_spec (hw : T.WFInv) (err : Str) (pos : Nat) (st : PState) (hp : pos < st.latex.length) :
    Post (latexError T.toTables err pos st) (fun r st' =>
      OL T st.latex.length r ∧ st' = { st with diags := st'.diags }) := by
  have _ := hw
  exact ⟨latexErrorToks_OL T err pos _ hp, rfl⟩

/-- changing only the diagnostics keeps every invariant -/
theorem G_diags (nroot : Nat) (st : PState) (d : List Diag) (h : G T nroot st) :
    G T nroot { st with diags := d } := by
  exact { flows := h.flows, macros := h.macros, envs := h.envs, gloss := h.gloss,
          items := h.items, langs := h.langs, rots := h.rots, unk := h.unk,
          root := h.root, inFrame := h.inFrame }

/-! ### argument collection -/

def nextLev (lev : Int) (t : Tok) : Int :=
  if txtIsNV t "}" then (if txtIsNV t "{" then lev + 1 else lev) - 1 else (if txtIsNV t "{" then lev + 1 else lev)

theorem collectArg_cons (endTxt : Str) (lev : Int) (t : Tok) (ts acc : List Tok) :
    collectArg endTxt lev (t :: ts) acc =
      if (!isVerb t && t.txt == endTxt && nextLev lev t == 0) = true then some (acc.reverse, ts)
      else collectArg endTxt (nextLev lev t) ts (t :: acc) := rfl

theorem collectArg_mem (endTxt : Str) : ∀ (buf : Buf) (lev : Int) (acc out rest' : List Tok),
    collectArg endTxt lev buf acc = some (out, rest') →
    (∀ t ∈ out, t ∈ acc ∨ t ∈ buf) ∧ (∀ t ∈ rest', t ∈ buf) := by
  intro buf
  induction buf with
  | nil => intro lev acc out rest' h; simp [collectArg] at h
  | cons t ts ih =>
    intro lev acc out rest' h
    have A : some (acc.reverse, ts) = some (out, rest') →
        (∀ x ∈ out, x ∈ acc ∨ x ∈ t :: ts) ∧ (∀ x ∈ rest', x ∈ t :: ts) := by
      intro h
      simp only [Option.some.injEq, Prod.mk.injEq] at h
      obtain ⟨rfl, rfl⟩ := h
      exact ⟨fun x hx => Or.inl (by simpa using hx), fun x hx => by simp [hx]⟩
    have B : ∀ lev', collectArg endTxt lev' ts (t :: acc) = some (out, rest') →
        (∀ x ∈ out, x ∈ acc ∨ x ∈ t :: ts) ∧ (∀ x ∈ rest', x ∈ t :: ts) := by
      intro lev' h
      obtain ⟨i1, i2⟩ := ih _ _ _ _ h
      refine ⟨fun x hx => ?_, fun x hx => by simp [i2 x hx]⟩
      rcases i1 x hx with h' | h'
      · simp only [List.mem_cons] at h'
        rcases h' with rfl | h'
        · exact Or.inr (by simp)
        · exact Or.inl h'
      · exact Or.inr (by simp [h'])
    rw [collectArg_cons] at h
    split at h
    · exact A h
    · exact B _ h

theorem Basic_BL_cons (n : Nat) (t : Tok) (ts : List Tok) : BL T n (t :: ts) ↔ BTok T n t ∧ BL T n ts := by
  unfold BL
  simp only [List.mem_cons]
  exact ⟨fun h => ⟨h t (Or.inl rfl), fun x hx => h x (Or.inr hx)⟩,
    fun h x hx => hx.elim (fun e => e ▸ h.1) (h.2 x)⟩

theorem Basic_BL_nil (n : Nat) : BL T n [] := fun _ h => by cases h

theorem BL_single (n : Nat) (t : Tok) (h : BTok T n t) : BL T n [t] := by
  intro x hx; simp at hx; subst hx; exact h

theorem Basic_OL_cons (n : Nat) (t : Tok) (ts : List Tok) : OL T n (t :: ts) ↔ OTok T n t ∧ OL T n ts := by
  unfold OL
  simp only [List.mem_cons]
  exact ⟨fun h => ⟨h t (Or.inl rfl), fun x hx => h x (Or.inr hx)⟩,
    fun h x hx => hx.elim (fun e => e ▸ h.1) (h.2 x)⟩

theorem Basic_OL_nil (n : Nat) : OL T n [] := fun _ h => by cases h

theorem OL_single (n : Nat) (t : Tok) (h : OTok T n t) : OL T n [t] := by
  intro x hx; simp at hx; subst hx; exact h

theorem argBufferPure_spec (n : Nat) (mark : Str) (buf : Buf) (start : Nat) (endBrace : Bool)
    (hb : BL T n buf) (hs : start < n) :
    BL T n (argBufferPure mark buf start endBrace).arg ∧ (argBufferPure mark buf start endBrace).arg ≠ [] ∧
    BL T n (argBufferPure mark buf start endBrace).buf ∧
    (∀ e, (argBufferPure mark buf start endBrace).err = some e → (argBufferPure mark buf start endBrace).errPos < n) := by
  have hsk := BL_skipSpace T n buf hb
  unfold argBufferPure
  split
  · exact ⟨BL_single T n _ (OTok_BTok T n _ (OTok_mkVoid T n start hs)), by simp, Basic_BL_nil T n, by simp⟩
  · rename_i tok rest heq
    rw [heq, Basic_BL_cons] at hsk
    obtain ⟨htok, hrest⟩ := hsk
    have hpos : tok.pos < n := htok.1.1
    split
    · exact ⟨BL_single T n _ (OTok_BTok T n _ (OTok_mkVoid T n _ hpos)), by simp,
        (Basic_BL_cons T n _ _).2 ⟨htok, hrest⟩, by simp⟩
    · split
      · exact ⟨BL_single T n _ htok, by simp, hrest, by simp⟩
      · simp only []
        split
        · rename_i out rest' hc
          obtain ⟨m1, m2⟩ := collectArg_mem _ _ _ _ _ _ hc
          refine ⟨?_, ?_, fun x hx => hrest x (m2 x hx), by simp⟩
          · split
            · exact BL_single T n _ (OTok_BTok T n _ (OTok_mkVoid T n _ hpos))
            · intro x hx
              rcases m1 x hx with h' | h'
              · cases h'
              · exact hrest x h'
          · split
            · simp
            · rename_i hne
              show out ≠ []
              intro e; rw [e] at hne; simp at hne
        · refine ⟨BL_single T n _ (OTok_BTok T n _ (OTok_mkFix T n _ .text _ hpos (Or.inl rfl))), by simp,
            (Basic_BL_cons T n _ _).2 ⟨htok, hrest⟩, ?_⟩
          intro e _; exact hpos

theorem argBuffer_spec (hw : T.WFInv) (buf : Buf) (start : Nat) (endBrace : Bool) (st : PState)
    (hb : BL T st.latex.length buf) (hs : start < st.latex.length) :
    Post (argBuffer T.toTables buf start endBrace st) (fun r st' =>
      BL T st.latex.length r.1 ∧ r.1 ≠ [] ∧ BL T st.latex.length r.2 ∧ st' = { st with diags := st'.diags }) := by
  obtain ⟨h1, h2, h3, h4⟩ := argBufferPure_spec T st.latex.length T.mark buf start endBrace hb hs
  simp only [argBuffer]
  generalize argBufferPure T.mark buf start endBrace = r at *
  obtain ⟨arg, rbuf, err, errPos⟩ := r
  simp only [] at h1 h2 h3 h4 ⊢
  cases err with
  | none => exact ⟨h1, h2, h3, rfl⟩
  | some e =>
    simp only []
    apply Post_bind _ _ _ _ _ (latexError_spec T hw e _ st (h4 e rfl))
    intro errToks s ⟨ho, hs'⟩
    have hbl := OL_BL T _ _ ho
    cases rbuf with
    | nil => exact ⟨h1, h2, hbl, hs'⟩
    | cons opening collected =>
      rw [Basic_BL_cons] at h3
      refine ⟨h1, h2, ?_, hs'⟩
      show BL T _ (opening :: (errToks ++ collected))
      rw [Basic_BL_cons, BL_append]
      exact ⟨h3.1, hbl, h3.2⟩

theorem parseNewlineOption_spec (hw : T.WFInv) (buf : Buf) (skip : Bool) (st : PState)
    (hb : BL T st.latex.length buf) :
    Post (parseNewlineOption T buf skip st) (fun r st' =>
      BL T st.latex.length r ∧ st' = { st with diags := st'.diags }) := by
  simp only [parseNewlineOption]
  have hb1 : BL T st.latex.length (if skip = true then (match lookAheadSL buf with
                            | some t => if txtIsNV t "[" = true then skipSpace buf else buf
                            | none => buf) else buf) := by
    split
    · split
      · split
        · exact BL_skipSpace T _ _ hb
        · exact hb
      · exact hb
    · exact hb
  generalize (if skip = true then (match lookAheadSL buf with
                            | some t => if txtIsNV t "[" = true then skipSpace buf else buf
                            | none => buf) else buf) = buf1 at hb1
  cases buf1 with
  | nil => exact ⟨hb1, rfl⟩
  | cons t tail =>
    simp only []
    split
    · apply Post_bind _ _ _ _ _ (argBuffer_spec T hw _ t.pos false st hb1 (hb1 t (by simp)).1.1)
      intro r s ⟨_, _, h3, h4⟩
      exact ⟨h3, h4⟩
    · exact ⟨hb1, rfl⟩

/-- only the diagnostics changed -/
def DiagsOnly (st st' : PState) : Prop := st' = { st with diags := st'.diags }

theorem DiagsOnly.refl (st : PState) : DiagsOnly st st := rfl

theorem DiagsOnly.latex {a b : PState} (h : DiagsOnly a b) : b.latex = a.latex := by
  unfold DiagsOnly at h; rw [h]

theorem DiagsOnly.trans {a b c : PState} (h1 : DiagsOnly a b) (h2 : DiagsOnly b c) : DiagsOnly a c := by
  unfold DiagsOnly at *
  rw [h2]; simp only []; rw [h1]

def ArgsOk (n : Nat) (acc : Args) : Prop :=
  (∀ a ∈ acc.args, BL T n a) ∧ (∀ a ∈ acc.extr, BL T n a) ∧ BL T n acc.langs

theorem ArgsOk_push (n : Nat) (acc : Args) (a e : List Tok) (h : ArgsOk T n acc) (ha : BL T n a) (he : BL T n e) :
    ArgsOk T n { acc with args := acc.args ++ [a], extr := acc.extr ++ [e] } := by
  refine ⟨?_, ?_, h.2.2⟩
  · intro x hx
    simp only [List.mem_append, List.mem_cons, List.not_mem_nil, or_false] at hx
    rcases hx with hx | rfl
    · exact h.1 x hx
    · exact ha
  · intro x hx
    simp only [List.mem_append, List.mem_cons, List.not_mem_nil, or_false] at hx
    rcases hx with hx | rfl
    · exact h.2.1 x hx
    · exact he

theorem ArgsOk_langs (n : Nat) (acc : Args) (l : List Tok) (h : ArgsOk T n acc) (hl : BL T n l) :
    ArgsOk T n { acc with langs := acc.langs ++ l } := by
  refine ⟨h.1, h.2.1, ?_⟩
  show BL T n (acc.langs ++ l)
  rw [BL_append]
  exact ⟨h.2.2, hl⟩

theorem collectArgs_aux (hw : T.WFInv) (mac : MacroDef) (hm : macroToksOk T mac = true) (n : Nat) :
    ∀ (codes : List Char) (k : Nat) (buf : Buf) (pos : Nat) (acc : Args) (st : PState),
    st.latex.length = n → BL T n buf → pos < n → ArgsOk T n acc →
    Post (collectArgs T mac codes k buf pos acc st) (fun r st' =>
      (∀ a ∈ r.1.args, BL T n a) ∧ (∀ a ∈ r.1.extr, BL T n a) ∧ BL T n r.2 ∧ DiagsOnly st st' ∧
      BL T n r.1.langs) := by
  intro codes
  induction codes with
  | nil =>
    intro k buf pos acc st hn hb hp ha
    exact ⟨ha.1, ha.2.1, hb, rfl, ha.2.2⟩
  | cons code codes ih =>
    intro k buf pos acc0 st hn hb hp ha0
    have hsk := BL_skipSpace T n buf hb
    have ha := ArgsOk_langs T n acc0 _ ha0 (BL_skippedLangs T n buf hb)
    simp only [collectArgs]
    generalize skipSpace buf = b at hsk ⊢
    generalize hacc : ({ acc0 with langs := acc0.langs ++ skippedLangs buf } : Args) = acc at ha
    have e1 : acc0.args = acc.args := by rw [← hacc]
    have e2 : acc0.extr = acc.extr := by rw [← hacc]
    have e3 : acc0.langs ++ skippedLangs buf = acc.langs := by rw [← hacc]
    simp only [e1, e2, e3]
    have hvoid : ∀ p, p < n → BL T n [mkVoid p] :=
      fun p hp => BL_single T n _ (OTok_BTok T n _ (OTok_mkVoid T n p hp))
    have hdflt : ∀ p, p < n → BL T n (match mac.defaults[k]? with
        | some d => d.map (fun t => { t with pos := p, fix := true })
        | none => []) := by
      intro p hp'
      split
      · rename_i d hd
        intro x hx
        simp only [List.mem_map] at hx
        obtain ⟨u, hu, rfl⟩ := hx
        refine BTok_restamp T n _ u ?_ hp'
        simp only [macroToksOk, Bool.and_eq_true, List.all_eq_true] at hm
        exact hm.1.1.2 d (List.mem_of_getElem? hd) u hu
      · exact Basic_BL_nil T n
    -- the continuation after `argBuffer`
    have hcont : ∀ (eb : Bool) (p : Nat), p < n →
        Post ((argBuffer T.toTables b p eb >>= fun r =>
          collectArgs T mac codes (k + 1) r.2 p
            { acc with args := acc.args ++ [r.1], extr := acc.extr ++ [r.1] }) st)
          (fun r st' => (∀ a ∈ r.1.args, BL T n a) ∧ (∀ a ∈ r.1.extr, BL T n a) ∧ BL T n r.2 ∧
            DiagsOnly st st' ∧ BL T n r.1.langs) := by
      intro eb p hp'
      subst hn
      apply Post_bind _ _ _ _ _ (argBuffer_spec T hw b p eb st hsk hp')
      intro r s ⟨h1, _, h3, h4⟩
      have h4' : DiagsOnly st s := h4
      refine Post_mono _ _ _ (ih (k + 1) r.2 p _ s (by rw [h4'.latex]) h3 hp'
        (ArgsOk_push T _ acc _ _ ha h1 h1)) ?_
      intro a s' ⟨q1, q2, q3, q4, q5⟩
      exact ⟨q1, q2, q3, h4'.trans q4, q5⟩
    have hnil := ArgsOk_push T n acc _ _ ha (Basic_BL_nil T n) (Basic_BL_nil T n)
    cases htok : b.head? with
    | none =>
      simp only [Bool.false_eq_true, if_false]
      split
      · exact ih _ _ _ _ st hn hsk hp hnil
      · split
        · exact ih _ _ _ _ st hn hsk hp (ArgsOk_push T n acc _ _ ha (hdflt _ hp) (Basic_BL_nil T n))
        · split
          · exact hcont true _ hp
          · exact Post_fatal _ _ _
    | some t =>
      have htb : BTok T n t := hsk t (List.mem_of_mem_head? htok)
      have hpos : t.pos < n := htb.1.1
      simp only []
      split
      · split
        · exact ih _ _ _ _ st hn (BL_sublist T n _ _ (List.tail_sublist _) hsk) hpos
            (ArgsOk_push T n acc _ _ ha (BL_single T n _ htb) (BL_single T n _ htb))
        · exact ih _ _ _ _ st hn hsk hpos hnil
      · split
        · split
          · exact hcont false _ hpos
          · exact ih _ _ _ _ st hn hsk hpos (ArgsOk_push T n acc _ _ ha (hdflt _ hp) (Basic_BL_nil T n))
        · split
          · split
            · exact ih _ _ _ _ st hn hsk hpos (ArgsOk_push T n acc _ _ ha (hvoid _ hpos) (hvoid _ hpos))
            · exact hcont true _ hpos
          · exact Post_fatal _ _ _

theorem collectArgs_spec (hw : T.WFInv) (mac : MacroDef) (codes : List Char) (k : Nat) (buf : Buf) (pos : Nat)
    (acc : Args) (st : PState)
    (hm : macroToksOk T mac = true) (hb : BL T st.latex.length buf) (hp : pos < st.latex.length)
    (ha : (∀ a ∈ acc.args, BL T st.latex.length a) ∧ (∀ a ∈ acc.extr, BL T st.latex.length a))
    (hl : BL T st.latex.length acc.langs) :
    Post (collectArgs T mac codes k buf pos acc st) (fun r st' =>
      (∀ a ∈ r.1.args, BL T st.latex.length a) ∧ (∀ a ∈ r.1.extr, BL T st.latex.length a) ∧
      BL T st.latex.length r.2 ∧ st' = { st with diags := st'.diags } ∧ BL T st.latex.length r.1.langs) := by
  exact collectArgs_aux T hw mac hm st.latex.length codes k buf pos acc st rfl hb hp ⟨ha.1, ha.2, hl⟩

theorem pyIndex_mem {α} (xs : List α) (k : Nat) (a : α) (h : pyIndex xs k = some a) : a ∈ xs := by
  unfold pyIndex at h
  split at h
  · exact List.mem_of_getLast? h
  · exact List.mem_of_getElem? h

theorem initCurPos_lt (n : Nat) (arguments : List (List Tok)) (ha : ∀ a ∈ arguments, BL T n a) :
    ∀ (repls : List Tok) (cur c : Nat), cur < n → initCurPos arguments repls cur = some c → c < n := by
  intro repls
  induction repls with
  | nil => intro cur c hc h; simp only [initCurPos, Option.some.injEq] at h; omega
  | cons t ts ih =>
    intro cur c hc h
    simp only [initCurPos] at h
    split at h
    · exact ih _ _ hc h
    · split at h
      · cases h
      · rename_i a hpa
        refine ih _ _ ?_ h
        split
        · rename_i hd hh
          exact (ha a (pyIndex_mem _ _ _ hpa) hd (List.mem_of_mem_head? hh)).1.1
        · exact hc

theorem genReplLoop_BL (n : Nat) (arguments : List (List Tok)) (ha : ∀ a ∈ arguments, BL T n a) :
    ∀ (repls : List Tok) (cur : Nat) (out res : List Tok), cur < n → BL T n out →
      (∀ t ∈ repls, storedOk T t = true) → genReplLoop arguments repls cur out = some res → BL T n res := by
  intro repls
  induction repls with
  | nil => intro cur out res _ ho _ h; simp only [genReplLoop, Option.some.injEq] at h; subst h; exact ho
  | cons t ts ih =>
    intro cur out res hc ho hr h
    have hr' : ∀ x ∈ ts, storedOk T x = true := fun x hx => hr x (by simp [hx])
    simp only [genReplLoop] at h
    split at h
    · split at h
      · cases h
      · rename_i a hpa
        have hba := ha a (pyIndex_mem _ _ _ hpa)
        split at h
        · rename_i hd l hh hl
          have h1 := (hba hd (List.mem_of_mem_head? hh)).1.1
          have h2 := (hba l (List.mem_of_getLast? hl)).1.1
          refine ih _ _ _ h2 ?_ hr' h
          rw [BL_append, BL_append, BL_append]
          exact ⟨⟨⟨ho, BL_single T n _ (OTok_BTok T n _ (OTok_mkAction T n _ h1))⟩, hba⟩,
            BL_single T n _ (OTok_BTok T n _ (OTok_mkAction T n _ h2))⟩
        · exact ih _ _ _ hc ho hr' h
    · refine ih _ _ _ hc ?_ hr' h
      rw [BL_append]
      exact ⟨ho, BL_single T n _ (BTok_restamp T n cur t (hr t (by simp)) hc)⟩

/-- replacement generation: arguments are copied, body tokens are pinned to anchors -/
theorem generateReplacements_BL (n : Nat) (arguments : List (List Tok)) (repls : List Tok) (start : Nat)
    (out : List Tok) (ha : ∀ a ∈ arguments, BL T n a) (hr : ∀ t ∈ repls, storedOk T t = true) (hs : start < n)
    (h : generateReplacements arguments repls start = some out) : BL T n out := by
  unfold generateReplacements at h
  split at h
  · cases h
  · rename_i cur hc
    exact genReplLoop_BL T n arguments ha repls cur [] out (initCurPos_lt T n arguments ha repls start cur hs hc)
      (Basic_BL_nil T n) hr h

theorem defArgs_mem : ∀ (fuel : Nat) (buf : Buf) (acc args : List Tok) (buf1 : Buf),
    defArgs fuel buf acc = some (args, buf1) →
    (∀ t ∈ args, t ∈ acc ∨ t ∈ buf) ∧ (∀ t ∈ buf1, t ∈ buf) := by
  intro fuel
  induction fuel with
  | zero => intro buf acc args buf1 h; simp [defArgs] at h
  | succ fuel ih =>
    intro buf acc args buf1 h
    simp only [defArgs] at h
    have hsub : ∀ x ∈ skipSpace buf, x ∈ buf := fun x hx => (List.dropWhile_sublist _).subset hx
    split at h
    · cases h
    · rename_i t rest heq
      rw [heq] at hsub
      split at h
      · simp only [Option.some.injEq, Prod.mk.injEq] at h
        obtain ⟨rfl, rfl⟩ := h
        exact ⟨fun x hx => Or.inl (by simpa using hx), hsub⟩
      · obtain ⟨i1, i2⟩ := ih _ _ _ _ h
        refine ⟨fun x hx => ?_, fun x hx => hsub x (by simp [i2 x hx])⟩
        rcases i1 x hx with h' | h'
        · simp only [List.mem_cons] at h'
          rcases h' with rfl | h'
          · exact Or.inr (hsub _ (by simp))
          · exact Or.inl h'
        · exact Or.inr (hsub x (by simp [h']))

theorem defArgPosMap_err : ∀ (ts : List Tok) (k n : Nat) (acc : List Nat) (t : Tok),
    defArgPosMap ts k n acc = .error t → t ∈ ts := by
  intro ts
  induction ts with
  | nil => intro k n acc t h; simp [defArgPosMap] at h
  | cons u us ih =>
    intro k n acc t h
    simp only [defArgPosMap] at h
    split at h
    · split at h
      · simp only [Except.error.injEq] at h; simp [h]
      · simp [ih _ _ _ _ h]
    · simp [ih _ _ _ _ h]

theorem storedOk_arg (t : Tok) (k : Nat) (_h : storedOk T t = true) (ha : argRef t ≠ none) :
    storedOk T { t with kind := .arg k } = true := by
  unfold argRef at ha
  split at ha
  · rename_i n hk
    simp only [storedOk, isMathTok, ctlEmpty, mbOk]
    rfl
  · exact absurd rfl ha

theorem defMapRepl_spec (map : List Nat) : ∀ (ts acc : List Tok),
    (∀ t ∈ ts, storedOk T t = true) → (∀ t ∈ acc, storedOk T t = true) →
    (∀ t, defMapRepl map ts acc = .error t → t ∈ ts) ∧
    (∀ r, defMapRepl map ts acc = .ok r → ∀ t ∈ r, storedOk T t = true) := by
  intro ts
  induction ts with
  | nil =>
    intro acc _ ha
    refine ⟨fun t h => ?_, fun r h => ?_⟩
    · simp [defMapRepl] at h
    · simp only [defMapRepl, Except.ok.injEq] at h
      subst h
      intro t ht; exact ha t (by simpa using ht)
  | cons u us ih =>
    intro acc hts ha
    have hus : ∀ t ∈ us, storedOk T t = true := fun t ht => hts t (by simp [ht])
    simp only [defMapRepl]
    split
    · rename_i a hau
      split
      · exact ⟨fun t h => by simp only [Except.error.injEq] at h; simp [h], fun r h => by cases h⟩
      · have := ih ({ u with kind := .arg (map.getD (a - 1) 0) } :: acc) hus (by
          intro t ht
          simp only [List.mem_cons] at ht
          rcases ht with rfl | ht
          · exact storedOk_arg T u _ (hts u (by simp)) (by rw [hau]; simp)
          · exact ha t ht)
        exact ⟨fun t h => by simp [this.1 t h], this.2⟩
    · have := ih (u :: acc) hus (by
        intro t ht
        simp only [List.mem_cons] at ht
        rcases ht with rfl | ht
        · exact hts _ (by simp)
        · exact ha t ht)
      exact ⟨fun t h => by simp [this.1 t h], this.2⟩

theorem setMacro_mem (ms : List MacroDef) (m x : MacroDef) (h : x ∈ setMacro ms m) : x ∈ ms ∨ x = m := by
  unfold setMacro at h
  split at h
  · simp only [List.mem_map] at h
    obtain ⟨y, hy, rfl⟩ := h
    split
    · exact Or.inr rfl
    · exact Or.inl hy
  · simp only [List.mem_append, List.mem_cons, List.not_mem_nil, or_false] at h
    exact h

theorem Basic_Good_of_diags (nroot : Nat) (st st' : PState) (hg : G T nroot st) (h : DiagsOnly st st') :
    Good T nroot st st' := by
  unfold DiagsOnly at h
  refine ⟨?_, ?_, ?_⟩
  · rw [h]; exact G_diags T nroot st _ hg
  · rw [h]
  · rw [h]

theorem errRet_spec (hw : T.WFInv) (nroot : Nat) (st s : PState) (hg : G T nroot st) (hd : DiagsOnly st s)
    (err : Str) (pos : Nat) (hp : pos < st.latex.length) (b : Buf) (hb : BL T st.latex.length b) :
    Post ((latexError T.toTables err pos >>= fun e => (pure (e, b) : M (List Tok × Buf))) s) (fun r st' =>
      Good T nroot st st' ∧ OL T st.latex.length r.1 ∧ BL T st.latex.length r.2) := by
  have hl := hd.latex
  apply Post_bind _ _ _ _ _ (latexError_spec T hw err pos s (by rw [hl]; exact hp))
  intro e s' ⟨ho, hs'⟩
  have hs'' : DiagsOnly s s' := hs'
  rw [hl] at ho
  exact ⟨Basic_Good_of_diags T nroot st s' hg (hd.trans hs''), ho, hb⟩

theorem defArgPosMap_range : ∀ (ts : List Tok) (k n : Nat) (acc r : List Nat),
    defArgPosMap ts k n acc = .ok r → (∀ x ∈ acc, 1 ≤ x ∧ x < k) → 1 ≤ k →
    ∀ x ∈ r, 1 ≤ x ∧ x < k + ts.length := by
  intro ts
  induction ts with
  | nil =>
    intro k n acc r h ha _ x hx
    simp only [defArgPosMap, Except.ok.injEq] at h
    subst h
    simpa using ha x hx
  | cons u us ih =>
    intro k n acc r h ha hk x hx
    simp only [defArgPosMap] at h
    have hacc : ∀ y ∈ acc, 1 ≤ y ∧ y < k + 1 := fun y hy => ⟨(ha y hy).1, by have := (ha y hy).2; omega⟩
    simp only [List.length_cons]
    split at h
    · split at h
      · cases h
      · have := ih (k + 1) _ _ r h (by
          intro y hy
          simp only [List.mem_append, List.mem_cons, List.not_mem_nil, or_false] at hy
          rcases hy with hy | rfl
          · exact hacc y hy
          · omega) (by omega) x hx
        omega
    · have := ih (k + 1) _ _ r h hacc (by omega) x hx
      omega

theorem defMapRepl_arity (map : List Nat) (N : Nat) (hmap : ∀ x ∈ map, 1 ≤ x ∧ x ≤ N) :
    ∀ (ts acc r : List Tok), (∀ t ∈ acc, ∀ k, argRef t = some k → 1 ≤ k ∧ k ≤ N) →
    defMapRepl map ts acc = .ok r → ∀ t ∈ r, ∀ k, argRef t = some k → 1 ≤ k ∧ k ≤ N := by
  intro ts
  induction ts with
  | nil =>
    intro acc r ha h t ht
    simp only [defMapRepl, Except.ok.injEq] at h
    subst h
    exact ha t (by simpa using ht)
  | cons u us ih =>
    intro acc r ha h
    simp only [defMapRepl] at h
    split at h
    · rename_i a hau
      split at h
      · cases h
      · rename_i hc
        simp only [Bool.or_eq_true, decide_eq_true_eq, not_or, Nat.not_lt] at hc
        refine ih _ r ?_ h
        intro t ht k hk
        simp only [List.mem_cons] at ht
        rcases ht with rfl | ht
        · simp only [argRef, Option.some.injEq] at hk
          subst hk
          have hlt : a - 1 < map.length := by omega
          rw [List.getD_eq_getElem?_getD, List.getElem?_eq_getElem hlt, Option.getD_some]
          exact hmap _ (List.getElem_mem hlt)
        · exact ha t ht k hk
    · refine ih _ r ?_ h
      intro t ht k hk
      simp only [List.mem_cons] at ht
      rcases ht with rfl | ht
      · rename_i hn
        rw [hn] at hk; cases hk
      · exact ha t ht k hk

/-- a `\def`-style definition whose `#k` all refer to one of its `n` mandatory arguments -/
theorem arityOk_def (name : Str) (n : Nat) (repl : List Tok)
    (h : ∀ t ∈ repl, ∀ k, argRef t = some k → 1 ≤ k ∧ k ≤ n) :
    arityOk { name := name, args := List.replicate n 'A', repl := repl } = true := by
  simp only [arityOk, handlerArity, handlerNeedsA, List.all_nil, List.append_nil, Bool.and_true,
    Nat.zero_le, decide_true, Bool.true_and, List.all_eq_true, List.length_replicate]
  intro t ht
  split
  · rename_i k hk
    have := h t ht k hk
    simp [this.1, this.2]
  · rfl

theorem parseDefMacro_spec (hw : T.WFInv) (nroot : Nat) (buf : Buf) (start : Nat) (st : PState)
    (hg : G T nroot st) (hb : BL T st.latex.length buf) (hs : start < st.latex.length) :
    Post (parseDefMacro T buf start st) (fun r st' =>
      Good T nroot st st' ∧ OL T st.latex.length r.1 ∧ BL T st.latex.length r.2) := by
  have hsk := BL_skipSpace T _ buf hb
  simp only [parseDefMacro]
  generalize skipSpace buf = b at hsk ⊢
  cases b with
  | nil =>
    exact errRet_spec T hw nroot st st hg (DiagsOnly.refl st) _ _ hs _ (Basic_BL_nil T _)
  | cons tok rest =>
    obtain ⟨htok, hrest⟩ := (Basic_BL_cons T _ _ _).1 hsk
    simp only []
    split
    · exact errRet_spec T hw nroot st st hg (DiagsOnly.refl st) _ _ htok.1.1 _ hsk
    · cases hda : defArgs (rest.length + 1) rest [] with
      | none => exact errRet_spec T hw nroot st st hg (DiagsOnly.refl st) _ _ hs _ (Basic_BL_nil T _)
      | some ab =>
        obtain ⟨args, buf1⟩ := ab
        simp only []
        obtain ⟨m1, m2⟩ := defArgs_mem _ _ _ _ _ hda
        have hargs : ∀ t ∈ args, BTok T st.latex.length t := by
          intro t ht
          rcases m1 t ht with h' | h'
          · cases h'
          · exact hrest t h'
        have hbuf1 : BL T st.latex.length buf1 := fun t ht => hrest t (m2 t ht)
        have hp : (match buf1.head? with | some t => t.pos | none => start) < st.latex.length := by
          split
          · rename_i t ht; exact (hbuf1 t (List.mem_of_mem_head? ht)).1.1
          · exact hs
        apply Post_bind _ _ _ _ _ (argBuffer_spec T hw buf1 _ true st hbuf1 hp)
        intro r s ⟨h1, _, h3, h4⟩
        have hd : DiagsOnly st s := h4
        cases hpm : defArgPosMap args 1 1 [] with
        | error t =>
          exact errRet_spec T hw nroot st s hg hd _ _ (hargs t (defArgPosMap_err _ _ _ _ _ hpm)).1.1 _ h3
        | ok map =>
          simp only []
          have hst : ∀ t ∈ r.1, storedOk T t = true := fun t ht => BTok_storedOk T _ t (h1 t ht)
          obtain ⟨e1, e2⟩ := defMapRepl_spec T map r.1 [] hst (by simp)
          cases hmr : defMapRepl map r.1 [] with
          | error t =>
            exact errRet_spec T hw nroot st s hg hd _ _ (h1 t (e1 t hmr)).1.1 _ h3
          | ok repl =>
            simp only []
            apply Post_bind _ _ _ (fun _ s' => Good T nroot st s') _ (Post_modify _ _ _ ?_)
            · intro _ s' hgs
              exact ⟨hgs, OL_single T _ _ (OTok_mkAction T _ start hs), h3⟩
            · obtain ⟨hgs, hsame⟩ := Basic_Good_of_diags T nroot st s hg hd
              refine ⟨{ flows := hgs.flows, macros := ?_, envs := hgs.envs, gloss := hgs.gloss,
                        items := hgs.items, langs := hgs.langs, rots := hgs.rots, unk := hgs.unk,
                        root := hgs.root, inFrame := hgs.inFrame }, hsame⟩
              intro m hm
              simp only [List.mem_append] at hm
              rcases hm with hm | hm
              · rcases setMacro_mem _ _ _ hm with hm | rfl
                · exact hgs.macros m (by simp [hm])
                · have hmapr : ∀ x ∈ map, 1 ≤ x ∧ x ≤ args.length := by
                    intro x hx
                    have := defArgPosMap_range args 1 1 [] map hpm (by simp) (Nat.le_refl _) x hx
                    omega
                  have har := arityOk_def tok.txt args.length repl
                    (defMapRepl_arity map args.length hmapr r.1 [] repl (by simp) hmr)
                  simp only [macroToksOk, List.all_nil, Bool.and_true, Bool.and_eq_true, List.all_eq_true]
                  exact ⟨e2 repl hmr, har⟩
              · exact hgs.macros m (by simp [hm])

theorem expandShortMacro_spec (n : Nat) (st : PState) (tok : Tok) (rest : Buf)
    (ht : BTok T n tok) (hk : outKind tok = true) (hb : BL T n rest) :
    OTok T n (expandShortMacro T st tok rest).1 ∧ BL T n (expandShortMacro T st tok rest).2 := by
  have hto : OTok T n tok := ⟨ht.1, hk⟩
  unfold expandShortMacro
  split
  · exact ⟨hto, Basic_BL_nil T n⟩
  · rename_i cur rest'
    simp only []
    split
    · exact ⟨hto, hb⟩
    · exact ⟨OTok_mkFix T n _ .text _ ht.1.1 (Or.inl rfl), ((Basic_BL_cons T n _ _).1 hb).2⟩

theorem expandVerbEnvToken_BL (hw : T.WFInv) (n : Nat) (t : Tok) (h : BTok T n t) (hk : t.kind = .verb true) :
    BL T n (expandVerbEnvToken t) := by
  obtain ⟨⟨hp, hext, _, _⟩, _⟩ := h
  have hext' : t.fix = false → t.pos + t.txt.length + 14 ≤ n := by
    intro hf; have := hext hf; simp only [extent, hk] at this; omega
  obtain ⟨v1, hv1, hl1⟩ := hw.special_small ['{'] (by simp)
  obtain ⟨v2, hv2, hl2⟩ := hw.special_small ['}'] (by simp)
  have he : (if t.fix = true then t.pos else t.pos + t.txt.length) < n := by
    split
    · exact hp
    · rename_i hf; have := hext' (by simpa using hf); omega
  have hee : t.fix = false → (if t.fix = true then t.pos else t.pos + t.txt.length) + 14 ≤ n := by
    intro hf; have := hext' hf; simp [hf]; omega
  intro x hx
  simp only [expandVerbEnvToken, List.mem_cons, List.not_mem_nil, or_false] at hx
  rcases hx with rfl | rfl | rfl | rfl | rfl | rfl | rfl | rfl | rfl
  · exact ⟨⟨hp, fun hf => by simp [extent]; omega, rfl, rfl⟩, rfl⟩
  · exact ⟨⟨hp, fun hf => by simp [extent, hv1]; omega, rfl, by simp [mbOk, hv1]⟩, rfl⟩
  · exact ⟨⟨hp, fun hf => by have := hext' hf; simp [extent]; omega, rfl, rfl⟩, rfl⟩
  · exact ⟨⟨hp, fun hf => by simp [extent, hv2]; omega, rfl, by simp [mbOk, hv2]⟩, rfl⟩
  · exact ⟨⟨hp, fun hf => by have := hext' hf; simp [extent]; omega, rfl, rfl⟩, rfl⟩
  · exact ⟨⟨he, fun hf => by simp [extent]; omega, rfl, rfl⟩, rfl⟩
  · exact ⟨⟨he, fun hf => by have := hee hf; simp [extent, hv1]; omega, rfl, by simp [mbOk, hv1]⟩, rfl⟩
  · exact ⟨⟨he, fun hf => by have := hee hf; simp [extent]; omega, rfl, rfl⟩, rfl⟩
  · exact ⟨⟨he, fun hf => by have := hee hf; simp [extent, hv2]; omega, rfl, by simp [mbOk, hv2]⟩, rfl⟩

/-! ### blank-line removal and scanner -/

theorem LinesRel_pred (P : Tok → Prop) (hF : ∀ t, P t → P (trimFirst t)) (hL : ∀ t, P t → P (trimLast t))
    (hS : ∀ t, P t → P (sentinel t.pos)) (items : List LItem) (r : List Tok) (hrel : LinesRel items r)
    (h : ∀ i ∈ items, P i.tok) : ∀ t ∈ r, P t := by
  induction hrel with
  | nil => simp
  | skip t rest r hcs _ ih =>
    intro x hx
    simp only [List.mem_cons] at hx
    rcases hx with rfl | hx
    · exact h t (by simp)
    · exact ih (fun i hi => h i (by simp [hi])) x hx
  | one t hcs => intro x hx; simp at hx; subst hx; exact h t (by simp)
  | remove t mid lst rest' r hcs hm hx hb hany _ ih =>
    intro x hx'
    simp only [List.mem_cons, List.mem_append, List.mem_filter, List.mem_map] at hx'
    rcases hx' with rfl | ⟨⟨i, hi, rfl⟩, _⟩ | hx'
    · exact hF _ (h t (by simp))
    · apply h i
      simp only [List.mem_cons, List.mem_append, List.not_mem_nil, or_false] at hi ⊢
      rcases hi with rfl | hi | rfl <;> simp [*]
    · refine ih ?_ x hx'
      intro i hi
      simp only [List.mem_cons] at hi
      rcases hi with rfl | rfl | hi
      · simpa using hS _ (hL _ (h lst (by simp)))
      · simpa using hL _ (h lst (by simp))
      · exact h i (by simp [hi])
  | keep t mid lst rest' r hcs hm hx hb _ ih =>
    intro x hx'
    simp only [List.mem_cons, List.mem_append, List.mem_map] at hx'
    rcases hx' with rfl | ⟨i, hi, rfl⟩ | hx'
    · exact h t (by simp)
    · exact h i (by simp [hi])
    · refine ih ?_ x hx'
      intro i hi
      simp only [List.mem_cons] at hi
      rcases hi with rfl | hi
      · simpa using h lst (by simp)
      · exact h i (by simp [hi])

/-- invariant of the work list of `remove_pure_action_lines`: like `OTok`, but a non-fixed
    token that has lost all its text may sit at position `n` (it is dropped at the end) -/
def LTok (n : Nat) (t : Tok) : Prop :=
  outKind t = true ∧ ctlEmpty t = true ∧ (t.fix = false → t.pos + t.txt.length ≤ n) ∧
  ((t.fix = true ∨ isLang t = true) → t.pos < n)

theorem outKind_mbOk (t : Tok) (h : outKind t = true) : mbOk T t = true := by
  unfold outKind at h
  unfold mbOk
  split <;> simp_all

theorem LTok_of_OTok (n : Nat) (t : Tok) (h : OTok T n t) : LTok n t := by
  refine ⟨h.2, h.1.2.2.1, fun hf => ?_, fun _ => h.1.1⟩
  have := h.1.2.1 hf
  rw [extent_outKind T t h.2] at this
  exact this

theorem OTok_of_LTok (n : Nat) (t : Tok) (h : LTok n t) (hk : keepOut t = true) : OTok T n t := by
  obtain ⟨h1, h2, h3, h4⟩ := h
  refine ⟨⟨?_, fun hf => by rw [extent_outKind T t h1]; exact h3 hf, h2, outKind_mbOk T t h1⟩, h1⟩
  cases hf : t.fix with
  | true => exact h4 (Or.inl hf)
  | false =>
    cases hl : isLang t with
    | true => exact h4 (Or.inr hl)
    | false =>
      simp only [keepOut, hl, Bool.or_false, Bool.not_eq_eq_eq_not, Bool.not_true,
        List.isEmpty_eq_false_iff] at hk
      have := h3 hf
      have : 0 < t.txt.length := List.length_pos_iff.2 hk
      omega

theorem LTok_sentinel (n p : Nat) (h : p ≤ n) : LTok n (sentinel p) := by
  refine ⟨rfl, rfl, fun _ => by simpa [sentinel] using h, fun hh => ?_⟩
  rcases hh with hh | hh <;> simp [sentinel, isLang] at hh

theorem LTok_pos_le (n : Nat) (t : Tok) (h : LTok n t) : t.pos ≤ n := by
  cases hf : t.fix with
  | true => exact Nat.le_of_lt (h.2.2.2 (Or.inl hf))
  | false => have := h.2.2.1 hf; omega

theorem LTok_sentinel_of (n : Nat) (t : Tok) (h : LTok n t) : LTok n (sentinel t.pos) :=
  LTok_sentinel n _ (LTok_pos_le n t h)

theorem ctlEmpty_shrink (t u : Tok) (hk : u.kind = t.kind) (hl : u.txt.length ≤ t.txt.length)
    (h : ctlEmpty t = true) : ctlEmpty u = true := by
  unfold ctlEmpty at h ⊢
  rw [hk]
  split <;> simp_all

theorem LTok_trimFirst (n : Nat) (t : Tok) (h : LTok n t) : LTok n (trimFirst t) := by
  obtain ⟨h1, h2, h3, h4⟩ := h
  have hl := trimFirst_txt_length t
  refine ⟨h1, ctlEmpty_shrink t _ rfl hl h2, fun hf => ?_, h4⟩
  have := h3 hf
  show t.pos + (trimFirst t).txt.length ≤ n
  omega

theorem trimLast_len (t : Tok) :
    (trimLast t).txt.length ≤ t.txt.length ∧
    (t.fix = false → (trimLast t).pos + (trimLast t).txt.length = t.pos + t.txt.length) ∧
    (t.fix = true → (trimLast t).pos = t.pos) ∧ (t.txt = [] → (trimLast t).pos = t.pos) := by
  by_cases hn : hasNl t.txt = true
  · have hs := congrArg List.length (split_first t.txt hn)
    simp only [List.length_append, List.length_cons] at hs
    have hne : t.txt ≠ [] := by intro e; rw [e] at hn; simp [hasNl] at hn
    simp only [trimLast, hn, if_true]
    refine ⟨by omega, fun hf => by simp [hf]; omega, fun hf => by simp [hf], fun e => absurd e hne⟩
  · simp only [trimLast, hn]
    refine ⟨by simp, fun hf => by simp [hf], fun hf => by simp [hf], fun e => by simp [e]⟩

theorem LTok_trimLast (n : Nat) (t : Tok) (h : LTok n t) : LTok n (trimLast t) := by
  obtain ⟨h1, h2, h3, h4⟩ := h
  obtain ⟨l1, l2, l3, l4⟩ := trimLast_len t
  refine ⟨h1, ctlEmpty_shrink t _ rfl l1 h2, fun hf => ?_, fun hh => ?_⟩
  · have hf' : t.fix = false := hf
    rw [l2 hf']; exact h3 hf'
  · rcases hh with hh | hh
    · have hf' : t.fix = true := hh
      rw [l3 hf']; exact h4 (Or.inl hf')
    · have hl' : isLang t = true := hh
      have : t.txt = [] := by
        unfold isLang at hl'
        unfold ctlEmpty at h2
        split at h2 <;> simp_all
      rw [l4 this]; exact h4 (Or.inr hl')

theorem removeLines_OL (n : Nat) (ts out : List Tok) (h : OL T n ts) (hr : removeLines ts = some out) :
    OL T n out := by
  obtain ⟨r, hrel, rfl⟩ := removeLines_rel ts out hr
  intro t ht
  simp only [List.mem_filter] at ht
  refine OTok_of_LTok T n t ?_ ht.2
  refine LinesRel_pred (LTok n) (LTok_trimFirst n) (LTok_trimLast n) (LTok_sentinel_of n) _ r hrel ?_ t ht.1
  intro i hi
  simp only [linesInit, List.mem_cons, List.mem_append, List.mem_map, List.mem_filter,
    List.not_mem_nil, or_false] at hi
  rcases hi with (rfl | ⟨u, hu, rfl⟩) | rfl
  · exact LTok_sentinel n 0 (Nat.zero_le _)
  · rw [evalTok_tok]; exact LTok_of_OTok T n u (h u hu.1)
  · refine LTok_sentinel n _ ?_
    split
    · rename_i u hu
      have := List.mem_of_getLast? hu
      simp only [List.mem_filter] at this
      exact Nat.le_of_lt (h u this.1).1.1
    · exact Nat.zero_le _

/-- token classes the scanner produces -/
def scanKind (k : Kind) : Bool :=
  match k with
  | .action | .void | .lang .. | .mathBegin _ | .mathElem | .mathOper | .mathSpace => false
  | _ => true

theorem scanKind_ctlEmpty (t : Tok) (h : scanKind t.kind = true) : ctlEmpty t = true := by
  unfold scanKind at h
  unfold ctlEmpty
  split <;> simp_all

/-- (restated for the strengthened `mbOk`: special and accent tokens need a table fact, see
    `nextToken_mbOk`) -/
theorem scanKind_mbOk (t : Tok) (h : scanKind t.kind = true) (hs : t.kind ≠ .special) (ha : t.kind ≠ .accent) :
    mbOk T t = true := by
  unfold scanKind at h
  unfold mbOk
  split <;> simp_all

theorem mbOk_text (t : Tok) (h : t.kind = .text) : mbOk T t = true := by
  unfold mbOk; rw [h]

/-- a key of `special_tokens` has a value -/
theorem specialVal_isSome_of_key (k : Str) (h : k ∈ T.special.map (·.1)) :
    (T.toTables.specialVal k).isSome = true := by
  simp only [List.mem_map] at h
  obtain ⟨kv, hkv, rfl⟩ := h
  unfold Tables.specialVal
  rw [Option.isSome_map, List.find?_isSome]
  exact ⟨kv, hkv, by simp⟩

/-- a name the scanner recognises as an accent macro has a non-empty name list -/
theorem accentOk_of_isAccent (hw : T.WFInv) (k : Str) (h : T.toTables.isAccent k = true) : accentOk T k = true := by
  unfold Tables.isAccent at h
  unfold accentOk
  cases hf : T.accents.find? (·.1 == k) with
  | none =>
    rw [List.find?_eq_none] at hf
    rw [List.any_eq_true] at h
    obtain ⟨a, ha, hak⟩ := h
    exact absurd hak (hf a ha)
  | some a =>
    have := hw.accent_names a (List.mem_of_find?_eq_some hf)
    simp only [Bool.not_eq_eq_eq_not, Bool.not_true, List.isEmpty_eq_false_iff]
    exact this

theorem scanKind_notMath (t : Tok) (h : scanKind t.kind = true) : isMathTok t = false := by
  unfold scanKind at h
  unfold isMathTok
  split <;> simp_all

theorem specialVal_len (hw : T.WFInv) (k : Str) : ((T.toTables.specialVal k).getD k).length ≤ k.length := by
  unfold Tables.specialVal
  cases hf : T.special.find? (·.1 == k) with
  | none => simp
  | some kv =>
    have hm := List.mem_of_find?_eq_some hf
    have hp := List.find?_some hf
    simp only [beq_iff_eq] at hp
    have := hw.special_len kv hm
    simp only [Option.map_some, Option.getD_some]
    rw [← hp]; exact this

/-- except for verbatim-environment tokens a token never claims more than its text -/
theorem extent_le (hw : T.WFInv) (t : Tok) (h : t.kind ≠ .verb true) : extent T t ≤ t.txt.length := by
  unfold extent
  split
  all_goals first
    | exact specialVal_len T hw _
    | exact absurd ‹_› h
    | exact Nat.zero_le _
    | exact Nat.le_refl _

/-- what `Proofs/Scanner.lean` does not record: the class of a scanner token, and the room
    behind a verbatim-environment token for its `\end{verbatim}` -/
def G2 (start : Nat) (s : ScanStep) : Prop :=
  scanKind s.tok.kind = true ∧
  (s.tok.kind = .verb true → s.tok.pos + s.tok.txt.length + 14 ≤ start + s.len)

theorem G2_simple (start : Nat) (s : ScanStep) (h1 : scanKind s.tok.kind = true) (h2 : s.tok.kind ≠ .verb true) :
    G2 start s := ⟨h1, fun h => absurd h h2⟩

theorem errTok_kind (T' : Tables) (e : Str) (p n : Nat) :
    ((latexErrorToks T' e p n).headD default).kind = .text := by
  unfold latexErrorToks
  simp only []
  split <;> rfl

theorem G2_err (T' : Tables) (start : Nat) (e : Str) (p n k : Nat) (d : Option Diag) :
    G2 start { tok := (latexErrorToks T' e p n).headD default, len := k, diag := d } :=
  G2_simple _ _ (by show scanKind (_ : Tok).kind = true; rw [errTok_kind]; rfl)
    (by show ¬ (_ : Tok).kind = _; rw [errTok_kind]; simp)

theorem G2_err' (T' : Tables) (start : Nat) (e : Str) (p n k : Nat) (d : Option Diag) (x : List Tok) :
    G2 start { tok := (latexErrorToks T' e p n).headD default, len := k, diag := d, extra := x } :=
  G2_err T' start e p n k d

theorem scanVerb_G2 (T' : Tables) (src : Str) (start : Nat) (rest : Str) : G2 start (scanVerb T' src start rest) := by
  unfold scanVerb
  simp only []
  split
  · exact G2_err' ..
  · split
    · exact G2_err' ..
    · split
      · exact G2_err' ..
      · exact G2_simple _ _ rfl (by simp)

theorem scanVerbatim_G2 (T' : Tables) (src : Str) (start : Nat) (rest : Str) :
    G2 start (scanVerbatim T' src start rest) := by
  unfold scanVerbatim
  simp only []
  split
  · exact G2_simple _ _ rfl (by simp)
  · split
    · exact G2_err' ..
    · refine ⟨rfl, fun _ => ?_⟩
      simp only [List.length_take]
      omega

theorem scanMacro_G2 (T' : Tables) (src : Str) (start : Nat) (rest : Str) : G2 start (scanMacro T' src start rest) := by
  unfold scanMacro
  simp only []
  split
  · exact scanVerbatim_G2 ..
  · split
    · exact G2_simple _ _ rfl (by simp)
    · split
      · exact G2_simple _ _ rfl (by simp)
      · split
        · exact scanVerb_G2 ..
        · split
          · exact G2_simple _ _ rfl (by simp)
          · exact G2_simple _ _ rfl (by simp)

theorem nextToken_G2 (T' : Tables) (src : Str) (start : Nat) (rest : Str) : G2 start (nextToken T' src start rest) := by
  unfold nextToken
  split
  · exact G2_simple _ _ rfl (by decide)
  · split
    · refine G2_simple _ _ ?_ ?_
      · simp only [scanSpace]; split <;> rfl
      · simp only [scanSpace]; split <;> simp
    · split
      · exact G2_simple _ _ rfl (by simp [scanComment])
      · split
        · unfold scanArgToken
          split
          · exact G2_simple _ _ rfl (by simp)
          · split
            · exact G2_simple _ _ rfl (by simp)
            · exact G2_simple _ _ rfl (by simp)
        · split
          · exact G2_simple _ _ rfl (by simp)
          · split
            · exact scanMacro_G2 ..
            · exact G2_simple _ _ rfl (by simp)

/-! the table invariant `mbOk` of scanner tokens -/

theorem errTok_mbOk (T' : Tables) (e : Str) (p n : Nat) : mbOk T ((latexErrorToks T' e p n).headD default) = true :=
  mbOk_text T _ (errTok_kind T' e p n)

theorem scanVerb_mbOk (src : Str) (start : Nat) (rest : Str) : mbOk T (scanVerb T.toTables src start rest).tok = true := by
  unfold scanVerb
  simp only []
  split
  · exact errTok_mbOk ..
  · split
    · exact errTok_mbOk ..
    · split
      · exact errTok_mbOk ..
      · rfl

theorem scanVerbatim_mbOk (src : Str) (start : Nat) (rest : Str) :
    mbOk T (scanVerbatim T.toTables src start rest).tok = true := by
  unfold scanVerbatim
  simp only []
  split
  · rfl
  · split
    · exact errTok_mbOk ..
    · rfl

theorem scanMacro_mbOk (hw : T.WFInv) (src : Str) (start : Nat) (rest : Str) :
    mbOk T (scanMacro T.toTables src start rest).tok = true := by
  unfold scanMacro
  simp only []
  split
  · exact scanVerbatim_mbOk ..
  · split
    · rfl
    · split
      · rfl
      · split
        · exact scanVerb_mbOk ..
        · split
          · rename_i hacc
            exact accentOk_of_isAccent T hw _ hacc
          · rfl

/-- a scanner token of class SpecialToken is a key of `special_tokens` (longest match over the
    sorted key list, or a lone `#`), one of class AccentToken a key of `accent_macros` -/
theorem nextToken_mbOk (hw : T.WFInv) (src : Str) (start : Nat) (rest : Str) :
    mbOk T (nextToken T.toTables src start rest).tok = true := by
  unfold nextToken
  split
  · rfl
  · rename_i c cs
    split
    · refine scanKind_mbOk T _ ?_ ?_ ?_ <;> simp only [scanSpace] <;> split <;> simp [scanKind]
    · split
      · rfl
      · split
        · rename_i hc
          simp only [beq_iff_eq] at hc
          subst hc
          unfold scanArgToken
          split
          · exact hw.special_hash
          · split
            · exact hw.special_hash
            · rfl
        · split
          · rename_i t ht
            exact specialVal_isSome_of_key T t (matchSpecial_longest T.toTables hw.scan _ t ht).2.1
          · split
            · exact scanMacro_mbOk T hw ..
            · rfl

/-- every scanner token is a buffer token of the scanned text -/
theorem scan_BL (hw : T.WFInv) (src : Str) : BL T src.length (scan T.toTables src).toks := by
  intro t ht
  obtain ⟨p, r, hr, hd, hl, rfl | hx⟩ := ScannerAux.scan_steps T.toTables hw.scan src t ht
  rotate_left
  · have hrl : 1 ≤ r.length := by
      cases r with
      | nil => exact absurd rfl hr
      | cons => simp
    obtain ⟨a, b, c⟩ := (ScannerAux.nextToken_good T.toTables hw.scan src p r hr).ext t hx
    have hk : scanKind t.kind = true := by rw [b]; rfl
    refine ⟨⟨c (by omega), fun hf => ?_, scanKind_ctlEmpty _ hk, mbOk_text T _ b⟩,
      scanKind_notMath _ hk⟩
    rw [a] at hf; cases hf
  have hg := ScannerAux.nextToken_good T.toTables hw.scan src p r hr
  obtain ⟨hk, hv⟩ := nextToken_G2 T.toTables src p r
  have h2 := hg.len_le
  have hrl : 1 ≤ r.length := by
    cases r with
    | nil => exact absurd rfl hr
    | cons => simp
  refine ⟨⟨?_, ?_, scanKind_ctlEmpty _ hk, nextToken_mbOk T hw src p r⟩, scanKind_notMath _ hk⟩
  · by_cases hdg : (nextToken T.toTables src p r).diag = none
    · obtain ⟨a, b, c, d, _⟩ := hg.ok hdg
      omega
    · obtain ⟨a, b, _⟩ := hg.err hdg
      omega
  · intro hf
    by_cases hdg : (nextToken T.toTables src p r).diag = none
    · obtain ⟨a, b, c, d, _⟩ := hg.ok hdg
      by_cases hvb : (nextToken T.toTables src p r).tok.kind = .verb true
      · have := hv hvb
        simp only [extent, hvb]
        omega
      · have := extent_le T hw _ hvb
        omega
    · obtain ⟨a, _⟩ := hg.err hdg
      rw [a] at hf; cases hf

theorem scan_storedOk (hw : T.WFInv) (src : Str) : (scan T.toTables src).toks.all (storedOk T) = true := by
  rw [List.all_eq_true]
  intro t ht
  exact BTok_storedOk T _ t (scan_BL T hw src t ht)

/-! argument tokens of the scanner (`#k`): needed for the `arityOk` part of `macroToksOk` of the
    extraction texts `init_extractions` builds by scanning `'#' + str(p + 1)` -/

theorem errTok_argRef (T' : Tables) (e : Str) (p n : Nat) :
    argRef ((latexErrorToks T' e p n).headD default) = none := by
  unfold argRef; rw [errTok_kind]

theorem scanVerb_argRef (T' : Tables) (src : Str) (start : Nat) (rest : Str) :
    argRef (scanVerb T' src start rest).tok = none := by
  unfold scanVerb
  simp only []
  split
  · exact errTok_argRef ..
  · split
    · exact errTok_argRef ..
    · split
      · exact errTok_argRef ..
      · rfl

theorem scanVerbatim_argRef (T' : Tables) (src : Str) (start : Nat) (rest : Str) :
    argRef (scanVerbatim T' src start rest).tok = none := by
  unfold scanVerbatim
  simp only []
  split
  · rfl
  · split
    · exact errTok_argRef ..
    · rfl

theorem scanMacro_argRef (T' : Tables) (src : Str) (start : Nat) (rest : Str) :
    argRef (scanMacro T' src start rest).tok = none := by
  unfold scanMacro
  simp only []
  split
  · exact scanVerbatim_argRef ..
  · split
    · rfl
    · split
      · rfl
      · split
        · exact scanVerb_argRef ..
        · split <;> rfl

/-- the scanner makes an argument token only from `#` followed by a decimal digit (ONE digit) -/
theorem nextToken_argRef (T' : Tables) (src : Str) (start : Nat) (rest : Str) (k : Nat)
    (h : argRef (nextToken T' src start rest).tok = some k) :
    ∃ d tl, rest = '#' :: d :: tl ∧ decimalValue T'.decimalZeros d = some k := by
  revert h
  unfold nextToken
  split
  · intro h; cases h
  · rename_i c cs
    split
    · intro h
      exfalso
      simp only [scanSpace, argRef] at h
      split at h
      · rename_i heq; split at heq <;> cases heq
      · cases h
    · split
      · intro h; cases h
      · split
        · rename_i hc
          simp only [beq_iff_eq] at hc
          subst hc
          unfold scanArgToken
          split
          · intro h; cases h
          · rename_i d hd
            split
            · intro h; cases h
            · rename_i v hv
              intro h
              simp only [argRef, Option.some.injEq] at h
              subst h
              cases cs with
              | nil => simp at hd
              | cons d' tl =>
                simp only [List.tail_cons, List.head?_cons, Option.some.injEq] at hd
                subst hd
                exact ⟨d', tl, rfl, hv⟩
        · split
          · intro h; cases h
          · split
            · intro h; rw [scanMacro_argRef] at h; cases h
            · intro h; cases h

/-- in the scan of `#d…` without a further `#`, every argument token is `#d` -/
theorem scan_hash_args (hw : T.WFInv) (d : Char) (tl : Str) (hno : '#' ∉ d :: tl) :
    ∀ t ∈ (scan T.toTables ('#' :: d :: tl)).toks, ∀ k, argRef t = some k →
      decimalValue T.decimalZeros d = some k := by
  intro t ht k hk
  obtain ⟨p, r, hr, hd, _, rfl | hx⟩ := ScannerAux.scan_steps T.toTables hw.scan _ t ht
  · obtain ⟨d', tl', e, hv⟩ := nextToken_argRef _ _ _ _ _ hk
    rw [e] at hd
    cases p with
    | zero =>
      simp only [List.drop_zero, List.cons.injEq, true_and] at hd
      rw [hd.1]; exact hv
    | succ p =>
      simp only [List.drop_succ_cons] at hd
      exfalso
      apply hno
      apply List.mem_of_mem_drop (i := p)
      rw [hd]; simp
  · obtain ⟨_, b, _⟩ := (ScannerAux.nextToken_good T.toTables hw.scan _ p r hr).ext t hx
    simp only [argRef, b] at hk
    cases hk

/-- the decimal rendering of a positive number starts with a digit `1 … 9` not above it -/
theorem toDigits_head (n : Nat) (h : 1 ≤ n) :
    ∃ d tl, Nat.toDigits 10 n = Nat.digitChar d :: tl ∧ 1 ≤ d ∧ d ≤ 9 ∧ d ≤ n := by
  induction n using Nat.strongRecOn with
  | _ n ih =>
    rw [Nat.toDigits_eq_if (by omega)]
    split
    · exact ⟨n, [], rfl, h, by omega, Nat.le_refl _⟩
    · obtain ⟨d, tl, e, h1, h2, h3⟩ := ih (n / 10) (by omega) (by omega)
      refine ⟨d, tl ++ [Nat.digitChar (n % 10)], by rw [e]; rfl, h1, h2, ?_⟩
      have := Nat.div_le_self n 10
      omega

theorem natToStr_eq (n : Nat) : natToStr n = Nat.toDigits 10 n := by
  simp [natToStr]

theorem digitChar_ascii : ∀ d, d < 10 →
    Nat.digitChar d ∈ "0123456789".toList ∧ (Nat.digitChar d).toNat - 48 = d := by
  decide

/-- the argument tokens of `scan('#' + str(n))`, `n ≥ 1`, refer to an argument `1 … n`
    (to the first digit of `n`: the scanner reads ONE digit).  `hz`: the ASCII digits are
    decimal digits with their usual value. -/
theorem scan_hashNum_args (hw : T.WFInv)
    (hz : ∀ c ∈ "0123456789".toList, decimalValue T.decimalZeros c = some (c.toNat - 48))
    (n : Nat) (hn : 1 ≤ n) :
    ∀ t ∈ (scan T.toTables (['#'] ++ natToStr n)).toks, ∀ k, argRef t = some k → 1 ≤ k ∧ k ≤ n := by
  intro t ht k hk
  obtain ⟨d, tl, e, h1, h2, h3⟩ := toDigits_head n hn
  rw [natToStr_eq, e] at ht
  have hno : '#' ∉ Nat.digitChar d :: tl := by
    rw [← e]
    intro hc
    have := Nat.isDigit_of_mem_toDigits (b := 10) (by omega) (by omega) hc
    revert this; decide
  have hv := scan_hash_args T hw _ tl hno t ht k hk
  obtain ⟨m1, m2⟩ := digitChar_ascii d (by omega)
  rw [hz _ m1, m2] at hv
  simp only [Option.some.injEq] at hv
  omega

theorem arityOk_extract (m : MacroDef) (ex : List Tok)
    (h : ∀ t ∈ ex, ∀ k, argRef t = some k → 1 ≤ k ∧ k ≤ m.args.length) :
    arityOk { m with extract := ex, repl := [], handler := .none } = true := by
  simp only [arityOk, handlerArity, handlerNeedsA, List.all_nil, List.nil_append, Bool.and_true,
    Nat.zero_le, decide_true, Bool.true_and, List.all_eq_true]
  intro t ht
  split
  · rename_i k hk
    have := h t ht k hk
    simp [this.1, this.2]
  · rfl

/-- `init_extractions` keeps the frame-independent invariant.
    NC: extra hypothesis `hz` (decidable table fact, to be added to `PTables.WFInv`): the
    extraction text is the scan of `'#' + str(p + 1)`, whose argument token must refer to one
    of the arguments of the macro. -/
theorem initExtractions_G0 (hw : T.WFInv)
    (hz : ∀ c ∈ "0123456789".toList, decimalValue T.decimalZeros c = some (c.toNat - 48))
    (nroot : Nat) (st : PState) (ex : List Str) (h : G0 T nroot st) :
    G0 T nroot (initExtractions T st ex) := by
  refine { flows := h.flows, macros := ?_, envs := h.envs, gloss := h.gloss,
           items := h.items, langs := h.langs, rots := h.rots, unk := h.unk }
  intro m hm
  simp only [initExtractions, List.mem_append, List.mem_map] at hm
  rcases hm with (⟨m0, hm0, rfl⟩ | ⟨nm, _, rfl⟩) | hm
  · have h0 := h.macros m0 (by simp [hm0])
    simp only [macroToksOk, Bool.and_eq_true] at h0
    split
    · simp only [macroToksOk, List.all_nil, Bool.true_and, Bool.and_eq_true]
      refine ⟨⟨h0.1.1.2, ?_⟩, ?_⟩
      · split
        · exact scan_storedOk T hw _
        · rfl
      · apply arityOk_extract
        intro t ht k hk
        split at ht
        · rename_i hp
          have := scan_hashNum_args T hw hz _ (by omega) t ht k hk
          omega
        · cases ht
    · simp only [macroToksOk, List.all_nil, Bool.true_and, Bool.and_true, Bool.and_eq_true]
      exact ⟨h0.1.1.2, arityOk_extract m0 [] (by simp)⟩
  · simp only [macroToksOk, List.all_nil, Bool.true_and, Bool.and_eq_true]
    refine ⟨scan_storedOk T hw _, ?_⟩
    apply arityOk_extract { name := nm, args := ['A'] }
    intro t ht k hk
    exact scan_hashNum_args T hw hz 1 (Nat.le_refl _) t ht k hk
  · exact h.macros m (by simp [hm])

/-- the skip pre-pass only drops tokens -/
theorem skipPass_BL (n : Nat) (st : PState) (fuel : Nat) (toks out : List Tok)
    (ht : BL T n toks) (ho : BL T n out) :
    BL T n (skipPass st fuel toks out).1 ∧ BL T n (skipPass st fuel toks out).2.2 ∧
    (∀ p, (skipPass st fuel toks out).2.1 = some p → p < n) := by
  induction fuel generalizing toks out with
  | zero => exact ⟨ho, Basic_BL_nil T n, fun p h => by simp [skipPass] at h⟩
  | succ fuel ih =>
    simp only [skipPass]
    have hpre : ∀ f : Tok → Bool, BL T n (out ++ toks.takeWhile f) := fun f =>
      (BL_append T n _ _).2 ⟨ho, BL_sublist T n _ _ (List.takeWhile_sublist _) ht⟩
    split
    · exact ⟨hpre _, Basic_BL_nil T n, fun p h => by simp at h⟩
    · rename_i b after heq
      have hba : BL T n (b :: after) := by
        rw [← heq]; exact BL_sublist T n _ _ (List.drop_sublist _ _) ht
      rw [Basic_BL_cons] at hba
      split
      · refine ⟨hpre _, hba.2, fun p h => ?_⟩
        simp only [Option.some.injEq] at h
        subst h; exact hba.1.1.1
      · rename_i e rest heq2
        refine ih rest _ ?_ (hpre _)
        have : BL T n (e :: rest) := by
          rw [← heq2]; exact BL_sublist T n _ _ (List.drop_sublist _ _) hba.2
        exact ((Basic_BL_cons T n _ _).1 this).2

/-! ### additions for the "no crash" strengthening (C07) -/

theorem Post_and {α} (x : Outcome (α × PState)) (Q R : α → PState → Prop) (h1 : Post x Q) (h2 : Post x R) :
    Post x (fun a s => Q a s ∧ R a s) := by
  cases x with
  | ok r => obtain ⟨a, s⟩ := r; exact ⟨h1, h2⟩
  | fatal m => trivial
  | crash c => exact h1
  | outOfFuel => trivial

/-- `arg_buffer` never returns an empty argument -/
theorem argBufferPure_arg_ne_nil (mark : Str) (buf : Buf) (start : Nat) (endBrace : Bool) :
    (argBufferPure mark buf start endBrace).arg ≠ [] := by
  unfold argBufferPure
  split
  · simp
  · split
    · simp
    · split
      · simp
      · simp only []
        split
        · split
          · simp
          · rename_i out _ _ hne
            intro e
            have e' : out = [] := e
            rw [e'] at hne; simp at hne
        · simp

theorem argBuffer_ne_nil (T' : Tables) (buf : Buf) (start : Nat) (endBrace : Bool) (st : PState) :
    Post (argBuffer T' buf start endBrace st) (fun r _ => r.1 ≠ []) := by
  have h := argBufferPure_arg_ne_nil T'.mark buf start endBrace
  simp only [argBuffer]
  generalize argBufferPure T'.mark buf start endBrace = r at *
  obtain ⟨arg, rbuf, err, errPos⟩ := r
  simp only [] at h ⊢
  cases err with
  | none => exact h
  | some e =>
    simp only []
    refine Post_bind (latexError T' e errPos) _ st (fun _ _ => True) _ (by exact True.intro) ?_
    intro errToks s _
    cases rbuf <;> exact h

/-- shape of the result of `collectArgs` started with accumulator `acc` on the codes `codes`:
    one more argument (and extraction list) per code, the arguments already collected are kept,
    and the argument for a code `'A'` is never empty -/
def ArgsShape (acc : Args) (codes : List Char) (r : Args) : Prop :=
  r.args.length = acc.args.length + codes.length ∧ r.extr.length = acc.extr.length + codes.length ∧
  (∀ (i : Nat) a, acc.args[i]? = some a → r.args[i]? = some a) ∧
  (∀ j : Nat, codes[j]? = some 'A' → ∃ a, r.args[acc.args.length + j]? = some a ∧ a ≠ [])

theorem ArgsShape_step (acc acc' : Args) (code : Char) (codes : List Char) (x y : List Tok) (r : Args)
    (h1 : acc'.args = acc.args ++ [x]) (h2 : acc'.extr = acc.extr ++ [y]) (hx : code = 'A' → x ≠ [])
    (h : ArgsShape acc' codes r) : ArgsShape acc (code :: codes) r := by
  obtain ⟨a1, a2, a3, a4⟩ := h
  rw [h1] at a1 a3 a4
  rw [h2] at a2
  simp only [List.length_append, List.length_cons, List.length_nil] at a1 a2 a4
  refine ⟨by simp only [List.length_cons]; omega, by simp only [List.length_cons]; omega, ?_, ?_⟩
  · intro i a hi
    apply a3
    rw [List.getElem?_append_left (List.getElem?_eq_some_iff.1 hi).1]
    exact hi
  · intro j hj
    cases j with
    | zero =>
      simp only [List.getElem?_cons_zero, Option.some.injEq] at hj
      exact ⟨x, a3 _ _ (by simp), hx hj⟩
    | succ j =>
      simp only [List.getElem?_cons_succ] at hj
      obtain ⟨a, ha, hne⟩ := a4 j hj
      refine ⟨a, ?_, hne⟩
      rw [← ha]; congr 1; omega

theorem collectArgs_shape_aux (mac : MacroDef) :
    ∀ (codes : List Char) (k : Nat) (buf : Buf) (pos : Nat) (acc : Args) (st : PState),
    Post (collectArgs T mac codes k buf pos acc st) (fun r _ => ArgsShape acc codes r.1) := by
  intro codes
  induction codes with
  | nil =>
    intro k buf pos acc st
    refine ⟨by simp, by simp, fun _ _ h => h, fun j hj => by simp at hj⟩
  | cons code codes ih =>
    intro k buf pos acc0 st
    simp only [collectArgs]
    generalize skipSpace buf = b
    -- a recursive call with one more argument `x` / extraction list `y`
    have hrec : ∀ (k' : Nat) (b' : Buf) (p : Nat) (acc' : Args) (s : PState) (x y : List Tok),
        acc'.args = acc0.args ++ [x] → acc'.extr = acc0.extr ++ [y] → (code = 'A' → x ≠ []) →
        Post (collectArgs T mac codes k' b' p acc' s) (fun r _ => ArgsShape acc0 (code :: codes) r.1) := by
      intro k' b' p acc' s x y h1 h2 hx
      refine Post_mono _ _ _ (ih k' b' p acc' s) ?_
      intro r _ h
      exact ArgsShape_step acc0 acc' code codes x y r.1 h1 h2 hx h
    -- the continuation after `argBuffer`
    have hcont : ∀ (eb : Bool) (p : Nat),
        Post ((argBuffer T.toTables b p eb >>= fun r =>
          collectArgs T mac codes (k + 1) r.2 p
            { args := acc0.args ++ [r.1], extr := acc0.extr ++ [r.1],
              langs := acc0.langs ++ skippedLangs buf }) st)
          (fun r _ => ArgsShape acc0 (code :: codes) r.1) := by
      intro eb p
      apply Post_bind _ _ _ _ _ (argBuffer_ne_nil T.toTables b p eb st)
      intro r s hne
      exact hrec _ _ _ _ s r.1 r.1 rfl rfl (fun _ => hne)
    cases htok : b.head? with
    | none =>
      simp only [Bool.false_eq_true, if_false]
      split
      · rename_i hc
        exact hrec _ _ _ _ st [] [] rfl rfl (fun e => by subst e; simp at hc)
      · split
        · rename_i hc
          exact hrec _ _ _ _ st _ [] rfl rfl (fun e => by subst e; simp at hc)
        · split
          · exact hcont true _
          · exact Post_fatal _ _ _
    | some t =>
      simp only []
      split
      · rename_i hc
        split
        · exact hrec _ _ _ _ st [t] [t] rfl rfl (fun _ => by simp)
        · exact hrec _ _ _ _ st [] [] rfl rfl (fun e => by subst e; simp at hc)
      · split
        · rename_i hc
          split
          · exact hcont false _
          · exact hrec _ _ _ _ st _ [] rfl rfl (fun e => by subst e; simp at hc)
        · split
          · split
            · exact hrec _ _ _ _ st [mkVoid t.pos] [mkVoid t.pos] rfl rfl (fun _ => by simp)
            · exact hcont true _
          · exact Post_fatal _ _ _

/-- the arguments `expand_arguments` collects for a consistent definition: one argument and one
    extraction list per code, and what the handler of the macro may assume (`SpecHandler`) -/
theorem collectArgs_shape (mac : MacroDef) (hm : macroToksOk T mac = true) (buf : Buf) (pos : Nat) (st : PState) :
    Post (collectArgs T mac mac.args 0 buf pos {} st) (fun r _ =>
      r.1.args.length = mac.args.length ∧ r.1.extr.length = mac.args.length ∧
      HandlerArgs mac.handler r.1.args) := by
  refine Post_mono _ _ _ (collectArgs_shape_aux T mac mac.args 0 buf pos {} st) ?_
  intro r _ ⟨h1, h2, _, h4⟩
  simp only [List.length_nil, Nat.zero_add] at h1 h2 h4
  simp only [macroToksOk, arityOk, Bool.and_eq_true, decide_eq_true_eq, List.all_eq_true, beq_iff_eq] at hm
  obtain ⟨_, ⟨har, hA⟩, _⟩ := hm
  refine ⟨h1, h2, ?_, ?_⟩
  · rw [h1]; exact har
  · intro k hk
    exact h4 k (hA k hk)

theorem pyIndex_isSome {α} (xs : List α) (k : Nat) (h1 : 1 ≤ k) (h2 : k ≤ xs.length) :
    ∃ a, pyIndex xs k = some a := by
  unfold pyIndex
  rw [if_neg (by simp; omega)]
  exact ⟨xs[k - 1]'(by omega), List.getElem?_eq_getElem (by omega)⟩

theorem initCurPos_isSome (arguments : List (List Tok)) :
    ∀ (repls : List Tok) (cur : Nat),
    (∀ t ∈ repls, ∀ k, argRef t = some k → 1 ≤ k ∧ k ≤ arguments.length) →
    initCurPos arguments repls cur ≠ none := by
  intro repls
  induction repls with
  | nil => intro cur _; simp [initCurPos]
  | cons t ts ih =>
    intro cur h
    have h' : ∀ x ∈ ts, ∀ k, argRef x = some k → 1 ≤ k ∧ k ≤ arguments.length :=
      fun x hx => h x (by simp [hx])
    simp only [initCurPos]
    split
    · exact ih _ h'
    · rename_i k hk
      obtain ⟨a, ha⟩ := pyIndex_isSome arguments k (h t (by simp) k hk).1 (h t (by simp) k hk).2
      rw [ha]
      exact ih _ h'

theorem genReplLoop_isSome (arguments : List (List Tok)) :
    ∀ (repls : List Tok) (cur : Nat) (out : List Tok),
    (∀ t ∈ repls, ∀ k, argRef t = some k → 1 ≤ k ∧ k ≤ arguments.length) →
    genReplLoop arguments repls cur out ≠ none := by
  intro repls
  induction repls with
  | nil => intro cur out _; simp [genReplLoop]
  | cons t ts ih =>
    intro cur out h
    have h' : ∀ x ∈ ts, ∀ k, argRef x = some k → 1 ≤ k ∧ k ≤ arguments.length :=
      fun x hx => h x (by simp [hx])
    simp only [genReplLoop]
    split
    · rename_i k hk
      obtain ⟨a, ha⟩ := pyIndex_isSome arguments k (h t (by simp) k hk).1 (h t (by simp) k hk).2
      rw [ha]
      simp only []
      split
      · exact ih _ _ h'
      · exact ih _ _ h'
    · exact ih _ _ h'

/-- `generate_replacements` cannot raise IndexError if every `#k` refers to an argument -/
theorem generateReplacements_isSome (arguments : List (List Tok)) (repls : List Tok) (start : Nat)
    (h : ∀ t ∈ repls, ∀ k, argRef t = some k → 1 ≤ k ∧ k ≤ arguments.length) :
    generateReplacements arguments repls start ≠ none := by
  unfold generateReplacements
  split
  · rename_i hc
    exact absurd hc (initCurPos_isSome arguments repls start h)
  · exact genReplLoop_isSome arguments repls _ [] h

/-- the form in which `arityOk` provides the hypothesis of `generateReplacements_isSome` -/
theorem arityOk_refs (m : MacroDef) (h : arityOk m = true) :
    ∀ t ∈ m.repl ++ m.extract, ∀ k, argRef t = some k → 1 ≤ k ∧ k ≤ m.args.length := by
  simp only [arityOk, Bool.and_eq_true, List.all_eq_true] at h
  intro t ht k hk
  have := h.2 t ht
  rw [hk] at this
  simpa using this

theorem translateLang_isSome (hw : T.WFInv) (l : Str) : translateLang T l ≠ none := by
  unfold translateLang
  split
  · simp
  · have := hw.babel_english
    cases hf : T.babelMap.find? (·.1 == "english".toList) with
    | none => rw [hf] at this; cases this
    | some e => simp

theorem itemLabel_isSome (hw : T.WFInv) (g : ItemGen) : itemLabel T.itemDefaultLabel g ≠ none := by
  have hne := hw.item_labels
  have hpos : 0 < T.itemDefaultLabel.length := List.length_pos_iff.2 hne
  unfold itemLabel
  split
  · simp
  · rw [List.getElem?_eq_getElem (by omega)]; simp
  · cases hd : T.itemDefaultLabel with
    | nil => exact absurd hd hne
    | cons a l => simp

theorem settingsOf_cur (hw : T.WFInv) (st : PState)
    (h : ∀ e ∈ st.langStack, (settingsOf T e.1).isSome = true) :
    (settingsOf T (curSettings st)).isSome = true := by
  unfold curSettings
  cases hs : st.langStack with
  | nil => exact hw.lang_en
  | cons e l =>
    rw [hs] at h
    exact h e (by simp)

theorem rotL_ne_nil (l : List Str) (h : l ≠ []) : rotL l ≠ [] := by
  cases l with
  | nil => exact absurd rfl h
  | cons a t => simp [rotL]

end Yalafi
