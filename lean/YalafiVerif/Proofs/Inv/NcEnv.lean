/-
  Proofs/Inv/NcEnv.lean — helper lemmas for the "no crash" strengthening used by StepEnv.lean:
  the shape of what `collectArgs` returns, totality of `generateReplacements` for in-range
  argument references, and the projections of `arityOk`.
  Everything lives in the namespace `Yalafi.NcEnv` (no clashes with the other helper files).
-/
import YalafiVerif.Proofs.Inv.Basic
namespace Yalafi
namespace NcEnv

variable (T : PTables)

/-! ### the monad -/

theorem Post_and {α} (x : Outcome (α × PState)) (Q R : α → PState → Prop)
    (h1 : Post x Q) (h2 : Post x R) : Post x (fun a s => Q a s ∧ R a s) := by
  cases x with
  | ok r => obtain ⟨a, s⟩ := r; exact ⟨h1, h2⟩
  | fatal m => trivial
  | crash c => exact h1
  | outOfFuel => trivial

/-! ### `arg_buffer` never returns an empty argument (no precondition) -/

theorem argBufferPure_arg_ne (mark : Str) (buf : Buf) (start : Nat) (endBrace : Bool) :
    (argBufferPure mark buf start endBrace).arg ≠ [] := by
  unfold argBufferPure
  split
  · simp
  · split
    · simp
    · split
      · simp
      · simp only []
        split
        · split
          · simp
          · rename_i out rest' hc hne
            show out ≠ []
            intro e; rw [e] at hne; simp at hne
        · simp

theorem argBuffer_ne (Tb : Tables) (buf : Buf) (start : Nat) (endBrace : Bool) (st : PState) :
    Post (argBuffer Tb buf start endBrace st) (fun r _ => r.1 ≠ []) := by
  have h2 := argBufferPure_arg_ne Tb.mark buf start endBrace
  simp only [argBuffer]
  generalize argBufferPure Tb.mark buf start endBrace = r at *
  obtain ⟨arg, rbuf, err, errPos⟩ := r
  simp only [] at h2 ⊢
  cases err with
  | none => exact h2
  | some e =>
    simp only []
    apply Post_bind _ _ _ (Q := fun _ _ => True)
    · exact trivial
    · intro errToks s _
      cases rbuf with
      | nil => exact h2
      | cons opening collected => exact h2

/-! ### shape of the collected arguments -/

/-- one list per argument code; the list for a mandatory argument (`'A'`) is not empty -/
def Shape : List Char → List (List Tok) → Prop
  | [], [] => True
  | c :: cs, a :: as => (c = 'A' → a ≠ []) ∧ Shape cs as
  | _, _ => False

theorem Shape_length : ∀ (codes : List Char) (sa : List (List Tok)), Shape codes sa → sa.length = codes.length := by
  intro codes
  induction codes with
  | nil => intro sa h; cases sa with
    | nil => rfl
    | cons a as => simp [Shape] at h
  | cons c cs ih => intro sa h; cases sa with
    | nil => simp [Shape] at h
    | cons a as =>
      simp only [Shape] at h
      simp [ih as h.2]

theorem Shape_get : ∀ (codes : List Char) (sa : List (List Tok)), Shape codes sa →
    ∀ k : Nat, codes[k]? = some 'A' → ∃ a, sa[k]? = some a ∧ a ≠ [] := by
  intro codes
  induction codes with
  | nil => intro sa _ k hk; simp at hk
  | cons c cs ih => intro sa h k hk; cases sa with
    | nil => simp [Shape] at h
    | cons a as =>
      simp only [Shape] at h
      cases k with
      | zero =>
        simp only [List.getElem?_cons_zero, Option.some.injEq] at hk
        exact ⟨a, by simp, h.1 hk⟩
      | succ k =>
        simp only [List.getElem?_cons_succ] at hk ⊢
        exact ih as h.2 k hk

/-- what `collectArgs` appends to its accumulator -/
def Collected (codes : List Char) (acc r : Args) : Prop :=
  ∃ sa se, r.args = acc.args ++ sa ∧ r.extr = acc.extr ++ se ∧ se.length = codes.length ∧ Shape codes sa

theorem Collected_step (code : Char) (codes : List Char) (acc acc' r : Args) (x e : List Tok)
    (ha : acc'.args = acc.args ++ [x]) (he : acc'.extr = acc.extr ++ [e]) (hx : code = 'A' → x ≠ [])
    (h : Collected codes acc' r) : Collected (code :: codes) acc r := by
  obtain ⟨sa, se, h1, h2, h3, h4⟩ := h
  refine ⟨x :: sa, e :: se, ?_, ?_, ?_, ?_⟩
  · rw [h1, ha]; simp
  · rw [h2, he]; simp
  · simp [h3]
  · exact ⟨hx, h4⟩

theorem collectArgs_shape (mac : MacroDef) :
    ∀ (codes : List Char) (k : Nat) (buf : Buf) (pos : Nat) (acc : Args) (st : PState),
    Post (collectArgs T mac codes k buf pos acc st) (fun r _ => Collected codes acc r.1) := by
  intro codes
  induction codes with
  | nil =>
    intro k buf pos acc st
    simp only [collectArgs]
    apply Post_pure
    exact ⟨[], [], by simp, by simp, rfl, trivial⟩
  | cons code codes ih =>
    intro k buf pos acc st
    have step : ∀ (x e : List Tok) (langs : List Tok) (buf' : Buf) (pos' : Nat) (s : PState),
        (code = 'A' → x ≠ []) →
        Post (collectArgs T mac codes (k + 1) buf' pos'
          { args := acc.args ++ [x], extr := acc.extr ++ [e], langs := langs } s)
          (fun r _ => Collected (code :: codes) acc r.1) := by
      intro x e langs buf' pos' s hx
      refine Post_mono _ _ _ (ih (k + 1) buf' pos' _ s) ?_
      intro r _ h
      exact Collected_step code codes acc _ r.1 x e rfl rfl hx h
    simp only [collectArgs]
    cases htok : (skipSpace buf).head? <;> simp only []
    all_goals
    by_cases h1 : (code == '*') = true
    · have hne : code = 'A' → False := by
        intro e; rw [e] at h1; exact absurd h1 (by decide)
      rw [if_pos h1]
      repeat' split
      all_goals exact step _ _ _ _ _ _ (fun e => (hne e).elim)
    · rw [if_neg h1]
      by_cases h2 : (code == 'O') = true
      · have hne : code = 'A' → False := by
          intro e; rw [e] at h2; exact absurd h2 (by decide)
        rw [if_pos h2]
        repeat' split
        all_goals first
          | exact step _ _ _ _ _ _ (fun e => (hne e).elim)
          | (apply Post_bind _ _ _ (Q := fun _ _ => True)
             · exact Post_mono _ _ _ (argBuffer_ne T.toTables _ _ _ st) (fun _ _ _ => trivial)
             · intro r s _
               exact step _ _ _ _ _ _ (fun e => (hne e).elim))
      · rw [if_neg h2]
        by_cases h3 : (code == 'A') = true
        · rw [if_pos h3]
          repeat' split
          all_goals first
            | exact step _ _ _ _ _ _ (fun _ => by simp)
            | (apply Post_bind _ _ _ (Q := fun r _ => r.1 ≠ [])
               · exact argBuffer_ne T.toTables _ _ _ st
               · intro r s hr
                 exact step _ _ _ _ _ _ (fun _ => hr))
        · rw [if_neg h3]
          exact Post_fatal _ _ _

/-- `expand_arguments`: the collected lists have one entry per argument code, and the entry of a
    mandatory argument is not empty -/
theorem collectArgs_shape0 (mac : MacroDef) (codes : List Char) (k : Nat) (buf : Buf) (pos : Nat) (st : PState) :
    Post (collectArgs T mac codes k buf pos {} st) (fun r _ =>
      r.1.args.length = codes.length ∧ r.1.extr.length = codes.length ∧
      ∀ i : Nat, codes[i]? = some 'A' → ∃ a, r.1.args[i]? = some a ∧ a ≠ []) := by
  refine Post_mono _ _ _ (collectArgs_shape T mac codes k buf pos {} st) ?_
  intro r _ h
  obtain ⟨sa, se, h1, h2, h3, h4⟩ := h
  have h1' : r.1.args = sa := by simpa using h1
  have h2' : r.1.extr = se := by simpa using h2
  rw [h1', h2']
  exact ⟨Shape_length _ _ h4, h3, Shape_get _ _ h4⟩

/-! ### `generate_replacements` cannot raise when all references are in range -/

theorem pyIndex_isSome {α} (xs : List α) (k : Nat) (h1 : 1 ≤ k) (h2 : k ≤ xs.length) :
    ∃ a, pyIndex xs k = some a := by
  unfold pyIndex
  have hk : (k == 0) = false := by simp; omega
  rw [hk]
  simp only [Bool.false_eq_true, if_false]
  have : k - 1 < xs.length := by omega
  exact ⟨xs[k - 1], List.getElem?_eq_getElem this⟩

/-- every `#k` of a replacement text refers to an existing argument -/
def RefsOk (n : Nat) (repls : List Tok) : Prop :=
  ∀ t ∈ repls, ∀ k, argRef t = some k → 1 ≤ k ∧ k ≤ n

theorem initCurPos_ne_none (arguments : List (List Tok)) :
    ∀ (repls : List Tok) (cur : Nat), RefsOk arguments.length repls → initCurPos arguments repls cur ≠ none := by
  intro repls
  induction repls with
  | nil => intro cur _; simp [initCurPos]
  | cons t ts ih =>
    intro cur h
    have h' : RefsOk arguments.length ts := fun x hx => h x (by simp [hx])
    simp only [initCurPos]
    split
    · exact ih _ h'
    · rename_i k hk
      obtain ⟨a, ha⟩ := pyIndex_isSome arguments k (h t (by simp) k hk).1 (h t (by simp) k hk).2
      rw [ha]
      exact ih _ h'

theorem genReplLoop_ne_none (arguments : List (List Tok)) :
    ∀ (repls : List Tok) (cur : Nat) (out : List Tok), RefsOk arguments.length repls →
      genReplLoop arguments repls cur out ≠ none := by
  intro repls
  induction repls with
  | nil => intro cur out _; simp [genReplLoop]
  | cons t ts ih =>
    intro cur out h
    have h' : RefsOk arguments.length ts := fun x hx => h x (by simp [hx])
    simp only [genReplLoop]
    split
    · rename_i k hk
      obtain ⟨a, ha⟩ := pyIndex_isSome arguments k (h t (by simp) k hk).1 (h t (by simp) k hk).2
      rw [ha]
      simp only []
      split
      · exact ih _ _ h'
      · exact ih _ _ h'
    · exact ih _ _ h'

theorem generateReplacements_ne_none (arguments : List (List Tok)) (repls : List Tok) (start : Nat)
    (h : ∀ t ∈ repls, ∀ k, argRef t = some k → 1 ≤ k ∧ k ≤ arguments.length) :
    generateReplacements arguments repls start ≠ none := by
  unfold generateReplacements
  split
  · rename_i hc
    exact absurd hc (initCurPos_ne_none arguments repls start h)
  · exact genReplLoop_ne_none arguments repls _ [] h

/-! ### projections of `arityOk` / `macroToksOk` / `envOk` -/

theorem macroToksOk_arity (m : MacroDef) (h : macroToksOk T m = true) : arityOk m = true := by
  simp only [macroToksOk, Bool.and_eq_true] at h
  exact h.2

theorem arityOk_handler (m : MacroDef) (h : arityOk m = true) : handlerArity m.handler ≤ m.args.length := by
  simp only [arityOk, Bool.and_eq_true, decide_eq_true_eq] at h
  exact h.1.1

theorem arityOk_needsA (m : MacroDef) (h : arityOk m = true) :
    ∀ k ∈ handlerNeedsA m.handler, m.args[k]? = some 'A' := by
  simp only [arityOk, Bool.and_eq_true, List.all_eq_true] at h
  intro k hk
  simpa using h.1.2 k hk

theorem arityOk_refs (m : MacroDef) (h : arityOk m = true) :
    ∀ t ∈ m.repl ++ m.extract, ∀ k, argRef t = some k → 1 ≤ k ∧ k ≤ m.args.length := by
  simp only [arityOk, Bool.and_eq_true, List.all_eq_true] at h
  intro t ht k hk
  have := h.2 t ht
  rw [hk] at this
  simpa using this

/-- the precondition of `callHandler` for the arguments collected for a consistent definition -/
theorem HandlerArgs_of_shape (m : MacroDef) (args : List (List Tok)) (h : arityOk m = true)
    (hlen : args.length = m.args.length)
    (hA : ∀ i : Nat, m.args[i]? = some 'A' → ∃ a, args[i]? = some a ∧ a ≠ []) :
    HandlerArgs m.handler args := by
  refine ⟨?_, ?_⟩
  · rw [hlen]; exact arityOk_handler m h
  · intro k hk
    exact hA k (arityOk_needsA m h k hk)

theorem envOk_arity (e : MacroDef) (h : envOk T e = true) : handlerArity e.endFunc = 0 := by
  simp only [envOk, Bool.and_eq_true, decide_eq_true_eq] at h
  exact h.2

theorem HandlerArgs_nil (h : Handler) (h0 : handlerArity h = 0) : HandlerArgs h [] := by
  refine ⟨by rw [h0]; exact Nat.le_refl _, ?_⟩
  intro k hk
  cases h <;> simp [handlerArity, handlerNeedsA] at h0 hk

end NcEnv
end Yalafi
