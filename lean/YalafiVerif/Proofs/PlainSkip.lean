/-
  Proofs/PlainSkip.lean — C03 "nothing from … LT-SKIP regions … appears", end to end on the model,
  SOURCE LEVEL: sources that consist of inert text, ordinary `%` comments (as in
  Proofs/PlainComment.lean) and SKIPPED REGIONS — from a comment token whose text starts with
  `st.skipBegin` (`%%% LT-SKIP-BEGIN`) to the next comment token whose text starts with `st.skipEnd`
  (`%%% LT-SKIP-END`).  The document level (segments, the readable condition `hiddenOk` on the hidden
  text, the explicit reference output) is Proofs/PlainSkipSeg.lean.

  What the model does (checked against `yalafi/parser.py`, `parser_work`): the WHOLE source is
  scanned first — the hidden text, too, so a scanner error inside a region is reported although the
  region is skipped —, then the pre-pass `skipPass` walks over the token list: everything from a
  BEGIN comment token up to and including the next END comment token is deleted (a nested BEGIN
  marker is just one of the deleted tokens; an END marker without BEGIN is an ordinary comment); a
  BEGIN without END is a LaTeX error and nothing is deleted.  Only the kept tokens reach
  `expand_sequence`: no macro inside a region is expanded, recorded as unknown or able to consume
  text behind the region; no Action token is left, so `remove_pure_action_lines` is the identity.

    `isBegTok`, `isEndTok`, `begAt`   the markers
    `regionEnd`, `regionLen`          the length of a region, by running the scanner (`next_token`, as
                                      a function of the remaining text: `nextToken_indep` of
                                      Proofs/PlainSkipScan.lean) from the opening comment to the closing one
    `scanSteps_region`                the scanner loop on a region: tokens that are no END comment, then
                                      the END comment; no diagnostic
    `Piece`, `flat`, `kept`, `MarkOk`, `skipPass_one`, `skipPass_reg`, `skipPass_pieces`
                                      the skip pre-pass deletes exactly the regions
    `okAtS`, `skipTextA`, `skipText`  the class of sources (computable)
    `stripS`, `stripSkip`             the reference output: the source without regions and comments,
                                      every remaining character with its position
    `scanSteps_skip`, `scan_skip`     the scanner on a source of the class: the kept tokens form a buffer
                                      that `Comment.seq_com` handles and spell the reference
    `parserWork_skip`, `parse_skip`, `tex2txt_skip_text`   the lifts (unchanged state)

  Side conditions of `tex2txt_skip_text`
    options / fuel           no --defs, --extr, --repl, --unkn; single-language mode; `src.length + 2 ≤ fuel`
    `skipText T st1 src`     at every offset outside comments and regions:
      * an inert character (`okAtS`): `okAtC` of Proofs/PlainComment.lean (white space, or no
        structural character `% # \ $ { }` and no special sequence matches; not an active character
        of the language settings, or one that forms no short macro with the token behind it), and —
        if it IS an active character — no region starts directly behind it (the token behind it in
        the expander's buffer is then the first one behind the region; not analysed);
      * or a `%` whose comment token is an ordinary comment (`comTokOk`);
      * or a `%` whose comment token starts with the BEGIN marker and `regionLen` is `some n`: the
        scanner, run on the real rest of the source, reports no error (every `\verb` in the hidden
        text is closed on its line, every `\begin{verbatim}` has its `\end{verbatim}`) and reaches a
        comment token that starts with the END marker.  This is exact: outside it the model either
        reports a scanner diagnostic for hidden text, or does not find the END marker (LaTeX error
        "cannot find closing LaTeX comment", and the hidden text is NOT skipped).
  NOT covered: regions in multi-language mode, in `--defs` text, in files read by `\LTinput`; text
  around the regions that is more than inert text and comments.
-/
import YalafiVerif.Proofs.PlainSkipScan
namespace Yalafi
namespace Skip

open M
open Comment (commentSpan comTxt firstTokTxtC okAtC comTokOk posText notCom ComTok CSeq
  commentSpan_bounds nextToken_percent)

/-! ### the markers -/

/-- the comment token opens / closes a skipped region (`parser_work`) -/
def isBegTok (st : PState) (t : Tok) : Bool := t.kind == .comment && startsWith t.txt st.skipBegin
def isEndTok (st : PState) (t : Tok) : Bool := t.kind == .comment && startsWith t.txt st.skipEnd

/-- a comment that opens a skipped region starts at the head of the text -/
def begAt (st : PState) : Str → Bool
  | [] => false
  | c :: cs => c == '%' && startsWith (comTxt (c :: cs)) st.skipBegin

/-- `regionEnd T st fuel rest`: run the scanner on `rest` (the text behind the opening comment) up
    to and including the first comment token whose text starts with the END marker; the result is
    the number of characters passed.  `none`: a scanner error (`\verb` without closing delimiter on
    its line, `\begin{verbatim}` without `\end{verbatim}`) or no closing comment. -/
def regionEnd (T : Tables) (st : PState) : Nat → Str → Option Nat
  | 0, _ => none
  | _ + 1, [] => none
  | f + 1, c :: cs =>
    if (nextToken T [] 0 (c :: cs)).diag.isSome || (nextToken T [] 0 (c :: cs)).len == 0 then none
    else if isEndTok st (nextToken T [] 0 (c :: cs)).tok then some (nextToken T [] 0 (c :: cs)).len
    else (regionEnd T st f ((c :: cs).drop (nextToken T [] 0 (c :: cs)).len)).map
      ((nextToken T [] 0 (c :: cs)).len + ·)

/-- the number of characters of the skipped region that starts at the head of `rest` (the `%` of
    its opening comment): the opening comment token, then `regionEnd` -/
def regionLen (T : Tables) (st : PState) (rest : Str) : Option Nat :=
  (regionEnd T st (rest.drop (commentSpan rest)).length (rest.drop (commentSpan rest))).map
    (commentSpan rest + ·)

theorem isEndTok_congr (st : PState) {t t' : Tok} (hk : t.kind = t'.kind) (ht : t.txt = t'.txt) :
    isEndTok st t = isEndTok st t' := by
  simp only [isEndTok, hk, ht]

/-! ### the scanner on a region -/

theorem scanSteps_step (T : Tables) (src : Str) (fuel pos : Nat) (c : Char) (cs : Str) (s : ScanStep)
    (h : nextToken T src pos (c :: cs) = s) (hl : s.len ≠ 0) :
    scanSteps T src (fuel + 1) pos (c :: cs)
      = (s :: (scanSteps T src fuel (pos + s.len) ((c :: cs).drop s.len)).1,
         (scanSteps T src fuel (pos + s.len) ((c :: cs).drop s.len)).2) := by
  simp only [scanSteps, h]
  rw [if_neg (by simpa using hl)]

/-- the scanner loop runs through a region: tokens that do not close it, then the closing
    comment; no diagnostics -/
theorem scanSteps_region (T : Tables) (st : PState) (src : Str) :
    ∀ (f : Nat) (rest : Str) (n fuel pos : Nat), regionEnd T st f rest = some n → f ≤ fuel →
      ∃ (mid : List ScanStep) (e : ScanStep),
        scanSteps T src fuel pos rest
          = (mid ++ e :: (scanSteps T src (fuel - (mid.length + 1)) (pos + n) (rest.drop n)).1,
             (scanSteps T src (fuel - (mid.length + 1)) (pos + n) (rest.drop n)).2) ∧
        (∀ s ∈ mid, s.diag = none ∧ s.extra = [] ∧ isEndTok st s.tok = false) ∧
        e.diag = none ∧ e.extra = [] ∧ isEndTok st e.tok = true ∧ mid.length + 1 ≤ n ∧
        mid.length + 1 ≤ f := by
  intro f
  induction f with
  | zero => intro rest n fuel pos h; simp [regionEnd] at h
  | succ f ih =>
    intro rest n fuel pos h hn
    cases rest with
    | nil => simp [regionEnd] at h
    | cons c cs =>
      have I := nextToken_indep T src pos (c :: cs)
      generalize hs' : nextToken T src pos (c :: cs) = s' at I
      generalize hs : nextToken T [] 0 (c :: cs) = s at I h
      simp only [regionEnd, hs] at h
      split at h
      · cases h
      · rename_i h0
        simp only [Bool.or_eq_true, Option.isSome_iff_ne_none, ne_eq, beq_iff_eq, not_or,
          Decidable.not_not] at h0
        obtain ⟨hd, hl⟩ := h0
        obtain ⟨he1, he2, hk, ht⟩ := I.ok hd
        have hd' : s'.diag = none := by
          have := I.diag
          rw [hd] at this
          cases hx : s'.diag with
          | none => rfl
          | some _ => rw [hx] at this; cases this
        have hl' : s'.len ≠ 0 := by rw [I.len]; exact hl
        have hend : isEndTok st s'.tok = isEndTok st s.tok := isEndTok_congr st hk ht
        split at h
        · rename_i hE
          cases h
          obtain ⟨fuel', rfl⟩ : ∃ k, fuel = k + 1 := ⟨fuel - 1, by omega⟩
          have hl1 : 1 ≤ s.len := by omega
          refine ⟨[], s', ?_, by simp, hd', he1, by rw [hend]; exact hE, by simpa using hl1, by simp⟩
          rw [scanSteps_step T src fuel' pos c cs s' hs' hl', I.len]
          simp
        · rename_i hE
          cases hr : regionEnd T st f ((c :: cs).drop s.len) with
          | none => rw [hr] at h; cases h
          | some n' =>
            rw [hr] at h
            simp only [Option.map_some, Option.some.injEq] at h
            subst h
            obtain ⟨fuel', rfl⟩ : ∃ k, fuel = k + 1 := ⟨fuel - 1, by omega⟩
            obtain ⟨mid, e, h1, h2, h3, h4, h5, h6, h7⟩ := ih _ n' fuel' (pos + s.len) hr (by omega)
            have hl1 : 1 ≤ s.len := by omega
            refine ⟨s' :: mid, e, ?_, ?_, h3, h4, h5, by simp only [List.length_cons]; omega,
              by simp only [List.length_cons]; omega⟩
            · rw [scanSteps_step T src fuel' pos c cs s' hs' hl', I.len, h1]
              simp only [List.cons_append, List.length_cons, List.drop_drop]
              have e1 : fuel' + 1 - (mid.length + 1 + 1) = fuel' - (mid.length + 1) := by omega
              have e2 : pos + s.len + n' = pos + (s.len + n') := by omega
              rw [e1, e2]
            · intro x hx
              rcases List.mem_cons.mp hx with rfl | hx
              · exact ⟨hd', he1, by rw [hend]; simpa using hE⟩
              · exact h2 x hx

/-! ### the token buffers and the skip pre-pass -/

/-- the pieces of a token buffer: a token, or a region `b mid e` (opening comment, tokens that do
    not close it, closing comment) -/
inductive Piece where
  | one (t : Tok)
  | reg (b : Tok) (mid : List Tok) (e : Tok)

def Piece.toks : Piece → List Tok
  | .one t => [t]
  | .reg b mid e => b :: (mid ++ [e])

/-- the token buffer -/
def flat : List Piece → List Tok
  | [] => []
  | p :: ps => p.toks ++ flat ps

/-- the tokens outside regions -/
def kept : List Piece → List Tok
  | [] => []
  | .one t :: ps => t :: kept ps
  | .reg _ _ _ :: ps => kept ps

def nReg : List Piece → Nat
  | [] => 0
  | .one _ :: ps => nReg ps
  | .reg _ _ _ :: ps => nReg ps + 1

/-- the markers are where the pieces say -/
def MarkOk (st : PState) : List Piece → Prop
  | [] => True
  | .one t :: ps => isBegTok st t = false ∧ MarkOk st ps
  | .reg b mid e :: ps =>
    isBegTok st b = true ∧ (∀ t ∈ mid, isEndTok st t = false) ∧ isEndTok st e = true ∧ MarkOk st ps

theorem skipPass_one (st : PState) (fuel : Nat) (t : Tok) (toks out : List Tok)
    (h : isBegTok st t = false) :
    skipPass st (fuel + 1) (t :: toks) out = skipPass st (fuel + 1) toks (out ++ [t]) := by
  have h' : (t.kind == .comment && startsWith t.txt st.skipBegin) = false := h
  simp only [skipPass, List.takeWhile_cons, h', Bool.not_false, if_true, List.length_cons,
    List.drop_succ_cons, List.append_assoc, List.singleton_append]

theorem skipPass_reg (st : PState) (fuel : Nat) (b e : Tok) (mid toks out : List Tok)
    (hb : isBegTok st b = true) (hm : ∀ t ∈ mid, isEndTok st t = false) (he : isEndTok st e = true) :
    skipPass st (fuel + 1) (b :: (mid ++ e :: toks)) out = skipPass st fuel toks out := by
  have hb' : (b.kind == .comment && startsWith b.txt st.skipBegin) = true := hb
  have hmid : (mid ++ e :: toks).takeWhile
      (fun t => !(t.kind == .comment && startsWith t.txt st.skipEnd)) = mid := by
    rw [List.takeWhile_append_of_pos (by
      intro t ht
      have := hm t ht
      simp only [isEndTok] at this
      simp [this])]
    have he' : (e.kind == .comment && startsWith e.txt st.skipEnd) = true := he
    rw [List.takeWhile_cons, he']
    simp
  simp only [skipPass, List.takeWhile_cons, hb', Bool.not_true, Bool.false_eq_true, if_false,
    List.length_nil, List.drop_zero, hmid, List.drop_left, List.append_nil]

/-- **the skip pre-pass of `parser_work`** deletes the regions and nothing else -/
theorem skipPass_pieces (st : PState) : ∀ (ps : List Piece) (fuel : Nat) (out : List Tok),
    nReg ps + 1 ≤ fuel → MarkOk st ps → skipPass st fuel (flat ps) out = (out ++ kept ps, none, [])
  | [], fuel, out, hf, _ => by
    obtain ⟨f, rfl⟩ : ∃ f, fuel = f + 1 := ⟨fuel - 1, by simp [nReg] at hf; omega⟩
    simp [flat, kept, skipPass]
  | .one t :: ps, fuel, out, hf, h => by
    obtain ⟨f, rfl⟩ : ∃ f, fuel = f + 1 := ⟨fuel - 1, by simp [nReg] at hf; omega⟩
    simp only [flat, Piece.toks, List.singleton_append, kept]
    rw [skipPass_one st f t _ out h.1, skipPass_pieces st ps (f + 1) _ (by simpa [nReg] using hf) h.2]
    simp
  | .reg b mid e :: ps, fuel, out, hf, h => by
    obtain ⟨f, rfl⟩ : ∃ f, fuel = f + 1 := ⟨fuel - 1, by simp [nReg] at hf; omega⟩
    have hflat : flat (.reg b mid e :: ps) = b :: (mid ++ e :: flat ps) := by
      simp [flat, Piece.toks]
    rw [hflat, skipPass_reg st f b e mid _ out h.1 h.2.1 h.2.2.1,
      skipPass_pieces st ps f out (by simp only [nReg] at hf; omega) h.2.2.2]
    rfl

theorem nReg_le_flat : ∀ ps : List Piece, nReg ps ≤ (flat ps).length
  | [] => by simp [nReg]
  | .one t :: ps => by have := nReg_le_flat ps; simp [nReg, flat, Piece.toks]; omega
  | .reg b mid e :: ps => by have := nReg_le_flat ps; simp [nReg, flat, Piece.toks]; omega

theorem kept_le_flat : ∀ ps : List Piece, (kept ps).length ≤ (flat ps).length
  | [] => by simp [kept]
  | .one t :: ps => by have := kept_le_flat ps; simp [kept, flat, Piece.toks]; omega
  | .reg b mid e :: ps => by have := kept_le_flat ps; simp [kept, flat, Piece.toks]; omega

/-! ### the class of sources and the reference output -/

/-- the text character `c`, followed by `cs` (the whole rest of the source), is inert (`okAtC` of
    Proofs/PlainComment.lean), and if it is an active character of the language settings then no
    skipped region starts directly behind it (the token that follows it in the expander's buffer
    would be the first one behind the region) -/
def okAtS (T : PTables) (st : PState) (c : Char) (cs : Str) : Bool :=
  okAtC T st c cs && (!(activeChars T st).contains [c] || !begAt st cs)

/-- the class of texts: at every offset that is not inside a comment or a skipped region there is
    * a `%` that opens a skipped region (the text of its comment token starts with
      `st.skipBegin`) whose end the scanner finds (`regionLen`), or
    * a `%` that starts an ordinary comment (`comTokOk`), or
    * an inert character (`okAtS`) -/
def skipTextA (T : PTables) (st : PState) : Nat → Str → Bool
  | _, [] => true
  | skip + 1, _ :: cs => skipTextA T st skip cs
  | 0, c :: cs =>
    if c == '%' then
      if startsWith (comTxt (c :: cs)) st.skipBegin then
        match regionLen T.toTables st (c :: cs) with
        | some n => skipTextA T st (n - 1) cs
        | none => false
      else comTokOk T st (comTxt (c :: cs)) && skipTextA T st (commentSpan (c :: cs) - 1) cs
    else okAtS T st c cs && skipTextA T st 0 cs

def skipText (T : PTables) (st : PState) (s : Str) : Bool := skipTextA T st 0 s

/-- reference: delete the skipped regions and the comments; every other character is kept with its
    own position -/
def stripS (T : Tables) (st : PState) : Nat → Str → Nat → List (Char × Nat)
  | _, [], _ => []
  | skip + 1, _ :: cs, i => stripS T st skip cs (i + 1)
  | 0, c :: cs, i =>
    if c == '%' then
      if startsWith (comTxt (c :: cs)) st.skipBegin then
        match regionLen T st (c :: cs) with
        | some n => stripS T st (n - 1) cs (i + 1)
        | none => []
      else stripS T st (commentSpan (c :: cs) - 1) cs (i + 1)
    else (c, i) :: stripS T st 0 cs (i + 1)

theorem stripS_nil (T : Tables) (st : PState) (n i : Nat) : stripS T st n [] i = [] := by
  cases n <;> rfl

theorem stripS_skip (T : Tables) (st : PState) : ∀ (n : Nat) (s : Str) (i : Nat),
    stripS T st n s i = stripS T st 0 (s.drop n) (i + n)
  | 0, s, i => by simp
  | n + 1, [], i => by simp [stripS_nil]
  | n + 1, c :: cs, i => by
    rw [stripS, stripS_skip T st n cs (i + 1)]
    simp [Nat.add_assoc, Nat.add_comm 1 n]

theorem skipTextA_nil (T : PTables) (st : PState) (n : Nat) : skipTextA T st n [] = true := by
  cases n <;> rfl

theorem skipTextA_skip (T : PTables) (st : PState) : ∀ (n : Nat) (s : Str),
    skipTextA T st n s = skipTextA T st 0 (s.drop n)
  | 0, s => by simp
  | n + 1, [] => by simp [skipTextA_nil]
  | n + 1, c :: cs => by
    rw [skipTextA, skipTextA_skip T st n cs]
    simp

theorem regionLen_pos {T : Tables} {st : PState} {c : Char} {cs : Str} {n : Nat}
    (h : regionLen T st (c :: cs) = some n) : 1 ≤ n := by
  unfold regionLen at h
  cases hr : regionEnd T st ((c :: cs).drop (commentSpan (c :: cs))).length
      ((c :: cs).drop (commentSpan (c :: cs))) with
  | none => rw [hr] at h; cases h
  | some k =>
    rw [hr] at h
    simp only [Option.map_some, Option.some.injEq] at h
    have := (commentSpan_bounds c cs).1
    omega

theorem strip_char (T : Tables) (st : PState) (c : Char) (cs : Str) (i : Nat) (h : c ≠ '%') :
    stripS T st 0 (c :: cs) i = (c, i) :: stripS T st 0 cs (i + 1) := by
  simp [stripS, h]

theorem strip_com (T : Tables) (st : PState) (cs : Str) (i : Nat)
    (h : startsWith (comTxt ('%' :: cs)) st.skipBegin = false) :
    stripS T st 0 ('%' :: cs) i
      = stripS T st 0 (('%' :: cs).drop (commentSpan ('%' :: cs))) (i + commentSpan ('%' :: cs)) := by
  obtain ⟨k, hk⟩ : ∃ k, commentSpan ('%' :: cs) = k + 1 :=
    ⟨commentSpan ('%' :: cs) - 1, by have := (commentSpan_bounds '%' cs).1; omega⟩
  simp only [stripS, beq_self_eq_true, if_true, h, Bool.false_eq_true, if_false]
  rw [stripS_skip, hk]
  simp [Nat.add_assoc, Nat.add_comm 1 k]

theorem strip_reg (T : Tables) (st : PState) (cs : Str) (i n : Nat)
    (h : startsWith (comTxt ('%' :: cs)) st.skipBegin = true)
    (hn : regionLen T st ('%' :: cs) = some n) :
    stripS T st 0 ('%' :: cs) i = stripS T st 0 (('%' :: cs).drop n) (i + n) := by
  obtain ⟨k, hk⟩ : ∃ k, n = k + 1 := ⟨n - 1, by have := regionLen_pos hn; omega⟩
  simp only [stripS, beq_self_eq_true, if_true, h, hn]
  rw [stripS_skip, hk]
  simp [Nat.add_assoc, Nat.add_comm 1 k]

theorem skipText_char (T : PTables) (st : PState) (c : Char) (cs : Str) (hc : c ≠ '%')
    (h : skipTextA T st 0 (c :: cs) = true) :
    okAtS T st c cs = true ∧ skipTextA T st 0 cs = true := by
  simpa [skipTextA, hc] using h

theorem skipText_com (T : PTables) (st : PState) (cs : Str)
    (hb : startsWith (comTxt ('%' :: cs)) st.skipBegin = false)
    (h : skipTextA T st 0 ('%' :: cs) = true) :
    comTokOk T st (comTxt ('%' :: cs)) = true ∧
    skipTextA T st 0 (('%' :: cs).drop (commentSpan ('%' :: cs))) = true := by
  obtain ⟨k, hk⟩ : ∃ k, commentSpan ('%' :: cs) = k + 1 :=
    ⟨commentSpan ('%' :: cs) - 1, by have := (commentSpan_bounds '%' cs).1; omega⟩
  simp only [skipTextA, beq_self_eq_true, if_true, hb, Bool.false_eq_true, if_false,
    Bool.and_eq_true] at h
  rw [skipTextA_skip, hk] at h
  rw [hk]
  simpa using h

theorem skipText_reg (T : PTables) (st : PState) (cs : Str)
    (hb : startsWith (comTxt ('%' :: cs)) st.skipBegin = true)
    (h : skipTextA T st 0 ('%' :: cs) = true) :
    ∃ n, regionLen T.toTables st ('%' :: cs) = some n ∧
      skipTextA T st 0 (('%' :: cs).drop n) = true := by
  simp only [skipTextA, beq_self_eq_true, if_true, hb] at h
  cases hr : regionLen T.toTables st ('%' :: cs) with
  | none => rw [hr] at h; cases h
  | some n =>
    rw [hr] at h
    simp only [] at h
    obtain ⟨k, hk⟩ : ∃ k, n = k + 1 := ⟨n - 1, by have := regionLen_pos hr; omega⟩
    rw [skipTextA_skip, hk] at h
    exact ⟨n, rfl, by rw [hk]; simpa using h⟩

theorem okAtS_okAtC {T : PTables} {st : PState} {c : Char} {cs : Str} (h : okAtS T st c cs = true) :
    okAtC T st c cs = true := by
  simp only [okAtS, Bool.and_eq_true] at h
  exact h.1

/-- a run of characters without `%` in a text of the class -/
theorem drop_text (T : PTables) (st : PState) : ∀ (k : Nat) (s : Str),
    (∀ x ∈ s.take k, x ≠ '%') →
    (skipTextA T st 0 s = true → skipTextA T st 0 (s.drop k) = true) ∧
    (∀ i, stripS T.toTables st 0 s i = posText i (s.take k) ++ stripS T.toTables st 0 (s.drop k) (i + k))
  | 0, s, _ => by simp [posText]
  | k + 1, [], _ => by simp [posText, stripS]
  | k + 1, c :: cs, hx => by
    have hc : c ≠ '%' := hx c (by simp)
    obtain ⟨i1, i2⟩ := drop_text T st k cs (fun x hx' => hx x (by simp [hx']))
    refine ⟨fun h => ?_, fun i => ?_⟩
    · simpa using i1 (skipText_char T st c cs hc h).2
    · rw [strip_char _ _ c cs i hc, i2 (i + 1)]
      simp [posText, Nat.add_assoc, Nat.add_comm 1 k]

/-! ### the scanner loop -/

theorem begAt_percent (st : PState) (cs : Str) :
    begAt st ('%' :: cs) = startsWith (comTxt ('%' :: cs)) st.skipBegin := by
  simp [begAt]

theorem begAt_char (st : PState) (c : Char) (cs : Str) (h : c ≠ '%') : begAt st (c :: cs) = false := by
  simp [begAt, h]

/-- what the scanner loop yields on a text of the class -/
structure ScanFacts (T : PTables) (st : PState) (pos : Nat) (rest : Str) (steps : List ScanStep) :
    Prop where
  ok : ∀ s ∈ steps, s.diag = none ∧ s.extra = []
  pieces : ∃ ps, steps.map (·.tok) = flat ps ∧ MarkOk st ps ∧ CSeq T st (kept ps) ∧
    (∀ t ∈ kept ps, t.txt ≠ [] ∧ t.fix = false) ∧
    getTxtPos ((kept ps).filter notCom)
      = ((stripS T.toTables st 0 rest pos).map (·.1), (stripS T.toTables st 0 rest pos).map (·.2)) ∧
    (∀ t ts, kept ps = t :: ts → begAt st rest = false → t.txt = firstTokTxtC rest) ∧
    (kept ps).length ≤ rest.length

theorem ScanFacts_nil (T : PTables) (st : PState) (pos : Nat) : ScanFacts T st pos [] [] :=
  ⟨by simp, ⟨[], rfl, trivial, trivial, by simp [kept], by simp [kept, getTxtPos, stripS],
    by simp [kept], by simp [kept]⟩⟩

/-- the scanner loop on a text of the class: complete, no diagnostics (not even inside the skipped
    regions); the token buffer consists of tokens outside regions — plain tokens and ordinary
    comments, a buffer `Comment.seq_com` handles — and regions; the kept tokens that are no comments
    spell the reference output, with the source positions -/
theorem scanSteps_skip (T : PTables) (st : PState) (src : Str) :
    ∀ (n fuel pos : Nat) (rest : Str), rest.length ≤ n → rest.length ≤ fuel →
    skipTextA T st 0 rest = true →
    (scanSteps T.toTables src fuel pos rest).2 = true ∧
    ScanFacts T st pos rest (scanSteps T.toTables src fuel pos rest).1 := by
  intro n
  induction n with
  | zero =>
    intro fuel pos rest hn _ _
    cases rest with
    | nil => exact ⟨by simp [scanSteps], by simpa [scanSteps] using ScanFacts_nil T st pos⟩
    | cons c cs => simp at hn
  | succ n ih =>
    intro fuel pos rest hn hf hin
    cases rest with
    | nil => exact ⟨by simp [scanSteps], by simpa [scanSteps] using ScanFacts_nil T st pos⟩
    | cons c cs =>
      obtain ⟨fuel, rfl⟩ : ∃ f, fuel = f + 1 := ⟨fuel - 1, by simp at hf; omega⟩
      by_cases hpc : c = '%'
      · subst hpc
        obtain ⟨b1, b2⟩ := commentSpan_bounds '%' cs
        have hne : comTxt ('%' :: cs) ≠ [] := by
          intro h0
          have := congrArg List.length h0
          simp only [comTxt, List.length_take, List.length_nil] at this
          omega
        have hhead : ∃ tl, comTxt ('%' :: cs) = '%' :: tl := by
          obtain ⟨k, hk⟩ : ∃ k, commentSpan ('%' :: cs) = k + 1 := ⟨commentSpan ('%' :: cs) - 1, by omega⟩
          exact ⟨cs.take k, by simp [comTxt, hk]⟩
        cases hb : startsWith (comTxt ('%' :: cs)) st.skipBegin with
        | true =>
          -- a skipped region
          obtain ⟨m, hm, hsub⟩ := skipText_reg T st cs hb hin
          unfold regionLen at hm
          cases hr : regionEnd T.toTables st (('%' :: cs).drop (commentSpan ('%' :: cs))).length
              (('%' :: cs).drop (commentSpan ('%' :: cs))) with
          | none => rw [hr] at hm; cases hm
          | some k =>
            have hm0 := hm
            rw [hr] at hm
            simp only [Option.map_some, Option.some.injEq] at hm
            subst hm
            have hl0 : (('%' :: cs).drop (commentSpan ('%' :: cs))).length ≤ fuel := by
              simp only [List.length_drop]; simp only [List.length_cons] at hf b2 ⊢; omega
            obtain ⟨mid, e, h1, h2, h3, h4, h5, h6, h7⟩ := scanSteps_region T.toTables st src _ _ k fuel
              (pos + commentSpan ('%' :: cs)) hr hl0
            have hdrop : (('%' :: cs).drop (commentSpan ('%' :: cs))).drop k
                = ('%' :: cs).drop (commentSpan ('%' :: cs) + k) := by
              rw [List.drop_drop]
            have hl1 : (('%' :: cs).drop (commentSpan ('%' :: cs) + k)).length ≤ fuel - (mid.length + 1) := by
              simp only [List.length_drop] at h7 ⊢; simp only [List.length_cons] at hf h7 ⊢; omega
            have hl2 : (('%' :: cs).drop (commentSpan ('%' :: cs) + k)).length ≤ n := by
              simp only [List.length_drop]; simp only [List.length_cons] at hn ⊢; omega
            obtain ⟨i1, I⟩ := ih (fuel - (mid.length + 1)) (pos + (commentSpan ('%' :: cs) + k)) _ hl2 hl1 hsub
            obtain ⟨ps', p1, p2, p3, p4, p5, p6, p7⟩ := I.pieces
            rw [scanSteps_step T.toTables src fuel pos '%' cs _ (nextToken_percent T src pos cs)
              (by simp; omega)]
            simp only []
            rw [h1, hdrop, Nat.add_assoc]
            refine ⟨i1, ?_, ?_⟩
            · intro x hx
              simp only [List.mem_cons, List.mem_append] at hx
              rcases hx with rfl | hx | rfl | hx
              · exact ⟨rfl, rfl⟩
              · exact ⟨(h2 x hx).1, (h2 x hx).2.1⟩
              · exact ⟨h3, h4⟩
              · exact I.ok x hx
            · refine ⟨.reg { kind := .comment, pos := pos, txt := comTxt ('%' :: cs) }
                  (mid.map (·.tok)) e.tok :: ps', ?_, ?_, ?_, ?_, ?_, ?_, ?_⟩
              · simp [flat, Piece.toks, p1]
              · refine ⟨by simp [isBegTok, hb], ?_, h5, p2⟩
                intro t ht
                obtain ⟨x, hx, rfl⟩ := List.mem_map.mp ht
                exact (h2 x hx).2.2
              · exact p3
              · exact p4
              · simp only [kept]
                rw [p5, strip_reg T.toTables st cs pos _ hb hm0]
              · intro t ts _ hbeg
                rw [begAt_percent, hb] at hbeg
                cases hbeg
              · simp only [kept, List.length_drop, List.length_cons] at p7 ⊢
                omega
        | false =>
          -- an ordinary comment
          obtain ⟨hck, hsub⟩ := skipText_com T st cs hb hin
          have hl : (('%' :: cs).drop (commentSpan ('%' :: cs))).length ≤ fuel := by
            simp only [List.length_drop]; simp only [List.length_cons] at hf b2 ⊢; omega
          have hl' : (('%' :: cs).drop (commentSpan ('%' :: cs))).length ≤ n := by
            simp only [List.length_drop]; simp only [List.length_cons] at hn b2 ⊢; omega
          rw [scanSteps_step T.toTables src fuel pos '%' cs _ (nextToken_percent T src pos cs)
            (by simp; omega)]
          simp only []
          obtain ⟨i1, I⟩ := ih fuel (pos + commentSpan ('%' :: cs)) _ hl' hl hsub
          obtain ⟨ps', p1, p2, p3, p4, p5, p6, p7⟩ := I.pieces
          simp only [comTokOk, Bool.and_eq_true, Bool.not_eq_true'] at hck
          have hct : ComTok T st { kind := .comment, pos := pos, txt := comTxt ('%' :: cs) } :=
            ⟨rfl, hhead, hck.1, hck.2⟩
          refine ⟨i1, ?_, ?_⟩
          · intro x hx
            rcases List.mem_cons.mp hx with rfl | hx
            · exact ⟨rfl, rfl⟩
            · exact I.ok x hx
          · refine ⟨.one { kind := .comment, pos := pos, txt := comTxt ('%' :: cs) } :: ps',
              by simp [flat, Piece.toks, p1], ⟨by simp [isBegTok, hb], p2⟩, ⟨Or.inr hct, p3⟩, ?_, ?_, ?_, ?_⟩
            · intro t ht
              simp only [kept, List.mem_cons] at ht
              rcases ht with rfl | ht
              · exact ⟨hne, rfl⟩
              · exact p4 t ht
            · simp only [kept, List.filter_cons, hct.notCom, Bool.false_eq_true, if_false]
              rw [p5, strip_com T.toTables st cs pos hb]
            · intro t ts he _
              simp only [kept, List.cons.injEq] at he
              rw [← he.1]
              simp [firstTokTxtC, show isSpace '%' = false by decide]
            · simp only [kept, List.length_cons, List.length_drop] at p7 b2 ⊢
              omega
      · -- a text character
        obtain ⟨hatS, _⟩ := skipText_char T st c cs hpc hin
        have hat := okAtS_okAtC hatS
        have hsnd := Comment.okAtC_snd hat
        obtain ⟨hp, hone⟩ := Comment.nextToken_text T src pos c cs hsnd
        generalize hs : nextToken T.toTables src pos (c :: cs) = s at hp hone
        have h1 := hp.len_pos
        have h2 := hp.len_le
        have hnp : ∀ x ∈ (c :: cs).take s.len, x ≠ '%' := by
          intro x hx
          by_cases hsp : isSpace c = true
          · rw [← hp.txt, hp.first] at hx
            simp only [firstTokTxt, hsp, if_true] at hx
            exact Comment.isSpace_ne_percent (Comment.mem_takeWhile_imp _ _ _ hx)
          · rw [hone (by simpa using hsp)] at hx
            simp only [List.take_succ_cons, List.take_zero, List.mem_singleton] at hx
            rw [hx]; exact hpc
        obtain ⟨d1, d2⟩ := drop_text T st s.len (c :: cs) hnp
        rw [scanSteps_step T.toTables src fuel pos c cs s hs (by omega)]
        simp only []
        have hl : ((c :: cs).drop s.len).length ≤ fuel := by
          simp only [List.length_drop]; simp only [List.length_cons] at hf h2 ⊢; omega
        have hl' : ((c :: cs).drop s.len).length ≤ n := by
          simp only [List.length_drop]; simp only [List.length_cons] at hn h2 ⊢; omega
        obtain ⟨i1, I⟩ := ih fuel (pos + s.len) ((c :: cs).drop s.len) hl' hl (d1 hin)
        obtain ⟨ps', p1, p2, p3, p4, p5, p6, p7⟩ := I.pieces
        have hne : s.tok.txt ≠ [] := by
          rw [hp.txt]
          intro h0
          have := congrArg List.length h0
          simp only [List.length_take, List.length_nil] at this
          omega
        refine ⟨i1, ?_, ?_⟩
        · intro x hx
          rcases List.mem_cons.mp hx with rfl | hx
          · exact ⟨hp.diag, hp.extra⟩
          · exact I.ok x hx
        · refine ⟨.one s.tok :: ps', by simp [flat, Piece.toks, p1],
            ⟨by simp [isBegTok, hp.tok.notComment], p2⟩, ⟨Or.inl ⟨hp.tok, ?_⟩, p3⟩, ?_, ?_, ?_, ?_⟩
          · -- the short-macro branch
            have hact := hat
            simp only [okAtC, Bool.and_eq_true, Bool.or_eq_true, Bool.not_eq_true'] at hact
            rcases hact.1 with hna | ⟨hns, hk⟩
            · left
              have : s.tok.txt = c :: (cs.take (s.len - 1)) := by
                rw [hp.txt]
                obtain ⟨k, hk⟩ : ∃ k, s.len = k + 1 := ⟨s.len - 1, by omega⟩
                rw [hk]; simp
              rw [this]
              exact not_active_cons T st c _ hna
            · cases hac : (activeChars T st).contains [c] with
              | false =>
                left
                have : s.tok.txt = c :: (cs.take (s.len - 1)) := by
                  rw [hp.txt]
                  obtain ⟨k, hk⟩ : ∃ k, s.len = k + 1 := ⟨s.len - 1, by omega⟩
                  rw [hk]; simp
                rw [this]
                exact not_active_cons T st c _ hac
              | true =>
                right
                have hbeg : begAt st cs = false := by
                  simp only [okAtS, Bool.and_eq_true, Bool.or_eq_true, Bool.not_eq_true', hac] at hatS
                  rcases hatS.2 with h | h
                  · cases h
                  · exact h
                have hlen := hone hns
                have htxt : s.tok.txt = [c] := by rw [hp.txt, hlen]; rfl
                rw [hlen] at p6 p7
                simp only [List.drop_succ_cons, List.drop_zero] at p6 p7
                cases hr : kept ps' with
                | nil => rfl
                | cons t2 ts =>
                  apply expandShortMacro_none
                  rw [htxt, p6 t2 ts hr hbeg]
                  rcases hk with hk | hk
                  · cases cs with
                    | nil => rw [hr] at p7; simp at p7
                    | cons => simp at hk
                  · simpa using hk
          · intro t ht
            simp only [kept, List.mem_cons] at ht
            rcases ht with rfl | ht
            · exact ⟨hne, hp.fix⟩
            · exact p4 t ht
          · simp only [kept, List.filter_cons, Comment.notCom_plain hp.tok, if_true]
            rw [getTxtPos_cons_plain _ _ hp.fix, p5, hp.pos, hp.txt, d2 pos, Comment.unzip_posText_append]
          · intro t ts he _
            simp only [kept, List.cons.injEq] at he
            rw [← he.1, hp.first]
            exact (Comment.firstTokTxtC_of_text c cs hpc).symm
          · simp only [kept, List.length_cons, List.length_drop] at p7 h2 ⊢
            omega

/-- `scan` on a text of the class -/
theorem scan_skip (T : PTables) (st : PState) (src : Str) (h : skipText T st src = true) :
    (scan T.toTables src).diags = [] ∧
    ∃ ps, (scan T.toTables src).toks = flat ps ∧ MarkOk st ps ∧ CSeq T st (kept ps) ∧
      (∀ t ∈ kept ps, t.txt ≠ [] ∧ t.fix = false) ∧
      getTxtPos ((kept ps).filter notCom)
        = ((stripS T.toTables st 0 src 0).map (·.1), (stripS T.toTables st 0 src 0).map (·.2)) ∧
      (kept ps).length ≤ src.length := by
  obtain ⟨_, F⟩ := scanSteps_skip T st src src.length src.length 0 src (Nat.le_refl _) (Nat.le_refl _) h
  have he := flatten_tok_extra (scanSteps T.toTables src src.length 0 src).1 (fun s hs => (F.ok s hs).2)
  have hd := flatten_diag_nil (scanSteps T.toTables src src.length 0 src).1 (fun s hs => (F.ok s hs).1)
  obtain ⟨ps, p1, p2, p3, p4, p5, _, p7⟩ := F.pieces
  simp only [scan]
  rw [he, hd]
  exact ⟨rfl, ps, p1, p2, p3, p4, p5, p7⟩

/-! ### `parserWork`, `parse`, `tex2txt` -/

/-- the reference output: the characters of `src` outside skipped regions and comments, each with
    its (0-based) source position -/
def stripSkip (T : Tables) (st : PState) (src : Str) : List (Char × Nat) := stripS T st 0 src 0

theorem MarkOk.congr {st st' : PState} (hb : st'.skipBegin = st.skipBegin)
    (he : st'.skipEnd = st.skipEnd) : ∀ {ps : List Piece}, MarkOk st ps → MarkOk st' ps
  | [], _ => trivial
  | .one t :: ps, h => ⟨by simpa [isBegTok, hb] using h.1, MarkOk.congr hb he h.2⟩
  | .reg b mid e :: ps, h =>
    ⟨by simpa [isBegTok, hb] using h.1, by simpa [isEndTok, he] using h.2.1,
     by simpa [isEndTok, he] using h.2.2.1, MarkOk.congr hb he h.2.2.2⟩

/-- **skipped regions on `parserWork`.**  On a text of the class `parserWork` returns the scanner
    tokens outside the regions without the comment tokens, and the *unchanged* state (no diagnostic,
    no unknown — the tokens inside the regions never reach the expander). -/
theorem parserWork_skip (T : PTables) (st : PState) (src : Str) (fuel : Nat)
    (hf : src.length + 2 ≤ fuel) (h : skipText T st src = true) :
    ∃ r, parserWork T fuel src st = .ok (r, st) ∧
      getTxtPos r = ((stripSkip T.toTables st src).map (·.1), (stripSkip T.toTables st src).map (·.2)) := by
  obtain ⟨f, rfl⟩ : ∃ f, fuel = f + 1 := ⟨fuel - 1, by omega⟩
  obtain ⟨hd, ps, hflat, hmark, hseq, ht, htp, hl⟩ := scan_skip T st src h
  refine ⟨(kept ps).filter notCom, ?_, htp⟩
  let st' : PState := { st with latex := src, nest := st.nest + 1 }
  rw [parserWork.eq_2]
  refine (M.bind_ok _ _ _ _ _ (rfl : M.get st = _)).trans ?_
  refine (M.bind_ok _ _ _ _ _ (rfl : M.modify _ _ = _)).trans ?_
  refine (M.bind_ok _ _ _ _ _ (rfl : M.modify _ _ = _)).trans ?_
  refine (M.bind_ok _ _ _ _ _ (rfl : M.get _ = _)).trans ?_
  simp only [hd, List.append_nil]
  rw [hflat, skipPass_pieces st' ps _ [] (by have := nReg_le_flat ps; omega)
    (MarkOk.congr (st := st) (st' := st') rfl rfl hmark)]
  simp only [List.nil_append]
  refine (M.bind_ok _ _ _ _ _ (rfl : (pure _ : M (List Tok)) _ = _)).trans ?_
  have hseq' : CSeq T st' (kept ps) := CSeq.congr (st := st) (st' := st') rfl rfl hseq
  have hs := Comment.seq_com_id T st' none _ f (by omega) hseq' (fun t ht' => (ht t ht').1)
  refine (M.bind_ok _ _ _ _ _ hs).trans ?_
  refine (M.bind_ok _ _ _ _ _ (rfl : M.modify _ _ = _)).trans ?_
  show Outcome.ok _ = _
  simp only [st', Nat.add_sub_cancel]

theorem begAt_congr (st st' : PState) (hs : st'.skipBegin = st.skipBegin) (s : Str) :
    begAt st' s = begAt st s := by
  cases s <;> simp [begAt, hs]

theorem regionEnd_congr (T : Tables) (st st' : PState) (he : st'.skipEnd = st.skipEnd) :
    ∀ (f : Nat) (s : Str), regionEnd T st' f s = regionEnd T st f s
  | 0, _ => rfl
  | _ + 1, [] => rfl
  | f + 1, c :: cs => by
    simp only [regionEnd, isEndTok, he, regionEnd_congr T st st' he f]
    rfl

theorem regionLen_congr (T : Tables) (st st' : PState) (he : st'.skipEnd = st.skipEnd) (s : Str) :
    regionLen T st' s = regionLen T st s := by
  simp only [regionLen, regionEnd_congr T st st' he]

/-- the class depends on the state only through the language stack and the skip markers -/
theorem skipTextA_congr (T : PTables) (st st' : PState) (hl : st'.langStack = st.langStack)
    (hs : st'.skipBegin = st.skipBegin) (he : st'.skipEnd = st.skipEnd) :
    ∀ (s : Str) (n : Nat), skipTextA T st' n s = skipTextA T st n s := by
  intro s
  induction s with
  | nil => intro n; rw [skipTextA_nil, skipTextA_nil]
  | cons c cs ih =>
    intro n
    cases n with
    | succ n => simp only [skipTextA, ih]
    | zero =>
      simp only [skipTextA, okAtS, okAtC, comTokOk, activeChars_congr T st st' hl,
        shortKeys_congr T st st' hl, hs, regionLen_congr T.toTables st st' he, begAt_congr st st' hs, ih]

theorem stripS_congr (T : Tables) (st st' : PState)
    (hs : st'.skipBegin = st.skipBegin) (he : st'.skipEnd = st.skipEnd) :
    ∀ (s : Str) (n i : Nat), stripS T st' n s i = stripS T st n s i := by
  intro s
  induction s with
  | nil => intro n i; rw [stripS_nil, stripS_nil]
  | cons c cs ih =>
    intro n i
    cases n with
    | succ n => simp only [stripS, ih]
    | zero => simp only [stripS, hs, regionLen_congr T st st' he, ih]

theorem parse_skip (T : PTables) (st : PState) (src : Str) (fuel : Nat)
    (hf : src.length + 2 ≤ fuel) (h : skipText T st src = true) :
    ∃ r, parse T fuel src [] [] st
        = .ok (r, { st with extracted := [], unknowns := [], foreign := false, nest := 0 }) ∧
      getTxtPos r = ((stripSkip T.toTables st src).map (·.1), (stripSkip T.toTables st src).map (·.2)) := by
  obtain ⟨r, hw, hr⟩ := parserWork_skip T
    { st with extracted := [], unknowns := [], foreign := false, nest := 0 } src fuel hf
    ((skipTextA_congr T st
      { st with extracted := [], unknowns := [], foreign := false, nest := 0 } rfl rfl rfl src 0).trans h)
  refine ⟨r, ?_, ?_⟩
  · unfold parse
    simp only [List.isEmpty_nil, Bool.not_true, Bool.false_eq_true, if_false, if_true]
    refine (M.bind_ok _ _ _ _ _ (rfl : M.modify _ _ = _)).trans ?_
    refine (M.bind_ok _ _ _ _ _ (rfl : (pure _ : M (List Tok)) _ = _)).trans ?_
    refine (M.bind_ok _ _ _ _ _ (rfl : M.modify _ _ = _)).trans ?_
    refine (M.bind_ok _ _ _ _ _ hw).trans ?_
    refine (M.bind_ok _ _ _ _ _ (rfl : M.get _ = _)).trans ?_
    show Outcome.ok _ = _
    simp
  · have e := stripS_congr T.toTables st
      { st with extracted := [], unknowns := [], foreign := false, nest := 0 } rfl rfl src 0 0
    rw [hr]
    simp only [stripSkip]
    rw [e]

/-- **Skipped regions on `tex2txt`, complete result record (source form).**  `st1` is the state
    after `Parser.__init__`; no `--defs`, `--extr`, `--repl`, `--unkn`; single-language mode. -/
theorem tex2txt_skip_text (T : PTables) (o : Options) (fs : FS) (thresh : Nat) (src : Str)
    (fuel : Nat) (st1 : PState)
    (hdefs : o.defs = []) (hextr : o.extr = []) (hrepl : o.hasRepl = false)
    (hunkn : o.unkn = false)
    (hinit : initParser T fuel o (initialState T o false fs) = .ok ((), st1))
    (h : skipText T st1 src = true) (hf : src.length + 2 ≤ fuel) :
    ∃ toks, tex2txt T fuel src o false thresh fs
      = .ok { toks := toks, txt := (stripSkip T.toTables st1 src).map (·.1),
              pos := (stripSkip T.toTables st1 src).map (·.2 + 1), parts := [], unknowns := [],
              diags := st1.diags, foreign := false } := by
  obtain ⟨r, hp, hr⟩ := parse_skip T st1 src fuel hf h
  refine ⟨r, ?_⟩
  have hrun : (initParser T fuel o >>= fun _ => parse T fuel src o.defs
        (if o.extr.isEmpty then [] else (splitOn ',' o.extr []).map (fun s => '\\' :: s)))
        (initialState T o false fs)
      = .ok (r, { st1 with extracted := [], unknowns := [], foreign := false, nest := 0 }) := by
    refine (M.bind_ok _ _ _ _ _ hinit).trans ?_
    rw [hdefs, hextr]
    exact hp
  unfold tex2txt
  simp only []
  rw [hrun]
  simp only [hrepl, hunkn, Bool.not_false, if_true, Bool.false_eq_true, if_false, hr, List.map_map]
  rfl

end Skip
end Yalafi
