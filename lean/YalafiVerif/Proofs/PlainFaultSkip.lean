/-
  Proofs/PlainFaultSkip.lean — C08 at an UNCLOSED SKIP COMMENT (`%%% LT-SKIP-BEGIN` without
  `%%% LT-SKIP-END`), end to end on the model.

  Document: `pre ++ %body ++ post` — `pre`, `post` inert text (so there is no comment token in
  `post`, in particular no `%%% LT-SKIP-END`); `%body` is exactly the comment token the scanner
  reads at the `%` (`commentLen`: the rest of the line, and — unless a blank line follows — the line
  break and the white space at the start of the next line) and starts with the marker
  `st1.skipBegin` (`%%% LT-SKIP-BEGIN` unless `--nosp`).

  What the model (= the pre-pass of `Parser.parser_work`) does: it looks for the closing comment in
  the scanned tokens, does not find it, calls `latex_error('cannot find closing LaTeX comment ' +
  repr(skip_end), pos of the opening comment)` and REPLACES THE OPENING COMMENT TOKEN by the mark
  tokens; everything behind it is kept and expanded as usual.  No Action token arises: no condition
  on the mark.

  `skipPass_open`, `parserWork_skip`     the pre-pass
  `tex2txt_skip_unclosed`                end to end

  Side conditions (reasons)
    `pre`, `post`    inert text in their right context
    `commentLen ('%' :: (body ++ post)) = |body| + 1`   `%body` is the whole comment token
    `startsWith ('%' :: body) st1.skipBegin`           it opens a skipped region
    blank            no "active character" (the mark tokens pass `expand_sequence`)
  NOT covered: other comments, macros or maths in `pre` / `post` (a second opening comment behind the
  first is simply dropped by the loop — only the first one is reported).
-/
import YalafiVerif.Proofs.PlainFaultBase
namespace Yalafi
namespace PlainFault

open M
open PlainFootnote (TextRun CopyTok lineC LinesOf)
open PlainAccent (ScanRun)
open PlainMathOpen (markPos)

/-- the message of the diagnostic: `cannot find closing LaTeX comment '%%% LT-SKIP-END'` -/
def errSkip (st : PState) : Str := "cannot find closing LaTeX comment ".toList ++ reprStr st.skipEnd

/-- the comment token -/
def comTok (pos : Nat) (body : Str) : Tok := { kind := .comment, pos := pos, txt := '%' :: body }

/-! ### the scanner -/

theorem nextToken_comment (T : Tables) (src : Str) (pos : Nat) (body R : Str)
    (h : commentLen ('%' :: (body ++ R)) = body.length + 1) :
    nextToken T src pos ('%' :: (body ++ R)) = { tok := comTok pos body, len := body.length + 1 } := by
  simp [nextToken, show isSpace '%' = false by decide, scanComment, h, comTok]

theorem scanRun_comment (T : Tables) (src : Str) (pos : Nat) (body R : Str)
    (h : commentLen ('%' :: (body ++ R)) = body.length + 1) :
    ScanRun T src [{ tok := comTok pos body, len := body.length + 1 }] pos ('%' :: body) R :=
  ScanRun.one _ _ _ '%' body R _ (nextToken_comment T src pos body R h) rfl

/-! ### the pre-pass -/

theorem skipPass_open (st : PState) (A B : List Tok) (com : Tok) (fuel : Nat)
    (hA : ∀ t ∈ A, t.kind ≠ .comment) (hB : ∀ t ∈ B, t.kind ≠ .comment)
    (hk : com.kind = .comment) (hs : startsWith com.txt st.skipBegin = true) :
    skipPass st (fuel + 1) (A ++ com :: B) [] = (A, some com.pos, B) := by
  have hpre : (A ++ com :: B).takeWhile
      (fun t => !(t.kind == .comment && startsWith t.txt st.skipBegin)) = A := by
    apply takeWhile_append_stop
    · rw [List.all_eq_true]
      intro t ht
      have := hA t ht
      simp [this]
    · simp [hk, hs]
  have hmid : B.takeWhile (fun t => !(t.kind == .comment && startsWith t.txt st.skipEnd)) = B := by
    apply takeWhile_all
    intro t ht
    have := hB t ht
    simp [this]
  simp only [skipPass, hpre, List.drop_left', hmid, List.drop_length, List.nil_append]

/-- `parserWork` on a source whose tokens are `A ++ [opening comment] ++ B` -/
theorem parserWork_skip (T : PTables) (st st' : PState) (src : Str) (fuel : Nat) (A B out : List Tok)
    (com : Tok)
    (hscan : (scan T.toTables src).toks = A ++ com :: B) (hd : (scan T.toTables src).diags = [])
    (hA : ∀ t ∈ A, t.kind ≠ .comment) (hB : ∀ t ∈ B, t.kind ≠ .comment)
    (hk : com.kind = .comment) (hs : startsWith com.txt st.skipBegin = true)
    (hseq : expandSequence T fuel (A ++ (latexErrorToks T.toTables (errSkip st) com.pos src.length ++ B))
        none []
        { st with latex := src, nest := st.nest + 1,
                  diags := st.diags ++ [latexErrorDiag (errSkip st) com.pos src] } = .ok ((out, []), st')) :
    parserWork T (fuel + 1) src st
      = .ok (out, { st' with latex := st.latex, nest := st'.nest - 1 }) := by
  rw [parserWork.eq_2]
  refine (M.bind_ok _ _ _ _ _ (rfl : M.get st = _)).trans ?_
  refine (M.bind_ok _ _ _ _ _ (rfl : M.modify _ _ = _)).trans ?_
  refine (M.bind_ok _ _ _ _ _ (rfl : M.modify _ _ = _)).trans ?_
  refine (M.bind_ok _ _ _ _ _ (rfl : M.get _ = _)).trans ?_
  simp only [hd, hscan, List.append_nil]
  rw [skipPass_open { st with latex := src, nest := st.nest + 1 } A B com _ hA hB hk hs]
  simp only []
  have e : "cannot find closing LaTeX comment ".toList ++ reprStr st.skipEnd = errSkip st := rfl
  rw [e]
  have hle : (do
        let er ← latexError T.toTables (errSkip st) com.pos
        pure (A ++ er ++ B) : M (List Tok))
      { st with latex := src, nest := st.nest + 1 }
      = .ok (A ++ (latexErrorToks T.toTables (errSkip st) com.pos src.length ++ B),
          { st with latex := src, nest := st.nest + 1,
                    diags := st.diags ++ [latexErrorDiag (errSkip st) com.pos src] }) := by
    generalize errSkip st = msg
    show M.bind' (latexError T.toTables msg com.pos) _ _ = _
    simp only [M.bind', latexError, List.append_assoc]
    rfl
  refine (M.bind_ok _ _ _ _ _ hle).trans ?_
  refine (M.bind_ok _ _ _ _ _ hseq).trans ?_
  refine (M.bind_ok _ _ _ _ _ (rfl : M.modify _ _ = _)).trans ?_
  rfl

/-! ### end to end -/

/-- all side conditions on `pre ++ %body ++ post` -/
def skipFaultOk (T : PTables) (st : PState) (pre body post : Str) : Bool :=
  PlainFootnote.textOk T st pre ('%' :: body ++ post) &&
  PlainFootnote.textOk T st post [] &&
  (commentLen ('%' :: (body ++ post)) == body.length + 1) &&
  startsWith ('%' :: body) st.skipBegin &&
  !(activeChars T st).contains [' ']

/-- **C08 at an unclosed skip comment, end to end.**  `src = pre ++ %body ++ post` (`skipFaultOk`).
    Then `tex2txt` succeeds and

    * the text is `pre`, the COMPLETE mark `errMark`, `post` — the opening comment is replaced by
      the mark, nothing behind it is skipped;
    * `pre` and `post` keep their own positions; the mark is mapped to the `%` of the opening comment
      (1-based `P + 1`; `markPos1`);
    * exactly one diagnostic is added: `cannot find closing LaTeX comment '…'` (with the closing
      marker `st1.skipEnd`) at the line and column of the `%`; nothing is reported as unknown. -/
theorem tex2txt_skip_unclosed (T : PTables) (o : Options) (fs : FS) (thresh : Nat)
    (pre body post : Str) (fuel : Nat) (st1 : PState)
    (hdefs : o.defs = []) (hextr : o.extr = []) (hrepl : o.hasRepl = false) (hunkn : o.unkn = false)
    (hinit : initParser T fuel o (initialState T o false fs) = .ok ((), st1))
    (hok : skipFaultOk T st1 pre body post = true)
    (hf : (pre ++ ('%' :: body ++ post)).length + 4 ≤ fuel) :
    let src := pre ++ ('%' :: body ++ post)
    let P := pre.length
    let d := latexErrorDiag (errSkip st1) P src
    ∃ r, tex2txt T fuel src o false thresh fs = .ok r ∧
      r.txt = pre ++ (errMark T.toTables (errSkip st1) ++ post) ∧
      r.pos = List.range' 1 pre.length ++ (markPos1 T.toTables (errSkip st1) src.length P
        ++ List.range' (P + body.length + 2) post.length) ∧
      r.unknowns = [] ∧ r.diags = st1.diags ++ [d] ∧
      d.msg = errSkip st1 ∧ d.line = countNl pre + 1 ∧ d.col = (afterLastNl pre).length + 1 := by
  intro src P d
  simp only [skipFaultOk, Bool.and_eq_true, Bool.not_eq_true', beq_iff_eq] at hok
  obtain ⟨⟨⟨⟨hpre, hpost⟩, hlen⟩, hstart⟩, hblank⟩ := hok
  have hPn : P < src.length := by
    simp only [src, P, List.length_append, List.length_cons]; omega
  obtain ⟨s1, s2, R1, R2, hsc⟩ := scan_frame T st1 pre ('%' :: body) post
    [{ tok := comTok P body, len := body.length + 1 }] hpre
    (by simp [show isSpace '%' = false by decide])
    (scanRun_comment T.toTables src P body post hlen) (by simp) hpost
  obtain ⟨htoks, hdiags⟩ := scan_of_steps T.toTables _ s1 _ s2 hsc
    (fun x hx => ⟨(R1.ok x hx).1, (R1.ok x hx).2.1⟩) (fun x hx => ⟨(R2.ok x hx).1, (R2.ok x hx).2.1⟩)
  have hA : ∀ t ∈ s1.map (·.tok), CopyTok T st1 t := by
    intro t ht
    obtain ⟨x, hx, rfl⟩ := List.mem_map.mp ht
    exact (R1.ok x hx).2.2
  have hB : ∀ t ∈ s2.map (·.tok), CopyTok T st1 t := by
    intro t ht
    obtain ⟨x, hx, rfl⟩ := List.mem_map.mp ht
    exact (R2.ok x hx).2.2
  obtain ⟨f, rfl⟩ : ∃ f, fuel = f + 1 := ⟨fuel - 1, by omega⟩
  have hl1 := R1.len
  have hl2 := R2.len
  have hf' : src.length + 4 ≤ f + 1 := hf
  have hsl : src.length = pre.length + (body.length + 1 + post.length) := by
    simp only [src, List.length_append, List.length_cons]
  let stW : PState := workState st1 src [latexErrorDiag (errSkip (rootState st1)) (comTok P body).pos src]
  have hblankW : (activeChars T stW).contains [' '] = false := by
    rw [activeChars_congr T st1 stW rfl]; exact hblank
  have hseq := seq_frame T stW stW (s1.map (·.tok))
    (latexErrorToks T.toTables (errSkip (rootState st1)) P src.length) (s2.map (·.tok))
    (latexErrorToks T.toTables (errSkip (rootState st1)) P src.length) _ 2 f
    (fun t ht => CopyTok.congr (st := st1) (st' := stW) rfl (hA t ht))
    (fun t ht => CopyTok.congr (st := st1) (st' := stW) rfl (hB t ht))
    (fun g out => seq_mark' T stW _ P src.length hPn hblankW none _ g out)
    (removeLines_noact _ _ _ (fun t ht => (hA t ht).notAction)
      (fun t ht => by
        have := (PlainMathOpen.latexErrorToks_kind T.toTables _ P src.length t ht).1
        simp [isAction, this])
      (fun t ht => (hB t ht).notAction))
    (by simp only [List.length_map]; omega)
  have hscan' : (scan T.toTables src).toks = s1.map (·.tok) ++ comTok P body :: s2.map (·.tok) := by
    rw [htoks]; rfl
  have hw := parserWork_skip T (rootState st1) stW src f _ _ _ (comTok P body) hscan' hdiags
    (fun t ht => (hA t ht).plain.notComment) (fun t ht => (hB t ht).plain.notComment) rfl hstart hseq
  have h := tex2txt_of_work T o fs thresh _ (f + 1) st1 _ _ hdefs hextr hrepl hunkn hinit hw
  obtain ⟨hl, hc⟩ := lineCol_after pre ('%' :: body ++ post)
  have herr : errSkip (rootState st1) = errSkip st1 := rfl
  refine ⟨_, h, ?_, ?_, rfl, ?_, rfl, hl, hc⟩
  · simp only [getTxtPos_append, getTxtPos_filter_keepOut, R1.txt, R2.txt,
      PlainMathOpen.latexErrorToks_txtpos, herr]
    simp [flowsToks, stW, workState, rootState, getTxtPos]
  · simp only [getTxtPos_append, getTxtPos_filter_keepOut, R1.txt, R2.txt, List.map_append,
      range'_succ_map, PlainMathOpen.latexErrorToks_txtpos, herr,
      markPos_map T.toTables (errSkip st1) src.length P hPn]
    simp [flowsToks, stW, workState, rootState, getTxtPos, P]
    omega
  · show stW.diags = st1.diags ++ [d]
    simp only [stW, workState, rootState]
    rfl

end PlainFault
end Yalafi
