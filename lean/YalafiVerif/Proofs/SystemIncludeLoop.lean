/-
  Proofs/SystemIncludeLoop.lean — the `--include` work list of shell.py (`includeLoop`,
  Model/Shell.lean) for an ABSTRACT inclusion function: termination with an explicit fuel bound,
  exactness (the result is the set of files reachable through files that are not skipped) and
  the discovery order.  Complements Proofs/Shell.lean (`includeLoop_nodup/_closed/_reachable`,
  which are conditional on `includeLoop … = some out`).

  `firstNew skip seen l`    the first occurrences in `l` of the names that are not skipped and not
                            in `seen` — what the loop appends to `todo` for one file (`inclNew_eq`)
  `ReachNS`                 reachable from a root that is not skipped through inclusions by files
                            that are not skipped, the target not skipped either (a skipped file is
                            never opened, so what it includes is not followed)
  `includeLoop_terminates`  fuel `|todo| + |U|` suffices when every included name that is not
                            skipped lies in the finite list `U` (no condition on cycles)
  `includeLoop_reachNS`     everything checked is `ReachNS`
  `reachNS_mem`             everything `ReachNS` is checked (from `includeLoop_closed`)
  `includeLoop_order`       `out = firstNew skip [] (roots ++ out.flatMap includes)`: the result is
                            the list of first occurrences of the non-skipped names in the sequence
                            "the roots, then the names included by out[0], then those included by
                            out[1], …" — breadth-first discovery order
  `includeLoop_causal`      every checked file is a root or is included by a file checked earlier
  `bfs_unique`              the last two properties (with `Nodup`) determine the list
  `includeLoop_bfs`         all of it, for the run that starts with `done = []`
-/
import YalafiVerif.Proofs.Shell
namespace Yalafi
namespace IncludeLoop

/-- first occurrences in `l` of the names that are neither skipped nor in `seen` -/
def firstNew (skip : Str → Bool) : List Str → List Str → List Str
  | _, [] => []
  | seen, g :: gs =>
    if seen.contains g || skip g then firstNew skip seen gs
    else g :: firstNew skip (seen ++ [g]) gs

theorem firstNew_cons_drop (skip : Str → Bool) (seen : List Str) (g : Str) (gs : List Str)
    (h : g ∈ seen ∨ skip g = true) : firstNew skip seen (g :: gs) = firstNew skip seen gs := by
  have : (seen.contains g || skip g) = true := by
    rcases h with h | h <;> simp [h]
  simp only [firstNew, this, if_true]

theorem firstNew_cons_keep (skip : Str → Bool) (seen : List Str) (g : Str) (gs : List Str)
    (h1 : g ∉ seen) (h2 : skip g = false) :
    firstNew skip seen (g :: gs) = g :: firstNew skip (seen ++ [g]) gs := by
  have : (seen.contains g || skip g) = false := by simp [h1, h2]
  simp only [firstNew, this, Bool.false_eq_true, if_false]

/-- what the inner `for` loop of shell.py appends to `todo` -/
theorem inclNew_eq (skip : Str → Bool) (base : List Str) : ∀ (gs acc : List Str),
    inclNew skip base gs acc = acc ++ firstNew skip (base ++ acc) gs
  | [], acc => by simp [inclNew, firstNew]
  | x :: xs, acc => by
    have e : inclNew skip base (x :: xs) acc =
        inclNew skip base xs (if (base ++ acc).contains x || skip x then acc else acc ++ [x]) := by
      simp only [inclNew, List.foldl_cons]
    rw [e]
    by_cases hc : ((base ++ acc).contains x || skip x) = true
    · rw [if_pos hc, inclNew_eq skip base xs acc]
      simp only [firstNew, hc, if_true]
    · rw [if_neg hc, inclNew_eq skip base xs (acc ++ [x])]
      simp only [firstNew, hc, if_false, Bool.false_eq_true]
      simp [List.append_assoc]

theorem mem_firstNew (skip : Str → Bool) (g : Str) : ∀ (l seen : List Str),
    g ∈ firstNew skip seen l ↔ g ∈ l ∧ g ∉ seen ∧ skip g = false
  | [], seen => by simp [firstNew]
  | x :: xs, seen => by
    by_cases hc : x ∈ seen ∨ skip x = true
    · rw [firstNew_cons_drop skip seen x xs hc, mem_firstNew skip g xs seen]
      constructor
      · rintro ⟨h1, h2, h3⟩; exact ⟨List.mem_cons_of_mem _ h1, h2, h3⟩
      · rintro ⟨h1, h2, h3⟩
        rcases List.mem_cons.mp h1 with rfl | h1
        · rcases hc with hc | hc
          · exact absurd hc h2
          · rw [h3] at hc; exact absurd hc (by simp)
        · exact ⟨h1, h2, h3⟩
    · have h1 : x ∉ seen := fun h => hc (Or.inl h)
      have h2 : skip x = false := by
        cases hs : skip x with
        | false => rfl
        | true => exact absurd (Or.inr hs) hc
      rw [firstNew_cons_keep skip seen x xs h1 h2, List.mem_cons, mem_firstNew skip g xs (seen ++ [x])]
      constructor
      · rintro (rfl | ⟨h3, h4, h5⟩)
        · exact ⟨List.mem_cons_self, h1, h2⟩
        · exact ⟨List.mem_cons_of_mem _ h3, fun h => h4 (List.mem_append_left _ h), h5⟩
      · rintro ⟨h3, h4, h5⟩
        by_cases e : g = x
        · exact Or.inl e
        · refine Or.inr ⟨?_, ?_, h5⟩
          · rcases List.mem_cons.mp h3 with h | h
            · exact absurd h e
            · exact h
          · intro h
            rcases List.mem_append.mp h with h | h
            · exact h4 h
            · exact e (List.mem_singleton.mp h)

theorem firstNew_nodup (skip : Str → Bool) : ∀ (l seen : List Str), (firstNew skip seen l).Nodup
  | [], _ => by simp [firstNew]
  | x :: xs, seen => by
    by_cases hc : x ∈ seen ∨ skip x = true
    · rw [firstNew_cons_drop skip seen x xs hc]; exact firstNew_nodup skip xs seen
    · have h1 : x ∉ seen := fun h => hc (Or.inl h)
      have h2 : skip x = false := by
        cases hs : skip x with
        | false => rfl
        | true => exact absurd (Or.inr hs) hc
      rw [firstNew_cons_keep skip seen x xs h1 h2, List.nodup_cons]
      refine ⟨?_, firstNew_nodup skip xs _⟩
      intro h
      have := ((mem_firstNew skip x xs (seen ++ [x])).mp h).2.1
      exact this (List.mem_append_right _ (List.mem_singleton.mpr rfl))

/-- only the non-skipped members of `seen` matter -/
theorem firstNew_congr (skip : Str → Bool) : ∀ (l seen seen' : List Str),
    (∀ g, skip g = false → (g ∈ seen ↔ g ∈ seen')) → firstNew skip seen l = firstNew skip seen' l
  | [], _, _, _ => by simp [firstNew]
  | x :: xs, seen, seen', h => by
    by_cases hs : skip x = true
    · rw [firstNew_cons_drop skip seen x xs (Or.inr hs), firstNew_cons_drop skip seen' x xs (Or.inr hs)]
      exact firstNew_congr skip xs seen seen' h
    · have hs' : skip x = false := by simpa using hs
      by_cases hm : x ∈ seen
      · rw [firstNew_cons_drop skip seen x xs (Or.inl hm),
          firstNew_cons_drop skip seen' x xs (Or.inl ((h x hs').mp hm))]
        exact firstNew_congr skip xs seen seen' h
      · have hm' : x ∉ seen' := fun h' => hm ((h x hs').mpr h')
        rw [firstNew_cons_keep skip seen x xs hm hs', firstNew_cons_keep skip seen' x xs hm' hs']
        congr 1
        apply firstNew_congr skip xs
        intro g hg
        simp only [List.mem_append, List.mem_singleton, h g hg]

theorem firstNew_append (skip : Str → Bool) (b : List Str) : ∀ (a seen : List Str),
    firstNew skip seen (a ++ b) = firstNew skip seen a ++ firstNew skip (seen ++ firstNew skip seen a) b
  | [], seen => by simp [firstNew]
  | x :: a, seen => by
    by_cases hc : x ∈ seen ∨ skip x = true
    · rw [List.cons_append, firstNew_cons_drop skip seen x _ hc, firstNew_cons_drop skip seen x _ hc]
      exact firstNew_append skip b a seen
    · have h1 : x ∉ seen := fun h => hc (Or.inl h)
      have h2 : skip x = false := by
        cases hs : skip x with
        | false => rfl
        | true => exact absurd (Or.inr hs) hc
      rw [List.cons_append, firstNew_cons_keep skip seen x _ h1 h2, firstNew_cons_keep skip seen x _ h1 h2,
        firstNew_append skip b a (seen ++ [x])]
      simp [List.append_assoc]

theorem firstNew_self (skip : Str → Bool) : ∀ (l seen : List Str), l.Nodup →
    (∀ g ∈ l, g ∉ seen ∧ skip g = false) → firstNew skip seen l = l
  | [], _, _, _ => by simp [firstNew]
  | x :: xs, seen, hn, h => by
    obtain ⟨h1, h2⟩ := h x List.mem_cons_self
    rw [List.nodup_cons] at hn
    rw [firstNew_cons_keep skip seen x xs h1 h2, firstNew_self skip xs (seen ++ [x]) hn.2]
    intro g hg
    obtain ⟨h3, h4⟩ := h g (List.mem_cons_of_mem _ hg)
    refine ⟨?_, h4⟩
    intro h'
    rcases List.mem_append.mp h' with h' | h'
    · exact h3 h'
    · rw [List.mem_singleton] at h'; subst h'; exact hn.1 hg

theorem firstNew_prefix (skip : Str → Bool) (seen a b : List Str) :
    firstNew skip seen a <+: firstNew skip seen (a ++ b) := by
  rw [firstNew_append]; exact List.prefix_append _ _

/-- the step of the loop for a file that is checked -/
theorem includeLoop_step (includes : Str → List Str) (skip : Str → Bool) (fuel : Nat) (f : Str)
    (todo done : List Str) (h1 : f ∉ done) (h2 : skip f = false) :
    includeLoop includes skip (fuel + 1) (f :: todo) done =
      includeLoop includes skip fuel (todo ++ firstNew skip ((done ++ [f]) ++ todo) (includes f)) (done ++ [f]) := by
  rw [includeLoop_succ, if_neg (by simp [h1, h2]), inclNew_eq]
  simp

theorem includeLoop_drop (includes : Str → List Str) (skip : Str → Bool) (fuel : Nat) (f : Str)
    (todo done : List Str) (h : f ∈ done ∨ skip f = true) :
    includeLoop includes skip (fuel + 1) (f :: todo) done = includeLoop includes skip fuel todo done := by
  rw [includeLoop_succ, if_pos (by rcases h with h | h <;> simp [h])]

theorem dropCase (skip : Str → Bool) (f : Str) (done : List Str) :
    (f ∈ done ∨ skip f = true) ∨ (f ∉ done ∧ skip f = false) := by
  by_cases h : f ∈ done
  · exact Or.inl (Or.inl h)
  · cases hs : skip f with
    | true => exact Or.inl (Or.inr rfl)
    | false => exact Or.inr ⟨h, rfl⟩

/-! ### termination -/

/-- **termination.**  `U` is a finite list that contains every included name that is not
    skipped.  `S` (ghost) = the names appended to `todo` so far: pairwise different, in `U`, not
    skipped, each still in `todo` or already in `done`.  Every iteration removes one entry of
    `todo`; appended entries are new members of `S`, of which there are at most `|U|`. -/
theorem includeLoop_terminates_aux (includes : Str → List Str) (skip : Str → Bool) (U : List Str)
    (hU : ∀ f g, g ∈ includes f → skip g = false → g ∈ U) :
    ∀ (fuel : Nat) (todo done S : List Str), S.Nodup →
      (∀ g ∈ S, g ∈ U ∧ skip g = false ∧ (g ∈ done ∨ g ∈ todo)) →
      todo.length + (U.length - S.length) ≤ fuel →
      ∃ out, includeLoop includes skip fuel todo done = some out := by
  intro fuel
  induction fuel with
  | zero =>
    intro todo done S _ _ hf
    cases todo with
    | nil => exact ⟨done, by simp [includeLoop]⟩
    | cons f todo => simp at hf
  | succ fuel ih =>
    intro todo done S hn hS hf
    cases todo with
    | nil => exact ⟨done, by simp [includeLoop]⟩
    | cons f todo =>
      rcases dropCase skip f done with hc | ⟨h1, h2⟩
      · rw [includeLoop_drop _ _ _ _ _ _ hc]
        refine ih todo done S hn ?_ (by simp only [List.length_cons] at hf; omega)
        intro g hg
        obtain ⟨a, b, c⟩ := hS g hg
        refine ⟨a, b, ?_⟩
        rcases c with c | c
        · exact Or.inl c
        · rcases List.mem_cons.mp c with rfl | c
          · rcases hc with hc | hc
            · exact Or.inl hc
            · rw [b] at hc; exact absurd hc (by simp)
          · exact Or.inr c
      · rw [includeLoop_step _ _ _ _ _ _ h1 h2]
        have hnew : ∀ g ∈ firstNew skip ((done ++ [f]) ++ todo) (includes f),
            g ∈ includes f ∧ g ∉ (done ++ [f]) ++ todo ∧ skip g = false :=
          fun g hg => (mem_firstNew skip g _ _).mp hg
        have hS' : ∀ g ∈ S, g ∈ (done ++ [f]) ++ todo := by
          intro g hg
          obtain ⟨_, _, c⟩ := hS g hg
          rcases c with c | c
          · exact List.mem_append_left _ (List.mem_append_left _ c)
          · rcases List.mem_cons.mp c with rfl | c
            · exact List.mem_append_left _ (List.mem_append_right _ (List.mem_singleton.mpr rfl))
            · exact List.mem_append_right _ c
        have hn' : (S ++ firstNew skip ((done ++ [f]) ++ todo) (includes f)).Nodup := by
          rw [List.nodup_append]
          refine ⟨hn, firstNew_nodup skip _ _, ?_⟩
          intro a ha b hb e
          subst e
          exact (hnew a hb).2.1 (hS' a ha)
        have hsub : S ++ firstNew skip ((done ++ [f]) ++ todo) (includes f) ⊆ U := by
          intro g hg
          rcases List.mem_append.mp hg with hg | hg
          · exact (hS g hg).1
          · exact hU f g (hnew g hg).1 (hnew g hg).2.2
        have hlen := hn'.length_le_of_subset hsub
        simp only [List.length_append] at hlen
        refine ih _ _ _ hn' ?_ ?_
        · intro g hg
          rcases List.mem_append.mp hg with hg' | hg'
          · refine ⟨(hS g hg').1, (hS g hg').2.1, ?_⟩
            rcases List.mem_append.mp (hS' g hg') with c | c
            · exact Or.inl c
            · exact Or.inr (List.mem_append_left _ c)
          · exact ⟨hsub hg, (hnew g hg').2.2, Or.inr (List.mem_append_right _ hg')⟩
        · simp only [List.length_append, List.length_cons] at hf ⊢
          omega

/-- **termination of the work-list loop**, cyclic inclusion or not: if every name that some file
    includes and that is not skipped belongs to the finite list `U`, then
    `|todo| + |U|` iterations suffice -/
theorem includeLoop_terminates (includes : Str → List Str) (skip : Str → Bool) (U : List Str)
    (hU : ∀ f g, g ∈ includes f → skip g = false → g ∈ U) (fuel : Nat) (todo done : List Str)
    (hf : todo.length + U.length ≤ fuel) :
    ∃ out, includeLoop includes skip fuel todo done = some out :=
  includeLoop_terminates_aux includes skip U hU fuel todo done [] List.nodup_nil (by simp)
    (by simpa using hf)

/-! ### exactness: reachability through files that are not skipped -/

/-- reachable from a given file through `includes`, no file on the way (start and end included)
    being skipped -/
inductive ReachNS (includes : Str → List Str) (skip : Str → Bool) (roots : List Str) : Str → Prop where
  | root (r : Str) : r ∈ roots → skip r = false → ReachNS includes skip roots r
  | step (f g : Str) : ReachNS includes skip roots f → g ∈ includes f → skip g = false →
      ReachNS includes skip roots g

theorem includeLoop_reachNS (includes : Str → List Str) (skip : Str → Bool) (roots : List Str) :
    ∀ (fuel : Nat) (todo done out : List Str),
      (∀ f ∈ todo, skip f = false → ReachNS includes skip roots f) →
      (∀ f ∈ done, ReachNS includes skip roots f) →
      includeLoop includes skip fuel todo done = some out → ∀ f ∈ out, ReachNS includes skip roots f := by
  intro fuel
  induction fuel with
  | zero =>
    intro todo done out _ hd h
    cases todo with
    | nil => simp only [includeLoop, Option.some.injEq] at h; subst h; exact hd
    | cons f todo => simp [includeLoop] at h
  | succ fuel ih =>
    intro todo done out ht hd h
    cases todo with
    | nil => simp only [includeLoop, Option.some.injEq] at h; subst h; exact hd
    | cons f todo =>
      rcases dropCase skip f done with hc | ⟨h1, h2⟩
      · rw [includeLoop_drop _ _ _ _ _ _ hc] at h
        exact ih _ _ _ (fun g hg => ht g (List.mem_cons_of_mem _ hg)) hd h
      · rw [includeLoop_step _ _ _ _ _ _ h1 h2] at h
        have hf := ht f List.mem_cons_self h2
        refine ih _ _ _ ?_ ?_ h
        · intro g hg hs
          rcases List.mem_append.mp hg with hg | hg
          · exact ht g (List.mem_cons_of_mem _ hg) hs
          · exact .step f g hf ((mem_firstNew skip g _ _).mp hg).1 hs
        · intro g hg
          rcases List.mem_append.mp hg with hg | hg
          · exact hd g hg
          · rw [List.mem_singleton] at hg; subst hg; exact hf

theorem reachNS_mem (includes : Str → List Str) (skip : Str → Bool) (roots out : List Str)
    (h1 : ∀ f ∈ roots, skip f = false → f ∈ out)
    (h2 : ∀ f ∈ out, ∀ g ∈ includes f, skip g = false → g ∈ out) :
    ∀ f, ReachNS includes skip roots f → f ∈ out := by
  intro f hf
  induction hf with
  | root r hr hs => exact h1 r hr hs
  | step f g _ hg hs ih => exact h2 f ih g hg hs

/-! ### the discovery order -/

/-- the invariant of the discovery order is kept by one step that checks a file -/
theorem order_step (includes : Str → List Str) (skip : Str → Bool) (roots : List Str) (f : Str)
    (todo done : List Str) (h1 : f ∉ done) (h2 : skip f = false)
    (hJ : firstNew skip [] (roots ++ done.flatMap includes) = done ++ firstNew skip done (f :: todo)) :
    firstNew skip [] (roots ++ (done ++ [f]).flatMap includes)
      = (done ++ [f]) ++ firstNew skip (done ++ [f])
          (todo ++ firstNew skip ((done ++ [f]) ++ todo) (includes f)) := by
  rw [firstNew_cons_keep skip done f todo h1 h2] at hJ
  have e1 : roots ++ (done ++ [f]).flatMap includes
      = (roots ++ done.flatMap includes) ++ includes f := by
    simp [List.flatMap_append, List.append_assoc]
  rw [e1, firstNew_append, hJ, firstNew_append skip _ todo (done ++ [f])]
  simp only [List.nil_append]
  have e2 : done ++ f :: firstNew skip (done ++ [f]) todo
      = (done ++ [f]) ++ firstNew skip (done ++ [f]) todo := by simp [List.append_assoc]
  rw [e2, List.append_assoc (done ++ [f])]
  congr 2
  -- `done' ++ N(done', todo)` and `done' ++ todo` have the same non-skipped members
  have hcongr : firstNew skip ((done ++ [f]) ++ firstNew skip (done ++ [f]) todo) (includes f)
      = firstNew skip ((done ++ [f]) ++ todo) (includes f) := by
    apply firstNew_congr
    intro g hg
    simp only [List.mem_append, mem_firstNew, hg, and_true]
    constructor
    · rintro (h | ⟨h, _⟩)
      · exact Or.inl h
      · exact Or.inr h
    · rintro (h | h)
      · exact Or.inl h
      · by_cases hd : g ∈ done ∨ g ∈ [f]
        · exact Or.inl hd
        · exact Or.inr ⟨h, hd⟩
  rw [hcongr]
  symm
  apply firstNew_self _ _ _ (firstNew_nodup skip _ _)
  intro g hg
  obtain ⟨_, h4, h5⟩ := (mem_firstNew skip g _ _).mp hg
  refine ⟨?_, h5⟩
  intro h'
  apply h4
  rcases List.mem_append.mp h' with h' | h'
  · exact List.mem_append_left _ h'
  · exact List.mem_append_right _ ((mem_firstNew skip g _ _).mp h').1

theorem includeLoop_order (includes : Str → List Str) (skip : Str → Bool) (roots : List Str) :
    ∀ (fuel : Nat) (todo done out : List Str),
      firstNew skip [] (roots ++ done.flatMap includes) = done ++ firstNew skip done todo →
      includeLoop includes skip fuel todo done = some out →
      firstNew skip [] (roots ++ out.flatMap includes) = out := by
  intro fuel
  induction fuel with
  | zero =>
    intro todo done out hJ h
    cases todo with
    | nil => simp only [includeLoop, Option.some.injEq] at h; subst h; simpa [firstNew] using hJ
    | cons f todo => simp [includeLoop] at h
  | succ fuel ih =>
    intro todo done out hJ h
    cases todo with
    | nil => simp only [includeLoop, Option.some.injEq] at h; subst h; simpa [firstNew] using hJ
    | cons f todo =>
      rcases dropCase skip f done with hc | ⟨h1, h2⟩
      · rw [includeLoop_drop _ _ _ _ _ _ hc] at h
        rw [firstNew_cons_drop skip done f todo hc] at hJ
        exact ih _ _ _ hJ h
      · rw [includeLoop_step _ _ _ _ _ _ h1 h2] at h
        exact ih _ _ _ (order_step includes skip roots f todo done h1 h2 hJ) h

/-- every member is a root or is included by an earlier member -/
def Causal (includes : Str → List Str) (roots l : List Str) : Prop :=
  ∀ pre f post, l = pre ++ f :: post → f ∈ roots ∨ ∃ d ∈ pre, f ∈ includes d

theorem includeLoop_causal (includes : Str → List Str) (skip : Str → Bool) (roots : List Str) :
    ∀ (fuel : Nat) (todo done out : List Str),
      firstNew skip [] (roots ++ done.flatMap includes) = done ++ firstNew skip done todo →
      Causal includes roots done →
      includeLoop includes skip fuel todo done = some out → Causal includes roots out := by
  intro fuel
  induction fuel with
  | zero =>
    intro todo done out _ hC h
    cases todo with
    | nil => simp only [includeLoop, Option.some.injEq] at h; subst h; exact hC
    | cons f todo => simp [includeLoop] at h
  | succ fuel ih =>
    intro todo done out hJ hC h
    cases todo with
    | nil => simp only [includeLoop, Option.some.injEq] at h; subst h; exact hC
    | cons f todo =>
      rcases dropCase skip f done with hc | ⟨h1, h2⟩
      · rw [includeLoop_drop _ _ _ _ _ _ hc] at h
        rw [firstNew_cons_drop skip done f todo hc] at hJ
        exact ih _ _ _ hJ hC h
      · have hJ' := order_step includes skip roots f todo done h1 h2 hJ
        rw [includeLoop_step _ _ _ _ _ _ h1 h2] at h
        refine ih _ _ _ hJ' ?_ h
        -- `f` itself: it is in `N([], roots ++ done.flatMap includes)`
        have hf : f ∈ roots ∨ ∃ d ∈ done, f ∈ includes d := by
          have : f ∈ firstNew skip [] (roots ++ done.flatMap includes) := by
            rw [hJ, firstNew_cons_keep skip done f todo h1 h2]
            exact List.mem_append_right _ List.mem_cons_self
          have := ((mem_firstNew skip f _ _).mp this).1
          rcases List.mem_append.mp this with h | h
          · exact Or.inl h
          · obtain ⟨d, hd, hfd⟩ := List.mem_flatMap.mp h
            exact Or.inr ⟨d, hd, hfd⟩
        intro pre g post e
        rcases List.append_eq_append_iff.mp e with ⟨a', hp, hq⟩ | ⟨c', hp, hq⟩
        · -- pre = done ++ a', [f] = a' ++ g :: post
          cases a' with
          | nil =>
            simp only [List.nil_append, List.cons.injEq] at hq
            obtain ⟨rfl, _⟩ := hq
            simp only [List.append_nil] at hp
            subst hp
            exact hf
          | cons x a' =>
            simp only [List.cons_append, List.cons.injEq] at hq
            have := hq.2
            simp at this
        · -- done = pre ++ c', g :: post = c' ++ [f]
          cases c' with
          | nil =>
            simp only [List.nil_append, List.cons.injEq] at hq
            obtain ⟨rfl, _⟩ := hq
            simp only [List.append_nil] at hp
            subst hp
            exact hf
          | cons x c' =>
            simp only [List.cons_append, List.cons.injEq] at hq
            obtain ⟨rfl, _⟩ := hq
            exact hC pre g c' hp

/-! ### the two order properties determine the list -/

/-- the discovery sequence of a list of checked files -/
def disc (includes : Str → List Str) (skip : Str → Bool) (roots l : List Str) : List Str :=
  firstNew skip [] (roots ++ l.flatMap includes)

theorem disc_mono (includes : Str → List Str) (skip : Str → Bool) (roots p q : List Str) :
    disc includes skip roots p <+: disc includes skip roots (p ++ q) := by
  unfold disc
  rw [List.flatMap_append, ← List.append_assoc]
  exact firstNew_prefix skip [] _ _

/-- in a causal fixed point of `disc` the next member is already discovered by its predecessors -/
theorem disc_next (includes : Str → List Str) (skip : Str → Bool) (roots X : List Str)
    (hX : X = disc includes skip roots X) (cX : Causal includes roots X) (pre : List Str) (f : Str)
    (post : List Str) (e : X = pre ++ f :: post) : pre ++ [f] <+: disc includes skip roots pre := by
  have hnd : X.Nodup := by rw [hX]; exact firstNew_nodup skip _ _
  have hpX : disc includes skip roots pre <+: X := by
    have := disc_mono includes skip roots pre (f :: post)
    rw [← e, ← hX] at this
    exact this
  have hfX : pre ++ [f] <+: X := ⟨post, by rw [e]; simp⟩
  have hfs : skip f = false := by
    have : f ∈ X := by rw [e]; simp
    rw [hX] at this
    exact ((mem_firstNew skip f _ _).mp this).2.2
  have hfd : f ∈ disc includes skip roots pre := by
    refine (mem_firstNew skip f _ _).mpr ⟨?_, by simp, hfs⟩
    rcases cX pre f post e with h | ⟨d, hd, hfd⟩
    · exact List.mem_append_left _ h
    · exact List.mem_append_right _ (List.mem_flatMap.mpr ⟨d, hd, hfd⟩)
  have hfp : f ∉ pre := by
    rw [e, List.nodup_append] at hnd
    intro h
    exact hnd.2.2 f h f List.mem_cons_self rfl
  apply List.prefix_of_prefix_length_le hfX hpX
  simp only [List.length_append, List.length_cons, List.length_nil]
  apply Nat.lt_of_not_le
  intro hle
  have hpp : pre <+: X := ⟨f :: post, e.symm⟩
  have := List.prefix_of_prefix_length_le hpX hpp hle
  exact hfp (this.subset hfd)

theorem bfs_unique_aux_zero (includes : Str → List Str) (skip : Str → Bool) (roots X Y : List Str)
    (hX : X = disc includes skip roots X)
    (hY : Y = disc includes skip roots Y) (cY : Causal includes roots Y)
    (pre sy : List Str) (ex : X = pre ++ []) (ey : Y = pre ++ sy) : X = Y := by
  cases sy with
  | nil => rw [ex, ey]
  | cons g py =>
    have h := disc_next includes skip roots Y hY cY pre g py ey
    have hp : disc includes skip roots pre = pre := by
      have : pre = X := by simpa using ex.symm
      rw [this]; exact hX.symm
    rw [hp] at h
    have := h.length_le
    simp only [List.length_append, List.length_cons, List.length_nil] at this
    omega

theorem bfs_unique_aux (includes : Str → List Str) (skip : Str → Bool) (roots X Y : List Str)
    (hX : X = disc includes skip roots X) (cX : Causal includes roots X)
    (hY : Y = disc includes skip roots Y) (cY : Causal includes roots Y) :
    ∀ (n : Nat) (pre sx sy : List Str), X = pre ++ sx → Y = pre ++ sy → sx.length ≤ n → X = Y := by
  intro n
  induction n with
  | zero =>
    intro pre sx sy ex ey hn
    have hsx : sx = [] := List.eq_nil_of_length_eq_zero (by omega)
    subst hsx
    exact bfs_unique_aux_zero includes skip roots X Y hX hY cY pre sy ex ey
  | succ n ih =>
    intro pre sx sy ex ey hn
    cases sx with
    | nil => exact bfs_unique_aux_zero includes skip roots X Y hX hY cY pre sy ex ey
    | cons f px =>
      cases sy with
      | nil =>
        have h := disc_next includes skip roots X hX cX pre f px ex
        have hp : disc includes skip roots pre = pre := by
          have : pre = Y := by simpa using ey.symm
          rw [this]; exact hY.symm
        rw [hp] at h
        have := h.length_le
        simp only [List.length_append, List.length_cons, List.length_nil] at this
        omega
      | cons g py =>
        have h1 := disc_next includes skip roots X hX cX pre f px ex
        have h2 := disc_next includes skip roots Y hY cY pre g py ey
        have h3 : pre ++ [f] = pre ++ [g] :=
          (List.prefix_of_prefix_length_le h1 h2 (by simp)).eq_of_length (by simp)
        have hfg : f = g := by simpa using h3
        subst hfg
        exact ih (pre ++ [f]) px py (by rw [ex]; simp) (by rw [ey]; simp)
          (by simp only [List.length_cons] at hn; omega)

/-- **the order properties determine the work list**: there is exactly one list that is the
    list of first occurrences of its own discovery sequence and in which every member is a root
    or is included by an earlier member -/
theorem bfs_unique (includes : Str → List Str) (skip : Str → Bool) (roots X Y : List Str)
    (hX : X = firstNew skip [] (roots ++ X.flatMap includes)) (cX : Causal includes roots X)
    (hY : Y = firstNew skip [] (roots ++ Y.flatMap includes)) (cY : Causal includes roots Y) :
    X = Y :=
  bfs_unique_aux includes skip roots X Y hX cX hY cY X.length [] X Y rfl rfl (Nat.le_refl _)

/-! ### all of it -/

/-- **the work list of `--include`, for an abstract inclusion function.**  `U` = a finite list
    containing every included name that is not skipped.  With fuel `|roots| + |U|` the loop
    terminates; its result has no duplicates, consists exactly of the files reachable from the
    roots through files that are not skipped, and is in breadth-first discovery order. -/
theorem includeLoop_bfs (includes : Str → List Str) (skip : Str → Bool) (U roots : List Str)
    (hU : ∀ f g, g ∈ includes f → skip g = false → g ∈ U) (fuel : Nat)
    (hf : roots.length + U.length ≤ fuel) :
    ∃ out, includeLoop includes skip fuel roots [] = some out ∧
      out.Nodup ∧
      (∀ f, f ∈ out ↔ ReachNS includes skip roots f) ∧
      out = firstNew skip [] (roots ++ out.flatMap includes) ∧
      Causal includes roots out := by
  obtain ⟨out, h⟩ := includeLoop_terminates includes skip U hU fuel roots [] hf
  have hn := includeLoop_nodup includes skip fuel roots [] out List.nodup_nil (by simp) h
  have hc := includeLoop_closed includes skip fuel roots [] out (by simp) h
  have hJ : firstNew skip [] (roots ++ ([] : List Str).flatMap includes)
      = [] ++ firstNew skip [] roots := by simp
  refine ⟨out, h, hn.1, ?_, (includeLoop_order includes skip roots fuel roots [] out hJ h).symm,
    includeLoop_causal includes skip roots fuel roots [] out hJ ?_ h⟩
  · intro f
    constructor
    · exact includeLoop_reachNS includes skip roots fuel roots [] out
        (fun g hg hs => .root g hg hs) (by simp) h f
    · exact reachNS_mem includes skip roots out hc.1 hc.2 f
  · intro pre f post e
    simp at e

/-- the result does not depend on the fuel, once there is enough -/
theorem includeLoop_fuel_mono (includes : Str → List Str) (skip : Str → Bool) :
    ∀ (fuel fuel' : Nat) (todo done out : List Str), fuel ≤ fuel' →
      includeLoop includes skip fuel todo done = some out →
      includeLoop includes skip fuel' todo done = some out := by
  intro fuel
  induction fuel with
  | zero =>
    intro fuel' todo done out _ h
    cases todo with
    | nil => cases fuel' <;> simpa [includeLoop] using h
    | cons f todo => simp [includeLoop] at h
  | succ fuel ih =>
    intro fuel' todo done out hle h
    cases todo with
    | nil => cases fuel' <;> simpa [includeLoop] using h
    | cons f todo =>
      obtain ⟨k, rfl⟩ : ∃ k, fuel' = k + 1 := ⟨fuel' - 1, by omega⟩
      rw [includeLoop_succ] at h ⊢
      split
      · rename_i hc; rw [if_pos hc] at h; exact ih _ _ _ _ (by omega) h
      · rename_i hc; rw [if_neg hc] at h; exact ih _ _ _ _ (by omega) h

end IncludeLoop
end Yalafi
