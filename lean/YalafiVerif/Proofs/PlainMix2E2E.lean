/-
  Proofs/PlainMix2E2E.lean — C03 "hidden material never leaks" / C05 "text flow is preserved", end
  to end on the model, for the ENLARGED union grammar: documents whose segments are drawn from
  FOURTEEN kinds at once (files: Proofs/PlainMix2.lean = token level, Proofs/PlainMix2Src.lean =
  documents / reference / side conditions, Proofs/PlainMix2Scan.lean = the scanner lemma, this file =
  lifts and end-to-end theorem, Proofs/PlainMix2Read.lean = readings; statements:
  Properties/PlainMix2Stmt.lean).

  Kinds that are in (`PlainMix2.Seg`)
    the seven kinds of Proofs/PlainMixE2E.lean, unchanged:
      `txt s`, `spc k`, `cw name sp`, `van name key`, `com body`, `verb d s`, `math body`
    (1) `opn`, `cls`     braces as flat atoms — hence groups `{…}` (`grp body`) and undeclared control
                         words with braced arguments `\name{a1}…{an}` (`mac name args`) at ANY nesting
                         depth, and with anything of the grammar inside: `\textbf{bold \emph{and $x$
                         nested}}`, `{\foo a--b \label{k}}`; the braces need not even be balanced
    (2) `ref name key`   `\ref{key}`, `\pageref{key}` (any macro declared like them)
        `cite name key`, `citeN name note key`   `\cite{key}`, `\cite[note]{key}`
    (3) `foot body`      `\footnote{body}` — the body is detached: it is appended behind the main
                         text (`flows`)
    (4) `head name title`   `\section{title}`, `\subsection`, `\chapter`, `\title`, … (any macro
                         declared with `h_heading`)

  Structure: as in Proofs/PlainMixE2E.lean — ONE loop lemma `seq_mix2` (induction over the pieces;
  dispatches to thirteen step lemmas of the single-construct files), ONE scanner lemma
  `scanSteps_mix2` (induction over the source), `PlainMacro.removeLines_simple`, the lifts
  `parserWork_mix2`, `parse_mix2`, `tex2txt_mix2_src`, `tex2txt_mix2`.

  The end-to-end statement `tex2txt_mix2`.  `tex2txt` succeeds; text and (1-based) positions are
  `delLines (marks T st1 repls 0 0 segs) ++ flows 0 segs`:
    * `marks` (Proofs/PlainMix2Src.lean): the seven old kinds as before; a brace = a text-less mark;
      a reference = a mark and the placeholder (`0`) at the backslash; a citation = a mark, `[0]` at
      the backslash, a mark, resp. a mark, `[0, ` at the backslash, the note at its OWN positions,
      `]` at the start of the last token of the note, a mark; a footnote = a mark; a heading = a
      mark, the title at its own positions, a full stop (unless the title ends with `!` / `?`) at
      the start of the last token of the title;
    * `delLines` = `remove_pure_action_lines`, exactly: every line of the MAIN flow is deleted, with
      its line break, that consists of white space only and holds at least one text-less mark;
    * `flows`: behind the main text, for every footnote in order: three line breaks pinned to the
      first body character, the body at its own positions, a line break pinned to the start of the
      last token of the body;
    * `unknowns` = the undeclared control words, each once, in order of first use; no diagnostic.

  Side conditions (all in `SegsOk T st1 repls segs`, decidable; `st1` = state after `Parser.__init__`)
    the seven old kinds        as in Proofs/PlainMixE2E.lean (`textOkU`, `spcOk`, `cwOkU`,
                               `PlainVanish.vanOk`, `comOk`, `verbOkU`, `PlainMath.mathOk`,
                               `noEmptyActive`, `mathReady` only if there is a formula)
    `opn`, `cls`               `PlainMacro.braceAt`: the scanner makes the one-character special token
                               of the brace
    `ref`                      `PlainRef.refOk` (declared with `A`, no handler, replacement = one or
                               two visible text tokens; key `PlainVanish.keyOk`; `{` directly behind
                               the name)
    `cite`, `citeN`            `PlainRef.citeOk` / `citeNOk` (declared with `OA` and `h_cite`; note not
                               empty, without `]`, inert text) and `PlainRef.stateOk` (blank and `]`
                               are no active characters)
    `foot`                     `PlainFootnote.footOk` (body not empty, inert text without active
                               characters, visible text on its first and on its last line) and
                               `PlainFootnote.stateOk` (`\footnote` declared with `OA`, extraction `#2`;
                               single-language state)
    `head`                     `PlainHeading.headOk` (declared with `*OA` and `h_heading`; title
                               inert text, no line break, not blank) and `PlainHeading.stateOk`
                               (`.` is no active character)
    The conditions on the state are only asked for where the construct occurs.
    options                    no --defs, --extr, --repl, --unkn; single-language mode
    fuel                       `(render segs).length + 4 ≤ fuel` (two more than before: the handler
                               of a heading works below the loop)

  NOT covered: bodies of footnotes, titles of headings, notes of citations with anything but inert
  text (no macros, braces, maths, special sequences there: the single-construct theorems do not
  cover it either); `\footnote[n]{…}`, `\section*{…}`, `\section[short]{…}`; white space between a
  declared macro name and `{` / `[`; environments, `\item`, `\newcommand`, displayed maths, accents,
  `\\`, `#`; unterminated `\verb`; formulas with macros or groups; multi-language mode.

  Model behaviour worth knowing: see Proofs/PlainMixE2E.lean (lines of white space and blank special
  values are deleted); braces leave Action tokens, so a line that consists of `{` or `}` and white
  space only disappears with its line break; a footnote leaves an Action token in the main flow (a
  line with nothing but `\footnote{…}` disappears from the main text).
-/
import YalafiVerif.Proofs.PlainMix2Scan
namespace Yalafi
namespace PlainMix2

open M
open PlainMacro
open PlainMix (MathSt ReplOk mathReady mathReady_facts)
open PlainFootnote (flowToks)

/-! ### `scan`, `parserWork`, `parse`, `tex2txt` -/

theorem scan_mix2 (T : PTables) (st : PState) (src : Str) (ms : List Str → List Mark)
    (nms : List Str) (nf : Nat) (fl : List (Char × Nat)) (h : OkSrc T st 0 src ms nms nf fl) :
    (scan T.toTables src).diags = [] ∧
    ∃ ps, (scan T.toTables src).toks = flat ps ∧ PiecesOk T st ps ∧
      (∀ l, marksOf (outP T l ps) = ms l) ∧
      (∀ l, (∀ r ∈ l, ReplOk r) → ∀ t ∈ outP T l ps, Simple t) ∧
      cost ps ≤ src.length ∧ names ps = nms ∧ nMath ps = nf ∧
      charsOf ((flowsOf ps).map flowToks).flatten = fl := by
  obtain ⟨_, F⟩ := scanSteps_mix2 T st src src.length src.length 0 src ms nms nf fl (Nat.le_refl _)
    (Nat.le_refl _) h
  have he := flatten_tok_extra (scanSteps T.toTables src src.length 0 src).1 (fun s hs => (F.ok s hs).2)
  have hd := flatten_diag_nil (scanSteps T.toTables src src.length 0 src).1 (fun s hs => (F.ok s hs).1)
  obtain ⟨ps, h1, h2, h3, h4, h5, h6, h7, h8⟩ := F.pieces
  simp only [scan]
  rw [he, hd]
  exact ⟨rfl, ps, h1, h2, h3, h4, h5, h6, h7, h8⟩

/-- **`parserWork` on a well-formed source** (root level: `nest = 0` before the call).  The
    characters of the result tokens are the reference for the main flow; the flows are appended to
    `extracted`; the undeclared control words are recorded, the rotation records change; nothing
    else in the state changes. -/
theorem parserWork_mix2 (T : PTables) (st : PState) (src : Str) (fuel : Nat)
    (ms : List Str → List Mark) (nms : List Str) (nf : Nat) (fl : List (Char × Nat)) (rot : Rot)
    (ls : LangSettings)
    (hf : src.length + 4 ≤ fuel) (ha : noEmptyActive T st = true) (hn : st.nest = 0)
    (h : OkSrc T st 0 src ms nms nf fl) (hm : nf ≠ 0 → MathSt T st rot ls)
    (hr : ∀ r ∈ rot.inl, ReplOk r) :
    ∃ r rots' fls, parserWork T fuel src st
        = .ok (r, { st with unknowns := nms.foldl addU st.unknowns, rots := rots',
                            extracted := st.extracted ++ fls }) ∧
      charsOf r = delLines (ms rot.inl) ∧ charsOf (fls.map flowToks).flatten = fl := by
  obtain ⟨f, rfl⟩ : ∃ f, fuel = f + 1 := ⟨fuel - 1, by omega⟩
  obtain ⟨hd, ps, hflat, hpok, hmarks, hsimple, hcost, hnames, hnf, hfl⟩ :=
    scan_mix2 T st src ms nms nf fl h
  let st' : PState := { st with latex := src, nest := st.nest + 1 }
  have hpok' : PiecesOk T st' ps := PiecesOk.congr (st := st) (st' := st') rfl rfl rfl rfl hpok
  obtain ⟨st2, hs, hst2⟩ := seq_mix2 T none ls ps.length ps (Nat.le_refl _) f [] st' rot (by omega) hpok'
    ((noEmptyActive_congr T st st' rfl).trans ha) (fun h0 => by
      obtain ⟨a1, a2, a3⟩ := hm (by rw [← hnf]; exact h0)
      exact ⟨a1, a2, a3⟩)
  rw [List.nil_append] at hs
  obtain ⟨r, hr', hchars⟩ := removeLines_simple _ (hsimple rot.inl hr)
  rw [hr'] at hs
  simp only [] at hs
  rw [hmarks] at hchars
  refine ⟨r, st2.rots, flowsOf ps, ?_, hchars, hfl⟩
  rw [parserWork.eq_2]
  refine (M.bind_ok _ _ _ _ _ (rfl : M.get st = _)).trans ?_
  refine (M.bind_ok _ _ _ _ _ (rfl : M.modify _ _ = _)).trans ?_
  refine (M.bind_ok _ _ _ _ _ (rfl : M.modify _ _ = _)).trans ?_
  refine (M.bind_ok _ _ _ _ _ (rfl : M.get _ = _)).trans ?_
  simp only [hd, List.append_nil]
  rw [Comment.skipPass_nobegin { st with latex := src, nest := st.nest + 1 } _ _
    (fun t ht' => hpok'.nobegin t (by rw [← hflat]; exact ht'))]
  simp only []
  refine (M.bind_ok _ _ _ _ _ (rfl : (pure _ : M (List Tok)) _ = _)).trans ?_
  rw [hflat]
  refine (M.bind_ok _ _ _ _ _ hs).trans ?_
  refine (M.bind_ok _ _ _ _ _ (rfl : M.modify _ _ = _)).trans ?_
  show Outcome.ok _ = _
  rw [hst2]
  simp [st', endSt, hn, hnames]

theorem MathSt.congr {T : PTables} {st st' : PState} {rot : Rot} {ls : LangSettings}
    (hl : st'.langStack = st.langStack) (hr : st'.rots = st.rots) (h : MathSt T st rot ls) :
    MathSt T st' rot ls := by
  obtain ⟨h1, h2, h3⟩ := h
  refine ⟨?_, h2, ?_⟩
  · simpa [rotOf, curSettings, hl, hr] using h1
  · simpa [curSettings, hl] using h3

theorem parse_mix2 (T : PTables) (st : PState) (src : Str) (fuel : Nat)
    (ms : List Str → List Mark) (nms : List Str) (nf : Nat) (fl : List (Char × Nat)) (rot : Rot)
    (ls : LangSettings)
    (hf : src.length + 4 ≤ fuel) (ha : noEmptyActive T st = true)
    (h : OkSrc T st 0 src ms nms nf fl) (hm : nf ≠ 0 → MathSt T st rot ls)
    (hr : ∀ r ∈ rot.inl, ReplOk r) :
    ∃ r rots' fls, parse T fuel src [] [] st
        = .ok (r, { st with extracted := fls, unknowns := nms.eraseDups, foreign := false, nest := 0,
                            rots := rots' }) ∧
      charsOf r = delLines (ms rot.inl) ++ fl := by
  have h' : OkSrc T { st with extracted := [], unknowns := [], foreign := false, nest := 0 } 0 src ms nms
      nf fl :=
    OkSrc.congr (st := st)
      (st' := { st with extracted := [], unknowns := [], foreign := false, nest := 0 }) rfl rfl rfl rfl h
  obtain ⟨r, rots', fls, hw, hc, hfl⟩ := parserWork_mix2 T
    { st with extracted := [], unknowns := [], foreign := false, nest := 0 } src fuel ms nms nf fl rot ls
    hf ((noEmptyActive_congr T st _ rfl).trans ha) rfl h'
    (fun h0 => MathSt.congr (st := st) rfl rfl (hm h0)) hr
  refine ⟨r ++ (fls.map flowToks).flatten, rots', fls, ?_, by rw [charsOf_append, hc, hfl]⟩
  unfold parse
  simp only [List.isEmpty_nil, Bool.not_true, Bool.false_eq_true, if_false, if_true]
  refine (M.bind_ok _ _ _ _ _ (rfl : M.modify _ _ = _)).trans ?_
  refine (M.bind_ok _ _ _ _ _ (rfl : (pure _ : M (List Tok)) _ = _)).trans ?_
  refine (M.bind_ok _ _ _ _ _ (rfl : M.modify _ _ = _)).trans ?_
  refine (M.bind_ok _ _ _ _ _ hw).trans ?_
  refine (M.bind_ok _ _ _ _ _ (rfl : M.get _ = _)).trans ?_
  show Outcome.ok _ = _
  simp only [List.nil_append, foldl_addU_nil]
  rfl

/-- the result record of `tex2txt` on a well-formed source (no `--defs`, `--extr`, `--repl`,
    `--unkn`; single-language mode) -/
theorem tex2txt_mix2_src (T : PTables) (o : Options) (fs : FS) (thresh : Nat) (src : Str) (fuel : Nat)
    (st1 : PState) (ms : List Str → List Mark) (nms : List Str) (nf : Nat) (fl : List (Char × Nat))
    (rot : Rot) (ls : LangSettings)
    (hdefs : o.defs = []) (hextr : o.extr = []) (hrepl : o.hasRepl = false) (hunkn : o.unkn = false)
    (hinit : initParser T fuel o (initialState T o false fs) = .ok ((), st1))
    (ha : noEmptyActive T st1 = true) (h : OkSrc T st1 0 src ms nms nf fl)
    (hm : nf ≠ 0 → MathSt T st1 rot ls) (hr : ∀ r ∈ rot.inl, ReplOk r)
    (hf : src.length + 4 ≤ fuel) :
    ∃ toks, tex2txt T fuel src o false thresh fs
        = .ok { toks := toks, txt := (delLines (ms rot.inl) ++ fl).map (·.1),
                pos := (delLines (ms rot.inl) ++ fl).map (·.2 + 1), parts := [],
                unknowns := nms.eraseDups, diags := st1.diags, foreign := false } := by
  obtain ⟨r, rots', fls, hp, hc⟩ := parse_mix2 T st1 src fuel ms nms nf fl rot ls hf ha h hm hr
  refine ⟨r, ?_⟩
  have hrun : (initParser T fuel o >>= fun _ => parse T fuel src o.defs
        (if o.extr.isEmpty then [] else (splitOn ',' o.extr []).map (fun s => '\\' :: s)))
        (initialState T o false fs)
      = .ok (r, { st1 with extracted := fls, unknowns := nms.eraseDups, foreign := false, nest := 0,
                           rots := rots' }) := by
    refine (M.bind_ok _ _ _ _ _ hinit).trans ?_
    rw [hdefs, hextr]
    exact hp
  unfold tex2txt
  simp only []
  rw [hrun]
  simp only [hrepl, hunkn, Bool.not_false, if_true, Bool.false_eq_true, if_false,
    getTxtPos_charsOf, hc, List.map_map]
  rfl

/-! ### the end-to-end theorem -/

/-- all side conditions on the tables, the initialised parser state and the document -/
def SegsOk (T : PTables) (st : PState) (repls : List Str) (segs : List Seg) : Prop :=
  noEmptyActive T st = true ∧ segsOk T st segs = true ∧
  (nFormulas segs = 0 ∨ mathReady T st repls = true)

instance (T : PTables) (st : PState) (repls : List Str) (segs : List Seg) :
    Decidable (SegsOk T st repls segs) := by
  unfold SegsOk; infer_instance

/-- **the end-to-end theorem for the enlarged union grammar** -/
theorem tex2txt_mix2 (T : PTables) (o : Options) (fs : FS) (thresh : Nat) (segs : List Seg)
    (fuel : Nat) (st1 : PState) (repls : List Str)
    (hdefs : o.defs = []) (hextr : o.extr = []) (hrepl : o.hasRepl = false) (hunkn : o.unkn = false)
    (hinit : initParser T fuel o (initialState T o false fs) = .ok ((), st1))
    (hok : SegsOk T st1 repls segs) (hf : (render segs).length + 4 ≤ fuel) :
    ∃ r, tex2txt T fuel (render segs) o false thresh fs = .ok r ∧
      r.txt = (delLines (marks T st1 repls 0 0 segs) ++ flows 0 segs).map (·.1) ∧
      r.pos = (delLines (marks T st1 repls 0 0 segs) ++ flows 0 segs).map (·.2 + 1) ∧
      r.unknowns = (cwNames segs).eraseDups ∧ r.diags = st1.diags ∧ r.parts = [] := by
  obtain ⟨ha, hsegs, hmath⟩ := hok
  have hsrc := OkSrc_of_segsOk T st1 segs 0 hsegs
  rcases hmath with h0 | hmr
  · let rot0 : Rot := { code := [], inl := [], disp := [], chg := [] }
    obtain ⟨toks, ht⟩ := tex2txt_mix2_src T o fs thresh (render segs) fuel st1 _ _ _ _ rot0 default
      hdefs hextr hrepl hunkn hinit ha hsrc (fun h => absurd h0 h) (by simp [rot0]) hf
    simp only [rot0, marksL_nomath T st1 [] repls segs 0 0 h0] at ht
    exact ⟨_, ht, rfl, rfl, rfl, rfl, rfl⟩
  · obtain ⟨rot, ls, hst, hinl, hro⟩ := mathReady_facts hmr
    obtain ⟨toks, ht⟩ := tex2txt_mix2_src T o fs thresh (render segs) fuel st1 _ _ _ _ rot ls
      hdefs hextr hrepl hunkn hinit ha hsrc (fun _ => hst) (by rw [hinl]; exact hro) hf
    have hne : repls ≠ [] := by rw [← hinl]; exact hst.2.1
    have hm := marksL_eq T st1 repls hne segs 0 0
    simp only [PlainMath.rotN] at hm
    simp only [hinl, hm] at ht
    exact ⟨_, ht, rfl, rfl, rfl, rfl, rfl⟩

end PlainMix2
end Yalafi
