/-
  Proofs/PlainMacro.lean — C09 "a user definition expands by substitution" and C04 "text generated
  by a macro maps to the position of its use", end to end on the model, for documents that consist of
  inert text (as in Proofs/Plain.lean / Proofs/PlainUnknown.lean), parameterless definitions
  `\newcommand{\name}{body}` and uses `\name` / `\name{}`.

  Documents
    `Seg`, `render`            text | `.defn name body ↦ \newcommand{\name}{body}` | `.use name br ↦ \name` / `\name{}`
    `segsOk`, `SegsOk`         well-formedness (computable; all side conditions);
                               `segsOkSimple`, `tablesOk`, `segsOk_of_simple`: context-free sufficient conditions
  Expander level (token buffers; independent of the scanner)
    `lookup_setMacro`          `the_macros[name] = m` followed by a look-up
    `genRepl_noref`            `generate_replacements` on a body without `#k`: the body tokens, re-stamped
                               (position of the use, `fix`)
    `collectArgs_def`          `expand_arguments` collects `[[], [\name], [], [], body]` for `*AOOA`
    `callHandler_newcommand`   (1) the handler step: `h_newcommand` stores `{name, args := [], repl := body}`
                               and returns `[]`
    `expandMacro_def`, `seq_def_step`   (2) the definition step: an Action token at the position of
                               `\newcommand`, the macro stored, the buffer behind the closing brace
    `expandMacro_use`, `seq_use_step`   (3) the use step: `mkAction p :: body tokens re-stamped at p`, the
                               white space behind the name skipped, the state unchanged; a name that is
                               not (yet) defined is an unknown macro (recorded once, leaves an Action token)
    `Piece`, `PiecesOk`, `StOk`, `outP`, `finalSt`, `cost`, `seq_macro`   the loop `expandSequence` on a
                               buffer of plain tokens, definitions and uses, with the fuel bound `cost + 4`
  Blank-line removal, exactly (token lists; independent of the rest)
    `Mark`, `marksOf`, `delLines`   characters with positions and Action marks; the reference: a line
                               (with its line break) is deleted iff it is blank and holds a mark
    `Simple`, `removeLines_simple`  for token lists in which Action tokens have no text, there is no
                               language token and a token with a line break is blank,
                               `remove_pure_action_lines` is `delLines` on the marks — characters *and*
                               positions (proof: `LinesRel_chars`, by induction on the relational form
                               `LinesRel` of the loop, invariant `WL` on the work list)
    `delLines_kept`, `delLines_drop_line`   the two readings of the reference (below)
  Source level
    `OkSrc`, `scanSteps_body`, `scanSteps_macro`, `scan_macro`   the scanner: one macro token per
                               `\newcommand` / `\name`, one special token per brace, plain tokens for the
                               body and the text
    `Link`, `Rel`, `link_sem`  what the token buffer means (marks, fuel, unknowns) in terms of the source
    `parserWork_macro`, `parse_macro`, `tex2txt_macro_src`   the lifts
    `segMarks`, `segUnknowns`, `segInserted`, `expand`   the reference on segments
    `tex2txt_newcommand`       the end-to-end statement
    `tex2txt_newcommand_kept`  … when no line is deleted: the output is the expansion `expand`

  The end-to-end statement.  `tex2txt` succeeds; text and (1-based) positions are
  `delLines (segMarks [] 0 segs)`:
    * a text character is copied with its own position;
    * a definition leaves no text (one Action mark) and comes into force behind it (redefinition
      allowed: the latest earlier definition counts);
    * a use is replaced by the body in force, *every character of it at the position of the backslash
      of the use*; a use of a name that is not (yet) defined leaves no text, the name goes to the
      unknowns list (each name once, in order of first use);
    * then `remove_pure_action_lines` deletes every line (up to and including its line break) that
      consists of white space only and holds at least one definition, use or `{}` — in
      particular a definition that stands on a line of its own disappears with its whole line
      (`delLines_drop_line`); if every such line also holds visible text nothing is deleted and the
      output is `expand [] 0 segs` (`delLines_kept`, `tex2txt_newcommand_kept`);
    * no diagnostic is added, `unknowns` as described.

  Side conditions (all in `SegsOk T st1 segs`, decidable; `st1` = state after `Parser.__init__`)
    `noEmptyActive T st1`      no short macro has an empty key (Proofs/PlainUnknown.lean)
    `ncOk st1`                 `\newcommand` is declared with arguments `*AOOA`, the handler
                               `h_newcommand`, no default values, no extraction text (real tables: yes)
    text segments              `textOk` of Proofs/PlainUnknown.lean: inert in their right context
    definitions (`defOk`)      `\newcommand` and `\name` are scanned as macro tokens and the four braces
                               as `{` `}` (no special sequence of the tables interferes); `name`: ASCII
                               letters / `@`, none of `\begin \end \item \verb \def`, no accent macro, *not
                               declared in `st1`* (`cwOk`), not in `newcommand_ignore`; `body`: non-empty,
                               only `inertChar`s (never active, white space or no structural character
                               `% # \ $ { }` and no start of a special sequence; line breaks are allowed)
    uses (`useOk`)             the same conditions on the name (defined or not); `{}` behind it, or a
                               character that is neither a letter (it would continue the name) nor white
                               space (`skip_space` behind a macro name would eat it) or the end
    options                    no --defs, --extr, --repl, --unkn; single-language mode
    fuel                       `(render segs).length + segInserted [] segs + 5 ≤ fuel`: one unit per source
                               character, one per inserted character (the body is expanded again at every
                               use), five more (`parserWork`, the last iteration of the loop, and the
                               handler of `\newcommand`, which nests five calls deep)
-/
import YalafiVerif.Proofs.Plain
import YalafiVerif.Proofs.PlainUnknown
namespace Yalafi
namespace PlainMacro

open M

/-! ### the macro table -/

/-- the macro stored by `\newcommand{\name}{body}` -/
def userMacro (name : Str) (body : List Tok) : MacroDef := { name := name, args := [], repl := body }

theorem find_setMacro (ms : List MacroDef) (m : MacroDef) (n : Str) :
    (setMacro ms m).find? (·.name == n) = if m.name == n then some m else ms.find? (·.name == n) := by
  unfold setMacro
  by_cases hany : ms.any (·.name == m.name) = true
  · rw [if_pos hany]
    induction ms with
    | nil => simp at hany
    | cons x xs ih =>
      by_cases hx : x.name = m.name
      · by_cases hn : m.name = n
        · simp [hx, hn]
        · have : (m.name == n) = false := by simpa using hn
          simp only [List.map_cons, hx, beq_self_eq_true, if_true, List.find?_cons, this]
          by_cases hany' : xs.any (·.name == m.name) = true
          · have := ih hany'
            rw [this]; simp [hn]
          · have hnone : ∀ y ∈ xs, (y.name == m.name) = false := by
              intro y hy
              cases hb : y.name == m.name with
              | false => rfl
              | true => exact absurd (List.any_eq_true.mpr ⟨y, hy, hb⟩) hany'
            have hmap : xs.map (fun x => if (x.name == m.name) = true then m else x) = xs := by
              conv => rhs; rw [← List.map_id xs]
              apply List.map_congr_left
              intro y hy
              simp [hnone y hy]
            simp only [Bool.false_eq_true, if_false]
            rw [hmap]
      · have hx' : (x.name == m.name) = false := by simpa using hx
        have hany' : xs.any (·.name == m.name) = true := by simpa [hx'] using hany
        simp only [List.map_cons, hx', Bool.false_eq_true, if_false, List.find?_cons]
        by_cases hxn : x.name = n
        · have : (m.name == n) = false := by
            rw [← hxn]; simpa using fun e : m.name = x.name => hx e.symm
          simp [hxn, this]
        · have hxn' : (x.name == n) = false := by simpa using hxn
          rw [hxn']
          exact ih hany'
  · rw [if_neg hany]
    have hnone : ∀ y ∈ ms, (y.name == m.name) = false := by
      intro y hy
      cases hb : y.name == m.name with
      | false => rfl
      | true => exact absurd (List.any_eq_true.mpr ⟨y, hy, hb⟩) hany
    rw [List.find?_append]
    by_cases hn : m.name = n
    · have : ms.find? (·.name == n) = none := by
        rw [List.find?_eq_none]
        intro y hy
        rw [← hn]; simp [hnone y hy]
      simp [this, hn]
    · have : (m.name == n) = false := by simpa using hn
      simp [this]

theorem lookup_setMacro (st : PState) (m : MacroDef) (n : Str) :
    lookupMacro { st with macros := setMacro st.macros m } n
      = if m.name == n then some m else lookupMacro st n := by
  unfold lookupMacro
  exact find_setMacro st.macros m n


/-! ### `generateReplacements` for a body without parameters -/

/-- a body token, re-stamped at the position of the use -/
def restamp (p : Nat) (t : Tok) : Tok := { t with pos := p, fix := true }

theorem genReplLoop_noref (args : List (List Tok)) : ∀ (b : List Tok) (cur : Nat) (out : List Tok),
    (∀ t ∈ b, argRef t = none) → genReplLoop args b cur out = some (out ++ b.map (restamp cur))
  | [], _, out, _ => by simp [genReplLoop]
  | t :: ts, cur, out, h => by
    have ht : argRef t = none := h t (List.mem_cons_self ..)
    simp only [genReplLoop, ht]
    rw [genReplLoop_noref args ts cur _ (fun x hx => h x (List.mem_cons_of_mem _ hx))]
    simp [restamp]

theorem initCurPos_noref (args : List (List Tok)) : ∀ (b : List Tok) (cur : Nat),
    (∀ t ∈ b, argRef t = none) → initCurPos args b cur = some cur
  | [], _, _ => rfl
  | t :: ts, cur, h => by
    have ht : argRef t = none := h t (List.mem_cons_self ..)
    simp only [initCurPos, ht]
    exact initCurPos_noref args ts cur (fun x hx => h x (List.mem_cons_of_mem _ hx))

theorem genRepl_noref (args : List (List Tok)) (b : List Tok) (start : Nat)
    (h : ∀ t ∈ b, argRef t = none) :
    generateReplacements args b start = some (b.map (restamp start)) := by
  simp only [generateReplacements, initCurPos_noref args b start h, genReplLoop_noref args b start [] h,
    List.nil_append]

/-! ### braces and argument collection -/

def lbr (p : Nat) : Tok := { kind := .special, pos := p, txt := ['{'] }
def rbr (p : Nat) : Tok := { kind := .special, pos := p, txt := ['}'] }

/-- the token does not count as a brace in `arg_buffer` -/
def NoBrace (t : Tok) : Prop := txtIsNV t "{" = false ∧ txtIsNV t "}" = false

theorem collectArg_brace (q : Nat) (rest : Buf) : ∀ (arg : List Tok) (acc : List Tok),
    (∀ t ∈ arg, NoBrace t) →
    collectArg ['}'] 1 (arg ++ rbr q :: rest) acc = some (acc.reverse ++ arg, rest)
  | [], acc, _ => by
    simp [collectArg, rbr, txtIsNV, isVerb]
  | t :: ts, acc, h => by
    obtain ⟨h1, h2⟩ := h t (List.mem_cons_self ..)
    simp only [List.cons_append, collectArg, h1, h2, Bool.false_eq_true, if_false]
    rw [show ((1 : Int) == 0) = false by decide, Bool.and_false, if_neg (by simp)]
    rw [collectArg_brace q rest ts (t :: acc) (fun x hx => h x (List.mem_cons_of_mem _ hx))]
    simp

theorem skipSpace_cons_of_not (t : Tok) (ts : Buf) (h : isSpaceTok t = false) :
    skipSpace (t :: ts) = t :: ts := by
  simp [skipSpace, h]

theorem argBufferPure_brace (mark : Str) (p q : Nat) (arg : List Tok) (rest : Buf) (start : Nat)
    (h : ∀ t ∈ arg, NoBrace t) (hne : arg ≠ []) :
    argBufferPure mark (lbr p :: (arg ++ rbr q :: rest)) start true = { arg := arg, buf := rest } := by
  have hc := collectArg_brace q rest arg [] h
  have he : arg.isEmpty = false := by cases arg <;> simp_all
  unfold argBufferPure
  rw [skipSpace_cons_of_not _ _ (by rfl)]
  have h1 : ((lbr p).kind == Kind.par) = false := by rfl
  have h2 : txtIsNV (lbr p) "{" = true := by simp [txtIsNV, lbr, isVerb]
  simp only [h1, h2, Bool.false_eq_true, if_false, Bool.not_true, Bool.and_false, if_true, hc, he,
    List.reverse_nil, List.nil_append]

theorem argBuffer_brace (T : Tables) (p q : Nat) (arg : List Tok) (rest : Buf) (start : Nat)
    (st : PState) (h : ∀ t ∈ arg, NoBrace t) (hne : arg ≠ []) :
    argBuffer T (lbr p :: (arg ++ rbr q :: rest)) start true st = .ok ((arg, rest), st) := by
  unfold argBuffer
  rw [argBufferPure_brace T.mark p q arg rest start h hne]
  rfl

/-- the declaration of `\\newcommand` the development relies on: signature `*AOOA`, the handler,
    no default values, no extraction text (as in the real tables) -/
def ncDeclOk (m : MacroDef) : Bool :=
  m.args == ['*', 'A', 'O', 'O', 'A'] && m.handler == .newcommand && m.defaults.isEmpty &&
  m.extract.isEmpty

theorem skippedLangs_cons_of_not (t : Tok) (ts : Buf) (h : isSpaceTok t = false) :
    skippedLangs (t :: ts) = [] := by
  simp [skippedLangs, h]

/-- `collectArgs` on `{\name}{body}` for the signature `*AOOA` -/
theorem collectArgs_def (T : PTables) (mac : MacroDef) (hd : mac.defaults = [])
    (p1 p2 p3 p4 : Nat) (nameTok : Tok) (hname : NoBrace nameTok) (b : List Tok)
    (hb : ∀ t ∈ b, NoBrace t) (hbne : b ≠ []) (rest : Buf) (start : Nat) (st : PState) :
    collectArgs T mac ['*', 'A', 'O', 'O', 'A'] 0
        (lbr p1 :: nameTok :: rbr p2 :: lbr p3 :: (b ++ rbr p4 :: rest)) start {} st
      = .ok (({ args := [[], [nameTok], [], [], b], extr := [[], [nameTok], [], [], b], langs := [] },
              rest), st) := by
  have hl : ∀ p, isSpaceTok (lbr p) = false := fun _ => rfl
  have a1 := argBuffer_brace T.toTables p1 p2 [nameTok] (lbr p3 :: (b ++ rbr p4 :: rest)) p1 st
    (by simpa using hname) (by simp)
  have a2 := argBuffer_brace T.toTables p3 p4 b rest p3 st hb hbne
  simp only [List.cons_append, List.nil_append] at a1
  -- '*'
  rw [collectArgs]
  simp only [skippedLangs_cons_of_not _ _ (hl p1), skipSpace_cons_of_not _ _ (hl p1), List.append_nil,
    List.head?_cons, beq_self_eq_true, if_true, show txtIsNV (lbr p1) "*" = false by rfl,
    Bool.false_eq_true, if_false]
  -- 'A'
  rw [collectArgs]
  simp only [skippedLangs_cons_of_not _ _ (hl p1), skipSpace_cons_of_not _ _ (hl p1), List.append_nil,
    List.head?_cons, show ('A' == '*') = false by decide, show ('A' == 'O') = false by decide,
    beq_self_eq_true, if_true, show txtIsNV (lbr p1) "}" = false by rfl, Bool.false_eq_true, if_false]
  refine (M.bind_ok _ _ _ _ _ a1).trans ?_
  -- 'O', 'O'
  rw [collectArgs]
  simp only [skippedLangs_cons_of_not _ _ (hl p3), skipSpace_cons_of_not _ _ (hl p3), List.append_nil,
    List.head?_cons, show ('O' == '*') = false by decide, beq_self_eq_true, if_true,
    show txtIsNV (lbr p3) "[" = false by rfl, Bool.false_eq_true, if_false, hd, List.getElem?_nil]
  rw [collectArgs]
  simp only [skippedLangs_cons_of_not _ _ (hl p3), skipSpace_cons_of_not _ _ (hl p3), List.append_nil,
    List.head?_cons, show ('O' == '*') = false by decide, beq_self_eq_true, if_true,
    show txtIsNV (lbr p3) "[" = false by rfl, Bool.false_eq_true, if_false, hd, List.getElem?_nil]
  -- 'A'
  rw [collectArgs]
  simp only [skippedLangs_cons_of_not _ _ (hl p3), skipSpace_cons_of_not _ _ (hl p3), List.append_nil,
    List.head?_cons, show ('A' == '*') = false by decide, show ('A' == 'O') = false by decide,
    beq_self_eq_true, if_true, show txtIsNV (lbr p3) "}" = false by rfl, Bool.false_eq_true, if_false]
  refine (M.bind_ok _ _ _ _ _ a2).trans ?_
  rw [collectArgs]
  rfl

/-! ### the handler -/

theorem removeLines_nil : removeLines [] = some [] := by decide

theorem getTextExpanded_nil (T : PTables) (fuel : Nat) (st : PState) :
    getTextExpanded T (fuel + 2) [] st = .ok ([], st) := by
  rw [getTextExpanded.eq_2]
  have h : expandSequence T (fuel + 1) [] none [] st = .ok (([], []), st) := by
    rw [expandSequence.eq_2, removeLines_nil]; rfl
  refine (M.bind_ok _ _ _ _ _ h).trans ?_
  rfl

/-- **the handler step.**  On the arguments collected from `{\name}{body}` (no star, no number of
    arguments, no default) `h_newcommand` stores the parameterless macro and returns no tokens. -/
theorem callHandler_newcommand (T : PTables) (fuel : Nat) (buf : Buf) (mac : MacroDef) (nameTok : Tok)
    (hk : nameTok.kind ≠ .comment) (b : List Tok) (hb : ∀ t ∈ b, argRef t = none) (pos : Nat)
    (st : PState) (hign : st.newcommandIgnore.contains nameTok.txt = false) :
    callHandler T (fuel + 3) .newcommand buf mac [[], [nameTok], [], [], b] pos st
      = .ok ([], { st with macros := setMacro st.macros (userMacro nameTok.txt b) }) := by
  have hname : getTextDirect [nameTok] = nameTok.txt := by
    simp [getTextDirect, hk]
  rw [callHandler.eq_4]
  simp only [List.getElem?_cons_succ, List.getElem?_cons_zero]
  refine (M.bind_ok _ _ _ _ _ (rfl : (pure [nameTok] : M (List Tok)) st = _)).trans ?_
  refine (M.bind_ok _ _ _ _ _ (rfl : (pure [] : M (List Tok)) st = _)).trans ?_
  refine (M.bind_ok _ _ _ _ _ (rfl : (pure [] : M (List Tok)) st = _)).trans ?_
  refine (M.bind_ok _ _ _ _ _ (rfl : (pure b : M (List Tok)) st = _)).trans ?_
  refine (M.bind_ok _ _ _ _ _ (rfl : M.get st = _)).trans ?_
  simp only [hname, hign, Bool.false_eq_true, if_false]
  refine (M.bind_ok _ _ _ _ _ (getTextExpanded_nil T fuel st)).trans ?_
  simp only [List.isEmpty_nil, Bool.not_true, Bool.false_and, Bool.false_eq_true, if_false,
    List.replicate_zero]
  generalize hfd : List.find? _ b = r
  cases r with
  | some bad =>
    have h1 := List.mem_of_find?_eq_some hfd
    have h2 := List.find?_some hfd
    simp [hb bad h1] at h2
  | none => rfl

/-! ### the definition step and the use step of `expandMacro` -/

theorem ncDeclOk_facts {m : MacroDef} (h : ncDeclOk m = true) :
    m.args = ['*', 'A', 'O', 'O', 'A'] ∧ m.handler = .newcommand ∧ m.defaults = [] ∧ m.extract = [] := by
  simp only [ncDeclOk, Bool.and_eq_true, beq_iff_eq, List.isEmpty_iff] at h
  exact ⟨h.1.1.1, h.1.1.2, h.1.2, h.2⟩

theorem expandArguments_def (T : PTables) (fuel : Nat) (mac : MacroDef) (hmac : ncDeclOk mac = true)
    (p1 p2 p3 p4 : Nat) (nameTok : Tok) (hname : NoBrace nameTok) (hk : nameTok.kind ≠ .comment)
    (b : List Tok) (hb : ∀ t ∈ b, NoBrace t) (hbr : ∀ t ∈ b, argRef t = none) (hbne : b ≠ [])
    (rest : Buf) (start : Nat) (st : PState) (hign : st.newcommandIgnore.contains nameTok.txt = false) :
    expandArguments T (fuel + 4) (lbr p1 :: nameTok :: rbr p2 :: lbr p3 :: (b ++ rbr p4 :: rest)) mac start st
      = .ok (([mkAction start], rest),
             { st with macros := setMacro st.macros (userMacro nameTok.txt b) }) := by
  obtain ⟨ha, hh, hd, he⟩ := ncDeclOk_facts hmac
  rw [expandArguments.eq_2, ha]
  refine (M.bind_ok _ _ _ _ _
    (collectArgs_def T mac hd p1 p2 p3 p4 nameTok hname b hb hbne rest start st)).trans ?_
  simp only [he, hh, List.isEmpty_nil, Bool.not_true, Bool.false_eq_true, if_false,
    show (Handler.newcommand != Handler.none) = true by decide, if_true]
  refine (M.bind_ok _ _ _ _ _
    (callHandler_newcommand T fuel rest mac nameTok hk b hbr start st hign)).trans ?_
  rfl

theorem skipSpaceStopLang_cons_of_not (t : Tok) (ts : Buf) (h : isSpaceTok t = false) :
    skipSpaceStopLangAct (t :: ts) = t :: ts := by
  simp [skipSpaceStopLangAct, h]

/-- **the definition step of `expandMacro`**: `\\newcommand` followed by `{\name}{body}` stores the
    macro, leaves an Action token at the position of `\\newcommand` and the buffer behind the
    closing brace -/
theorem expandMacro_def (T : PTables) (fuel : Nat) (mac : MacroDef) (hmac : ncDeclOk mac = true)
    (p1 p2 p3 p4 : Nat) (nameTok : Tok) (hname : NoBrace nameTok) (hk : nameTok.kind ≠ .comment)
    (b : List Tok) (hb : ∀ t ∈ b, NoBrace t) (hbr : ∀ t ∈ b, argRef t = none) (hbne : b ≠ [])
    (rest : Buf) (tok : Tok) (st : PState) (hl : lookupMacro st tok.txt = some mac)
    (hign : st.newcommandIgnore.contains nameTok.txt = false) :
    expandMacro T (fuel + 5) (lbr p1 :: nameTok :: rbr p2 :: lbr p3 :: (b ++ rbr p4 :: rest)) tok false st
      = .ok (([mkAction tok.pos], rest),
             { st with macros := setMacro st.macros (userMacro nameTok.txt b) }) := by
  rw [expandMacro.eq_2]
  refine (M.bind_ok _ _ _ _ _ (rfl : M.get st = _)).trans ?_
  simp only [hl, skipSpaceStopLang_cons_of_not _ _ (rfl : isSpaceTok (lbr p1) = false)]
  exact expandArguments_def T fuel mac hmac p1 p2 p3 p4 nameTok hname hk b hb hbr hbne rest tok.pos st hign

/-- **the use step of `expandMacro`**: a defined parameterless macro returns an Action token and
    the body tokens re-stamped (fixed) at the position of the use; the white space behind the
    name is skipped; the state is unchanged -/
theorem expandMacro_use (T : PTables) (fuel : Nat) (rest : Buf) (tok : Tok) (st : PState)
    (nm : Str) (b : List Tok) (hl : lookupMacro st tok.txt = some (userMacro nm b))
    (hbr : ∀ t ∈ b, argRef t = none) :
    expandMacro T (fuel + 2) rest tok false st
      = .ok ((mkAction tok.pos :: b.map (restamp tok.pos), skipSpaceStopLangAct rest), st) := by
  rw [expandMacro.eq_2]
  refine (M.bind_ok _ _ _ _ _ (rfl : M.get st = _)).trans ?_
  simp only [hl]
  rw [expandArguments.eq_2]
  simp only [userMacro, collectArgs]
  refine (M.bind_ok _ _ _ _ _ (rfl : (pure _ : M (Args × Buf)) st = _)).trans ?_
  simp only [List.isEmpty_nil, Bool.false_eq_true, if_false,
    show (Handler.none != Handler.none) = false by decide, genRepl_noref [] b tok.pos hbr]
  simp
  rfl

/-! ### the token buffers -/

/-- the name `newcommand` (without backslash) -/
def ncName : Str := "newcommand".toList

/-- the pieces of a token buffer: a token that is copied, a definition
    `\\newcommand { \name } { body }`, a use `\name` with or without `{}` behind it -/
inductive Piece where
  | tok (t : Tok)
  | defn (p q1 q2 q3 q4 q5 : Nat) (name : Str) (body : List Tok)
  | use (p : Nat) (name : Str) (br : Option (Nat × Nat))

def brToks : Option (Nat × Nat) → List Tok
  | none => []
  | some (a, b) => [lbr a, rbr b]

def brActs : Option (Nat × Nat) → List Tok
  | none => []
  | some (a, b) => [mkAction a, mkAction b]

def Piece.toks : Piece → List Tok
  | .tok t => [t]
  | .defn p q1 q2 q3 q4 q5 name body =>
    cwTok p ncName :: lbr q1 :: cwTok q2 name :: rbr q3 :: lbr q4 :: (body ++ [rbr q5])
  | .use p name br => cwTok p name :: brToks br

/-- the token buffer -/
def flat : List Piece → List Tok
  | [] => []
  | p :: ps => p.toks ++ flat ps

/-- the tokens of a body: plain tokens (text and white space) that are never "active" -/
def GoodBody (T : PTables) (st : PState) (b : List Tok) : Prop :=
  b ≠ [] ∧ ∀ t ∈ b, PlainTok t ∧ (activeChars T st).contains t.txt = false

/-- a name that may be defined and used: not `\\def`, not declared in the initialised parser, not
    protected against redefinition -/
structure NameOk (st1 : PState) (name : Str) : Prop where
  nDef : ('\\' :: name) ≠ sDef
  undecl : lookupMacro st1 ('\\' :: name) = none
  nIgn : st1.newcommandIgnore.contains ('\\' :: name) = false

def PiecesOk (T : PTables) (st1 : PState) : List Piece → Prop
  | [] => True
  | .tok t :: rest => PlainTok t ∧ PassTok T st1 t (flat rest) ∧ PiecesOk T st1 rest
  | .defn _ _ _ _ _ _ name body :: rest => NameOk st1 name ∧ GoodBody T st1 body ∧ PiecesOk T st1 rest
  | .use _ name br :: rest =>
    NameOk st1 name ∧ (br = none → skipSpaceStopLangAct (flat rest) = flat rest) ∧ PiecesOk T st1 rest

/-- the parser state while the document is expanded, relative to the initialised state `st1`:
    declared macros keep their meaning, every other macro is a parameterless user macro with a
    good body -/
structure StOk (T : PTables) (st1 st : PState) : Prop where
  lang : st.langStack = st1.langStack
  ign : st.newcommandIgnore = st1.newcommandIgnore
  decl : ∀ nm m, lookupMacro st1 nm = some m → lookupMacro st nm = some m
  user : ∀ nm m, lookupMacro st1 nm = none → lookupMacro st nm = some m →
    ∃ b, m = userMacro nm b ∧ GoodBody T st1 b

theorem StOk.refl (T : PTables) (st1 : PState) : StOk T st1 st1 :=
  ⟨rfl, rfl, fun _ _ h => h, fun nm m h1 h2 => by rw [h1] at h2; cases h2⟩

/-- the state after a definition -/
def defSt (st : PState) (name : Str) (body : List Tok) : PState :=
  { st with macros := setMacro st.macros (userMacro ('\\' :: name) body) }

/-- the state after a use: an undefined name is recorded -/
def useSt (st : PState) (name : Str) : PState :=
  match lookupMacro st ('\\' :: name) with
  | some _ => st
  | none => { st with unknowns := addU st.unknowns ('\\' :: name) }

/-- the body tokens a use at position `p` inserts -/
def useBody (st : PState) (p : Nat) (name : Str) : List Tok :=
  match lookupMacro st ('\\' :: name) with
  | some m => m.repl.map (restamp p)
  | none => []

theorem StOk.defSt {T : PTables} {st1 st : PState} (h : StOk T st1 st) (name : Str) (body : List Tok)
    (hn : NameOk st1 name) (hb : GoodBody T st1 body) : StOk T st1 (defSt st name body) := by
  refine ⟨h.lang, h.ign, ?_, ?_⟩
  · intro nm m hm
    rw [PlainMacro.defSt, lookup_setMacro]
    have : (userMacro ('\\' :: name) body).name ≠ nm := by
      intro e
      have : lookupMacro st1 nm = none := by rw [← e]; exact hn.undecl
      rw [this] at hm; cases hm
    rw [if_neg (by simpa using this)]
    exact h.decl nm m hm
  · intro nm m h1 h2
    rw [PlainMacro.defSt, lookup_setMacro] at h2
    by_cases e : (userMacro ('\\' :: name) body).name = nm
    · rw [if_pos (by simpa using e)] at h2
      cases h2
      exact ⟨body, by rw [← e]; rfl, hb⟩
    · rw [if_neg (by simpa using e)] at h2
      exact h.user nm m h1 h2

theorem StOk.useSt {T : PTables} {st1 st : PState} (h : StOk T st1 st) (name : Str) :
    StOk T st1 (useSt st name) := by
  unfold PlainMacro.useSt
  split
  · exact h
  · exact ⟨h.lang, h.ign, h.decl, h.user⟩

/-- what `expandSequence` emits for the pieces before the blank-line removal -/
def outP : PState → List Piece → List Tok
  | _, [] => []
  | st, .tok t :: rest => t :: outP st rest
  | st, .defn p _ _ _ _ _ name body :: rest => mkAction p :: outP (defSt st name body) rest
  | st, .use p name br :: rest =>
    mkAction p :: (useBody st p name ++ (brActs br ++ outP (useSt st name) rest))

/-- the state after the pieces -/
def finalSt : PState → List Piece → PState
  | st, [] => st
  | st, .tok _ :: rest => finalSt st rest
  | st, .defn _ _ _ _ _ _ name body :: rest => finalSt (defSt st name body) rest
  | st, .use _ name _ :: rest => finalSt (useSt st name) rest

/-- iterations of `expandSequence` -/
def cost : PState → List Piece → Nat
  | _, [] => 0
  | st, .tok _ :: rest => 1 + cost st rest
  | st, .defn _ _ _ _ _ _ name body :: rest => 2 + cost (defSt st name body) rest
  | st, .use p name br :: rest =>
    2 + (useBody st p name).length + (brToks br).length + cost (useSt st name) rest

/-! ### steps of `expandSequence` -/

theorem seq_brace_step (T : PTables) (fuel : Nat) (t : Tok) (rest : Buf) (envStop : Option Str)
    (out : List Tok) (st : PState) (hk : t.kind = .special) (ht : t.txt = ['{'] ∨ t.txt = ['}']) :
    expandSequence T (fuel + 1) (t :: rest) envStop out st
      = expandSequence T fuel rest envStop (out ++ [mkAction t.pos]) st := by
  rw [expandSequence.eq_3]
  show M.bind' M.get _ st = _
  simp only [M.bind', M.get]
  rcases ht with ht | ht <;>
    simp [hk, txtIs, ht]

/-- a run of plain tokens that are never active is copied -/
theorem seq_plain_run (T : PTables) (envStop : Option Str) (st : PState) (rest : Buf) :
    ∀ (pl : List Tok) (fuel : Nat) (out : List Tok),
      (∀ t ∈ pl, PlainTok t ∧ (activeChars T st).contains t.txt = false) →
      expandSequence T (fuel + pl.length) (pl ++ rest) envStop out st
        = expandSequence T fuel rest envStop (out ++ pl) st
  | [], fuel, out, _ => by simp
  | t :: ts, fuel, out, h => by
    obtain ⟨h1, h2⟩ := h t (List.mem_cons_self ..)
    rw [List.length_cons, ← Nat.add_assoc, List.cons_append,
      seq_plain_step T (fuel + ts.length) t (ts ++ rest) envStop out st h1 (Or.inl h2),
      seq_plain_run T envStop st rest ts fuel (out ++ [t]) (fun x hx => h x (List.mem_cons_of_mem _ hx))]
    simp

theorem plainTok_noBrace {t : Tok} (h : PlainTok t) : NoBrace t := by
  have h6 := h.n6
  have h7 := h.n7
  unfold txtIs at h6 h7
  unfold NoBrace txtIsNV
  rw [h6, h7]
  simp

theorem plainTok_argRef {t : Tok} (h : PlainTok t) : argRef t = none := by
  unfold argRef
  rcases h.kind with k | k | k <;> simp [k]

theorem cwTok_noBrace (p : Nat) (name : Str) : NoBrace (cwTok p name) := by
  constructor <;> simp [txtIsNV, cwTok]

/-- `\\newcommand` is declared as expected in `st` -/
def NcOk (st : PState) : Prop := ∃ m, lookupMacro st ('\\' :: ncName) = some m ∧ ncDeclOk m = true

/-- the same as a decidable test -/
def ncOk (st : PState) : Bool :=
  match lookupMacro st ('\\' :: ncName) with
  | some m => ncDeclOk m
  | none => false

theorem NcOk_of_ncOk {st : PState} (h : ncOk st = true) : NcOk st := by
  unfold ncOk at h
  split at h
  · exact ⟨_, ‹_›, h⟩
  · cases h

theorem noEmptyActive_of_StOk {T : PTables} {st1 st : PState} (h : StOk T st1 st)
    (ha : noEmptyActive T st1 = true) : noEmptyActive T st = true :=
  (noEmptyActive_congr T st1 st h.lang).trans ha

/-- **the definition step of `expandSequence`**: two iterations (the macro, then the Action token
    it leaves); the macro is stored, nothing but the Action token is emitted -/
theorem seq_def_step (T : PTables) (fuel : Nat) (p q1 q2 q3 q4 q5 : Nat) (name : Str)
    (body : List Tok) (rest : Buf) (envStop : Option Str) (out : List Tok) (st1 st : PState)
    (hst : StOk T st1 st) (hnc : NcOk st1) (hn : NameOk st1 name) (hb : GoodBody T st1 body)
    (ha : noEmptyActive T st1 = true) :
    expandSequence T (fuel + 6)
        (cwTok p ncName :: lbr q1 :: cwTok q2 name :: rbr q3 :: lbr q4 :: (body ++ rbr q5 :: rest))
        envStop out st
      = expandSequence T (fuel + 4) rest envStop (out ++ [mkAction p]) (defSt st name body) := by
  obtain ⟨m, hm, hmd⟩ := hnc
  have hm' : lookupMacro st (cwTok p ncName).txt = some m := hst.decl _ _ hm
  have hign : st.newcommandIgnore.contains (cwTok q2 name).txt = false := by
    rw [hst.ign]; exact hn.nIgn
  have hmac := expandMacro_def T fuel m hmd q1 q3 q4 q5 (cwTok q2 name) (cwTok_noBrace q2 name)
    (by simp [cwTok]) body (fun t ht => plainTok_noBrace (hb.2 t ht).1) (fun t ht => plainTok_argRef (hb.2 t ht).1) hb.1
    rest (cwTok p ncName) st hm' hign
  rw [expandSequence.eq_3]
  show M.bind' M.get _ st = _
  simp only [M.bind', M.get]
  have hk : (cwTok p ncName).kind = .xmacro := rfl
  have hd : txtIs (cwTok p ncName) "\\def" = false := by
    have : ('\\' :: ncName) ≠ sDef := by decide
    simpa [txtIs, cwTok, sDef] using this
  simp only [hk, hd, Bool.false_eq_true, if_false, if_true, reduceCtorEq, beq_iff_eq, beq_self_eq_true]
  refine (M.bind_ok _ _ _ _ _ hmac).trans ?_
  simp only [List.singleton_append]
  exact seq_action_step T (fuel + 4) p rest envStop out _
    (noEmptyActive_of_StOk (hst.defSt name body hn hb) ha)

theorem seq_br (T : PTables) (fuel : Nat) (br : Option (Nat × Nat)) (rest : Buf) (envStop : Option Str)
    (out : List Tok) (st : PState) :
    expandSequence T (fuel + (brToks br).length) (brToks br ++ rest) envStop out st
      = expandSequence T fuel rest envStop (out ++ brActs br) st := by
  cases br with
  | none => simp [brToks, brActs]
  | some ab =>
    obtain ⟨a, b⟩ := ab
    show expandSequence T (fuel + 1 + 1) (lbr a :: rbr b :: rest) envStop out st = _
    rw [seq_brace_step T (fuel + 1) (lbr a) _ envStop out st rfl (Or.inl rfl),
      seq_brace_step T fuel (rbr b) _ envStop _ st rfl (Or.inr rfl)]
    simp [brActs, lbr, rbr]

theorem skipSpaceStopLang_br (br : Option (Nat × Nat)) (rest : Buf)
    (h : br = none → skipSpaceStopLangAct rest = rest) :
    skipSpaceStopLangAct (brToks br ++ rest) = brToks br ++ rest := by
  cases br with
  | none => simpa [brToks] using h rfl
  | some ab => obtain ⟨a, b⟩ := ab; rfl

theorem plainTok_restamp (p : Nat) (t : Tok) (h : PlainTok t) : PlainTok (restamp p t) :=
  ⟨h.kind, h.n1, h.n2, h.n3, h.n4, h.n5, h.n6, h.n7⟩

/-- **the use step of `expandSequence`.**  A defined name: the macro token, the Action token, one
    iteration per body token (the body tokens come back unchanged but for position and `fix`), the
    braces.  An undefined name: recorded as unknown, an Action token, the braces. -/
theorem seq_use_step (T : PTables) (fuel : Nat) (p : Nat) (name : Str) (br : Option (Nat × Nat))
    (rest : Buf) (envStop : Option Str) (out : List Tok) (st1 st : PState)
    (hst : StOk T st1 st) (hn : NameOk st1 name) (ha : noEmptyActive T st1 = true)
    (hsk : br = none → skipSpaceStopLangAct rest = rest) :
    expandSequence T (fuel + (2 + (useBody st p name).length + (brToks br).length))
        (cwTok p name :: (brToks br ++ rest)) envStop out st
      = expandSequence T fuel rest envStop (out ++ mkAction p :: (useBody st p name ++ brActs br))
          (useSt st name) := by
  have ha' := noEmptyActive_of_StOk hst ha
  have hk : (cwTok p name).kind = .xmacro := rfl
  have hd : txtIs (cwTok p name) "\\def" = false := by
    simpa [txtIs, cwTok, sDef] using hn.nDef
  cases hl : lookupMacro st ('\\' :: name) with
  | none =>
    have e1 : useBody st p name = [] := by simp [useBody, hl]
    have e2 : useSt st name = { st with unknowns := addU st.unknowns ('\\' :: name) } := by
      simp [useSt, hl]
    rw [e1, e2]
    have hf : fuel + (2 + ([] : List Tok).length + (brToks br).length)
        = fuel + (brToks br).length + 2 := by simp; omega
    rw [hf, seq_cw_step T _ (cwTok p name) _ envStop out st ⟨hk, hd, hl⟩ ha',
      skipSpaceStopLang_br br rest hsk, seq_br]
    simp [cwTok]
  | some m =>
    obtain ⟨b, rfl, hb⟩ := hst.user _ m hn.undecl hl
    have e1 : useBody st p name = b.map (restamp p) := by simp [useBody, hl, userMacro]
    have e2 : useSt st name = st := by simp [useSt, hl]
    rw [e1, e2]
    have hbl : 1 ≤ b.length := List.length_pos_iff.mpr hb.1
    obtain ⟨g, hg⟩ : ∃ g, fuel + (2 + (b.map (restamp p)).length + (brToks br).length) = g + 2 + 1 :=
      ⟨fuel + b.length + (brToks br).length - 1, by simp; omega⟩
    rw [hg, expandSequence.eq_3]
    show M.bind' M.get _ st = _
    simp only [M.bind', M.get]
    simp only [hk, hd, Bool.false_eq_true, if_false, if_true, reduceCtorEq, beq_iff_eq,
      beq_self_eq_true]
    refine (M.bind_ok _ _ _ _ _ (expandMacro_use T g _ (cwTok p name) st _ b hl
      (fun t ht => plainTok_argRef (hb.2 t ht).1))).trans ?_
    simp only [skipSpaceStopLang_br br rest hsk, List.cons_append,
      show (cwTok p name).pos = p from rfl]
    have hg2 : g + 2 = fuel + (brToks br).length + (b.map (restamp p)).length + 1 := by
      simp at hg ⊢; omega
    rw [hg2, seq_action_step T _ _ _ envStop out st ha',
      seq_plain_run T envStop st (brToks br ++ rest) (b.map (restamp p)) _ _ (by
        intro t ht
        obtain ⟨u, hu, rfl⟩ := List.mem_map.mp ht
        refine ⟨plainTok_restamp p u (hb.2 u hu).1, ?_⟩
        have := (hb.2 u hu).2
        rw [activeChars_congr T st1 st hst.lang]
        exact this),
      seq_br]
    simp

theorem PassTok_congr {T : PTables} {st st' : PState} (hl : st'.langStack = st.langStack)
    {t : Tok} {rest : Buf} (h : PassTok T st t rest) : PassTok T st' t rest := by
  unfold PassTok
  rw [activeChars_congr T st st' hl, expandShortMacro_congr T st st' hl]
  exact h

/-- **the loop on a buffer of plain tokens, definitions and uses.**  The output is the blank-line
    removal applied to `outP`; the state is `finalSt`: the definitions are stored, the names
    used while undefined are recorded.  Fuel: `cost` (one iteration per plain token, two per
    definition, two plus the number of body tokens (plus two for `{}`) per use) plus four (the
    handler of the last definition nests five calls deep). -/
theorem seq_macro (T : PTables) (envStop : Option Str) (st1 : PState) (hnc : NcOk st1)
    (ha : noEmptyActive T st1 = true) :
    ∀ (ps : List Piece) (fuel : Nat) (out : List Tok) (st : PState),
      cost st ps + 4 ≤ fuel → PiecesOk T st1 ps → StOk T st1 st →
      expandSequence T fuel (flat ps) envStop out st
        = match removeLines (out ++ outP st ps) with
          | some r => .ok ((r, []), finalSt st ps)
          | none => .outOfFuel := by
  intro ps
  induction ps with
  | nil =>
    intro fuel out st hf _ _
    obtain ⟨f, rfl⟩ : ∃ f, fuel = f + 1 := ⟨fuel - 1, by omega⟩
    simp only [flat, outP, finalSt, List.append_nil]
    rw [expandSequence.eq_2]
    cases removeLines out <;> rfl
  | cons pc ps ih =>
    intro fuel out st hf hok hst
    cases pc with
    | tok t =>
      simp only [cost] at hf
      obtain ⟨f, rfl⟩ : ∃ f, fuel = f + 1 := ⟨fuel - 1, by omega⟩
      simp only [flat, Piece.toks, List.singleton_append]
      rw [seq_plain_step T f t (flat ps) envStop out st hok.1 (PassTok_congr hst.lang hok.2.1),
        ih f (out ++ [t]) st (by omega) hok.2.2 hst]
      simp only [outP, finalSt, List.append_assoc, List.singleton_append]
    | defn p q1 q2 q3 q4 q5 name body =>
      obtain ⟨hn, hb, hrest⟩ := hok
      simp only [cost] at hf
      obtain ⟨f, rfl⟩ : ∃ f, fuel = f + 6 := ⟨fuel - 6, by omega⟩
      have hflat : flat (Piece.defn p q1 q2 q3 q4 q5 name body :: ps)
          = cwTok p ncName :: lbr q1 :: cwTok q2 name :: rbr q3 :: lbr q4 :: (body ++ rbr q5 :: flat ps) := by
        simp [flat, Piece.toks]
      rw [hflat, seq_def_step T f p q1 q2 q3 q4 q5 name body (flat ps) envStop out st1 st hst hnc hn hb ha,
        ih (f + 4) _ _ (by omega) hrest (hst.defSt name body hn hb)]
      simp only [outP, finalSt, List.append_assoc, List.singleton_append]
    | use p name br =>
      obtain ⟨hn, hsk, hrest⟩ := hok
      simp only [cost] at hf
      obtain ⟨f, hf'⟩ : ∃ f, fuel = f + (2 + (useBody st p name).length + (brToks br).length) :=
        ⟨fuel - (2 + (useBody st p name).length + (brToks br).length), by omega⟩
      have hflat : flat (Piece.use p name br :: ps) = cwTok p name :: (brToks br ++ flat ps) := by
        simp [flat, Piece.toks]
      rw [hflat, hf', seq_use_step T f p name br (flat ps) envStop out st1 st hst hn ha hsk,
        ih f _ _ (by omega) hrest (hst.useSt name)]
      simp only [outP, finalSt, List.append_assoc, List.cons_append]

/-! ### the documents -/

/-- a segment of the source: a run of text, a definition `\newcommand{\name}{body}`, a use
    `\name` or `\name{}` -/
inductive Seg where
  | txt (s : Str)
  | defn (name body : Str)
  | use (name : Str) (braces : Bool)
deriving Repr, DecidableEq

def brStr (b : Bool) : Str := if b then ['{', '}'] else []

def Seg.render : Seg → Str
  | .txt s => s
  | .defn name body => '\\' :: (ncName ++ '{' :: '\\' :: (name ++ '}' :: '{' :: (body ++ ['}'])))
  | .use name br => '\\' :: (name ++ brStr br)

/-- the source text -/
def render : List Seg → Str
  | [] => []
  | s :: rest => s.render ++ render rest

/-! ### the side conditions -/

/-- the brace `c` (one of `{`, `}`), followed by `rest`, is scanned as the one-character special
    token `c` -/
def braceAt (T : PTables) (c : Char) (rest : Str) : Bool :=
  matchSpecial T.toTables (c :: rest) == some [c]

/-- `\newcommand{\name}{body}`, followed by `R`:
    * `\newcommand` is one macro token (no special sequence matches at its backslash, it is no
      accent macro);
    * the four braces are scanned as `{` / `}`;
    * `\name` is a control word as in Proofs/PlainUnknown.lean (`cwOk`: ASCII letters, not
      continued, none of `\begin \end \item \verb \def`, no accent, not declared in `st`), and
      it is not protected against redefinition (`newcommand_ignore`);
    * the body is a non-empty string of inert characters (`inertChar` of Proofs/Plain.lean:
      never active, white space or no structural character and no start of a special sequence) -/
def defOk (T : PTables) (st : PState) (name body R : Str) : Bool :=
  (matchSpecial T.toTables
    ('\\' :: (ncName ++ '{' :: '\\' :: (name ++ '}' :: '{' :: (body ++ '}' :: R))))).isNone &&
  !T.toTables.isAccent ('\\' :: ncName) &&
  braceAt T '{' ('\\' :: (name ++ '}' :: '{' :: (body ++ '}' :: R))) &&
  cwOk T st name ('}' :: '{' :: (body ++ '}' :: R)) &&
  !st.newcommandIgnore.contains ('\\' :: name) &&
  braceAt T '}' ('{' :: (body ++ '}' :: R)) &&
  braceAt T '{' (body ++ '}' :: R) &&
  !body.isEmpty && body.all (inertChar T st) &&
  braceAt T '}' R

/-- `\name` / `\name{}`, followed by `R`: a control word (`cwOk`), not protected; with braces,
    both are scanned as such; without, the next character is no white space (white space
    behind a macro name is skipped by the expander) -/
def useOk (T : PTables) (st : PState) (name : Str) (br : Bool) (R : Str) : Bool :=
  cwOk T st name (brStr br ++ R) && !st.newcommandIgnore.contains ('\\' :: name) &&
  (if br then braceAt T '{' ('}' :: R) && braceAt T '}' R
   else R.head?.all (fun d => !isSpace d))

/-- well-formed documents: every segment is fine in front of the rendering of the following ones
    (`textOk` of Proofs/PlainUnknown.lean for the text) -/
def segsOk (T : PTables) (st : PState) : List Seg → Bool
  | [] => true
  | .txt s :: rest => textOk T st s (render rest) && segsOk T st rest
  | .defn name body :: rest => defOk T st name body (render rest) && segsOk T st rest
  | .use name br :: rest => useOk T st name br (render rest) && segsOk T st rest

/-- the source as a list of text characters, definitions and uses, with their positions -/
inductive Item where
  | chr (c : Char) (p : Nat)
  | defn (p : Nat) (name body : Str)
  | use (p : Nat) (name : Str) (br : Bool)

def chrItems : Nat → Str → List Item
  | _, [] => []
  | p, c :: cs => .chr c p :: chrItems (p + 1) cs

def itemsOf : Nat → List Seg → List Item
  | _, [] => []
  | p, .txt s :: rest => chrItems p s ++ itemsOf (p + s.length) rest
  | p, .defn name body :: rest => .defn p name body :: itemsOf (p + (name.length + body.length + 16)) rest
  | p, .use name br :: rest => .use p name br :: itemsOf (p + (name.length + 1 + (brStr br).length)) rest

theorem chrItems_append : ∀ (p : Nat) (a b : Str),
    chrItems p (a ++ b) = chrItems p a ++ chrItems (p + a.length) b
  | _, [], _ => rfl
  | p, c :: cs, b => by
    simp only [List.cons_append, chrItems, chrItems_append (p + 1) cs b, List.length_cons]
    rw [show p + 1 + cs.length = p + (cs.length + 1) by omega]

/-- the same on the source text (which starts at position `p`) -/
inductive OkSrc (T : PTables) (st : PState) : Nat → Str → List Item → Prop
  | nil (p : Nat) : OkSrc T st p [] []
  | chr (p : Nat) (c : Char) (cs : Str) (items : List Item) :
      okAt T st c cs = true → OkSrc T st (p + 1) cs items →
      OkSrc T st p (c :: cs) (.chr c p :: items)
  | defn (p : Nat) (name body R : Str) (items : List Item) :
      defOk T st name body R = true → OkSrc T st (p + (name.length + body.length + 16)) R items →
      OkSrc T st p ('\\' :: (ncName ++ '{' :: '\\' :: (name ++ '}' :: '{' :: (body ++ '}' :: R))))
        (.defn p name body :: items)
  | use (p : Nat) (name : Str) (br : Bool) (R : Str) (items : List Item) :
      useOk T st name br R = true → OkSrc T st (p + (name.length + 1 + (brStr br).length)) R items →
      OkSrc T st p ('\\' :: (name ++ (brStr br ++ R))) (.use p name br :: items)

theorem OkSrc_text (T : PTables) (st : PState) (R : Str) (items : List Item) :
    ∀ (s : Str) (p : Nat), OkSrc T st (p + s.length) R items → textOk T st s R = true →
      OkSrc T st p (s ++ R) (chrItems p s ++ items)
  | [], _, hR, _ => hR
  | c :: cs, p, hR, h => by
    simp only [textOk, Bool.and_eq_true] at h
    have hR' : OkSrc T st (p + 1 + cs.length) R items := by
      have e : p + 1 + cs.length = p + (c :: cs).length := by simp; omega
      rw [e]; exact hR
    exact OkSrc.chr p c (cs ++ R) _ h.1 (OkSrc_text T st R items cs (p + 1) hR' h.2)

theorem OkSrc_of_segsOk (T : PTables) (st : PState) :
    ∀ (segs : List Seg) (p : Nat), segsOk T st segs = true →
      OkSrc T st p (render segs) (itemsOf p segs)
  | [], p, _ => .nil p
  | .txt s :: rest, p, h => by
    simp only [segsOk, Bool.and_eq_true] at h
    exact OkSrc_text T st _ _ s p (OkSrc_of_segsOk T st rest _ h.2) h.1
  | .defn name body :: rest, p, h => by
    simp only [segsOk, Bool.and_eq_true] at h
    have := OkSrc.defn p name body (render rest) _ h.1 (OkSrc_of_segsOk T st rest _ h.2)
    simpa [render, Seg.render, itemsOf] using this
  | .use name br :: rest, p, h => by
    simp only [segsOk, Bool.and_eq_true] at h
    have := OkSrc.use p name br (render rest) _ h.1 (OkSrc_of_segsOk T st rest _ h.2)
    simpa [render, Seg.render, itemsOf] using this

/-- white space in front can be dropped -/
theorem OkSrc_drop_space (T : PTables) (st : PState) :
    ∀ (k : Nat) (p : Nat) (s : Str) (items : List Item), k ≤ s.length → OkSrc T st p s items →
      (∀ x ∈ s.take k, isSpace x = true) →
      ∃ items', items = chrItems p (s.take k) ++ items' ∧ OkSrc T st (p + k) (s.drop k) items'
  | 0, _, _, items, _, h, _ => ⟨items, rfl, h⟩
  | k + 1, _, [], _, hk, _, _ => by simp at hk
  | k + 1, p, c :: cs, _, hk, h, hsp => by
    have hc : isSpace c = true := hsp c (by simp)
    cases h with
    | chr _ _ _ items0 _ h2 =>
      obtain ⟨items', e, h3⟩ := OkSrc_drop_space T st k (p + 1) cs items0 (by simpa using hk) h2
        (fun x hx => hsp x (by simp [hx]))
      refine ⟨items', by simp [chrItems, e], ?_⟩
      have e : p + (k + 1) = p + 1 + k := by omega
      rw [e]; exact h3
    | defn _ name body R _ _ _ => exact absurd hc (by decide)
    | use _ name br R _ _ _ => exact absurd hc (by decide)

/-- the conditions depend on the state only through the language stack, the macro table and
    the list of protected names -/
theorem OkSrc.congr {T : PTables} {st st' : PState} (hl : st'.langStack = st.langStack)
    (hm : st'.macros = st.macros) (hi : st'.newcommandIgnore = st.newcommandIgnore)
    {p : Nat} {s : Str} {items : List Item} (h : OkSrc T st p s items) : OkSrc T st' p s items := by
  have hinert : inertChar T st' = inertChar T st := by
    funext c; simp only [inertChar, activeChars_congr T st st' hl]
  induction h with
  | nil p => exact .nil p
  | chr p c cs items hat _ ih =>
    refine .chr p c cs items ?_ ih
    rw [← hat]
    simp only [okAt, activeChars_congr T st st' hl, shortKeys_congr T st st' hl]
  | defn p name body R items hd _ ih =>
    refine .defn p name body R items ?_ ih
    rw [← hd]
    simp only [defOk, cwOk, lookupMacro, hm, hi, hinert]
  | use p name br R items hu _ ih =>
    refine .use p name br R items ?_ ih
    rw [← hu]
    simp only [useOk, cwOk, lookupMacro, hm, hi]

/-! ### the scanner -/

theorem nextToken_brace (T : PTables) (src : Str) (pos : Nat) (c : Char) (rest : Str)
    (hc : c = '{' ∨ c = '}') (h : braceAt T c rest = true) :
    nextToken T.toTables src pos (c :: rest)
      = { tok := { kind := .special, pos := pos, txt := [c] }, len := 1 } := by
  have hm : matchSpecial T.toTables (c :: rest) = some [c] := by simpa [braceAt] using h
  rcases hc with rfl | rfl <;>
    simp [nextToken, hm, show isSpace '{' = false by decide, show isSpace '}' = false by decide]

theorem scanSteps_step (T : Tables) (src : Str) (fuel pos : Nat) (c : Char) (cs : Str) (s : ScanStep)
    (h : nextToken T src pos (c :: cs) = s) (hl : s.len ≠ 0) :
    scanSteps T src (fuel + 1) pos (c :: cs)
      = (s :: (scanSteps T src fuel (pos + s.len) ((c :: cs).drop s.len)).1,
         (scanSteps T src fuel (pos + s.len) ((c :: cs).drop s.len)).2) := by
  simp only [scanSteps, h]
  rw [if_neg (by simpa using hl)]

/-- `\newcommand` in front of `{` is one macro token -/
theorem nextToken_nc (T : PTables) (src : Str) (pos : Nat) (X : Str)
    (h1 : matchSpecial T.toTables ('\\' :: (ncName ++ '{' :: X)) = none)
    (h2 : T.toTables.isAccent ('\\' :: ncName) = false) :
    nextToken T.toTables src pos ('\\' :: (ncName ++ '{' :: X))
      = { tok := cwTok pos ncName, len := 11 } := by
  have facts : CwFacts T ({ macros := [] } : PState) ncName ('{' :: X) :=
    ⟨by decide, takeWhile_append_stop _ _ _ (by decide) rfl, h1, by decide, by decide,
     by decide, by decide, h2, by decide, rfl⟩
  exact nextToken_cw T _ src pos ncName ('{' :: X) facts

/-- the shape of a token the loop copies: not empty, and blank if it contains a line break -/
def Shape (t : Tok) : Prop := t.txt ≠ [] ∧ (hasNl t.txt = true → isBlank t.txt = true)

/-- the text of a list of tokens -/
def bodyTxt (b : List Tok) : Str := b.flatMap (·.txt)

theorem takeWhile_append_stop1 {α} (p : α → Bool) (x : α) (hx : p x = false) :
    ∀ (a b : List α), (a ++ x :: b).takeWhile p = a.takeWhile p
  | [], b => by simp [hx]
  | y :: a, b => by
    by_cases h : p y = true
    · simp [h, takeWhile_append_stop1 p x hx a b]
    · simp [h]

theorem hasNl_single (c : Char) (h : isSpace c = false) : hasNl [c] = false := by
  have : c ≠ nl := by intro e; rw [e] at h; exact absurd h (by decide)
  simpa [hasNl] using fun e : nl = c => this e.symm

theorem inertChar_facts {T : PTables} {st : PState} {c : Char} (h : inertChar T st c = true) (cs : Str) :
    (activeChars T st).contains [c] = false ∧
    (isSpace c = true ∨ (structuralChar c = false ∧ matchSpecial T.toTables (c :: cs) = none)) := by
  simp only [inertChar, Bool.and_eq_true, Bool.or_eq_true, Bool.not_eq_true'] at h
  refine ⟨h.1, ?_⟩
  rcases h.2 with h2 | ⟨h2, h3⟩
  · exact Or.inl h2
  · exact Or.inr ⟨h2, matchSpecial_none_of_startsNoSpecial _ _ _ h3⟩

/-- one scanner step on an inert character `c` in front of `cs ++ x :: R`, `x` no white space:
    the token is taken from `c :: cs` -/
theorem nextToken_inert (T : PTables) (st : PState) (src : Str) (pos : Nat) (c : Char) (cs : Str)
    (x : Char) (R : Str) (hx : isSpace x = false) (h : inertChar T st c = true) :
    ∃ s, nextToken T.toTables src pos (c :: (cs ++ x :: R)) = s ∧ s.diag = none ∧ s.extra = [] ∧
      1 ≤ s.len ∧ s.len ≤ (c :: cs).length ∧ PlainTok s.tok ∧ s.tok.fix = false ∧ s.tok.pos = pos ∧
      s.tok.txt = (c :: cs).take s.len ∧ (activeChars T st).contains s.tok.txt = false ∧ Shape s.tok := by
  obtain ⟨hact, hsnd⟩ := inertChar_facts h (cs ++ x :: R)
  obtain ⟨hp, hone⟩ := nextToken_text T src pos c (cs ++ x :: R) hsnd
  generalize hs : nextToken T.toTables src pos (c :: (cs ++ x :: R)) = s at hp hone
  have h1 := hp.len_pos
  have hlen : s.tok.txt.length = s.len := by
    rw [hp.txt, List.length_take]; exact Nat.min_eq_left hp.len_le
  have hbound : s.len ≤ (c :: cs).length ∧ (isSpace c = true → isBlank s.tok.txt = true) := by
    by_cases hsp : isSpace c = true
    · have hf := hp.first
      simp only [firstTokTxt, hsp, if_true] at hf
      rw [show c :: (cs ++ x :: R) = (c :: cs) ++ x :: R from rfl,
        takeWhile_append_stop1 isSpace x hx (c :: cs) R] at hf
      refine ⟨?_, fun _ => ?_⟩
      · rw [← hlen, hf]; exact ScannerAux.length_takeWhile_le' _ _
      · rw [hf]
        simp only [isBlank, List.all_eq_true]
        exact fun y hy => mem_takeWhile_imp _ _ _ hy
    · have := (hone (by simpa using hsp)).1
      exact ⟨by rw [this]; simp, fun h' => absurd h' hsp⟩
  have htxt : s.tok.txt = (c :: cs).take s.len := by
    rw [hp.txt, show c :: (cs ++ x :: R) = (c :: cs) ++ x :: R from rfl,
      List.take_append_of_le_length hbound.1]
  have hne : s.tok.txt ≠ [] := by
    intro e; rw [e] at hlen; simp at hlen; omega
  refine ⟨s, rfl, hp.diag, hp.extra, h1, hbound.1, hp.tok, hp.fix, hp.pos, htxt, ?_, hne, ?_⟩
  · obtain ⟨k, hk⟩ : ∃ k, s.len = k + 1 := ⟨s.len - 1, by omega⟩
    rw [htxt, hk, List.take_succ_cons]
    exact not_active_cons T st c _ hact
  · intro hnl
    by_cases hsp : isSpace c = true
    · exact hbound.2 hsp
    · have hsp' : isSpace c = false := by simpa using hsp
      have := (hone hsp').1
      rw [htxt, this] at hnl
      simp only [List.take_succ_cons, List.take_zero] at hnl
      rw [hasNl_single c hsp'] at hnl; cases hnl

/-- what the scanner loop yields on a body that starts at `pos` -/
structure BodyRun (T : PTables) (st : PState) (s : Str) (steps : List ScanStep) : Prop where
  ok : ∀ x ∈ steps, x.diag = none ∧ x.extra = [] ∧ PlainTok x.tok ∧
    (activeChars T st).contains x.tok.txt = false ∧ Shape x.tok
  len : steps.length ≤ s.length
  txt : bodyTxt (steps.map (·.tok)) = s
  ne : s ≠ [] → steps ≠ []

/-- the scanner loop runs through a body of inert characters in front of `}` -/
theorem scanSteps_body (T : PTables) (st : PState) (src : Str) (R : Str) :
    ∀ (n : Nat) (s : Str) (pos fuel : Nat), s.length ≤ n → s.length ≤ fuel →
      (∀ c ∈ s, inertChar T st c = true) →
      ∃ steps, BodyRun T st s steps ∧
        scanSteps T.toTables src fuel pos (s ++ '}' :: R)
          = (steps ++ (scanSteps T.toTables src (fuel - steps.length) (pos + s.length) ('}' :: R)).1,
             (scanSteps T.toTables src (fuel - steps.length) (pos + s.length) ('}' :: R)).2) := by
  intro n
  induction n with
  | zero =>
    intro s pos fuel hn _ _
    have : s = [] := by cases s <;> simp_all
    subst this
    exact ⟨[], ⟨by simp, by simp, rfl, by simp⟩, by simp⟩
  | succ n ih =>
    intro s pos fuel hn hf hok
    cases s with
    | nil => exact ⟨[], ⟨by simp, by simp, rfl, by simp⟩, by simp⟩
    | cons c cs =>
      obtain ⟨f, rfl⟩ : ∃ f, fuel = f + 1 := ⟨fuel - 1, by simp at hf; omega⟩
      obtain ⟨x, hx, h1, h2, h3, h4, h5, h6, h7, h8, h9, h10⟩ :=
        nextToken_inert T st src pos c cs '}' R (by decide) (hok c (by simp))
      simp only [List.length_cons] at hn hf h4
      have hdrop : (c :: (cs ++ '}' :: R)).drop x.len = (c :: cs).drop x.len ++ '}' :: R := by
        rw [show c :: (cs ++ '}' :: R) = (c :: cs) ++ '}' :: R from rfl,
          List.drop_append_of_le_length (by simpa using h4)]
      have hl' : ((c :: cs).drop x.len).length = cs.length + 1 - x.len := by simp
      obtain ⟨steps', B, hsc⟩ := ih ((c :: cs).drop x.len) (pos + x.len) f (by omega) (by omega)
        (fun d hd => hok d (List.mem_of_mem_drop hd))
      refine ⟨x :: steps', ⟨?_, ?_, ?_, by simp⟩, ?_⟩
      · intro y hy
        rcases List.mem_cons.mp hy with rfl | hy
        · exact ⟨h1, h2, h5, h9, h10⟩
        · exact B.ok y hy
      · have := B.len
        simp only [List.length_cons]; omega
      · have := B.txt
        simp only [bodyTxt] at this ⊢
        rw [List.map_cons, List.flatMap_cons, this, h8, List.take_append_drop]
      · rw [show (c :: cs) ++ '}' :: R = c :: (cs ++ '}' :: R) from rfl,
          scanSteps_step T.toTables src f pos c _ x hx (by omega), hdrop, hsc]
        simp only [List.cons_append, List.length_cons]
        have e1 : pos + x.len + ((c :: cs).drop x.len).length = pos + (cs.length + 1) := by omega
        have e2 : f + 1 - (steps'.length + 1) = f - steps'.length := by omega
        rw [e1, e2]

/-! ### pieces and items -/

/-- the token buffer (pieces) of a source (items): a plain token spells a run of text characters, a
    definition piece holds the tokens of the body, a use piece has braces or not -/
inductive Link : List Piece → List Item → Prop
  | nil : Link [] []
  | tok (t : Tok) (ps : List Piece) (items : List Item) :
      t.fix = false → Shape t → Link ps items → Link (.tok t :: ps) (chrItems t.pos t.txt ++ items)
  | defn (p q1 q2 q3 q4 q5 : Nat) (name body : Str) (btoks : List Tok) (ps : List Piece)
      (items : List Item) :
      bodyTxt btoks = body → (∀ t ∈ btoks, Shape t) → Link ps items →
      Link (.defn p q1 q2 q3 q4 q5 name btoks :: ps) (.defn p name body :: items)
  | use (p : Nat) (name : Str) (br : Bool) (a b : Nat) (ps : List Piece) (items : List Item) :
      name ≠ [] → Link ps items →
      Link (.use p name (if br then some (a, b) else none) :: ps) (.use p name br :: items)

/-- what the scanner loop yields on a well-formed source -/
structure ScanFacts (T : PTables) (st : PState) (rest : Str) (items : List Item)
    (steps : List ScanStep) : Prop where
  ok : ∀ s ∈ steps, s.diag = none ∧ s.extra = []
  pieces : ∃ ps, steps.map (·.tok) = flat ps ∧ PiecesOk T st ps ∧ Link ps items
  first : ∀ s ss, steps = s :: ss → s.tok.txt = firstTokTxtM rest
  firstNS : rest.head?.all (fun d => !isSpace d) = true → ∀ s ss, steps = s :: ss → isSpaceTok s.tok = false
  len : steps.length ≤ rest.length

theorem ncName_eq : ncName = ['n', 'e', 'w', 'c', 'o', 'm', 'm', 'a', 'n', 'd'] := by decide

theorem ScanFacts_nil (T : PTables) (st : PState) : ScanFacts T st [] [] [] :=
  ⟨by simp, ⟨[], rfl, trivial, .nil⟩, by simp, by simp, by simp⟩

theorem nameOk_of_cwFacts {T : PTables} {st : PState} {name R : Str} (h : CwFacts T st name R)
    (hi : st.newcommandIgnore.contains ('\\' :: name) = false) : NameOk st name :=
  ⟨h.nDef, h.undecl, hi⟩

theorem skip_of_firstNS (toks : List Tok)
    (h : ∀ t ts, toks = t :: ts → isSpaceTok t = false) : skipSpaceStopLangAct toks = toks := by
  cases toks with
  | nil => rfl
  | cons t ts => exact skipSpaceStopLang_cons_of_not t ts (h t ts rfl)

structure DefFacts (T : PTables) (st : PState) (name body R : Str) : Prop where
  ncSpecial : matchSpecial T.toTables
    ('\\' :: (ncName ++ '{' :: '\\' :: (name ++ '}' :: '{' :: (body ++ '}' :: R)))) = none
  ncAccent : T.toTables.isAccent ('\\' :: ncName) = false
  b1 : braceAt T '{' ('\\' :: (name ++ '}' :: '{' :: (body ++ '}' :: R))) = true
  cw : CwFacts T st name ('}' :: '{' :: (body ++ '}' :: R))
  ign : st.newcommandIgnore.contains ('\\' :: name) = false
  b2 : braceAt T '}' ('{' :: (body ++ '}' :: R)) = true
  b3 : braceAt T '{' (body ++ '}' :: R) = true
  bne : body ≠ []
  binert : ∀ c ∈ body, inertChar T st c = true
  b4 : braceAt T '}' R = true

theorem defFacts {T : PTables} {st : PState} {name body R : Str} (h : defOk T st name body R = true) :
    DefFacts T st name body R := by
  simp only [defOk, Bool.and_eq_true, Bool.not_eq_true', Option.isNone_iff_eq_none,
    List.all_eq_true] at h
  obtain ⟨⟨⟨⟨⟨⟨⟨⟨⟨h1, h2⟩, h3⟩, h4⟩, h5⟩, h6⟩, h7⟩, h8⟩, h9⟩, h10⟩ := h
  exact ⟨h1, h2, h3, cwFacts h4, h5, h6, h7, by simpa using h8, h9, h10⟩

structure UseFacts (T : PTables) (st : PState) (name : Str) (br : Bool) (R : Str) : Prop where
  cw : CwFacts T st name (brStr br ++ R)
  ign : st.newcommandIgnore.contains ('\\' :: name) = false
  braces : br = true → braceAt T '{' ('}' :: R) = true ∧ braceAt T '}' R = true
  nospace : br = false → R.head?.all (fun d => !isSpace d) = true

theorem useFacts {T : PTables} {st : PState} {name : Str} {br : Bool} {R : Str}
    (h : useOk T st name br R = true) : UseFacts T st name br R := by
  simp only [useOk, Bool.and_eq_true, Bool.not_eq_true'] at h
  obtain ⟨⟨h1, h2⟩, h3⟩ := h
  refine ⟨cwFacts h1, h2, ?_, ?_⟩
  · intro hb; subst hb; simpa using h3
  · intro hb; subst hb; simpa using h3

/-- the scanner loop on a well-formed source -/
theorem scanSteps_macro (T : PTables) (st : PState) (src : Str) :
    ∀ (n fuel pos : Nat) (rest : Str) (items : List Item),
    rest.length ≤ n → rest.length ≤ fuel → OkSrc T st pos rest items →
    (scanSteps T.toTables src fuel pos rest).2 = true ∧
    ScanFacts T st rest items (scanSteps T.toTables src fuel pos rest).1 := by
  intro n
  induction n with
  | zero =>
    intro fuel pos rest items hn _ hok
    cases rest with
    | nil => cases hok; exact ⟨by simp [scanSteps], by simpa [scanSteps] using ScanFacts_nil T st⟩
    | cons c cs => simp at hn
  | succ n ih =>
    intro fuel pos rest items hn hf hok
    cases rest with
    | nil => cases hok; exact ⟨by simp [scanSteps], by simpa [scanSteps] using ScanFacts_nil T st⟩
    | cons c cs =>
      obtain ⟨fuel, rfl⟩ : ∃ f, fuel = f + 1 := ⟨fuel - 1, by simp at hf; omega⟩
      have hok0 := hok
      cases hok with
      | chr _ _ _ items' hat hsub0 =>
        have hsnd := okAt_snd hat
        obtain ⟨hp, hone⟩ := nextToken_text T src pos c cs hsnd
        generalize hs : nextToken T.toTables src pos (c :: cs) = s at hp hone
        have h1 := hp.len_pos
        have h2 := hp.len_le
        have hsub : ∃ items1, Item.chr c pos :: items' = chrItems pos ((c :: cs).take s.len) ++ items1 ∧
            OkSrc T st (pos + s.len) ((c :: cs).drop s.len) items1 := by
          by_cases hsp : isSpace c = true
          · refine OkSrc_drop_space T st s.len pos (c :: cs) _ h2 hok0 ?_
            intro x hx
            rw [← hp.txt, hp.first] at hx
            simp only [firstTokTxt, hsp, if_true] at hx
            exact mem_takeWhile_imp _ _ _ hx
          · have := (hone (by simpa using hsp)).1
            rw [this]
            exact ⟨items', rfl, hsub0⟩
        obtain ⟨items1, hitems1, hsub⟩ := hsub
        rw [scanSteps_step T.toTables src fuel pos c cs s hs (by omega)]
        have hl : ((c :: cs).drop s.len).length ≤ fuel := by
          simp only [List.length_drop]; simp only [List.length_cons] at hf h2 ⊢; omega
        have hl' : ((c :: cs).drop s.len).length ≤ n := by
          simp only [List.length_drop]; simp only [List.length_cons] at hn h2 ⊢; omega
        obtain ⟨i1, I⟩ := ih fuel (pos + s.len) ((c :: cs).drop s.len) items1 hl' hl hsub
        obtain ⟨ps', hflat, hpok, hlink⟩ := I.pieces
        have hne : s.tok.txt ≠ [] := by
          rw [hp.txt]
          intro h0
          have := congrArg List.length h0
          simp only [List.length_take, List.length_nil] at this
          omega
        refine ⟨i1, ?_, ?_, ?_, ?_, ?_⟩
        · intro x hx
          rcases List.mem_cons.mp hx with rfl | hx
          · exact ⟨hp.diag, hp.extra⟩
          · exact I.ok x hx
        · refine ⟨.tok s.tok :: ps', by simp [flat, Piece.toks, hflat], ⟨hp.tok, ?_, hpok⟩, ?_⟩
          · -- the short-macro branch
            rw [← hflat]
            have hact := hat
            simp only [okAt, Bool.and_eq_true, Bool.or_eq_true, Bool.not_eq_true'] at hact
            rcases hact.1 with hna | ⟨hns, hk⟩
            · left
              have : s.tok.txt = c :: (cs.take (s.len - 1)) := by
                rw [hp.txt]
                obtain ⟨k, hk⟩ : ∃ k, s.len = k + 1 := ⟨s.len - 1, by omega⟩
                rw [hk]; simp
              rw [this]
              exact not_active_cons T st c _ hna
            · right
              have hlen := (hone hns).1
              have htxt : s.tok.txt = [c] := by rw [hp.txt, hlen]; rfl
              have i4 := I.first
              rw [hlen] at i4 ⊢
              simp only [List.drop_succ_cons, List.drop_zero] at i4 ⊢
              cases hr : (scanSteps T.toTables src fuel (pos + 1) cs).1 with
              | nil => rfl
              | cons s2 ss =>
                simp only [List.map_cons]
                apply expandShortMacro_none
                rw [htxt, i4 s2 ss hr]
                rcases hk with hk | hk
                · cases cs with
                  | nil => cases fuel <;> simp [scanSteps] at hr
                  | cons => simp at hk
                · simpa using hk
          · rw [hitems1, ← hp.txt, ← hp.pos]
            refine .tok s.tok ps' items1 hp.fix ⟨hne, ?_⟩ hlink
            intro hnl
            by_cases hsp : isSpace c = true
            · rw [hp.first]
              simp only [firstTokTxt, hsp, if_true, isBlank, List.all_eq_true]
              exact fun x hx => mem_takeWhile_imp _ _ _ hx
            · have hsp' : isSpace c = false := by simpa using hsp
              have := (hone hsp').1
              rw [hp.txt, this] at hnl
              simp only [List.take_succ_cons, List.take_zero] at hnl
              rw [hasNl_single c hsp'] at hnl; cases hnl
        · intro s' ss' he
          simp only [List.cons.injEq] at he
          rw [← he.1, hp.first]
          refine (firstTokTxtM_of_text c cs ?_).symm
          rcases hsnd with h | h
          · exact Or.inl h
          · exact Or.inr h.1
        · intro hh s' ss' he
          simp only [List.cons.injEq] at he
          rw [← he.1]
          have hsp' : isSpace c = false := by simpa using hh
          simp [isSpaceTok, (hone hsp').2]
        · have := I.len
          simp only [List.length_cons, List.length_drop] at this h2 ⊢
          omega
      | defn _ name body R items' hd hsub =>
        have D := defFacts hd
        simp only [List.length_cons, List.length_append, ncName_eq] at hf hn
        obtain ⟨g, hg⟩ : ∃ g, fuel = g + 4 := ⟨fuel - 4, by omega⟩
        -- the five tokens in front of the body
        have hn1 := nextToken_nc T src pos _ D.ncSpecial D.ncAccent
        have hn2 := nextToken_brace T src (pos + 11) '{' _ (Or.inl rfl) D.b1
        have hn3 := nextToken_cw T st src (pos + 11 + 1) name _ D.cw
        have hn4 := nextToken_brace T src (pos + 11 + 1 + (name.length + 1)) '}' _ (Or.inr rfl) D.b2
        have hn5 := nextToken_brace T src (pos + 11 + 1 + (name.length + 1) + 1) '{' _ (Or.inl rfl) D.b3
        have hn6 := nextToken_brace T src (pos + 11 + 1 + (name.length + 1) + 1 + 1 + body.length) '}' R
          (Or.inr rfl) D.b4
        obtain ⟨bsteps, B, hrun⟩ := scanSteps_body T st src R body.length body
          (pos + 11 + 1 + (name.length + 1) + 1 + 1) g (Nat.le_refl _) (by omega) D.binert
        have hBl := B.len
        obtain ⟨g', hg'⟩ : ∃ g', g - bsteps.length = g' + 1 := ⟨g - bsteps.length - 1, by omega⟩
        have hpos : pos + 11 + 1 + (name.length + 1) + 1 + 1 + body.length + 1
            = pos + (name.length + body.length + 16) := by omega
        obtain ⟨i1, I⟩ := ih g' (pos + (name.length + body.length + 16)) R items' (by omega) (by omega) hsub
        obtain ⟨ps', hflat, hpok, hlink⟩ := I.pieces
        have hd1 : ('\\' :: (ncName ++ '{' :: '\\' :: (name ++ '}' :: '{' :: (body ++ '}' :: R)))).drop 11
            = '{' :: '\\' :: (name ++ '}' :: '{' :: (body ++ '}' :: R)) := by
          rw [ncName_eq]; rfl
        have hd3 : ('\\' :: (name ++ '}' :: '{' :: (body ++ '}' :: R))).drop (name.length + 1)
            = '}' :: '{' :: (body ++ '}' :: R) := by simp
        have hsteps : scanSteps T.toTables src (fuel + 1) pos
              ('\\' :: (ncName ++ '{' :: '\\' :: (name ++ '}' :: '{' :: (body ++ '}' :: R))))
            = ({ tok := cwTok pos ncName, len := 11 } ::
               { tok := { kind := .special, pos := pos + 11, txt := ['{'] }, len := 1 } ::
               { tok := cwTok (pos + 11 + 1) name, len := name.length + 1 } ::
               { tok := { kind := .special, pos := pos + 11 + 1 + (name.length + 1), txt := ['}'] }, len := 1 } ::
               { tok := { kind := .special, pos := pos + 11 + 1 + (name.length + 1) + 1, txt := ['{'] }, len := 1 } ::
               (bsteps ++
                 { tok := { kind := .special, pos := pos + 11 + 1 + (name.length + 1) + 1 + 1 + body.length,
                            txt := ['}'] }, len := 1 } ::
                 (scanSteps T.toTables src g' (pos + (name.length + body.length + 16)) R).1),
               (scanSteps T.toTables src g' (pos + (name.length + body.length + 16)) R).2) := by
          rw [hg, scanSteps_step T.toTables src (g + 4) pos _ _ _ hn1 (by simp), hd1]
          simp only []
          rw [scanSteps_step T.toTables src (g + 3) (pos + 11) _ _ _ hn2 (by simp)]
          simp only [List.drop_succ_cons, List.drop_zero]
          rw [scanSteps_step T.toTables src (g + 2) (pos + 11 + 1) _ _ _ hn3 (by simp), hd3]
          simp only []
          rw [scanSteps_step T.toTables src (g + 1) _ _ _ _ hn4 (by simp)]
          simp only [List.drop_succ_cons, List.drop_zero]
          rw [scanSteps_step T.toTables src g _ _ _ _ hn5 (by simp)]
          simp only [List.drop_succ_cons, List.drop_zero]
          rw [hrun, hg', scanSteps_step T.toTables src g' _ _ _ _ hn6 (by simp)]
          simp only [List.drop_succ_cons, List.drop_zero, hpos]
        rw [hsteps]
        refine ⟨i1, ?_, ?_, ?_, ?_, ?_⟩
        · intro x hx
          simp only [List.mem_cons, List.mem_append] at hx
          rcases hx with rfl | rfl | rfl | rfl | rfl | hx | rfl | hx
          · exact ⟨rfl, rfl⟩
          · exact ⟨rfl, rfl⟩
          · exact ⟨rfl, rfl⟩
          · exact ⟨rfl, rfl⟩
          · exact ⟨rfl, rfl⟩
          · exact ⟨(B.ok x hx).1, (B.ok x hx).2.1⟩
          · exact ⟨rfl, rfl⟩
          · exact I.ok x hx
        · refine ⟨.defn pos (pos + 11) (pos + 11 + 1) (pos + 11 + 1 + (name.length + 1))
              (pos + 11 + 1 + (name.length + 1) + 1)
              (pos + 11 + 1 + (name.length + 1) + 1 + 1 + body.length) name (bsteps.map (·.tok)) :: ps',
            ?_, ⟨nameOk_of_cwFacts D.cw D.ign, ⟨?_, ?_⟩, hpok⟩, ?_⟩
          · simp [flat, Piece.toks, hflat, lbr, rbr]
          · have := B.ne D.bne
            simpa using this
          · intro t ht
            obtain ⟨x, hx, rfl⟩ := List.mem_map.mp ht
            exact ⟨(B.ok x hx).2.2.1, (B.ok x hx).2.2.2.1⟩
          · refine .defn _ _ _ _ _ _ name body _ ps' items' B.txt ?_ hlink
            intro t ht
            obtain ⟨x, hx, rfl⟩ := List.mem_map.mp ht
            exact (B.ok x hx).2.2.2.2
        · intro s' ss' he
          simp only [List.cons.injEq] at he
          rw [← he.1]
          have htw : (ncName ++ '{' :: '\\' :: (name ++ '}' :: '{' :: (body ++ '}' :: R))).takeWhile macroChar
              = ncName := takeWhile_append_stop _ _ _ (by decide) rfl
          simp [firstTokTxtM, cwTok, show isSpace '\\' = false by decide, htw]
        · intro _ s' ss' he
          simp only [List.cons.injEq] at he
          rw [← he.1]; rfl
        · have := I.len
          simp only [List.length_cons, List.length_append, ncName_eq] at this ⊢
          omega
      | use _ name br R items' hu hsub =>
        have U := useFacts hu
        have hn1 := nextToken_cw T st src pos name _ U.cw
        have hd1 : ('\\' :: (name ++ (brStr br ++ R))).drop (name.length + 1) = brStr br ++ R := by simp
        have hne := List.length_pos_iff.mpr U.cw.ne
        have hfirst : (cwTok pos name).txt = firstTokTxtM ('\\' :: (name ++ (brStr br ++ R))) := by
          simp [firstTokTxtM, cwTok, U.cw.tw, show isSpace '\\' = false by decide]
        cases br with
        | false =>
          simp only [brStr, Bool.false_eq_true, if_false, List.nil_append, List.length_nil,
            Nat.add_zero, List.length_cons, List.length_append] at hsub hn1 hd1 hf hn hfirst ⊢
          obtain ⟨i1, I⟩ := ih fuel (pos + (name.length + 1)) R items' (by omega) (by omega) hsub
          obtain ⟨ps', hflat, hpok, hlink⟩ := I.pieces
          rw [scanSteps_step T.toTables src fuel pos _ _ _ hn1 (by simp), hd1]
          refine ⟨i1, ?_, ?_, ?_, ?_, ?_⟩
          · intro x hx
            rcases List.mem_cons.mp hx with rfl | hx
            · exact ⟨rfl, rfl⟩
            · exact I.ok x hx
          · refine ⟨.use pos name none :: ps', by simp [flat, Piece.toks, brToks, hflat],
              ⟨nameOk_of_cwFacts U.cw U.ign, fun _ => ?_, hpok⟩, ?_⟩
            · rw [← hflat]
              apply skip_of_firstNS
              intro t ts he
              obtain ⟨s2, ss2, hs2, rfl⟩ : ∃ s2 ss2,
                  (scanSteps T.toTables src fuel (pos + (name.length + 1)) R).1 = s2 :: ss2 ∧ t = s2.tok := by
                cases hr : (scanSteps T.toTables src fuel (pos + (name.length + 1)) R).1 with
                | nil => rw [hr] at he; simp at he
                | cons s2 ss2 =>
                  rw [hr] at he
                  simp only [List.map_cons, List.cons.injEq] at he
                  exact ⟨s2, ss2, rfl, he.1.symm⟩
              exact I.firstNS (U.nospace rfl) s2 ss2 hs2
            · exact .use pos name false 0 0 ps' items' U.cw.ne hlink
          · intro s' ss' he
            simp only [List.cons.injEq] at he
            rw [← he.1]; exact hfirst
          · intro _ s' ss' he
            simp only [List.cons.injEq] at he
            rw [← he.1]; rfl
          · have := I.len
            simp only [List.length_cons, List.length_append] at this ⊢
            omega
        | true =>
          obtain ⟨hb1, hb2⟩ := U.braces rfl
          simp only [brStr, if_true, List.cons_append, List.nil_append, List.length_cons,
            List.length_nil, List.length_append] at hsub hn1 hd1 hf hn hfirst ⊢
          obtain ⟨g, hg⟩ : ∃ g, fuel = g + 2 := ⟨fuel - 2, by omega⟩
          have hn2 := nextToken_brace T src (pos + (name.length + 1)) '{' _ (Or.inl rfl) hb1
          have hn3 := nextToken_brace T src (pos + (name.length + 1) + 1) '}' R (Or.inr rfl) hb2
          have hpos : pos + (name.length + 1) + 1 + 1 = pos + (name.length + 1 + (0 + 1 + 1)) := by omega
          obtain ⟨i1, I⟩ := ih g (pos + (name.length + 1 + (0 + 1 + 1))) R items' (by omega) (by omega) hsub
          obtain ⟨ps', hflat, hpok, hlink⟩ := I.pieces
          rw [hg, scanSteps_step T.toTables src (g + 2) pos _ _ _ hn1 (by simp), hd1]
          simp only []
          rw [scanSteps_step T.toTables src (g + 1) _ _ _ _ hn2 (by simp)]
          simp only [List.drop_succ_cons, List.drop_zero]
          rw [scanSteps_step T.toTables src g _ _ _ _ hn3 (by simp)]
          simp only [List.drop_succ_cons, List.drop_zero, hpos]
          refine ⟨i1, ?_, ?_, ?_, ?_, ?_⟩
          · intro x hx
            simp only [List.mem_cons] at hx
            rcases hx with rfl | rfl | rfl | hx
            · exact ⟨rfl, rfl⟩
            · exact ⟨rfl, rfl⟩
            · exact ⟨rfl, rfl⟩
            · exact I.ok x hx
          · refine ⟨.use pos name (some (pos + (name.length + 1), pos + (name.length + 1) + 1)) :: ps',
              by simp [flat, Piece.toks, brToks, hflat, lbr, rbr],
              ⟨nameOk_of_cwFacts U.cw U.ign, (fun h => nomatch h), hpok⟩, ?_⟩
            exact .use pos name true _ _ ps' items' U.cw.ne hlink
          · intro s' ss' he
            simp only [List.cons.injEq] at he
            rw [← he.1]; exact hfirst
          · intro _ s' ss' he
            simp only [List.cons.injEq] at he
            rw [← he.1]; rfl
          · have := I.len
            simp only [List.length_cons, List.length_append] at this ⊢
            omega

/-! ### a character-level reference for the blank-line removal

  Token lists whose tokens are *simple*: an Action token has no text, there is no language
  token, and a token whose text contains a line break is blank.  For such lists
  `remove_pure_action_lines` acts on the text as a sequence of lines: a line (up to and
  including its line break) is deleted iff it consists of white space only and holds at least
  one Action token; every other character is kept with its position. -/

/-- a character with its position, or the mark of an Action token -/
abbrev Mark := Option (Char × Nat)

def tokChars (t : Tok) : List (Char × Nat) := t.txt.zip (tokPositions t)
def tokMarks (t : Tok) : List Mark := if isAction t then [none] else (tokChars t).map some
def marksOf (ts : List Tok) : List Mark := ts.flatMap tokMarks
def charsOf (ts : List Tok) : List (Char × Nat) := ts.flatMap tokChars

/-- the reference: `cur` = the characters of the current line so far, `blank` = they are all white
    space, `act` = the line holds an Action mark -/
def delGo : List (Char × Nat) → Bool → Bool → List Mark → List (Char × Nat)
  | cur, blank, act, [] => if blank && act then [] else cur
  | cur, blank, _, none :: xs => delGo cur blank true xs
  | cur, blank, act, some cp :: xs =>
    if cp.1 == nl then (if blank && act then [] else cur ++ [cp]) ++ delGo [] true false xs
    else delGo (cur ++ [cp]) (blank && isSpace cp.1) act xs

/-- delete every line (with its line break) that is blank and holds an Action mark; drop the marks -/
def delLines (ms : List Mark) : List (Char × Nat) := delGo [] true false ms

def Blank (l : List (Char × Nat)) : Prop := ∀ cp ∈ l, isSpace cp.1 = true
def NoNl (l : List (Char × Nat)) : Prop := ∀ cp ∈ l, (cp.1 == nl) = false

/-- a line with a visible character is kept -/
theorem delGo_nb : ∀ (ms : List Mark) (cur : List (Char × Nat)) (act : Bool),
    delGo cur false act ms = cur ++ delGo [] false false ms
  | [], cur, act => by simp [delGo]
  | none :: xs, cur, act => by
    rw [delGo, delGo, delGo_nb xs cur true, delGo_nb xs [] true]; simp
  | some cp :: xs, cur, act => by
    rw [delGo, delGo]
    by_cases h : (cp.1 == nl) = true
    · simp [h]
    · simp only [h, Bool.false_eq_true, if_false, Bool.false_and]
      rw [delGo_nb xs (cur ++ [cp]) act, delGo_nb xs ([] ++ [cp]) false]
      simp

/-- characters without line break extend the current line -/
theorem delGo_chars : ∀ (cs : List (Char × Nat)) (cur : List (Char × Nat)) (b act : Bool) (X : List Mark),
    NoNl cs → delGo cur b act (cs.map some ++ X) = delGo (cur ++ cs) (b && cs.all (fun cp => isSpace cp.1)) act X
  | [], cur, b, act, X, _ => by simp
  | cp :: cs, cur, b, act, X, h => by
    have h1 : (cp.1 == nl) = false := h cp (List.mem_cons_self ..)
    simp only [List.map_cons, List.cons_append, delGo, h1, Bool.false_eq_true, if_false]
    rw [delGo_chars cs _ _ act X (fun x hx => h x (List.mem_cons_of_mem _ hx))]
    simp [Bool.and_assoc]

theorem all_of_Blank {l : List (Char × Nat)} (h : Blank l) : l.all (fun cp => isSpace cp.1) = true := by
  rw [List.all_eq_true]; exact h

/-- a run of Action marks and white space without line break -/
def BlankRun (ms : List Mark) : Prop :=
  ∀ m ∈ ms, m = none ∨ ∃ cp, m = some cp ∧ isSpace cp.1 = true ∧ (cp.1 == nl) = false

theorem delGo_blankrun : ∀ (ms : List Mark) (cur : List (Char × Nat)) (act : Bool) (X : List Mark),
    BlankRun ms →
    delGo cur true act (ms ++ X) = delGo (cur ++ ms.filterMap id) true (act || ms.any Option.isNone) X
  | [], cur, act, X, _ => by simp
  | none :: ms, cur, act, X, h => by
    simp only [List.cons_append, delGo]
    rw [delGo_blankrun ms cur true X (fun m hm => h m (List.mem_cons_of_mem _ hm))]
    simp
  | some cp :: ms, cur, act, X, h => by
    rcases h (some cp) (List.mem_cons_self ..) with h0 | ⟨cp', e, h1, h2⟩
    · cases h0
    · cases e
      simp only [List.cons_append, delGo, h2, Bool.false_eq_true, if_false, h1, Bool.and_self]
      rw [delGo_blankrun ms _ act X (fun m hm => h m (List.mem_cons_of_mem _ hm))]
      simp

/-- blank characters in front of a line break, no Action mark on the line: everything is kept -/
theorem delGo_keep_nl : ∀ (w : List (Char × Nat)) (cur : List (Char × Nat)) (nlp : Char × Nat) (X : List Mark),
    Blank w → (nlp.1 == nl) = true →
    delGo cur true false (w.map some ++ some nlp :: X) = cur ++ w ++ [nlp] ++ delGo [] true false X
  | [], cur, nlp, X, _, hn => by simp [delGo, hn]
  | cp :: w, cur, nlp, X, hw, hn => by
    have hb : isSpace cp.1 = true := hw cp (List.mem_cons_self ..)
    have hw' : Blank w := fun x hx => hw x (List.mem_cons_of_mem _ hx)
    simp only [List.map_cons, List.cons_append, delGo]
    by_cases h : (cp.1 == nl) = true
    · simp only [h, if_true, Bool.and_false, Bool.false_eq_true, if_false]
      rw [delGo_keep_nl w [] nlp X hw' hn]
      simp
    · simp only [h, Bool.false_eq_true, if_false, hb, Bool.and_self]
      rw [delGo_keep_nl w _ nlp X hw' hn]
      simp

/-! ### the characters of a token and of its trimmed versions -/

theorem tokChars_fst (t : Tok) : (tokChars t).map (·.1) = t.txt := by
  unfold tokChars
  rw [List.map_fst_zip]
  rw [tokPositions_length]; exact Nat.le_refl _

theorem mem_tokChars {t : Tok} {cp : Char × Nat} (h : cp ∈ tokChars t) : cp.1 ∈ t.txt :=
  (List.of_mem_zip h).1

theorem tokChars_split (t : Tok) (u a : Str) (h : t.txt = u ++ a) :
    tokChars t = u.zip (posOf t.fix t.pos u.length) ++
      a.zip (posOf t.fix (if t.fix then t.pos else t.pos + u.length) a.length) := by
  unfold tokChars
  rw [tokPositions_eq, h, List.length_append, posOf_add, List.zip_append (posOf_length ..).symm]

/-- a token is simple: an Action token has no text, it is no language token, and if its text
    contains a line break it is blank -/
def Simple (t : Tok) : Prop :=
  (isAction t = true → t.txt = []) ∧ isLang t = false ∧ (hasNl t.txt = true → isBlank t.txt = true)

def firstPart (t : Tok) : List (Char × Nat) := tokChars (trimFirst t)
def afterPart (t : Tok) : List (Char × Nat) := (tokChars t).drop (firstPart t).length

theorem tokChars_parts (t : Tok) : tokChars t = firstPart t ++ afterPart t := by
  unfold afterPart firstPart
  cases hn : hasNl t.txt with
  | true =>
    rw [tokChars_split t _ _ (split_last t.txt).symm]
    have : tokChars (trimFirst t)
        = (uptoLastNl t.txt).zip (posOf t.fix t.pos (uptoLastNl t.txt).length) := by
      simp [tokChars, trimFirst, hn, tokPositions_eq]
    rw [this, List.drop_left]
  | false =>
    have : tokChars (trimFirst t) = [] := by simp [tokChars, trimFirst, hn]
    rw [this]; simp

theorem firstPart_noNl (t : Tok) (hn : hasNl t.txt = false) : firstPart t = [] := by
  simp [firstPart, tokChars, trimFirst, hn]

theorem blank_tokChars (t : Tok) (hb : isBlank t.txt = true) : Blank (tokChars t) := by
  intro cp hcp
  unfold isBlank at hb
  rw [List.all_eq_true] at hb
  exact hb _ (mem_tokChars hcp)

theorem mem_takeWhile_prop {α} (p : α → Bool) : ∀ (l : List α) (x : α), x ∈ l.takeWhile p → p x = true
  | [], _, h => by simp at h
  | a :: l, x, h => by
    rw [List.takeWhile_cons] at h
    split at h
    · rcases List.mem_cons.mp h with rfl | h
      · assumption
      · exact mem_takeWhile_prop p l x h
    · simp at h

theorem map_eq_snoc {α β} (f : α → β) (l : List α) (w : List β) (x : β) (h : l.map f = w ++ [x]) :
    ∃ W y, l = W ++ [y] ∧ W.map f = w ∧ f y = x := by
  obtain ⟨l1, l2, e, h1, h2⟩ := List.map_eq_append_iff.mp h
  match l2, h2 with
  | [y], h2 => exact ⟨l1, y, e, h1, by simpa using h2⟩

theorem dropWhile_ne_mem : ∀ (l : List Char), nl ∈ l → ∃ xs, l.dropWhile (· != nl) = nl :: xs
  | [], h => by simp at h
  | c :: cs, h => by
    by_cases hc : c = nl
    · subst hc; exact ⟨cs, by simp⟩
    · have : nl ∈ cs := by
        rcases List.mem_cons.mp h with e | e
        · exact absurd e.symm hc
        · exact e
      obtain ⟨xs, hx⟩ := dropWhile_ne_mem cs this
      exact ⟨xs, by simp [hc, hx]⟩

theorem uptoLastNl_snoc (s : Str) (hn : hasNl s = true) : ∃ w, uptoLastNl s = w ++ [nl] := by
  unfold uptoLastNl
  have hmem : nl ∈ s.reverse := by
    simpa [hasNl] using hn
  obtain ⟨xs, hd⟩ := dropWhile_ne_mem s.reverse hmem
  exact ⟨xs.reverse, by rw [hd]; simp⟩

/-- the two parts of a blank token with a line break: up to the last line break, and behind it -/
theorem parts_nl (t : Tok) (hn : hasNl t.txt = true) (hb : isBlank t.txt = true) :
    (∃ W nlp, firstPart t = W ++ [nlp] ∧ (nlp.1 == nl) = true) ∧ Blank (firstPart t) ∧
    Blank (afterPart t) ∧ NoNl (afterPart t) := by
  have hall := blank_tokChars t hb
  have hparts := tokChars_parts t
  have hB1 : Blank (firstPart t) := fun cp h => hall cp (by rw [hparts]; simp [h])
  have hB2 : Blank (afterPart t) := fun cp h => hall cp (by rw [hparts]; simp [h])
  refine ⟨?_, hB1, hB2, ?_⟩
  · obtain ⟨w, hw⟩ := uptoLastNl_snoc t.txt hn
    have : (firstPart t).map (·.1) = w ++ [nl] := by
      unfold firstPart
      rw [tokChars_fst]
      simp [trimFirst, hn, hw]
    obtain ⟨W, y, e, _, hy⟩ := map_eq_snoc _ _ _ _ this
    exact ⟨W, y, e, by simp [hy]⟩
  · have hfst : (afterPart t).map (·.1) = afterLastNl t.txt := by
      have h1 := congrArg (List.map (·.1)) hparts
      rw [tokChars_fst, List.map_append] at h1
      have h2 : (firstPart t).map (·.1) = uptoLastNl t.txt := by
        unfold firstPart; rw [tokChars_fst]; simp [trimFirst, hn]
      rw [h2] at h1
      exact (List.append_cancel_left ((split_last t.txt).trans h1)).symm
    intro cp hcp
    have : cp.1 ∈ afterLastNl t.txt := by rw [← hfst]; exact List.mem_map_of_mem hcp
    unfold afterLastNl at this
    rw [List.mem_reverse] at this
    have := mem_takeWhile_prop _ _ _ this
    simpa using this

/-- a blank token with a line break: the part before the first line break, the line break, and
    the rest, which is the trimmed token -/
theorem trimLast_nl (t : Tok) (hn : hasNl t.txt = true) (hb : isBlank t.txt = true) :
    ∃ B nlp, tokChars t = B ++ nlp :: tokChars (trimLast t) ∧ (nlp.1 == nl) = true ∧
      Blank B ∧ NoNl B := by
  have hall := blank_tokChars t hb
  have e : t.txt = (beforeFirstNl t.txt ++ [nl]) ++ afterFirstNl t.txt := by
    simpa using (split_first t.txt hn).symm
  have hsplit := tokChars_split t _ _ e
  have h2 : tokChars (trimLast t)
      = (afterFirstNl t.txt).zip (posOf t.fix (if t.fix then t.pos else t.pos + (beforeFirstNl t.txt ++ [nl]).length)
          (afterFirstNl t.txt).length) := by
    simp [tokChars, trimLast, hn, tokPositions_eq]
  rw [← h2] at hsplit
  have hfst : ((beforeFirstNl t.txt ++ [nl]).zip
      (posOf t.fix t.pos (beforeFirstNl t.txt ++ [nl]).length)).map (·.1) = beforeFirstNl t.txt ++ [nl] := by
    rw [List.map_fst_zip]; rw [posOf_length]; exact Nat.le_refl _
  obtain ⟨B, nlp, eB, hBf, hy⟩ := map_eq_snoc _ _ _ _ hfst
  rw [eB] at hsplit
  refine ⟨B, nlp, by rw [hsplit]; simp, by simp [hy], ?_, ?_⟩
  · intro cp hcp; exact hall cp (by rw [hsplit]; simp [hcp])
  · intro cp hcp
    have : cp.1 ∈ beforeFirstNl t.txt := by rw [← hBf]; exact List.mem_map_of_mem hcp
    have := mem_takeWhile_prop _ _ _ this
    simpa using this

theorem trimLast_noNl (t : Tok) (hn : hasNl t.txt = false) : tokChars (trimLast t) = [] := by
  simp [tokChars, trimLast, hn]

theorem isBlank_afterLastNl' (s : Str) (h : isBlank s = true) : isBlank (afterLastNl s) = true := by
  unfold isBlank afterLastNl at *
  rw [List.all_eq_true] at h ⊢
  intro x hx
  rw [List.mem_reverse] at hx
  exact h x (List.mem_reverse.mp ((List.takeWhile_sublist _).subset hx))

/-! ### the work list -/

/-- an item that is the evaluation of a simple token -/
def FItem (i : LItem) : Prop := i = evalTok i.tok ∧ Simple i.tok
/-- a sentinel that starts a line -/
def SItem (i : LItem) : Prop :=
  i.tok.txt = [] ∧ isAction i.tok = false ∧ isLang i.tok = false ∧ i.cs = true ∧ i.blank = true ∧ i.ce = false
/-- the sentinel at the end -/
def EItem (i : LItem) : Prop :=
  i.tok.txt = [] ∧ isAction i.tok = false ∧ isLang i.tok = false ∧ i.cs = false ∧ i.blank = true ∧ i.ce = true

/-- the tail of a work list: evaluated simple tokens, the last one possibly the end sentinel -/
def WLt : List LItem → Prop
  | [] => True
  | [i] => FItem i ∨ EItem i
  | i :: j :: tl => FItem i ∧ WLt (j :: tl)

/-- a work list: its head may also be a line-start sentinel -/
def WL : List LItem → Prop
  | [] => True
  | t :: rest => (FItem t ∨ SItem t ∨ (EItem t ∧ rest = [])) ∧ WLt rest

theorem WLt_cons {i : LItem} {tl : List LItem} (h : WLt (i :: tl)) :
    (FItem i ∨ (EItem i ∧ tl = [])) ∧ WLt tl := by
  cases tl with
  | nil =>
    rcases h with h | h
    · exact ⟨Or.inl h, trivial⟩
    · exact ⟨Or.inr ⟨h, rfl⟩, trivial⟩
  | cons j tl => exact ⟨Or.inl h.1, h.2⟩

theorem WLt_append {a : List LItem} {lst : LItem} {rest' : List LItem} (h : WLt (a ++ lst :: rest')) :
    (∀ i ∈ a, FItem i) ∧ WLt (lst :: rest') := by
  induction a with
  | nil => exact ⟨by simp, h⟩
  | cons x xs ih =>
    have hx : WLt (x :: (xs ++ lst :: rest')) := h
    obtain ⟨h1, h2⟩ := WLt_cons hx
    obtain ⟨i1, i2⟩ := ih h2
    refine ⟨?_, i2⟩
    intro i hi
    rcases List.mem_cons.mp hi with rfl | hi
    · rcases h1 with h1 | ⟨_, h1⟩
      · exact h1
      · simp at h1
    · exact i1 i hi

theorem WL_of_WLt {l : List LItem} (h : WLt l) : WL l := by
  cases l with
  | nil => trivial
  | cons i tl =>
    obtain ⟨h1, h2⟩ := WLt_cons h
    refine ⟨?_, h2⟩
    rcases h1 with h1 | h1
    · exact Or.inl h1
    · exact Or.inr (Or.inr h1)

theorem WLt_cons_F {i : LItem} {tl : List LItem} (hi : FItem i) (h : WLt tl) : WLt (i :: tl) := by
  cases tl with
  | nil => exact Or.inl hi
  | cons j tl => exact ⟨hi, h⟩

/-- the flags of an evaluated simple token that is no Action token -/
theorem evalTok_simple (t : Tok) (hs : Simple t) (ha : isAction t = false) :
    (evalTok t).cs = hasNl t.txt ∧ (evalTok t).ce = hasNl t.txt ∧
    (evalTok t).blank = (!hasNl t.txt && isBlank t.txt) := by
  cases hn : hasNl t.txt with
  | false => simp [evalTok, ha, hn]
  | true =>
    have hb := hs.2.2 hn
    simp [evalTok, ha, hn, PlainMacro.isBlank_afterLastNl' _ hb, isBlank_beforeFirstNl _ hb]

def imarks (items : List LItem) : List Mark := items.flatMap (fun i => tokMarks i.tok)

/-- what the loop makes of a work list, on the level of characters -/
def specW : List LItem → List (Char × Nat)
  | [] => []
  | t :: rest =>
    if t.cs then firstPart t.tok ++ delGo (afterPart t.tok) true false (imarks rest)
    else delGo [] false false (imarks (t :: rest))

theorem specW_cons (t : LItem) (rest : List LItem) :
    specW (t :: rest) = if t.cs then firstPart t.tok ++ delGo (afterPart t.tok) true false (imarks rest)
      else delGo [] false false (imarks (t :: rest)) := rfl

theorem imarks_cons (i : LItem) (l : List LItem) : imarks (i :: l) = tokMarks i.tok ++ imarks l := by
  simp [imarks]

theorem imarks_append (a b : List LItem) : imarks (a ++ b) = imarks a ++ imarks b := by
  simp [imarks]

theorem tokChars_of_nil (t : Tok) (h : t.txt = []) : tokChars t = [] := by simp [tokChars, h]

theorem tokMarks_nil (t : Tok) (h : t.txt = []) (ha : isAction t = false) : tokMarks t = [] := by
  simp [tokMarks, ha, tokChars_of_nil t h]

theorem tokMarks_nonaction (t : Tok) (ha : isAction t = false) : tokMarks t = (tokChars t).map some := by
  simp [tokMarks, ha]

theorem tokMarks_action (t : Tok) (ha : isAction t = true) : tokMarks t = [none] := by
  simp [tokMarks, ha]

theorem noNl_of_hasNl_false (t : Tok) (hn : hasNl t.txt = false) : NoNl (tokChars t) := by
  intro cp hcp
  have := mem_tokChars hcp
  cases hb : cp.1 == nl with
  | false => rfl
  | true =>
    rw [beq_iff_eq] at hb
    rw [hb] at this
    have : hasNl t.txt = true := by simpa [hasNl] using this
    rw [hn] at this; cases this

/-- blank characters (possibly with line breaks) in front of a line break, behind visible text -/
theorem delGo_keep_nl' : ∀ (w : List (Char × Nat)) (cur : List (Char × Nat)) (act : Bool)
    (nlp : Char × Nat) (X : List Mark), Blank w → (nlp.1 == nl) = true →
    delGo cur false act (w.map some ++ some nlp :: X) = cur ++ w ++ [nlp] ++ delGo [] true false X
  | [], cur, act, nlp, X, _, hn => by simp [delGo, hn]
  | cp :: w, cur, act, nlp, X, hw, hn => by
    have hw' : Blank w := fun x hx => hw x (List.mem_cons_of_mem _ hx)
    simp only [List.map_cons, List.cons_append, delGo]
    by_cases h : (cp.1 == nl) = true
    · simp only [h, if_true, Bool.false_and, Bool.false_eq_true, if_false]
      rw [delGo_keep_nl w [] nlp X hw' hn]
      simp
    · simp only [h, Bool.false_eq_true, if_false, Bool.false_and]
      rw [delGo_keep_nl' w _ act nlp X hw' hn]
      simp

/-- a blank token with a line break, no Action mark on the current line -/
theorem delGo_ntok (t : Tok) (hn : hasNl t.txt = true) (hb : isBlank t.txt = true)
    (cur : List (Char × Nat)) (b : Bool) (X : List Mark) :
    delGo cur b false ((tokChars t).map some ++ X)
      = cur ++ firstPart t ++ delGo (afterPart t) true false X := by
  obtain ⟨⟨W, nlp, eW, hnl⟩, hB1, hB2, hN2⟩ := parts_nl t hn hb
  have hBW : Blank W := fun cp h => hB1 cp (by rw [eW]; simp [h])
  rw [tokChars_parts t, eW]
  simp only [List.map_append, List.map_cons, List.append_assoc, List.cons_append,
    List.nil_append]
  have h2 : delGo [] true false ((afterPart t).map some ++ X) = delGo (afterPart t) true false X := by
    rw [delGo_chars _ _ _ _ _ hN2, all_of_Blank hB2]; simp
  cases b with
  | true => rw [delGo_keep_nl W cur nlp _ hBW hnl, h2]; simp
  | false => rw [delGo_keep_nl' W cur false nlp _ hBW hnl, h2]; simp

theorem FItem_flags {i : LItem} (h : FItem i) (ha : isAction i.tok = false) :
    i.cs = hasNl i.tok.txt ∧ i.ce = hasNl i.tok.txt ∧ i.blank = (!hasNl i.tok.txt && isBlank i.tok.txt) := by
  have := evalTok_simple i.tok h.2 ha
  rw [← h.1] at this
  exact this

theorem FItem_action {i : LItem} (h : FItem i) (ha : isAction i.tok = true) :
    i.cs = false ∧ i.ce = false ∧ i.blank = true ∧ i.tok.txt = [] := by
  have e := h.1
  have : evalTok i.tok = { tok := i.tok, blank := true, cs := false, ce := false } := by
    simp [evalTok, ha]
  rw [this] at e
  refine ⟨by rw [e], by rw [e], by rw [e], h.2.1 ha⟩

/-- in the middle of a kept line: the rest of the work list -/
theorem specW_goK : ∀ (rest : List LItem), WLt rest → delGo [] false false (imarks rest) = specW rest
  | [], _ => rfl
  | h :: tl, hw => by
    by_cases hcs : h.cs = true
    · obtain ⟨h1, _⟩ := WLt_cons hw
      have hF : FItem h := by
        rcases h1 with h1 | ⟨h1, _⟩
        · exact h1
        · have := h1.2.2.2.1; rw [hcs] at this; cases this
      have ha : isAction h.tok = false := by
        cases ha : isAction h.tok with
        | false => rfl
        | true => have := (FItem_action hF ha).1; rw [hcs] at this; cases this
      have hn : hasNl h.tok.txt = true := by rw [← (FItem_flags hF ha).1]; exact hcs
      have hb := hF.2.2.2 hn
      simp only [specW, hcs, if_true]
      rw [imarks_cons, tokMarks_nonaction _ ha, delGo_ntok h.tok hn hb [] false]
      simp
    · simp only [specW, hcs, Bool.false_eq_true, if_false]

theorem all_tokChars (t : Tok) : (tokChars t).all (fun cp => isSpace cp.1) = isBlank t.txt := by
  have := tokChars_fst t
  unfold isBlank
  rw [← this, List.all_map]
  rfl

theorem filterMap_map_some {α} (l : List α) : (l.map some).filterMap id = l := by
  induction l with
  | nil => rfl
  | cons a l ih => simp [ih]

theorem any_isNone_map_some {α} (l : List α) : (l.map some).any Option.isNone = false := by
  induction l with
  | nil => rfl
  | cons a l ih => simp [ih]

/-- the collected middle of a line: Action marks and blank text without line break -/
theorem mid_run : ∀ (mid : List LItem), (∀ i ∈ mid, FItem i) → (∀ i ∈ mid, i.blank = true ∧ i.ce = false) →
    BlankRun (imarks mid) ∧ (imarks mid).filterMap id = charsOf (mid.map (·.tok)) ∧
    (imarks mid).any Option.isNone = mid.any (fun i => isAction i.tok)
  | [], _, _ => ⟨by intro m hm; simp [imarks] at hm, rfl, rfl⟩
  | i :: mid, hF, hm => by
    obtain ⟨r1, r2, r3⟩ := mid_run mid (fun x hx => hF x (List.mem_cons_of_mem _ hx))
      (fun x hx => hm x (List.mem_cons_of_mem _ hx))
    have hFi := hF i (List.mem_cons_self ..)
    obtain ⟨hb, hce⟩ := hm i (List.mem_cons_self ..)
    rw [imarks_cons]
    cases ha : isAction i.tok with
    | true =>
      have htxt := (FItem_action hFi ha).2.2.2
      rw [tokMarks_action _ ha]
      refine ⟨?_, ?_, ?_⟩
      · intro m hm'
        rcases List.mem_append.mp hm' with h | h
        · left; simpa using h
        · exact r1 m h
      · simp [r2, charsOf, tokChars_of_nil _ htxt]
      · simp [ha]
    | false =>
      obtain ⟨_, f2, f3⟩ := FItem_flags hFi ha
      have hn : hasNl i.tok.txt = false := by rw [← f2]; exact hce
      have hbl : isBlank i.tok.txt = true := by simpa [hn, hb] using f3.symm
      rw [tokMarks_nonaction _ ha]
      refine ⟨?_, ?_, ?_⟩
      · intro m hm'
        rcases List.mem_append.mp hm' with h | h
        · right
          obtain ⟨cp, hcp, rfl⟩ := List.mem_map.mp h
          exact ⟨cp, rfl, blank_tokChars _ hbl cp hcp, noNl_of_hasNl_false _ hn cp hcp⟩
        · exact r1 m h
      · rw [List.filterMap_append, filterMap_map_some, r2]; simp [charsOf]
      · rw [List.any_append, any_isNone_map_some, r3]; simp [ha]

theorem Simple_trimLast (t : Tok) (h : Simple t) : Simple (trimLast t) := by
  refine ⟨?_, h.2.1, ?_⟩
  · intro ha
    have := h.1 ha
    simp [trimLast, this, hasNl_nil]
  · intro hn
    cases hnt : hasNl t.txt with
    | false => simp [trimLast, hnt, hasNl_nil] at hn
    | true =>
      have hb := h.2.2 hnt
      have e := split_first t.txt hnt
      have : isBlank (afterFirstNl t.txt) = true := by
        rw [← e, isBlank_append] at hb
        simp only [Bool.and_eq_true] at hb
        have := hb.2
        simp only [isBlank, List.all_cons, Bool.and_eq_true] at this ⊢
        exact this.2
      simpa [trimLast, hnt] using this

theorem FItem_evalTok (t : Tok) (h : Simple t) : FItem (evalTok t) := by
  unfold FItem
  rw [evalTok_tok]
  exact ⟨rfl, h⟩

theorem Simple_of_nil (t : Tok) (h : t.txt = []) (hl : isLang t = false) : Simple t :=
  ⟨fun _ => h, hl, by rw [h]; intro h'; simp [hasNl] at h'⟩

/-- the end of a blank line with an Action mark: the line is deleted, through the first line
    break of the last collected token -/
theorem lst_remove (lst : LItem) (rest' : List LItem) (cur : List (Char × Nat)) (act : Bool)
    (hl : FItem lst ∨ (EItem lst ∧ rest' = []))
    (hx : lst.ce = false → lst.blank = true → rest' = []) (hb : (lst.ce || lst.blank) = true)
    (hact : (act || isAction lst.tok) = true) :
    delGo cur true act (tokMarks lst.tok ++ imarks rest')
      = delGo [] true false (tokMarks (trimLast lst.tok) ++ imarks rest') := by
  rcases hl with hF | ⟨hE, rfl⟩
  · cases ha : isAction lst.tok with
    | true =>
      obtain ⟨_, f2, f3, f4⟩ := FItem_action hF ha
      have := hx f2 f3
      subst this
      have ha' : isAction (trimLast lst.tok) = true := by simpa using ha
      rw [tokMarks_action _ ha, tokMarks_action _ ha']
      simp [imarks, delGo]
    | false =>
      have hact' : act = true := by simpa [ha] using hact
      subst hact'
      have ha' : isAction (trimLast lst.tok) = false := by simpa using ha
      obtain ⟨_, f2, f3⟩ := FItem_flags hF ha
      rw [tokMarks_nonaction _ ha, tokMarks_nonaction _ ha']
      cases hn : hasNl lst.tok.txt with
      | true =>
        have hbl := hF.2.2.2 hn
        obtain ⟨B, nlp, e, hnl, hB, hN⟩ := trimLast_nl lst.tok hn hbl
        rw [e]
        simp only [List.map_append, List.map_cons, List.append_assoc, List.cons_append]
        rw [delGo_chars B cur true true _ hN, all_of_Blank hB]
        simp [delGo, hnl]
      | false =>
        have hce : lst.ce = false := by rw [f2]; exact hn
        have hblank : lst.blank = true := by simpa [hce] using hb
        have hbl : isBlank lst.tok.txt = true := by simpa [hn, hblank] using f3.symm
        have := hx hce hblank
        subst this
        rw [trimLast_noNl _ hn]
        simp only [imarks, List.flatMap_nil, List.append_nil, List.map_nil]
        have := delGo_chars (tokChars lst.tok) cur true true [] (noNl_of_hasNl_false _ hn)
        simp only [List.append_nil] at this
        rw [this, all_of_Blank (blank_tokChars _ hbl)]
        simp [delGo]
  · obtain ⟨h1, h2, h3, _, _, h6⟩ := hE
    have hact' : act = true := by simpa [h2] using hact
    subst hact'
    have e1 : tokMarks lst.tok = [] := tokMarks_nil _ h1 h2
    have e2 : tokMarks (trimLast lst.tok) = [] :=
      tokMarks_nil _ (by simp [trimLast, h1, hasNl_nil]) (by simpa using h2)
    rw [e1, e2]
    simp [imarks, delGo]

/-- the end of a line that is kept -/
theorem lst_keep (lst : LItem) (rest' : List LItem) (cur : List (Char × Nat)) (act : Bool)
    (hl : FItem lst ∨ (EItem lst ∧ rest' = []))
    (hx : lst.ce = false → lst.blank = true → rest' = [])
    (hcond : ((lst.ce || lst.blank) && (act || isAction lst.tok)) = false) :
    delGo cur true act (tokMarks lst.tok ++ imarks rest')
      = cur ++ specW (evalTok lst.tok :: rest') := by
  rcases hl with hF | ⟨hE, rfl⟩
  · have hev : evalTok lst.tok = lst := hF.1.symm
    rw [hev]
    cases ha : isAction lst.tok with
    | true =>
      obtain ⟨_, f2, f3, f4⟩ := FItem_action hF ha
      simp [f2, f3, ha] at hcond
    | false =>
      obtain ⟨f1, f2, f3⟩ := FItem_flags hF ha
      rw [tokMarks_nonaction _ ha]
      cases hn : hasNl lst.tok.txt with
      | true =>
        have hbl := hF.2.2.2 hn
        have hce : lst.ce = true := by rw [f2]; exact hn
        have hact : act = false := by simpa [hce, ha] using hcond
        subst hact
        have hcs : lst.cs = true := by rw [f1]; exact hn
        rw [delGo_ntok lst.tok hn hbl cur true]
        simp [specW, hcs]
      | false =>
        have hcs : lst.cs = false := by rw [f1]; exact hn
        have hce : lst.ce = false := by rw [f2]; exact hn
        have hN := noNl_of_hasNl_false _ hn
        simp only [specW, hcs, Bool.false_eq_true, if_false, imarks_cons, tokMarks_nonaction _ ha]
        rw [delGo_chars _ cur true act _ hN, delGo_chars _ [] false false _ hN, all_tokChars]
        cases hbl : isBlank lst.tok.txt with
        | true =>
          have hblank : lst.blank = true := by rw [f3]; simp [hn, hbl]
          have := hx hce hblank
          subst this
          have hact : act = false := by simpa [hce, hblank, ha] using hcond
          subst hact
          simp [imarks, delGo]
        | false =>
          simp only [Bool.and_false, List.nil_append]
          rw [delGo_nb _ (cur ++ tokChars lst.tok) act, delGo_nb _ (tokChars lst.tok) false]
          simp
  · obtain ⟨h1, h2, h3, _, _, h6⟩ := hE
    have hact : act = false := by simpa [h6, h2] using hcond
    subst hact
    have e1 : tokMarks lst.tok = [] := tokMarks_nil _ h1 h2
    have hcs : (evalTok lst.tok).cs = false := by
      simp [evalTok, h2, h1, hasNl_nil]
    rw [e1]
    simp [specW, hcs, imarks, evalTok_tok, e1, delGo]

theorem charsOf_cons (t : Tok) (ts : List Tok) : charsOf (t :: ts) = tokChars t ++ charsOf ts := by
  simp [charsOf]

theorem charsOf_append (a b : List Tok) : charsOf (a ++ b) = charsOf a ++ charsOf b := by
  simp [charsOf]

theorem head_not_action {t : LItem} {rest : List LItem}
    (h : FItem t ∨ SItem t ∨ (EItem t ∧ rest = [])) (hcs : t.cs = true) :
    isAction t.tok = false ∧ isLang t.tok = false := by
  rcases h with h | h | ⟨h, _⟩
  · refine ⟨?_, h.2.2.1⟩
    cases ha : isAction t.tok with
    | false => rfl
    | true => have := (FItem_action h ha).1; rw [hcs] at this; cases this
  · exact ⟨h.2.1, h.2.2.1⟩
  · exact ⟨h.2.1, h.2.2.1⟩

theorem item_notLang {i : LItem} (h : FItem i ∨ EItem i) : isLang i.tok = false := by
  rcases h with h | h
  · exact h.2.2.1
  · exact h.2.2.1

/-- **the loop on the level of characters**: the characters (with positions) of the result are
    `specW` of the work list -/
theorem LinesRel_chars (items : List LItem) (r : List Tok) (hrel : LinesRel items r) (hw : WL items) :
    charsOf r = specW items := by
  induction hrel with
  | nil => rfl
  | skip t rest r hcs _ ih =>
    obtain ⟨ht, hrest⟩ := hw
    rw [charsOf_cons, ih (WL_of_WLt hrest), specW_cons]
    simp only [hcs, Bool.false_eq_true, if_false, imarks_cons]
    rcases ht with hF | hS | ⟨hE, rfl⟩
    · cases ha : isAction t.tok with
      | true =>
        rw [tokMarks_action _ ha, tokChars_of_nil _ (FItem_action hF ha).2.2.2]
        simp only [List.nil_append, List.singleton_append, delGo]
        rw [delGo_nb, specW_goK rest hrest]; simp
      | false =>
        have hn : hasNl t.tok.txt = false := by rw [← (FItem_flags hF ha).1]; exact hcs
        rw [tokMarks_nonaction _ ha, delGo_chars _ [] false false _ (noNl_of_hasNl_false _ hn)]
        simp only [Bool.false_and, List.nil_append]
        rw [delGo_nb, specW_goK rest hrest]
    · have := hS.2.2.2.1; rw [hcs] at this; cases this
    · rw [tokMarks_nil _ hE.1 hE.2.1, tokChars_of_nil _ hE.1]
      simp [imarks, delGo, specW]
  | one t hcs =>
    rw [specW_cons]
    simp only [hcs, if_true, imarks, List.flatMap_nil, delGo, Bool.and_false, Bool.false_eq_true, if_false]
    rw [charsOf_cons]
    simp only [charsOf, List.flatMap_nil, List.append_nil]
    exact tokChars_parts t.tok
  | remove t mid lst rest' r hcs hm hx hb hany _ ih =>
    obtain ⟨ht, hrest⟩ := hw
    obtain ⟨hmidF, hl⟩ := WLt_append hrest
    obtain ⟨hl1, hrest'⟩ := WLt_cons hl
    obtain ⟨hta, htl⟩ := head_not_action ht hcs
    have hlsimple : Simple (trimLast lst.tok) := by
      rcases hl1 with h | ⟨h, _⟩
      · exact Simple_trimLast _ h.2
      · exact Simple_of_nil _ (by simp [trimLast, h.1, hasNl_nil]) (by simpa using h.2.2.1)
    have hwl : WL (sentItem (trimLast lst.tok) :: evalTok (trimLast lst.tok) :: rest') := by
      refine ⟨Or.inr (Or.inl ?_), WLt_cons_F (FItem_evalTok _ hlsimple) hrest'⟩
      simp [SItem, sentItem, evalTok, sentinel, isAction, isLang, hasNl, isBlank]
    have hlangs : ((t :: (mid ++ [lst])).map (·.tok)).filter isLang = [] := by
      rw [List.filter_eq_nil_iff]
      intro x hx'
      obtain ⟨i, hi, rfl⟩ := List.mem_map.mp hx'
      simp only [List.mem_cons, List.mem_append, List.not_mem_nil, or_false] at hi
      rcases hi with rfl | hi | rfl
      · simp [htl]
      · simp [(hmidF i hi).2.2.1]
      · rcases hl1 with h | ⟨h, _⟩
        · simp [h.2.2.1]
        · simp [h.2.2.1]
    obtain ⟨r1, r2, r3⟩ := mid_run mid hmidF hm
    have hact : ((false || (imarks mid).any Option.isNone) || isAction lst.tok) = true := by
      rw [r3]
      simpa [List.any_append, hta] using hany
    rw [hlangs, List.nil_append, charsOf_cons, ih hwl]
    have hsent : (sentItem (trimLast lst.tok)).cs = true := rfl
    have hs1 : firstPart (sentItem (trimLast lst.tok)).tok = [] := by
      simp [firstPart, tokChars, trimFirst, sentinel, hasNl]
    have hs2 : afterPart (sentItem (trimLast lst.tok)).tok = [] := by
      simp [afterPart, tokChars, sentinel]
    rw [specW_cons, specW_cons]
    simp only [hcs, hsent, if_true, hs1, hs2, List.nil_append, imarks_cons, imarks_append,
      evalTok_tok]
    rw [delGo_blankrun _ _ _ _ r1, lst_remove lst rest' _ _ hl1 hx hb hact]
    rfl
  | keep t mid lst rest' r hcs hm hx hcond _ ih =>
    obtain ⟨ht, hrest⟩ := hw
    obtain ⟨hmidF, hl⟩ := WLt_append hrest
    obtain ⟨hl1, hrest'⟩ := WLt_cons hl
    obtain ⟨hta, _⟩ := head_not_action ht hcs
    have hlsimple : Simple lst.tok := by
      rcases hl1 with h | ⟨h, _⟩
      · exact h.2
      · exact Simple_of_nil _ h.1 h.2.2.1
    have hwl : WL (evalTok lst.tok :: rest') :=
      WL_of_WLt (WLt_cons_F (FItem_evalTok _ hlsimple) hrest')
    obtain ⟨r1, r2, r3⟩ := mid_run mid hmidF hm
    have hcond' : ((lst.ce || lst.blank) &&
        ((false || (imarks mid).any Option.isNone) || isAction lst.tok)) = false := by
      rw [r3]
      simpa [List.any_append, hta] using hcond
    rw [charsOf_cons, charsOf_append, ih hwl, specW_cons (t := t)]
    simp only [hcs, if_true, imarks_cons, imarks_append]
    rw [delGo_blankrun _ _ _ _ r1, lst_keep lst rest' _ _ hl1 hx hcond', r2]
    conv => lhs; rw [tokChars_parts t.tok]
    simp only [List.append_assoc]

theorem WLt_init (p : Nat) : ∀ (l : List Tok), (∀ t ∈ l, Simple t) → WLt (l.map evalTok ++ [lastItem p])
  | [], _ => by
    refine Or.inr ?_
    simp [EItem, lastItem, evalTok, sentinel, isAction, isLang, hasNl, isBlank]
  | t :: l, h => by
    exact WLt_cons_F (FItem_evalTok t (h t (List.mem_cons_self ..)))
      (WLt_init p l (fun x hx => h x (List.mem_cons_of_mem _ hx)))

theorem imarks_map_evalTok (l : List Tok) : imarks (l.map evalTok) = marksOf l := by
  simp [imarks, marksOf, List.flatMap_map]

theorem marksOf_filter_keepIn : ∀ (ts : List Tok), marksOf (ts.filter keepIn) = marksOf ts
  | [] => rfl
  | t :: ts => by
    have ih := marksOf_filter_keepIn ts
    simp only [marksOf] at ih ⊢
    cases hk : keepIn t with
    | true => simp [hk, ih]
    | false =>
      have htxt := keepIn_txt t hk
      have ha : isAction t = false := by
        simp only [keepIn, Bool.or_eq_false_iff] at hk
        exact hk.1.2
      simp [hk, ih, tokMarks_nil t htxt ha]

theorem charsOf_filter_keepOut : ∀ (ts : List Tok), charsOf (ts.filter keepOut) = charsOf ts
  | [] => rfl
  | t :: ts => by
    have ih := charsOf_filter_keepOut ts
    simp only [charsOf] at ih ⊢
    cases hk : keepOut t with
    | true => simp [hk, ih]
    | false => simp [hk, ih, tokChars_of_nil t (keepOut_txt t hk)]

/-- **the blank-line removal on simple tokens, exactly.**  The characters of the result, with
    their positions, are those of the input with every line deleted that is blank and holds an
    Action token. -/
theorem removeLines_simple (ts : List Tok) (h : ∀ t ∈ ts, Simple t) :
    ∃ r, removeLines ts = some r ∧ charsOf r = delLines (marksOf ts) := by
  obtain ⟨out, hr⟩ := Option.isSome_iff_exists.mp (removeLines_progress ts)
  refine ⟨out, hr, ?_⟩
  obtain ⟨r, hrel, rfl⟩ := removeLines_rel ts out hr
  obtain ⟨p, e⟩ := linesInit_eq ts
  rw [e] at hrel
  have hsimple : ∀ t ∈ ts.filter keepIn, Simple t := fun t ht => h t (List.mem_filter.mp ht).1
  have hwl : WL (firstItem :: ((ts.filter keepIn).map evalTok ++ [lastItem p])) := by
    refine ⟨Or.inr (Or.inl ?_), WLt_init p _ hsimple⟩
    simp [SItem, firstItem, evalTok, sentinel, isAction, isLang, hasNl, isBlank]
  rw [charsOf_filter_keepOut, LinesRel_chars _ r hrel hwl, specW_cons]
  have hcs : firstItem.cs = true := rfl
  have hs1 : firstPart firstItem.tok = [] := by
    simp [firstPart, tokChars, trimFirst, sentinel, hasNl]
  have hs2 : afterPart firstItem.tok = [] := by
    simp [afterPart, tokChars, sentinel]
  have hlast : imarks [lastItem p] = [] := by
    simp [imarks, tokMarks_nil (sentinel p) rfl rfl]
  simp only [hcs, if_true, hs1, hs2, List.nil_append, imarks_append, imarks_map_evalTok, hlast,
    List.append_nil, marksOf_filter_keepIn, delLines]

theorem getTxtPos_charsOf : ∀ (ts : List Tok),
    getTxtPos ts = ((charsOf ts).map (·.1), (charsOf ts).map (·.2))
  | [] => rfl
  | t :: ts => by
    have h2 : (tokChars t).map (·.2) = tokPositions t := by
      unfold tokChars
      rw [List.map_snd_zip]
      rw [tokPositions_length]; exact Nat.le_refl _
    simp only [getTxtPos, getTxtPos_charsOf ts, charsOf_cons, List.map_append, tokChars_fst, h2]

/-! ### the reference output -/

/-- the definitions in force: name (without backslash) and body, latest first -/
abbrev Env := List (Str × Str)

/-- the body of the latest definition of `name` -/
def bodyOf (env : Env) (name : Str) : Option Str := (env.find? (·.1 == name)).map (·.2)

/-- the reference on the level of marks: a text character with its position; an Action mark for a
    definition, which comes into force; for a use an Action mark, the characters of the body in
    force (if any), all at the position of the backslash of the use, and two Action marks for `{}` -/
def refMarks : Env → List Item → List Mark
  | _, [] => []
  | env, .chr c p :: rest => some (c, p) :: refMarks env rest
  | env, .defn _ name body :: rest => none :: refMarks ((name, body) :: env) rest
  | env, .use p name br :: rest =>
    none :: (((bodyOf env name).getD []).map (fun c => some (c, p))
      ++ ((if br then [none, none] else []) ++ refMarks env rest))

/-- the names (with backslash) used while undefined, in order, with repetitions -/
def refUnknowns : Env → List Item → List Str
  | _, [] => []
  | env, .chr _ _ :: rest => refUnknowns env rest
  | env, .defn _ name body :: rest => refUnknowns ((name, body) :: env) rest
  | env, .use _ name _ :: rest =>
    (if (bodyOf env name).isNone then [('\\' :: name)] else []) ++ refUnknowns env rest

/-- the number of characters inserted by the uses -/
def refInserted : Env → List Item → Nat
  | _, [] => 0
  | env, .chr _ _ :: rest => refInserted env rest
  | env, .defn _ name body :: rest => refInserted ((name, body) :: env) rest
  | env, .use _ name _ :: rest => ((bodyOf env name).getD []).length + refInserted env rest

/-- source length of the items -/
def itemsLen : List Item → Nat
  | [] => 0
  | .chr _ _ :: rest => 1 + itemsLen rest
  | .defn _ name body :: rest => name.length + body.length + 16 + itemsLen rest
  | .use _ name br :: rest => name.length + 1 + (brStr br).length + itemsLen rest

/-- the state and the environment agree on the names that are not declared in `st1` -/
def Rel (st1 st : PState) (env : Env) : Prop :=
  ∀ name, lookupMacro st1 ('\\' :: name) = none →
    match bodyOf env name with
    | some body => ∃ b, lookupMacro st ('\\' :: name) = some (userMacro ('\\' :: name) b) ∧
        bodyTxt b = body ∧ ∀ t ∈ b, Shape t
    | none => lookupMacro st ('\\' :: name) = none

theorem Rel_init (st1 st : PState) (h : st.macros = st1.macros) : Rel st1 st [] := by
  intro name hn
  simp only [bodyOf, List.find?_nil, Option.map_none]
  simpa [lookupMacro, h] using hn

theorem bodyOf_cons (env : Env) (n b n' : Str) :
    bodyOf ((n, b) :: env) n' = if n == n' then some b else bodyOf env n' := by
  unfold bodyOf
  rw [List.find?_cons]
  by_cases h : (n == n') = true
  · simp [h]
  · simp [h]

theorem Rel.defSt {st1 st : PState} {env : Env} (h : Rel st1 st env) (name body : Str) (btoks : List Tok)
    (hb : bodyTxt btoks = body) (hs : ∀ t ∈ btoks, Shape t) :
    Rel st1 (defSt st name btoks) ((name, body) :: env) := by
  intro name' hn
  rw [bodyOf_cons, PlainMacro.defSt, lookup_setMacro]
  by_cases e : name = name'
  · subst e
    simp only [beq_self_eq_true, if_true, userMacro]
    exact ⟨btoks, rfl, hb, hs⟩
  · have e1 : (name == name') = false := by simpa using e
    have e2 : ((userMacro ('\\' :: name) btoks).name == '\\' :: name') = false := by
      simpa [userMacro] using e
    rw [e1, e2]
    exact h name' hn

theorem Rel.useSt {st1 st : PState} {env : Env} (h : Rel st1 st env) (name : Str) :
    Rel st1 (useSt st name) env := by
  unfold PlainMacro.useSt
  split
  · exact h
  · exact h

/-! ### what the pieces mean -/

theorem zip_range_posText : ∀ (s : Str) (p : Nat),
    s.zip ((List.range s.length).map (p + ·)) = posText p s
  | [], _ => rfl
  | c :: cs, p => by
    rw [List.length_cons, List.range_succ_eq_map]
    simp only [List.map_cons, List.map_map, List.zip_cons_cons, Nat.add_zero, posText]
    rw [← zip_range_posText cs (p + 1)]
    congr 2
    apply List.map_congr_left
    intro x _
    simp only [Function.comp_apply]; omega

theorem tokChars_nofix (t : Tok) (h : t.fix = false) : tokChars t = posText t.pos t.txt := by
  simp only [tokChars, tokPositions, h, Bool.false_eq_true, if_false]
  exact zip_range_posText t.txt t.pos

theorem tokChars_restamp (p : Nat) (t : Tok) : tokChars (restamp p t) = t.txt.map (fun c => (c, p)) := by
  simp only [tokChars, tokPositions, restamp, if_true]
  generalize t.txt = s
  induction s with
  | nil => rfl
  | cons c cs ih => simp [List.replicate_succ, ih]

theorem refMarks_chrItems (env : Env) (items : List Item) : ∀ (s : Str) (p : Nat),
    refMarks env (chrItems p s ++ items) = (posText p s).map some ++ refMarks env items
  | [], _ => rfl
  | c :: cs, p => by
    simp only [chrItems, List.cons_append, refMarks, posText, List.map_cons, refMarks_chrItems env items cs (p + 1)]

theorem refUnknowns_chrItems (env : Env) (items : List Item) : ∀ (s : Str) (p : Nat),
    refUnknowns env (chrItems p s ++ items) = refUnknowns env items
  | [], _ => rfl
  | c :: cs, p => by
    simp only [chrItems, List.cons_append, refUnknowns, refUnknowns_chrItems env items cs (p + 1)]

theorem refInserted_chrItems (env : Env) (items : List Item) : ∀ (s : Str) (p : Nat),
    refInserted env (chrItems p s ++ items) = refInserted env items
  | [], _ => rfl
  | c :: cs, p => by
    simp only [chrItems, List.cons_append, refInserted, refInserted_chrItems env items cs (p + 1)]

theorem itemsLen_chrItems (items : List Item) : ∀ (s : Str) (p : Nat),
    itemsLen (chrItems p s ++ items) = s.length + itemsLen items
  | [], _ => by simp [chrItems]
  | c :: cs, p => by
    simp only [chrItems, List.cons_append, itemsLen, itemsLen_chrItems items cs (p + 1), List.length_cons]
    omega

theorem plainTok_notAction {t : Tok} (h : PlainTok t) : isAction t = false := h.notAction

theorem plainTok_notLang {t : Tok} (h : PlainTok t) : isLang t = false := by
  rcases h.kind with k | k | k <;> simp [isLang, k]

theorem simple_of_plain {t : Tok} (h : PlainTok t) (hs : Shape t) : Simple t :=
  ⟨fun ha => absurd ha (by simp [h.notAction]), plainTok_notLang h, hs.2⟩

theorem simple_mkAction (p : Nat) : Simple (mkAction p) :=
  ⟨fun _ => rfl, rfl, fun h => by simp [mkAction, hasNl] at h⟩

theorem marksOf_cons (t : Tok) (ts : List Tok) : marksOf (t :: ts) = tokMarks t ++ marksOf ts := by
  simp [marksOf]

theorem marksOf_append (a b : List Tok) : marksOf (a ++ b) = marksOf a ++ marksOf b := by
  simp [marksOf]

theorem tokMarks_mkAction (p : Nat) : tokMarks (mkAction p) = [none] := rfl

/-- the marks of a re-stamped body -/
theorem marksOf_restamp (p : Nat) : ∀ (b : List Tok), (∀ t ∈ b, PlainTok t) →
    marksOf (b.map (restamp p)) = (bodyTxt b).map (fun c => some (c, p))
  | [], _ => rfl
  | t :: b, h => by
    have ht := plainTok_restamp p t (h t (List.mem_cons_self ..))
    rw [List.map_cons, marksOf_cons, tokMarks_nonaction _ ht.notAction, tokChars_restamp,
      marksOf_restamp p b (fun x hx => h x (List.mem_cons_of_mem _ hx))]
    simp [bodyTxt]

theorem length_le_bodyTxt : ∀ (b : List Tok), (∀ t ∈ b, Shape t) → b.length ≤ (bodyTxt b).length
  | [], _ => Nat.le_refl _
  | t :: b, h => by
    have := length_le_bodyTxt b (fun x hx => h x (List.mem_cons_of_mem _ hx))
    have h1 := List.length_pos_iff.mpr (h t (List.mem_cons_self ..)).1
    simp only [bodyTxt, List.flatMap_cons, List.length_append, List.length_cons] at this ⊢
    omega

theorem userMacro_inj {n : Str} {b b' : List Tok} (h : userMacro n b = userMacro n b') : b = b' := by
  have := congrArg MacroDef.repl h
  exact this

/-- what the pieces of a source mean, for a state and an environment that agree -/
structure Sem (st : PState) (env : Env) (ps : List Piece) (items : List Item) : Prop where
  marks : marksOf (outP st ps) = refMarks env items
  simple : ∀ t ∈ outP st ps, Simple t
  cost : cost st ps ≤ itemsLen items + refInserted env items
  unk : (finalSt st ps).unknowns = (refUnknowns env items).foldl addU st.unknowns

theorem link_sem (T : PTables) (st1 : PState) {ps : List Piece} {items : List Item} (hl : Link ps items) :
    PiecesOk T st1 ps → ∀ (st : PState) (env : Env), StOk T st1 st → Rel st1 st env →
    Sem st env ps items := by
  induction hl with
  | nil => intro _ st env _ _; exact ⟨rfl, by simp [outP], by simp [cost], rfl⟩
  | tok t ps items hfix hshape _ ih =>
    intro hok st env hst hrel
    obtain ⟨hp, _, hrest⟩ := hok
    have I := ih hrest st env hst hrel
    refine ⟨?_, ?_, ?_, ?_⟩
    · simp only [outP]
      rw [marksOf_cons, tokMarks_nonaction _ hp.notAction, tokChars_nofix t hfix, refMarks_chrItems, I.marks]
    · intro x hx
      simp only [outP, List.mem_cons] at hx
      rcases hx with rfl | hx
      · exact simple_of_plain hp hshape
      · exact I.simple x hx
    · have := I.cost
      have h1 := List.length_pos_iff.mpr hshape.1
      simp only [cost, itemsLen_chrItems, refInserted_chrItems]
      omega
    · simp only [finalSt, refUnknowns_chrItems]
      exact I.unk
  | defn p q1 q2 q3 q4 q5 name body btoks ps items hb hs _ ih =>
    intro hok st env hst hrel
    obtain ⟨hn, hgb, hrest⟩ := hok
    have I := ih hrest (defSt st name btoks) ((name, body) :: env) (hst.defSt name btoks hn hgb)
      (hrel.defSt name body btoks hb hs)
    refine ⟨?_, ?_, ?_, ?_⟩
    · simp only [outP, refMarks]
      rw [marksOf_cons, tokMarks_mkAction, I.marks]; rfl
    · intro x hx
      simp only [outP, List.mem_cons] at hx
      rcases hx with rfl | hx
      · exact simple_mkAction p
      · exact I.simple x hx
    · have := I.cost
      simp only [cost, itemsLen, refInserted]
      omega
    · simp only [finalSt, refUnknowns]
      exact I.unk
  | use p name br a b ps items hne _ ih =>
    intro hok st env hst hrel
    obtain ⟨hn, _, hrest⟩ := hok
    have I := ih hrest (useSt st name) env (hst.useSt name) (hrel.useSt name)
    have hbr : marksOf (brActs (if br then some (a, b) else none)) = (if br then [none, none] else []) ∧
        (∀ t ∈ brActs (if br then some (a, b) else none), Simple t) ∧
        (brToks (if br then some (a, b) else none)).length = (brStr br).length := by
      cases br
      · exact ⟨rfl, by simp [brActs], rfl⟩
      · refine ⟨rfl, ?_, rfl⟩
        intro t ht
        simp only [if_true, brActs, List.mem_cons, List.not_mem_nil, or_false] at ht
        rcases ht with rfl | rfl <;> exact simple_mkAction _
    have hname := List.length_pos_iff.mpr hne
    have hR := hrel name hn.undecl
    cases hbo : bodyOf env name with
    | none =>
      rw [hbo] at hR
      have e1 : useBody st p name = [] := by simp [useBody, hR]
      have e2 : useSt st name = { st with unknowns := addU st.unknowns ('\\' :: name) } := by
        simp [PlainMacro.useSt, hR]
      refine ⟨?_, ?_, ?_, ?_⟩
      · simp only [outP, refMarks, e1, hbo, List.nil_append, Option.getD_none, List.map_nil]
        rw [marksOf_cons, tokMarks_mkAction, marksOf_append, hbr.1, I.marks]; rfl
      · intro x hx
        simp only [outP, e1, List.nil_append, List.mem_cons, List.mem_append] at hx
        rcases hx with rfl | hx | hx
        · exact simple_mkAction p
        · exact hbr.2.1 x hx
        · exact I.simple x hx
      · have := I.cost
        simp only [cost, itemsLen, refInserted, e1, hbo, hbr.2.2, List.length_nil, Option.getD_none]
        omega
      · simp only [finalSt, refUnknowns, hbo, Option.isNone_none, if_true, List.singleton_append,
          List.foldl_cons]
        rw [I.unk, e2]
    | some body =>
      rw [hbo] at hR
      obtain ⟨bt, hlk, hbt, hsh⟩ := hR
      obtain ⟨bt', hm, hgb⟩ := hst.user _ _ hn.undecl hlk
      have := userMacro_inj hm
      subst this
      have hpl : ∀ t ∈ bt, PlainTok t := fun t ht => (hgb.2 t ht).1
      have e1 : useBody st p name = bt.map (restamp p) := by simp [useBody, hlk, userMacro]
      have e2 : useSt st name = st := by simp [PlainMacro.useSt, hlk]
      refine ⟨?_, ?_, ?_, ?_⟩
      · simp only [outP, refMarks, e1, hbo, Option.getD_some]
        rw [marksOf_cons, tokMarks_mkAction, marksOf_append, marksOf_append, hbr.1, I.marks,
          marksOf_restamp p bt hpl, hbt]; rfl
      · intro x hx
        simp only [outP, e1, List.mem_cons, List.mem_append] at hx
        rcases hx with rfl | hx | hx | hx
        · exact simple_mkAction p
        · obtain ⟨u, hu, rfl⟩ := List.mem_map.mp hx
          exact simple_of_plain (plainTok_restamp p u (hpl u hu)) (hsh u hu)
        · exact hbr.2.1 x hx
        · exact I.simple x hx
      · have := I.cost
        have hlen := length_le_bodyTxt bt hsh
        rw [hbt] at hlen
        simp only [cost, itemsLen, refInserted, e1, hbo, hbr.2.2, List.length_map, Option.getD_some]
        omega
      · simp only [finalSt, refUnknowns, hbo, Option.isNone_some, Bool.false_eq_true, if_false,
          List.nil_append]
        rw [I.unk, e2]

/-! ### `scan`, `parserWork`, `parse`, `tex2txt` -/

theorem OkSrc_len {T : PTables} {st : PState} {p : Nat} {s : Str} {items : List Item}
    (h : OkSrc T st p s items) : itemsLen items = s.length := by
  induction h with
  | nil p => rfl
  | chr p c cs items _ _ ih => simp only [itemsLen, ih, List.length_cons]; omega
  | defn p name body R items _ _ ih =>
    simp only [itemsLen, ih, List.length_cons, List.length_append, ncName_eq]; simp; omega
  | use p name br R items _ _ ih =>
    simp only [itemsLen, ih, List.length_cons, List.length_append]; omega

/-- `scan` on a well-formed source: no diagnostics; the token buffer consists of plain tokens,
    definitions and uses that correspond to the items -/
theorem scan_macro (T : PTables) (st : PState) (src : Str) (items : List Item)
    (h : OkSrc T st 0 src items) :
    (scan T.toTables src).diags = [] ∧
    ∃ ps, (scan T.toTables src).toks = flat ps ∧ PiecesOk T st ps ∧ Link ps items := by
  obtain ⟨_, F⟩ := scanSteps_macro T st src src.length src.length 0 src items (Nat.le_refl _)
    (Nat.le_refl _) h
  have he := flatten_tok_extra (scanSteps T.toTables src src.length 0 src).1 (fun s hs => (F.ok s hs).2)
  have hd := flatten_diag_nil (scanSteps T.toTables src src.length 0 src).1 (fun s hs => (F.ok s hs).1)
  obtain ⟨ps, h1, h2, h3⟩ := F.pieces
  simp only [scan]
  rw [he, hd]
  exact ⟨rfl, ps, h1, h2, h3⟩

theorem PiecesOk.notComment {T : PTables} {st : PState} : ∀ {ps : List Piece}, PiecesOk T st ps →
    ∀ t ∈ flat ps, t.kind ≠ .comment
  | [], _, _, h => by simp [flat] at h
  | .tok t :: rest, hok, x, hx => by
    simp only [flat, Piece.toks, List.singleton_append, List.mem_cons] at hx
    rcases hx with rfl | hx
    · exact hok.1.notComment
    · exact PiecesOk.notComment hok.2.2 x hx
  | .defn p q1 q2 q3 q4 q5 name body :: rest, hok, x, hx => by
    obtain ⟨_, hb, hrest⟩ := hok
    simp only [flat, Piece.toks, List.cons_append, List.append_assoc, List.mem_cons,
      List.mem_append, List.nil_append] at hx
    rcases hx with rfl | rfl | rfl | rfl | rfl | hx | rfl | hx
    · simp [cwTok]
    · simp [lbr]
    · simp [cwTok]
    · simp [rbr]
    · simp [lbr]
    · exact (hb.2 x hx).1.notComment
    · simp [rbr]
    · exact PiecesOk.notComment hrest x hx
  | .use p name br :: rest, hok, x, hx => by
    obtain ⟨_, _, hrest⟩ := hok
    simp only [flat, Piece.toks, List.cons_append, List.mem_cons, List.mem_append] at hx
    rcases hx with rfl | hx | hx
    · simp [cwTok]
    · cases br with
      | none => simp [brToks] at hx
      | some ab =>
        obtain ⟨a, b⟩ := ab
        simp only [brToks, List.mem_cons, List.not_mem_nil, or_false] at hx
        rcases hx with rfl | rfl
        · simp [lbr]
        · simp [rbr]
    · exact PiecesOk.notComment hrest x hx

/-- the state after the pieces differs from the state before only in the macro table and the
    list of unknowns -/
theorem finalSt_eq : ∀ (ps : List Piece) (st : PState),
    finalSt st ps = { st with macros := (finalSt st ps).macros, unknowns := (finalSt st ps).unknowns }
  | [], st => rfl
  | .tok _ :: rest, st => finalSt_eq rest st
  | .defn _ _ _ _ _ _ name body :: rest, st => by
    have := finalSt_eq rest (defSt st name body)
    simp only [finalSt]
    rw [this]
    rfl
  | .use _ name _ :: rest, st => by
    have := finalSt_eq rest (useSt st name)
    simp only [finalSt]
    rw [this]
    unfold PlainMacro.useSt
    split <;> rfl

theorem StOk.of_eq (T : PTables) {st st' : PState} (hl : st'.langStack = st.langStack)
    (hi : st'.newcommandIgnore = st.newcommandIgnore) (hm : st'.macros = st.macros) : StOk T st st' := by
  have hlk : ∀ nm, lookupMacro st' nm = lookupMacro st nm := fun nm => by simp [lookupMacro, hm]
  exact ⟨hl, hi, fun nm m h => by rw [hlk]; exact h,
    fun nm m h1 h2 => by rw [hlk, h1] at h2; cases h2⟩

/-- **`parserWork` on a well-formed source.**  The characters of the result tokens, with their
    positions, are the reference output: the marks of the document with the pure Action lines
    deleted.  The state changes in the macro table (the definitions) and the list of unknowns. -/
theorem parserWork_macro (T : PTables) (st : PState) (src : Str) (fuel : Nat) (items : List Item)
    (hf : src.length + refInserted [] items + 5 ≤ fuel) (ha : noEmptyActive T st = true)
    (hnc : NcOk st) (h : OkSrc T st 0 src items) :
    ∃ r macros', parserWork T fuel src st
        = .ok (r, { st with macros := macros',
                            unknowns := (refUnknowns [] items).foldl addU st.unknowns }) ∧
      charsOf r = delLines (refMarks [] items) := by
  obtain ⟨f, rfl⟩ : ∃ f, fuel = f + 1 := ⟨fuel - 1, by omega⟩
  obtain ⟨hd, ps, hflat, hpok, hlink⟩ := scan_macro T st src items h
  have hstok : StOk T st { st with latex := src, nest := st.nest + 1 } := StOk.of_eq T rfl rfl rfl
  have S := link_sem T st hlink hpok { st with latex := src, nest := st.nest + 1 } [] hstok
    (Rel_init st _ rfl)
  have hlen := OkSrc_len h
  have hs := seq_macro T none st hnc ha ps f [] { st with latex := src, nest := st.nest + 1 }
    (by have := S.cost; omega) hpok hstok
  rw [List.nil_append] at hs
  obtain ⟨r, hr, hchars⟩ := removeLines_simple _ S.simple
  rw [hr] at hs
  simp only [] at hs
  rw [S.marks] at hchars
  refine ⟨r, (finalSt { st with latex := src, nest := st.nest + 1 } ps).macros, ?_, hchars⟩
  rw [parserWork.eq_2]
  refine (M.bind_ok _ _ _ _ _ (rfl : M.get st = _)).trans ?_
  refine (M.bind_ok _ _ _ _ _ (rfl : M.modify _ _ = _)).trans ?_
  refine (M.bind_ok _ _ _ _ _ (rfl : M.modify _ _ = _)).trans ?_
  refine (M.bind_ok _ _ _ _ _ (rfl : M.get _ = _)).trans ?_
  simp only [hd, List.append_nil]
  rw [skipPass_nocomment _ _ _ (fun t ht' => hpok.notComment t (by rw [← hflat]; exact ht'))]
  simp only []
  refine (M.bind_ok _ _ _ _ _ (rfl : (pure _ : M (List Tok)) _ = _)).trans ?_
  rw [hflat]
  refine (M.bind_ok _ _ _ _ _ hs).trans ?_
  refine (M.bind_ok _ _ _ _ _ (rfl : M.modify _ _ = _)).trans ?_
  show Outcome.ok _ = _
  rw [finalSt_eq ps, S.unk]
  simp only [Nat.add_sub_cancel]

theorem NcOk_congr {st st' : PState} (hm : st'.macros = st.macros) (h : NcOk st) : NcOk st' := by
  obtain ⟨m, h1, h2⟩ := h
  exact ⟨m, by simpa [lookupMacro, hm] using h1, h2⟩

theorem parse_macro (T : PTables) (st : PState) (src : Str) (fuel : Nat) (items : List Item)
    (hf : src.length + refInserted [] items + 5 ≤ fuel) (ha : noEmptyActive T st = true)
    (hnc : NcOk st) (h : OkSrc T st 0 src items) :
    ∃ r macros', parse T fuel src [] [] st
        = .ok (r, { st with extracted := [], unknowns := (refUnknowns [] items).eraseDups,
                            foreign := false, nest := 0, macros := macros' }) ∧
      charsOf r = delLines (refMarks [] items) := by
  have h' : OkSrc T { st with extracted := [], unknowns := [], foreign := false, nest := 0 } 0 src items :=
    OkSrc.congr (st := st)
      (st' := { st with extracted := [], unknowns := [], foreign := false, nest := 0 }) rfl rfl rfl h
  obtain ⟨r, macros', hw, hc⟩ := parserWork_macro T
    { st with extracted := [], unknowns := [], foreign := false, nest := 0 } src fuel items hf
    ((noEmptyActive_congr T st _ rfl).trans ha) (NcOk_congr (st := st) rfl hnc) h'
  refine ⟨r, macros', ?_, hc⟩
  unfold parse
  simp only [List.isEmpty_nil, Bool.not_true, Bool.false_eq_true, if_false, if_true]
  refine (M.bind_ok _ _ _ _ _ (rfl : M.modify _ _ = _)).trans ?_
  refine (M.bind_ok _ _ _ _ _ (rfl : (pure _ : M (List Tok)) _ = _)).trans ?_
  refine (M.bind_ok _ _ _ _ _ (rfl : M.modify _ _ = _)).trans ?_
  refine (M.bind_ok _ _ _ _ _ hw).trans ?_
  refine (M.bind_ok _ _ _ _ _ (rfl : M.get _ = _)).trans ?_
  show Outcome.ok _ = _
  simp [foldl_addU_nil]

/-- the result record of `tex2txt` on a well-formed source (no `--defs`, `--extr`, `--repl`,
    `--unkn`; single-language mode) -/
theorem tex2txt_macro_src (T : PTables) (o : Options) (fs : FS) (thresh : Nat) (src : Str) (fuel : Nat)
    (st1 : PState) (items : List Item)
    (hdefs : o.defs = []) (hextr : o.extr = []) (hrepl : o.hasRepl = false) (hunkn : o.unkn = false)
    (hinit : initParser T fuel o (initialState T o false fs) = .ok ((), st1))
    (ha : noEmptyActive T st1 = true) (hnc : NcOk st1) (h : OkSrc T st1 0 src items)
    (hf : src.length + refInserted [] items + 5 ≤ fuel) :
    ∃ toks, tex2txt T fuel src o false thresh fs
        = .ok { toks := toks, txt := (delLines (refMarks [] items)).map (·.1),
                pos := (delLines (refMarks [] items)).map (·.2 + 1), parts := [],
                unknowns := (refUnknowns [] items).eraseDups, diags := st1.diags, foreign := false } := by
  obtain ⟨r, macros', hp, hc⟩ := parse_macro T st1 src fuel items hf ha hnc h
  refine ⟨r, ?_⟩
  have hrun : (initParser T fuel o >>= fun _ => parse T fuel src o.defs
        (if o.extr.isEmpty then [] else (splitOn ',' o.extr []).map (fun s => '\\' :: s)))
        (initialState T o false fs)
      = .ok (r, { st1 with extracted := [], unknowns := (refUnknowns [] items).eraseDups,
                           foreign := false, nest := 0, macros := macros' }) := by
    refine (M.bind_ok _ _ _ _ _ hinit).trans ?_
    rw [hdefs, hextr]
    exact hp
  unfold tex2txt
  simp only []
  rw [hrun]
  simp only [hrepl, hunkn, Bool.not_false, if_true, Bool.false_eq_true, if_false,
    getTxtPos_charsOf, hc, List.map_map]
  rfl

/-! ### the reference on the level of segments -/

/-- the marks of a document that starts at position `p`, `env` being the definitions in force:
    * a text character with its own position;
    * a definition: one Action mark; the definition comes into force;
    * a use at position `q` (the backslash): an Action mark, the characters of the body in force
      (nothing if the name is undefined), each at position `q`, and two Action marks for `{}` -/
def segMarks : Env → Nat → List Seg → List Mark
  | _, _, [] => []
  | env, p, .txt s :: rest => (posText p s).map some ++ segMarks env (p + s.length) rest
  | env, p, .defn name body :: rest =>
    none :: segMarks ((name, body) :: env) (p + (name.length + body.length + 16)) rest
  | env, p, .use name br :: rest =>
    none :: (((bodyOf env name).getD []).map (fun c => some (c, p))
      ++ ((if br then [none, none] else []) ++ segMarks env (p + (name.length + 1 + (brStr br).length)) rest))

/-- the names (with backslash) used while undefined, in order, with repetitions -/
def segUnknowns : Env → List Seg → List Str
  | _, [] => []
  | env, .txt _ :: rest => segUnknowns env rest
  | env, .defn name body :: rest => segUnknowns ((name, body) :: env) rest
  | env, .use name _ :: rest =>
    (if (bodyOf env name).isNone then [('\\' :: name)] else []) ++ segUnknowns env rest

/-- the number of characters inserted by the uses -/
def segInserted : Env → List Seg → Nat
  | _, [] => 0
  | env, .txt _ :: rest => segInserted env rest
  | env, .defn name body :: rest => segInserted ((name, body) :: env) rest
  | env, .use name _ :: rest => ((bodyOf env name).getD []).length + segInserted env rest

theorem refMarks_itemsOf : ∀ (segs : List Seg) (env : Env) (p : Nat),
    refMarks env (itemsOf p segs) = segMarks env p segs
  | [], _, _ => rfl
  | .txt s :: rest, env, p => by
    simp only [itemsOf, segMarks, refMarks_chrItems, refMarks_itemsOf rest]
  | .defn name body :: rest, env, p => by
    simp only [itemsOf, segMarks, refMarks, refMarks_itemsOf rest]
  | .use name br :: rest, env, p => by
    simp only [itemsOf, segMarks, refMarks, refMarks_itemsOf rest]

theorem refUnknowns_itemsOf : ∀ (segs : List Seg) (env : Env) (p : Nat),
    refUnknowns env (itemsOf p segs) = segUnknowns env segs
  | [], _, _ => rfl
  | .txt s :: rest, env, p => by
    simp only [itemsOf, segUnknowns, refUnknowns_chrItems, refUnknowns_itemsOf rest]
  | .defn name body :: rest, env, p => by
    simp only [itemsOf, segUnknowns, refUnknowns, refUnknowns_itemsOf rest]
  | .use name br :: rest, env, p => by
    simp only [itemsOf, segUnknowns, refUnknowns, refUnknowns_itemsOf rest]

theorem refInserted_itemsOf : ∀ (segs : List Seg) (env : Env) (p : Nat),
    refInserted env (itemsOf p segs) = segInserted env segs
  | [], _, _ => rfl
  | .txt s :: rest, env, p => by
    simp only [itemsOf, segInserted, refInserted_chrItems, refInserted_itemsOf rest]
  | .defn name body :: rest, env, p => by
    simp only [itemsOf, segInserted, refInserted, refInserted_itemsOf rest]
  | .use name br :: rest, env, p => by
    simp only [itemsOf, segInserted, refInserted, refInserted_itemsOf rest]

/-- all side conditions on the tables, the initialised parser state and the document -/
def SegsOk (T : PTables) (st : PState) (segs : List Seg) : Prop :=
  noEmptyActive T st = true ∧ ncOk st = true ∧ segsOk T st segs = true

instance (T : PTables) (st : PState) (segs : List Seg) : Decidable (SegsOk T st segs) := by
  unfold SegsOk; infer_instance

/-- **C09 / C04 end to end.**  The document consists of inert text, definitions
    `\newcommand{\name}{body}` and uses `\name` / `\name{}` (`SegsOk`: all side conditions);
    `st1` is the state after `Parser.__init__`; no `--defs`, `--extr`, `--repl`, `--unkn`;
    single-language mode.  With one unit of fuel per source character, one per inserted character
    and five more, `tex2txt` succeeds and

    * the output text with its (1-based) positions is `delLines (segMarks [] 0 segs)`: every text
      character with its own position, nothing for a definition, for every use the body of the
      latest earlier definition of the name with every character at the position of the backslash of
      the use — and then every line deleted (with its line break) that consists of white space
      only and holds a definition, a use or `{}` (`remove_pure_action_lines`);
    * the unknowns are the names used while undefined, each once, in order of first use;
    * no diagnostic is added. -/
theorem tex2txt_newcommand (T : PTables) (o : Options) (fs : FS) (thresh : Nat) (segs : List Seg)
    (fuel : Nat) (st1 : PState)
    (hdefs : o.defs = []) (hextr : o.extr = []) (hrepl : o.hasRepl = false) (hunkn : o.unkn = false)
    (hinit : initParser T fuel o (initialState T o false fs) = .ok ((), st1))
    (hok : SegsOk T st1 segs) (hf : (render segs).length + segInserted [] segs + 5 ≤ fuel) :
    ∃ r, tex2txt T fuel (render segs) o false thresh fs = .ok r ∧
      r.txt = (delLines (segMarks [] 0 segs)).map (·.1) ∧
      r.pos = (delLines (segMarks [] 0 segs)).map (·.2 + 1) ∧
      r.unknowns = (segUnknowns [] segs).eraseDups ∧
      r.diags = st1.diags ∧ r.parts = [] := by
  obtain ⟨ha, hnc, hsegs⟩ := hok
  have hsrc := OkSrc_of_segsOk T st1 segs 0 hsegs
  obtain ⟨toks, ht⟩ := tex2txt_macro_src T o fs thresh (render segs) fuel st1 _ hdefs hextr hrepl hunkn
    hinit ha (NcOk_of_ncOk hnc) hsrc (by rw [refInserted_itemsOf]; exact hf)
  rw [refMarks_itemsOf, refUnknowns_itemsOf] at ht
  exact ⟨_, ht, rfl, rfl, rfl, rfl, rfl⟩

/-! ### what `delLines` does: two readings

  * `delLines_kept`: if no line is blank and marked, only the marks are dropped — the output is the
    rendering with the definitions removed and the uses replaced;
  * `delLines_drop_line`: a line that consists of white space and marks (e.g. a definition that
    stands on a line of its own) disappears together with its line break, and nothing else
    changes. -/

/-- no line is blank and holds an Action mark (`blank`, `act`: the state of the current line) -/
def linesKept : Bool → Bool → List Mark → Bool
  | blank, act, [] => !(blank && act)
  | blank, _, none :: xs => linesKept blank true xs
  | blank, act, some cp :: xs =>
    if cp.1 == nl then !(blank && act) && linesKept true false xs
    else linesKept (blank && isSpace cp.1) act xs

theorem delGo_kept : ∀ (ms : List Mark) (cur : List (Char × Nat)) (b a : Bool),
    linesKept b a ms = true → delGo cur b a ms = cur ++ ms.filterMap id
  | [], cur, b, a, h => by
    have : (b && a) = false := by
      simp only [linesKept, Bool.not_eq_true'] at h; exact h
    simp [delGo, this]
  | none :: xs, cur, b, a, h => by
    simp only [linesKept] at h
    simp [delGo, delGo_kept xs cur b true h]
  | some cp :: xs, cur, b, a, h => by
    simp only [linesKept] at h
    by_cases hn : (cp.1 == nl) = true
    · simp only [hn, if_true, Bool.and_eq_true, Bool.not_eq_true'] at h
      simp [delGo, hn, h.1, delGo_kept xs [] true false h.2]
    · simp only [hn, Bool.false_eq_true, if_false] at h
      simp [delGo, hn, delGo_kept xs _ _ a h]

/-- if every line that holds a definition, a use or `{}` also holds visible text, nothing but the
    marks is dropped -/
theorem delLines_kept (ms : List Mark) (h : linesKept true false ms = true) :
    delLines ms = ms.filterMap id := by
  have := delGo_kept ms [] true false h
  simpa [delLines] using this

theorem delGo_append_nl (nlp : Char × Nat) (hn : (nlp.1 == nl) = true) (B : List Mark) :
    ∀ (A : List Mark) (cur : List (Char × Nat)) (b a : Bool),
      delGo cur b a (A ++ some nlp :: B) = delGo cur b a (A ++ [some nlp]) ++ delLines B
  | [], cur, b, a => by
    simp [delGo, hn, delLines]
  | none :: A, cur, b, a => by
    simp only [List.cons_append, delGo]
    exact delGo_append_nl nlp hn B A cur b true
  | some cp :: A, cur, b, a => by
    simp only [List.cons_append, delGo]
    split
    · rw [delGo_append_nl nlp hn B A [] true false]; simp
    · exact delGo_append_nl nlp hn B A _ _ a

/-- the reference works line by line -/
theorem delLines_append_nl (A B : List Mark) (nlp : Char × Nat) (hn : (nlp.1 == nl) = true) :
    delLines (A ++ some nlp :: B) = delLines (A ++ [some nlp]) ++ delLines B :=
  delGo_append_nl nlp hn B A [] true false

/-- a line of white space and marks, at least one mark: deleted with its line break -/
theorem delLines_pure_line (L : List Mark) (hL : BlankRun L) (ha : L.any Option.isNone = true)
    (nlp : Char × Nat) (hn : (nlp.1 == nl) = true) : delLines (L ++ [some nlp]) = [] := by
  unfold delLines
  rw [delGo_blankrun L [] false _ hL, ha]
  simp [delGo, hn]

/-- **a marked blank line disappears.**  `A` is empty or ends with a line break, `L` consists of
    white space (no line break) and at least one mark, `nlp` is a line break: the line `L` and its
    line break are deleted and the rest of the output is unchanged. -/
theorem delLines_drop_line (A L B : List Mark) (nlp : Char × Nat)
    (hA : A = [] ∨ ∃ A' q, A = A' ++ [some q] ∧ (q.1 == nl) = true)
    (hL : BlankRun L) (ha : L.any Option.isNone = true) (hn : (nlp.1 == nl) = true) :
    delLines (A ++ (L ++ some nlp :: B)) = delLines (A ++ B) := by
  have h1 : delLines (L ++ some nlp :: B) = delLines B := by
    rw [delLines_append_nl L B nlp hn, delLines_pure_line L hL ha nlp hn, List.nil_append]
  rcases hA with rfl | ⟨A', q, rfl, hq⟩
  · simpa using h1
  · rw [List.append_assoc, List.singleton_append, delLines_append_nl A' _ q hq, h1,
      List.append_assoc, List.singleton_append, delLines_append_nl A' B q hq]

/-- the expansion of a document that starts at position `p`: the rendering with every definition
    removed and every use replaced by the body of the latest earlier definition of its name (by
    nothing if there is none); a text character carries its own position, an inserted
    character the position of the backslash of the use -/
def expand : Env → Nat → List Seg → List (Char × Nat)
  | _, _, [] => []
  | env, p, .txt s :: rest => posText p s ++ expand env (p + s.length) rest
  | env, p, .defn name body :: rest => expand ((name, body) :: env) (p + (name.length + body.length + 16)) rest
  | env, p, .use name br :: rest =>
    ((bodyOf env name).getD []).map (fun c => (c, p))
      ++ expand env (p + (name.length + 1 + (brStr br).length)) rest

theorem segMarks_chars : ∀ (segs : List Seg) (env : Env) (p : Nat),
    (segMarks env p segs).filterMap id = expand env p segs
  | [], _, _ => rfl
  | .txt s :: rest, env, p => by
    simp only [segMarks, expand, List.filterMap_append, filterMap_map_some, segMarks_chars rest]
  | .defn name body :: rest, env, p => by
    simp only [segMarks, expand, List.filterMap_cons, id, segMarks_chars rest]
  | .use name br :: rest, env, p => by
    have h1 : (((bodyOf env name).getD []).map (fun c => some (c, p))).filterMap id
        = ((bodyOf env name).getD []).map (fun c => (c, p)) := by
      rw [← filterMap_map_some (((bodyOf env name).getD []).map (fun c => (c, p))), List.map_map]; rfl
    cases br <;>
      simp only [segMarks, expand, List.filterMap_cons, id, List.filterMap_append, h1,
        segMarks_chars rest, if_true, Bool.false_eq_true, if_false, List.filterMap_nil,
        List.nil_append]

/-- **C09 / C04 end to end, when nothing is deleted.**  If in addition every line that holds a
    definition, a use or `{}` also holds visible text (`linesKept`, decidable), the output is exactly
    the expansion `expand [] 0 segs`. -/
theorem tex2txt_newcommand_kept (T : PTables) (o : Options) (fs : FS) (thresh : Nat) (segs : List Seg)
    (fuel : Nat) (st1 : PState)
    (hdefs : o.defs = []) (hextr : o.extr = []) (hrepl : o.hasRepl = false) (hunkn : o.unkn = false)
    (hinit : initParser T fuel o (initialState T o false fs) = .ok ((), st1))
    (hok : SegsOk T st1 segs) (hf : (render segs).length + segInserted [] segs + 5 ≤ fuel)
    (hk : linesKept true false (segMarks [] 0 segs) = true) :
    ∃ r, tex2txt T fuel (render segs) o false thresh fs = .ok r ∧
      r.txt = (expand [] 0 segs).map (·.1) ∧ r.pos = (expand [] 0 segs).map (·.2 + 1) ∧
      r.unknowns = (segUnknowns [] segs).eraseDups ∧ r.diags = st1.diags := by
  obtain ⟨r, h1, h2, h3, h4, h5, _⟩ := tex2txt_newcommand T o fs thresh segs fuel st1 hdefs hextr hrepl
    hunkn hinit hok hf
  rw [delLines_kept _ hk, segMarks_chars] at h2 h3
  exact ⟨r, h1, h2, h3, h4, h5⟩

/-! ### simpler sufficient conditions

  `segsOk` is context dependent; the following conditions on the tables, the characters and the
  names imply it.  The only context that remains is the character behind a use without `{}`. -/

/-- `[c]` is an entry of the sorted special list, no other entry starts with `c`, none is empty:
    then `c` is always scanned as the one-character special token -/
def braceKey (T : Tables) (c : Char) : Bool :=
  T.specialSorted.contains [c] &&
  T.specialSorted.all (fun t => t == [c] || (!t.isEmpty && t.head? != some c))

theorem find_brace (c : Char) (rest : Str) : ∀ (l : List Str), [c] ∈ l →
    (∀ t ∈ l, t = [c] ∨ (t ≠ [] ∧ t.head? ≠ some c)) →
    l.find? (fun t => startsWith (c :: rest) t) = some [c]
  | [], h, _ => by simp at h
  | t :: l, hm, hall => by
    rcases hall t (List.mem_cons_self ..) with rfl | ⟨h1, h2⟩
    · simp [startsWith]
    · have hf : startsWith (c :: rest) t = false := by
        cases t with
        | nil => exact absurd rfl h1
        | cons d ds =>
          have : c ≠ d := by intro e; subst e; simp at h2
          simp [startsWith, this]
      have hm' : [c] ∈ l := by
        rcases List.mem_cons.mp hm with e | e
        · subst e; simp [startsWith] at hf
        · exact e
      rw [List.find?_cons, hf]
      exact find_brace c rest l hm' (fun x hx => hall x (List.mem_cons_of_mem _ hx))

theorem braceAt_of_key (T : PTables) (c : Char) (h : braceKey T.toTables c = true) (rest : Str) :
    braceAt T c rest = true := by
  simp only [braceKey, Bool.and_eq_true, List.all_eq_true, Bool.or_eq_true, beq_iff_eq,
    Bool.not_eq_true', bne_iff_ne, ne_eq] at h
  have := find_brace c rest T.specialSorted (by simpa using h.1) (by
    intro t ht
    rcases h.2 t ht with e | ⟨e1, e2⟩
    · exact Or.inl e
    · exact Or.inr ⟨by simpa using e1, e2⟩)
  simp [braceAt, matchSpecial, this]

/-- the conditions on the tables: no special sequence is a backslash followed by a letter
    (`specialsNoCW` of Proofs/PlainUnknown.lean), `{` and `}` are scanned as such, `\newcommand` is no
    accent macro -/
def tablesOk (T : PTables) : Bool :=
  specialsNoCW T.toTables && braceKey T.toTables '{' && braceKey T.toTables '}' &&
  !T.toTables.isAccent ('\\' :: ncName)

/-- text of inert characters; names that are good control words (`cwNameOk` of
    Proofs/PlainUnknown.lean) and not protected; bodies of inert characters, not empty; behind a use
    without `{}` neither a letter nor white space -/
def segsOkSimple (T : PTables) (st : PState) : List Seg → Bool
  | [] => true
  | .txt s :: rest => s.all (inertChar T st) && segsOkSimple T st rest
  | .defn name body :: rest =>
    cwNameOk T st name && !st.newcommandIgnore.contains ('\\' :: name) &&
    !body.isEmpty && body.all (inertChar T st) && segsOkSimple T st rest
  | .use name br :: rest =>
    cwNameOk T st name && !st.newcommandIgnore.contains ('\\' :: name) &&
    (br || (render rest).head?.all (fun d => !macroChar d && !isSpace d)) && segsOkSimple T st rest

theorem cwOk_of_name (T : PTables) (st : PState) (hs : specialsNoCW T.toTables = true) (name R : Str)
    (hn : cwNameOk T st name = true) (hadj : R.head?.all (fun d => !macroChar d) = true) :
    cwOk T st name R = true := by
  simp only [cwNameOk, Bool.and_eq_true] at hn
  obtain ⟨⟨⟨⟨⟨⟨⟨⟨h1, h2⟩, h3⟩, h4⟩, h5⟩, h6⟩, h7⟩, h8⟩, h9⟩ := hn
  have hm : (matchSpecial T.toTables ('\\' :: (name ++ R))).isNone = true := by
    cases name with
    | nil => simp at h1
    | cons n ns =>
      simp only [List.all_cons, Bool.and_eq_true] at h2
      rw [List.cons_append, matchSpecial_cw_none T.toTables hs n _ h2.1]; rfl
  simp only [cwOk, Bool.and_eq_true]
  exact ⟨⟨⟨⟨⟨⟨⟨⟨⟨⟨h1, h2⟩, hadj⟩, hm⟩, h3⟩, h4⟩, h5⟩, h6⟩, h7⟩, h8⟩, h9⟩

theorem segsOk_of_simple (T : PTables) (st : PState) (ht : tablesOk T = true) :
    ∀ segs : List Seg, segsOkSimple T st segs = true → segsOk T st segs = true := by
  simp only [tablesOk, Bool.and_eq_true, Bool.not_eq_true'] at ht
  obtain ⟨⟨⟨hs, hl⟩, hr⟩, hacc⟩ := ht
  intro segs
  induction segs with
  | nil => intro _; rfl
  | cons sg rest ih =>
    intro h
    cases sg with
    | txt s =>
      simp only [segsOkSimple, Bool.and_eq_true] at h
      simp only [segsOk, Bool.and_eq_true]
      exact ⟨textOk_of_inertChar T st _ s h.1, ih h.2⟩
    | defn name body =>
      simp only [segsOkSimple, Bool.and_eq_true] at h
      obtain ⟨⟨⟨⟨hn, hi⟩, hbne⟩, hb⟩, hrest⟩ := h
      simp only [segsOk, Bool.and_eq_true]
      refine ⟨?_, ih hrest⟩
      have hm : (matchSpecial T.toTables
          ('\\' :: (ncName ++ '{' :: '\\' :: (name ++ '}' :: '{' :: (body ++ '}' :: render rest))))).isNone
          = true := by
        rw [ncName_eq, List.cons_append, matchSpecial_cw_none T.toTables hs 'n' _ (by decide)]; rfl
      simp only [defOk, Bool.and_eq_true]
      exact ⟨⟨⟨⟨⟨⟨⟨⟨⟨hm, by simpa using hacc⟩, braceAt_of_key T '{' hl _⟩,
        cwOk_of_name T st hs name _ hn rfl⟩, hi⟩, braceAt_of_key T '}' hr _⟩,
        braceAt_of_key T '{' hl _⟩, hbne⟩, hb⟩, braceAt_of_key T '}' hr _⟩
    | use name br =>
      simp only [segsOkSimple, Bool.and_eq_true] at h
      obtain ⟨⟨⟨hn, hi⟩, hadj⟩, hrest⟩ := h
      simp only [segsOk, Bool.and_eq_true]
      refine ⟨?_, ih hrest⟩
      simp only [useOk, Bool.and_eq_true]
      cases br with
      | true =>
        exact ⟨⟨cwOk_of_name T st hs name _ hn rfl, hi⟩,
          by simp [braceAt_of_key T '{' hl, braceAt_of_key T '}' hr]⟩
      | false =>
        have hadj' : (render rest).head?.all (fun d => !macroChar d && !isSpace d) = true := by
          simpa using hadj
        have h1 : (render rest).head?.all (fun d => !macroChar d) = true := by
          cases hh : (render rest).head? with
          | none => rfl
          | some d => rw [hh] at hadj'; simp only [Option.all_some, Bool.and_eq_true] at hadj' ⊢; exact hadj'.1
        have h2 : (render rest).head?.all (fun d => !isSpace d) = true := by
          cases hh : (render rest).head? with
          | none => rfl
          | some d => rw [hh] at hadj'; simp only [Option.all_some, Bool.and_eq_true] at hadj' ⊢; exact hadj'.2
        exact ⟨⟨cwOk_of_name T st hs name _ hn (by simpa [brStr] using h1), hi⟩, by simpa using h2⟩

/-! ### the hypotheses can be met -/

namespace MacroExample
open PlainExample

/-- the tiny tables of Proofs/Plain.lean with the declaration of `\newcommand` of the real tables -/
def tinyN : PTables :=
  { tinyT with
    macroDefsPython := [{ name := "\\newcommand".toList, args := "*AOOA".toList, handler := .newcommand }] }

/-- the state after `Parser.__init__`: `\newcommand` is declared -/
def stN : PState :=
  { initialState tinyN oEn false [] with
    macros := [{ name := "\\newcommand".toList, args := "*AOOA".toList, handler := .newcommand }] }

theorem initParser_tinyN : initParser tinyN 80 oEn (initialState tinyN oEn false []) = .ok ((), stN) := by
  with_unfolding_all rfl

/-- `"\newcommand{\xx}{lorem ipsum}\nAlpha \xx{} beta \xx.\n"` -/
def segs : List Seg :=
  [.defn "xx".toList "lorem ipsum".toList, .txt "\nAlpha ".toList, .use "xx".toList true,
   .txt " beta ".toList, .use "xx".toList false, .txt ".\n".toList]

example : render segs = "\\newcommand{\\xx}{lorem ipsum}\nAlpha \\xx{} beta \\xx.\n".toList := by decide

theorem segs_ok : SegsOk tinyN stN segs := by decide

/-- the reference output: the line of the definition has disappeared, both uses are replaced, the
    inserted characters sit at the positions of the uses (0-based 36 and 47) -/
theorem segs_ref : delLines (segMarks [] 0 segs)
    = ("Alpha lorem ipsum beta lorem ipsum.\n".toList).zip
        ([30, 31, 32, 33, 34, 35] ++ List.replicate 11 36 ++ [41, 42, 43, 44, 45, 46]
          ++ List.replicate 11 47 ++ [50, 51]) := by decide

example : ∃ r, tex2txt tinyN 80 (render segs) oEn false 0 [] = .ok r ∧
    r.txt = "Alpha lorem ipsum beta lorem ipsum.\n".toList ∧
    r.pos = [31, 32, 33, 34, 35, 36] ++ List.replicate 11 37 ++ [42, 43, 44, 45, 46, 47]
          ++ List.replicate 11 48 ++ [51, 52] ∧
    r.unknowns = [] ∧ r.diags = [] := by
  obtain ⟨r, h1, h2, h3, h4, h5, _⟩ := tex2txt_newcommand tinyN oEn [] 0 segs 80 stN rfl rfl rfl rfl
    initParser_tinyN segs_ok (by decide)
  refine ⟨r, h1, ?_, ?_, ?_, h5⟩
  · rw [h2, segs_ref]; decide
  · rw [h3, segs_ref]; decide
  · rw [h4]; decide

/-- a use before the definition (unknown, leaves nothing), a definition on a line of its own, a
    redefinition in the middle of a line:
    `"\xx{} a\n\newcommand{\xx}{b}\n\xx;\newcommand{\xx}{c}\xx.\n"` gives `" a\nb;c.\n"` -/
def segs2 : List Seg :=
  [.use "xx".toList true, .txt " a\n".toList, .defn "xx".toList "b".toList, .txt "\n".toList,
   .use "xx".toList false, .txt ";".toList, .defn "xx".toList "c".toList, .use "xx".toList false,
   .txt ".\n".toList]

theorem segs2_ok : SegsOk tinyN stN segs2 := by decide

example : ∃ r, tex2txt tinyN 80 (render segs2) oEn false 0 [] = .ok r ∧
    r.txt = " a\nb;c.\n".toList ∧ r.pos = [6, 7, 8, 29, 32, 52, 55, 56] ∧
    r.unknowns = ["\\xx".toList] ∧ r.diags = [] := by
  obtain ⟨r, h1, h2, h3, h4, h5, _⟩ := tex2txt_newcommand tinyN oEn [] 0 segs2 80 stN rfl rfl rfl rfl
    initParser_tinyN segs2_ok (by decide)
  refine ⟨r, h1, ?_, ?_, ?_, h5⟩
  · rw [h2]; decide
  · rw [h3]; decide
  · rw [h4]; decide

/-- with visible text on the line of the definition nothing is deleted: the output is `expand` -/
def segs3 : List Seg :=
  [.txt "x ".toList, .defn "xx".toList "ab".toList, .txt "\nAlpha ".toList, .use "xx".toList true,
   .txt "\n".toList]

example : ∃ r, tex2txt tinyN 80 (render segs3) oEn false 0 [] = .ok r ∧
    r.txt = "x \nAlpha ab\n".toList ∧ r.unknowns = [] := by
  obtain ⟨r, h1, h2, _, h4, _⟩ := tex2txt_newcommand_kept tinyN oEn [] 0 segs3 80 stN rfl rfl rfl rfl
    initParser_tinyN (by decide) (by decide) (by decide)
  exact ⟨r, h1, by rw [h2]; decide, by rw [h4]; decide⟩

/-- the simple conditions hold as well -/
example : tablesOk tinyN = true := by decide
example : segsOkSimple tinyN stN segs = true := by decide

/-- the side conditions reject what they should: a letter or white space directly behind a use
    without `{}`, a declared name, `\def`, an empty body, a body with a special sequence -/
example : segsOk tinyN stN [.use "xx".toList false, .txt "a".toList] = false := by decide
example : segsOk tinyN stN [.use "xx".toList false, .txt " a".toList] = false := by decide
example : segsOk tinyN stN [.use "xx".toList false, .txt ", a".toList] = true := by decide
example : segsOk tinyN stN [.defn "newcommand".toList "a".toList] = false := by decide
example : segsOk tinyN stN [.defn "def".toList "a".toList] = false := by decide
example : segsOk tinyN stN [.defn "xx".toList []] = false := by decide
example : segsOk tinyN stN [.defn "xx".toList "a--b".toList] = false := by decide

/-
  Recorded `#eval`s.

  * tiny tables: `tex2txt tinyN 80 (render segs) oEn false 0 []` gives text
    `"Alpha lorem ipsum beta lorem ipsum.\n"`, positions
    `[31..36, 37 ×11, 42..47, 48 ×11, 51, 52]`, no unknowns, no diagnostics.
  * fuel: the bound of `seq_macro` (`cost + 4`) is tight for a lone definition:
    `parserWork tinyN 6 "\newcommand{\x}{b}" stN = outOfFuel`, 7 is enough (cost 2, one unit for
    `parserWork`).  The bound of the end-to-end theorem counts one unit per source character, which
    is generous for definitions: the example needs 47 units for `parserWork`, the theorem asks for
    52 + 22 + 5 = 79.
  * real tables (`import YalafiVerif.Generated.Init`, `T := Generated.theTables`, default options,
    `st1 := Generated.stDefault`, `Generated.initParser_default`): `ncOk st1`, `noEmptyActive T st1`,
    `tablesOk T` evaluate to `true`; `lookupMacro st1 "\newcommand"` has arguments `*AOOA`, handler
    `newcommand`, no replacement, extraction or default tokens; `st1.newcommandIgnore` is
    `[\LTadd, \LTalter, \LTskip, \LTinput]`.  `SegsOk T st1 segs` and `segsOkSimple T st1 segs` are
    `true` and `tex2txt T 1000000 (render segs) {} false 0 []` gives the text and positions above,
    which is `delLines (segMarks [] 0 segs)`.
    `"A\n  \newcommand{\xx}{lorem ipsum}  \n  Alpha \xx{} beta \xx.\n\yy{}\n\newcommand{\xx}{b}\xx"`
    (as segments: well-formed) gives `"A\n  Alpha lorem ipsum beta lorem ipsum.\nb"`, positions
    `[1, 2, 37..44, 45 ×11, 50..55, 56 ×11, 59, 60, 86]`, unknowns `[\yy]` — again equal to the
    reference: the indented line of the first definition and the line `\yy{}` (an unknown macro
    alone on its line) are deleted, the redefinition in the last line is not.
    A body with a line break is admitted (`"\newcommand{\xx}{a\n\nb}\xx"` gives `"a\n\nb"`, all
    at position 23); a body `a-b` is rejected by `segsOk` for the real tables (`-` starts `--`).
-/

end MacroExample

end PlainMacro
end Yalafi
