/-
  Proofs/PlainSpecial.lean — C06, second half, end to end on the model:
  "special character sequences follow the table".

  For a text made of inert characters and special sequences the filter returns exactly what
  the table-driven reference `refSpecial` says: at every offset the longest key of
  `special_tokens` that matches is replaced by its value, the replacement is mapped to the
  position where the sequence starts, everything else is copied with its own position.

  Spec level (independent of the scanner: no `specialSorted`, no `matchSpecial`)
    `longestKey T s`        the longest key of the dictionary that is a prefix of `s`
    `refSpecial T s i`      the reference output (text, 0-based positions) for `s` at offset `i`
    `plainSpecialKey T k`   the keys that reach the `.special` branch of `expandSequence`
    `specText T st s`       the class of texts: every offset is the start of a `plainSpecialKey`
                            match, or an inert character at which nothing matches
    `linesOK T s`           no line consists only of white space and special sequences with blank
                            values (such a line is deleted by `remove_pure_action_lines`)
  Results
    `longestKey_eq_matchSpecial`  the scanner's `matchSpecial` is the longest match (from `WFScan`)
    `refSpecial_nil/_key/_char`   the defining equations of the reference
    `removeLines_safe_id`         `removeLines` drops nothing but empty tokens if the line automaton
                                  `lineRun` accepts the work list (token level; the general tool)
    `scan_special`                the scanner on a text of the class
    `parserWork_special`          `parserWork`: result tokens, unchanged state
    `tex2txt_special_text`        `tex2txt`: the complete result record
    `tex2txt_special`             `tex2txt`: text and positions are `refSpecial`, no unknowns, no
                                  new diagnostics

  Side conditions of the end-to-end theorems
    `hwf : T.toTables.WFScan`     `specialSorted` has the keys of the dictionary, longest first,
                                  none empty — makes the scanner's first match the longest match
    `hnl : no value contains a line break`   a value with a line break would itself start / end
                                  lines in `remove_pure_action_lines` (true for the real table)
    `specText T st1 src`          the class (depends on `st1` only through the language stack)
    `linesOK T src`               see above; without it the line is deleted (examples at the end)
    options / fuel                as in `tex2txt_plain_text`: no --defs, --extr, --repl, --unkn,
                                  single-language mode, `src.length + 2 ≤ fuel`
-/
import YalafiVerif.Proofs.Plain
namespace Yalafi

open M

/-! ### the specification -/

/-- the longest key of the dictionary `special_tokens` that is a prefix of `s`
    (the first key that matches and is at least as long as every key that matches) -/
def longestKey (T : Tables) (s : Str) : Option Str :=
  let ks := (T.special.map (·.1)).filter (fun k => startsWith s k)
  ks.find? (fun k => ks.all (fun k' => k'.length ≤ k.length))

/-- the value of a key that matched (a key of the dictionary always has one) -/
def specialValD (T : Tables) (k : Str) : Str := (T.specialVal k).getD []

/-- reference: left-to-right longest match.  `skip` counts the characters of a matched key that
    are still to be passed over.  At offset `i` a matched key `k` with value `v` contributes `v`
    with the positions `i, i+1, …` (one per character of `v`) and the next `k.length` characters
    are consumed; any other character is copied with its own position. -/
def refSpecialA (T : Tables) : Nat → Str → Nat → Str × List Nat
  | _, [], _ => ([], [])
  | skip + 1, _ :: cs, i => refSpecialA T skip cs (i + 1)
  | 0, c :: cs, i =>
    match longestKey T (c :: cs) with
    | some k =>
      let r := refSpecialA T (k.length - 1) cs (i + 1)
      (specialValD T k ++ r.1, List.range' i (specialValD T k).length ++ r.2)
    | none =>
      let r := refSpecialA T 0 cs (i + 1)
      (c :: r.1, i :: r.2)

/-- the reference output for the text `s` that starts at offset `i` -/
def refSpecial (T : Tables) (s : Str) (i : Nat) : Str × List Nat := refSpecialA T 0 s i

/-- the token texts on which `expandSequence` dispatches before it looks at the token class -/
def dispatchedTexts : List Str := ["$", "\\(", "$$", "\\[", "\\\\", "{", "}"].map String.toList

/-- the keys that become a SpecialToken in the scanner (they do not start with white space,
    `%` or `#`, which `next_token` tests first) and reach the `.special` branch of
    `expandSequence` (the token text is none of `$ \( $$ \[ \\ { }`), where they have a value -/
def plainSpecialKey (T : Tables) (k : Str) : Bool :=
  (match k with | [] => false | c :: _ => !isSpace c && c != '%' && c != '#') &&
  !dispatchedTexts.contains k && (T.specialVal k).isSome

/-- the text of the first scanner token of a text of the class: a run of white space, a matched
    key, or one character -/
def nextTokTxt (T : Tables) : Str → Str
  | [] => []
  | d :: ds =>
    if isSpace d then (d :: ds).takeWhile isSpace
    else match longestKey T (d :: ds) with
      | some k => k
      | none => [d]

/-- `c` followed by `cs` is copied (no key matches here):
    * it is white space or no structural character (`% # \ $ { }`), and
    * it is not an active character of the current language settings, or it is no white space
      and does not form a short macro with the token behind it (or nothing is behind it) -/
def copyAt (T : PTables) (st : PState) (c : Char) (cs : Str) : Bool :=
  (isSpace c || !structuralChar c) &&
  (!(activeChars T st).contains [c] ||
    (!isSpace c && (cs.isEmpty || !(shortKeys T st).contains (c :: nextTokTxt T.toTables cs))))

/-- the class of texts: at every offset that is not inside a matched key, the longest matching
    key is a `plainSpecialKey`, or nothing matches and the character is copied -/
def specTextA (T : PTables) (st : PState) : Nat → Str → Bool
  | _, [] => true
  | skip + 1, _ :: cs => specTextA T st skip cs
  | 0, c :: cs =>
    match longestKey T.toTables (c :: cs) with
    | some k => plainSpecialKey T.toTables k && specTextA T st (k.length - 1) cs
    | none => copyAt T st c cs && specTextA T st 0 cs

def specText (T : PTables) (st : PState) (s : Str) : Bool := specTextA T st 0 s

/-- the line automaton on the source.  State `some a`: the current line consists of white space
    and special sequences with blank value so far, `a` = there was such a sequence; `none`: the
    line has a visible character.  Result `none`: a line break or the end was reached in state
    `some true` — that line would be deleted. -/
def lineStateA (T : Tables) : Nat → Option Bool → Str → Option (Option Bool)
  | _, s, [] => some s
  | skip + 1, s, _ :: cs => lineStateA T skip s cs
  | 0, s, c :: cs =>
    match longestKey T (c :: cs) with
    | some k =>
      lineStateA T (k.length - 1)
        (if isBlank (specialValD T k) then s.map (fun _ => true) else none) cs
    | none =>
      if c == nl then (if s == some true then none else lineStateA T 0 (some false) cs)
      else if isSpace c then lineStateA T 0 s cs
      else lineStateA T 0 none cs

/-- no line of `src` (maximal run without line break) consists only of white space and of
    special sequences whose value is blank, with at least one such sequence -/
def linesOK (T : Tables) (src : Str) : Bool :=
  match lineStateA T 0 (some false) src with
  | some s => s != some true
  | none => false

/-! ### the scanner's `matchSpecial` is the longest match -/

theorem startsWith_eq_of_length (s a b : Str) (ha : startsWith s a = true)
    (hb : startsWith s b = true) (hl : a.length = b.length) : a = b := by
  have h1 := (ScannerAux.startsWith_spec s a ha).2
  have h2 := (ScannerAux.startsWith_spec s b hb).2
  rw [← h1, ← h2, hl]

theorem longestKey_eq_matchSpecial (T : Tables) (h : T.WFScan) (s : Str) :
    longestKey T s = matchSpecial T s := by
  cases hm : matchSpecial T s with
  | none =>
    have hn := matchSpecial_none T h s hm
    have : (T.special.map (·.1)).filter (fun k => startsWith s k) = [] := by
      rw [List.filter_eq_nil_iff]
      intro k hk
      simp [hn k hk]
    simp only [longestKey, this, List.find?_nil]
  | some t =>
    obtain ⟨hp, hk, hmax⟩ := matchSpecial_longest T h s t hm
    unfold longestKey
    simp only []
    generalize hks : (T.special.map (·.1)).filter (fun k => startsWith s k) = ks
    have hmem : ∀ k, k ∈ ks ↔ k ∈ T.special.map (·.1) ∧ startsWith s k = true := by
      intro k; rw [← hks, List.mem_filter]
    have ht : t ∈ ks := (hmem t).mpr ⟨hk, hp⟩
    have hPt : ks.all (fun k' => decide (k'.length ≤ t.length)) = true := by
      rw [List.all_eq_true]
      intro k' hk'
      have := (hmem k').mp hk'
      simpa using hmax k' this.1 this.2
    cases hf : ks.find? (fun k => ks.all (fun k' => decide (k'.length ≤ k.length))) with
    | none =>
      have := List.find?_eq_none.mp hf t ht
      rw [hPt] at this
      exact absurd rfl this
    | some t' =>
      have h1 := List.find?_some hf
      have h2 := (hmem t').mp (List.mem_of_find?_eq_some hf)
      have h3 : t.length ≤ t'.length := by
        have := (List.all_eq_true.mp h1) t ht
        simpa using this
      have h4 := hmax t' h2.1 h2.2
      rw [startsWith_eq_of_length s t' t h2.2 hp (by omega)]

/-! ### `expandSequence` on plain and special tokens -/

/-- what `expandSequence` emits for one scanner token of the class: a SpecialToken becomes an
    Action token and a text token with the table value, at the position of the sequence -/
def expTok (T : Tables) (t : Tok) : List Tok :=
  if t.kind == .special then
    [mkAction t.pos, { kind := .text, pos := t.pos, txt := specialValD T t.txt, fix := t.fix }]
  else [t]

/-- a SpecialToken that reaches the `.special` branch -/
def SpecialTok (T : Tables) (t : Tok) : Prop :=
  t.kind = .special ∧ plainSpecialKey T t.txt = true

/-- a buffer of plain tokens and special tokens -/
def PSSeq (T : PTables) (st : PState) : List Tok → Prop
  | [] => True
  | t :: rest => ((PlainTok t ∧ PassTok T st t rest) ∨ SpecialTok T.toTables t) ∧ PSSeq T st rest

theorem PSSeq.congr {T : PTables} {st st' : PState} (hl : st'.langStack = st.langStack) :
    ∀ {toks : List Tok}, PSSeq T st toks → PSSeq T st' toks
  | [], _ => trivial
  | t :: rest, hs => by
    refine ⟨?_, PSSeq.congr hl hs.2⟩
    rcases hs.1 with ⟨h1, h2⟩ | h
    · left
      refine ⟨h1, ?_⟩
      unfold PassTok
      rw [activeChars_congr T st st' hl, expandShortMacro_congr T st st' hl]
      exact h2
    · exact Or.inr h

theorem PSSeq.notComment {T : PTables} {st : PState} : ∀ {toks : List Tok}, PSSeq T st toks →
    ∀ t ∈ toks, t.kind ≠ .comment
  | [], _, _, h => nomatch h
  | _ :: _, hs, x, hx => by
    rcases List.mem_cons.mp hx with rfl | hx
    · rcases hs.1 with ⟨h1, _⟩ | h
      · exact h1.notComment
      · rw [h.1]; simp
    · exact PSSeq.notComment hs.2 x hx

theorem expTok_plain (T : Tables) (t : Tok) (h : PlainTok t) : expTok T t = [t] := by
  unfold expTok
  rcases h.kind with hk | hk | hk <;> simp [hk]

theorem txtIs_false_of_not_dispatched (t : Tok)
    (h : dispatchedTexts.contains t.txt = false) :
    txtIs t "$" = false ∧ txtIs t "\\(" = false ∧ txtIs t "$$" = false ∧ txtIs t "\\[" = false ∧
    txtIs t "\\\\" = false ∧ txtIs t "{" = false ∧ txtIs t "}" = false := by
  have hn : ∀ s ∈ dispatchedTexts, (t.txt == s) = false := by
    intro s hs
    cases hb : t.txt == s with
    | false => rfl
    | true =>
      have : dispatchedTexts.contains t.txt = true := by
        rw [List.contains_iff_mem]
        rw [beq_iff_eq] at hb
        rw [hb]; exact hs
      rw [h] at this; cases this
  unfold txtIs
  refine ⟨hn _ ?_, hn _ ?_, hn _ ?_, hn _ ?_, hn _ ?_, hn _ ?_, hn _ ?_⟩ <;> decide

theorem seq_special_step (T : PTables) (fuel : Nat) (tok : Tok) (rest : Buf) (envStop : Option Str)
    (out : List Tok) (st : PState) (h : SpecialTok T.toTables tok) :
    expandSequence T (fuel + 1) (tok :: rest) envStop out st
      = expandSequence T fuel rest envStop (out ++ expTok T.toTables tok) st := by
  obtain ⟨hk, hp⟩ := h
  simp only [plainSpecialKey, Bool.and_eq_true, Bool.not_eq_true'] at hp
  obtain ⟨⟨_, hd⟩, hv⟩ := hp
  obtain ⟨n1, n2, n3, n4, n5, n6, n7⟩ := txtIs_false_of_not_dispatched tok hd
  obtain ⟨v, hv⟩ := Option.isSome_iff_exists.mp hv
  rw [expandSequence.eq_3]
  show M.bind' M.get _ st = _
  simp only [M.bind', M.get]
  simp only [hk, n1, n2, n3, n4, n5, n6, n7, hv, Bool.or_self, Bool.false_eq_true, if_false,
    reduceCtorEq, beq_iff_eq, if_true, expTok, specialValD, Option.getD_some, beq_self_eq_true]

/-- the loop on a buffer of plain and special tokens: every token costs one unit of fuel and
    the final call (empty buffer, blank-line removal) one more -/
theorem seq_spec (T : PTables) (st : PState) (envStop : Option Str) :
    ∀ (toks : List Tok) (fuel : Nat) (out : List Tok), toks.length + 1 ≤ fuel →
      PSSeq T st toks →
      expandSequence T fuel toks envStop out st
        = match removeLines (out ++ toks.flatMap (expTok T.toTables)) with
          | some r => .ok ((r, []), st)
          | none => .outOfFuel := by
  intro toks
  induction toks with
  | nil =>
    intro fuel out hf _
    obtain ⟨f, rfl⟩ : ∃ f, fuel = f + 1 := ⟨fuel - 1, by simp at hf; omega⟩
    rw [expandSequence.eq_2, List.flatMap_nil, List.append_nil]
    cases removeLines out <;> rfl
  | cons t ts ih =>
    intro fuel out hf hp
    obtain ⟨f, rfl⟩ : ∃ f, fuel = f + 1 := ⟨fuel - 1, by simp at hf; omega⟩
    have hstep : expandSequence T (f + 1) (t :: ts) envStop out st
        = expandSequence T f ts envStop (out ++ expTok T.toTables t) st := by
      rcases hp.1 with ⟨h1, h2⟩ | h
      · rw [seq_plain_step T f t ts envStop out st h1 h2, expTok_plain _ _ h1]
      · exact seq_special_step T f t ts envStop out st h
    rw [hstep, ih f _ (by simp at hf ⊢; omega) hp.2, List.flatMap_cons, List.append_assoc]

/-! ### `removeLines` deletes nothing but empty tokens if no line is a pure Action line

  Token level, for arbitrary token lists.  `lineRun` runs over the work list of
  `remove_pure_action_lines`; state `some a`: we are behind an item that can start a line and
  have seen only blank items since, `a` = one of them was an Action token. -/

def lineRun : Option Bool → List LItem → Bool
  | _, [] => true
  | s, i :: is =>
    !(i.cs && isAction i.tok) &&
    !(s.isSome && (i.ce || (i.blank && is.isEmpty)) && (s.getD false || isAction i.tok)) &&
    lineRun (if s.isSome && i.blank && !i.ce then some (s.getD false || isAction i.tok)
             else if i.cs then some false else none) is

/-- no segment of the work list satisfies the conditions of the removing branch -/
def Safe (items : List LItem) : Prop :=
  ∀ pre t mid lst rest', items = pre ++ t :: (mid ++ lst :: rest') → t.cs = true →
    (∀ i ∈ mid, i.blank = true ∧ i.ce = false) →
    (lst.ce = false → lst.blank = true → rest' = []) → (lst.ce || lst.blank) = true →
    (t :: (mid ++ [lst])).any (fun i => isAction i.tok) = false

/-- re-evaluating an item (it loses the sentinel overrides) does not make it a line start -/
def CsMono (i : LItem) : Prop := (evalTok i.tok).cs = true → i.cs = true

theorem CsMono_evalTok (t : Tok) : CsMono (evalTok t) := by
  intro h; rwa [evalTok_tok] at h

theorem CsMono_of_sentinel (i : LItem) (p : Nat) (h : i.tok = sentinel p) : CsMono i := by
  intro hc
  rw [h] at hc
  simp [evalTok, sentinel, isAction, hasNl] at hc

theorem Safe_tail (t : LItem) (rest : List LItem) (h : Safe (t :: rest)) : Safe rest := by
  intro pre t2 mid lst rest' he
  exact h (t :: pre) t2 mid lst rest' (by rw [he]; rfl)

theorem Safe_keep (t : LItem) (mid : List LItem) (lst : LItem) (rest' : List LItem)
    (h : Safe (t :: (mid ++ lst :: rest'))) (hm : CsMono lst) : Safe (evalTok lst.tok :: rest') := by
  intro pre t2 mid2 lst2 rest2 he hcs2 hm2 hx2 hb2
  cases pre with
  | nil =>
    simp only [List.nil_append, List.cons.injEq] at he
    obtain ⟨rfl, rfl⟩ := he
    have := h (t :: mid) lst mid2 lst2 rest2 (by simp) (hm hcs2) hm2 hx2 hb2
    simpa using this
  | cons x pre' =>
    simp only [List.cons_append, List.cons.injEq] at he
    obtain ⟨_, rfl⟩ := he
    exact h (t :: (mid ++ lst :: pre')) t2 mid2 lst2 rest2 (by simp) hcs2 hm2 hx2 hb2

theorem LinesRel_safe (items : List LItem) (r : List Tok) (hrel : LinesRel items r)
    (hs : Safe items) (hm : ∀ i ∈ items, CsMono i) : r = items.map (·.tok) := by
  induction hrel with
  | nil => rfl
  | skip t rest r hcs _ ih =>
    simp [ih (Safe_tail t rest hs) (fun i hi => hm i (by simp [hi]))]
  | one t hcs => rfl
  | remove t mid lst rest' r hcs hm' hx hb hany _ ih =>
    exfalso
    have := hs [] t mid lst rest' rfl hcs hm' hx hb
    rw [this] at hany
    cases hany
  | keep t mid lst rest' r hcs hm' hx hb _ ih =>
    have := ih (Safe_keep t mid lst rest' hs (hm lst (by simp))) (by
      intro i hi
      simp only [List.mem_cons] at hi
      rcases hi with rfl | hi
      · exact CsMono_evalTok _
      · exact hm i (by simp [hi]))
    simp [this]

theorem lineRun_safe : ∀ (items : List LItem) (s : Option Bool), lineRun s items = true →
    Safe items ∧
    (∀ a, s = some a → ∀ mid lst rest', items = mid ++ lst :: rest' →
      (∀ i ∈ mid, i.blank = true ∧ i.ce = false) →
      (lst.ce = false → lst.blank = true → rest' = []) → (lst.ce || lst.blank) = true →
      a = false ∧ (mid ++ [lst]).any (fun i => isAction i.tok) = false) := by
  intro items
  induction items with
  | nil =>
    intro s _
    refine ⟨?_, ?_⟩
    · intro pre t mid lst rest' he; simp at he
    · intro a _ mid lst rest' he; simp at he
  | cons i is ih =>
    intro s h
    simp only [lineRun, Bool.and_eq_true, Bool.not_eq_true'] at h
    obtain ⟨⟨c1, c2⟩, c3⟩ := h
    obtain ⟨ih1, ih2⟩ := ih _ c3
    refine ⟨?_, ?_⟩
    · intro pre t mid lst rest' he hcs hmid hx hb
      cases pre with
      | nil =>
        simp only [List.nil_append, List.cons.injEq] at he
        obtain ⟨rfl, rfl⟩ := he
        have hact : isAction i.tok = false := by simpa [hcs] using c1
        have hn : ∃ b, (if (s.isSome = true ∧ i.blank = true) ∧ i.ce = false then
            some (s.getD false || isAction i.tok) else if i.cs = true then some false else none)
            = some b := by
          by_cases hc : (s.isSome = true ∧ i.blank = true) ∧ i.ce = false
          · rw [if_pos hc]; exact ⟨_, rfl⟩
          · rw [if_neg hc, if_pos hcs]; exact ⟨_, rfl⟩
        obtain ⟨b, hb'⟩ := hn
        have := (ih2 b hb' mid lst rest' rfl hmid hx hb).2
        simp only [List.any_cons, hact, Bool.false_or]
        exact this
      | cons x pre' =>
        simp only [List.cons_append, List.cons.injEq] at he
        obtain ⟨_, rfl⟩ := he
        exact ih1 pre' t mid lst rest' rfl hcs hmid hx hb
    · intro a hs mid lst rest' he hmid hx hb
      subst hs
      cases mid with
      | nil =>
        simp only [List.nil_append, List.cons.injEq] at he
        obtain ⟨rfl, rfl⟩ := he
        have hcond : (i.ce || (i.blank && is.isEmpty)) = true := by
          cases hce : i.ce with
          | true => rfl
          | false =>
            have hbl : i.blank = true := by simpa [hce] using hb
            have := hx hce hbl
            simp [hbl, this]
        simp only [Option.isSome_some, hcond, Bool.and_self, Bool.true_and, Option.getD_some,
          Bool.or_eq_false_iff] at c2
        simpa using c2
      | cons m mid' =>
        simp only [List.cons_append, List.cons.injEq] at he
        obtain ⟨rfl, rfl⟩ := he
        obtain ⟨hb1, hb2⟩ := hmid i (by simp)
        have := ih2 (a || isAction i.tok) (by simp [hb1, hb2]) mid' lst rest' rfl
          (fun j hj => hmid j (by simp [hj])) hx hb
        simp only [Bool.or_eq_false_iff] at this
        simp only [List.cons_append, List.any_cons, this.1.2, Bool.false_or]
        exact ⟨this.1.1, this.2⟩

/-- if the line automaton accepts the work list, the pass only drops empty tokens (Action
    tokens among them) -/
theorem removeLines_safe_id (ts : List Tok) (h : lineRun none (linesInit ts) = true) :
    removeLines ts = some (ts.filter keepOut) := by
  have hp := removeLines_progress ts
  cases hr : removeLines ts with
  | none => rw [hr] at hp; cases hp
  | some out =>
    obtain ⟨r, hrel, rfl⟩ := removeLines_rel ts out hr
    obtain ⟨p, e⟩ := linesInit_eq ts
    rw [e] at hrel h
    have := LinesRel_safe _ r hrel (lineRun_safe _ _ h).1 (by
      intro i hi
      simp only [List.mem_cons, List.mem_append, List.mem_map, List.mem_filter, List.not_mem_nil,
        or_false] at hi
      rcases hi with rfl | ⟨t, _, rfl⟩ | rfl
      · exact CsMono_of_sentinel _ 0 firstItem_tok
      · exact CsMono_evalTok _
      · exact CsMono_of_sentinel _ p (lastItem_tok p))
    subst this
    simp only [List.map_cons, List.map_append, List.map_map, List.map_nil, firstItem_tok,
      lastItem_tok, List.filter_cons, keepOut_sentinel, Bool.false_eq_true, if_false,
      List.filter_append, List.filter_nil, List.append_nil, Option.some.injEq]
    have e2 : List.map ((fun x => x.tok) ∘ evalTok) (List.filter keepIn ts) = List.filter keepIn ts := by
      rw [show ((fun x : LItem => x.tok) ∘ evalTok) = id from by funext t; simp]
      simp
    rw [e2, List.filter_filter]
    apply List.filter_congr
    intro t _
    simp only [keepOut, keepIn]
    cases t.txt.isEmpty <;> cases isLang t <;> simp

/-! ### the `skip` counter; one step of the specification functions -/

theorem refSpecialA_nil (T : Tables) (n i : Nat) : refSpecialA T n [] i = ([], []) := by
  cases n <;> rfl

theorem refSpecialA_skip (T : Tables) : ∀ (n : Nat) (s : Str) (i : Nat),
    refSpecialA T n s i = refSpecialA T 0 (s.drop n) (i + n)
  | 0, s, i => by simp
  | n + 1, [], i => by simp [refSpecialA_nil]
  | n + 1, c :: cs, i => by
    rw [refSpecialA, refSpecialA_skip T n cs (i + 1)]
    simp [Nat.add_assoc, Nat.add_comm 1 n]

theorem specTextA_nil (T : PTables) (st : PState) (n : Nat) : specTextA T st n [] = true := by
  cases n <;> rfl

theorem specTextA_skip (T : PTables) (st : PState) : ∀ (n : Nat) (s : Str),
    specTextA T st n s = specTextA T st 0 (s.drop n)
  | 0, s => by simp
  | n + 1, [] => by simp [specTextA_nil]
  | n + 1, c :: cs => by
    rw [specTextA, specTextA_skip T st n cs]
    simp

theorem lineStateA_nil (T : Tables) (n : Nat) (σ : Option Bool) : lineStateA T n σ [] = some σ := by
  cases n <;> rfl

theorem lineStateA_skip (T : Tables) : ∀ (n : Nat) (σ : Option Bool) (s : Str),
    lineStateA T n σ s = lineStateA T 0 σ (s.drop n)
  | 0, σ, s => by simp
  | n + 1, σ, [] => by simp [lineStateA_nil]
  | n + 1, σ, c :: cs => by
    rw [lineStateA, lineStateA_skip T n σ cs]
    simp

theorem longestKey_some_startsWith (T : Tables) (s k : Str) (h : longestKey T s = some k) :
    startsWith s k = true := by
  unfold longestKey at h
  have := List.mem_of_find?_eq_some h
  rw [List.mem_filter] at this
  exact this.2

/-- a matched `plainSpecialKey` starts with the character at the offset, which is no white
    space, `%` or `#` -/
theorem plainKey_head (T : Tables) (c : Char) (cs k : Str) (hs : startsWith (c :: cs) k = true)
    (hp : plainSpecialKey T k = true) :
    ∃ tl, k = c :: tl ∧ isSpace c = false ∧ c ≠ '%' ∧ c ≠ '#' := by
  simp only [plainSpecialKey, Bool.and_eq_true] at hp
  obtain ⟨⟨h1, _⟩, _⟩ := hp
  cases k with
  | nil => simp at h1
  | cons d tl =>
    simp only [startsWith, Bool.and_eq_true, beq_iff_eq] at hs
    obtain ⟨rfl, _⟩ := hs
    simp only [Bool.and_eq_true, Bool.not_eq_true', bne_iff_ne, ne_eq] at h1
    exact ⟨tl, rfl, h1.1.1, h1.1.2, h1.2⟩

/-- the reference at a matched key -/
theorem refSpecial_key (T : Tables) (c : Char) (cs : Str) (i : Nat) (k : Str)
    (h : longestKey T (c :: cs) = some k) (hk : k ≠ []) :
    refSpecial T (c :: cs) i =
      (specialValD T k ++ (refSpecial T ((c :: cs).drop k.length) (i + k.length)).1,
       List.range' i (specialValD T k).length
         ++ (refSpecial T ((c :: cs).drop k.length) (i + k.length)).2) := by
  obtain ⟨m, hm⟩ : ∃ m, k.length = m + 1 :=
    ⟨k.length - 1, by have := List.length_pos_iff.mpr hk; omega⟩
  simp only [refSpecial, refSpecialA, h]
  rw [refSpecialA_skip, hm]
  simp [Nat.add_assoc, Nat.add_comm 1 m]

/-- the reference at a character where nothing matches -/
theorem refSpecial_char (T : Tables) (c : Char) (cs : Str) (i : Nat)
    (h : longestKey T (c :: cs) = none) :
    refSpecial T (c :: cs) i = (c :: (refSpecial T cs (i + 1)).1, i :: (refSpecial T cs (i + 1)).2) := by
  simp only [refSpecial, refSpecialA, h]

theorem refSpecial_nil (T : Tables) (i : Nat) : refSpecial T [] i = ([], []) := rfl

/-- a white-space character of a text of the class: nothing matches there -/
theorem specText_space (T : PTables) (st : PState) (c : Char) (cs : Str) (hc : isSpace c = true)
    (h : specTextA T st 0 (c :: cs) = true) :
    longestKey T.toTables (c :: cs) = none ∧ specTextA T st 0 cs = true := by
  simp only [specTextA] at h
  cases hl : longestKey T.toTables (c :: cs) with
  | some k =>
    simp only [hl, Bool.and_eq_true] at h
    obtain ⟨_, _, h2, _⟩ := plainKey_head _ c cs k (longestKey_some_startsWith _ _ _ hl) h.1
    rw [hc] at h2; cases h2
  | none =>
    simp only [hl, Bool.and_eq_true] at h
    exact ⟨rfl, h.2⟩

/-- a run of white space in a text of the class -/
theorem ws_run (T : PTables) (st : PState) : ∀ (w r : Str), (∀ c ∈ w, isSpace c = true) →
    specTextA T st 0 (w ++ r) = true →
    specTextA T st 0 r = true ∧
    (∀ i, refSpecialA T.toTables 0 (w ++ r) i =
      (w ++ (refSpecialA T.toTables 0 r (i + w.length)).1,
       List.range' i w.length ++ (refSpecialA T.toTables 0 r (i + w.length)).2)) ∧
    (∀ σ, lineStateA T.toTables 0 σ (w ++ r) =
      if hasNl w then (if σ == some true then none else lineStateA T.toTables 0 (some false) r)
      else lineStateA T.toTables 0 σ r) := by
  intro w
  induction w with
  | nil => intro r _ h; exact ⟨by simpa using h, by simp, by simp [hasNl]⟩
  | cons c w ih =>
    intro r hw h
    have hc := hw c (by simp)
    obtain ⟨hl, h'⟩ := specText_space T st c (w ++ r) hc h
    obtain ⟨i1, i2, i3⟩ := ih r (fun d hd => hw d (by simp [hd])) h'
    refine ⟨i1, ?_, ?_⟩
    · intro i
      simp only [List.cons_append, refSpecialA, hl, i2, List.length_cons, List.range'_succ]
      simp [Nat.add_assoc, Nat.add_comm 1 w.length]
    · intro σ
      simp only [List.cons_append, lineStateA, hl, i3]
      by_cases hn : c = nl
      · subst hn
        have : hasNl (nl :: w) = true := by simp [hasNl]
        simp only [beq_self_eq_true, if_true, this]
        cases σ with
        | none => simp
        | some a => cases a <;> simp
      · have h1 : (c == nl) = false := by simpa using hn
        have h2 : hasNl (c :: w) = hasNl w := by
          simp only [hasNl, List.contains_cons]
          have : (nl == c) = false := by simpa using fun e : nl = c => hn e.symm
          rw [this, Bool.false_or]
        simp only [h1, Bool.false_eq_true, if_false, hc, if_true, h2]

/-! ### one token in the line automaton of the work list -/

theorem isBlank_afterLastNl (s : Str) (h : isBlank s = true) : isBlank (afterLastNl s) = true := by
  unfold isBlank afterLastNl at *
  rw [List.all_eq_true] at h ⊢
  intro x hx
  rw [List.mem_reverse] at hx
  exact h x (List.mem_reverse.mp ((List.takeWhile_sublist _).subset hx))

/-- a white-space token: a line break closes the line and opens the next one -/
theorem lineRun_ws (t : Tok) (hk : t.kind = .space ∨ t.kind = .par) (hw : isBlank t.txt = true)
    (σ : Option Bool) (tail : List LItem) (ht : tail ≠ []) :
    lineRun σ (evalTok t :: tail) =
      if hasNl t.txt then (if σ == some true then false else lineRun (some false) tail)
      else lineRun σ tail := by
  have ha : isAction t = false := by rcases hk with hk | hk <;> simp [isAction, hk]
  have he : tail.isEmpty = false := by cases tail <;> simp_all
  cases hn : hasNl t.txt with
  | true =>
    cases σ with
    | none =>
      simp [lineRun, evalTok, ha, hn, hw, he, isBlank_afterLastNl _ hw, isBlank_beforeFirstNl _ hw]
    | some a =>
      cases a <;>
      simp [lineRun, evalTok, ha, hn, hw, he, isBlank_afterLastNl _ hw, isBlank_beforeFirstNl _ hw]
  | false =>
    cases σ with
    | none => simp [lineRun, evalTok, ha, hn, hw, he]
    | some a => simp [lineRun, evalTok, ha, hn, hw, he]

/-- a text token without line break: visible text closes the line, blank text changes nothing -/
theorem lineRun_txt (t : Tok) (hk : t.kind = .text) (hn : hasNl t.txt = false)
    (σ : Option Bool) (tail : List LItem) (ht : tail ≠ []) :
    lineRun σ (evalTok t :: tail) = lineRun (if isBlank t.txt then σ else none) tail := by
  have ha : isAction t = false := by simp [isAction, hk]
  have he : tail.isEmpty = false := by cases tail <;> simp_all
  cases hb : isBlank t.txt <;> cases σ <;> simp [lineRun, evalTok, ha, hn, hb, he]

/-- an Action token -/
theorem lineRun_action (t : Tok) (hk : t.kind = .action)
    (σ : Option Bool) (tail : List LItem) (ht : tail ≠ []) :
    lineRun σ (evalTok t :: tail) = lineRun (σ.map (fun _ => true)) tail := by
  have ha : isAction t = true := by simp [isAction, hk]
  have he : tail.isEmpty = false := by cases tail <;> simp_all
  cases σ <;> simp [lineRun, evalTok, ha, he]

/-! ### one scanner step on a text of the class -/

/-- the link between one scanner step on a text of the class and the specification functions -/
structure StepLink (T : PTables) (st : PState) (pos : Nat) (rest : Str) (s : ScanStep) : Prop where
  diag : s.diag = none
  extra : s.extra = []
  len_pos : 1 ≤ s.len
  len_le : s.len ≤ rest.length
  ne : s.tok.txt ≠ []
  cls : specTextA T st 0 (rest.drop s.len) = true
  tokc : PlainTok s.tok ∨ SpecialTok T.toTables s.tok
  first : s.tok.txt = nextTokTxt T.toTables rest
  pass : PlainTok s.tok → ∀ nxt : Buf,
    (∀ t2 ts, nxt = t2 :: ts → t2.txt = nextTokTxt T.toTables (rest.drop s.len)) →
    (rest.drop s.len = [] → nxt = []) → PassTok T st s.tok nxt
  txt : refSpecialA T.toTables 0 rest pos =
    ((getTxtPos (expTok T.toTables s.tok)).1
        ++ (refSpecialA T.toTables 0 (rest.drop s.len) (pos + s.len)).1,
     (getTxtPos (expTok T.toTables s.tok)).2
        ++ (refSpecialA T.toTables 0 (rest.drop s.len) (pos + s.len)).2)
  lines : ∃ δ : Option Bool → Option (Option Bool),
    (∀ σ tail, tail ≠ [] →
      lineRun σ (((expTok T.toTables s.tok).filter keepIn).map evalTok ++ tail) =
        match δ σ with
        | none => false
        | some σ' => lineRun σ' tail) ∧
    (∀ σ, lineStateA T.toTables 0 σ rest =
        match δ σ with
        | none => none
        | some σ' => lineStateA T.toTables 0 σ' (rest.drop s.len))

theorem specialValD_noNl (T : Tables) (hnl : ∀ e ∈ T.special, hasNl e.2 = false) (k : Str) :
    hasNl (specialValD T k) = false := by
  unfold specialValD Tables.specialVal
  cases hf : T.special.find? (·.1 == k) with
  | none => rfl
  | some e => exact hnl e (List.mem_of_find?_eq_some hf)

theorem link_key (T : PTables) (st : PState) (src : Str) (pos : Nat) (c : Char) (cs k : Str)
    (hnl : ∀ e ∈ T.special, hasNl e.2 = false)
    (hl : longestKey T.toTables (c :: cs) = some k)
    (hms : matchSpecial T.toTables (c :: cs) = some k)
    (hp : plainSpecialKey T.toTables k = true)
    (hcls : specTextA T st (k.length - 1) cs = true) :
    StepLink T st pos (c :: cs) (nextToken T.toTables src pos (c :: cs)) := by
  have hsw := longestKey_some_startsWith _ _ _ hl
  obtain ⟨tl, rfl, hsp, h1, h2⟩ := plainKey_head _ c cs k hsw hp
  have hnt : nextToken T.toTables src pos (c :: cs)
      = { tok := { kind := .special, pos := pos, txt := c :: tl }, len := (c :: tl).length } := by
    simp [nextToken, hsp, h1, h2, hms]
  rw [hnt]
  have hdrop : (c :: cs).drop (c :: tl).length = cs.drop tl.length := by simp
  refine ⟨rfl, rfl, by simp, (ScannerAux.startsWith_spec _ _ hsw).1, by simp, ?_, Or.inr ⟨rfl, hp⟩,
    ?_, ?_, ?_, ?_⟩
  · show specTextA T st 0 ((c :: cs).drop (c :: tl).length) = true
    rw [hdrop]
    rw [specTextA_skip] at hcls
    simpa using hcls
  · simp [nextTokTxt, hsp, hl]
  · intro hP
    have := hP.kind
    simp at this
  · have := refSpecial_key T.toTables c cs pos (c :: tl) hl (by simp)
    simp only [refSpecial] at this
    rw [this]
    simp [expTok, getTxtPos, tokPositions, mkAction, List.range'_eq_map_range]
  · refine ⟨fun σ => some (if isBlank (specialValD T.toTables (c :: tl)) then σ.map (fun _ => true)
        else none), ?_, ?_⟩
    · intro σ tail ht
      have hA : ∀ tl', tl' ≠ [] → lineRun σ (evalTok (mkAction pos) :: tl')
          = lineRun (σ.map (fun _ => true)) tl' :=
        fun tl' h' => lineRun_action (mkAction pos) rfl σ tl' h'
      cases hv : specialValD T.toTables (c :: tl) with
      | nil =>
        have : lineRun σ (evalTok (mkAction pos) :: tail) = lineRun (σ.map (fun _ => true)) tail :=
          hA tail ht
        simpa [expTok, keepIn, isAction, isLang, mkAction, hv, isBlank] using this
      | cons d ds =>
        have hn : hasNl (d :: ds) = false := by rw [← hv]; exact specialValD_noNl _ hnl _
        have h3 := hA (evalTok { kind := .text, pos := pos, txt := d :: ds, fix := false } :: tail)
          (by simp)
        have h4 := lineRun_txt { kind := .text, pos := pos, txt := d :: ds, fix := false } rfl hn
          (σ.map (fun _ => true)) tail ht
        rw [h4] at h3
        simp only [expTok, beq_self_eq_true, if_true, hv, List.filter_cons, keepIn, isAction, isLang,
          mkAction, List.isEmpty_nil, Bool.not_true, Bool.or_true, Bool.or_false,
          List.isEmpty_cons, Bool.not_false, Bool.true_or, List.filter_nil, List.map_cons,
          List.map_nil, List.cons_append, List.nil_append]
        simp only [mkAction] at h3
        rw [h3]
    · intro σ
      simp only [lineStateA, hl]
      rw [lineStateA_skip]
      simp

theorem mem_takeWhile_true {α} (p : α → Bool) : ∀ (l : List α) (x : α), x ∈ l.takeWhile p → p x = true
  | [], _, h => by simp at h
  | a :: l, x, h => by
    rw [List.takeWhile_cons] at h
    split at h
    · rcases List.mem_cons.mp h with rfl | h'
      · assumption
      · exact mem_takeWhile_true p l x h'
    · simp at h

theorem link_ws (T : PTables) (st : PState) (src : Str) (pos : Nat) (c : Char) (cs : Str)
    (hsp : isSpace c = true) (hact : (activeChars T st).contains [c] = false)
    (h0 : specTextA T st 0 (c :: cs) = true) :
    StepLink T st pos (c :: cs) (nextToken T.toTables src pos (c :: cs)) := by
  have hnt : nextToken T.toTables src pos (c :: cs) = scanSpace pos (c :: cs) := by
    simp [nextToken, hsp]
  rw [hnt]
  generalize hw : (c :: cs).takeWhile isSpace = w
  have hw' : w = c :: cs.takeWhile isSpace := by rw [← hw]; simp [hsp]
  have hall : ∀ d ∈ w, isSpace d = true := by
    intro d hd; rw [← hw] at hd; exact mem_takeWhile_true _ _ _ hd
  have hsplit : w ++ (c :: cs).drop w.length = c :: cs := by
    rw [← hw, ← ScannerAux.take_length_takeWhile, hw]
    have : ((c :: cs).take w.length).length = w.length := by
      rw [List.length_take]
      have := ScannerAux.length_takeWhile_le' isSpace (c :: cs)
      rw [hw] at this
      omega
    rw [this, List.take_append_drop]
  obtain ⟨r1, r2, r3⟩ := ws_run T st w ((c :: cs).drop w.length) hall (by rw [hsplit]; exact h0)
  rw [hsplit] at r2 r3
  have hblank : isBlank w = true := by simpa [isBlank] using hall
  have hpl : PlainTok (scanSpace pos (c :: cs)).tok := by
    refine plainTok_of_head _ c (cs.takeWhile isSpace) ?_ ?_ (structuralChar_of_isSpace c hsp)
    · simp only [scanSpace, hw, hw']
    · simp only [scanSpace]; split
      · exact Or.inr (Or.inl rfl)
      · exact Or.inr (Or.inr rfl)
  have htxt : (scanSpace pos (c :: cs)).tok.txt = w := by simp only [scanSpace, hw]
  have hlen : (scanSpace pos (c :: cs)).len = w.length := by simp only [scanSpace, hw]
  have hposn : (scanSpace pos (c :: cs)).tok.pos = pos := rfl
  have hfix : (scanSpace pos (c :: cs)).tok.fix = false := rfl
  have hkind : (scanSpace pos (c :: cs)).tok.kind = .space ∨ (scanSpace pos (c :: cs)).tok.kind = .par := by
    simp only [scanSpace]; split
    · exact Or.inl rfl
    · exact Or.inr rfl
  have hdiag : (scanSpace pos (c :: cs)).diag = none := rfl
  have hextra : (scanSpace pos (c :: cs)).extra = [] := rfl
  generalize scanSpace pos (c :: cs) = s at hpl htxt hlen hposn hfix hdiag hextra hkind
  have hexp : expTok T.toTables s.tok = [s.tok] := expTok_plain _ _ hpl
  refine ⟨hdiag, hextra, ?_, ?_, ?_, ?_, Or.inl hpl, ?_, ?_, ?_, ?_⟩
  · rw [hlen, hw']; simp
  · rw [hlen, ← hw]; exact ScannerAux.length_takeWhile_le' _ _
  · rw [htxt, hw']; simp
  · rw [hlen]; exact r1
  · rw [htxt, ← hw]; simp [nextTokTxt, hsp]
  · intro _ nxt _ _
    left
    rw [htxt, hw']
    exact not_active_cons T st c _ hact
  · rw [r2 pos, hexp, hlen]
    simp [getTxtPos, tokPositions, hfix, htxt, hposn, List.range'_eq_map_range]
  · refine ⟨fun σ => if hasNl w then (if σ == some true then none else some (some false))
        else some σ, ?_, ?_⟩
    · intro σ tail ht
      have hk : keepIn s.tok = true := by simp [keepIn, htxt, hw']
      rw [hexp]
      simp only [List.filter_cons, hk, if_true, List.filter_nil, List.map_cons, List.map_nil,
        List.cons_append, List.nil_append]
      rw [lineRun_ws s.tok hkind (by rw [htxt]; exact hblank) σ tail ht, htxt]
      cases hasNl w
      · simp
      · by_cases hσ : (σ == some true) = true <;> simp [hσ]
    · intro σ
      rw [r3 σ, hlen]
      cases hasNl w
      · simp
      · by_cases hσ : (σ == some true) = true <;> simp [hσ]

theorem link_char (T : PTables) (st : PState) (src : Str) (pos : Nat) (c : Char) (cs : Str)
    (hsp : isSpace c = false) (hst : structuralChar c = false)
    (hact : (activeChars T st).contains [c] = false ∨
      (cs.isEmpty = true ∨ (shortKeys T st).contains (c :: nextTokTxt T.toTables cs) = false))
    (hl : longestKey T.toTables (c :: cs) = none)
    (hms : matchSpecial T.toTables (c :: cs) = none)
    (hcls : specTextA T st 0 cs = true) :
    StepLink T st pos (c :: cs) (nextToken T.toTables src pos (c :: cs)) := by
  have hst' := hst
  simp only [structuralChar, Bool.or_eq_false_iff, beq_eq_false_iff_ne] at hst'
  obtain ⟨⟨⟨⟨⟨h1, h2⟩, h3⟩, _⟩, _⟩, _⟩ := hst'
  have hnt : nextToken T.toTables src pos (c :: cs)
      = { tok := { kind := .text, pos := pos, txt := [c] }, len := 1 } := by
    simp [nextToken, hsp, h1, h2, h3, hms]
  rw [hnt]
  have hpl : PlainTok ({ kind := .text, pos := pos, txt := [c] } : Tok) :=
    plainTok_of_head _ c [] rfl (Or.inl rfl) hst
  have hnn : hasNl [c] = false := by
    have : c ≠ nl := by intro e; rw [e] at hsp; exact absurd hsp (by decide)
    simpa [hasNl] using fun e : nl = c => this e.symm
  have hnb : isBlank [c] = false := by simp [isBlank, hsp]
  refine ⟨rfl, rfl, Nat.le_refl _, by simp, by simp, by simpa using hcls, Or.inl hpl, ?_, ?_, ?_, ?_⟩
  · simp [nextTokTxt, hsp, hl]
  · intro _ nxt hn1 hn2
    rcases hact with hact | hact
    · exact Or.inl hact
    · right
      cases nxt with
      | nil => rfl
      | cons t2 ts =>
        apply expandShortMacro_none
        rw [hn1 t2 ts rfl]
        rcases hact with he | hk
        · have : cs = [] := by simpa using he
          have := hn2 (by simp [this])
          cases this
        · simpa using hk
  · have := refSpecial_char T.toTables c cs pos hl
    simp only [refSpecial] at this
    rw [this, expTok_plain _ _ hpl]
    simp [getTxtPos, tokPositions]
  · refine ⟨fun _ => some none, ?_, ?_⟩
    · intro σ tail ht
      rw [expTok_plain _ _ hpl]
      have := lineRun_txt { kind := .text, pos := pos, txt := [c] } rfl hnn σ tail ht
      simpa [keepIn, hnb] using this
    · intro σ
      have : (c == nl) = false := by
        cases hb : c == nl with
        | false => rfl
        | true => rw [beq_iff_eq] at hb; rw [hb] at hsp; exact absurd hsp (by decide)
      simp [lineStateA, hl, this, hsp]

/-- one scanner step on a text of the class -/
theorem nextToken_link (T : PTables) (st : PState) (src : Str) (pos : Nat) (c : Char) (cs : Str)
    (hm : ∀ s, longestKey T.toTables s = matchSpecial T.toTables s)
    (hnl : ∀ e ∈ T.special, hasNl e.2 = false)
    (h : specTextA T st 0 (c :: cs) = true) :
    StepLink T st pos (c :: cs) (nextToken T.toTables src pos (c :: cs)) := by
  have h0 := h
  simp only [specTextA] at h
  cases hl : longestKey T.toTables (c :: cs) with
  | some k =>
    simp only [hl, Bool.and_eq_true] at h
    exact link_key T st src pos c cs k hnl hl (by rw [← hm, hl]) h.1 h.2
  | none =>
    simp only [hl, Bool.and_eq_true, copyAt, Bool.or_eq_true, Bool.not_eq_true'] at h
    obtain ⟨⟨ha, hb⟩, hc⟩ := h
    cases hsp : isSpace c with
    | true =>
      refine link_ws T st src pos c cs hsp ?_ h0
      rcases hb with hb | hb
      · exact hb
      · rw [hsp] at hb; simp at hb
    | false =>
      refine link_char T st src pos c cs hsp ?_ ?_ hl (by rw [← hm, hl]) hc
      · simpa [hsp] using ha
      · rcases hb with hb | hb
        · exact Or.inl hb
        · exact Or.inr hb.2

/-! ### the scanner loop on a text of the class -/

/-- the tokens `expandSequence` emits for the scanner tokens of the steps -/
def outToks (T : Tables) (steps : List ScanStep) : List Tok :=
  (steps.map (·.tok)).flatMap (expTok T)

structure ScanFacts (T : PTables) (st : PState) (pos : Nat) (rest : Str) (steps : List ScanStep) :
    Prop where
  ok : ∀ s ∈ steps, s.diag = none ∧ s.extra = [] ∧ s.tok.txt ≠ []
  seq : PSSeq T st (steps.map (·.tok))
  first : ∀ s ss, steps = s :: ss → s.tok.txt = nextTokTxt T.toTables rest
  nil : rest = [] → steps = []
  txt : getTxtPos (outToks T.toTables steps) = refSpecialA T.toTables 0 rest pos
  len : steps.length ≤ rest.length
  lines : ∀ σ tail, tail ≠ [] →
    lineRun σ (((outToks T.toTables steps).filter keepIn).map evalTok ++ tail) =
      match lineStateA T.toTables 0 σ rest with
      | none => false
      | some σ' => lineRun σ' tail

theorem ScanFacts_nil (T : PTables) (st : PState) (pos : Nat) : ScanFacts T st pos [] [] where
  ok := by simp
  seq := trivial
  first := by simp
  nil := fun _ => rfl
  txt := rfl
  len := Nat.le_refl _
  lines := by intro σ tail _; simp [outToks, lineStateA]

theorem scanSteps_special (T : PTables) (st : PState) (src : Str)
    (hm : ∀ s, longestKey T.toTables s = matchSpecial T.toTables s)
    (hnl : ∀ e ∈ T.special, hasNl e.2 = false) :
    ∀ (fuel pos : Nat) (rest : Str), rest.length ≤ fuel → specTextA T st 0 rest = true →
    (scanSteps T.toTables src fuel pos rest).2 = true ∧
    ScanFacts T st pos rest (scanSteps T.toTables src fuel pos rest).1 := by
  intro fuel
  induction fuel with
  | zero =>
    intro pos rest hf _
    cases rest with
    | nil => exact ⟨rfl, ScanFacts_nil T st pos⟩
    | cons c cs => simp at hf
  | succ fuel ih =>
    intro pos rest hf hin
    cases rest with
    | nil => exact ⟨rfl, ScanFacts_nil T st pos⟩
    | cons c cs =>
      have L := nextToken_link T st src pos c cs hm hnl hin
      generalize hs : nextToken T.toTables src pos (c :: cs) = s at L
      have h1 := L.len_pos
      have h2 := L.len_le
      simp only [scanSteps, hs]
      rw [if_neg (by simp; omega)]
      have hl : ((c :: cs).drop s.len).length ≤ fuel := by
        simp only [List.length_drop]; simp only [List.length_cons] at hf h2 ⊢; omega
      obtain ⟨i1, I⟩ := ih (pos + s.len) ((c :: cs).drop s.len) hl L.cls
      generalize (scanSteps T.toTables src fuel (pos + s.len) ((c :: cs).drop s.len)).1 = ss at I
      refine ⟨i1, ?_, ?_, ?_, ?_, ?_, ?_, ?_⟩
      · intro x hx
        rcases List.mem_cons.mp hx with rfl | hx
        · exact ⟨L.diag, L.extra, L.ne⟩
        · exact I.ok x hx
      · refine ⟨?_, I.seq⟩
        rcases L.tokc with hp | hp
        · left
          refine ⟨hp, L.pass hp _ ?_ ?_⟩
          · intro t2 ts he
            cases ss with
            | nil => simp at he
            | cons s2 ss' =>
              simp only [List.map_cons, List.cons.injEq] at he
              rw [← he.1]
              exact I.first s2 ss' rfl
          · intro he
            rw [I.nil he]; rfl
        · exact Or.inr hp
      · intro s' ss' he
        simp only [List.cons.injEq] at he
        rw [← he.1]; exact L.first
      · intro he; cases he
      · simp only [outToks, List.map_cons, List.flatMap_cons]
        rw [getTxtPos_append, L.txt]
        have := I.txt
        simp only [outToks] at this
        rw [this]
      · have := I.len
        simp only [List.length_cons, List.length_drop] at this ⊢
        omega
      · intro σ tail ht
        obtain ⟨δ, d1, d2⟩ := L.lines
        simp only [outToks, List.map_cons, List.flatMap_cons, List.filter_append, List.map_append,
          List.append_assoc]
        have hne : ((outToks T.toTables ss).filter keepIn).map evalTok ++ tail ≠ [] := by
          simp [ht]
        have := d1 σ _ hne
        simp only [outToks] at this
        rw [this, d2 σ]
        cases δ σ with
        | none => rfl
        | some σ' =>
          have := I.lines σ' tail ht
          simp only [outToks] at this
          exact this

/-- the tokens of the result: the scanner tokens, each SpecialToken replaced by a text token with
    the table value (empty values dropped) -/
def specialOut (T : Tables) (src : Str) : List Tok :=
  ((scan T src).toks.flatMap (expTok T)).filter keepOut

theorem getTxtPos_filter_keepOut (l : List Tok) : getTxtPos (l.filter keepOut) = getTxtPos l := by
  induction l with
  | nil => rfl
  | cons t l ih =>
    cases hk : keepOut t with
    | true => simp only [List.filter_cons, hk, if_true, getTxtPos, ih]
    | false =>
      have := keepOut_txt t hk
      simp only [List.filter_cons, hk, Bool.false_eq_true, if_false, getTxtPos, ih, this,
        tokPositions, List.length_nil, List.replicate_zero, List.range_zero, List.map_nil, ite_self,
        List.nil_append]

/-- `scan` on a text of the class: complete, no diagnostics, one token per white-space run,
    matched key or other character; the buffer passes `expandSequence`; what the loop emits
    spells the reference output; the line automaton of the work list follows the one of the
    source -/
theorem scan_special (T : PTables) (st : PState) (src : Str) (hwf : T.toTables.WFScan)
    (hnl : ∀ e ∈ T.special, hasNl e.2 = false) (h : specText T st src = true) :
    (scan T.toTables src).complete = true ∧ (scan T.toTables src).diags = [] ∧
    PSSeq T st (scan T.toTables src).toks ∧
    getTxtPos ((scan T.toTables src).toks.flatMap (expTok T.toTables)) = refSpecial T.toTables src 0 ∧
    (scan T.toTables src).toks.length ≤ src.length ∧
    (∀ σ tail, tail ≠ [] →
      lineRun σ ((((scan T.toTables src).toks.flatMap (expTok T.toTables)).filter keepIn).map evalTok
          ++ tail) =
        match lineStateA T.toTables 0 σ src with
        | none => false
        | some σ' => lineRun σ' tail) := by
  obtain ⟨a, F⟩ := scanSteps_special T st src (longestKey_eq_matchSpecial _ hwf) hnl src.length 0 src
    (Nat.le_refl _) h
  have he := flatten_tok_extra (scanSteps T.toTables src src.length 0 src).1 (fun s hs => (F.ok s hs).2.1)
  have hd := flatten_diag_nil (scanSteps T.toTables src src.length 0 src).1 (fun s hs => (F.ok s hs).1)
  simp only [scan]
  rw [he, hd]
  refine ⟨a, rfl, F.seq, F.txt, ?_, F.lines⟩
  simpa using F.len

theorem lineRun_linesInit (ts : List Tok)
    (h : ∀ p, lineRun (some false) ((ts.filter keepIn).map evalTok ++ [lastItem p]) = true) :
    lineRun none (linesInit ts) = true := by
  obtain ⟨p, e⟩ := linesInit_eq ts
  rw [e]
  have : ∀ X, lineRun none (firstItem :: X) = lineRun (some false) X := by
    intro X
    simp [lineRun, firstItem, evalTok, sentinel, isAction]
  rw [this]
  exact h p

theorem lineRun_lastItem (σ : Option Bool) (p : Nat) :
    lineRun σ [lastItem p] = (σ != some true) := by
  have h1 : (lastItem p).cs = false := rfl
  have h2 : (lastItem p).ce = true := rfl
  have h3 : isAction (lastItem p).tok = false := rfl
  cases σ with
  | none => simp [lineRun, h1, h2]
  | some a => cases a <;> simp [lineRun, h1, h2]

/-- the expander loop on the scanner tokens of a text of the class with `linesOK` -/
theorem seq_special_id (T : PTables) (st st0 : PState) (src : Str) (hwf : T.toTables.WFScan)
    (hnl : ∀ e ∈ T.special, hasNl e.2 = false) (hl : st.langStack = st0.langStack)
    (h : specText T st0 src = true) (hlines : linesOK T.toTables src = true)
    (envStop : Option Str) (fuel : Nat) (hf : src.length + 1 ≤ fuel) :
    expandSequence T fuel (scan T.toTables src).toks envStop [] st
      = .ok ((specialOut T.toTables src, []), st) := by
  obtain ⟨_, _, hseq, _, hlen, hlin⟩ := scan_special T st0 src hwf hnl h
  rw [seq_spec T st envStop _ fuel [] (by omega) (PSSeq.congr hl hseq), List.nil_append]
  rw [removeLines_safe_id]
  · rfl
  · apply lineRun_linesInit
    intro p
    rw [hlin (some false) [lastItem p] (by simp)]
    unfold linesOK at hlines
    cases hs : lineStateA T.toTables 0 (some false) src with
    | none => rw [hs] at hlines; cases hlines
    | some σ' =>
      rw [hs] at hlines
      simp only [] at hlines ⊢
      rw [lineRun_lastItem]
      exact hlines

/-! ### `parserWork`, `parse`, `tex2txt` -/

/-- **C06 (special sequences) on `parserWork`.**  On a text of the class `parserWork` returns
    the scanner tokens with every SpecialToken replaced by its table value, and the *unchanged*
    state (nothing is added to `diags`, `unknowns`, …).  Fuel: one unit for `parserWork`, one per
    token (at most one per character) and one for the final call of the loop. -/
theorem parserWork_special (T : PTables) (st : PState) (src : Str) (fuel : Nat)
    (hwf : T.toTables.WFScan) (hnl : ∀ e ∈ T.special, hasNl e.2 = false)
    (hf : src.length + 2 ≤ fuel) (h : specText T st src = true)
    (hlines : linesOK T.toTables src = true) :
    parserWork T fuel src st = .ok (specialOut T.toTables src, st) := by
  obtain ⟨f, rfl⟩ : ∃ f, fuel = f + 1 := ⟨fuel - 1, by omega⟩
  obtain ⟨_, hd, hseq, _, _, _⟩ := scan_special T st src hwf hnl h
  rw [parserWork.eq_2]
  refine (M.bind_ok _ _ _ _ _ (rfl : M.get st = _)).trans ?_
  refine (M.bind_ok _ _ _ _ _ (rfl : M.modify _ _ = _)).trans ?_
  refine (M.bind_ok _ _ _ _ _ (rfl : M.modify _ _ = _)).trans ?_
  refine (M.bind_ok _ _ _ _ _ (rfl : M.get _ = _)).trans ?_
  simp only [hd, List.append_nil]
  rw [skipPass_nocomment _ _ _ (fun t ht' => hseq.notComment t ht')]
  simp only []
  refine (M.bind_ok _ _ _ _ _ (rfl : (pure _ : M (List Tok)) _ = _)).trans ?_
  have hs := seq_special_id T { st with latex := src, nest := st.nest + 1 } st src hwf hnl rfl h
    hlines none f (by omega)
  refine (M.bind_ok _ _ _ _ _ hs).trans ?_
  refine (M.bind_ok _ _ _ _ _ (rfl : M.modify _ _ = _)).trans ?_
  show Outcome.ok _ = _
  simp only [Nat.add_sub_cancel]

/-- text and positions of the result tokens are the reference output -/
theorem specialOut_txtpos (T : PTables) (st : PState) (src : Str) (hwf : T.toTables.WFScan)
    (hnl : ∀ e ∈ T.special, hasNl e.2 = false) (h : specText T st src = true) :
    getTxtPos (specialOut T.toTables src) = refSpecial T.toTables src 0 := by
  unfold specialOut
  rw [getTxtPos_filter_keepOut]
  exact (scan_special T st src hwf hnl h).2.2.2.1

theorem specTextA_congr (T : PTables) (st st' : PState) (h : st'.langStack = st.langStack) :
    ∀ (s : Str) (n : Nat), specTextA T st' n s = specTextA T st n s := by
  intro s
  induction s with
  | nil => intro n; rw [specTextA_nil, specTextA_nil]
  | cons c cs ih =>
    intro n
    cases n with
    | succ n => simp only [specTextA, ih]
    | zero =>
      simp only [specTextA, copyAt, activeChars_congr T st st' h, shortKeys_congr T st st' h, ih]

theorem parse_special (T : PTables) (st : PState) (src : Str) (fuel : Nat)
    (hwf : T.toTables.WFScan) (hnl : ∀ e ∈ T.special, hasNl e.2 = false)
    (hf : src.length + 2 ≤ fuel) (h : specText T st src = true)
    (hlines : linesOK T.toTables src = true) :
    parse T fuel src [] [] st
      = .ok (specialOut T.toTables src,
             { st with extracted := [], unknowns := [], foreign := false, nest := 0 }) := by
  unfold parse
  simp only [List.isEmpty_nil, Bool.not_true, Bool.false_eq_true, if_false, if_true]
  refine (M.bind_ok _ _ _ _ _ (rfl : M.modify _ _ = _)).trans ?_
  refine (M.bind_ok _ _ _ _ _ (rfl : (pure _ : M (List Tok)) _ = _)).trans ?_
  refine (M.bind_ok _ _ _ _ _ (rfl : M.modify _ _ = _)).trans ?_
  have hw := parserWork_special T
    { st with extracted := [], unknowns := [], foreign := false, nest := 0 } src fuel hwf hnl hf
    ((specTextA_congr T st
      { st with extracted := [], unknowns := [], foreign := false, nest := 0 } rfl src 0).trans h)
    hlines
  refine (M.bind_ok _ _ _ _ _ hw).trans ?_
  refine (M.bind_ok _ _ _ _ _ (rfl : M.get _ = _)).trans ?_
  show Outcome.ok _ = _
  simp

/-- **C06 (special sequences) on `tex2txt`, complete result record.**  `st1` is the state after
    `Parser.__init__`; no `--defs`, `--extr`, `--repl`, `--unkn`; single-language mode. -/
theorem tex2txt_special_text (T : PTables) (o : Options) (fs : FS) (thresh : Nat) (src : Str)
    (fuel : Nat) (st1 : PState)
    (hwf : T.toTables.WFScan) (hnl : ∀ e ∈ T.special, hasNl e.2 = false)
    (hdefs : o.defs = []) (hextr : o.extr = []) (hrepl : o.hasRepl = false)
    (hunkn : o.unkn = false)
    (hinit : initParser T fuel o (initialState T o false fs) = .ok ((), st1))
    (h : specText T st1 src = true) (hlines : linesOK T.toTables src = true)
    (hf : src.length + 2 ≤ fuel) :
    tex2txt T fuel src o false thresh fs
      = .ok { toks := specialOut T.toTables src, txt := (refSpecial T.toTables src 0).1,
              pos := (refSpecial T.toTables src 0).2.map (· + 1), parts := [], unknowns := [],
              diags := st1.diags, foreign := false } := by
  have hrun : (initParser T fuel o >>= fun _ => parse T fuel src o.defs
        (if o.extr.isEmpty then [] else (splitOn ',' o.extr []).map (fun s => '\\' :: s)))
        (initialState T o false fs)
      = .ok (specialOut T.toTables src,
             { st1 with extracted := [], unknowns := [], foreign := false, nest := 0 }) := by
    refine (M.bind_ok _ _ _ _ _ hinit).trans ?_
    rw [hdefs, hextr]
    exact parse_special T st1 src fuel hwf hnl hf h hlines
  unfold tex2txt
  simp only []
  rw [hrun]
  simp only [hrepl, hunkn, Bool.not_false, if_true, Bool.false_eq_true, if_false,
    specialOut_txtpos T st1 src hwf hnl h]

/-- **C06, second half, on `tex2txt`.**  For a text of inert characters and special sequences
    the output is the reference output: at every offset the longest matching key of
    `special_tokens` is replaced by its value, mapped to the position where the sequence starts;
    everything else is copied with its own position (1-based, as `tex2txt` reports positions);
    nothing is reported as unknown and no diagnostic is added. -/
theorem tex2txt_special (T : PTables) (o : Options) (fs : FS) (thresh : Nat) (src : Str)
    (fuel : Nat) (st1 : PState)
    (hwf : T.toTables.WFScan) (hnl : ∀ e ∈ T.special, hasNl e.2 = false)
    (hdefs : o.defs = []) (hextr : o.extr = []) (hrepl : o.hasRepl = false)
    (hunkn : o.unkn = false)
    (hinit : initParser T fuel o (initialState T o false fs) = .ok ((), st1))
    (h : specText T st1 src = true) (hlines : linesOK T.toTables src = true)
    (hf : src.length + 2 ≤ fuel) :
    ∃ r, tex2txt T fuel src o false thresh fs = .ok r ∧
      r.txt = (refSpecial T.toTables src 0).1 ∧
      r.pos = (refSpecial T.toTables src 0).2.map (· + 1) ∧
      r.unknowns = [] ∧ r.diags = st1.diags :=
  ⟨_, tex2txt_special_text T o fs thresh src fuel st1 hwf hnl hdefs hextr hrepl hunkn hinit h hlines hf,
    rfl, rfl, rfl, rfl⟩

/-! ### the hypotheses can be met

  Small concrete tables (`PlainExample.tinyT` with `\%` and `\,` added and the real values of `~`, `--`, `---`); the real tables are used
  in the recorded `#eval`s below only, so that this file does not depend on the generated file. -/

namespace SpecialExample
open PlainExample

def tinyS : PTables :=
  { tinyT with
    special := [("---".toList, "—".toList), ("--".toList, "–".toList),
                ("\\\\".toList, " ".toList), ("~".toList, "\u00a0".toList), ("{".toList, []),
                ("}".toList, []), ("$".toList, []), ("&".toList, " ".toList), ("_".toList, []),
                ("^".toList, []), ("\\%".toList, "%".toList), ("\\,".toList, "\u202f".toList)]
    specialSorted := ["---".toList, "--".toList, "\\\\".toList, "\\%".toList, "\\,".toList,
                      "~".toList, "{".toList, "}".toList, "$".toList, "&".toList, "_".toList,
                      "^".toList] }

def stS : PState := initialState tinyS oEn false []
def text3 : Str := "A -- B~C, 100\\% sure.".toList
def text4 : Str := "x\n ~ \ny".toList

theorem tinyS_wf : tinyS.toTables.WFScan where
  special_nonempty := by decide
  sorted := by decide
  keys := by
    have h1 : ∀ k ∈ tinyS.toTables.specialSorted, k ∈ tinyS.toTables.special.map (·.1) := by decide
    have h2 : ∀ k ∈ tinyS.toTables.special.map (·.1), k ∈ tinyS.toTables.specialSorted := by decide
    exact fun k => ⟨h1 k, h2 k⟩
  mark_nonempty := by decide

theorem tinyS_noNl : ∀ e ∈ tinyS.special, hasNl e.2 = false := by decide

theorem initParser_tinyS : initParser tinyS 30 oEn (initialState tinyS oEn false []) = .ok ((), stS) := by
  with_unfolding_all rfl

/-- the text is in the class, no line is a pure Action line … -/
theorem text3_spec : specText tinyS stS text3 = true := by decide
theorem text3_lines : linesOK tinyS.toTables text3 = true := by decide

/-- … the reference output: `--` ↦ en dash at the position of the first `-`, `~` ↦ no-break
    space, `\%` ↦ `%` at the position of the backslash, everything else copied … -/
theorem text3_ref : refSpecial tinyS.toTables text3 0
    = ("A – B C, 100% sure.".toList,
       [0, 1, 2, 4, 5, 6, 7, 8, 9, 10, 11, 12, 13, 15, 16, 17, 18, 19, 20]) := by decide

/-- … and the end-to-end statement applies (21 characters, fuel 30). -/
example : ∃ r, tex2txt tinyS 30 text3 oEn false 0 [] = .ok r ∧
    r.txt = "A – B C, 100% sure.".toList ∧
    r.pos = [1, 2, 3, 5, 6, 7, 8, 9, 10, 11, 12, 13, 14, 16, 17, 18, 19, 20, 21] ∧
    r.unknowns = [] ∧ r.diags = [] := by
  obtain ⟨r, h1, h2, h3, h4, h5⟩ := tex2txt_special tinyS oEn [] 0 text3 30 stS tinyS_wf tinyS_noNl
    rfl rfl rfl rfl initParser_tinyS text3_spec text3_lines (by decide)
  refine ⟨r, h1, ?_, ?_, h4, h5⟩
  · rw [h2, text3_ref]
  · rw [h3, text3_ref]; rfl

/-- the keys of the class; the dispatched ones are excluded -/
example : (tinyS.special.map (·.1)).filter (plainSpecialKey tinyS.toTables)
    = ["---", "--", "~", "&", "_", "^", "\\%", "\\,"].map String.toList := by decide

/-- `linesOK` is needed: the line ` ~ ` consists of white space and an Action token, it is deleted
    by the model (and by Python), the reference keeps it -/
example : specText tinyS stS text4 = true ∧ linesOK tinyS.toTables text4 = false := by decide
example : (refSpecial tinyS.toTables text4 0).1 = "x\n   \ny".toList := by decide

/-- the class admits an active character of the language settings (`"` for 'de') in front of a
    special sequence as long as both together are no short macro; it rejects `"a` (a short
    macro), the dispatched keys, macros and comments -/
example : specText tinyS (initialState tinyS oDe false []) "sag \"--\" nie".toList = true := by decide
example : specText tinyS (initialState tinyS oDe false []) "\"a".toList = false := by decide
example : specText tinyS stS "a{b}".toList = false := by decide
example : specText tinyS stS "a\\\\b".toList = false := by decide
example : specText tinyS stS "a\\foo".toList = false := by decide
example : specText tinyS stS "50% x".toList = false := by decide

/-
  With the real tables (`import YalafiVerif.Generated.Tables`, `T := Generated.theTables`,
  `o := { lang := "en".toList }`, `st1` = the state after `initParser T 1000 o`), `#eval` gives:

  * keys with `plainSpecialKey T.toTables k = true` (24 of 32):
      & _ ^ \) \] ~ `` '' -- --- "\ " "\<tab>" "\<newline>" \, \: \; \! \{ \} \$ \# \& \_ \%
    not in the class: { } $$ $ # \( \[ \\   (`#` is scanned by `scan_arg_token`, the others are
    dispatched on by `expandSequence` before the `.special` branch).
  * `T.toTables.special.all (fun e => !hasNl e.2) = true` (hypothesis `hnl`);
    `Generated.wfScan : theTables.toTables.WFScan` (hypothesis `hwf`).
  * "A -- B~C, 100\% sure." : in the class, `linesOK`; `tex2txt T 1000 … o false 3 []` returns
      "A – B C, 100% sure." (en dash, no-break space) with the positions
      [1,2,3,5,6,7,8,9,10,11,12,13,14,16,17,18,19,20,21] = `refSpecial`, no unknowns, no diagnostics.
  * "``quoted'' --- a\,b \& c \$ d \# e \_ f \{ g \}" : in the class, `linesOK`, output = reference
      “quoted” — a b & c $ d # e _ f { g }  (narrow no-break space for `\,`).
  * "a\!b \<newline>c" ↦ "ab  c", positions [1,4,5,6,8] (`\!` has the empty value; the key
    `\<newline>` contains a line break, its value is a blank) : output = reference.
  * `linesOK` is sharp on the examples tried: "x\n ~ \ny" ↦ "x\ny" (positions [1,2,7]),
    "x\n \! \ny" ↦ "x\ny", "~" ↦ "", "\n~\n" ↦ "\n" — in the class, not `linesOK`, and the
    output differs from the reference; "x\n -- \ny" ↦ "x\n – \ny" and "a~\n~b" ↦ "a \n b" are
    `linesOK` and agree with the reference.
  * 'de': "Er sagte \"--\" und \" a" is in the class (output: en dash between the quotes);
    "Er sagte \"--\" und \"a" is not (`"a` is a short macro, it yields `ä`).
-/

end SpecialExample

end Yalafi
