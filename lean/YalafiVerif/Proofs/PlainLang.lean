/-
  Proofs/PlainLang.lean — C12 "multi-language mode assigns every word to exactly one part of the
  right language", END TO END on the model with `multi = true`: documents that consist of inert
  text (cf. Proofs/Plain.lean, Proofs/PlainFootnote.lean) and hard language switches
  `\selectlanguage{name}` of package babel.

  Model facts used (`packages/babel.py`: `Macro(parms, '\\selectlanguage', args='A',
  repl=h_selectlanguage)`, `selectlang_break = True`; `parser.py: expand_sequence`;
  `utils.py: get_txt_pos_ml`).
  * The scanner yields the macro token, `{`, the tokens of the name, `}`.  `expandMacro` collects
    the argument, the handler expands it to text (`get_text_expanded`), strips it, looks it up in
    `language_map` (an unknown name counts as `english`) and returns ONE language token
    `LanguageToken(pos, lang=code, hard=True, brk=True)`; `expand_arguments` puts an Action token
    in front.  Both are pushed back.  The loop copies the Action token and — in multi-language
    mode — copies the language token and calls `change_parser_lang(code, hard=True)`: the top of
    the parser's language stack is replaced, so the text behind the switch is read with the
    settings (active characters, short macros) of the selected language.
  * At the end `remove_pure_action_lines` runs.  The Action token of a switch makes the line of the
    switch a "pure action line" if the line holds nothing but white space and switches: such a
    line is DELETED with its line break (a switch on a line of its own disappears with its line);
    the language tokens of the line are kept.  Proofs/LinesLang.lean gives the exact reference
    `delLines` for this pass on token lists with language tokens.
  * `get_txt_pos_ml` cuts the token list at every language token that changes the language in
    force (`sections`; selecting the code already in force — `german` after `ngerman`, or
    `english` when `--lang en-GB` — does NOT cut), never joins a short section to its neighbours
    because `\selectlanguage` forces a break (`joinLoop`; `thresh` is irrelevant), and groups the
    sections by language code (`groupParts`).

  `selDeclOk`, `setLang`                  the declaration; the parser state behind a switch
  (1) `callHandler_select`                the handler step
  (2) `collectArgs_select`, `expandArguments_select`, `expandMacro_select`
  (3) `seq_lang_multi`, `seq_sel_step`, `Piece`, `PiecesOk`, `finalSt`, `outMain`, `cost`, `seq_sels`
                                          the loop; the parser state changes at every switch
  (4) `cutRuns`, `sections_items`, `joinLoop_id`, `groupSecs`, `getTxtPosML_hard`
                                          `get_txt_pos_ml` on hard, breaking switches, in terms of the
                                          items (characters with positions, language tokens)
  `Seg`, `render`, `selOk`, `segsOk`, `segMarks`, `scanSteps_segs`, `scan_segs`, `removeLines_outMain`,
  `parserWork_sel`, `parse_sel`, `refItems`, `refSecs`, `refParts`, `tex2txt_sel_record`,
  `tex2txt_selectlanguage`                the documents, the reference, end to end
  (Proofs/PlainLangCor.lean: no position twice, every visible character in a part, the key of a
  part is the code of the last switch; Properties/PlainLangStmt.lean: the statements and the
  instance on the real tables.)

  The end-to-end statement.  `tex2txt … multi := true` succeeds and `r.parts = refParts T o.lang segs`:
    `segMarks`    every text character with its (0-based) source position; a switch contributes
                  an Action mark and its language token (code of the name, position of the backslash);
    `delLines`    every line (up to and including its line break) that is blank and holds an Action
                  mark is deleted, its language tokens are kept; nothing else changes
                  (`LinesLang.delLines_sublist`, `delLines_vis`: only white space is deleted);
    `cutRuns`     the items are cut at every language token whose code differs from the code in
                  force (initially `o.lang`, verbatim — not normalised); the characters between two
                  cuts form one section; a run WITHOUT characters yields no section, a run of white
                  space does;
    `groupSecs`   the sections are grouped by code: codes in the order of their first section, the
                  sections of one code in document order, as separate pieces (not merged);
    `shiftParts`  positions are reported 1-based.
  `r.unknowns = []`, `r.diags = st1.diags`, `r.txt = r.pos = []` (multi-language mode).

  Side conditions (reasons)
    options       no `--defs`, `--extr`, `--repl` (`--unkn` is not consulted in multi-language mode)
    `hbrk : T.selectBrk = true`   `selectlang_break`; otherwise a short section in another language
                  would be replaced by a placeholder and joined (`ml_append_placeholder`) — not covered
    `hinit`, `hml`   `st1` = state after `Parser.__init__` with `multi = true`; its multi-language flag
                  is set (`initialState` sets it and nothing in the model clears it; stated as a
                  hypothesis to avoid an invariant proof over `initParser`; decidable)
    `segsOk T st1 segs`   (computable; the state is threaded: behind a switch `setLang … code`)
      text segments: `PlainFootnote.textOk` for the language IN FORCE: no "active character" of its
        settings (after `\selectlanguage{german}` the character `"` is excluded), white space or none
        of `% # \ $ { }` with no special sequence matching there; what follows a text segment does
        not start with white space (merge the segments — no loss of generality; a switch starts
        with `\`);
      `selOk`: no special sequence matches at the backslash, `\selectlanguage` is no accent macro
        (tables); `\selectlanguage` is declared in the state with argument code `A`, the handler
        `h_selectlanguage`, no extraction text (i.e. babel is loaded); both braces are scanned as
        brace tokens; the name is not empty and inert in front of `}` (blanks and even line breaks
        around / inside the name are allowed: the handler strips the text); `translate_lang` finds a
        code (always, if `english` is a key of the map); the empty string is no active character of
        the language in force (else the Action token would be sent to `expand_short_macro`).
      NO layout restriction around the switch is needed: `delLines` describes what happens to its
      line in every case.
    fuel   `(render segs).length + 2 ≤ fuel`: one unit for `parserWork`, at most one per source
        character, the final iteration (a switch costs three iterations and the handler needs
        `|name tokens| + 5` units below the first of them; the switch has `|name| + 17` characters).
  Not covered: `\foreignlanguage`, the `otherlanguage` environments, language options of
  `\usepackage[…]{babel}` (inject token), switches inside macro arguments / environments, names
  built by macros, `selectlang_break = False`, `--repl`, `--defs`, text with macros / maths / comments.
-/
import YalafiVerif.Proofs.Plain
import YalafiVerif.Proofs.PlainFootnote
import YalafiVerif.Proofs.PlainHeading
import YalafiVerif.Proofs.LinesLang
namespace Yalafi
namespace PlainLang

open M
open PlainFootnote (CopyTok BraceTok argBuffer_braced skipSpace_brace skippedLangs_brace)

/-! ### the declaration of `\selectlanguage` -/

/-- the declaration `Macro(parms, '\\selectlanguage', args='A', repl=h_selectlanguage)` of
    `packages/babel.py` as far as the expander looks at it -/
def selDeclOk (m : MacroDef) : Bool :=
  m.args == ['A'] && m.handler == Handler.selectlanguage && m.extract.isEmpty

structure DeclFacts (m : MacroDef) : Prop where
  args : m.args = ['A']
  handler : m.handler = .selectlanguage
  extract : m.extract = []

theorem declFacts {m : MacroDef} (h : selDeclOk m = true) : DeclFacts m := by
  simp only [selDeclOk, Bool.and_eq_true, beq_iff_eq, List.isEmpty_iff] at h
  exact ⟨h.1.1, h.1.2, h.2⟩

/-- `Parameters.change_parser_lang(lang, hard=True)`: the top of the language stack is replaced -/
def setLang (T : PTables) (st : PState) (code : Str) : PState := changeParserLang T st code false true

theorem setLang_eq (T : PTables) (st : PState) (code : Str) :
    setLang T st code = { st with langStack := (checkLang T code, code) :: st.langStack.tail } := by
  simp [setLang, changeParserLang]

@[simp] theorem setLang_macros (T : PTables) (st : PState) (code : Str) :
    (setLang T st code).macros = st.macros := by rw [setLang_eq]

@[simp] theorem setLang_multi (T : PTables) (st : PState) (code : Str) :
    (setLang T st code).multiLanguage = st.multiLanguage := by rw [setLang_eq]

@[simp] theorem setLang_langStack (T : PTables) (st : PState) (code : Str) :
    (setLang T st code).langStack = (checkLang T code, code) :: st.langStack.tail := by rw [setLang_eq]

/-! ### (1) the handler -/

/-- the language token `h_selectlanguage` returns: a hard switch to `code` at position `p` -/
def selTok (T : PTables) (p : Nat) (code : Str) : Tok := mkLang p code false true T.selectBrk

/-- **(1) the handler step.**  `h_selectlanguage` expands its argument to text, strips it, looks it
    up in the language map and returns one language token; the state is unchanged. -/
theorem callHandler_select (T : PTables) (fuel : Nat) (buf : Buf) (mac : MacroDef)
    (body : List Tok) (pos : Nat) (st : PState) (code : Str)
    (hb : ∀ t ∈ body, CopyTok T st t)
    (hc : translateLang T (strip (getTxtPos body).1) = some code) (hf : body.length + 3 ≤ fuel) :
    callHandler T fuel .selectlanguage buf mac [body] pos st = .ok ([selTok T pos code], st) := by
  obtain ⟨f, rfl⟩ : ∃ f, fuel = f + 1 := ⟨fuel - 1, by omega⟩
  rw [callHandler.eq_14]
  simp only [List.getElem?_cons_zero]
  refine (M.bind_ok _ _ _ _ _ (rfl : (pure body : M (List Tok)) st = _)).trans ?_
  refine (M.bind_ok _ _ _ _ _ (PlainHeading.getTextExpanded_copy T st body f hb (by omega))).trans ?_
  simp only [hc]
  rfl

/-! ### (2) `collectArgs`, `expandArguments`, `expandMacro` -/

/-- `A` on `{body}`: the tokens between the braces -/
theorem collectArgs_select (T : PTables) (mac : MacroDef) (lb rb : Tok) (body : List Tok)
    (rest : Buf) (start : Nat) (st : PState) (hlb : BraceTok '{' lb) (hrb : BraceTok '}' rb)
    (hb : ∀ t ∈ body, PlainTok t) (hne : body ≠ []) :
    collectArgs T mac ['A'] 0 (lb :: (body ++ rb :: rest)) start {} st
      = .ok (({ args := [body], extr := [body], langs := [] }, rest), st) := by
  have h2 : txtIsNV lb "}" = false := by simp [txtIsNV, hlb.txt]
  simp only [collectArgs, skipSpace_brace lb _ hlb, skippedLangs_brace lb _ hlb, List.head?_cons,
    h2, show ('A' == '*') = false by decide, show ('A' == 'O') = false by decide,
    show ('A' == 'A') = true by decide, Bool.false_eq_true, if_false, if_true, List.append_nil,
    List.nil_append]
  refine (M.bind_ok _ _ _ _ _ (argBuffer_braced T.toTables lb rb body rest lb.pos st hlb hrb hb hne)).trans ?_
  rfl

/-- **(2) `expand_arguments` for `\selectlanguage{name}`**: an Action token and the language
    token, both at the position of the macro; the buffer behind the closing brace; the state is
    unchanged -/
theorem expandArguments_select (T : PTables) (fuel : Nat) (mac : MacroDef) (lb rb : Tok)
    (body : List Tok) (rest : Buf) (start : Nat) (st : PState) (code : Str) (hm : DeclFacts mac)
    (hlb : BraceTok '{' lb) (hrb : BraceTok '}' rb)
    (hb : ∀ t ∈ body, CopyTok T st t) (hne : body ≠ [])
    (hc : translateLang T (strip (getTxtPos body).1) = some code)
    (hf : body.length + 4 ≤ fuel) :
    expandArguments T fuel (lb :: (body ++ rb :: rest)) mac start st
      = .ok (([mkAction start, selTok T start code], rest), st) := by
  obtain ⟨f, rfl⟩ : ∃ f, fuel = f + 1 := ⟨fuel - 1, by omega⟩
  rw [expandArguments.eq_2, hm.args]
  refine (M.bind_ok _ _ _ _ _ (collectArgs_select T mac lb rb body rest start st hlb hrb
    (fun x hx => (hb x hx).plain) hne)).trans ?_
  simp only [hm.extract, hm.handler, List.isEmpty_nil, Bool.not_true, Bool.false_eq_true, if_false,
    show (Handler.selectlanguage != Handler.none) = true by decide, if_true]
  refine (M.bind_ok _ _ _ _ _
    (callHandler_select T f rest mac body start st code hb hc (by omega))).trans ?_
  show Outcome.ok _ = _
  simp

theorem expandMacro_select (T : PTables) (fuel : Nat) (mac : MacroDef) (hd lb rb : Tok)
    (body : List Tok) (rest : Buf) (st : PState) (code : Str)
    (hmac : lookupMacro st hd.txt = some mac) (hm : DeclFacts mac)
    (hlb : BraceTok '{' lb) (hrb : BraceTok '}' rb)
    (hb : ∀ t ∈ body, CopyTok T st t) (hne : body ≠ [])
    (hc : translateLang T (strip (getTxtPos body).1) = some code)
    (hf : body.length + 5 ≤ fuel) :
    expandMacro T fuel (lb :: (body ++ rb :: rest)) hd false st
      = .ok (([mkAction hd.pos, selTok T hd.pos code], rest), st) := by
  obtain ⟨f, rfl⟩ : ∃ f, fuel = f + 1 := ⟨fuel - 1, by omega⟩
  have hsk : skipSpaceStopLangAct (lb :: (body ++ rb :: rest)) = lb :: (body ++ rb :: rest) := by
    simp [skipSpaceStopLangAct, hlb.notSpace]
  rw [expandMacro.eq_2]
  show M.bind' M.get _ st = _
  simp only [M.bind', M.get, hmac, hsk]
  exact expandArguments_select T f mac lb rb body rest hd.pos st code hm hlb hrb hb hne hc (by omega)

/-! ### (3) the loop -/

/-- in multi-language mode a language token is copied and changes the language of the parser -/
theorem seq_lang_multi (T : PTables) (fuel : Nat) (p : Nat) (l : Str) (b h k : Bool) (rest : Buf)
    (envStop : Option Str) (out : List Tok) (st : PState) (hs : st.multiLanguage = true) :
    expandSequence T (fuel + 1) (mkLang p l b h k :: rest) envStop out st
      = expandSequence T fuel rest envStop (out ++ [mkLang p l b h k]) (changeParserLang T st l b h) := by
  rw [expandSequence.eq_3]
  show M.bind' M.get _ st = _
  simp only [M.bind', M.get]
  have n1 : txtIs (mkLang p l b h k) "$" = false := by simp [txtIs, mkLang]
  have n2 : txtIs (mkLang p l b h k) "\\(" = false := by simp [txtIs, mkLang]
  have n3 : txtIs (mkLang p l b h k) "$$" = false := by simp [txtIs, mkLang]
  have n4 : txtIs (mkLang p l b h k) "\\[" = false := by simp [txtIs, mkLang]
  have n5 : txtIs (mkLang p l b h k) "\\\\" = false := by simp [txtIs, mkLang]
  have n6 : txtIs (mkLang p l b h k) "{" = false := by simp [txtIs, mkLang]
  have n7 : txtIs (mkLang p l b h k) "}" = false := by simp [txtIs, mkLang]
  have hk : (mkLang p l b h k).kind = .lang l b h k := rfl
  simp only [hk, n1, n2, n3, n4, n5, n6, n7, hs, Bool.or_self, Bool.false_eq_true, if_false,
    reduceCtorEq, beq_iff_eq, if_true]
  rfl

/-- the macro token of a declared `\selectlanguage` -/
structure SelTok (st : PState) (t : Tok) : Prop where
  kind : t.kind = .xmacro
  nDef : txtIs t "\\def" = false
  decl : ∃ m, lookupMacro st t.txt = some m ∧ selDeclOk m = true

theorem SelTok.congr {st st' : PState} (hm : st'.macros = st.macros) {t : Tok} (h : SelTok st t) :
    SelTok st' t := by
  obtain ⟨m, h1, h2⟩ := h.decl
  exact ⟨h.kind, h.nDef, m, by simpa [lookupMacro, hm] using h1, h2⟩

/-- one switch in the loop: three iterations (macro token, Action token, language token); the
    handler needs `|name tokens| + 5` units below the first one -/
theorem seq_sel_step (T : PTables) (fuel : Nat) (hd lb rb : Tok) (body : List Tok) (code : Str)
    (rest : Buf) (envStop : Option Str) (out : List Tok) (st : PState) (hhd : SelTok st hd)
    (hml : st.multiLanguage = true) (hnea : noEmptyActive T st = true)
    (hlb : BraceTok '{' lb) (hrb : BraceTok '}' rb)
    (hb : ∀ t ∈ body, CopyTok T st t) (hne : body ≠ [])
    (hc : translateLang T (strip (getTxtPos body).1) = some code)
    (hf : body.length + 3 ≤ fuel) :
    expandSequence T (fuel + 3) (hd :: lb :: (body ++ rb :: rest)) envStop out st
      = expandSequence T fuel rest envStop (out ++ [mkAction hd.pos, selTok T hd.pos code])
          (setLang T st code) := by
  obtain ⟨mac, hmac, hmok⟩ := hhd.decl
  have hm := declFacts hmok
  rw [expandSequence.eq_3]
  show M.bind' M.get _ st = _
  simp only [M.bind', M.get]
  simp only [hhd.kind, hhd.nDef, Bool.false_eq_true, if_false, if_true, reduceCtorEq, beq_iff_eq,
    beq_self_eq_true]
  refine (M.bind_ok _ _ _ _ _ (expandMacro_select T (fuel + 2) mac hd lb rb body rest
    st code hmac hm hlb hrb hb hne hc (by omega))).trans ?_
  simp only [List.cons_append, List.nil_append]
  rw [seq_action_step T (fuel + 1) hd.pos _ envStop out st hnea]
  unfold selTok
  rw [seq_lang_multi T fuel hd.pos code false true T.selectBrk rest envStop _ st hml]
  simp [setLang]

/-- the pieces of a token buffer: a token that is copied, or `\selectlanguage{name}` -/
inductive Piece where
  | tok (t : Tok)
  | sel (hd lb : Tok) (body : List Tok) (rb : Tok)

def Piece.toks : Piece → List Tok
  | .tok t => [t]
  | .sel hd lb b rb => hd :: lb :: (b ++ [rb])

/-- the token buffer -/
def flat : List Piece → List Tok
  | [] => []
  | p :: ps => p.toks ++ flat ps

/-- the language code `h_selectlanguage` computes from the tokens of the argument
    (`translate_lang(get_text_expanded(arg).strip())`) -/
def codeOf (T : PTables) (b : List Tok) : Str := (translateLang T (strip (getTxtPos b).1)).getD []

/-- well-formed buffers; the parser state (its language) changes at every switch -/
def PiecesOk (T : PTables) : PState → List Piece → Prop
  | _, [] => True
  | st, .tok t :: rest => CopyTok T st t ∧ PiecesOk T st rest
  | st, .sel hd lb b rb :: rest =>
    SelTok st hd ∧ BraceTok '{' lb ∧ BraceTok '}' rb ∧ b ≠ [] ∧ (∀ t ∈ b, CopyTok T st t) ∧
    (translateLang T (strip (getTxtPos b).1)).isSome = true ∧ noEmptyActive T st = true ∧
    PiecesOk T (setLang T st (codeOf T b)) rest

/-- the parser state behind the buffer -/
def finalSt (T : PTables) : PState → List Piece → PState
  | st, [] => st
  | st, .tok _ :: rest => finalSt T st rest
  | st, .sel _ _ b _ :: rest => finalSt T (setLang T st (codeOf T b)) rest

/-- what the loop emits before the blank-line removal: a switch leaves an Action token and a
    language token at the position of the macro -/
def outMain (T : PTables) : List Piece → List Tok
  | [] => []
  | .tok t :: rest => t :: outMain T rest
  | .sel hd _ b _ :: rest => mkAction hd.pos :: selTok T hd.pos (codeOf T b) :: outMain T rest

/-- fuel: one unit per copied token; a switch is charged `|name tokens| + 6` (three iterations,
    and the handler needs `|name tokens| + 5` units below the first of them) -/
def cost : List Piece → Nat
  | [] => 0
  | .tok _ :: rest => 1 + cost rest
  | .sel _ _ b _ :: rest => b.length + 6 + cost rest

theorem PiecesOk.congr {T : PTables} : ∀ {ps : List Piece} {st st' : PState},
    st'.macros = st.macros → st'.langStack = st.langStack → PiecesOk T st ps → PiecesOk T st' ps
  | [], _, _, _, _, _ => trivial
  | .tok _ :: _, _, _, hm, hl, h => ⟨h.1.congr hl, PiecesOk.congr hm hl h.2⟩
  | .sel _ _ _ _ :: _, st, st', hm, hl, h =>
    ⟨h.1.congr hm, h.2.1, h.2.2.1, h.2.2.2.1, fun t ht => (h.2.2.2.2.1 t ht).congr hl,
      h.2.2.2.2.2.1, (noEmptyActive_congr T st st' hl).trans h.2.2.2.2.2.2.1,
      PiecesOk.congr (by simp [hm]) (by simp [hl]) h.2.2.2.2.2.2.2⟩

/-- **(3) the loop on a buffer of copied tokens and switches**: the output is the blank-line
    removal applied to `outMain`; the state is `finalSt`. -/
theorem seq_sels (T : PTables) (envStop : Option Str) :
    ∀ (ps : List Piece) (fuel : Nat) (out : List Tok) (st : PState),
      cost ps + 1 ≤ fuel → st.multiLanguage = true → PiecesOk T st ps →
      expandSequence T fuel (flat ps) envStop out st
        = match removeLines (out ++ outMain T ps) with
          | some r => .ok ((r, []), finalSt T st ps)
          | none => .outOfFuel := by
  intro ps
  induction ps with
  | nil =>
    intro fuel out st hf _ _
    obtain ⟨f, rfl⟩ : ∃ f, fuel = f + 1 := ⟨fuel - 1, by omega⟩
    simp only [flat, outMain, List.append_nil, finalSt]
    rw [expandSequence.eq_2]
    cases removeLines out <;> rfl
  | cons p ps ih =>
    intro fuel out st hf hml hok
    cases p with
    | tok t =>
      simp only [cost] at hf
      obtain ⟨f, rfl⟩ : ∃ f, fuel = f + 1 := ⟨fuel - 1, by omega⟩
      show expandSequence T (f + 1) (t :: flat ps) envStop out st = _
      rw [seq_plain_step T f t (flat ps) envStop out st hok.1.plain (Or.inl hok.1.nact),
        ih f (out ++ [t]) st (by omega) hml hok.2]
      simp only [outMain, finalSt, List.append_assoc, List.singleton_append]
    | sel hd lb b rb =>
      obtain ⟨hhd, hlb, hrb, hne, hb, hsome, hnea, hrest⟩ := hok
      simp only [cost] at hf
      obtain ⟨code, hc⟩ : ∃ code, translateLang T (strip (getTxtPos b).1) = some code :=
        Option.isSome_iff_exists.mp hsome
      have hcode : codeOf T b = code := by simp [codeOf, hc]
      obtain ⟨f, rfl⟩ : ∃ f, fuel = f + 3 := ⟨fuel - 3, by omega⟩
      have hflat : flat (Piece.sel hd lb b rb :: ps) = hd :: lb :: (b ++ rb :: flat ps) := by
        simp [flat, Piece.toks]
      rw [hflat, seq_sel_step T f hd lb rb b code (flat ps) envStop out st hhd hml hnea hlb hrb hb hne
        hc (by omega), ih _ _ _ (by omega) (by simpa using hml) (by rw [← hcode]; exact hrest)]
      simp only [outMain, finalSt, hcode, List.append_assoc, List.cons_append, List.nil_append]

/-! ### (4) the multi-language splitter on the level of items

  `get_txt_pos_ml` on a token list whose language tokens are all hard switches that force a break
  (`\selectlanguage` with `lang_change_break['selectlanguage'] = True`): the token list is cut at
  the switches that change the language code; no section is joined to its neighbours. -/

open LinesLang (Item Mark ch isLg tokItems itemsOf delLines marksOf)
open PlainMacro (tokChars tokChars_fst)

/-- language code and break flag of a language token -/
def langCode (t : Tok) : Str := match t.kind with | .lang l _ _ _ => l | _ => []
def langBrk (t : Tok) : Bool := match t.kind with | .lang _ _ _ b => b | _ => false

/-- a hard switch (`\selectlanguage`): not a return to the previous language, replaces the top of
    the stack -/
def HardTok (t : Tok) : Prop := ∃ l b, t.kind = .lang l false true b

/-- the section that is closed: none if no character was collected -/
def emitRun (cur : Str) (brk : Bool) (acc : List (Char × Nat)) : List Sec :=
  if acc.isEmpty then []
  else [{ lang := cur, back := false, brk := brk, txt := acc.map (·.1), pos := acc.map (·.2) }]

/-- cut a list of items at the language tokens that change the language code: `cur` = the code in
    force, `brk` = break flag of the switch that started the current run, `acc` = its characters -/
def cutRuns : Str → Bool → List (Char × Nat) → List Item → List Sec
  | cur, brk, acc, [] => emitRun cur brk acc
  | cur, brk, acc, .inl cp :: xs => cutRuns cur brk (acc ++ [cp]) xs
  | cur, brk, acc, .inr t :: xs =>
    if langCode t == cur then cutRuns cur brk acc xs
    else emitRun cur brk acc ++ cutRuns (langCode t) (langBrk t) [] xs

theorem cutRuns_ch : ∀ (l : List (Char × Nat)) (cur : Str) (brk : Bool) (acc : List (Char × Nat))
    (xs : List Item), cutRuns cur brk acc (ch l ++ xs) = cutRuns cur brk (acc ++ l) xs
  | [], _, _, _, _ => by simp
  | cp :: l, cur, brk, acc, xs => by
    simp only [LinesLang.ch_cons, List.cons_append, cutRuns]
    rw [cutRuns_ch l]
    simp

theorem tokChars_snd (t : Tok) : (tokChars t).map (·.2) = tokPositions t := by
  unfold tokChars
  rw [List.map_snd_zip]
  rw [tokPositions_length]; exact Nat.le_refl _

/-- the invariant of the section loop: one language on the stack, the current section spells
    `acc` -/
structure SecInv (s : SecState) (cur : Str) (acc : List (Char × Nat)) : Prop where
  stack : s.stack = [cur]
  back : s.swBack = false
  cur : getTxtPos s.cur = (acc.map (·.1), acc.map (·.2))

theorem closeSec_inv {s : SecState} {cur : Str} {acc : List (Char × Nat)} (h : SecInv s cur acc) :
    closeSec s = s.secs ++ emitRun cur s.swBrk acc := by
  unfold closeSec emitRun
  simp only [h.cur, h.stack, h.back, stackTop, List.headD_cons]
  cases acc with
  | nil => simp
  | cons a l => simp

/-- the section loop of `get_txt_pos_ml` is `cutRuns` on the items -/
theorem sections_fold : ∀ (toks : List Tok) (s : SecState) (cur : Str) (acc : List (Char × Nat)),
    (∀ t ∈ toks, isLang t = true → HardTok t) → SecInv s cur acc →
    closeSec (toks.foldl secStep s) = s.secs ++ cutRuns cur s.swBrk acc (itemsOf toks)
  | [], s, cur, acc, _, h => by
    simp only [List.foldl_nil, itemsOf, List.flatMap_nil, cutRuns]
    exact closeSec_inv h
  | t :: ts, s, cur, acc, hh, h => by
    rw [List.foldl_cons, LinesLang.itemsOf_cons]
    cases hl : isLang t with
    | false =>
      have hstep : secStep s t = { s with cur := s.cur ++ [t] } := by
        unfold secStep
        unfold isLang at hl
        split
        · rename_i hk; simp [hk] at hl
        · rfl
      have hinv : SecInv (secStep s t) cur (acc ++ tokChars t) := by
        rw [hstep]
        refine ⟨h.stack, h.back, ?_⟩
        simp only [getTxtPos_append, h.cur, getTxtPos, List.append_nil, List.map_append,
          tokChars_fst, tokChars_snd]
      rw [sections_fold ts _ cur _ (fun x hx => hh x (List.mem_cons_of_mem _ hx)) hinv,
        LinesLang.tokItems_notLang _ hl, cutRuns_ch, hstep]
    | true =>
      obtain ⟨l, b, hk⟩ := hh t (List.mem_cons_self ..) hl
      have hcode : langCode t = l := by simp [langCode, hk]
      have hbrk : langBrk t = b := by simp [langBrk, hk]
      rw [LinesLang.tokItems_lang _ hl]
      simp only [List.singleton_append, cutRuns, hcode, hbrk]
      by_cases hsame : l = cur
      · have hstep : secStep s t = { s with stack := [l] } := by
          simp [secStep, hk, h.stack, stackTop, hsame]
        have hinv : SecInv (secStep s t) cur acc := by
          rw [hstep]; exact ⟨by simp [hsame], h.back, h.cur⟩
        rw [sections_fold ts _ cur _ (fun x hx => hh x (List.mem_cons_of_mem _ hx)) hinv, hstep]
        simp [hsame]
      · have hne : (l == cur) = false := by simpa using hsame
        have hstep : secStep s t
            = { stack := [l], swBack := false, swBrk := b, cur := [], secs := closeSec s } := by
          simp [secStep, hk, h.stack, stackTop, hne]
        have hinv : SecInv (secStep s t) l [] := by
          rw [hstep]; exact ⟨rfl, rfl, rfl⟩
        rw [sections_fold ts _ l _ (fun x hx => hh x (List.mem_cons_of_mem _ hx)) hinv, hstep,
          closeSec_inv h]
        simp [hne]

theorem sections_items (toks : List Tok) (main : Str)
    (hh : ∀ t ∈ toks, isLang t = true → HardTok t) :
    sections toks main = cutRuns main false [] (itemsOf toks) := by
  unfold sections
  rw [sections_fold toks _ main [] hh ⟨rfl, rfl, rfl⟩]
  simp

/-! #### no section is joined -/

theorem emitRun_brk (cur : Str) (brk : Bool) (acc : List (Char × Nat)) :
    ∀ s ∈ emitRun cur brk acc, s.brk = brk := by
  intro s hs
  unfold emitRun at hs
  split at hs
  · cases hs
  · rw [List.mem_singleton] at hs; rw [hs]

theorem emitRun_length (cur : Str) (brk : Bool) (acc : List (Char × Nat)) :
    (emitRun cur brk acc).length ≤ 1 := by
  unfold emitRun; split <;> simp

/-- all language items force a break -/
def AllBrk (items : List Item) : Prop := ∀ t, Sum.inr t ∈ items → langBrk t = true

theorem cutRuns_allBrk : ∀ (items : List Item) (cur : Str) (acc : List (Char × Nat)),
    AllBrk items → ∀ s ∈ cutRuns cur true acc items, s.brk = true
  | [], cur, acc, _ => emitRun_brk cur true acc
  | .inl cp :: xs, cur, acc, h => by
    simp only [cutRuns]
    exact cutRuns_allBrk xs cur _ (fun t ht => h t (List.mem_cons_of_mem _ ht))
  | .inr t :: xs, cur, acc, h => by
    have h' : AllBrk xs := fun t ht => h t (List.mem_cons_of_mem _ ht)
    have hb : langBrk t = true := h t (List.mem_cons_self ..)
    simp only [cutRuns]
    split
    · exact cutRuns_allBrk xs cur _ h'
    · intro s hs
      rcases List.mem_append.mp hs with hs | hs
      · exact emitRun_brk cur true acc s hs
      · rw [hb] at hs; exact cutRuns_allBrk xs _ _ h' s hs

theorem cutRuns_tailBrk : ∀ (items : List Item) (cur : Str) (brk : Bool) (acc : List (Char × Nat)),
    AllBrk items → ∀ s ∈ (cutRuns cur brk acc items).tail, s.brk = true
  | [], cur, brk, acc, _ => by
    intro s hs
    simp only [cutRuns] at hs
    have := emitRun_length cur brk acc
    match hE : emitRun cur brk acc, this with
    | [], _ => rw [hE] at hs; cases hs
    | [_], _ => rw [hE] at hs; cases hs
  | .inl cp :: xs, cur, brk, acc, h => by
    simp only [cutRuns]
    exact cutRuns_tailBrk xs cur brk _ (fun t ht => h t (List.mem_cons_of_mem _ ht))
  | .inr t :: xs, cur, brk, acc, h => by
    have h' : AllBrk xs := fun t ht => h t (List.mem_cons_of_mem _ ht)
    have hb : langBrk t = true := h t (List.mem_cons_self ..)
    simp only [cutRuns]
    split
    · exact cutRuns_tailBrk xs cur brk _ h'
    · intro s hs
      rw [hb] at hs
      have hA := cutRuns_allBrk xs (langCode t) [] h'
      have := emitRun_length cur brk acc
      match hE : emitRun cur brk acc, this with
      | [], _ =>
        rw [hE, List.nil_append] at hs
        exact hA s (List.mem_of_mem_tail hs)
      | [_], _ =>
        rw [hE] at hs
        exact hA s (by simpa using hs)

/-- sections that all force a break (except possibly the first) are never joined -/
theorem joinLoop_id (thresh : Nat) (lc : LangChange) : ∀ (secs : List Sec) (fuel : Nat) (out : List Sec),
    secs.length ≤ fuel → (∀ s ∈ secs.tail, s.brk = true) →
    joinLoop thresh fuel lc secs out = some (out ++ secs, lc)
  | [], fuel, out, _, _ => by cases fuel <;> simp [joinLoop]
  | s0 :: rest, fuel, out, hf, hb => by
    obtain ⟨f, rfl⟩ : ∃ f, fuel = f + 1 := ⟨fuel - 1, by simp at hf; omega⟩
    cases rest with
    | nil =>
      simp only [joinLoop]
    | cons s1 rest2 =>
      have h1 : s1.brk = true := hb s1 (by simp)
      simp only [joinLoop, h1, Bool.not_true, Bool.false_and, Bool.false_eq_true, if_false]
      rw [joinLoop_id thresh lc (s1 :: rest2) f _ (by simp at hf ⊢; omega)
        (fun s hs => hb s (by simp at hs ⊢; exact Or.inr hs))]
      simp

/-! #### grouping by language -/

/-- append a piece of text under its language code; a new code goes to the end -/
def addPart (ps : Parts) (k : Str) (tp : Str × List Nat) : Parts :=
  if ps.any (·.1 == k) then ps.map (fun e => if e.1 == k then (e.1, e.2 ++ [tp]) else e)
  else ps ++ [(k, [tp])]

/-- the sections, grouped by language code (codes in the order of their first section, the
    sections of one code in their order) -/
def groupSecs (secs : List Sec) : Parts := secs.foldl (fun ps s => addPart ps s.lang (s.txt, s.pos)) []

theorem groupParts_fold : ∀ (secs : List Sec) (acc : Parts),
    groupParts secs acc = secs.foldl (fun ps s => addPart ps s.lang (s.txt, s.pos)) acc
  | [], _ => rfl
  | s :: ss, acc => by
    simp only [groupParts, List.foldl_cons, addPart]
    split <;> exact groupParts_fold ss _

/-- **(4) `get_txt_pos_ml` on hard, breaking switches** -/
theorem getTxtPosML_hard (toks : List Tok) (main : Str) (thresh : Nat) (lc : LangChange)
    (hh : ∀ t ∈ toks, isLang t = true → HardTok t ∧ langBrk t = true) :
    getTxtPosML toks main thresh lc
      = some (groupSecs (cutRuns main false [] (itemsOf toks)), lc) := by
  have hA : AllBrk (itemsOf toks) := by
    intro t ht
    simp only [itemsOf, List.mem_flatMap] at ht
    obtain ⟨x, hx, hxt⟩ := ht
    cases hl : isLang x with
    | true =>
      rw [LinesLang.tokItems_lang _ hl, List.mem_singleton] at hxt
      have e : t = x := by simpa using hxt
      rw [e]
      exact (hh x hx hl).2
    | false =>
      rw [LinesLang.tokItems_notLang _ hl] at hxt
      simp [ch] at hxt
  unfold getTxtPosML
  simp only [sections_items toks main (fun t ht hl => (hh t ht hl).1)]
  rw [joinLoop_id thresh lc _ _ [] (Nat.le_refl _) (cutRuns_tailBrk _ _ _ _ hA)]
  simp only [List.nil_append, groupParts_fold]
  rfl

/-! ### the documents -/

open PlainFootnote (TextRun braceAt)

/-- a segment of the source: a run of text, or a language switch `\selectlanguage{name}` -/
inductive Seg where
  | txt (s : Str)
  | sel (name : Str)
deriving Repr, DecidableEq

/-- `selectlanguage` -/
def selName : Str := "selectlanguage".toList

def Seg.render : Seg → Str
  | .txt s => s
  | .sel name => '\\' :: (selName ++ '{' :: (name ++ ['}']))

/-- the source text -/
def render : List Seg → Str
  | [] => []
  | s :: rest => s.render ++ render rest

/-- `babel.translate_lang` on the stripped argument: the code the language map gives for `name`;
    a name that is not in the map counts as `english` -/
def langOf (T : PTables) (name : Str) : Option Str := translateLang T (strip name)

/-- the language code selected by `\selectlanguage{name}` -/
def codeOfName (T : PTables) (name : Str) : Str := (langOf T name).getD []

/-- `\selectlanguage{name}`, followed by `R`, read in the parser state `st`:
    * no special sequence of the tables matches at the backslash and `\selectlanguage` is no accent
      macro (the scanner yields the macro token; the opening brace ends the name);
    * `\selectlanguage` is declared in `st` as in `packages/babel.py` (`selDeclOk`);
    * both braces are scanned as brace tokens;
    * the name is not empty and inert in front of `}` (for the language in force);
    * `translate_lang` finds a code (the name is a key of the language map, or `english` is);
    * the empty string is no "active character" of the language in force (the Action token the
      switch leaves would be sent to `expand_short_macro`). -/
def selOk (T : PTables) (st : PState) (name R : Str) : Bool :=
  (matchSpecial T.toTables ('\\' :: (selName ++ '{' :: (name ++ '}' :: R)))).isNone &&
  !T.toTables.isAccent ('\\' :: selName) &&
  (match lookupMacro st ('\\' :: selName) with | some m => selDeclOk m | none => false) &&
  braceAt T '{' (name ++ '}' :: R) && braceAt T '}' R &&
  PlainFootnote.textOk T st name ('}' :: R) && !name.isEmpty && (langOf T name).isSome &&
  noEmptyActive T st

/-- well-formed documents, read in the parser state `st`: every segment is fine in front of the
    rendering of the following ones; what follows a text segment does not start with white space
    (a white-space token would span the boundary: merge the two text segments); behind a switch
    the text is read with the settings of the selected language -/
def segsOk (T : PTables) : PState → List Seg → Bool
  | _, [] => true
  | st, .txt s :: rest =>
    PlainFootnote.textOk T st s (render rest) && (render rest).head?.all (fun d => !isSpace d) &&
    segsOk T st rest
  | st, .sel name :: rest =>
    selOk T st name (render rest) && segsOk T (setLang T st (codeOfName T name)) rest

/-! ### the reference -/

/-- the marks of a document that starts at position `p`: every text character with its (0-based)
    source position; a switch leaves an Action mark and the language token (a hard switch to the
    code of the name, at the position of the backslash) -/
def segMarks (T : PTables) : Nat → List Seg → List Mark
  | _, [] => []
  | p, .txt s :: rest => (ch (posText p s)).map some ++ segMarks T (p + s.length) rest
  | p, .sel name :: rest =>
    none :: some (.inr (selTok T p (codeOfName T name))) :: segMarks T (p + (name.length + 17)) rest

/-! ### the scanner at `\selectlanguage` -/

structure SelFacts (T : PTables) (st : PState) (name R : Str) : Prop where
  special : matchSpecial T.toTables ('\\' :: (selName ++ '{' :: (name ++ '}' :: R))) = none
  nAccent : T.toTables.isAccent ('\\' :: selName) = false
  decl : ∃ m, lookupMacro st ('\\' :: selName) = some m ∧ selDeclOk m = true
  lb : braceAt T '{' (name ++ '}' :: R) = true
  rb : braceAt T '}' R = true
  text : PlainFootnote.textOk T st name ('}' :: R) = true
  ne : name ≠ []
  code : (langOf T name).isSome = true
  nea : noEmptyActive T st = true

theorem selFacts {T : PTables} {st : PState} {name R : Str}
    (h : selOk T st name R = true) : SelFacts T st name R := by
  simp only [selOk, Bool.and_eq_true, Bool.not_eq_true', Option.isNone_iff_eq_none] at h
  obtain ⟨⟨⟨⟨⟨⟨⟨⟨h1, h2⟩, h3⟩, h4⟩, h5⟩, h6⟩, h7⟩, h8⟩, h9⟩ := h
  refine ⟨h1, h2, ?_, h4, h5, h6, by simpa using h7, h8, h9⟩
  cases hm : lookupMacro st ('\\' :: selName) with
  | none => rw [hm] at h3; cases h3
  | some m => rw [hm] at h3; exact ⟨m, rfl, h3⟩

/-- the scanner turns `\selectlanguage` in front of `{` into one macro token -/
theorem nextToken_sel (T : PTables) (st : PState) (src : Str) (pos : Nat) (name R : Str)
    (h : SelFacts T st name R) :
    nextToken T.toTables src pos ('\\' :: (selName ++ '{' :: (name ++ '}' :: R)))
      = { tok := cwTok pos selName, len := 15 } := by
  have facts : CwFacts T ({ macros := [] } : PState) selName ('{' :: (name ++ '}' :: R)) :=
    ⟨by decide, takeWhile_append_stop _ _ _ (by decide) rfl, h.special, by decide, by decide,
      by decide, by decide, h.nAccent, by decide, rfl⟩
  exact nextToken_cw T _ src pos selName _ facts

theorem selTok_cwTok {T : PTables} {st : PState} {name R : Str}
    (h : SelFacts T st name R) (pos : Nat) : SelTok st (cwTok pos selName) :=
  ⟨rfl, (by decide : (('\\' :: selName) == "\\def".toList) = false), h.decl⟩

/-! ### pieces of copied tokens -/

def tokPieces (toks : List Tok) : List Piece := toks.map Piece.tok

theorem flat_tokPieces (ps : List Piece) : ∀ toks : List Tok, flat (tokPieces toks ++ ps) = toks ++ flat ps
  | [] => rfl
  | t :: ts => by
    show [t] ++ flat (tokPieces ts ++ ps) = _
    rw [flat_tokPieces ps ts]; rfl

theorem outMain_tokPieces (T : PTables) (ps : List Piece) : ∀ toks : List Tok,
    outMain T (tokPieces toks ++ ps) = toks ++ outMain T ps
  | [] => rfl
  | t :: ts => by
    show t :: outMain T (tokPieces ts ++ ps) = _
    rw [outMain_tokPieces T ps ts]; rfl

theorem cost_tokPieces (ps : List Piece) : ∀ toks : List Tok,
    cost (tokPieces toks ++ ps) = toks.length + cost ps
  | [] => by simp [tokPieces]
  | t :: ts => by
    show 1 + cost (tokPieces ts ++ ps) = _
    rw [cost_tokPieces ps ts, List.length_cons]; omega

theorem finalSt_tokPieces (T : PTables) (st : PState) (ps : List Piece) : ∀ toks : List Tok,
    finalSt T st (tokPieces toks ++ ps) = finalSt T st ps
  | [] => rfl
  | t :: ts => by
    show finalSt T st (tokPieces ts ++ ps) = _
    exact finalSt_tokPieces T st ps ts

theorem PiecesOk_tokPieces {T : PTables} {st : PState} (ps : List Piece) (hps : PiecesOk T st ps) :
    ∀ toks : List Tok, (∀ t ∈ toks, CopyTok T st t) → PiecesOk T st (tokPieces toks ++ ps)
  | [], _ => hps
  | t :: ts, h =>
    ⟨h t (List.mem_cons_self ..),
      PiecesOk_tokPieces ps hps ts (fun x hx => h x (List.mem_cons_of_mem _ hx))⟩

/-! ### the marks of copied tokens -/

theorem simple_of_copy {T : PTables} {st : PState} {t : Tok} (h : CopyTok T st t) :
    LinesLang.Simple t ∧ isAction t = false ∧ isLang t = false := by
  have ha := h.plain.notAction
  have hl : isLang t = false := by
    unfold isLang
    rcases h.plain.kind with k | k | k <;> simp [k]
  refine ⟨⟨?_, ?_⟩, ha, hl⟩
  · intro hx
    rcases hx with hx | hx
    · rw [ha] at hx; cases hx
    · rw [hl] at hx; cases hx
  · intro hn
    rcases h.shape.2 with ⟨_, h2⟩ | ⟨_, h2⟩
    · rw [hn] at h2; cases h2
    · exact h2

theorem pairs_ext : ∀ (l1 l2 : List (Char × Nat)), l1.map (·.1) = l2.map (·.1) →
    l1.map (·.2) = l2.map (·.2) → l1 = l2
  | [], [], _, _ => rfl
  | [], _ :: _, h, _ => by simp at h
  | _ :: _, [], h, _ => by simp at h
  | a :: l1, b :: l2, h1, h2 => by
    simp only [List.map_cons, List.cons.injEq] at h1 h2
    rw [pairs_ext l1 l2 h1.2 h2.2, Prod.ext h1.1 h2.1]

/-- the marks of a list of copied tokens: its characters with their positions -/
theorem marksOf_copy {T : PTables} {st : PState} : ∀ (toks : List Tok), (∀ t ∈ toks, CopyTok T st t) →
    marksOf toks = (ch (PlainMacro.charsOf toks)).map some
  | [], _ => rfl
  | t :: ts, h => by
    obtain ⟨_, ha, hl⟩ := simple_of_copy (h t (List.mem_cons_self ..))
    have ih := marksOf_copy ts (fun x hx => h x (List.mem_cons_of_mem _ hx))
    simp only [marksOf, List.flatMap_cons] at ih ⊢
    rw [ih, LinesLang.tokMarks_chars _ ha hl, PlainMacro.charsOf_cons]
    simp [PlainMacro.charsOf]

theorem charsOf_of_txtpos (toks : List Tok) (s : Str) (pos : Nat)
    (h : getTxtPos toks = (s, List.range' pos s.length)) : PlainMacro.charsOf toks = posText pos s := by
  have h' := PlainMacro.getTxtPos_charsOf toks
  rw [h] at h'
  simp only [Prod.mk.injEq] at h'
  exact pairs_ext _ _ (by rw [← h'.1, posText_fst]) (by rw [← h'.2, posText_snd])

/-! ### the scanner loop on a document -/

/-- what the scanner loop yields on a well-formed document that starts at `pos` -/
structure PieceFacts (T : PTables) (st : PState) (pos : Nat) (segs : List Seg) (ps : List Piece) :
    Prop where
  ok : PiecesOk T st ps
  marks : marksOf (outMain T ps) = segMarks T pos segs
  simple : ∀ t ∈ outMain T ps, LinesLang.Simple t
  hard : ∀ t ∈ outMain T ps, isLang t = true → HardTok t ∧ langBrk t = T.selectBrk
  cost : cost ps ≤ (render segs).length

theorem PieceFacts_nil (T : PTables) (st : PState) (pos : Nat) : PieceFacts T st pos [] [] where
  ok := trivial
  marks := rfl
  simple := by intro t ht; cases ht
  hard := by intro t ht; cases ht
  cost := Nat.le_refl _

theorem PieceFacts_txt {T : PTables} {st : PState} {pos : Nat} {s : Str} {rest : List Seg}
    {steps : List ScanStep} {ps : List Piece} (B : TextRun T st pos s steps)
    (I : PieceFacts T st (pos + s.length) rest ps) :
    PieceFacts T st pos (.txt s :: rest) (tokPieces (steps.map (·.tok)) ++ ps) := by
  have hc : ∀ t ∈ steps.map (·.tok), CopyTok T st t := by
    intro t ht
    obtain ⟨x, hx, rfl⟩ := List.mem_map.mp ht
    exact (B.ok x hx).2.2
  refine ⟨PiecesOk_tokPieces ps I.ok _ hc, ?_, ?_, ?_, ?_⟩
  · rw [outMain_tokPieces, LinesLang.marksOf, List.flatMap_append]
    show marksOf _ ++ marksOf _ = _
    rw [marksOf_copy _ hc, charsOf_of_txtpos _ s pos B.txt, I.marks]
    rfl
  · intro t ht
    rw [outMain_tokPieces] at ht
    rcases List.mem_append.mp ht with ht | ht
    · exact (simple_of_copy (hc t ht)).1
    · exact I.simple t ht
  · intro t ht hl
    rw [outMain_tokPieces] at ht
    rcases List.mem_append.mp ht with ht | ht
    · rw [(simple_of_copy (hc t ht)).2.2] at hl; cases hl
    · exact I.hard t ht hl
  · have h1 := B.len
    have h2 := I.cost
    rw [cost_tokPieces]
    simp only [render, Seg.render, List.length_append, List.length_map]
    omega

theorem render_sel (name : Str) (rest : List Seg) :
    render (.sel name :: rest) = '\\' :: (selName ++ '{' :: (name ++ '}' :: render rest)) := by
  simp [render, Seg.render]

theorem selName_length : selName.length = 14 := by decide

theorem render_sel_length (name : Str) (rest : List Seg) :
    (render (.sel name :: rest)).length = name.length + 17 + (render rest).length := by
  rw [render_sel]
  simp only [List.length_cons, List.length_append, selName_length]
  omega

theorem PieceFacts_sel {T : PTables} {st : PState} {pos : Nat} {name : Str} {rest : List Seg}
    {bsteps : List ScanStep} {ps : List Piece} (k1 k2 : Kind)
    (hk1 : k1 = Kind.special ∨ k1 = Kind.text) (hk2 : k2 = Kind.special ∨ k2 = Kind.text)
    (F : SelFacts T st name (render rest))
    (B : TextRun T st (pos + 16) name bsteps)
    (I : PieceFacts T (setLang T st (codeOfName T name)) (pos + (name.length + 17)) rest ps) :
    PieceFacts T st pos (.sel name :: rest)
      (.sel (cwTok pos selName)
             { kind := k1, pos := pos + 15, txt := ['{'] } (bsteps.map (·.tok))
             { kind := k2, pos := pos + 16 + name.length, txt := ['}'] } :: ps) := by
  have hc : ∀ t ∈ bsteps.map (·.tok), CopyTok T st t := by
    intro t ht
    obtain ⟨x, hx, rfl⟩ := List.mem_map.mp ht
    exact (B.ok x hx).2.2
  have hbne : bsteps.map (·.tok) ≠ [] := by
    intro e
    exact F.ne (B.nil_iff (by simpa using e))
  have htxt : (getTxtPos (bsteps.map (·.tok))).1 = name := by rw [B.txt]
  have hcode : codeOf T (bsteps.map (·.tok)) = codeOfName T name := by
    simp [codeOf, codeOfName, langOf, htxt]
  have hsome : (translateLang T (strip (getTxtPos (bsteps.map (·.tok))).1)).isSome = true := by
    rw [htxt]; exact F.code
  refine ⟨?_, ?_, ?_, ?_, ?_⟩
  · exact ⟨selTok_cwTok F pos, ⟨hk1, rfl⟩, ⟨hk2, rfl⟩, hbne, hc, hsome, F.nea, by rw [hcode]; exact I.ok⟩
  · simp only [outMain, segMarks, hcode, cwTok]
    rw [LinesLang.marksOf, List.flatMap_cons, List.flatMap_cons]
    show LinesLang.tokMarks _ ++ (LinesLang.tokMarks _ ++ marksOf _) = _
    rw [I.marks, LinesLang.tokMarks_action _ rfl, LinesLang.tokMarks_lang _ rfl rfl]
    rfl
  · intro t ht
    simp only [outMain, List.mem_cons] at ht
    rcases ht with rfl | rfl | ht
    · exact LinesLang.Simple_of_nil _ rfl
    · exact LinesLang.Simple_of_nil _ rfl
    · exact I.simple t ht
  · intro t ht hl
    simp only [outMain, List.mem_cons] at ht
    rcases ht with rfl | rfl | ht
    · cases hl
    · exact ⟨⟨_, _, rfl⟩, rfl⟩
    · exact I.hard t ht hl
  · have h1 := B.len
    have h2 := I.cost
    rw [render_sel_length]
    simp only [cost, List.length_map]
    omega

open PlainHeading (scanSteps_step)

/-- the scanner loop on a well-formed document: complete, no diagnostics, the token buffer
    consists of copied tokens and switches -/
theorem scanSteps_segs (T : PTables) (src : Str) :
    ∀ (segs : List Seg) (fuel pos : Nat) (st : PState), (render segs).length ≤ fuel →
      segsOk T st segs = true →
      ∃ steps ps, scanSteps T.toTables src fuel pos (render segs) = (steps, true) ∧
        (∀ x ∈ steps, x.diag = none ∧ x.extra = []) ∧ steps.map (·.tok) = flat ps ∧
        PieceFacts T st pos segs ps := by
  intro segs
  induction segs with
  | nil =>
    intro fuel pos st _ _
    exact ⟨[], [], by simp [render, scanSteps], by simp, rfl, PieceFacts_nil T st pos⟩
  | cons sg rest ih =>
    intro fuel pos st hf hok
    cases sg with
    | txt s =>
      simp only [segsOk, Bool.and_eq_true] at hok
      obtain ⟨⟨htext, hhead⟩, hrest⟩ := hok
      have hlen : (render (.txt s :: rest)).length = s.length + (render rest).length := by
        simp [render, Seg.render]
      rw [hlen] at hf
      obtain ⟨bsteps, B, hrun⟩ := PlainFootnote.scanSteps_textrun T st src (render rest) hhead
        s.length s pos fuel (Nat.le_refl _) (by omega) htext
      have hBl := B.len
      obtain ⟨steps', ps', hsc, hok', hflat, I⟩ := ih (fuel - bsteps.length) (pos + s.length) st
        (by omega) hrest
      refine ⟨bsteps ++ steps', tokPieces (bsteps.map (·.tok)) ++ ps', ?_, ?_, ?_, PieceFacts_txt B I⟩
      · show scanSteps T.toTables src fuel pos (s ++ render rest) = _
        rw [hrun, hsc]
      · intro x hx
        rcases List.mem_append.mp hx with hx | hx
        · exact ⟨(B.ok x hx).1, (B.ok x hx).2.1⟩
        · exact hok' x hx
      · rw [List.map_append, flat_tokPieces, hflat]
    | sel name =>
      simp only [segsOk, Bool.and_eq_true] at hok
      obtain ⟨hsel, hrest⟩ := hok
      have F := selFacts hsel
      rw [render_sel_length] at hf
      rw [render_sel]
      have hn1 := nextToken_sel T st src pos name (render rest) F
      obtain ⟨k1, hk1, hn2⟩ := PlainFootnote.nextToken_brace T src (pos + 15) '{'
        (name ++ '}' :: render rest) (Or.inl rfl) F.lb
      obtain ⟨k2, hk2, hn3⟩ := PlainFootnote.nextToken_brace T src
        (pos + 16 + name.length) '}' (render rest) (Or.inr rfl) F.rb
      obtain ⟨f, rfl⟩ : ∃ f, fuel = f + 2 := ⟨fuel - 2, by omega⟩
      obtain ⟨bsteps, B, hrun⟩ := PlainFootnote.scanSteps_textrun T st src ('}' :: render rest)
        (by simp; decide) name.length name (pos + 16) f (Nat.le_refl _) (by omega) F.text
      have hBl := B.len
      obtain ⟨g, hg⟩ : ∃ g, f - bsteps.length = g + 1 := ⟨f - bsteps.length - 1, by omega⟩
      obtain ⟨steps', ps', hsc, hok', hflat, I⟩ := ih g (pos + (name.length + 17))
        (setLang T st (codeOfName T name)) (by omega) hrest
      have hpos2 : pos + 16 + name.length + 1 = pos + (name.length + 17) := by omega
      have hd1 : ('\\' :: (selName ++ '{' :: (name ++ '}' :: render rest))).drop 15
          = '{' :: (name ++ '}' :: render rest) := by
        have h15 : (15 : Nat) = selName.length + 1 := by decide
        rw [h15, List.drop_succ_cons, List.drop_left]
      have hsteps : scanSteps T.toTables src (f + 2) pos
            ('\\' :: (selName ++ '{' :: (name ++ '}' :: render rest)))
          = ({ tok := cwTok pos selName, len := 15 } ::
              { tok := { kind := k1, pos := pos + 15, txt := ['{'] }, len := 1 } ::
              (bsteps ++
                { tok := { kind := k2, pos := pos + 16 + name.length, txt := ['}'] },
                  len := 1 } :: steps'), true) := by
        rw [scanSteps_step T.toTables src (f + 1) pos _ _ _ hn1 (by simp)]
        simp only [hd1]
        rw [scanSteps_step T.toTables src f _ _ _ _ hn2 (by simp)]
        simp only [List.drop_succ_cons, List.drop_zero]
        rw [show pos + 15 + 1 = pos + 16 by omega, hrun, hg]
        have hn3' := scanSteps_step T.toTables src g _ _ _ _ hn3 (by simp)
        simp only [List.drop_succ_cons, List.drop_zero, hpos2, hsc] at hn3'
        rw [hn3']
      refine ⟨_, .sel (cwTok pos selName) { kind := k1, pos := pos + 15, txt := ['{'] }
            (bsteps.map (·.tok))
            { kind := k2, pos := pos + 16 + name.length, txt := ['}'] } :: ps',
        hsteps, ?_, ?_, ?_⟩
      · intro x hx
        simp only [List.mem_cons, List.mem_append] at hx
        rcases hx with rfl | rfl | hx | rfl | hx
        · exact ⟨rfl, rfl⟩
        · exact ⟨rfl, rfl⟩
        · exact ⟨(B.ok x hx).1, (B.ok x hx).2.1⟩
        · exact ⟨rfl, rfl⟩
        · exact hok' x hx
      · simp [flat, Piece.toks, hflat]
      · exact PieceFacts_sel k1 k2 hk1 hk2 F B I

/-! ### `scan`, `parserWork`, `parse`, `tex2txt` -/

theorem PiecesOk.notComment {T : PTables} : ∀ {ps : List Piece} {st : PState}, PiecesOk T st ps →
    ∀ t ∈ flat ps, t.kind ≠ .comment
  | [], _, _, _, h => by simp [flat] at h
  | .tok t :: rest, _, hok, x, hx => by
    simp only [flat, Piece.toks, List.singleton_append, List.mem_cons] at hx
    rcases hx with rfl | hx
    · exact hok.1.plain.notComment
    · exact PiecesOk.notComment hok.2 x hx
  | .sel hd lb b rb :: rest, _, hok, x, hx => by
    obtain ⟨h1, h2, h3, _, hb, _, _, hrest⟩ := hok
    simp only [flat, Piece.toks, List.cons_append, List.append_assoc, List.mem_cons,
      List.mem_append, List.nil_append] at hx
    rcases hx with rfl | rfl | hx | rfl | hx
    · rw [h1.kind]; simp
    · rcases h2.kind with k | k <;> simp [k]
    · exact (hb x hx).plain.notComment
    · rcases h3.kind with k | k <;> simp [k]
    · exact PiecesOk.notComment hrest x hx

/-- `scan` on a well-formed document: no diagnostics; the token buffer consists of copied tokens
    and switches -/
theorem scan_segs (T : PTables) (st : PState) (segs : List Seg) (hok : segsOk T st segs = true) :
    (scan T.toTables (render segs)).diags = [] ∧
    ∃ ps, (scan T.toTables (render segs)).toks = flat ps ∧ PieceFacts T st 0 segs ps := by
  obtain ⟨steps, ps, hsc, hok', hflat, F⟩ := scanSteps_segs T (render segs) segs
    (render segs).length 0 st (Nat.le_refl _) hok
  have he := flatten_tok_extra steps (fun s hs => (hok' s hs).2)
  have hd := flatten_diag_nil steps (fun s hs => (hok' s hs).1)
  simp only [scan, hsc]
  rw [he, hd]
  exact ⟨rfl, ps, hflat, F⟩

theorem selOk_congr (T : PTables) (st st' : PState) (hm : st'.macros = st.macros)
    (hl : st'.langStack = st.langStack) (name R : Str) : selOk T st' name R = selOk T st name R := by
  simp only [selOk, lookupMacro, hm, PlainFootnote.textOk_congr T st st' hl,
    noEmptyActive_congr T st st' hl]

theorem segsOk_congr (T : PTables) : ∀ (segs : List Seg) (st st' : PState),
    st'.macros = st.macros → st'.langStack = st.langStack → segsOk T st' segs = segsOk T st segs
  | [], _, _, _, _ => rfl
  | .txt s :: rest, st, st', hm, hl => by
    simp only [segsOk, PlainFootnote.textOk_congr T st st' hl, segsOk_congr T rest st st' hm hl]
  | .sel n :: rest, st, st', hm, hl => by
    simp only [segsOk, selOk_congr T st st' hm hl,
      segsOk_congr T rest (setLang T st (codeOfName T n)) (setLang T st' (codeOfName T n))
        (by simp [hm]) (by simp [hl])]

/-- the final tokens: what the blank-line removal leaves of `outMain` -/
theorem removeLines_outMain {T : PTables} {st : PState} {segs : List Seg} {ps : List Piece}
    (F : PieceFacts T st 0 segs ps) :
    ∃ r, removeLines (outMain T ps) = some r ∧ itemsOf r = delLines (segMarks T 0 segs) ∧
      ∀ t ∈ r, isLang t = true → HardTok t ∧ langBrk t = T.selectBrk := by
  obtain ⟨r, hr, hitems⟩ := LinesLang.removeLines_items (outMain T ps) F.simple
  refine ⟨r, hr, by rw [hitems, F.marks], ?_⟩
  intro t ht hl
  have hsub := removeLines_lang (outMain T ps) r
    (fun t ht hx => (F.simple t ht).1 hx) hr
  have : t ∈ (outMain T ps).filter isLang := by
    rw [← hsub]; exact List.mem_filter.mpr ⟨ht, hl⟩
  exact F.hard t (List.mem_filter.mp this).1 hl

/-- the state after the document: only the language stack changes -/
theorem finalSt_frame (T : PTables) : ∀ (ps : List Piece) (st : PState),
    ∃ ls, finalSt T st ps = { st with langStack := ls }
  | [], st => ⟨st.langStack, rfl⟩
  | .tok _ :: rest, st => finalSt_frame T rest st
  | .sel _ _ b _ :: rest, st => by
    obtain ⟨ls, h⟩ := finalSt_frame T rest (setLang T st (codeOf T b))
    refine ⟨ls, ?_⟩
    simp only [finalSt]
    rw [h, setLang_eq]

/-- **`parserWork` on a well-formed document** in multi-language mode.  The result tokens are
    what the blank-line removal leaves of `outMain`; only the language stack of the state
    changes. -/
theorem parserWork_sel (T : PTables) (st : PState) (segs : List Seg) (fuel : Nat)
    (hf : (render segs).length + 2 ≤ fuel) (hml : st.multiLanguage = true)
    (hok : segsOk T st segs = true) :
    ∃ r ls, parserWork T fuel (render segs) st = .ok (r, { st with langStack := ls }) ∧
      itemsOf r = delLines (segMarks T 0 segs) ∧
      ∀ t ∈ r, isLang t = true → HardTok t ∧ langBrk t = T.selectBrk := by
  obtain ⟨f, rfl⟩ : ∃ f, fuel = f + 1 := ⟨fuel - 1, by omega⟩
  obtain ⟨hd, ps, hflat, F⟩ := scan_segs T st segs hok
  obtain ⟨r, hr, hitems, hhard⟩ := removeLines_outMain F
  have hcost := F.cost
  obtain ⟨ls, hls⟩ := finalSt_frame T ps { st with latex := render segs, nest := st.nest + 1 }
  refine ⟨r, ls, ?_, hitems, hhard⟩
  have hseq := seq_sels T none ps f [] { st with latex := render segs, nest := st.nest + 1 }
    (by omega) hml
    (PiecesOk.congr (st := st) (st' := { st with latex := render segs, nest := st.nest + 1 }) rfl rfl F.ok)
  rw [List.nil_append, hr] at hseq
  simp only [] at hseq
  rw [parserWork.eq_2]
  refine (M.bind_ok _ _ _ _ _ (rfl : M.get st = _)).trans ?_
  refine (M.bind_ok _ _ _ _ _ (rfl : M.modify _ _ = _)).trans ?_
  refine (M.bind_ok _ _ _ _ _ (rfl : M.modify _ _ = _)).trans ?_
  refine (M.bind_ok _ _ _ _ _ (rfl : M.get _ = _)).trans ?_
  simp only [hd, List.append_nil]
  rw [skipPass_nocomment _ _ _ (fun t ht' => F.ok.notComment t (by rw [← hflat]; exact ht'))]
  simp only []
  refine (M.bind_ok _ _ _ _ _ (rfl : (pure _ : M (List Tok)) _ = _)).trans ?_
  rw [hflat]
  refine (M.bind_ok _ _ _ _ _ hseq).trans ?_
  refine (M.bind_ok _ _ _ _ _ (rfl : M.modify _ _ = _)).trans ?_
  show Outcome.ok _ = _
  rw [hls]
  simp only [Nat.add_sub_cancel]

/-- **`parse` on a well-formed document** (no `--defs`, no `--extr`), multi-language mode -/
theorem parse_sel (T : PTables) (st : PState) (segs : List Seg) (fuel : Nat)
    (hf : (render segs).length + 2 ≤ fuel) (hml : st.multiLanguage = true)
    (hok : segsOk T st segs = true) :
    ∃ r ls, parse T fuel (render segs) [] [] st
        = .ok (r, { st with extracted := [], unknowns := [], foreign := false, nest := 0,
                            langStack := ls }) ∧
      itemsOf r = delLines (segMarks T 0 segs) ∧
      ∀ t ∈ r, isLang t = true → HardTok t ∧ langBrk t = T.selectBrk := by
  have hok' : segsOk T { st with extracted := [], unknowns := [], foreign := false, nest := 0 } segs
      = true :=
    (segsOk_congr T segs st { st with extracted := [], unknowns := [], foreign := false, nest := 0 }
      rfl rfl).trans hok
  obtain ⟨r, ls, hw, hitems, hhard⟩ := parserWork_sel T
    { st with extracted := [], unknowns := [], foreign := false, nest := 0 } segs fuel hf hml hok'
  refine ⟨r, ls, ?_, hitems, hhard⟩
  unfold parse
  simp only [List.isEmpty_nil, Bool.not_true, Bool.false_eq_true, if_false, if_true]
  refine (M.bind_ok _ _ _ _ _ (rfl : M.modify _ _ = _)).trans ?_
  refine (M.bind_ok _ _ _ _ _ (rfl : (pure _ : M (List Tok)) _ = _)).trans ?_
  refine (M.bind_ok _ _ _ _ _ (rfl : M.modify _ _ = _)).trans ?_
  refine (M.bind_ok _ _ _ _ _ hw).trans ?_
  refine (M.bind_ok _ _ _ _ _ (rfl : M.get _ = _)).trans ?_
  show Outcome.ok _ = _
  simp

/-! ### the reference output -/

/-- 1-based positions, as `tex2txt` reports them -/
def shiftParts (ps : Parts) : Parts := ps.map (fun e => (e.1, e.2.map (fun tp => (tp.1, tp.2.map (· + 1)))))

/-- what is left of the document after the blank-line removal: the text characters with their
    (0-based) source positions and the language tokens of the switches; a line that consists of
    white space and switches only is deleted with its line break, the switches stay -/
def refItems (T : PTables) (segs : List Seg) : List Item := delLines (segMarks T 0 segs)

/-- the sections of the document: `refItems` is cut at every switch that changes the language
    code (initial code: `mainLang`); a run without characters yields no section -/
def refSecs (T : PTables) (mainLang : Str) (segs : List Seg) : List Sec :=
  cutRuns mainLang false [] (refItems T segs)

/-- the expected `parts` of the result: the sections grouped by language code, positions 1-based -/
def refParts (T : PTables) (mainLang : Str) (segs : List Seg) : Parts :=
  shiftParts (groupSecs (refSecs T mainLang segs))

/-- the result record of `tex2txt` on a well-formed document in multi-language mode -/
theorem tex2txt_sel_record (T : PTables) (o : Options) (fs : FS) (thresh : Nat) (segs : List Seg)
    (fuel : Nat) (st1 : PState)
    (hdefs : o.defs = []) (hextr : o.extr = []) (hrepl : o.hasRepl = false)
    (hbrk : T.selectBrk = true)
    (hinit : initParser T fuel o (initialState T o true fs) = .ok ((), st1))
    (hml : st1.multiLanguage = true) (hok : segsOk T st1 segs = true)
    (hf : (render segs).length + 2 ≤ fuel) :
    ∃ toks, itemsOf toks = refItems T segs ∧
      tex2txt T fuel (render segs) o true thresh fs
        = .ok { toks := toks, txt := [], pos := [], parts := refParts T o.lang segs, unknowns := [],
                diags := st1.diags, foreign := false } := by
  obtain ⟨r, ls, hp, hitems, hhard⟩ := parse_sel T st1 segs fuel hf hml hok
  refine ⟨r, hitems, ?_⟩
  have hrun : (initParser T fuel o >>= fun _ => parse T fuel (render segs) o.defs
        (if o.extr.isEmpty then [] else (splitOn ',' o.extr []).map (fun s => '\\' :: s)))
        (initialState T o true fs)
      = .ok (r, { st1 with extracted := [], unknowns := [], foreign := false, nest := 0,
                           langStack := ls }) := by
    refine (M.bind_ok _ _ _ _ _ hinit).trans ?_
    rw [hdefs, hextr]
    exact hp
  have hml' := getTxtPosML_hard r o.lang thresh (st1.rots.map (fun r => (r.code, r.chg)))
    (fun t ht hl => ⟨(hhard t ht hl).1, by rw [(hhard t ht hl).2, hbrk]⟩)
  unfold tex2txt
  simp only []
  rw [hrun]
  simp only [Bool.not_true, Bool.false_eq_true, if_false, hml', hrepl, Bool.false_and, hitems,
    List.map_id']
  rfl

/-- **C12 for `\selectlanguage`, end to end.**  The document is a sequence of inert text segments
    and hard language switches `\selectlanguage{name}` (`segsOk`); package babel is loaded, `st1`
    is the parser state after `Parser.__init__` in multi-language mode; no `--defs`, `--extr`,
    `--repl`; `lang_change_break['selectlanguage']` is set.  With one unit of fuel per source
    character plus two, `tex2txt` succeeds; the parts are `refParts`, nothing is reported as
    unknown and no diagnostic is added. -/
theorem tex2txt_selectlanguage (T : PTables) (o : Options) (fs : FS) (thresh : Nat) (segs : List Seg)
    (fuel : Nat) (st1 : PState)
    (hdefs : o.defs = []) (hextr : o.extr = []) (hrepl : o.hasRepl = false)
    (hbrk : T.selectBrk = true)
    (hinit : initParser T fuel o (initialState T o true fs) = .ok ((), st1))
    (hml : st1.multiLanguage = true) (hok : segsOk T st1 segs = true)
    (hf : (render segs).length + 2 ≤ fuel) :
    ∃ r, tex2txt T fuel (render segs) o true thresh fs = .ok r ∧
      r.parts = refParts T o.lang segs ∧ r.unknowns = [] ∧ r.diags = st1.diags ∧
      r.foreign = false := by
  obtain ⟨toks, _, ht⟩ := tex2txt_sel_record T o fs thresh segs fuel st1 hdefs hextr hrepl hbrk hinit
    hml hok hf
  exact ⟨_, ht, rfl, rfl, rfl, rfl⟩

end PlainLang
end Yalafi
