/-
  Proofs/SystemWordGroup.lean — SYSTEM LEVEL for documents of inert text, brace groups and
  undeclared control words with braced arguments at any depth (`PlainGroup`, the grammar of
  `C03_unknown_args_e2e` / `C02_unknown_args_positions`): the filter's theorem composed with the
  shell's pipeline.

  For these documents EVERY output character is a copy of the source character at its position
  (C02).  Hence the only hypothesis on the flagged stretch is that its map entries are consecutive
  (`RunAt`: no markup was removed inside the stretch) — `flagged_run_group`:
  for every plain offset `off` and length `l ≥ 1` with `RunAt r.pos off l (p + 1)`
    * the flagged text `r.txt[off … off+l)` IS the source text `src[p … p+l)`;
    * `map_match_position` (on the map padded in any way) yields offset `p` and length `l` — the
      macro-name extension never applies, a text character is no backslash;
    * all reports are those of the source word: `WordReported src p l`;
    * the HTML highlight is the source word: `HtmlWord` (for a padding without negative entries).
  `copied_run_group` (the lemma `copied_run_contiguous` for this grammar): every stretch `w` of text
  characters of the flattened document (`atoms doc = A ++ w.map .chr ++ B`: inside one run of text,
  no brace or control word in between) whose first and last character are no white space appears
  in the plain text, as a run that is mapped to its own source offset `|renderA A|`.

  NOT covered here: what `PlainGroup` does not cover.  The hypothesis `wordEnds` is needed: white
  space at the ends of a stretch may be deleted by `skip_space` behind a control word or with a
  blank line of markup.
-/
import YalafiVerif.Proofs.SystemWordRun
import YalafiVerif.Proofs.PlainGroup
namespace Yalafi
namespace SystemWord

open PlainMacro Reports

/-! ### lists -/

theorem take_drop_eq_of_get {α} (a b : List α) (o p l : Nat) (h : ∀ i, i < l → a[o + i]? = b[p + i]?) :
    (a.drop o).take l = (b.drop p).take l := by
  apply List.ext_getElem?
  intro i
  rcases Nat.lt_or_ge i l with hi | hi
  · rw [List.getElem?_take_of_lt hi, List.getElem?_take_of_lt hi, List.getElem?_drop, List.getElem?_drop]
    exact h i hi
  · rw [List.getElem?_eq_none (by simp; omega), List.getElem?_eq_none (by simp; omega)]

/-- the general form: a run whose characters are copies of the source characters at their
    positions is the source word -/
theorem run_is_source_word (src : Str) (out : List (Char × Nat)) (off l p : Nat) (hl : 1 ≤ l)
    (hrun : RunAt (out.map (·.2 + 1)) off l (p + 1))
    (hcopy : ∀ cp ∈ out, src[cp.2]? = some cp.1) :
    p + l ≤ src.length ∧ ((out.map (·.1)).drop off).take l = (src.drop p).take l ∧
    ∃ c, src[p]? = some c ∧ (c, p) ∈ out := by
  have hget : ∀ i, i < l → ∃ cp, out[off + i]? = some cp ∧ cp.2 = p + i ∧ src[p + i]? = some cp.1 := by
    intro i hi
    have h1 := hrun.get i hi
    rw [List.getElem?_map] at h1
    cases ho : out[off + i]? with
    | none => rw [ho] at h1; cases h1
    | some cp =>
      rw [ho] at h1
      simp only [Option.map_some, Option.some.injEq] at h1
      have h2 : cp.2 = p + i := by omega
      refine ⟨cp, rfl, h2, ?_⟩
      rw [← h2]
      exact hcopy cp (List.mem_of_getElem? ho)
  refine ⟨?_, ?_, ?_⟩
  · obtain ⟨cp, _, _, h3⟩ := hget (l - 1) (by omega)
    have : p + (l - 1) < src.length := by
      rcases Nat.lt_or_ge (p + (l - 1)) src.length with h | h
      · exact h
      · rw [List.getElem?_eq_none h] at h3; cases h3
    omega
  · apply take_drop_eq_of_get
    intro i hi
    obtain ⟨cp, h1, _, h3⟩ := hget i hi
    rw [List.getElem?_map, h1, h3]
    rfl
  · obtain ⟨cp, h1, h2, h3⟩ := hget 0 (by omega)
    refine ⟨cp.1, by simpa using h3, ?_⟩
    have : cp = (cp.1, p) := by rw [← (show cp.2 = p by simpa using h2)]
    rw [← this]
    exact List.mem_of_getElem? h1

/-! ### the reference of `PlainGroup`: every character is a copy, no character is a backslash -/

theorem group_copy (T : PTables) (st1 : PState) (doc : List PlainGroup.Item)
    (hok : PlainGroup.DocOk T st1 doc) :
    ∀ cp ∈ delLines (PlainGroup.marks 0 doc),
      (PlainGroup.render doc)[cp.2]? = some cp.1 ∧ cp.1 ≠ '\\' := by
  intro cp hcp
  have hm := PlainVanish.delLines_mem hcp
  obtain ⟨_, hsrc⟩ := PlainGroup.marksA_src (c := cp.1) (q := cp.2) hm
  refine ⟨by rw [PlainGroup.render_eq]; simpa using hsrc, ?_⟩
  exact (PlainGroup.not_markup (PlainGroup.atomsOk_chr hok.2 (PlainGroup.marksA_text hm))).1

/-- **a flagged run of a `PlainGroup` document, through filter and shell** -/
theorem flagged_run_group (T : PTables) (o : Options) (fs : FS) (thresh : Nat)
    (doc : List PlainGroup.Item) (fuel : Nat) (st1 : PState)
    (hdefs : o.defs = []) (hextr : o.extr = []) (hrepl : o.hasRepl = false) (hunkn : o.unkn = false)
    (hinit : initParser T fuel o (initialState T o false fs) = .ok ((), st1))
    (hok : PlainGroup.DocOk T st1 doc) (hf : (PlainGroup.render doc).length + 2 ≤ fuel) :
    ∃ r, tex2txt T fuel (PlainGroup.render doc) o false thresh fs = .ok r ∧
      r.txt.length = r.pos.length ∧
      ∀ (off l p : Nat) (pad : List Int), 1 ≤ l → RunAt r.pos off l (p + 1) →
        p + l ≤ (PlainGroup.render doc).length ∧
        (r.txt.drop off).take l = ((PlainGroup.render doc).drop p).take l ∧
        mapMatch (natMap r.pos ++ pad) (PlainGroup.render doc) (off : Int) (some (.int l))
          = .ok ((p : Int), (l : Int)) ∧
        reportAll (natMap r.pos ++ pad) (PlainGroup.render doc) (off : Int) (some (.int l))
          = .ok (locate (PlainGroup.render doc) p l) ∧
        WordReported (PlainGroup.render doc) p l (locate (PlainGroup.render doc) p l) ∧
        ((∀ c ∈ pad, 0 ≤ c) → HtmlWord (PlainGroup.render doc) (natMap r.pos ++ pad) off l p) := by
  obtain ⟨r, h1, h2, h3, _⟩ :=
    PlainGroup.tex2txt_groups T o fs thresh doc fuel st1 hdefs hextr hrepl hunkn hinit hok hf
  refine ⟨r, h1, by rw [h2, h3]; simp, ?_⟩
  intro off l p pad hl hrun
  have hc := group_copy T st1 doc hok
  have hrun' := hrun
  rw [h3] at hrun'
  obtain ⟨a1, a2, c, a3, a4⟩ := run_is_source_word (PlainGroup.render doc) _ off l p hl hrun'
    (fun cp hcp => (hc cp hcp).1)
  have hbs : ¬ (l = 1 ∧ (PlainGroup.render doc)[p]? = some '\\') := by
    rintro ⟨_, hb⟩
    rw [a3] at hb
    cases hb
    exact (hc _ a4).2 rfl
  rw [← h2] at a2
  exact ⟨a1, a2, mapMatch_run _ r.pos pad off l p hl hrun hbs,
    reportAll_run _ r.pos pad off l p hl hrun hbs, locate_word _ p l hl a1,
    fun hpad => html_run _ r.pos pad off l p hl hrun hbs (by omega) hpad⟩

/-! ### `copied_run_contiguous` for `PlainGroup` -/

theorem dropWhile_stop {α} (q : α → Bool) (m : α) (M' : List α) (hm : q m = false) :
    ∀ X : List α, ∃ X', (X ++ m :: M').dropWhile q = X' ++ m :: M'
  | [] => ⟨[], by simp [hm]⟩
  | x :: xs => by
    obtain ⟨X', hX⟩ := dropWhile_stop q m M' hm xs
    simp only [List.cons_append, List.dropWhile_cons]
    split
    · exact ⟨X', hX⟩
    · exact ⟨x :: xs, rfl⟩

theorem dropSp_stop (X : List Mark) (m : Mark) (M' : List Mark) (hm : PlainGroup.spMark m = false) :
    ∃ X', PlainGroup.dropSp (X ++ m :: M') = X' ++ m :: M' := by
  unfold PlainGroup.dropSp
  split
  · exact dropWhile_stop _ m M' hm X
  · exact ⟨X, rfl⟩

/-- the marks of a document `A ++ R` end with the marks of `R` at its own position, if these begin
    with a visible character (else `skip_space` behind a control word of `A` may take white space
    of `R`) -/
theorem marksA_append_stop (R : List PlainGroup.Atom) :
    ∀ (A : List PlainGroup.Atom) (p : Nat) (m : Mark) (M' : List Mark),
      PlainGroup.marksA (p + (PlainGroup.renderA A).length) R = m :: M' → PlainGroup.spMark m = false →
      ∃ X, PlainGroup.marksA p (A ++ R) = X ++ m :: M'
  | [], p, m, M', h, _ => ⟨[], by simpa [PlainGroup.renderA] using h⟩
  | .chr c :: A, p, m, M', h, hm => by
    obtain ⟨X, hX⟩ := marksA_append_stop R A (p + 1) m M'
      (by rw [← h]; simp [PlainGroup.renderA, PlainGroup.Atom.render]; congr 1; omega) hm
    exact ⟨some (c, p) :: X, by simp [PlainGroup.marksA, hX]⟩
  | .opn :: A, p, m, M', h, hm => by
    obtain ⟨X, hX⟩ := marksA_append_stop R A (p + 1) m M'
      (by rw [← h]; simp [PlainGroup.renderA, PlainGroup.Atom.render]; congr 1; omega) hm
    exact ⟨none :: X, by simp [PlainGroup.marksA, hX]⟩
  | .cls :: A, p, m, M', h, hm => by
    obtain ⟨X, hX⟩ := marksA_append_stop R A (p + 1) m M'
      (by rw [← h]; simp [PlainGroup.renderA, PlainGroup.Atom.render]; congr 1; omega) hm
    exact ⟨none :: X, by simp [PlainGroup.marksA, hX]⟩
  | .cw name :: A, p, m, M', h, hm => by
    obtain ⟨X, hX⟩ := marksA_append_stop R A (p + (name.length + 1)) m M'
      (by rw [← h]; simp [PlainGroup.renderA, PlainGroup.Atom.render]; congr 1; omega) hm
    obtain ⟨X', hX'⟩ := dropSp_stop X m M' hm
    exact ⟨none :: X', by simp [PlainGroup.marksA, hX, hX']⟩

theorem marksA_chr (B : List PlainGroup.Atom) : ∀ (w : Str) (p : Nat),
    PlainGroup.marksA p (w.map .chr ++ B) = (posText p w).map some ++ PlainGroup.marksA (p + w.length) B
  | [], p => by simp [posText]
  | c :: w, p => by
    simp only [List.map_cons, List.cons_append, PlainGroup.marksA, posText, marksA_chr B w (p + 1),
      List.length_cons]
    rw [show p + 1 + w.length = p + (w.length + 1) by omega]

theorem posText_word {w : Str} (p : Nat) (h : wordEnds w = true) :
    (∃ w0 W', posText p w = w0 :: W' ∧ isSpace w0.1 = false) ∧
    (∀ wl, (posText p w).getLast? = some wl → isSpace wl.1 = false) := by
  obtain ⟨⟨c, cs, rfl, hc⟩, hlast⟩ := wordEnds_facts h
  refine ⟨⟨(c, p), posText (p + 1) cs, rfl, hc⟩, ?_⟩
  intro wl hwl
  apply hlast wl.1
  have := congrArg (Option.map (·.1)) hwl
  rw [← List.getLast?_map, posText_fst] at this
  simpa using this

/-- **`copied_run_contiguous` for `PlainGroup`**: a stretch of text characters of the document whose
    ends are no white space is a run of the output, mapped to its own source offset -/
theorem copied_run_group (T : PTables) (o : Options) (fs : FS) (thresh : Nat)
    (doc : List PlainGroup.Item) (fuel : Nat) (st1 : PState)
    (hdefs : o.defs = []) (hextr : o.extr = []) (hrepl : o.hasRepl = false) (hunkn : o.unkn = false)
    (hinit : initParser T fuel o (initialState T o false fs) = .ok ((), st1))
    (hok : PlainGroup.DocOk T st1 doc) (hf : (PlainGroup.render doc).length + 2 ≤ fuel)
    (A B : List PlainGroup.Atom) (w : Str) (hdoc : PlainGroup.atoms doc = A ++ (w.map .chr ++ B))
    (hw : wordEnds w = true) :
    ((PlainGroup.render doc).drop (PlainGroup.renderA A).length).take w.length = w ∧
    ∃ r, tex2txt T fuel (PlainGroup.render doc) o false thresh fs = .ok r ∧
      ∃ off, off + w.length ≤ r.txt.length ∧
        RunAt r.pos off w.length ((PlainGroup.renderA A).length + 1) ∧
        (r.txt.drop off).take w.length = w := by
  refine ⟨?_, ?_⟩
  · rw [PlainGroup.render_eq, hdoc, PlainGroup.renderA_append, PlainGroup.renderA_append,
      PlainGroup.renderA_chr, List.drop_left, List.take_left]
  obtain ⟨r, h1, h2, h3, _⟩ :=
    PlainGroup.tex2txt_groups T o fs thresh doc fuel st1 hdefs hextr hrepl hunkn hinit hok hf
  refine ⟨r, h1, ?_⟩
  obtain ⟨hW, hlast⟩ := posText_word (PlainGroup.renderA A).length hw
  obtain ⟨w0, W', hW0, hw0⟩ := hW
  have hm : PlainGroup.marksA (0 + (PlainGroup.renderA A).length) (w.map .chr ++ B)
      = some w0 :: (W'.map some ++ PlainGroup.marksA (0 + (PlainGroup.renderA A).length + w.length) B) := by
    rw [marksA_chr, Nat.zero_add, hW0]; simp
  obtain ⟨X, hX⟩ := marksA_append_stop _ A 0 _ _ hm (by simpa [PlainGroup.spMark] using hw0)
  have hmarks : PlainGroup.marks 0 doc
      = X ++ ((posText (PlainGroup.renderA A).length w).map some
          ++ PlainGroup.marksA (0 + (PlainGroup.renderA A).length + w.length) B) := by
    unfold PlainGroup.marks
    rw [hdoc, hX, hW0]; simp
  obtain ⟨X', Y, hd⟩ := delLines_word X (PlainGroup.marksA (0 + (PlainGroup.renderA A).length + w.length) B)
    (posText (PlainGroup.renderA A).length w) ⟨w0, W', hW0, hw0⟩ hlast
  rw [← hmarks] at hd
  have hlen : (posText (PlainGroup.renderA A).length w).length = w.length := by
    rw [← List.length_map (f := (·.1)), posText_fst]
  obtain ⟨b1, b2, b3⟩ := run_of_decomp _ X' _ Y (PlainGroup.renderA A).length hd
    (by rw [posText_snd, hlen])
  rw [hlen] at b1 b2 b3
  rw [posText_fst] at b3
  refine ⟨X'.length, ?_, ?_, ?_⟩
  · rw [h2]; simpa using b1
  · rw [h3]; exact b2
  · rw [h2]; exact b3

end SystemWord
end Yalafi
