/-
  Proofs/SystemMLMixE2E.lean — SYSTEM LEVEL, multi-language mode, documents of
  `C12_mixed_languages_e2e` (`\selectlanguage`, `\foreignlanguage`, `otherlanguage[*]` environments):
  the end-to-end theorems.

  `flagged_word_mlmix`   `w` a stretch with visible ends of a text segment or of the text of an
      insertion, `q` its file offset.  `tex2txt` succeeds; every request of the shell has a map as long
      as its text and is not blank; THERE IS a request number `i` and an offset `off` with the run
      `RunAt pos off |w| (q+1)` that spells `w`, submitted under `langAt T [o.lang] 0 segs q`; and for
      EVERY request and offset with that run and ANY answers of the proofreader the matches of that
      request are reported at `locate src q |w|` in all formats.
  `sorted_words_mlmix`   two such words are reported in file order.
  Statements: Properties/SystemMLMixStmt.lean.  Uniqueness of the request: Proofs/SystemMLMixUniq.lean.
-/
import YalafiVerif.Proofs.SystemMLMix
namespace Yalafi
namespace PlainLangMix
namespace Sys

open SystemWord Reports Html SystemML
open PlainForeign (lcOf)

theorem shellPieces_lengths (T : PTables) (main : Str) (thresh : Nat) (lc : LangChange) (segs : List Seg) :
    ∀ pc ∈ shellPieces (refParts T main thresh lc segs),
      pc.2.1.length = pc.2.2.length ∧ isBlank pc.2.1 = false := by
  intro pc hpc
  obtain ⟨e, he, _, htp, hb⟩ := mem_shellPieces.mp hpc
  exact ⟨refParts_lengths T main thresh lc segs e he pc.2 htp, hb⟩

/-- **a flagged word in multi-language mode, end to end through filter and shell** (documents of
    `C12_mixed_languages_e2e`); the statement is explained at `C14_flagged_word_mlmix_e2e` -/
theorem flagged_word_mlmix (T : PTables) (o : Options) (fs : FS) (thresh : Nat) (segs : List Seg)
    (fuel : Nat) (st1 : PState)
    (hdefs : o.defs = []) (hextr : o.extr = []) (hrepl : o.hasRepl = false)
    (hinit : initParser T fuel o (initialState T o true fs) = .ok ((), st1))
    (hml : st1.multiLanguage = true) (hstk : st1.langStack ≠ [])
    (hlc : lcOk (lcOf st1) = true)
    (hok : segsOk T st1 segs = true)
    (hf : (render segs).length + 2 ≤ fuel)
    (pre post : List Seg) (sg : Seg) (d : Nat) (a w b : Str) (hsegs : segs = pre ++ sg :: post)
    (hd : hostOff sg = some d) (ht : hostText sg = a ++ (w ++ b)) (hw : wordEnds w = true) :
    ((render segs).drop ((render pre).length + d + a.length)).take w.length = w ∧
    (render pre).length + d + a.length + w.length ≤ (render segs).length ∧
    ∃ r, tex2txt T fuel (render segs) o true thresh fs = .ok r ∧
      (∀ pc ∈ shellPieces r.parts, pc.2.1.length = pc.2.2.length ∧ isBlank pc.2.1 = false) ∧
      (∃ (i : Nat) (pc : Req) (off : Nat), (shellPieces r.parts)[i]? = some pc ∧
        off + w.length ≤ pc.2.1.length ∧
        RunAt pc.2.2 off w.length ((render pre).length + d + a.length + 1) ∧
        (pc.2.1.drop off).take w.length = w ∧
        pc.1 = langAt T [o.lang] 0 segs ((render pre).length + d + a.length)) ∧
      ∀ (i : Nat) (pc : Req) (off : Nat), (shellPieces r.parts)[i]? = some pc →
        RunAt pc.2.2 off w.length ((render pre).length + d + a.length + 1) →
        ∀ (subs : List Sub), subs.map (·.1) = (shellPieces r.parts).map (·.2) →
          ∃ x, subs[i]? = some x ∧ x.1 = pc.2 ∧
            (∀ m ∈ x.2, shiftMatch (shiftOf (subs.take i)) m ∈ (submit subs).hits) ∧
            off + shiftOf (subs.take i) + w.length < (submit subs).charmapTot.length ∧
            mapMatch (submit subs).charmapTot (render segs) ((off + shiftOf (subs.take i) : Nat) : Int)
                (some (.int w.length))
              = .ok ((((render pre).length + d + a.length : Nat) : Int), (w.length : Int)) ∧
            reportAll (submit subs).charmapTot (render segs) ((off + shiftOf (subs.take i) : Nat) : Int)
                (some (.int w.length))
              = .ok (locate (render segs) (((render pre).length + d + a.length : Nat) : Int) (w.length : Int)) ∧
            WordReported (render segs) ((render pre).length + d + a.length) w.length
              (locate (render segs) (((render pre).length + d + a.length : Nat) : Int) (w.length : Int)) ∧
            HtmlWord (render segs) (submit subs).charmapTot (off + shiftOf (subs.take i)) w.length
              ((render pre).length + d + a.length) := by
  obtain ⟨⟨c, cs, hwc, hc⟩, _⟩ := wordEnds_facts hw
  have hl : 1 ≤ w.length := by rw [hwc]; simp
  obtain ⟨L, R, hsrc, hL⟩ := word_source segs pre post sg d a w b hsegs hd ht
  have hword : ((render segs).drop ((render pre).length + d + a.length)).take w.length = w := by
    rw [hsrc, ← hL, List.drop_left, List.take_left]
  have hin : (render pre).length + d + a.length + w.length ≤ (render segs).length := by
    rw [hsrc]; simp; omega
  have hbs : ¬ (w.length = 1 ∧ (render segs)[(render pre).length + d + a.length]? = some '\\') := by
    rintro ⟨_, hb⟩
    have hget : (render segs)[(render pre).length + d + a.length]? = some c := by
      rw [hsrc, ← hL, List.getElem?_append_right (Nat.le_refl _), hwc]; simp
    rw [hget] at hb
    cases hb
    rw [hsegs] at hok
    rw [hwc] at ht
    exact host_not_backslash T st1 pre post sg d a (cs ++ b) '\\' hok hd (by simpa using ht) hc rfl
  obtain ⟨r, h1, h2, _⟩ := tex2txt_mix T o fs thresh segs fuel st1 hdefs hextr hrepl
    hinit hml hstk hlc hok hf
  refine ⟨hword, hin, r, h1, ?_, ?_, ?_⟩
  · rw [h2]
    exact shellPieces_lengths T o.lang thresh (lcOf st1) segs
  · obtain ⟨pc, hpc, off, g1, g2, g3, g4⟩ := word_in_piece T o.lang thresh (lcOf st1) segs pre post sg d a w b
      hsegs hd ht hw
    obtain ⟨i, hi, hget⟩ := List.getElem_of_mem hpc
    have hi' : (shellPieces (refParts T o.lang thresh (lcOf st1) segs))[i]? = some pc := by
      rw [List.getElem?_eq_getElem hi, hget]
    rw [h2]
    exact ⟨i, pc, off, hi', g1, g2, g3, g4⟩
  · intro i pc off hi hrun subs hsub
    rw [h2] at hi hsub
    obtain ⟨x, hx1, hx2, hx3, hx4⟩ := subs_split subs _ hsub i pc hi
    have hlen : ∀ y ∈ subs.take i, y.1.1.length = y.1.2.length := by
      intro y hy
      obtain ⟨pc', hpc', he⟩ := hx4 y hy
      rw [he]
      exact (shellPieces_lengths T o.lang thresh (lcOf st1) segs pc' hpc').1
    rw [← hx2] at hrun
    obtain ⟨k1, _, _, k4, k5, k6, k7, k8⟩ := ml_run_reported (render segs) (subs.take i) (subs.drop (i + 1)) x
      off w.length _ hl hlen hrun hin hbs
    rw [← hx3] at k1 k4 k5 k6 k8
    exact ⟨x, hx1, hx2, k1, k4, k5, k6, k7, k8⟩

/-- **two flagged words, possibly in pieces of different languages, are reported in the order of the
    file** (documents of `C12_mixed_languages_e2e`) -/
theorem sorted_words_mlmix (T : PTables) (o : Options) (fs : FS) (thresh : Nat) (segs : List Seg)
    (fuel : Nat) (st1 : PState)
    (hdefs : o.defs = []) (hextr : o.extr = []) (hrepl : o.hasRepl = false)
    (hinit : initParser T fuel o (initialState T o true fs) = .ok ((), st1))
    (hml : st1.multiLanguage = true) (hstk : st1.langStack ≠ [])
    (hlc : lcOk (lcOf st1) = true)
    (hok : segsOk T st1 segs = true)
    (hf : (render segs).length + 2 ≤ fuel)
    (pre1 post1 : List Seg) (sg1 : Seg) (d1 : Nat) (a1 w1 b1 : Str) (hsegs1 : segs = pre1 ++ sg1 :: post1)
    (hd1 : hostOff sg1 = some d1) (ht1 : hostText sg1 = a1 ++ (w1 ++ b1))
    (pre2 post2 : List Seg) (sg2 : Seg) (d2 : Nat) (a2 w2 b2 : Str) (hsegs2 : segs = pre2 ++ sg2 :: post2)
    (hd2 : hostOff sg2 = some d2) (ht2 : hostText sg2 = a2 ++ (w2 ++ b2))
    (hw1 : wordEnds w1 = true) (hw2 : wordEnds w2 = true)
    (hlt : (render pre1).length + d1 + a1.length < (render pre2).length + d2 + a2.length) :
    ∃ r, tex2txt T fuel (render segs) o true thresh fs = .ok r ∧
      (∃ (i1 : Nat) (pc1 : Req) (off1 i2 : Nat) (pc2 : Req) (off2 : Nat),
        (shellPieces r.parts)[i1]? = some pc1 ∧ (shellPieces r.parts)[i2]? = some pc2 ∧
        RunAt pc1.2.2 off1 w1.length ((render pre1).length + d1 + a1.length + 1) ∧
        RunAt pc2.2.2 off2 w2.length ((render pre2).length + d2 + a2.length + 1)) ∧
      ∀ (subs : List Sub) (i1 i2 : Nat) (x1 x2 : Sub) (m1 m2 : RawMatch) (off1 off2 : Nat) (out : List RawMatch),
        subs.map (·.1) = (shellPieces r.parts).map (·.2) →
        subs[i1]? = some x1 → subs[i2]? = some x2 → m1 ∈ x1.2 → m2 ∈ x2.2 →
        m1.offset = (off1 : Int) → m2.offset = (off2 : Int) →
        RunAt x1.1.2 off1 w1.length ((render pre1).length + d1 + a1.length + 1) →
        RunAt x2.1.2 off2 w2.length ((render pre2).length + d2 + a2.length + 1) →
        sortMatches (submit subs).charmapTot (submit subs).hits = .ok out →
        ∃ X Y Z, out = X ++ shiftMatch (shiftOf (subs.take i1)) m1
          :: (Y ++ shiftMatch (shiftOf (subs.take i2)) m2 :: Z) := by
  obtain ⟨r, h1, h2, _⟩ := tex2txt_mix T o fs thresh segs fuel st1 hdefs hextr hrepl
    hinit hml hstk hlc hok hf
  obtain ⟨⟨c1, cs1, hc1, _⟩, _⟩ := wordEnds_facts hw1
  obtain ⟨⟨c2, cs2, hc2, _⟩, _⟩ := wordEnds_facts hw2
  have hl1 : 1 ≤ w1.length := by rw [hc1]; simp
  have hl2 : 1 ≤ w2.length := by rw [hc2]; simp
  refine ⟨r, h1, ?_, ?_⟩
  · obtain ⟨pc1, hpc1, off1, _, g1, _⟩ := word_in_piece T o.lang thresh (lcOf st1) segs pre1 post1 sg1 d1
      a1 w1 b1 hsegs1 hd1 ht1 hw1
    obtain ⟨pc2, hpc2, off2, _, g2, _⟩ := word_in_piece T o.lang thresh (lcOf st1) segs pre2 post2 sg2 d2
      a2 w2 b2 hsegs2 hd2 ht2 hw2
    obtain ⟨i1, hi1, hget1⟩ := List.getElem_of_mem hpc1
    obtain ⟨i2, hi2, hget2⟩ := List.getElem_of_mem hpc2
    rw [h2]
    have e1 : (shellPieces (refParts T o.lang thresh (lcOf st1) segs))[i1]? = some pc1 := by
      rw [List.getElem?_eq_getElem hi1, hget1]
    have e2 : (shellPieces (refParts T o.lang thresh (lcOf st1) segs))[i2]? = some pc2 := by
      rw [List.getElem?_eq_getElem hi2, hget2]
    exact ⟨i1, pc1, off1, i2, pc2, off2, e1, e2, g1, g2⟩
  · intro subs i1 i2 x1 x2 m1 m2 off1 off2 out hsub hx1 hx2 hm1 hm2 ho1 ho2 hr1 hr2 hs
    rw [h2] at hsub
    have hlenAll : ∀ y ∈ subs, y.1.1.length = y.1.2.length := by
      intro y hy
      have : y.1 ∈ subs.map (·.1) := List.mem_map_of_mem hy
      rw [hsub] at this
      obtain ⟨pc', hpc', he⟩ := List.mem_map.mp this
      rw [← he]
      exact (shellPieces_lengths T o.lang thresh (lcOf st1) segs pc' hpc').1
    have split : ∀ (i : Nat) (x : Sub), subs[i]? = some x → subs = subs.take i ++ x :: subs.drop (i + 1) := by
      intro i x hx
      have hlt : i < subs.length := by
        rcases Nat.lt_or_ge i subs.length with h | h
        · exact h
        · rw [List.getElem?_eq_none h] at hx; cases hx
      rw [List.getElem?_eq_getElem hlt] at hx
      cases hx
      conv => lhs; rw [← List.take_append_drop i subs]
      rw [List.drop_eq_getElem_cons hlt]
    exact ml_runs_sorted subs _ _ _ _ x1 x2 (split i1 x1 hx1) (split i2 x2 hx2)
      (fun y hy => hlenAll y (List.mem_of_mem_take hy)) (fun y hy => hlenAll y (List.mem_of_mem_take hy))
      m1 m2 hm1 hm2 off1 w1.length _ off2 w2.length _ ho1 ho2 hl1 hl2 hr1 hr2 hlt out hs

end Sys
end PlainLangMix
end Yalafi
