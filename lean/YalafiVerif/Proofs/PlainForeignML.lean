/-
  Proofs/PlainForeignML.lean — the multi-language splitter `get_txt_pos_ml` (`utils.py`) on the
  token lists that documents of inert text and insertions `\foreignlanguage{name}{text}` produce.
  (First half of the END-TO-END theorem C12 for `\foreignlanguage`; the expander half and the file
  header with all side conditions are in Proofs/PlainForeign.lean.)

    `Seg`, `render`            the documents
    `secsItems`, `sections_secsItems`
                               the section loop of `get_txt_pos_ml` on the level of items (characters
                               with positions, language tokens) — GENERAL: soft switches (push), hard
                               switches (replace), switches back (pop)
    `docItems`                 the items of a document (after the blank-line removal, which deletes
                               nothing: Proofs/PlainForeign.lean)
    `refSecs`, `secsItems_doc` the sections of a document: main text / insertion / main text …
    `placeholder`, `appendPlaceholder_eq`
                               `ml_append_placeholder`
    `refOut`, `joinLoop_doc`   the joining loop on the sections of a document
    `refParts`, `getTxtPosML_doc`
-/
import YalafiVerif.Proofs.PlainLang
import YalafiVerif.Proofs.PlainLangCor
namespace Yalafi
namespace PlainForeign

open LinesLang (Item Mark ch isLg tokItems itemsOf delLines marksOf)
open PlainMacro (tokChars tokChars_fst)
open PlainLang (codeOfName langOf addPart groupSecs groupParts_fold shiftParts tokChars_snd)

/-! ### the documents -/

/-- a segment of the source: a run of text, or an insertion `\foreignlanguage{name}{body}` -/
inductive Seg where
  | txt (s : Str)
  | frn (name body : Str)
deriving Repr, DecidableEq

/-- `foreignlanguage` -/
def frnName : Str := "foreignlanguage".toList

def Seg.render : Seg → Str
  | .txt s => s
  | .frn name body => '\\' :: (frnName ++ '{' :: (name ++ '}' :: '{' :: (body ++ ['}'])))

/-- the source text -/
def render : List Seg → Str
  | [] => []
  | s :: rest => s.render ++ render rest

/-- offset of the first character of `body` in `\foreignlanguage{name}{body}` -/
def bodyOff (name : Str) : Nat := name.length + 19
/-- length of `\foreignlanguage{name}{body}` -/
def frnLen (name body : Str) : Nat := name.length + body.length + 20

/-! ### the section loop on the level of items -/

/-- a section -/
def mkSec (lang : Str) (back brk : Bool) (acc : List (Char × Nat)) : Sec :=
  { lang := lang, back := back, brk := brk, txt := acc.map (·.1), pos := acc.map (·.2) }

/-- the section that is closed: none if no character was collected -/
def emitSec (lang : Str) (back brk : Bool) (acc : List (Char × Nat)) : List Sec :=
  if acc.isEmpty then [] else [mkSec lang back brk acc]

/-- the language stack behind a language token (`lang_stack` in `get_txt_pos_ml`) -/
def stepStack (stack : List Str) (l : Str) (back hard : Bool) : List Str :=
  if back then (if stack.length > 1 then stack.tail else stack)
  else if hard then l :: stack.tail
  else l :: stack

/-- the section loop of `get_txt_pos_ml` on items: `stack` = the language stack, `back`, `brk` = the
    flags of the switch that started the current section, `acc` = its characters -/
def secsItems : List Str → Bool → Bool → List (Char × Nat) → List Item → List Sec
  | stack, back, brk, acc, [] => emitSec (stackTop stack) back brk acc
  | stack, back, brk, acc, .inl cp :: xs => secsItems stack back brk (acc ++ [cp]) xs
  | stack, back, brk, acc, .inr t :: xs =>
    match t.kind with
    | .lang l b h k =>
      if stackTop (stepStack stack l b h) == stackTop stack then
        secsItems (stepStack stack l b h) back brk acc xs
      else emitSec (stackTop stack) back brk acc ++ secsItems (stepStack stack l b h) b k [] xs
    | _ => secsItems stack back brk acc xs

theorem secsItems_ch : ∀ (l : List (Char × Nat)) (stack : List Str) (back brk : Bool)
    (acc : List (Char × Nat)) (xs : List Item),
    secsItems stack back brk acc (ch l ++ xs) = secsItems stack back brk (acc ++ l) xs
  | [], _, _, _, _, _ => by simp
  | cp :: l, stack, back, brk, acc, xs => by
    simp only [LinesLang.ch_cons, List.cons_append, secsItems]
    rw [secsItems_ch l]
    simp

/-- the invariant of the section loop -/
structure SecInv (s : SecState) (stack : List Str) (back brk : Bool) (acc : List (Char × Nat)) :
    Prop where
  stack : s.stack = stack
  back : s.swBack = back
  brk : s.swBrk = brk
  cur : getTxtPos s.cur = (acc.map (·.1), acc.map (·.2))

theorem closeSec_inv {s : SecState} {stack : List Str} {back brk : Bool} {acc : List (Char × Nat)}
    (h : SecInv s stack back brk acc) :
    closeSec s = s.secs ++ emitSec (stackTop stack) back brk acc := by
  unfold closeSec emitSec mkSec
  simp only [h.cur, h.stack, h.back, h.brk]
  cases acc with
  | nil => simp
  | cons a l => simp

/-- the section loop of `get_txt_pos_ml` is `secsItems` on the items -/
theorem sections_fold : ∀ (toks : List Tok) (s : SecState) (stack : List Str) (back brk : Bool)
    (acc : List (Char × Nat)), SecInv s stack back brk acc →
    closeSec (toks.foldl secStep s) = s.secs ++ secsItems stack back brk acc (itemsOf toks)
  | [], s, stack, back, brk, acc, h => by
    simp only [List.foldl_nil, itemsOf, List.flatMap_nil, secsItems]
    exact closeSec_inv h
  | t :: ts, s, stack, back, brk, acc, h => by
    rw [List.foldl_cons, LinesLang.itemsOf_cons]
    cases hl : isLang t with
    | false =>
      have hstep : secStep s t = { s with cur := s.cur ++ [t] } := by
        unfold secStep
        unfold isLang at hl
        split
        · rename_i hk; simp [hk] at hl
        · rfl
      have hinv : SecInv (secStep s t) stack back brk (acc ++ tokChars t) := by
        rw [hstep]
        refine ⟨h.stack, h.back, h.brk, ?_⟩
        simp only [getTxtPos_append, h.cur, getTxtPos, List.append_nil, List.map_append,
          tokChars_fst, tokChars_snd]
      rw [sections_fold ts _ stack back brk _ hinv, LinesLang.tokItems_notLang _ hl, secsItems_ch,
        hstep]
    | true =>
      obtain ⟨l, b, hd, k, hk⟩ : ∃ l b hd k, t.kind = .lang l b hd k := by
        unfold isLang at hl
        split at hl
        · rename_i l b hd k hk; exact ⟨l, b, hd, k, hk⟩
        · cases hl
      rw [LinesLang.tokItems_lang _ hl]
      simp only [List.singleton_append, secsItems, hk]
      have hst : (if b = true then (if s.stack.length > 1 then s.stack.tail else s.stack)
          else if hd = true then l :: s.stack.tail else l :: s.stack) = stepStack stack l b hd := by
        rw [h.stack]; rfl
      by_cases hsame : (stackTop (stepStack stack l b hd) == stackTop stack) = true
      · have hstep : secStep s t = { s with stack := stepStack stack l b hd } := by
          simp only [secStep, hk, hst]
          rw [h.stack, if_pos hsame]
        have hinv : SecInv (secStep s t) (stepStack stack l b hd) back brk acc := by
          rw [hstep]; exact ⟨rfl, h.back, h.brk, h.cur⟩
        rw [sections_fold ts _ _ back brk _ hinv, hstep, if_pos hsame]
      · have hstep : secStep s t
            = { stack := stepStack stack l b hd, swBack := b, swBrk := k, cur := [],
                secs := closeSec s } := by
          simp only [secStep, hk, hst]
          rw [h.stack, if_neg hsame]
        have hinv : SecInv (secStep s t) (stepStack stack l b hd) b k [] := by
          rw [hstep]; exact ⟨rfl, rfl, rfl, rfl⟩
        rw [sections_fold ts _ _ b k _ hinv, hstep, closeSec_inv h, if_neg hsame]
        simp

/-- **the section loop, in general**: `sections` only looks at the items of the token list -/
theorem sections_secsItems (toks : List Tok) (main : Str) :
    sections toks main = secsItems [main] false false [] (itemsOf toks) := by
  unfold sections
  rw [sections_fold toks _ [main] false false [] ⟨rfl, rfl, rfl, rfl⟩]
  simp

/-! ### the items and the sections of a document -/

/-- the language token `h_foreignlanguage` puts in front of the text -/
def openTok (T : PTables) (p : Nat) (code : Str) : Tok := mkLang p code false false T.foreignBrk
/-- the language token `h_foreignlanguage` puts behind the text -/
def backTok (p : Nat) : Tok := mkLang p [] true false false

/-- the items of a document that starts at position `p`: every text character with its (0-based)
    source position; an insertion contributes its opening language token, the characters of its
    text, and the token that switches back (position: the last scanner token of the text) -/
def docItems (T : PTables) : Nat → List Seg → List Item
  | _, [] => []
  | p, .txt s :: rest => ch (posText p s) ++ docItems T (p + s.length) rest
  | p, .frn n b :: rest =>
    .inr (openTok T p (codeOfName T n)) :: (ch (posText (p + bodyOff n) b) ++
      .inr (backTok (p + bodyOff n + PlainFootnote.lastTokOff b)) :: docItems T (p + frnLen n b) rest)

/-- the sections of a document: `back` = the current run of main-language text follows an
    insertion, `acc` = its characters so far -/
def refSecs (T : PTables) (main : Str) : Nat → Bool → List (Char × Nat) → List Seg → List Sec
  | _, back, acc, [] => emitSec main back false acc
  | p, back, acc, .txt s :: rest => refSecs T main (p + s.length) back (acc ++ posText p s) rest
  | p, back, acc, .frn n b :: rest =>
    emitSec main back false acc ++
      mkSec (codeOfName T n) false T.foreignBrk (posText (p + bodyOff n) b) ::
        refSecs T main (p + frnLen n b) true [] rest

/-- every insertion has a non-empty text in a language other than `main` -/
def frnsOk (T : PTables) (main : Str) : List Seg → Bool
  | [] => true
  | .txt _ :: rest => frnsOk T main rest
  | .frn n b :: rest => (codeOfName T n != main) && !b.isEmpty && frnsOk T main rest

theorem secsItems_doc (T : PTables) (main : Str) : ∀ (segs : List Seg) (p : Nat) (back : Bool)
    (acc : List (Char × Nat)), frnsOk T main segs = true →
    secsItems [main] back false acc (docItems T p segs) = refSecs T main p back acc segs
  | [], _, _, _, _ => rfl
  | .txt s :: rest, p, back, acc, h => by
    simp only [docItems, refSecs, secsItems_ch]
    exact secsItems_doc T main rest _ back _ h
  | .frn n b :: rest, p, back, acc, h => by
    simp only [frnsOk, Bool.and_eq_true, bne_iff_ne, ne_eq, Bool.not_eq_true',
      List.isEmpty_eq_false_iff] at h
    obtain ⟨⟨hc, hb⟩, hrest⟩ := h
    have hne : (codeOfName T n == main) = false := by simpa using hc
    have hne' : (main == codeOfName T n) = false := by
      simpa using (fun e : main = codeOfName T n => hc e.symm)
    have hbe : (posText (p + bodyOff n) b).isEmpty = false := by
      cases b with
      | nil => exact absurd rfl hb
      | cons c cs => rfl
    simp only [docItems, refSecs, secsItems, openTok, backTok, mkLang, stepStack, stackTop,
      List.headD_cons, hne, Bool.false_eq_true, if_false, secsItems_ch, List.nil_append, if_true,
      List.length_cons, List.length_nil, List.tail_cons, hne',
      show (1 : Nat) + 1 > 1 by omega, Nat.zero_add, Nat.reduceAdd, Nat.reduceLT, gt_iff_lt]
    rw [secsItems_doc T main rest _ true [] hrest]
    simp [emitSec, hbe]

/-! ### `ml_append_placeholder` -/

/-- what `ml_append_placeholder` appends to the surrounding section for the insertion `b` that
    starts at position `q`: the placeholder `r0`, every character of it at the position of the first
    visible character of `b`; in front of it the first character of `b` if that is white space,
    behind it the last one if that is white space (issue 117), at their own positions -/
def placeholder (r0 : Str) (q : Nat) (b : Str) : List (Char × Nat) :=
  (match b.head? with | some c0 => if isSpace c0 then [(c0, q)] else [] | none => []) ++
  r0.map (fun c => (c, q + idxOf (fun c => !isSpace c) b)) ++
  (match b.getLast? with | some cl => if isSpace cl then [(cl, q + (b.length - 1))] else [] | none => [])

theorem idxOf_lt (f : Char → Bool) : ∀ (s : Str), s.any f = true → idxOf f s < s.length
  | [], h => by simp at h
  | c :: cs, h => by
    simp only [idxOf]
    split
    · simp
    · rename_i hc
      have : cs.any f = true := by simpa [hc] using h
      have := idxOf_lt f cs this
      simp only [List.length_cons]; omega

theorem not_blank_any (b : Str) (h : isBlank b = false) : b.any (fun c => !isSpace c) = true := by
  unfold isBlank at h
  induction b with
  | nil => simp at h
  | cons c cs ih =>
    simp only [List.all_cons, Bool.and_eq_false_iff] at h
    simp only [List.any_cons, Bool.or_eq_true, Bool.not_eq_true']
    rcases h with h | h
    · exact Or.inl h
    · exact Or.inr (by simpa using ih h)

theorem rotate_ne_nil (l : List Str) (h : l ≠ []) : rotate l ≠ [] := by
  cases l with
  | nil => exact absurd rfl h
  | cons a t => simp [rotate]

theorem lcGet_lcSet (lc : LangChange) (k : Str) (v w : List Str) (h : lcGet lc k = some w) :
    lcGet (lcSet lc k v) k = some v := by
  induction lc with
  | nil => simp [lcGet] at h
  | cons e lc ih =>
    unfold lcGet lcSet at *
    by_cases he : (e.1 == k) = true
    · rw [List.map_cons, if_pos he, List.find?_cons_of_pos (by simp)]
      rfl
    · simp only [List.map_cons, he, Bool.false_eq_true, if_false]
      rw [List.find?_cons_of_neg (by simpa using he)] at h ⊢
      exact ih h

theorem lcSet_keys (lc : LangChange) (k : Str) (v : List Str) :
    (lcSet lc k v).map (·.1) = lc.map (·.1) := by
  unfold lcSet
  rw [List.map_map]
  apply List.map_congr_left
  intro e _
  simp only [Function.comp]
  split
  · rename_i h; exact (beq_iff_eq.mp h).symm
  · rfl

theorem range'_getElem? (q n i : Nat) (h : i < n) : (List.range' q n)[i]? = some (q + i) := by
  rw [List.getElem?_eq_getElem (by simpa using h)]
  simp

theorem range'_getLast? (q n : Nat) (h : 0 < n) : (List.range' q n).getLast? = some (q + (n - 1)) := by
  rw [List.getLast?_eq_getElem?]
  simp only [List.length_range']
  rw [range'_getElem? q n (n - 1) (by omega)]

/-- **`ml_append_placeholder`** for an insertion with a visible character -/
theorem appendPlaceholder_eq (lc : LangChange) (lang code : Str) (back brk fb : Bool)
    (acc : List (Char × Nat)) (q : Nat) (b : Str) (repl : List Str)
    (hb : isBlank b = false)
    (hl : lcGet lc (checkParserLang (lc.map (·.1)) lang) = some repl) (hr : repl ≠ []) :
    appendPlaceholder lc (mkSec lang back brk acc) (mkSec code false fb (posText q b))
      = some (mkSec lang back brk (acc ++ placeholder ((rotate repl).headD []) q b),
              lcSet lc (checkParserLang (lc.map (·.1)) lang) (rotate repl)) := by
  obtain ⟨r0, rt, hrot⟩ : ∃ r0 rt, rotate repl = r0 :: rt := by
    cases h : rotate repl with
    | nil => exact absurd h (rotate_ne_nil repl hr)
    | cons a t => exact ⟨a, t, rfl⟩
  have hlt := idxOf_lt (fun c => !isSpace c) b (not_blank_any b hb)
  obtain ⟨c0, cs, rfl⟩ : ∃ c0 cs, b = c0 :: cs := by
    cases b with
    | nil => simp [isBlank] at hb
    | cons c cs => exact ⟨c, cs, rfl⟩
  obtain ⟨cl, hcl⟩ : ∃ cl, (c0 :: cs).getLast? = some cl := by
    simp [List.getLast?_eq_some_getLast]
  have hrep : (List.map ((fun x => x.2) ∘ fun c => (c, q + idxOf (fun c => !isSpace c) (c0 :: cs))) r0)
      = List.replicate r0.length (q + idxOf (fun c => !isSpace c) (c0 :: cs)) := by
    rw [List.eq_replicate_iff]; simp
  have hfst : (List.map ((fun x => x.1) ∘ fun c => (c, q + idxOf (fun c => !isSpace c) (c0 :: cs))) r0)
      = r0 := by
    simp [Function.comp_def]
  unfold appendPlaceholder
  simp only [mkSec, posText_fst, posText_snd, hb, Bool.false_eq_true, if_false, hl, hrot,
    List.head?_cons, range'_getElem? q _ _ hlt, hcl, range'_getLast? q (c0 :: cs).length (by simp)]
  simp only [List.length_cons, List.range'_succ, List.head?_cons, placeholder, List.headD_cons,
    hcl, List.map_append, List.map_map, hrep, hfst]
  cases isSpace c0 <;> cases isSpace cl <;> simp

/-! ### the joining loop -/

/-- `ml_check_lang_section`: the insertion has at most `thresh` words (`len(txt.split()) <= thresh`) -/
def isShort (thresh : Nat) (b : Str) : Bool := decide ((splitWs b).length ≤ thresh)

/-- a piece of text of the main language: none if there is no character -/
def emitP (main : Str) (acc : List (Char × Nat)) : List (Str × List (Char × Nat)) :=
  if acc.isEmpty then [] else [(main, acc)]

/-- **the pieces of text `get_txt_pos_ml` produces for a document**, in the order in which they
    are produced, each with its language code and its characters with their (0-based) positions.
    `repl` = the language-change collection of the main language in its current rotation,
    `acc` = the current piece of the main language.
    * text is appended to the current piece;
    * a SHORT insertion (at most `thresh` words) behind a non-empty piece of main-language text:
      the insertion is a piece of its own under its language code; the collection is rotated by
      one and its new head is appended to the current piece as placeholder (`placeholder`); the
      current piece CONTINUES behind the insertion;
    * any other insertion (more than `thresh` words, or no main-language text in front of it, i.e.
      at the very beginning): the current piece ends in front of it, the insertion is a piece of
      its own, a new piece of the main language starts behind it. -/
def refOut (T : PTables) (main : Str) (thresh : Nat) :
    Nat → List Str → List (Char × Nat) → List Seg → List (Str × List (Char × Nat))
  | _, _, acc, [] => emitP main acc
  | p, repl, acc, .txt s :: rest => refOut T main thresh (p + s.length) repl (acc ++ posText p s) rest
  | p, repl, acc, .frn n b :: rest =>
    if isShort thresh b && !acc.isEmpty then
      (codeOfName T n, posText (p + bodyOff n) b) ::
        refOut T main thresh (p + frnLen n b) (rotate repl)
          (acc ++ placeholder ((rotate repl).headD []) (p + bodyOff n) b) rest
    else
      emitP main acc ++ (codeOfName T n, posText (p + bodyOff n) b) ::
        refOut T main thresh (p + frnLen n b) repl [] rest

/-- language code, text and positions of a section -/
def proj (s : Sec) : Str × Str × List Nat := (s.lang, s.txt, s.pos)
/-- language code, text and positions of a piece -/
def projP (x : Str × List (Char × Nat)) : Str × Str × List Nat := (x.1, x.2.map (·.1), x.2.map (·.2))

theorem proj_mkSec (l : Str) (back brk : Bool) (acc : List (Char × Nat)) :
    proj (mkSec l back brk acc) = projP (l, acc) := rfl

theorem emitSec_proj (l : Str) (back brk : Bool) (acc : List (Char × Nat)) :
    (emitSec l back brk acc).map proj = (emitP l acc).map projP := by
  unfold emitSec emitP
  split <;> rfl

/-- behind an insertion: the end of the document, or a non-empty text;
    behind a text: anything -/
def behindOk : List Seg → Bool
  | [] => true
  | .txt s :: _ => !s.isEmpty
  | .frn _ _ :: _ => false

def sepOk : List Seg → Bool
  | [] => true
  | .txt _ :: rest => sepOk rest
  | .frn _ _ :: rest => behindOk rest && sepOk rest

/-- the sections of a document whose current run of main-language text is not empty: the first
    section is this run, extended by the text up to the next insertion -/
theorem refSecs_head (T : PTables) (main : Str) : ∀ (segs : List Seg) (p : Nat),
    ∃ l tl, ∀ (back : Bool) (acc : List (Char × Nat)), acc ≠ [] →
      refSecs T main p back acc segs = mkSec main back false (acc ++ l) :: tl
  | [], p => ⟨[], [], by
      intro back acc h
      have : acc.isEmpty = false := by simpa using h
      simp [refSecs, emitSec, this]⟩
  | .txt s :: rest, p => by
    obtain ⟨l, tl, h⟩ := refSecs_head T main rest (p + s.length)
    refine ⟨posText p s ++ l, tl, ?_⟩
    intro back acc hacc
    simp only [refSecs]
    rw [h back (acc ++ posText p s) (by simp [hacc]), List.append_assoc]
  | .frn n b :: rest, p => ⟨[], mkSec (codeOfName T n) false T.foreignBrk (posText (p + bodyOff n) b) ::
        refSecs T main (p + frnLen n b) true [] rest, by
      intro back acc h
      have : acc.isEmpty = false := by simpa using h
      simp only [refSecs, emitSec, this, Bool.false_eq_true, if_false, List.append_nil,
        List.singleton_append]⟩

/-- the section in front of `R` is passed on unchanged if `R` is empty or starts with a section
    that follows a switch back -/
theorem joinLoop_skip (thresh fuel : Nat) (lc : LangChange) (s0 : Sec) (R out : List Sec)
    (h : ∀ s ∈ R.head?, s.back = true) :
    joinLoop thresh (fuel + 1) lc (s0 :: R) out = joinLoop thresh fuel lc R (out ++ [s0]) := by
  cases R with
  | nil => simp only [joinLoop]
  | cons s1 rest2 =>
    have h1 : s1.back = true := h s1 (by simp)
    simp only [joinLoop, h1, Bool.not_true, Bool.and_false, Bool.false_and, Bool.false_eq_true,
      if_false]

/-- behind an insertion the sections are empty or start with a section that follows a switch back -/
theorem refSecs_behind (T : PTables) (main : Str) (p : Nat) (rest : List Seg)
    (h : behindOk rest = true) :
    ∀ s ∈ (refSecs T main p true [] rest).head?, s.back = true := by
  intro s hs
  cases rest with
  | nil => simp [refSecs, emitSec] at hs
  | cons sg rest' =>
    cases sg with
    | frn n b => simp [behindOk] at h
    | txt t =>
      have ht : t ≠ [] := by simpa [behindOk] using h
      obtain ⟨l, tl, hh⟩ := refSecs_head T main rest' (p + t.length)
      have hne : posText p t ≠ [] := by
        cases t with
        | nil => exact absurd rfl ht
        | cons c cs => simp [posText]
      simp only [refSecs, List.nil_append] at hs
      rw [hh true _ hne] at hs
      simp only [List.head?_cons, Option.mem_def, Option.some.injEq] at hs
      rw [← hs]; rfl

theorem sepOk_tail {sg : Seg} {rest : List Seg} (h : sepOk (sg :: rest) = true) : sepOk rest = true := by
  cases sg with
  | txt s => exact h
  | frn n b =>
    simp only [sepOk, Bool.and_eq_true] at h
    exact h.2

/-- **the joining loop on the sections of a document.**  `lc` = the language-change collections,
    `repl` = the one of (the settings of) the main language, not empty. -/
theorem joinLoop_doc (T : PTables) (main : Str) (thresh : Nat) (hfb : T.foreignBrk = false) :
    ∀ (segs : List Seg) (p : Nat) (back : Bool) (acc : List (Char × Nat)) (repl : List Str)
      (lc : LangChange) (out : List Sec) (fuel : Nat),
      sepOk segs = true → frnsOk T main segs = true →
      (∀ n b, Seg.frn n b ∈ segs → isBlank b = false) →
      lcGet lc (checkParserLang (lc.map (·.1)) main) = some repl → repl ≠ [] →
      (refSecs T main p back acc segs).length ≤ fuel →
      ∃ res lc', joinLoop thresh fuel lc (refSecs T main p back acc segs) out = some (out ++ res, lc') ∧
        res.map proj = (refOut T main thresh p repl acc segs).map projP
  | [], p, back, acc, repl, lc, out, fuel, _, _, _, _, _, hf => by
    simp only [refSecs, refOut] at hf ⊢
    by_cases ha : acc.isEmpty = true
    · refine ⟨[], lc, ?_, by simp [emitP, ha]⟩
      simp only [emitSec, ha, if_true]
      cases fuel <;> simp [joinLoop]
    · have ha' : acc.isEmpty = false := by simpa using ha
      simp only [emitSec, ha', Bool.false_eq_true, if_false, List.length_singleton] at hf ⊢
      obtain ⟨f, rfl⟩ : ∃ f, fuel = f + 1 := ⟨fuel - 1, by omega⟩
      refine ⟨[mkSec main back false acc], lc, ?_, by simp [emitP, ha', proj_mkSec]⟩
      simp only [joinLoop]
  | .txt s :: rest, p, back, acc, repl, lc, out, fuel, hsep, hfr, hbl, hl, hr, hf => by
    simp only [refSecs, refOut] at hf ⊢
    exact joinLoop_doc T main thresh hfb rest _ back _ repl lc out fuel (sepOk_tail hsep) hfr
      (fun n b hm => hbl n b (List.mem_cons_of_mem _ hm)) hl hr hf
  | .frn n b :: rest, p, back, acc, repl, lc, out, fuel, hsep, hfr, hbl, hl, hr, hf => by
    have hsep' := sepOk_tail hsep
    have hbeh : behindOk rest = true := by
      simp only [sepOk, Bool.and_eq_true] at hsep
      exact hsep.1
    have hfr' : frnsOk T main rest = true := by
      simp only [frnsOk, Bool.and_eq_true] at hfr
      exact hfr.2
    have hbl' : ∀ n b, Seg.frn n b ∈ rest → isBlank b = false :=
      fun n b hm => hbl n b (List.mem_cons_of_mem _ hm)
    have hblank : isBlank b = false := hbl n b (List.mem_cons_self ..)
    have hskip := refSecs_behind T main (p + frnLen n b) rest hbeh
    -- the section of the insertion
    generalize hF : mkSec (codeOfName T n) false T.foreignBrk (posText (p + bodyOff n) b) = F at *
    have hFp : proj F = projP (codeOfName T n, posText (p + bodyOff n) b) := by rw [← hF]; rfl
    by_cases ha : acc.isEmpty = true
    · -- no text of the main language in front of the insertion
      have hacc : acc = [] := by simpa using ha
      subst hacc
      simp only [refSecs, refOut, emitSec, emitP, List.isEmpty_nil, if_true, List.nil_append,
        Bool.not_true, Bool.and_false, Bool.false_eq_true, if_false, hF, List.length_cons] at hf ⊢
      obtain ⟨f, rfl⟩ : ∃ f, fuel = f + 1 := ⟨fuel - 1, by omega⟩
      rw [joinLoop_skip thresh f lc F _ out hskip]
      obtain ⟨res, lc', h1, h2⟩ := joinLoop_doc T main thresh hfb rest (p + frnLen n b) true [] repl lc
        (out ++ [F]) f hsep' hfr' hbl' hl hr (by omega)
      refine ⟨F :: res, lc', ?_, ?_⟩
      · rw [h1]; simp
      · simp [h2, hFp]
    · have ha' : acc.isEmpty = false := by simpa using ha
      have hane : acc ≠ [] := by simpa using ha
      by_cases hshort : isShort thresh b = true
      · -- a short insertion: placeholder, the section continues
        have hFb : F.brk = false := by rw [← hF]; exact hfb
        have hFk : F.back = false := by rw [← hF]; rfl
        have hchk : checkLangSection thresh F = true := by
          rw [← hF]
          simpa [checkLangSection, mkSec, posText_fst, isShort] using hshort
        have hph := appendPlaceholder_eq lc main (codeOfName T n) back false T.foreignBrk acc
          (p + bodyOff n) b repl hblank hl hr
        rw [hF] at hph
        have hl' := lcGet_lcSet lc (checkParserLang (lc.map (·.1)) main) (rotate repl) repl hl
        have hkeys := lcSet_keys lc (checkParserLang (lc.map (·.1)) main) (rotate repl)
        simp only [refSecs, refOut, emitSec, ha', hshort, Bool.false_eq_true, if_false, Bool.not_false,
          Bool.and_self, if_true, hF, List.singleton_append, List.length_cons] at hf ⊢
        obtain ⟨f, rfl⟩ : ∃ f, fuel = f + 1 := ⟨fuel - 1, by omega⟩
        cases rest with
        | nil =>
          simp only [refSecs, emitSec, List.isEmpty_nil, if_true]
          simp only [joinLoop, hFb, hFk, hchk, Bool.not_false, Bool.and_self, if_true, hph]
          obtain ⟨res, lc', h1, h2⟩ := joinLoop_doc T main thresh hfb [] (p + frnLen n b) back
            (acc ++ placeholder ((rotate repl).headD []) (p + bodyOff n) b) (rotate repl)
            (lcSet lc (checkParserLang (lc.map (·.1)) main) (rotate repl)) (out ++ [F]) f rfl rfl
            (by intro n b hm; cases hm) (by rw [hkeys]; exact hl') (rotate_ne_nil repl hr)
            (by simp only [refSecs, emitSec] at hf ⊢
                split <;> simp <;> omega)
          have hne2 : (acc ++ placeholder ((rotate repl).headD []) (p + bodyOff n) b).isEmpty = false := by
            simp [hane]
          simp only [refSecs, emitSec, hne2, Bool.false_eq_true, if_false] at h1
          refine ⟨F :: res, lc', ?_, ?_⟩
          · rw [h1]; simp
          · simp [h2, hFp]
        | cons sg rest' =>
          cases sg with
          | frn n2 b2 => simp [behindOk] at hbeh
          | txt t =>
            have ht : t ≠ [] := by simpa [behindOk] using hbeh
            have htne : posText (p + frnLen n b) t ≠ [] := by
              cases t with
              | nil => exact absurd rfl ht
              | cons c cs => simp [posText]
            obtain ⟨l, tl, hh⟩ := refSecs_head T main rest' (p + frnLen n b + t.length)
            have e1 := hh true (posText (p + frnLen n b) t) htne
            have e2 := hh back (acc ++ placeholder ((rotate repl).headD []) (p + bodyOff n) b
              ++ posText (p + frnLen n b) t) (by simp [hane])
            obtain ⟨res, lc', h1, h2⟩ := joinLoop_doc T main thresh hfb (.txt t :: rest')
              (p + frnLen n b) back
              (acc ++ placeholder ((rotate repl).headD []) (p + bodyOff n) b) (rotate repl)
              (lcSet lc (checkParserLang (lc.map (·.1)) main) (rotate repl)) (out ++ [F]) f hsep' hfr'
              hbl' (by rw [hkeys]; exact hl') (rotate_ne_nil repl hr)
              (by simp only [refSecs, List.nil_append] at hf ⊢
                  rw [e1] at hf; rw [e2]
                  simp only [List.length_cons] at hf ⊢; omega)
            simp only [refSecs, List.nil_append] at h1 ⊢
            rw [e2] at h1
            rw [e1]
            have hlang : (mkSec main back false acc).lang == (mkSec main true false
                (posText (p + frnLen n b) t ++ l)).lang := by simp [mkSec]
            simp only [joinLoop, hFb, hFk, hchk, hlang, Bool.not_false, Bool.and_self, if_true, hph]
            have hsec : ({ mkSec main back false (acc ++ placeholder ((rotate repl).headD []) (p + bodyOff n) b)
                  with txt := (mkSec main back false (acc ++ placeholder ((rotate repl).headD [])
                          (p + bodyOff n) b)).txt ++ (mkSec main true false (posText (p + frnLen n b) t ++ l)).txt,
                       pos := (mkSec main back false (acc ++ placeholder ((rotate repl).headD [])
                          (p + bodyOff n) b)).pos ++ (mkSec main true false (posText (p + frnLen n b) t ++ l)).pos } : Sec)
                = mkSec main back false (acc ++ placeholder ((rotate repl).headD []) (p + bodyOff n) b
                    ++ posText (p + frnLen n b) t ++ l) := by
              simp [mkSec]
            rw [hsec, h1]
            refine ⟨F :: res, lc', by simp, ?_⟩
            simp [h2, hFp]
      · -- a long insertion: the section ends
        have hshort' : isShort thresh b = false := by simpa using hshort
        have hchk : checkLangSection thresh F = false := by
          rw [← hF]
          simpa [checkLangSection, mkSec, posText_fst, isShort] using hshort'
        simp only [refSecs, refOut, emitSec, emitP, ha', hshort', Bool.false_eq_true, if_false,
          Bool.false_and, hF, List.singleton_append, List.length_cons] at hf ⊢
        obtain ⟨f, rfl⟩ : ∃ f, fuel = f + 2 := ⟨fuel - 2, by omega⟩
        have hstep : joinLoop thresh (f + 2) lc
              (mkSec main back false acc :: F :: refSecs T main (p + frnLen n b) true [] rest) out
            = joinLoop thresh (f + 1) lc (F :: refSecs T main (p + frnLen n b) true [] rest)
                (out ++ [mkSec main back false acc]) := by
          simp only [joinLoop, hchk, Bool.and_false, Bool.false_eq_true, if_false]
        rw [hstep, joinLoop_skip thresh f lc F _ _ hskip]
        obtain ⟨res, lc', h1, h2⟩ := joinLoop_doc T main thresh hfb rest (p + frnLen n b) true [] repl lc
          (out ++ [mkSec main back false acc] ++ [F]) f hsep' hfr' hbl' hl hr (by omega)
        refine ⟨mkSec main back false acc :: F :: res, lc', ?_, ?_⟩
        · rw [h1]; simp
        · simp [h2, hFp, proj_mkSec]

/-! ### `get_txt_pos_ml` on a document -/

/-- a piece as a section (the flags do not matter any more) -/
def toSec (x : Str × List (Char × Nat)) : Sec := mkSec x.1 false false x.2

theorem groupSecs_proj (l : List Sec) :
    groupSecs l = (l.map proj).foldl (fun ps x => addPart ps x.1 x.2) [] := by
  unfold groupSecs
  rw [List.foldl_map]
  rfl

theorem groupSecs_congr (l1 l2 : List Sec) (h : l1.map proj = l2.map proj) :
    groupSecs l1 = groupSecs l2 := by
  rw [groupSecs_proj, groupSecs_proj, h]

/-- the language-change collection `ml_append_placeholder` uses for sections of the language
    `main`: the one of the settings `check_parser_lang(main)` -/
def mainRepl (lc : LangChange) (main : Str) : List Str :=
  (lcGet lc (checkParserLang (lc.map (·.1)) main)).getD []

/-- **the expected `parts`**: the pieces of `refOut`, grouped by language code (codes in the order
    of their first piece, the pieces of one code in the order of `refOut`, NOT merged), positions
    1-based -/
def refParts (T : PTables) (main : Str) (thresh : Nat) (repl : List Str) (segs : List Seg) : Parts :=
  shiftParts (groupSecs ((refOut T main thresh 0 repl [] segs).map toSec))

/-- every insertion has a visible character -/
def bodiesOk : List Seg → Bool
  | [] => true
  | .txt _ :: rest => bodiesOk rest
  | .frn _ b :: rest => !isBlank b && bodiesOk rest

theorem bodiesOk_mem : ∀ (segs : List Seg), bodiesOk segs = true →
    ∀ n b, Seg.frn n b ∈ segs → isBlank b = false
  | [], _, _, _, hm => by cases hm
  | .txt _ :: rest, h, n, b, hm => by
    rcases List.mem_cons.mp hm with e | hm
    · cases e
    · exact bodiesOk_mem rest h n b hm
  | .frn _ _ :: rest, h, n, b, hm => by
    simp only [bodiesOk, Bool.and_eq_true, Bool.not_eq_true'] at h
    rcases List.mem_cons.mp hm with e | hm
    · cases e; exact h.1
    · exact bodiesOk_mem rest h.2 n b hm

/-- **`get_txt_pos_ml` on the token list of a document** -/
theorem getTxtPosML_doc (T : PTables) (main : Str) (thresh : Nat) (lc : LangChange) (segs : List Seg)
    (toks : List Tok) (hfb : T.foreignBrk = false)
    (hitems : itemsOf toks = docItems T 0 segs)
    (hsep : sepOk segs = true) (hfr : frnsOk T main segs = true) (hbo : bodiesOk segs = true)
    (hr : mainRepl lc main ≠ []) :
    ∃ lc', getTxtPosML toks main thresh lc
      = some (groupSecs ((refOut T main thresh 0 (mainRepl lc main) [] segs).map toSec), lc') := by
  have hl : lcGet lc (checkParserLang (lc.map (·.1)) main) = some (mainRepl lc main) := by
    unfold mainRepl at hr ⊢
    cases h : lcGet lc (checkParserLang (lc.map (·.1)) main) with
    | none => rw [h] at hr; exact absurd rfl hr
    | some v => rfl
  have hsecs : sections toks main = refSecs T main 0 false [] segs := by
    rw [sections_secsItems, hitems, secsItems_doc T main segs 0 false [] hfr]
  obtain ⟨res, lc', h1, h2⟩ := joinLoop_doc T main thresh hfb segs 0 false [] (mainRepl lc main) lc []
    (refSecs T main 0 false [] segs).length hsep hfr (bodiesOk_mem segs hbo) hl hr (Nat.le_refl _)
  refine ⟨lc', ?_⟩
  unfold getTxtPosML
  simp only [hsecs, h1, List.nil_append, groupParts_fold]
  have : groupSecs res = groupSecs ((refOut T main thresh 0 (mainRepl lc main) [] segs).map toSec) := by
    apply groupSecs_congr
    rw [h2, List.map_map]
    rfl
  rw [← this]
  rfl

end PlainForeign
end Yalafi
