/-
  Proofs/SystemWordMix2.lean — SYSTEM LEVEL for the union grammar of fourteen construct kinds
  (`PlainMix2`, the grammar of `C03_mix2_e2e`): the filter's theorem composed with the shell's
  pipeline.

  In these documents NOT every output character is a copy (placeholders of formulas, references and
  citations, values of special sequences, the full stop of a heading, the line breaks around a
  footnote), and consecutive map entries alone do not make a copy (`a--`: `a–` is mapped to `a-`).
  The flagged word is therefore named on the document side:

  `copied_run_mix2` (lemma `copied_run_contiguous`, marks level): every run of character marks
      `some (c₀, p), some (c₁, p+1), …` of the reference `PlainMix2.marks` without a text-less mark in
      between whose first and last characters are no white space appears in the plain text as a
      contiguous block at some offset `off`, and the map entries there are `p+1, p+2, …` (`RunAt`).
      This covers the text of `txt` segments, the contents of `\verb`, the notes of citations and the
      titles of headings.  `copied_run_flows`: the same for a stretch of a footnote body (`flows`).
  `flagged_word_mix2`: a stretch `w` of a `txt` segment (`segs = pre ++ .txt (a ++ w ++ b) :: post`,
      first and last character of `w` no white space), `p = |render pre| + |a|` its offset in the
      file:
      * `src[p … p+l) = w`;
      * it appears in the plain text at an offset `off` with `RunAt r.pos off l (p+1)`;
      * for EVERY offset `off` with `RunAt r.pos off l (p+1)` (the proofreader flags `l` characters
        whose map entries are those of the word) and every padding of the map:
        `map_match_position` yields offset `p`, length `l` (a text character is no backslash, the
        macro-name extension never applies), all reports are `WordReported src p l`, and the HTML
        highlight is the word (`HtmlWord`).

  NOT covered: what `PlainMix2` does not cover; flagged stretches that mix copied characters with
  replaced ones (`a–b`: the reports then name `a--b` — `mapMatch` takes the difference of the
  entries — but no theorem here says so).
-/
import YalafiVerif.Proofs.SystemWordGroup
import YalafiVerif.Proofs.PlainMix2Read
namespace Yalafi
namespace SystemWord

open PlainMacro Reports

/-! ### the reference of a document `pre ++ rest` -/

theorem render_append : ∀ (pre rest : List PlainMix2.Seg),
    PlainMix2.render (pre ++ rest) = PlainMix2.render pre ++ PlainMix2.render rest
  | [], _ => rfl
  | s :: pre, rest => by simp [PlainMix2.render, render_append pre rest]

theorem marks_append (T : PTables) (st : PState) (repls : List Str) (rest : List PlainMix2.Seg) :
    ∀ (pre : List PlainMix2.Seg) (k p k' q : Nat), k' = k + PlainMix2.nFormulas pre → q = p + (PlainMix2.render pre).length →
      PlainMix2.marks T st repls k p (pre ++ rest) = PlainMix2.marks T st repls k p pre ++ PlainMix2.marks T st repls k' q rest
  | [], k, p, k', q, hk, hq => by
    simp only [PlainMix2.nFormulas, PlainMix2.render, List.length_nil, Nat.add_zero] at hk hq
    subst hk; subst hq; rfl
  | .txt s :: pre, k, p, k', q, hk, hq => by
    simp only [List.cons_append, PlainMix2.marks, List.append_assoc]
    rw [marks_append T st repls rest pre k (p + s.length) k' q (by simpa [PlainMix2.nFormulas] using hk)
      (by simp [PlainMix2.render, PlainMix2.Seg.render] at hq; omega)]
  | .spc key :: pre, k, p, k', q, hk, hq => by
    simp only [List.cons_append, PlainMix2.marks, List.append_assoc]
    rw [marks_append T st repls rest pre k (p + key.length) k' q (by simpa [PlainMix2.nFormulas] using hk)
      (by simp [PlainMix2.render, PlainMix2.Seg.render] at hq; omega)]
  | .opn :: pre, k, p, k', q, hk, hq => by
    simp only [List.cons_append, PlainMix2.marks]
    rw [marks_append T st repls rest pre k (p + 1) k' q (by simpa [PlainMix2.nFormulas] using hk)
      (by simp [PlainMix2.render, PlainMix2.Seg.render] at hq; omega)]
  | .cls :: pre, k, p, k', q, hk, hq => by
    simp only [List.cons_append, PlainMix2.marks]
    rw [marks_append T st repls rest pre k (p + 1) k' q (by simpa [PlainMix2.nFormulas] using hk)
      (by simp [PlainMix2.render, PlainMix2.Seg.render] at hq; omega)]
  | .cw name sp :: pre, k, p, k', q, hk, hq => by
    simp only [List.cons_append, PlainMix2.marks]
    rw [marks_append T st repls rest pre k _ k' q (by simpa [PlainMix2.nFormulas] using hk)
      (by simp [PlainMix2.render, PlainMix2.Seg.render] at hq; omega)]
  | .van name key :: pre, k, p, k', q, hk, hq => by
    simp only [List.cons_append, PlainMix2.marks]
    rw [marks_append T st repls rest pre k _ k' q (by simpa [PlainMix2.nFormulas] using hk)
      (by simp [PlainMix2.render, PlainMix2.Seg.render, PlainVanish.vanLen] at hq ⊢; omega)]
  | .com body :: pre, k, p, k', q, hk, hq => by
    simp only [List.cons_append, PlainMix2.marks]
    rw [marks_append T st repls rest pre k _ k' q (by simpa [PlainMix2.nFormulas] using hk)
      (by simp [PlainMix2.render, PlainMix2.Seg.render] at hq; omega)]
  | .verb d s :: pre, k, p, k', q, hk, hq => by
    simp only [List.cons_append, PlainMix2.marks, List.append_assoc]
    rw [marks_append T st repls rest pre k _ k' q (by simpa [PlainMix2.nFormulas] using hk)
      (by simp [PlainMix2.render, PlainMix2.Seg.render] at hq; omega)]
  | .math body :: pre, k, p, k', q, hk, hq => by
    simp only [List.cons_append, PlainMix2.marks, List.append_assoc]
    rw [marks_append T st repls rest pre (k + 1) _ k' q (by simp [PlainMix2.nFormulas] at hk; omega)
      (by simp [PlainMix2.render, PlainMix2.Seg.render] at hq; omega)]
  | .ref name key :: pre, k, p, k', q, hk, hq => by
    simp only [List.cons_append, PlainMix2.marks, List.append_assoc]
    rw [marks_append T st repls rest pre k _ k' q (by simpa [PlainMix2.nFormulas] using hk)
      (by simp [PlainMix2.render, PlainMix2.Seg.render, PlainRef.callLen] at hq ⊢; omega)]
  | .cite name key :: pre, k, p, k', q, hk, hq => by
    simp only [List.cons_append, PlainMix2.marks, List.append_assoc]
    rw [marks_append T st repls rest pre k _ k' q (by simpa [PlainMix2.nFormulas] using hk)
      (by simp [PlainMix2.render, PlainMix2.Seg.render, PlainRef.callLen] at hq ⊢; omega)]
  | .citeN name note key :: pre, k, p, k', q, hk, hq => by
    simp only [List.cons_append, PlainMix2.marks, List.append_assoc]
    rw [marks_append T st repls rest pre k _ k' q (by simpa [PlainMix2.nFormulas] using hk)
      (by simp [PlainMix2.render, PlainMix2.Seg.render, PlainRef.callNLen] at hq ⊢; omega)]
  | .foot body :: pre, k, p, k', q, hk, hq => by
    simp only [List.cons_append, PlainMix2.marks]
    rw [marks_append T st repls rest pre k _ k' q (by simpa [PlainMix2.nFormulas] using hk)
      (by simp [PlainMix2.render, PlainMix2.Seg.render] at hq; omega)]
  | .head name title :: pre, k, p, k', q, hk, hq => by
    simp only [List.cons_append, PlainMix2.marks, List.append_assoc]
    rw [marks_append T st repls rest pre k _ k' q (by simpa [PlainMix2.nFormulas] using hk)
      (by simp [PlainMix2.render, PlainMix2.Seg.render] at hq; omega)]

theorem PlainMix2.segsOk_drop (T : PTables) (st : PState) (rest : List PlainMix2.Seg) :
    ∀ (pre : List PlainMix2.Seg), PlainMix2.segsOk T st (pre ++ rest) = true → PlainMix2.segsOk T st rest = true
  | [], h => h
  | s :: pre, h => by
    cases s <;>
      (simp only [List.cons_append, PlainMix2.segsOk, Bool.and_eq_true] at h; exact PlainMix2.segsOk_drop T st rest pre h.2)

theorem textOkU_mid (T : PTables) (st : PState) (c : Char) (cs R : Str) :
    ∀ (a : Str), PlainMix.textOkU T st (a ++ c :: cs) R = true → PlainMix.okAtU T st c (cs ++ R) = true
  | [], h => by
    simp only [List.nil_append, PlainMix.textOkU, Bool.and_eq_true] at h
    exact h.1
  | x :: a, h => by
    simp only [List.cons_append, PlainMix.textOkU, Bool.and_eq_true] at h
    exact textOkU_mid T st c cs R a h.2

/-- a visible character of a `txt` segment is no backslash -/
theorem txt_not_backslash (T : PTables) (st : PState) (pre post : List PlainMix2.Seg) (a cs : Str) (c : Char)
    (h : PlainMix2.segsOk T st (pre ++ .txt (a ++ c :: cs) :: post) = true) (hc : isSpace c = false) : c ≠ '\\' := by
  have h1 := PlainMix2.segsOk_drop T st _ pre h
  simp only [PlainMix2.segsOk, Bool.and_eq_true] at h1
  have h2 := textOkU_mid T st c cs _ a h1.1
  rcases PlainMix.okAtU_snd h2 with h3 | h3
  · rw [hc] at h3; cases h3
  · intro he
    subst he
    have := h3.1
    revert this
    decide

/-! ### `copied_run_contiguous` -/

theorem posText_length (p : Nat) (w : Str) : (posText p w).length = w.length := by
  rw [← List.length_map (f := (·.1)), posText_fst]

/-- **`copied_run_contiguous`, main flow**: a run of character marks of the reference with
    consecutive positions and visible ends is a run of the filter's output -/
theorem copied_run_mix2 (T : PTables) (o : Options) (fs : FS) (thresh : Nat)
    (segs : List PlainMix2.Seg) (fuel : Nat) (st1 : PState) (repls : List Str)
    (hdefs : o.defs = []) (hextr : o.extr = []) (hrepl : o.hasRepl = false) (hunkn : o.unkn = false)
    (hinit : initParser T fuel o (initialState T o false fs) = .ok ((), st1))
    (hok : PlainMix2.SegsOk T st1 repls segs) (hf : (PlainMix2.render segs).length + 4 ≤ fuel)
    (A B : List Mark) (p : Nat) (w : Str)
    (hmarks : PlainMix2.marks T st1 repls 0 0 segs = A ++ ((posText p w).map some ++ B))
    (hw : wordEnds w = true) :
    ∃ r, tex2txt T fuel (PlainMix2.render segs) o false thresh fs = .ok r ∧
      r.txt.length = r.pos.length ∧
      ∃ off, off + w.length ≤ r.txt.length ∧ RunAt r.pos off w.length (p + 1) ∧
        (r.txt.drop off).take w.length = w := by
  obtain ⟨r, h1, h2, h3, _⟩ :=
    PlainMix2.tex2txt_mix2 T o fs thresh segs fuel st1 repls hdefs hextr hrepl hunkn hinit hok hf
  refine ⟨r, h1, by rw [h2, h3]; simp, ?_⟩
  obtain ⟨hW, hlast⟩ := posText_word p hw
  obtain ⟨X, Y, hd⟩ := delLines_word A B (posText p w) hW hlast
  rw [← hmarks] at hd
  have hout : delLines (PlainMix2.marks T st1 repls 0 0 segs) ++ PlainMix2.flows 0 segs
      = X ++ (posText p w ++ (Y ++ PlainMix2.flows 0 segs)) := by rw [hd]; simp
  obtain ⟨b1, b2, b3⟩ := run_of_decomp _ X _ _ p hout (by rw [posText_snd, posText_length])
  rw [posText_length] at b1 b2 b3
  rw [posText_fst] at b3
  refine ⟨X.length, ?_, ?_, ?_⟩
  · rw [h2]; simpa using b1
  · rw [h3]; exact b2
  · rw [h2]; exact b3

/-- **`copied_run_contiguous`, footnotes**: a stretch of the detached flows with consecutive
    positions (a stretch of a footnote body) is a run of the filter's output -/
theorem copied_run_flows (T : PTables) (o : Options) (fs : FS) (thresh : Nat)
    (segs : List PlainMix2.Seg) (fuel : Nat) (st1 : PState) (repls : List Str)
    (hdefs : o.defs = []) (hextr : o.extr = []) (hrepl : o.hasRepl = false) (hunkn : o.unkn = false)
    (hinit : initParser T fuel o (initialState T o false fs) = .ok ((), st1))
    (hok : PlainMix2.SegsOk T st1 repls segs) (hf : (PlainMix2.render segs).length + 4 ≤ fuel)
    (F1 F2 : List (Char × Nat)) (p : Nat) (w : Str)
    (hflows : PlainMix2.flows 0 segs = F1 ++ (posText p w ++ F2)) :
    ∃ r, tex2txt T fuel (PlainMix2.render segs) o false thresh fs = .ok r ∧
      r.txt.length = r.pos.length ∧
      ∃ off, off + w.length ≤ r.txt.length ∧ RunAt r.pos off w.length (p + 1) ∧
        (r.txt.drop off).take w.length = w := by
  obtain ⟨r, h1, h2, h3, _⟩ :=
    PlainMix2.tex2txt_mix2 T o fs thresh segs fuel st1 repls hdefs hextr hrepl hunkn hinit hok hf
  refine ⟨r, h1, by rw [h2, h3]; simp, ?_⟩
  have hout : delLines (PlainMix2.marks T st1 repls 0 0 segs) ++ PlainMix2.flows 0 segs
      = (delLines (PlainMix2.marks T st1 repls 0 0 segs) ++ F1) ++ (posText p w ++ F2) := by rw [hflows]; simp
  obtain ⟨b1, b2, b3⟩ := run_of_decomp _ _ _ _ p hout (by rw [posText_snd, posText_length])
  rw [posText_length] at b1 b2 b3
  rw [posText_fst] at b3
  refine ⟨(delLines (PlainMix2.marks T st1 repls 0 0 segs) ++ F1).length, ?_, ?_, ?_⟩
  · rw [h2]; simpa using b1
  · rw [h3]; exact b2
  · rw [h2]; exact b3

/-! ### a flagged word of a `txt` segment, through filter and shell -/

/-- **a flagged word of a `PlainMix2` document, through filter and shell** -/
theorem flagged_word_mix2 (T : PTables) (o : Options) (fs : FS) (thresh : Nat)
    (segs : List PlainMix2.Seg) (fuel : Nat) (st1 : PState) (repls : List Str)
    (hdefs : o.defs = []) (hextr : o.extr = []) (hrepl : o.hasRepl = false) (hunkn : o.unkn = false)
    (hinit : initParser T fuel o (initialState T o false fs) = .ok ((), st1))
    (hok : PlainMix2.SegsOk T st1 repls segs) (hf : (PlainMix2.render segs).length + 4 ≤ fuel)
    (pre post : List PlainMix2.Seg) (a w b : Str) (hsegs : segs = pre ++ .txt (a ++ (w ++ b)) :: post)
    (hw : wordEnds w = true) :
    ((PlainMix2.render segs).drop ((PlainMix2.render pre).length + a.length)).take w.length = w ∧
    (PlainMix2.render pre).length + a.length + w.length ≤ (PlainMix2.render segs).length ∧
    ∃ r, tex2txt T fuel (PlainMix2.render segs) o false thresh fs = .ok r ∧
      r.txt.length = r.pos.length ∧
      (∃ off, off + w.length ≤ r.txt.length ∧
        RunAt r.pos off w.length ((PlainMix2.render pre).length + a.length + 1) ∧
        (r.txt.drop off).take w.length = w) ∧
      ∀ (off : Nat) (pad : List Int),
        RunAt r.pos off w.length ((PlainMix2.render pre).length + a.length + 1) →
        mapMatch (natMap r.pos ++ pad) (PlainMix2.render segs) (off : Int) (some (.int w.length))
          = .ok ((((PlainMix2.render pre).length + a.length : Nat) : Int), (w.length : Int)) ∧
        reportAll (natMap r.pos ++ pad) (PlainMix2.render segs) (off : Int) (some (.int w.length))
          = .ok (locate (PlainMix2.render segs) (((PlainMix2.render pre).length + a.length : Nat) : Int) (w.length : Int)) ∧
        WordReported (PlainMix2.render segs) ((PlainMix2.render pre).length + a.length) w.length
          (locate (PlainMix2.render segs) (((PlainMix2.render pre).length + a.length : Nat) : Int) (w.length : Int)) ∧
        ((∀ c ∈ pad, 0 ≤ c) → HtmlWord (PlainMix2.render segs) (natMap r.pos ++ pad) off w.length
          ((PlainMix2.render pre).length + a.length)) := by
  obtain ⟨⟨c, cs, hwc, hc⟩, _⟩ := wordEnds_facts hw
  have hl : 1 ≤ w.length := by rw [hwc]; simp
  have hsrc : PlainMix2.render segs
      = (PlainMix2.render pre ++ a) ++ (w ++ (b ++ PlainMix2.render post)) := by
    rw [hsegs, render_append]; simp [PlainMix2.render, PlainMix2.Seg.render]
  have hplen : (PlainMix2.render pre ++ a).length = (PlainMix2.render pre).length + a.length := by simp
  have hword : ((PlainMix2.render segs).drop ((PlainMix2.render pre).length + a.length)).take w.length = w := by
    rw [hsrc, ← hplen, List.drop_left, List.take_left]
  have hin : (PlainMix2.render pre).length + a.length + w.length ≤ (PlainMix2.render segs).length := by
    rw [hsrc]; simp; omega
  have hmarks : PlainMix2.marks T st1 repls 0 0 segs
      = (PlainMix2.marks T st1 repls 0 0 pre ++ (posText (PlainMix2.render pre).length a).map some)
        ++ ((posText ((PlainMix2.render pre).length + a.length) w).map some
          ++ ((posText ((PlainMix2.render pre).length + a.length + w.length) b).map some
            ++ PlainMix2.marks T st1 repls (0 + PlainMix2.nFormulas pre) ((PlainMix2.render pre).length + (a ++ (w ++ b)).length) post)) := by
    rw [hsegs, marks_append T st1 repls _ pre 0 0 _ _ rfl (Nat.zero_add _).symm]
    simp only [PlainMix2.marks, posText_append, List.map_append, List.append_assoc]
  obtain ⟨r, h1, h2, hoff⟩ := copied_run_mix2 T o fs thresh segs fuel st1 repls hdefs hextr hrepl hunkn
    hinit hok hf _ _ _ w hmarks hw
  refine ⟨hword, hin, r, h1, h2, hoff, ?_⟩
  intro off pad hrun
  have hbs : ¬ (w.length = 1 ∧ (PlainMix2.render segs)[(PlainMix2.render pre).length + a.length]? = some '\\') := by
    rintro ⟨_, hb⟩
    have hget : (PlainMix2.render segs)[(PlainMix2.render pre).length + a.length]? = some c := by
      rw [hsrc, ← hplen, List.getElem?_append_right (Nat.le_refl _), hwc]; simp
    rw [hget] at hb
    cases hb
    have hs := hok.2.1
    rw [hsegs, hwc] at hs
    exact txt_not_backslash T st1 pre post a (cs ++ b) '\\' (by simpa using hs) hc rfl
  exact ⟨mapMatch_run _ r.pos pad off w.length _ hl hrun hbs,
    reportAll_run _ r.pos pad off w.length _ hl hrun hbs, locate_word _ _ w.length hl hin,
    fun hpad => html_run _ r.pos pad off w.length _ hl hrun hbs (by omega) hpad⟩

/-! ### (C) two flagged words are reported in the order of the file -/

/-- **(C)** two words of `txt` segments, the first one standing first in the file: both appear in
    the plain text, and whenever the proofreader flags them (matches `m1`, `m2` among any list `ms`
    of matches, offsets with the map entries of the words), the shell's sort puts `m1` in front of
    `m2` — wherever they stand in the plain text and in the proofreader's answer -/
theorem sorted_words_mix2 (T : PTables) (o : Options) (fs : FS) (thresh : Nat)
    (segs : List PlainMix2.Seg) (fuel : Nat) (st1 : PState) (repls : List Str)
    (hdefs : o.defs = []) (hextr : o.extr = []) (hrepl : o.hasRepl = false) (hunkn : o.unkn = false)
    (hinit : initParser T fuel o (initialState T o false fs) = .ok ((), st1))
    (hok : PlainMix2.SegsOk T st1 repls segs) (hf : (PlainMix2.render segs).length + 4 ≤ fuel)
    (pre1 post1 : List PlainMix2.Seg) (a1 w1 b1 : Str) (hsegs1 : segs = pre1 ++ .txt (a1 ++ (w1 ++ b1)) :: post1)
    (pre2 post2 : List PlainMix2.Seg) (a2 w2 b2 : Str) (hsegs2 : segs = pre2 ++ .txt (a2 ++ (w2 ++ b2)) :: post2)
    (hw1 : wordEnds w1 = true) (hw2 : wordEnds w2 = true)
    (hlt : (PlainMix2.render pre1).length + a1.length < (PlainMix2.render pre2).length + a2.length) :
    ∃ r, tex2txt T fuel (PlainMix2.render segs) o false thresh fs = .ok r ∧
      (∃ off1 off2, RunAt r.pos off1 w1.length ((PlainMix2.render pre1).length + a1.length + 1) ∧
        RunAt r.pos off2 w2.length ((PlainMix2.render pre2).length + a2.length + 1)) ∧
      ∀ (pad : List Int) (ms out : List RawMatch) (m1 m2 : RawMatch) (off1 off2 : Nat),
        sortMatches (natMap r.pos ++ pad) ms = .ok out → m1 ∈ ms → m2 ∈ ms →
        m1.offset = (off1 : Int) → m2.offset = (off2 : Int) →
        RunAt r.pos off1 w1.length ((PlainMix2.render pre1).length + a1.length + 1) →
        RunAt r.pos off2 w2.length ((PlainMix2.render pre2).length + a2.length + 1) →
        ∃ X Y Z, out = X ++ m1 :: (Y ++ m2 :: Z) := by
  obtain ⟨_, _, r, h1, _, ⟨off1, _, hr1, _⟩, _⟩ := flagged_word_mix2 T o fs thresh segs fuel st1 repls
    hdefs hextr hrepl hunkn hinit hok hf pre1 post1 a1 w1 b1 hsegs1 hw1
  obtain ⟨_, _, r', h1', _, ⟨off2, _, hr2, _⟩, _⟩ := flagged_word_mix2 T o fs thresh segs fuel st1 repls
    hdefs hextr hrepl hunkn hinit hok hf pre2 post2 a2 w2 b2 hsegs2 hw2
  have hrr : r' = r := by rw [h1] at h1'; cases h1'; rfl
  subst hrr
  obtain ⟨⟨c1, cs1, hc1, _⟩, _⟩ := wordEnds_facts hw1
  obtain ⟨⟨c2, cs2, hc2, _⟩, _⟩ := wordEnds_facts hw2
  have hl1 : 1 ≤ w1.length := by rw [hc1]; simp
  have hl2 : 1 ≤ w2.length := by rw [hc2]; simp
  refine ⟨r', h1, ⟨off1, off2, hr1, hr2⟩, ?_⟩
  intro pad ms out m1 m2 o1 o2 hs hm1 hm2 ho1 ho2 hq1 hq2
  exact runs_sorted r'.pos pad ms out hs m1 m2 hm1 hm2 o1 w1.length _ o2 w2.length _ ho1 ho2 hl1 hl2 hq1 hq2 hlt

end SystemWord
end Yalafi
