/-
  Proofs/PlainSkipSeg.lean — C03 "nothing from … LT-SKIP regions … appears", end to end on the model,
  DOCUMENT LEVEL: documents of inert text and skipped regions

      %%% LT-SKIP-BEGIN bt ⏎ hidden %%% LT-SKIP-END et ⏎ ws

  where `hidden` is ARBITRARY source text (macros, braces, `$`, `\verb|…|`, verbatim environments,
  comment lines, nested BEGIN markers, unbalanced anything) subject to the computable condition
  `hiddenOk`.  (The source level — any source of the class `skipText`, also with ordinary comments
  and with END markers that are not at the beginning of a line — is Proofs/PlainSkip.lean.)

  The difficulty is the scanner: the hidden text is scanned into tokens before it is thrown away, and
  the pre-pass only deletes the region if a COMMENT TOKEN starts at the END marker.  That is false
  in general.  Found with `#eval` on the real tables (`A⏎%%% LT-SKIP-BEGIN⏎ … ⏎%%% LT-SKIP-END⏎B`):
    * hidden `x \verb` (a `\verb` at the end of the last hidden line): the line break is taken as
      the delimiter and the END marker line as the verbatim text — "bad \verb argument", "cannot
      find closing LaTeX comment", and the hidden `x` appears in the output;
    * hidden `\begin{verbatim}` whose `\end{verbatim}` stands BEHIND the region: the verbatim token
      swallows the END marker — the hidden text and the marker line itself appear in the output;
      without any `\end{verbatim}`: the region is skipped but "missing end of verbatim" is reported;
    * hidden `\verb|x` (not closed on its line): the region is skipped, but "bad \verb argument" is
      reported for a text the user asked to skip;
    * `x % y %%% LT-SKIP-END` / `x \%%% LT-SKIP-END`: the marker is part of another comment / of `\%`:
      no END marker; `x \y %%% LT-SKIP-END` (marker behind text on the same line) works in the model
      — it is covered by the source-level theorem, not by `hiddenOk`.
  `hiddenOk T st bt hidden` (sufficient; exact up to the position of the END marker on its line):
    * `bt` (the rest of the BEGIN line) contains no line break;
    * `tailBlank hidden`: behind the last line break of `hidden` there is white space only, i.e. the
      END marker is the first thing on its line (indentation allowed; `hidden` may be empty);
    * `hiddenScan`: the scanner runs through `B bt ⏎ hidden` (from behind the opening comment token,
      which swallows the line break and the indentation of the first hidden line) without an error
      — every `\verb` has its closing delimiter on its line, every `\begin{verbatim}` its
      `\end{verbatim}` INSIDE the hidden text — and meets no comment token that starts with the END
      marker (an END marker line inside a verbatim environment or behind `\verb|` is no comment
      token: the region goes on, and that is what the theorem says).
  `regionEnd_of_hidden` (with `nextToken_local` of Proofs/PlainSkipScan.lean): under `hiddenOk` the
  scanner on `hidden ++ END line ++ rest` makes the same steps as on `hidden` alone and then a
  comment token at the END marker — it RE-SYNCHRONISES, whatever follows.

  Documents
    `Seg`, `render`            `txt s` | `skip bt hidden et ws` | `skipPar bt hidden et` (see `Seg`)
    `plain`                    the reference output: the characters of the text segments at their own
                               positions; `regions`: the regions as (start, length)
    `markersOk`, `hiddenOk`, `textOkS`, `segsOk`, `SegsOk`   the side conditions (computable)
  Results
    `region_ok`, `region_seg`, `segs_class`   a well-formed document is a source of the class `skipText`
                               and `stripSkip` of it is `plain`
    `tex2txt_skip_regions`     the end-to-end statement
    `plain_pos_outside`        no output position lies inside a region

  What remains of the two marker lines: NOTHING.  The region extends from the `%` of the BEGIN marker
  (text in front of it on the same line is kept) to the end of the closing comment TOKEN, which, as
  for every comment (Proofs/PlainComment.lean), includes the line break and the white space `ws` at
  the beginning of the next line — unless that white space contains another line break (a blank
  line follows): then the token ends in front of the line break (`skipPar`), and the line breaks
  behind it are ordinary text.  No Action token is left: no line is removed, and two space tokens
  around a region are not merged (`A⏎` region `B` gives `A⏎B`; `A⏎⏎` region `⏎⏎B` gives `A⏎⏎⏎⏎B`).

  Side conditions of `tex2txt_skip_regions` (`SegsOk T st1 segs`, decidable; plus `WFScan`)
    `T.toTables.WFScan`        the special table is sorted and has no empty key (real tables: `Generated.wfScan`)
    `markersOk st1`            both markers start with `%` and contain no line break (with `--nosp` the
                               markers are `x`: there are no regions at all)
    `specialsLocal T`          no entry of the special table has white space in front of its last
                               character (real tables: `\ `, `\⇥`, `\⏎` END with white space) — a longer
                               entry could match across the end of the hidden text
    text segments              `textOkS`: every character `okAtS` (see Proofs/PlainSkip.lean) in its right
                               context; in particular no `%`
    `skip bt hidden et ws`     `hiddenOk`; `et` without line break; `ws` white space without line break;
                               the following text does not start with white space (or is empty)
    `skipPar bt hidden et`     `hiddenOk`; `et` without line break; the following text is empty (the
                               region ends the source, without final line break) or starts with a line
                               break and a blank line
    options / fuel             no --defs, --extr, --repl, --unkn; single-language mode; source length + 2

  NOT covered: scanner errors inside the hidden text (see above: the model reports them); an END
  marker that is not the first thing on its line (source-level theorem); text around the regions
  that is more than inert text (the source-level theorem also allows ordinary comments);
  multi-language mode.
-/
import YalafiVerif.Proofs.PlainSkip
import YalafiVerif.Proofs.PlainVanish
namespace Yalafi
namespace Skip

open M
open Comment (commentSpan comTxt okAtC posText noNl commentSpan_bounds nextToken_percent)

/-! ### the scan of a hidden text -/

/-- the scanner runs through the text: every step succeeds (no `\verb` without its closing
    delimiter on the same line, no `\begin{verbatim}` without `\end{verbatim}`) and no token is a
    comment that starts with the END marker -/
def hiddenScan (T : Tables) (st : PState) : Nat → Str → Bool
  | _, [] => true
  | 0, _ :: _ => false
  | f + 1, c :: cs =>
    (nextToken T [] 0 (c :: cs)).diag.isNone && (nextToken T [] 0 (c :: cs)).len != 0 &&
    !isEndTok st (nextToken T [] 0 (c :: cs)).tok &&
    hiddenScan T st f ((c :: cs).drop (nextToken T [] 0 (c :: cs)).len)

/-- **the scanner re-synchronises at the closing comment**: if the hidden text `X` ends with white
    space behind its last line break and scans without error and without a closing comment, then
    the region ends with the comment token that starts at the `%` behind `X` -/
theorem regionEnd_of_hidden (T : Tables) (hT : specialsLocal T = true) (hwf : T.WFScan) (st : PState)
    (R : Str) (hE : isEndTok st (nextToken T [] 0 ('%' :: R)).tok = true) :
    ∀ (f : Nat) (X : Str) (F : Nat), f + 1 ≤ F → tailBlank X = true → hiddenScan T st f X = true →
      regionEnd T st F (X ++ '%' :: R) = some (X.length + commentSpan ('%' :: R)) := by
  have hpc : nextToken T [] 0 ('%' :: R)
      = { tok := { kind := .comment, pos := 0, txt := comTxt ('%' :: R) }, len := commentSpan ('%' :: R) } := by
    simp [nextToken, show isSpace '%' = false by decide, scanComment, comTxt,
      Comment.commentSpan_eq_commentLen]
  have hsp := (commentSpan_bounds '%' R).1
  intro f
  induction f with
  | zero =>
    intro X F hF hb hs
    cases X with
    | cons c cs => simp [hiddenScan] at hs
    | nil =>
      obtain ⟨F', rfl⟩ : ∃ k, F = k + 1 := ⟨F - 1, by omega⟩
      have hl0 : (commentSpan ('%' :: R) == 0) = false := by simp; omega
      simp only [List.nil_append, regionEnd, hE, if_true]
      simp [hpc, hl0]
  | succ f ih =>
    intro X F hF hb hs
    obtain ⟨F', rfl⟩ : ∃ k, F = k + 1 := ⟨F - 1, by omega⟩
    cases X with
    | nil =>
      have hl0 : (commentSpan ('%' :: R) == 0) = false := by simp; omega
      simp only [List.nil_append, regionEnd, hE, if_true]
      simp [hpc, hl0]
    | cons c cs =>
      simp only [hiddenScan, Bool.and_eq_true, Option.isNone_iff_eq_none, bne_iff_ne, ne_eq,
        Bool.not_eq_true'] at hs
      obtain ⟨⟨⟨hd, hl⟩, hne⟩, hrest⟩ := hs
      have hloc := nextToken_local T hT (c :: cs) R (by simp) hb hd
      have hlen := (nextToken_len T hwf [] 0 (c :: cs) (by simp)).2
      generalize hs' : nextToken T [] 0 (c :: cs) = s at hd hl hne hrest hloc hlen
      have hdrop : (c :: (cs ++ '%' :: R)).drop s.len = (c :: cs).drop s.len ++ '%' :: R := by
        rw [show c :: (cs ++ '%' :: R) = (c :: cs) ++ '%' :: R from rfl,
          List.drop_append_of_le_length hlen]
      simp only [List.cons_append] at hloc
      simp only [List.cons_append, regionEnd, hloc, hd, Option.isSome_none, Bool.false_or, hne,
        Bool.false_eq_true, if_false, hdrop]
      rw [if_neg (by simpa using hl), ih ((c :: cs).drop s.len) F' (by omega)
        (tailBlank_drop _ _ hb) hrest]
      simp only [Option.map_some, List.length_drop, List.length_cons]
      simp only [List.length_cons] at hlen
      congr 1
      omega

/-! ### documents: text segments and skipped regions -/

/-- a segment of the source (`B`, `E` are the two markers `st.skipBegin`, `st.skipEnd`):
    * `txt s`                 a run of text;
    * `skip bt hidden et ws`  a skipped region `B bt ⏎ hidden E et ⏎ ws`: `bt`, `et` are the rests of the
      two marker lines, `ws` is the white space at the beginning of the line behind the END marker
      line, which the closing comment token swallows together with the line break — visible text
      (or the end of the source) follows;
    * `skipPar bt hidden et`  a skipped region `B bt ⏎ hidden E et` in front of a blank line (or at
      the very end of the source): the closing comment token ends in front of the line break, which
      belongs to the text that follows -/
inductive Seg where
  | txt (s : Str)
  | skip (bt hidden et ws : Str)
  | skipPar (bt hidden et : Str)
deriving Repr, DecidableEq

/-- the opening marker line and the hidden text: `B bt ⏎ hidden` -/
def regionHead (mb bt hidden : Str) : Str := mb ++ bt ++ nl :: hidden

def Seg.render (st : PState) : Seg → Str
  | .txt s => s
  | .skip bt h et ws => regionHead st.skipBegin bt h ++ (st.skipEnd ++ et ++ nl :: ws)
  | .skipPar bt h et => regionHead st.skipBegin bt h ++ (st.skipEnd ++ et)

/-- the source text -/
def render (st : PState) : List Seg → Str
  | [] => []
  | s :: rest => s.render st ++ render st rest

/-- **the reference output**: the characters of the text segments, each with its own (0-based)
    source position; a skipped region contributes nothing -/
def plain (st : PState) : Nat → List Seg → List (Char × Nat)
  | _, [] => []
  | p, .txt s :: rest => posText p s ++ plain st (p + s.length) rest
  | p, .skip bt h et ws :: rest => plain st (p + ((Seg.skip bt h et ws).render st).length) rest
  | p, .skipPar bt h et :: rest => plain st (p + ((Seg.skipPar bt h et).render st).length) rest

/-- the skipped regions as (0-based start, length) -/
def regions (st : PState) : Nat → List Seg → List (Nat × Nat)
  | _, [] => []
  | p, .txt s :: rest => regions st (p + s.length) rest
  | p, .skip bt h et ws :: rest =>
    (p, ((Seg.skip bt h et ws).render st).length)
      :: regions st (p + ((Seg.skip bt h et ws).render st).length) rest
  | p, .skipPar bt h et :: rest =>
    (p, ((Seg.skipPar bt h et).render st).length)
      :: regions st (p + ((Seg.skipPar bt h et).render st).length) rest

/-! ### the side conditions -/

/-- the two markers start with `%` and contain no line break -/
def markersOk (st : PState) : Bool :=
  st.skipBegin.head? == some '%' && noNl st.skipBegin &&
  st.skipEnd.head? == some '%' && noNl st.skipEnd

/-- **the condition on a hidden text** (`bt`: the rest of the BEGIN marker line):
    * `bt` contains no line break;
    * `tailBlank hidden`: behind the last line break of `hidden` there is white space only — the END
      marker is the first thing on its line (it may be indented; `hidden` may be empty);
    * `hiddenScan`: the scanner runs through `B bt ⏎ hidden` (behind the opening comment token)
      without an error — every `\verb` has its closing delimiter on its line, every
      `\begin{verbatim}` its `\end{verbatim}` — and meets no comment token that starts with the END
      marker.
    Everything else is allowed in `hidden`: macros, braces (unbalanced), `$`, `\verb|…|`, verbatim
    environments, comment lines, further BEGIN markers. -/
def hiddenOk (T : Tables) (st : PState) (bt hidden : Str) : Bool :=
  noNl bt && tailBlank hidden &&
  hiddenScan T st
    ((regionHead st.skipBegin bt hidden).drop (commentSpan (regionHead st.skipBegin bt hidden))).length
    ((regionHead st.skipBegin bt hidden).drop (commentSpan (regionHead st.skipBegin bt hidden)))

/-- the text `s`, followed by `R`, is inert -/
def textOkS (T : PTables) (st : PState) : Str → Str → Bool
  | [], _ => true
  | c :: cs, R => okAtS T st c (cs ++ R) && textOkS T st cs R

/-- well-formed documents: every segment is fine in front of the rendering of the following ones -/
def segsOk (T : PTables) (st : PState) : List Seg → Bool
  | [] => true
  | .txt s :: rest => textOkS T st s (render st rest) && segsOk T st rest
  | .skip bt h et ws :: rest =>
    hiddenOk T.toTables st bt h && noNl et && ws.all isSpace && !hasNl ws &&
    (render st rest).head?.all (fun c => !isSpace c) && segsOk T st rest
  | .skipPar bt h et :: rest =>
    hiddenOk T.toTables st bt h && noNl et &&
    ((render st rest).isEmpty ||
      ((render st rest).head? == some nl && hasNl ((render st rest).tail.takeWhile isSpace))) &&
    segsOk T st rest

/-- all side conditions on the tables, the initialised parser state and the document -/
def SegsOk (T : PTables) (st : PState) (segs : List Seg) : Prop :=
  markersOk st = true ∧ specialsLocal T.toTables = true ∧ segsOk T st segs = true

instance (T : PTables) (st : PState) (segs : List Seg) : Decidable (SegsOk T st segs) := by
  unfold SegsOk; infer_instance

/-! ### a region is a region of the class -/

theorem startsWith_append_self : ∀ (a b : Str), startsWith (a ++ b) a = true
  | [], _ => by simp [startsWith]
  | c :: a, b => by simp [startsWith, startsWith_append_self a b]

theorem noNl_append {a b : Str} (ha : noNl a = true) (hb : noNl b = true) : noNl (a ++ b) = true := by
  unfold noNl at ha hb ⊢
  rw [List.all_append, ha, hb]; rfl

theorem hasNl_mid (a h : Str) : hasNl (a ++ nl :: h) = true := by
  simp [hasNl]

theorem tailBlank_append_nl : ∀ (a h : Str), tailBlank (a ++ nl :: h) = tailBlank h
  | [], h => by simp [tailBlank, show isSpace nl = true by decide]
  | c :: a, h => by
    simp only [List.cons_append, tailBlank, hasNl_mid a h, Bool.or_true, Bool.true_and,
      tailBlank_append_nl a h]

structure Markers (st : PState) (mb' me' : Str) : Prop where
  b : st.skipBegin = '%' :: mb'
  bn : noNl mb' = true
  e : st.skipEnd = '%' :: me'
  en : noNl me' = true

theorem markers {st : PState} (h : markersOk st = true) : ∃ mb' me', Markers st mb' me' := by
  simp only [markersOk, Bool.and_eq_true, beq_iff_eq] at h
  obtain ⟨⟨⟨h1, h2⟩, h3⟩, h4⟩ := h
  cases hb : st.skipBegin with
  | nil => rw [hb] at h1; simp at h1
  | cons c mb' =>
    cases he : st.skipEnd with
    | nil => rw [he] at h3; simp at h3
    | cons d me' =>
      rw [hb] at h1 h2; rw [he] at h3 h4
      simp only [List.head?_cons, Option.some.injEq] at h1 h3
      subst h1; subst h3
      simp only [noNl, List.all_cons, Bool.and_eq_true] at h2 h4
      exact ⟨mb', me', hb, h2.2, he, h4.2⟩

/-- the text of a comment token `%t⏎…` starts with `%t` -/
theorem comTxt_starts (t R : Str) (h : noNl t = true) :
    ∃ x, comTxt ('%' :: (t ++ nl :: R)) = ('%' :: t) ++ x := by
  rw [Comment.comTxt_com t R h]
  split
  · exact ⟨[], by simp⟩
  · exact ⟨nl :: R.takeWhile isSpace, by simp⟩

theorem skipText_reg_intro (T : PTables) (st : PState) (cs : Str) (n : Nat)
    (hb : startsWith (comTxt ('%' :: cs)) st.skipBegin = true)
    (hn : regionLen T.toTables st ('%' :: cs) = some n)
    (h : skipTextA T st 0 (('%' :: cs).drop n) = true) : skipTextA T st 0 ('%' :: cs) = true := by
  obtain ⟨k, hk⟩ : ∃ k, n = k + 1 := ⟨n - 1, by have := regionLen_pos hn; omega⟩
  simp only [skipTextA, beq_self_eq_true, if_true, hb, hn]
  rw [skipTextA_skip, hk]
  rw [hk] at h
  simpa using h

/-- **a region of the document is a region for the scanner**: the text `B bt ⏎ hidden` in front of a
    comment `%E''` that starts with the END marker -/
theorem region_ok (T : PTables) (st : PState) (hm : markersOk st = true)
    (hT : specialsLocal T.toTables = true) (hwf : T.toTables.WFScan) (bt h : Str)
    (hh : hiddenOk T.toTables st bt h = true) (E : Str)
    (hE : startsWith (comTxt ('%' :: E)) st.skipEnd = true) :
    ∃ cs0, regionHead st.skipBegin bt h ++ '%' :: E = '%' :: cs0 ∧
      startsWith (comTxt ('%' :: cs0)) st.skipBegin = true ∧
      regionLen T.toTables st ('%' :: cs0)
        = some ((regionHead st.skipBegin bt h).length + commentSpan ('%' :: E)) := by
  obtain ⟨mb', me', M⟩ := markers hm
  simp only [hiddenOk, Bool.and_eq_true] at hh
  obtain ⟨⟨hbt, htb⟩, hscan⟩ := hh
  have hB : regionHead st.skipBegin bt h = '%' :: ((mb' ++ bt) ++ nl :: h) := by
    simp [regionHead, M.b]
  rw [hB] at hscan
  have hnlB : hasNl ((mb' ++ bt) ++ nl :: h) = true := hasNl_mid _ _
  have hspanB := commentSpan_local '%' ((mb' ++ bt) ++ nl :: h) E hnlB
  obtain ⟨b1, b2⟩ := commentSpan_bounds '%' ((mb' ++ bt) ++ nl :: h)
  refine ⟨((mb' ++ bt) ++ nl :: h) ++ '%' :: E, by rw [hB]; rfl, ?_, ?_⟩
  · -- the opening comment starts with the BEGIN marker
    have htxt : comTxt ('%' :: (((mb' ++ bt) ++ nl :: h) ++ '%' :: E))
        = comTxt ('%' :: ((mb' ++ bt) ++ nl :: h)) := by
      unfold comTxt
      rw [hspanB, show '%' :: (((mb' ++ bt) ++ nl :: h) ++ '%' :: E)
        = ('%' :: ((mb' ++ bt) ++ nl :: h)) ++ '%' :: E from rfl, List.take_append_of_le_length b2]
    obtain ⟨x, hx⟩ := comTxt_starts (mb' ++ bt) h (noNl_append M.bn hbt)
    rw [htxt, hx, M.b, show '%' :: (mb' ++ bt) ++ x = ('%' :: mb') ++ (bt ++ x) by simp]
    exact startsWith_append_self _ _
  · unfold regionLen
    rw [hspanB]
    have hdrop : ('%' :: (((mb' ++ bt) ++ nl :: h) ++ '%' :: E)).drop
          (commentSpan ('%' :: ((mb' ++ bt) ++ nl :: h)))
        = ('%' :: ((mb' ++ bt) ++ nl :: h)).drop (commentSpan ('%' :: ((mb' ++ bt) ++ nl :: h)))
          ++ '%' :: E := by
      rw [show '%' :: (((mb' ++ bt) ++ nl :: h) ++ '%' :: E)
        = ('%' :: ((mb' ++ bt) ++ nl :: h)) ++ '%' :: E from rfl, List.drop_append_of_le_length b2]
    rw [hdrop]
    have htbB : tailBlank ('%' :: ((mb' ++ bt) ++ nl :: h)) = true := by
      rw [show '%' :: ((mb' ++ bt) ++ nl :: h) = ('%' :: (mb' ++ bt)) ++ nl :: h from rfl,
        tailBlank_append_nl]
      exact htb
    have hEtok : isEndTok st (nextToken T.toTables [] 0 ('%' :: E)).tok = true := by
      rw [nextToken_percent]
      simp [isEndTok, hE]
    rw [regionEnd_of_hidden T.toTables hT hwf st E hEtok _ _ _ (by simp) (tailBlank_drop _ _ htbB) hscan]
    simp only [Option.map_some, List.length_drop, hB]
    congr 1
    omega

/-- a region segment `segR` in front of `R`: the source is of the class if `R` is, and the
    reference skips the whole segment -/
theorem region_seg (T : PTables) (st : PState) (hm : markersOk st = true)
    (hT : specialsLocal T.toTables = true) (hwf : T.toTables.WFScan) (bt h : Str)
    (hh : hiddenOk T.toTables st bt h = true) (segR R E : Str)
    (hsrc : segR ++ R = regionHead st.skipBegin bt h ++ '%' :: E)
    (hE : startsWith (comTxt ('%' :: E)) st.skipEnd = true)
    (hlen : segR.length = (regionHead st.skipBegin bt h).length + commentSpan ('%' :: E))
    (hR : skipTextA T st 0 R = true) (i : Nat) :
    skipTextA T st 0 (segR ++ R) = true ∧
    stripS T.toTables st 0 (segR ++ R) i = stripS T.toTables st 0 R (i + segR.length) := by
  obtain ⟨cs0, h0, hb, hn⟩ := region_ok T st hm hT hwf bt h hh E hE
  have hsrc' : '%' :: cs0 = segR ++ R := by rw [hsrc, h0]
  have hdrop : ('%' :: cs0).drop segR.length = R := by rw [hsrc', List.drop_left]
  rw [← hlen] at hn
  rw [← hsrc']
  refine ⟨skipText_reg_intro T st cs0 _ hb hn (by rw [hdrop]; exact hR), ?_⟩
  rw [strip_reg T.toTables st cs0 i _ hb hn, hdrop]

theorem takeWhile_ws (ws R : Str) (h1 : ws.all isSpace = true)
    (h2 : R.head?.all (fun c => !isSpace c) = true) : (ws ++ R).takeWhile isSpace = ws := by
  induction ws with
  | nil =>
    cases R with
    | nil => rfl
    | cons c cs =>
      have : isSpace c = false := by simpa using h2
      simp [this]
  | cons c ws ih =>
    simp only [List.all_cons, Bool.and_eq_true] at h1
    simp [h1.1, ih h1.2]

theorem okAtS_ne_percent {T : PTables} {st : PState} {c : Char} {cs : Str}
    (h : okAtS T st c cs = true) : c ≠ '%' := Comment.okAtC_ne_percent (okAtS_okAtC h)

theorem textOkS_skipText (T : PTables) (st : PState) (R : Str) (hR : skipTextA T st 0 R = true) :
    ∀ s : Str, textOkS T st s R = true → skipTextA T st 0 (s ++ R) = true
  | [], _ => hR
  | c :: cs, h => by
    simp only [textOkS, Bool.and_eq_true] at h
    have hc := okAtS_ne_percent h.1
    simp only [List.cons_append, skipTextA, beq_iff_eq, hc, if_false, Bool.and_eq_true]
    exact ⟨h.1, textOkS_skipText T st R hR cs h.2⟩

theorem textOkS_ne_percent (T : PTables) (st : PState) (R : Str) :
    ∀ s : Str, textOkS T st s R = true → ∀ c ∈ s, c ≠ '%'
  | [], _, c, hc => by simp at hc
  | d :: ds, h, c, hc => by
    simp only [textOkS, Bool.and_eq_true] at h
    rcases List.mem_cons.mp hc with rfl | hc
    · exact okAtS_ne_percent h.1
    · exact textOkS_ne_percent T st R ds h.2 c hc

theorem strip_text (T : Tables) (st : PState) (s R : Str) (i : Nat) (h : ∀ c ∈ s, c ≠ '%') :
    stripS T st 0 (s ++ R) i = posText i s ++ stripS T st 0 R (i + s.length) := by
  induction s generalizing i with
  | nil => simp [posText]
  | cons c cs ih =>
    rw [List.cons_append, strip_char T st c _ i (h c (by simp)), ih (i + 1) (fun x hx => h x (by simp [hx]))]
    simp [posText, Nat.add_assoc, Nat.add_comm 1]

/-- **a well-formed document is a text of the class, and its reference output is `plain`** -/
theorem segs_class (T : PTables) (st : PState) (hm : markersOk st = true)
    (hT : specialsLocal T.toTables = true) (hwf : T.toTables.WFScan) :
    ∀ (segs : List Seg), segsOk T st segs = true → ∀ i : Nat,
      skipTextA T st 0 (render st segs) = true ∧
      stripS T.toTables st 0 (render st segs) i = plain st i segs
  | [], _, i => ⟨rfl, rfl⟩
  | .txt s :: rest, h, i => by
    simp only [segsOk, Bool.and_eq_true] at h
    have I := segs_class T st hm hT hwf rest h.2
    refine ⟨textOkS_skipText T st _ (I 0).1 s h.1, ?_⟩
    simp only [render, Seg.render, plain]
    rw [strip_text T.toTables st s _ i (textOkS_ne_percent T st _ s h.1), (I _).2]
  | .skip bt hd et ws :: rest, h, i => by
    obtain ⟨mb', me', M⟩ := markers hm
    simp only [segsOk, Bool.and_eq_true, Bool.not_eq_true'] at h
    obtain ⟨⟨⟨⟨⟨h1, h2⟩, h3⟩, h4⟩, h5⟩, h6⟩ := h
    have I := segs_class T st hm hT hwf rest h6
    have hnt : noNl (me' ++ et) = true := noNl_append M.en h2
    have htw := takeWhile_ws ws (render st rest) h3 h5
    have hspan : commentSpan ('%' :: ((me' ++ et) ++ nl :: (ws ++ render st rest)))
        = (me' ++ et).length + 2 + ws.length := by
      rw [Comment.span_com _ _ hnt, htw, h4]; rfl
    obtain ⟨x, hx⟩ := comTxt_starts (me' ++ et) (ws ++ render st rest) hnt
    have hE : startsWith (comTxt ('%' :: ((me' ++ et) ++ nl :: (ws ++ render st rest)))) st.skipEnd = true := by
      rw [hx, M.e, show '%' :: (me' ++ et) ++ x = ('%' :: me') ++ (et ++ x) by simp]
      exact startsWith_append_self _ _
    have R := region_seg T st hm hT hwf bt hd h1 ((Seg.skip bt hd et ws).render st) (render st rest)
      ((me' ++ et) ++ nl :: (ws ++ render st rest))
      (by simp [Seg.render, M.e, List.append_assoc]) hE
      (by rw [hspan]; simp [Seg.render, M.e]; omega) (I 0).1 i
    simp only [render, plain]
    exact ⟨R.1, by rw [R.2, (I _).2]⟩
  | .skipPar bt hd et :: rest, h, i => by
    obtain ⟨mb', me', M⟩ := markers hm
    simp only [segsOk, Bool.and_eq_true, Bool.or_eq_true, beq_iff_eq] at h
    obtain ⟨⟨⟨h1, h2⟩, h3⟩, h6⟩ := h
    have I := segs_class T st hm hT hwf rest h6
    have hnt : noNl (me' ++ et) = true := noNl_append M.en h2
    have hE : ∃ E, (Seg.skipPar bt hd et).render st ++ render st rest
          = regionHead st.skipBegin bt hd ++ '%' :: E ∧
        startsWith (comTxt ('%' :: E)) st.skipEnd = true ∧
        commentSpan ('%' :: E) = (me' ++ et).length + 1 := by
      rcases h3 with h3 | ⟨h3, h4⟩
      · have hr : render st rest = [] := by simpa using h3
        refine ⟨me' ++ et, by simp [Seg.render, M.e, hr], ?_, Comment.span_eof _ hnt⟩
        rw [Comment.comTxt_eof _ hnt, M.e, show '%' :: (me' ++ et) = ('%' :: me') ++ et by simp]
        exact startsWith_append_self _ _
      · cases hr : render st rest with
        | nil => rw [hr] at h3; simp at h3
        | cons c R' =>
          rw [hr] at h3 h4
          simp only [List.head?_cons, Option.some.injEq, List.tail_cons] at h3 h4
          subst h3
          refine ⟨(me' ++ et) ++ nl :: R', by simp [Seg.render, M.e, List.append_assoc], ?_, ?_⟩
          · obtain ⟨x, hx⟩ := comTxt_starts (me' ++ et) R' hnt
            rw [hx, M.e, show '%' :: (me' ++ et) ++ x = ('%' :: me') ++ (et ++ x) by simp]
            exact startsWith_append_self _ _
          · rw [Comment.span_com _ _ hnt, h4]; rfl
    obtain ⟨E, e1, e2, e3⟩ := hE
    have R := region_seg T st hm hT hwf bt hd h1 ((Seg.skipPar bt hd et).render st) (render st rest) E
      e1 e2 (by rw [e3]; simp [Seg.render, M.e]) (I 0).1 i
    simp only [render, plain]
    exact ⟨R.1, by rw [R.2, (I _).2]⟩

/-! ### the end-to-end statement -/

/-- **C03 for skipped regions, end to end.**  The document is a sequence of inert text segments and
    skipped regions `%%% LT-SKIP-BEGIN … ⏎ hidden %%% LT-SKIP-END … ⏎` whose hidden text is ARBITRARY
    source text subject to `hiddenOk` (`SegsOk`: all side conditions, computable); the scanner
    tables are well-formed (`WFScan`); `st1` is the state after `Parser.__init__`; no `--defs`,
    `--extr`, `--repl`, `--unkn`; single-language mode.  With one unit of fuel per source character
    plus two, `tex2txt` succeeds and

    * the output text with its (1-based) positions is `plain st1 0 segs`: the characters of the text
      segments, each at its own source position; nothing of a region — neither of the two marker
      lines (the closing comment swallows its line break and the white space `ws` behind it, or,
      in front of a blank line, stops in front of the line break) nor of the hidden text;
    * no line is removed (a region leaves no Action token);
    * nothing is reported as unknown — the macros inside the regions never reach the expander —
      and no diagnostic is added. -/
theorem tex2txt_skip_regions (T : PTables) (o : Options) (fs : FS) (thresh : Nat)
    (segs : List Seg) (fuel : Nat) (st1 : PState) (hwf : T.toTables.WFScan)
    (hdefs : o.defs = []) (hextr : o.extr = []) (hrepl : o.hasRepl = false)
    (hunkn : o.unkn = false)
    (hinit : initParser T fuel o (initialState T o false fs) = .ok ((), st1))
    (hok : SegsOk T st1 segs) (hf : (render st1 segs).length + 2 ≤ fuel) :
    ∃ r, tex2txt T fuel (render st1 segs) o false thresh fs = .ok r ∧
      r.txt = (plain st1 0 segs).map (·.1) ∧
      r.pos = (plain st1 0 segs).map (·.2 + 1) ∧
      r.unknowns = [] ∧ r.diags = st1.diags ∧ r.parts = [] := by
  obtain ⟨hm, hT, hs⟩ := hok
  have C := segs_class T st1 hm hT hwf segs hs 0
  obtain ⟨toks, ht⟩ := tex2txt_skip_text T o fs thresh (render st1 segs) fuel st1 hdefs hextr hrepl
    hunkn hinit C.1 hf
  refine ⟨_, ht, ?_, ?_, rfl, rfl, rfl⟩
  · simp only [stripSkip, C.2]
  · simp only [stripSkip, C.2]

/-! ### no output position lies inside a region -/

open PlainVanish (mem_posText) in
theorem plain_ge {st : PState} {cp : Char × Nat} : ∀ {segs : List Seg} {p : Nat},
    cp ∈ plain st p segs → p ≤ cp.2
  | [], _, h => by simp [plain] at h
  | .txt s :: rest, p, h => by
    simp only [plain, List.mem_append] at h
    rcases h with h | h
    · exact (mem_posText h).1
    · have := plain_ge h; omega
  | .skip bt hd et ws :: rest, p, h => by
    simp only [plain] at h
    have := plain_ge h; omega
  | .skipPar bt hd et :: rest, p, h => by
    simp only [plain] at h
    have := plain_ge h; omega

theorem regions_ge {st : PState} {q : Nat × Nat} : ∀ {segs : List Seg} {p : Nat},
    q ∈ regions st p segs → p ≤ q.1
  | [], _, h => by simp [regions] at h
  | .txt s :: rest, p, h => by
    simp only [regions] at h
    have := regions_ge h; omega
  | .skip bt hd et ws :: rest, p, h => by
    simp only [regions, List.mem_cons] at h
    rcases h with rfl | h
    · exact Nat.le_refl _
    · have := regions_ge h; omega
  | .skipPar bt hd et :: rest, p, h => by
    simp only [regions, List.mem_cons] at h
    rcases h with rfl | h
    · exact Nat.le_refl _
    · have := regions_ge h; omega

open PlainVanish (mem_posText) in
/-- **no character of the reference lies inside a skipped region** -/
theorem plain_pos_outside {st : PState} {cp : Char × Nat} {q : Nat × Nat} :
    ∀ {segs : List Seg} {p : Nat}, cp ∈ plain st p segs → q ∈ regions st p segs →
      cp.2 < q.1 ∨ q.1 + q.2 ≤ cp.2
  | [], _, h, _ => by simp [plain] at h
  | .txt s :: rest, p, h, hq => by
    simp only [plain, List.mem_append] at h
    simp only [regions] at hq
    rcases h with h | h
    · have := (mem_posText h).2
      have := regions_ge hq
      left; omega
    · exact plain_pos_outside h hq
  | .skip bt hd et ws :: rest, p, h, hq => by
    simp only [plain] at h
    simp only [regions, List.mem_cons] at hq
    rcases hq with rfl | hq
    · have := plain_ge h
      right; exact this
    · exact plain_pos_outside h hq
  | .skipPar bt hd et :: rest, p, h, hq => by
    simp only [plain] at h
    simp only [regions, List.mem_cons] at hq
    rcases hq with rfl | hq
    · have := plain_ge h
      right; exact this
    · exact plain_pos_outside h hq

end Skip
end Yalafi
