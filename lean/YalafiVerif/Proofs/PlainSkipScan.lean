/-
  Proofs/PlainSkipScan.lean — two facts about the scanner `next_token` that the skip-region theorems
  (Proofs/PlainSkip.lean, Proofs/PlainSkipSeg.lean) need:

  `nextToken_indep`   one scanner step depends on the whole source `src` and on the start position
                      only through the token position and the error report: length, success, kind and
                      text of the token are functions of the remaining text alone (`SameStep`)
  `nextToken_local`   RE-SYNCHRONISATION: if the text `X` in front of a `%` ends with white space behind
                      its last line break (`tailBlank`), no entry of the special table has white space
                      in front of its last character (`specialsLocal`), and the step on `X` alone
                      succeeds, then the step on `X ++ '%' :: R` is the same step — it does not look
                      beyond `X`.  Proved sub-scanner by sub-scanner: `scanSpace_local`,
                      `scanComment_local` (the comment ends at a line break inside `X`),
                      `matchSpecial_local` / `startsWith_local`, `scanVerb_local` (the closing delimiter
                      was found), `scanVerbatim_local` / `findSub_local` (`\end{verbatim}` was found
                      inside `X`), `scanMacro_local` (`%` ends a control word).
  Without the hypotheses the statement is false: `X = "\verb"` + line break takes the line break as
  delimiter and reads on; `X = "\begin{verbatim}…"` without its end looks for `\end{verbatim}` behind
  `X`; `X = "% c"` (a comment without its line break) or `X = "\"` absorb the `%`.
-/
import YalafiVerif.Proofs.PlainComment
namespace Yalafi
namespace Skip

/-- two scanner steps agree in everything but the position of the token and the error report -/
structure SameStep (s s' : ScanStep) : Prop where
  len : s.len = s'.len
  diag : s.diag.isSome = s'.diag.isSome
  ok : s'.diag = none → s.extra = [] ∧ s'.extra = [] ∧ s.tok.kind = s'.tok.kind ∧ s.tok.txt = s'.tok.txt

theorem scanVerb_indep (T : Tables) (src : Str) (pos : Nat) (rest : Str) :
    SameStep (scanVerb T src pos rest) (scanVerb T [] 0 rest) := by
  unfold scanVerb
  simp only []
  split
  · exact ⟨rfl, rfl, by simp⟩
  · split
    · exact ⟨rfl, rfl, by simp⟩
    · split
      · exact ⟨rfl, rfl, by simp⟩
      · exact ⟨rfl, rfl, by simp⟩

theorem scanVerbatim_indep (T : Tables) (src : Str) (pos : Nat) (rest : Str) :
    SameStep (scanVerbatim T src pos rest) (scanVerbatim T [] 0 rest) := by
  unfold scanVerbatim
  simp only []
  split
  · exact ⟨rfl, rfl, by simp⟩
  · split
    · exact ⟨rfl, rfl, by simp⟩
    · exact ⟨rfl, rfl, by simp⟩

theorem scanMacro_indep (T : Tables) (src : Str) (pos : Nat) (rest : Str) :
    SameStep (scanMacro T src pos rest) (scanMacro T [] 0 rest) := by
  unfold scanMacro
  simp only []
  split
  · exact scanVerbatim_indep T src pos rest
  · split
    · exact ⟨rfl, rfl, by simp⟩
    · split
      · exact ⟨rfl, rfl, by simp⟩
      · split
        · exact scanVerb_indep T src pos rest
        · split
          · exact ⟨rfl, rfl, by simp⟩
          · exact ⟨rfl, rfl, by simp⟩

theorem scanArgToken_indep (T : Tables) (pos : Nat) (rest : Str) :
    SameStep (scanArgToken T pos rest) (scanArgToken T 0 rest) := by
  unfold scanArgToken
  cases rest.tail.head? with
  | none => exact ⟨rfl, rfl, by simp⟩
  | some d =>
    simp only []
    cases decimalValue T.decimalZeros d with
    | none => exact ⟨rfl, rfl, by simp⟩
    | some v => exact ⟨rfl, rfl, by simp⟩

/-- **one scanner step is a function of the remaining text**, up to the token position and the
    error report -/
theorem nextToken_indep (T : Tables) (src : Str) (pos : Nat) (rest : Str) :
    SameStep (nextToken T src pos rest) (nextToken T [] 0 rest) := by
  cases rest with
  | nil => exact ⟨rfl, rfl, by simp [nextToken]⟩
  | cons c cs =>
    unfold nextToken
    simp only []
    by_cases h1 : isSpace c = true
    · simp only [h1, if_true]
      exact ⟨rfl, rfl, by simp [scanSpace]⟩
    · simp only [h1]
      by_cases h2 : (c == '%') = true
      · simp only [h2, if_true]
        exact ⟨rfl, rfl, by simp [scanComment]⟩
      · simp only [h2]
        by_cases h3 : (c == '#') = true
        · simp only [h3, if_true]
          exact scanArgToken_indep T pos _
        · simp only [h3]
          cases matchSpecial T (c :: cs) with
          | some t => exact ⟨rfl, rfl, by simp⟩
          | none =>
            simp only []
            by_cases h4 : (c == '\\') = true
            · simp only [h4, if_true]
              exact scanMacro_indep T src pos _
            · simp only [h4]
              exact ⟨rfl, rfl, by simp⟩

/-! ### re-synchronisation -/

/-- every character that is no white space has a line break somewhere behind it: the text is empty,
    or it ends with a line break that is followed by white space only -/
def tailBlank : Str → Bool
  | [] => true
  | c :: cs => (isSpace c || hasNl cs) && tailBlank cs

/-- the text is not empty and its last character is white space -/
def endsSp : Str → Bool
  | [] => false
  | [c] => isSpace c
  | _ :: c :: cs => endsSp (c :: cs)

theorem endsSp_of_tailBlank : ∀ (X : Str), X ≠ [] → tailBlank X = true → endsSp X = true
  | [], h, _ => absurd rfl h
  | [c], _, h => by simpa [tailBlank, hasNl, endsSp] using h
  | _ :: c :: cs, _, h => by
    simp only [tailBlank, Bool.and_eq_true] at h
    simp only [endsSp]
    exact endsSp_of_tailBlank (c :: cs) (by simp) (by simp only [tailBlank, Bool.and_eq_true]; exact h.2)

theorem tailBlank_drop : ∀ (n : Nat) (X : Str), tailBlank X = true → tailBlank (X.drop n) = true
  | 0, _, h => h
  | _ + 1, [], h => h
  | n + 1, _ :: cs, h => by
    simp only [tailBlank, Bool.and_eq_true] at h
    exact tailBlank_drop n cs h.2

theorem endsSp_drop : ∀ (n : Nat) (X : Str), endsSp X = true → X.drop n ≠ [] → endsSp (X.drop n) = true
  | 0, _, h, _ => h
  | _ + 1, [], h, _ => by simp [endsSp] at h
  | n + 1, [c], _, hne => by simp at hne
  | n + 1, _ :: c :: cs, h, hne => by
    simp only [endsSp] at h
    exact endsSp_drop n (c :: cs) h (by simpa using hne)

theorem endsSp_ne {X : Str} (h : endsSp X = true) : X ≠ [] := by
  intro e; subst e; simp [endsSp] at h

theorem takeWhile_stop1 {α} (p : α → Bool) (x : α) (hx : p x = false) :
    ∀ (a b : List α), (a ++ x :: b).takeWhile p = a.takeWhile p
  | [], b => by simp [hx]
  | y :: a, b => by
    by_cases hy : p y = true
    · simp [hy, takeWhile_stop1 p x hx a b]
    · simp [hy]

theorem takeWhile_stop_mem {α} (p : α → Bool) : ∀ (a b : List α), (∃ x ∈ a, p x = false) →
    (a ++ b).takeWhile p = a.takeWhile p ∧ (a ++ b).dropWhile p = a.dropWhile p ++ b
  | [], _, h => by obtain ⟨x, hx, _⟩ := h; simp at hx
  | y :: a, b, h => by
    by_cases hy : p y = true
    · obtain ⟨x, hx, hpx⟩ := h
      rcases List.mem_cons.mp hx with rfl | hx
      · rw [hy] at hpx; cases hpx
      · have := takeWhile_stop_mem p a b ⟨x, hx, hpx⟩
        simp [hy, this.1, this.2]
    · simp [hy]

/-- a pattern whose white space — if any — is its last character matches at the head of
    `X ++ '%' :: R` iff it matches at the head of `X`, when `X` ends with white space -/
theorem startsWith_local (R : Str) : ∀ (X t : Str), endsSp X = true →
    t.dropLast.all (fun c => !isSpace c) = true →
    startsWith (X ++ '%' :: R) t = startsWith X t
  | _, [], _, _ => by simp [startsWith]
  | [], _ :: _, h, _ => by simp [endsSp] at h
  | [x], [d], _, _ => by simp [startsWith]
  | [x], d :: d2 :: t, h, ht => by
    simp only [endsSp] at h
    simp only [List.dropLast_cons_cons, List.all_cons, Bool.and_eq_true, Bool.not_eq_true'] at ht
    have : (x == d) = false := by
      cases hxd : x == d with
      | false => rfl
      | true => rw [beq_iff_eq] at hxd; rw [hxd] at h; rw [h] at ht; exact absurd ht.1 (by simp)
    simp [startsWith, this]
  | x :: x2 :: r, [d], _, _ => by simp [startsWith]
  | x :: x2 :: r, d :: d2 :: t, h, ht => by
    simp only [endsSp] at h
    simp only [List.dropLast_cons_cons, List.all_cons, Bool.and_eq_true] at ht
    have ih := startsWith_local R (x2 :: r) (d2 :: t) h ht.2
    simp only [List.cons_append, startsWith] at ih ⊢
    rw [ih]

/-- no entry of the special table has white space in front of its last character (in the tables of
    /repo: `\ `, `\⇥`, `\⏎` end with white space, no other entry contains any) -/
def specialsLocal (T : Tables) : Bool :=
  T.specialSorted.all (fun t => t.dropLast.all (fun c => !isSpace c))

theorem find?_congr' {α} (p q : α → Bool) : ∀ (l : List α), (∀ x ∈ l, p x = q x) →
    l.find? p = l.find? q
  | [], _ => rfl
  | a :: l, h => by
    simp only [List.find?_cons, h a (List.mem_cons_self ..),
      find?_congr' p q l (fun x hx => h x (List.mem_cons_of_mem _ hx))]

theorem mem_of_mem_dropLast' {α} : ∀ {l : List α} {x : α}, x ∈ l.dropLast → x ∈ l
  | [], _, h => by simp at h
  | [_], _, h => by simp at h
  | a :: b :: l, x, h => by
    simp only [List.dropLast_cons_cons, List.mem_cons] at h
    rcases h with rfl | h
    · simp
    · exact List.mem_cons_of_mem _ (mem_of_mem_dropLast' h)

theorem matchSpecial_local (T : Tables) (hT : specialsLocal T = true) (X R : Str)
    (h : endsSp X = true) : matchSpecial T (X ++ '%' :: R) = matchSpecial T X := by
  unfold matchSpecial
  exact find?_congr' _ _ _ (fun t ht => startsWith_local R X t h (List.all_eq_true.mp hT t ht))

theorem findSub_local (p R : Str) (hp : p.all (fun c => !isSpace c) = true) (hne : p ≠ []) :
    ∀ (X : Str) (e : Nat), endsSp X = true → findSub p X = some e →
      findSub p (X ++ '%' :: R) = some e
  | [], _, h, _ => by simp [endsSp] at h
  | c :: cs, e, h, hf => by
    have hp' : p.dropLast.all (fun c => !isSpace c) = true := by
      rw [List.all_eq_true] at hp ⊢
      exact fun x hx => hp x (mem_of_mem_dropLast' hx)
    have hsw := startsWith_local R (c :: cs) p h hp'
    simp only [List.cons_append, findSub] at hf ⊢
    rw [show c :: (cs ++ '%' :: R) = (c :: cs) ++ '%' :: R from rfl, hsw]
    split
    · rename_i hs; rw [if_pos hs] at hf; exact hf
    · rename_i hs
      rw [if_neg hs] at hf
      cases hc : findSub p cs with
      | none => rw [hc] at hf; cases hf
      | some e' =>
        rw [hc] at hf
        have hcs : cs ≠ [] := by
          intro e0; subst e0
          cases p with
          | nil => exact absurd rfl hne
          | cons => simp [findSub] at hc
        have hE : endsSp cs = true := by
          have := endsSp_drop 1 (c :: cs) h (by simpa using hcs)
          simpa using this
        rw [findSub_local p R hp hne cs e' hE hc]
        exact hf

theorem scanSpace_local (X R : Str) :
    scanSpace 0 (X ++ '%' :: R) = scanSpace 0 X := by
  simp only [scanSpace, takeWhile_stop1 isSpace '%' (by decide) X R]

theorem mem_of_hasNl {cs : Str} (h : hasNl cs = true) : ∃ x ∈ cs, (x != nl) = false := by
  simp only [hasNl, List.contains_iff_mem] at h
  exact ⟨nl, h, by simp⟩

theorem dropWhile_nl {cs : Str} (h : hasNl cs = true) : ∃ more, cs.dropWhile (· != nl) = nl :: more := by
  induction cs with
  | nil => simp [hasNl] at h
  | cons c cs ih =>
    by_cases hc : c = nl
    · exact ⟨cs, by simp [hc]⟩
    · have : hasNl cs = true := by
        simp only [hasNl, List.contains_iff_mem, List.mem_cons] at h ⊢
        rcases h with h | h
        · exact absurd h.symm hc
        · exact h
      obtain ⟨more, hm⟩ := ih this
      exact ⟨more, by simp [hc, hm]⟩

theorem commentSpan_local (c : Char) (cs R : Str) (h : hasNl cs = true) :
    Comment.commentSpan (c :: (cs ++ '%' :: R)) = Comment.commentSpan (c :: cs) := by
  obtain ⟨h1, h2⟩ := takeWhile_stop_mem (· != nl) cs ('%' :: R) (mem_of_hasNl h)
  obtain ⟨more, hm⟩ := dropWhile_nl h
  simp only [Comment.commentSpan, List.tail_cons, h1, h2, hm, List.cons_append,
    takeWhile_stop1 isSpace '%' (by decide) more R]

theorem scanComment_local (c : Char) (cs R : Str) (h : hasNl cs = true) :
    scanComment 0 (c :: cs ++ '%' :: R) = scanComment 0 (c :: cs) := by
  have hk := commentSpan_local c cs R h
  rw [Comment.commentSpan_eq_commentLen, Comment.commentSpan_eq_commentLen] at hk
  have hb := (ScannerAux.commentLen_bounds c cs).2
  simp only [scanComment, List.cons_append, hk]
  rw [show c :: (cs ++ '%' :: R) = (c :: cs) ++ '%' :: R from rfl, List.take_append_of_le_length hb]

theorem idxOf_append (f : Char → Bool) : ∀ (a b : Str), idxOf f a < a.length →
    idxOf f (a ++ b) = idxOf f a
  | [], _, h => by simp [idxOf] at h
  | c :: a, b, h => by
    simp only [List.cons_append, idxOf] at h ⊢
    split
    · rfl
    · rename_i hc
      rw [if_neg hc] at h
      rw [idxOf_append f a b (by simpa using h)]

theorem scanVerb_local (T : Tables) (X R : Str) (h5 : 5 ≤ X.length) (hne : X.drop 5 ≠ [])
    (hd : (scanVerb T [] 0 X).diag = none) :
    scanVerb T [] 0 (X ++ '%' :: R) = scanVerb T [] 0 X := by
  unfold scanVerb at hd ⊢
  simp only [] at hd ⊢
  rw [List.drop_append_of_le_length h5]
  cases hY : X.drop 5 with
  | nil => exact absurd hY hne
  | cons delim body =>
    rw [hY] at hd
    simp only [List.cons_append] at hd ⊢
    have hj := ScannerAux.idxOf_le (fun c => c == delim || c == nl) body
    cases hb : body.drop (idxOf (fun c => c == delim || c == nl) body) with
    | nil => rw [hb] at hd; simp at hd
    | cons c' tl =>
      have hlt : idxOf (fun c => c == delim || c == nl) body < body.length := by
        have := congrArg List.length hb
        simp only [List.length_drop, List.length_cons] at this
        omega
      rw [idxOf_append _ body ('%' :: R) hlt, List.drop_append_of_le_length hj, hb,
        List.take_append_of_le_length hj]
      rfl

theorem startsWith_length {s p : Str} (h : startsWith s p = true) : p.length ≤ s.length :=
  (ScannerAux.startsWith_spec s p h).1

theorem scanVerbatim_local (T : Tables) (X R : Str) (h6 : 6 ≤ X.length) (hE : endsSp X = true)
    (hd : (scanVerbatim T [] 0 X).diag = none) :
    scanVerbatim T [] 0 (X ++ '%' :: R) = scanVerbatim T [] 0 X := by
  unfold scanVerbatim at hd ⊢
  simp only [] at hd ⊢
  have hsp : ((X ++ '%' :: R).drop 6).takeWhile isSpace = (X.drop 6).takeWhile isSpace := by
    rw [List.drop_append_of_le_length h6, takeWhile_stop1 isSpace '%' (by decide)]
  rw [hsp]
  generalize hspd : (X.drop 6).takeWhile isSpace = sp at hd ⊢
  have hspl : sp.length ≤ (X.drop 6).length := by
    rw [← hspd]; exact ScannerAux.length_takeWhile_le' _ _
  have hp : 6 + sp.length ≤ X.length := by simp only [List.length_drop] at hspl; omega
  rw [List.drop_append_of_le_length hp]
  cases hA : X.drop (6 + sp.length) with
  | nil =>
    have hv : startsWith ('%' :: R) sVerbatimArg = false := by
      rw [show sVerbatimArg = '{' :: "verbatim}".toList from by decide]
      simp [startsWith]
    simp only [List.nil_append, List.isEmpty_nil, Bool.true_or, if_true, hv, Bool.not_false,
      Bool.or_true]
  | cons a A =>
    have hEA : endsSp (a :: A) = true := by
      rw [← hA]; exact endsSp_drop _ X hE (by rw [hA]; simp)
    have hsw := startsWith_local R (a :: A) sVerbatimArg hEA (by decide)
    rw [hA] at hd
    simp only [List.cons_append, List.isEmpty_cons, Bool.false_or] at hd ⊢
    rw [show a :: (A ++ '%' :: R) = (a :: A) ++ '%' :: R from rfl, hsw]
    by_cases hc : (decide (countNl sp > 1) || !startsWith (a :: A) sVerbatimArg) = true
    · simp only [if_pos hc]
    · simp only [if_neg hc] at hd ⊢
      have hsA : startsWith (a :: A) sVerbatimArg = true := by
        simp only [Bool.or_eq_true, Bool.not_eq_true', not_or] at hc
        cases hx : startsWith (a :: A) sVerbatimArg with
        | true => rfl
        | false => exact absurd hx hc.2
      have h10 : 10 ≤ (a :: A).length := by
        have := startsWith_length hsA
        rw [ScannerAux.sVerbatimArg_length] at this
        exact this
      have hp2 : 6 + sp.length + 10 ≤ X.length := by
        have := congrArg List.length hA
        simp only [List.length_drop] at this
        omega
      rw [List.drop_append_of_le_length hp2]
      cases hf : findSub sEndVerbatim (X.drop (6 + sp.length + 10)) with
      | none => rw [hf] at hd; simp at hd
      | some e =>
        have hneB : X.drop (6 + sp.length + 10) ≠ [] := by
          intro e0
          rw [e0] at hf
          have hemp : sEndVerbatim.isEmpty = false := by decide
          simp [findSub, hemp] at hf
        have hEB := endsSp_drop _ X hE hneB
        rw [findSub_local sEndVerbatim R (by decide) (by decide) _ e hEB hf]
        have he := (ScannerAux.findSub_spec _ _ _ hf).1
        simp only []
        rw [List.take_append_of_le_length (by omega)]

theorem macroLen_local (cs R : Str) (hne : cs ≠ []) :
    macroLen ('\\' :: cs ++ '%' :: R) = macroLen ('\\' :: cs) := by
  have hc : 0 < cs.length := List.length_pos_iff.mpr hne
  have e1 : decide (1 < ('\\' :: (cs ++ '%' :: R)).length) = true := by simp; omega
  have e2 : decide (1 < ('\\' :: cs).length) = true := by simp; omega
  simp only [macroLen, List.cons_append, List.tail_cons, takeWhile_stop1 macroChar '%' (by decide) cs R,
    e1, e2]

theorem scanMacro_local (T : Tables) (cs R : Str) (hE : endsSp ('\\' :: cs) = true)
    (hd : (scanMacro T [] 0 ('\\' :: cs)).diag = none) :
    scanMacro T [] 0 ('\\' :: cs ++ '%' :: R) = scanMacro T [] 0 ('\\' :: cs) := by
  have hne : cs ≠ [] := by
    intro e; subst e; simp [endsSp] at hE; exact absurd hE (by decide)
  have hk := macroLen_local cs R hne
  have hb := (ScannerAux.macroLen_bounds '\\' cs).2
  unfold scanMacro at hd ⊢
  simp only [] at hd ⊢
  rw [hk, List.take_append_of_le_length hb]
  generalize hmac : ('\\' :: cs).take (macroLen ('\\' :: cs)) = mac at hd ⊢
  have hml : mac.length ≤ ('\\' :: cs).length := by
    rw [← hmac, List.length_take]; exact Nat.min_le_right _ _
  by_cases h1 : (mac == sBegin) = true
  · simp only [if_pos h1] at hd ⊢
    have h6 : 6 ≤ ('\\' :: cs).length := by
      rw [beq_iff_eq] at h1
      rw [h1, ScannerAux.sBegin_length] at hml
      exact hml
    exact scanVerbatim_local T ('\\' :: cs) R h6 hE hd
  · simp only [if_neg h1] at hd ⊢
    by_cases h2 : (mac == sEnd) = true
    · simp only [if_pos h2]
    · simp only [if_neg h2] at hd ⊢
      by_cases h3 : (mac == sItem) = true
      · simp only [if_pos h3]
      · simp only [if_neg h3] at hd ⊢
        by_cases h4 : (mac == sVerb) = true
        · simp only [if_pos h4] at hd ⊢
          rw [beq_iff_eq] at h4
          have h5 : 5 ≤ ('\\' :: cs).length := by
            rw [h4, ScannerAux.sVerb_length] at hml
            exact hml
          have hne5 : ('\\' :: cs).drop 5 ≠ [] := by
            intro e0
            have hl5 : ('\\' :: cs).length = 5 := by
              have := congrArg List.length e0
              simp only [List.length_drop, List.length_nil] at this
              omega
            have hm5 : 5 ≤ macroLen ('\\' :: cs) := by
              have := congrArg List.length hmac
              rw [h4, ScannerAux.sVerb_length, List.length_take] at this
              omega
            have : ('\\' :: cs) = sVerb := by
              rw [← h4, ← hmac, List.take_of_length_le (by omega)]
            rw [this] at hE
            exact absurd hE (by decide)
          exact scanVerb_local T ('\\' :: cs) R h5 hne5 hd
        · simp only [if_neg h4]

/-- **re-synchronisation**: in front of a `%`, a text `X` that ends with white space behind its last
    line break is scanned without looking beyond it — provided the step on `X` alone reports no
    error (a `\verb` without closing delimiter, a `\begin{verbatim}` without `\end{verbatim}` would
    look for it behind `X`) -/
theorem nextToken_local (T : Tables) (hT : specialsLocal T = true) (X R : Str) (hX : X ≠ [])
    (hb : tailBlank X = true) (hd : (nextToken T [] 0 X).diag = none) :
    nextToken T [] 0 (X ++ '%' :: R) = nextToken T [] 0 X := by
  have hE := endsSp_of_tailBlank X hX hb
  cases X with
  | nil => exact absurd rfl hX
  | cons c cs =>
    have hm := matchSpecial_local T hT (c :: cs) R hE
    unfold nextToken at hd ⊢
    simp only [List.cons_append] at hd hm ⊢
    by_cases h1 : isSpace c = true
    · simp only [h1, if_true]
      exact scanSpace_local (c :: cs) R
    · simp only [h1, Bool.false_eq_true, if_false] at hd ⊢
      by_cases h2 : (c == '%') = true
      · simp only [h2, if_true]
        have hnl : hasNl cs = true := by
          simp only [tailBlank, Bool.and_eq_true, Bool.or_eq_true] at hb
          rcases hb.1 with h | h
          · exact absurd h h1
          · exact h
        exact scanComment_local c cs R hnl
      · simp only [h2, Bool.false_eq_true, if_false] at hd ⊢
        by_cases h3 : (c == '#') = true
        · simp only [h3, if_true]
          cases cs with
          | nil =>
            simp only [endsSp] at hE
            exact absurd hE h1
          | cons d ds => simp [scanArgToken]
        · simp only [h3, Bool.false_eq_true, if_false] at hd ⊢
          rw [hm]
          cases hms : matchSpecial T (c :: cs) with
          | some t => rfl
          | none =>
            rw [hms] at hd
            simp only [] at hd ⊢
            by_cases h4 : (c == '\\') = true
            · simp only [h4, if_true] at hd ⊢
              rw [beq_iff_eq] at h4
              subst h4
              exact scanMacro_local T cs R hE hd
            · simp only [h4, Bool.false_eq_true, if_false]

end Skip
end Yalafi
