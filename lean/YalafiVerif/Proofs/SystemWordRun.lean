/-
  Proofs/SystemWordRun.lean — a WORD of the reference survives blank-line removal as a whole.

  The end-to-end theorems of the filter give the output as `delLines marks (++ flows)`, where
  `marks` is a list of `PlainMacro.Mark`s (`some (c, pos)` = an output character with its position,
  `none` = a text-less Action token) and `delLines` the exact model of `remove_pure_action_lines`.
  Here: if the marks contain a run `W` of character marks WITHOUT a text-less mark in between whose
  first and last characters are no white space (a word, or a phrase — line breaks inside are
  allowed), then the output contains `W` as a contiguous block (`delLines_word`): the line of the
  first character and the line of the last character hold a visible character, and a line in
  between holds no text-less mark, so none of them is deleted.
  (Without the condition on the ends the claim is false: in `{} \nx` the run ` \nx` loses its blank
  and its line break, because the line `{} ` is blank and holds a text-less mark.)

  `run_of_decomp` turns the block into what the system-level theorems need: the offset `o` of the
  block in the plain text, `RunAt` for the position map, and the flagged text.
-/
import YalafiVerif.Proofs.SystemWord
import YalafiVerif.Proofs.PlainVanish
namespace Yalafi
namespace SystemWord

open PlainMacro

/-- first and last character exist and are no white space -/
def wordEnds (w : Str) : Bool :=
  match w.head?, w.getLast? with
  | some a, some b => !isSpace a && !isSpace b
  | _, _ => false

theorem wordEnds_facts {w : Str} (h : wordEnds w = true) :
    (∃ c cs, w = c :: cs ∧ isSpace c = false) ∧ (∀ c, w.getLast? = some c → isSpace c = false) := by
  unfold wordEnds at h
  split at h
  · rename_i a b ha hb
    simp only [Bool.and_eq_true, Bool.not_eq_true'] at h
    refine ⟨?_, ?_⟩
    · cases w with
      | nil => simp at ha
      | cons c cs =>
        simp only [List.head?_cons, Option.some.injEq] at ha
        subst ha
        exact ⟨_, _, rfl, h.1⟩
    · intro c hc
      rw [hb] at hc
      cases hc
      exact h.2
  · cases h

theorem not_nl_of_not_space {c : Char} (h : isSpace c = false) : (c == nl) = false := by
  cases hc : c == nl
  · rfl
  · have : c = nl := by simpa using hc
    subst this
    revert h
    decide

/-- inside the word: no text-less mark, so a line that is begun here is kept -/
theorem delGo_inner : ∀ (W : List (Char × Nat)) (cur : List (Char × Nat)) (b : Bool) (B : List Mark),
    (∀ wl, W.getLast? = some wl → isSpace wl.1 = false) → (W = [] → b = false) →
    delGo cur b false (W.map some ++ B) = cur ++ W ++ delGo [] false false B
  | [], cur, b, B, _, hb => by
    rw [hb rfl]
    simp only [List.map_nil, List.nil_append, List.append_nil]
    exact delGo_nb B cur false
  | cp :: rest, cur, b, B, hlast, _ => by
    have hlast' : ∀ wl, rest.getLast? = some wl → isSpace wl.1 = false := by
      intro wl hwl
      apply hlast wl
      cases rest with
      | nil => simp at hwl
      | cons x xs => simpa [List.getLast?_cons_cons] using hwl
    simp only [List.map_cons, List.cons_append, delGo]
    by_cases hnl : (cp.1 == nl) = true
    · have hrest : rest ≠ [] := by
        intro hr
        subst hr
        have := hlast cp (by simp)
        have h2 := not_nl_of_not_space this
        rw [hnl] at h2; cases h2
      simp only [hnl, if_true, Bool.and_false, Bool.false_eq_true, if_false]
      rw [delGo_inner rest [] true B hlast' (fun h => absurd h hrest)]
      simp
    · simp only [hnl, Bool.false_eq_true, if_false]
      rw [delGo_inner rest (cur ++ [cp]) (b && isSpace cp.1) B hlast' (fun h => by
        subst h
        have := hlast cp (by simp)
        simp [this])]
      simp

/-- the word itself, whatever the state of the line in front of it -/
theorem delGo_word (w0 : Char × Nat) (W' : List (Char × Nat)) (cur : List (Char × Nat)) (b act : Bool)
    (B : List Mark) (h0 : isSpace w0.1 = false)
    (hlast : ∀ wl, (w0 :: W').getLast? = some wl → isSpace wl.1 = false) :
    delGo cur b act ((w0 :: W').map some ++ B) = cur ++ (w0 :: W') ++ delGo [] false false B := by
  have hnl := not_nl_of_not_space h0
  simp only [List.map_cons, List.cons_append, delGo, hnl, Bool.false_eq_true, if_false, h0, Bool.and_false]
  rw [delGo_nb, delGo_inner W' [] false B (fun wl hwl => by
    apply hlast wl
    cases W' with
    | nil => simp at hwl
    | cons x xs => simpa [List.getLast?_cons_cons] using hwl) (fun _ => rfl)]
  simp

/-- … and with any marks in front -/
theorem delGo_prefix (W : List (Char × Nat)) (B : List Mark)
    (hW : ∃ w0 W', W = w0 :: W' ∧ isSpace w0.1 = false)
    (hlast : ∀ wl, W.getLast? = some wl → isSpace wl.1 = false) :
    ∀ (A : List Mark) (cur : List (Char × Nat)) (b act : Bool),
      ∃ X, delGo cur b act (A ++ (W.map some ++ B)) = X ++ (W ++ delGo [] false false B)
  | [], cur, b, act => by
    obtain ⟨w0, W', rfl, h0⟩ := hW
    exact ⟨cur, by rw [List.nil_append, delGo_word w0 W' cur b act B h0 hlast]; simp⟩
  | none :: xs, cur, b, act => by
    obtain ⟨X, hX⟩ := delGo_prefix W B hW hlast xs cur b true
    exact ⟨X, by simp only [List.cons_append, delGo]; exact hX⟩
  | some cp :: xs, cur, b, act => by
    simp only [List.cons_append, delGo]
    split
    · obtain ⟨X, hX⟩ := delGo_prefix W B hW hlast xs [] true false
      exact ⟨_ ++ X, by rw [hX, List.append_assoc]⟩
    · exact delGo_prefix W B hW hlast xs _ _ act

/-- **a word of the reference is a contiguous block of the output** -/
theorem delLines_word (A B : List Mark) (W : List (Char × Nat))
    (hW : ∃ w0 W', W = w0 :: W' ∧ isSpace w0.1 = false)
    (hlast : ∀ wl, W.getLast? = some wl → isSpace wl.1 = false) :
    ∃ X Y, delLines (A ++ (W.map some ++ B)) = X ++ (W ++ Y) := by
  obtain ⟨X, hX⟩ := delGo_prefix W B hW hlast A [] true false
  exact ⟨X, _, hX⟩

/-- a block of the output whose positions are `p, p+1, …` is a run of the map at the offset of the
    block, and the flagged text is the text of the block -/
theorem run_of_decomp (out X W Z : List (Char × Nat)) (p : Nat) (h : out = X ++ (W ++ Z))
    (hp : W.map (·.2) = List.range' p W.length) :
    X.length + W.length ≤ out.length ∧
    RunAt (out.map (·.2 + 1)) X.length W.length (p + 1) ∧
    ((out.map (·.1)).drop X.length).take W.length = W.map (·.1) := by
  subst h
  refine ⟨by simp, ?_, ?_⟩
  · unfold RunAt
    have hx : X.length = (X.map (·.2 + 1)).length := by simp
    have hw : W.length = (W.map (·.2 + 1)).length := by simp
    rw [List.map_append, List.map_append]
    conv => lhs; rw [hx, List.drop_left, hw, List.take_left]
    have : W.map (·.2 + 1) = (W.map (·.2)).map (· + 1) := by simp
    have hf : (fun x : Nat => x + 1) = (fun x => 1 + x) := by funext x; omega
    rw [this, hp, hf, List.map_add_range', Nat.add_comm]
  · have hx : X.length = (X.map (·.1)).length := by simp
    have hw : W.length = (W.map (·.1)).length := by simp
    rw [List.map_append, List.map_append]
    conv => lhs; rw [hx, List.drop_left, hw, List.take_left]

end SystemWord
end Yalafi
