/-
  Proofs/NoOpaqueStep.lean — step lemmas of the NoOpaque bundle: all functions of the mutual block except
  `callHandler` (Proofs/NoOpaqueHandler.lean).
-/
import YalafiVerif.Proofs.NoOpaqueDefs
set_option linter.unusedVariables false
namespace Yalafi
namespace NoOpaque
open M

variable {T : PTables}

theorem seq_step (fuel : Nat) (IH : AllGood T fuel) :
    ∀ buf envStop out, Good (expandSequence T (fuel + 1) buf envStop out) := by
  intro buf envStop out
  cases buf with
  | nil => simp only [expandSequence]; good IH
  | cons tok rest =>
    simp only [expandSequence]
    good IH

theorem text_step (fuel : Nat) (IH : AllGood T fuel) : ∀ toks, Good (getTextExpanded T (fuel + 1) toks) := by
  intro toks
  simp only [getTextExpanded]
  good IH

theorem envName_step (fuel : Nat) (IH : AllGood T fuel) :
    ∀ buf tok, Good (getEnvironmentName T (fuel + 1) buf tok) := by
  intro buf tok
  simp only [getEnvironmentName]
  good IH

theorem begin_step (fuel : Nat) (IH : AllGood T fuel) :
    ∀ buf tok math, Good (beginEnvironment T (fuel + 1) buf tok math) := by
  intro buf tok math
  simp only [beginEnvironment]
  good IH

theorem end_step (fuel : Nat) (IH : AllGood T fuel) :
    ∀ buf tok envStop, Good (endEnvironment T (fuel + 1) buf tok envStop) := by
  intro buf tok envStop
  simp only [endEnvironment]
  good IH

theorem macro_step (fuel : Nat) (IH : AllGood T fuel) :
    ∀ buf tok math, Good (expandMacro T (fuel + 1) buf tok math) := by
  intro buf tok math
  simp only [expandMacro]
  good IH

theorem args_step (fuel : Nat) (IH : AllGood T fuel) :
    ∀ buf mac start, DOk mac → Good (expandArguments T (fuel + 1) buf mac start) := by
  intro buf mac start hm
  have h1 := hm.1
  simp only [expandArguments]
  good IH

theorem item_step (fuel : Nat) (IH : AllGood T fuel) :
    ∀ buf tok out, Good (expandItem T (fuel + 1) buf tok out) := by
  intro buf tok out
  simp only [expandItem]
  good IH

theorem accent_step (fuel : Nat) (IH : AllGood T fuel) :
    ∀ buf tok, Good (expandAccent T (fuel + 1) buf tok) := by
  intro buf tok
  simp only [expandAccent]
  good IH

theorem work_step (fuel : Nat) (IH : AllGood T fuel) : ∀ latex, Good (parserWork T (fuel + 1) latex) := by
  intro latex
  simp only [parserWork]
  good IH

theorem init_step (hT : TOk T) (fuel : Nat) (IH : AllGood T fuel) :
    ∀ name md builtin options position, ModOk md →
      Good (initPackage T (fuel + 1) name md builtin options position) := by
  intro name md builtin options position hmd
  simp only [initPackage]
  good IH
  all_goals first
    | exact ⟨hmd⟩
    | (refine Good_foldlM _ ?_ _ _
       intro acc requ
       good IH
       exact ⟨findModule_ModOk hT false requ⟩)

theorem modParams_step (fuel : Nat) (IH : AllGood T fuel) :
    ∀ md options position, ModOk md → Good (modifyParameters T (fuel + 1) md options position) := by
  intro md options position hmd
  simp only [modifyParameters, hmd.notOpaque, Bool.false_eq_true, if_false]
  good IH
  all_goals
    refine ⟨?_⟩
    intro s hs
    exact ⟨AOk_foldl_setMacro _ hmd.macros _ hs.macros, AOk_foldl_setMacro _ hmd.envs _ hs.envs⟩

theorem keyvals_step (fuel : Nat) (IH : AllGood T fuel) :
    ∀ buf acc, Good (parseKeyvals T (fuel + 1) buf acc) := by
  intro buf acc
  simp only [parseKeyvals]
  good IH

theorem value_step (fuel : Nat) (IH : AllGood T fuel) :
    ∀ buf val, Good (parseValue T (fuel + 1) buf val) := by
  intro buf val
  simp only [parseValue]
  good IH

theorem expandKv_step (fuel : Nat) (IH : AllGood T fuel) :
    ∀ kvs, Good (expandKeyvals T (fuel + 1) kvs) := by
  intro kvs
  cases kvs with
  | nil => rw [expandKeyvals.eq_2]; exact Good_pure _
  | cons kv rest =>
    obtain ⟨k, v⟩ := kv
    cases v with
    | none => rw [expandKeyvals.eq_3]; good IH
    | some toks => rw [expandKeyvals.eq_4]; good IH

theorem modDesc_step (fuel : Nat) (IH : AllGood T fuel) :
    ∀ toks, Good (modifyDescription T (fuel + 1) toks) := by
  intro toks
  simp only [modifyDescription]
  good IH

theorem mathSec_step (fuel : Nat) (IH : AllGood T fuel) :
    ∀ buf start toksStop envStop out, Good (expandMathSection T (fuel + 1) buf start toksStop envStop out) := by
  intro buf start toksStop envStop out
  simp only [expandMathSection]
  good IH

theorem inline_step (fuel : Nat) (IH : AllGood T fuel) :
    ∀ buf tok, Good (expandInlineMath T (fuel + 1) buf tok) := by
  intro buf tok
  simp only [expandInlineMath]
  good IH

theorem dispLoop_step (fuel : Nat) (IH : AllGood T fuel) :
    ∀ buf start envName first next out, Good (displayLoop T (fuel + 1) buf start envName first next out) := by
  intro buf start envName first next out
  simp only [displayLoop]
  good IH

theorem display_step (fuel : Nat) (IH : AllGood T fuel) :
    ∀ buf tok envName remove, Good (expandDisplayMath T (fuel + 1) buf tok envName remove) := by
  intro buf tok envName remove
  simp only [expandDisplayMath]
  good IH

end NoOpaque
end Yalafi
